import Obao.Model.Prelude
/-!
Model of certificate revocation and CRL building in `internal/builtin/logical/pki`
(`crl_util.go revokeCert / buildAnyCRLs / buildAnyCRLsWithCerts / buildCRL`, `path_revoke.go pathRevokeWrite`,
`path_tidy.go doTidyCertStore / doTidyRevocationStore / doTidyRebuildCRL`, `path_config_crl.go pathCRLWrite`,
`path_fetch.go`, `path_ocsp.go getOcspStatus / lookupOcspIssuer / generateUnknownResponse`).

* certificates and issuers are named by ordinals (certificates: 0-based index into `certs`, printed `#k+1`;
  issuers: 1,2,… in creation order, never reused);  every issuer has its own key and subject, hence its own CRL;
* every request is a *program*: the list of its effective storage writes (`Step`s) in the order the code issues
  them; a fault or a crash cuts the program after a prefix.  The order in which the issuers' CRLs are written
  is Go map-iteration order, so programs take the orders (`o1` complete phase, `o2` delta phase) as inputs;
* a complete rebuild, per live issuer, persists the advanced CRL number (`crls/config`) and then writes the complete
  CRL with the issuer's previous next number `n`; after all issuers it persists the cleaned-up counters, then does
  the same for the delta CRLs numbered `n+1` (`buildAnyCRLs` → `rebuildDeltaCRLsHoldingLock`): complete CRLs of
  one issuer are numbered n, n+2, n+4, …;
* `log` is a ghost history of every CRL ever written (newest first) — "every complete CRL built afterwards".
Time is a model input: `now` advances only by `tick`.  Delta WAL / unified CRLs are outside the model
(`enable_delta` stays off: every delta CRL is empty).
-/
namespace Obao.PKIRevoke

structure Cert where
  issuer : Nat
  notAfter : Nat
  deriving DecidableEq, Repr

structure Cfg where
  autoRebuild : Bool
  disable : Bool
  allowExpired : Bool
  deriving DecidableEq, Repr

/-- one CRL written to storage -/
structure Ev where
  issuer : Nat
  delta : Bool
  number : Nat
  serials : List Nat
  disabled : Bool
  now : Nat
  deriving DecidableEq, Repr

structure St where
  nIssuers : Nat
  issuers : List Nat
  dflt : Option Nat
  certs : List Cert
  stored : List Nat                          -- certs/<serial> present
  revoked : List (Nat × Nat)                 -- revoked/<serial>: (certificate, revocation stamp)
  stamps : Nat
  counters : List (Nat × Nat)                -- crls/config: issuer ↦ next CRL number
  crls : List (Nat × (Nat × List Nat))       -- served complete CRL per issuer: (number, serials)
  deltas : List Nat                          -- issuers that have a stored delta CRL
  issuerSerial : List (Nat × Nat)            -- (issuer i, certificate k): i's OWN certificate carries k's serial number
  cfg : Cfg
  now : Nat
  log : List Ev
  deriving Repr

def init : St :=
  { nIssuers := 0, issuers := [], dflt := none, certs := [], stored := [], revoked := [], stamps := 0,
    counters := [], crls := [], deltas := [], issuerSerial := [], cfg := ⟨false, false, false⟩, now := 100, log := [] }

/-- safety buffer the harness passes to tidy (seconds) -/
def tidyBuffer : Nat := 1

inductive Step where
  | addIssuer (i : Nat)
  | delIssuer (i : Nat)
  | noteSerial (i k : Nat)
  | addCert (c : Cert) (stored : Bool)
  | tick (d : Nat)
  | putCert (k : Nat)
  | delCert (k : Nat)
  | putRevoked (k stamp : Nat)
  | delRevoked (k : Nat)
  | putCRL (i num : Nat) (serials : List Nat) (disabled : Bool)
  | putDelta (i num : Nat)
  | delCRL (i : Nat)
  | delDelta (i : Nat)
  | putCounters (cs : List (Nat × Nat))
  | putCfg (c : Cfg)
  deriving DecidableEq, Repr

def isRevoked (s : St) (k : Nat) : Bool := s.revoked.any (fun p => p.1 == k)

/-- next CRL number of an issuer; an issuer without a CRL id gets a fresh id whose counter starts at 1 -/
def counter (s : St) (i : Nat) : Nat :=
  match s.counters.lookup i with
  | some n => n
  | none => 1

/-- the issuer on whose CRL a revoked certificate is placed: its own issuer while that exists, else the
    default issuer ("unassigned" certificates), else nobody -/
def assigned (s : St) (k : Nat) : Option Nat :=
  match s.certs[k]? with
  | none => none
  | some c => if c.issuer ∈ s.issuers then some c.issuer else s.dflt

/-- content of issuer `i`'s CRL: the revoked certificates ASSOCIATED with `i`.  `getLocalRevokedCertEntries` skips a
    `revoked/` entry only when it is byte-for-byte one of the issuers' own certificates; the certificates of this
    table are never issuer certificates, so the skip never applies to them — in particular not when a (later
    imported) issuer's own certificate merely shares a serial number with one of them: `issuerSerial` is not
    consulted here. -/
def crlSerials (s : St) (i : Nat) : List Nat :=
  (s.revoked.map Prod.fst).filter (fun k => assigned s k == some i)

def setAssoc {β : Type} (l : List (Nat × β)) (i : Nat) (v : β) : List (Nat × β) :=
  (i, v) :: l.filter (fun p => p.1 != i)

def applyStep (s : St) : Step → St
  | .addIssuer i => { s with nIssuers := i, issuers := s.issuers ++ [i],
                             dflt := match s.dflt with | none => some i | some d => some d }
  | .delIssuer i => { s with issuers := s.issuers.filter (· != i),
                             dflt := if s.dflt = some i then none else s.dflt }
  | .noteSerial i k => { s with issuerSerial := (i, k) :: s.issuerSerial }
  | .addCert c st => { s with certs := s.certs ++ [c],
                              stored := if st then s.certs.length :: s.stored else s.stored }
  | .tick d => { s with now := s.now + d }
  | .putCert k => { s with stored := if k ∈ s.stored then s.stored else k :: s.stored }
  | .delCert k => { s with stored := s.stored.filter (· != k) }
  | .putRevoked k t => { s with revoked := setAssoc s.revoked k t, stamps := max s.stamps t }
  | .delRevoked k => { s with revoked := s.revoked.filter (fun p => p.1 != k) }
  | .putCRL i n ser dis => { s with crls := setAssoc s.crls i (n, ser),
                                    log := ⟨i, false, n, ser, dis, s.now⟩ :: s.log }
  | .putDelta i n => { s with deltas := if i ∈ s.deltas then s.deltas else i :: s.deltas,
                              log := ⟨i, true, n, [], s.cfg.disable, s.now⟩ :: s.log }
  | .delCRL i => { s with crls := s.crls.filter (fun p => p.1 != i) }
  | .delDelta i => { s with deltas := s.deltas.filter (· != i) }
  | .putCounters cs => { s with counters := cs }
  | .putCfg c => { s with cfg := c }

def applySteps (s : St) (l : List Step) : St := l.foldl applyStep s

/-- CRLs (complete, delta) of issuers that no longer exist but are still referenced by `crls/config` -/
def staleDeletes (s : St) : List Step :=
  ((s.counters.map Prod.fst).filter (fun i => !(i ∈ s.issuers))).flatMap fun i =>
    (if s.crls.any (fun p => p.1 == i) then [Step.delCRL i] else []) ++
    (if i ∈ s.deltas then [Step.delDelta i] else [])

/-- `crls/config` as persisted while a phase of a rebuild is under way (`base` = 0 complete phase, 1 delta phase;
    `done` = the issuers whose CRL number has been advanced in this phase).  In the complete phase the entries of
    deleted issuers are still there and an issuer without a CRL id shows up once its turn has come. -/
def countersAt (s : St) (base : Nat) (done : List Nat) (complete : Bool) : List (Nat × Nat) :=
  (if complete then s.counters.filter (fun p => !(p.1 ∈ s.issuers)) else []) ++
  (s.issuers.filter (fun i => i ∈ done || !complete || (s.counters.lookup i).isSome)).map
    fun i => (i, counter s i + base + (if i ∈ done then 1 else 0))

/-- one phase of a rebuild: per issuer, FIRST persist the advanced CRL number (`kOf`), THEN write the CRL signed
    with the old one (`mk`) — since the repair of finding F17 an interruption skips a number, never reuses one -/
def phaseSteps (mk : Nat → Step) (kOf : List Nat → Step) : List Nat → List Nat → List Step
  | _, [] => []
  | done, a :: l => kOf (a :: done) :: mk a :: phaseSteps mk kOf (a :: done) l

/-- `crlBuilder.rebuild(sc, forceNew)` = `buildAnyCRLs(complete)` followed by the delta rebuild -/
def rebuildSteps (s : St) (forceNew : Bool) (o1 o2 : List Nat) : List Step :=
  if s.cfg.disable && !forceNew then [] else
  phaseSteps (fun i => Step.putCRL i (counter s i) (if s.cfg.disable then [] else crlSerials s i) s.cfg.disable)
      (fun done => Step.putCounters (countersAt s 0 done true)) [] (o1.filter (· ∈ s.issuers))
  ++ staleDeletes s
  ++ [Step.putCounters (s.issuers.map fun i => (i, counter s i + 1))]
  ++ phaseSteps (fun i => Step.putDelta i (counter s i + 1))
      (fun done => Step.putCounters (countersAt s 1 done false)) [] (o2.filter (· ∈ s.issuers))
  ++ [Step.putCounters (s.issuers.map fun i => (i, counter s i + 2))]

inductive Res where
  | ok
  | okIssuer (i : Nat)
  | okCert (k : Nat)
  | revoked (stamp : Nat)
  | expired
  | notFound
  | noSigner
  | isIssuer
  | noIssuer
  | badOp
  deriving DecidableEq, Repr

/-- some present issuer's own certificate has the serial number of certificate `k` (`revokeCert` then refuses:
    "adding issuer to its own CRL is not allowed" — its guard compares serial numbers only) -/
def collides (s : St) (k : Nat) : Bool := s.issuerSerial.any (fun p => p.2 == k && p.1 ∈ s.issuers)

/-- revoke-by-certificate stores a presented certificate the mount does not have yet -/
def revokePre (s : St) (k : Nat) (byCert : Bool) : List Step :=
  if byCert && !(k ∈ s.stored) then [Step.putCert k] else []

/-- `pathRevokeWrite` + `revokeCert`.  Since the repair of finding F5 (commit e3ecbb3) the already-revoked branch
    rebuilds the CRLs too when auto-rebuild is off: an earlier attempt may have been interrupted after the
    revocation record was written and before the CRL was. -/
def revokeProg (s : St) (k : Nat) (byCert : Bool) (o1 o2 : List Nat) : List Step × Res :=
  match s.certs[k]? with
  | none => ([], .badOp)
  | some c =>
    if !byCert && !(k ∈ s.stored) then ([], .notFound) else
    if byCert && !(k ∈ s.stored) && !(c.issuer ∈ s.issuers) then ([], .noSigner) else
    let pre := revokePre s k byCert
    if collides s k then (pre, .isIssuer) else
    match s.revoked.lookup k with
    | some t =>
      if s.cfg.autoRebuild then (pre, .revoked t)
      else (pre ++ rebuildSteps (applySteps s pre) false o1 o2, .revoked t)
    | none =>
      if c.notAfter < s.now + 2 && !s.cfg.allowExpired then (pre, .expired) else
      let t := s.stamps + 1
      let rec1 := pre ++ [Step.putRevoked k t]
      if s.cfg.autoRebuild then (rec1, .revoked t)
      else (rec1 ++ rebuildSteps (applySteps s rec1) false o1 o2, .revoked t)

/-- past NotAfter by more than the safety buffer (`time.Since(NotAfter) > buffer`) -/
def tidyExpired (s : St) (k : Nat) : Bool :=
  match s.certs[k]? with
  | none => false
  | some c => c.notAfter + tidyBuffer < s.now

/-- the certificate's issuer no longer exists (its revocation entry's issuer id is stale or empty) -/
def issuerGone (s : St) (k : Nat) : Bool :=
  match s.certs[k]? with
  | none => false
  | some c => !(c.issuer ∈ s.issuers)

def insertSorted (a : Nat) : List Nat → List Nat
  | [] => [a]
  | b :: l => if a ≤ b then a :: b :: l else b :: insertSorted a l

def sortNat (l : List Nat) : List Nat := l.foldr insertSorted []

/-- `startTidyOperation`: certificate-store pass (`doTidyCertStore`), revocation-store pass
    (`doTidyRevocationStore`), CRL rebuild when a revocation entry went away and auto-rebuild is off.
    Both passes are written over the state at the start of the run: pass 1 only removes entries that pass 2
    would skip or remove as well (expired ones), so what pass 2 sees of the others is unchanged. -/
def tidyPass1 (s : St) (cs rc : Bool) : List Step :=
  if cs then (sortNat s.stored).flatMap fun k =>
    if tidyExpired s k then
      [Step.delCert k] ++ (if isRevoked s k && rc then [Step.delRevoked k] else [])
    else []
  else []

def tidyPass2 (s : St) (cs rc assoc : Bool) : List Step :=
  if rc || assoc then (sortNat (s.revoked.map Prod.fst)).flatMap fun k =>
    if rc && tidyExpired s k then
      if cs && k ∈ s.stored then []                       -- already removed by pass 1
      else [Step.delRevoked k] ++ (if k ∈ s.stored then [Step.delCert k] else [])
    else if assoc && issuerGone s k then
      match s.revoked.lookup k with
      | some t => [Step.putRevoked k t]
      | none => []
    else []
  else []

def removesEntry : Step → Bool
  | .delRevoked _ => true
  | _ => false

def tidyProg (s : St) (cs rc assoc : Bool) (o1 o2 : List Nat) : List Step :=
  let passes := tidyPass1 s cs rc ++ tidyPass2 s cs rc assoc
  passes ++ (if passes.any removesEntry && !s.cfg.autoRebuild
             then rebuildSteps (applySteps s passes) false o1 o2 else [])

/-- a field of a `config/crl` write: absent = keep the stored value -/
def orKeep : Option Bool → Bool → Bool
  | some b, _ => b
  | none, old => old

/-- `pathCRLWrite`; `none` leaves a setting unchanged -/
def configProg (s : St) (a d x : Option Bool) (o1 o2 : List Nat) : List Step :=
  let c : Cfg := { autoRebuild := orKeep a s.cfg.autoRebuild, disable := orKeep d s.cfg.disable,
                   allowExpired := orKeep x s.cfg.allowExpired }
  let s1 := applyStep s (.putCfg c)
  [Step.putCfg c] ++
    -- the rebuild is decided by the REQUEST (since the repair F70: the configuration is stored first, so a retry after
    -- a failed rebuild would see no difference to the stored one): `disable` given, or `auto_rebuild` given and false
    (if d.isSome || (a.isSome && !c.autoRebuild) then rebuildSteps s1 true o1 o2 else [])

/-- `root/generate`: the new issuer becomes the default when there is none (then `crls/config` is re-persisted
    by the default-change bookkeeping), and all CRLs are rebuilt with `forceNew` -/
def addIssuerProg (s : St) (o1 o2 : List Nat) : List Step × Res :=
  let i := s.nIssuers + 1
  let s1 := applyStep s (.addIssuer i)
  let pre : List Step := if s.dflt.isNone then
      [Step.putCounters (s.counters.filter fun p => p.1 ∈ s.issuers)] else []
  ([Step.addIssuer i] ++ pre ++ rebuildSteps (applySteps s1 pre) true o1 o2, .okIssuer i)

/-- `issuers/import/bundle` of an externally built CA certificate with its key.  `col = some k`: the CA's own
    certificate was given the serial number of certificate `k` by its external parent (a bookkeeping step of the
    model, not a write).  Otherwise exactly like `root/generate`: nothing in the revocation store changes, the new
    issuer becomes the default when there is none, and all CRLs are rebuilt with `forceNew`. -/
def importIssuerProg (s : St) (col : Option Nat) (o1 o2 : List Nat) : List Step × Res :=
  match col with
  | none => addIssuerProg s o1 o2
  | some k =>
    if s.certs.length ≤ k then ([], .badOp) else
    (Step.noteSerial (s.nIssuers + 1) k :: (addIssuerProg (applyStep s (.noteSerial (s.nIssuers + 1) k)) o1 o2).1,
     .okIssuer (s.nIssuers + 1))

/-- `DELETE issuer/:ref` (an unknown reference is answered as if it had been deleted) -/
def delIssuerProg (s : St) (i : Nat) (o1 o2 : List Nat) : List Step × Res :=
  if !(i ∈ s.issuers) then ([], .ok) else
  let s1 := applyStep s (.delIssuer i)
  ([Step.delIssuer i] ++ rebuildSteps s1 true o1 o2, .ok)

/-- `issuer/:ref/issue/:role` (stored certificate with the given lifetime) -/
def issueProg (s : St) (i ttl : Nat) : List Step × Res :=
  if !(i ∈ s.issuers) then ([], .noIssuer)
  else ([Step.addCert ⟨i, s.now + ttl⟩ true], .okCert s.certs.length)

/-- a certificate signed with issuer `i`'s key outside the mount, valid for an hour or already expired (`NotAfter = now - 3600`; the
    model clock starts at 100, so the truncated subtraction gives 0 — still more than the tidy buffer in the past),
    unknown to the mount until it is presented to `revoke` -/
def craftProg (s : St) (i : Nat) (valid : Bool) : List Step × Res :=
  if i = 0 ∨ s.nIssuers < i then ([], .noIssuer)
  else ([Step.addCert ⟨i, if valid then s.now + 3600 else s.now - 3600⟩ false], .okCert s.certs.length)

/-! ### requests, executions, histories -/

inductive Op where
  | addIssuer
  | delIssuer (i : Nat)
  | issue (i ttl : Nat)
  | craft (i : Nat) (valid : Bool)
  | importIssuer (col : Option Nat)
  | revoke (k : Nat) (byCert : Bool)
  | rotate
  | tidy (cs rc assoc : Bool)
  | config (a d x : Option Bool)
  | restart
  | tick (d : Nat)
  deriving DecidableEq, Repr

/-- the program (effective writes, in order) and the answer of a request; `o1`/`o2` are the orders in which the
    complete / delta CRLs of the issuers are written.  A restart changes nothing the model keeps: the only
    volatile state of the backend that matters here (the cached CRL config and the force-rebuild flag) is
    re-read from storage / never set by a request in scope. -/
def prog (s : St) (o1 o2 : List Nat) : Op → List Step × Res
  | .addIssuer => addIssuerProg s o1 o2
  | .delIssuer i => delIssuerProg s i o1 o2
  | .issue i ttl => issueProg s i ttl
  | .craft i v => craftProg s i v
  | .importIssuer col => importIssuerProg s col o1 o2
  | .revoke k byCert => revokeProg s k byCert o1 o2
  | .rotate => (rebuildSteps s false o1 o2, .ok)
  | .tidy cs rc assoc => (tidyProg s cs rc assoc o1 o2, .ok)
  | .config a d x => (configProg s a d x o1 o2, .ok)
  | .restart => ([], .ok)
  | .tick d => ([Step.tick d], .ok)

/-- one execution of a request: the orders chosen by the runtime and, when a storage failure or a crash
    interrupts it, the number of writes that took effect -/
structure Run where
  op : Op
  o1 : List Nat
  o2 : List Nat
  cut : Option Nat
  deriving Repr

def cutSteps (p : List Step) : Option Nat → List Step
  | none => p
  | some j => p.take j

def exec (s : St) (r : Run) : St := applySteps s (cutSteps (prog s r.o1 r.o2 r.op).1 r.cut)

def answer (s : St) (r : Run) : Res := (prog s r.o1 r.o2 r.op).2

def run (s : St) (h : List Run) : St := h.foldl exec s

/-! ### observations -/

inductive Status where
  | absent | good | revoked (stamp : Nat)
  deriving DecidableEq, Repr

/-- `cert/<serial>` -/
def status (s : St) (k : Nat) : Status :=
  if !(k ∈ s.stored) then .absent else
  match s.revoked.lookup k with
  | some t => .revoked t
  | none => .good

inductive Ocsp where
  | good | revoked | unknown | unauthorized
  deriving DecidableEq, Repr

/-- the OCSP responder -/
def ocsp (s : St) (k : Nat) : Ocsp :=
  match s.certs[k]? with
  | none => .unauthorized
  | some c =>
    if c.issuer ∈ s.issuers then (if isRevoked s k then .revoked else .good)
    else if s.dflt.isSome then .unknown else .unauthorized

/-- the CRL served for an issuer -/
def served (s : St) (i : Nat) : Option (Nat × List Nat) :=
  if i ∈ s.issuers then s.crls.lookup i else none

end Obao.PKIRevoke
