/-!
`NewACL`'s merge of the `control_group` of several stanzas for ONE path pattern (internal/vault/policy/acl.go).
A control group = a TTL (0 = unset), `self_auth_allowed`, and named factors (each must be satisfied). Factors are
identified by their name here (the harness gives equal names to equal factors only).
-/
namespace Obao.ControlGroup

structure CG where
  ttl : Nat
  self : Bool
  factors : List String
  deriving DecidableEq, Repr

/-- the lowest SET ttl wins (0 = not set) -/
def ttlMerge (existing new : Nat) : Nat :=
  if new > 0 ∧ (existing = 0 ∨ new < existing) then new else existing

/-- merge of a later stanza's control group into the one already stored for the pattern -/
def CG.merge (e n : CG) : CG :=
  { ttl := ttlMerge e.ttl n.ttl, self := e.self && n.self,
    factors := e.factors ++ n.factors.filter (fun f => !e.factors.contains f) }

/-- a control group required by ANY stanza of the pattern stays required -/
def cgMerge : Option CG → Option CG → Option CG
  | none, x => x
  | x, none => x
  | some a, some b => some (a.merge b)

/-- what `NewACL` stores after inserting the stanzas in list order -/
def cgOf : List (Option CG) → Option CG
  | [] => none
  | c :: rest => rest.foldl cgMerge c

/-- the code before the repair of F97: the control group of the stanza inserted FIRST (possibly none) stays -/
def cgOfFirstOnly : List (Option CG) → Option CG
  | [] => none
  | c :: _ => c

end Obao.ControlGroup
