import Obao.Model.TTL
/-!
Model of the lease-tracking half of the expiration manager (`internal/vault/expiration.go`): which leases are in
storage, which the manager tracks (`pending` / `nonexpiring` / `irrevocable`), what `Renew` / `RenewToken` grant
and refuse, what revocation (sync, lazy = forced expiry, token tree) and the revocation job with its retry budget
do, and what a restart (`Stop` + `setupExpiration`, or a new core) restores.  Transliterated from `Register`,
`RegisterAuth`, `Renew`, `RenewToken`, `leaseEntry.renewable`, `updatePendingInternal`, `lazyRevokeInternal`,
`revokeCommon`, `RevokeByToken`, `revocationJob.Execute/OnFailure`, `markLeaseIrrevocable`, `Restore`, `Stop`.

Time is in whole seconds; every op carries its own `now`.  TTL arithmetic is `Obao.TTL.calcTTL` (the model of
`framework.CalculateTTL`, tied separately by stream `calcttl`).
-/
namespace Obao.Expiration
open Obao.TTL

/-- system / mount maximum and default lease TTL (32 days, the defaults of a test core) -/
def sysMax : Int := 2764800
def sysDefault : Int := 2764800
/-- `maxRevokeAttempts` -/
def maxRevokeAttempts : Nat := 6

structure Lease where
  id : Nat
  /-- token (auth) lease or secret lease -/
  isAuth : Bool
  /-- secret leases: the token lease that issued it (secondary index by token) -/
  owner : Nat
  issue : Int
  /-- `none` = zero `ExpireTime` -/
  expiry : Option Int
  /-- backend TTL (secret: fixed at issue; token: the TTL granted last) -/
  bttl : Int
  /-- backend maximum (secret) -/
  bmax : Int
  /-- explicit maximum (token) -/
  emax : Int
  renewable : Bool
  /-- `RevokeErr != ""` -/
  irrevocable : Bool
  /-- `nonexpiringToken()`: a root token whose auth has no TTL -/
  rootNonExp : Bool
  deriving DecidableEq, Repr

inductive FailMode where
  | none | transient (n : Nat) | always | unrecoverable
  deriving DecidableEq, Repr

structure St where
  stored : List Lease
  pending : List Nat
  irrevocable : List Nat
  nonexpiring : List Nat
  /-- secrets revoked at the backend / number of revoke calls it received -/
  revoked : List Nat
  calls : Nat
  fail : FailMode
  /-- the expire strategy is the no-op (timers fire into nothing) -/
  frozen : Bool
  next : Nat
  outOfFuel : Bool
  deriving DecidableEq, Repr

def St.init : St :=
  { stored := [], pending := [], irrevocable := [], nonexpiring := [], revoked := [], calls := 0, fail := .none,
    frozen := false, next := 0, outOfFuel := false }

def find? (s : St) (id : Nat) : Option Lease := s.stored.find? (·.id == id)

def putLease (s : St) (l : Lease) : St :=
  if s.stored.any (·.id == l.id) then { s with stored := s.stored.map fun x => if x.id == l.id then l else x }
  else { s with stored := s.stored ++ [l] }

def delLease (s : St) (id : Nat) : St := { s with stored := s.stored.filter (·.id != id) }

def ins (l : List Nat) (x : Nat) : List Nat := if l.contains x then l else l ++ [x]
/-- remove every occurrence -/
def rm (l : List Nat) (x : Nat) : List Nat := l.filter (· != x)

/-- `updatePendingInternal` -/
def updatePending (s : St) (l : Lease) : St :=
  if l.expiry.isNone && l.rootNonExp then
    { s with nonexpiring := ins s.nonexpiring l.id, pending := rm s.pending l.id }
  else if l.irrevocable then
    { s with pending := rm s.pending l.id, irrevocable := ins s.irrevocable l.id }
  else
    { s with pending := ins s.pending l.id }

/-- the in-memory part of `revokeCommon`'s tail: the lease is gone from every map -/
def untrack (s : St) (id : Nat) : St :=
  { s with pending := rm s.pending id, nonexpiring := rm s.nonexpiring id, irrevocable := rm s.irrevocable id }

/-- `le.ExpireTime.Before(now)` -/
def expired (l : Lease) (now : Int) : Bool :=
  match l.expiry with
  | some e => e < now
  | none => false

/-- a token is usable when its lease is stored and not past its expiry (`lookupInternal`); a root token created
without TTL takes the fast path there: its lease times are not consulted -/
def tokenLive (s : St) (id : Nat) (now : Int) : Bool :=
  match find? s id with
  | some l => l.isAuth && (l.rootNonExp || !expired l now)
  | none => false

/-- one call of the backend's revoke handler under the current failure mode: (succeeded, new state) -/
def backendRevoke (s : St) (id : Nat) : Bool × St :=
  let s := { s with calls := s.calls + 1 }
  match s.fail with
  | .none => (true, { s with revoked := s.revoked ++ [id] })
  | .transient 0 => (true, { s with revoked := s.revoked ++ [id] })
  | .transient (n+1) => (false, { s with fail := .transient n })
  | .always => (false, s)
  | .unrecoverable => (false, s)

/-- `lazyRevokeInternal`: the expiry becomes `now`, persisted, `updatePending` -/
def lazyRevoke (s : St) (id : Nat) (now : Int) : St :=
  match find? s id with
  | none => s
  | some l =>
    let l := { l with expiry := some now }
    updatePending (putLease s l) l

/-- `revokeTree` + `RevokeByToken` for token lease `id`: the leases it issued are lazily revoked (by ascending id),
its own lease entry is deleted and untracked -/
def revokeToken (s : St) (id : Nat) (now : Int) : St :=
  let owned := (s.stored.filter fun l => !l.isAuth && l.owner == id).map (·.id)
  let s := owned.foldl (fun s o => lazyRevoke s o now) s
  untrack (delLease s id) id

/-- `markLeaseIrrevocable`: `RevokeErr` persisted, the lease moves from `pending` to `irrevocable` -/
def markIrrevocable (s : St) (l : Lease) : St :=
  let s := putLease s { l with irrevocable := true }
  { s with irrevocable := ins s.irrevocable l.id, pending := rm s.pending l.id, nonexpiring := rm s.nonexpiring l.id }

/-- the revocation job of a SECRET lease with the retry loop of `OnFailure`: `attempts` failures so far -/
def secretJob : Nat → St → Lease → Nat → St
  | 0, s, _, _ => { s with outOfFuel := true }
  | fuel+1, s, l, attempts =>
    let (ok, s) := backendRevoke s l.id
    if ok then untrack (delLease s l.id) l.id
    else
      let attempts := attempts + 1
      if attempts ≥ maxRevokeAttempts || s.fail == .unrecoverable then
        markIrrevocable s l
      else secretJob fuel s l attempts

/-- `Revoke(leaseID)` called synchronously: `none` = the backend refused (state: only the call is counted) -/
def revokeSync (s : St) (l : Lease) (now : Int) : Bool × St :=
  if l.isAuth then (true, revokeToken s l.id now)
  else
    let (ok, s) := backendRevoke s l.id
    if ok then (true, untrack (delLease s l.id) l.id) else (false, s)

/-- the timers: every pending lease whose expiry is not in the future is handed to a revocation job, until none
is left (a token's job expires the leases it issued) -/
def settle : Nat → St → Int → St
  | 0, s, _ => { s with outOfFuel := true }
  | fuel+1, s, now =>
    if s.frozen then s else
    match s.stored.find? (fun l => s.pending.contains l.id && (match l.expiry with | some e => e ≤ now | none => false)) with
    | none => s
    | some l =>
      let s := if l.isAuth then revokeToken s l.id now else secretJob (maxRevokeAttempts + 1) s l 0
      settle fuel s now

def settleFuel (s : St) : Nat := 2 * s.stored.length + 2

inductive Out where
  | okLease (id : Nat) (ttl : Int)
  | okTTL (ttl : Int)
  | ok
  | err (cls : String)
  | bad
  deriving DecidableEq, Repr

/-- `Register` after the request's own `CalculateTTL(sysView, 0, secret.TTL, 0, secret.MaxTTL, 0, time.Time{})` -/
def reg (s : St) (owner : Nat) (ttl max : Int) (renewable : Bool) (now : Int) : St × Out :=
  if !tokenLive s owner now then (s, .err "notoken") else
  match calcTTL { now, start := now, sysMax, sysDefault, increment := 0, backendTTL := ttl, period := 0,
                  backendMax := max, explicitMax := 0 } with
  | .ok t _ =>
    let l : Lease := { id := s.next, isAuth := false, owner, issue := now, expiry := some (now + t), bttl := ttl,
                       bmax := max, emax := 0, renewable, irrevocable := false, rootNonExp := false }
    let s := updatePending (putLease { s with next := s.next + 1 } l) l
    (s, .okLease l.id t)
  | _ => (s, .err "ttl")

/-- `auth/token/create` by the root token (orphan): TTL from `CalculateTTL(sysView, 0, ttl, 0, 0, explicitMax, now)`,
then `RegisterAuth` -/
def tokCreate (s : St) (ttl emax : Int) (renewable : Bool) (now : Int) : St × Out :=
  match calcTTL { now, start := now, sysMax, sysDefault, increment := 0, backendTTL := ttl, period := 0,
                  backendMax := 0, explicitMax := emax } with
  | .ok t _ =>
    let l : Lease := { id := s.next, isAuth := true, owner := s.next, issue := now, expiry := some (now + t),
                       bttl := t, bmax := 0, emax, renewable, irrevocable := false, rootNonExp := false }
    let s := updatePending (putLease { s with next := s.next + 1 } l) l
    (s, .okLease l.id t)
  | _ => (s, .err "ttl")

/-- a non-expiring root token: `RegisterAuth` with a zero expiry ⇒ `nonexpiring` -/
def rootCreate (s : St) (now : Int) : St × Out :=
  let l : Lease := { id := s.next, isAuth := true, owner := s.next, issue := now, expiry := none, bttl := 0, bmax := 0,
                     emax := 0, renewable := false, irrevocable := false, rootNonExp := true }
  let s := updatePending (putLease { s with next := s.next + 1 } l) l
  (s, .okLease l.id 0)

/-- `leaseEntry.renewable()`, in the code's order (the batch-token arm does not apply to service tokens) -/
def renewableCheck (l : Lease) (now : Int) : Option String :=
  if l.irrevocable then some "irrevocable"
  else if l.expiry.isNone then some "notrenewable"
  else if expired l now then some "expired"
  else if !l.renewable then some "notrenewable"
  else none

/-- `ExpirationManager.Renew` (secret leases) -/
def renew (s : St) (id : Nat) (incr : Int) (now : Int) : St × Out :=
  match find? s id with
  | none => (s, .err "notfound")
  | some l =>
    match renewableCheck l now with
    | some e => (s, .err e)
    | none =>
      match calcTTL { now, start := l.issue, sysMax, sysDefault, increment := incr, backendTTL := l.bttl, period := 0,
                      backendMax := l.bmax, explicitMax := 0 } with
      | .ok t _ =>
        let l := { l with expiry := some (now + t) }
        (updatePending (putLease s l) l, .okTTL t)
      | .errPast => (s, .err "pastmax")
      | .errMaxTTL => (s, .err "ttl")

/-- `auth/token/renew` → `RenewToken`: the token must be usable; the backend TTL is the TTL granted last -/
def tokRenew (s : St) (id : Nat) (incr : Int) (now : Int) : St × Out :=
  if !tokenLive s id now then (s, .err "notoken") else
  match find? s id with
  | none => (s, .err "notoken")
  | some l =>
    match renewableCheck l now with
    | some e => (s, .err e)
    | none =>
      match calcTTL { now, start := l.issue, sysMax, sysDefault, increment := incr, backendTTL := l.bttl, period := 0,
                      backendMax := 0, explicitMax := l.emax } with
      | .ok t _ =>
        let l := { l with expiry := some (now + t), bttl := t }
        (updatePending (putLease s l) l, .okTTL t)
      | .errPast => (s, .err "pastmax")
      | .errMaxTTL => (s, .err "ttl")

/-- `sys/leases/revoke` (`sync` or lazy) -/
def revoke (s : St) (id : Nat) (sync : Bool) (now : Int) : St × Out :=
  match find? s id with
  | none => (s, .ok)
  | some l =>
    if sync then
      match revokeSync s l now with
      | (true, s) => (settle (settleFuel s) s now, .ok)
      | (false, s) => (s, .err "revoke")
    else
      let s := lazyRevoke s id now
      (settle (settleFuel s) s now, .ok)

/-- `auth/token/revoke`: an unusable / unknown token is a no-op -/
def tokRevoke (s : St) (id : Nat) (now : Int) : St × Out :=
  if !tokenLive s id now then (s, .ok) else
  let s := revokeToken s id now
  (settle (settleFuel s) s now, .ok)

/-- the harness's time machine: the lease was issued `secs` earlier (issue and expiry move back), `updatePending` -/
def age (s : St) (id : Nat) (secs : Int) (now : Int) : St × Out :=
  match find? s id with
  | none => (s, .err "notfound")
  | some l =>
    let l := { l with issue := l.issue - secs, expiry := l.expiry.map (· - secs) }
    let s := updatePending (putLease s l) l
    (settle (settleFuel s) s now, .ok)

/-- `Stop` + `setupExpiration` / a new core: memory is rebuilt from storage by `Restore` (`updatePending` per stored
lease), the strategy is the real one again, expired leases fire at once -/
def restore (stored : List Lease) (s : St) : St :=
  stored.foldl updatePending s

def restart (s : St) (now : Int) : St :=
  let s := { s with pending := [], irrevocable := [], nonexpiring := [], frozen := false }
  let s := restore s.stored s
  settle (settleFuel s) s now

/-- the operations of a history -/
inductive Op where
  | tokCreate (ttl emax : Int) (renewable : Bool) (now : Int)
  | rootCreate (now : Int)
  | reg (owner : Nat) (ttl max : Int) (renewable : Bool) (now : Int)
  | renew (id : Nat) (incr now : Int)
  | tokRenew (id : Nat) (incr now : Int)
  | revoke (id : Nat) (sync : Bool) (now : Int)
  | tokRevoke (id : Nat) (now : Int)
  | age (id : Nat) (secs now : Int)
  | setFail (m : FailMode)
  | freeze (on : Bool)
  | restart (now : Int)
  /-- a crash at ANY point of any operation followed by a restart: storage holds an arbitrary set of lease entries
  (in particular any prefix of the writes of the interrupted operation), memory is rebuilt from it -/
  | crashRestart (stored : List Lease) (now : Int)
  deriving Repr

def applyOp (s : St) : Op → St × Out
  | .tokCreate ttl emax ren now => tokCreate s ttl emax ren now
  | .rootCreate now => rootCreate s now
  | .reg owner ttl max ren now => reg s owner ttl max ren now
  | .renew id incr now => renew s id incr now
  | .tokRenew id incr now => tokRenew s id incr now
  | .revoke id sync now => revoke s id sync now
  | .tokRevoke id now => tokRevoke s id now
  | .age id secs now => age s id secs now
  | .setFail m => ({ s with fail := m }, .ok)
  | .freeze on => ({ s with frozen := on }, .ok)
  | .restart now => (restart s now, .ok)
  | .crashRestart stored now => (restart { s with stored := stored } now, .ok)

def run (s : St) : List Op → St
  | [] => s
  | o :: rest => run (applyOp s o).1 rest

/-- every id in storage is tracked in one of the three maps, and nothing else is -/
def trackedEqStored (s : St) : Bool :=
  s.stored.all (fun l => s.pending.contains l.id || s.irrevocable.contains l.id || s.nonexpiring.contains l.id) &&
  (s.pending ++ s.irrevocable ++ s.nonexpiring).all (fun id => s.stored.any (·.id == id))

end Obao.Expiration
