import Obao.Model.TTL
/-!
Model of the lease-tracking half of the expiration manager (`internal/vault/expiration.go`): which leases are in
storage, which the manager tracks (`pending` / `nonexpiring` / `irrevocable`), what `Renew` / `RenewToken` grant
and refuse, what revocation (sync, lazy = forced expiry, token tree) and the revocation job with its retry budget
do, and what a restart (`Stop` + `setupExpiration`, or a new core) restores.  Transliterated from `Register`,
`RegisterAuth`, `Renew`, `RenewToken`, `leaseEntry.renewable`, `updatePendingInternal`, `lazyRevokeInternal`,
`revokeCommon`, `RevokeByToken`, `revocationJob.Execute/OnFailure`, `markLeaseIrrevocable`, `Restore`, `Stop`.

Time is in whole seconds; every op carries its own `now`.  TTL arithmetic is `Obao.TTL.calcTTL` (the model of
`framework.CalculateTTL`, tied separately by stream `calcttl`).
-/
namespace Obao.Expiration
open Obao.TTL

/-- system / mount maximum and default lease TTL (32 days, the defaults of a test core) -/
def sysMax : Int := 2764800
def sysDefault : Int := 2764800
/-- `maxRevokeAttempts` -/
def maxRevokeAttempts : Nat := 6

structure Lease where
  id : Nat
  /-- token (auth) lease or secret lease -/
  isAuth : Bool
  /-- secret leases: the token lease that issued it (secondary index by token) -/
  owner : Nat
  issue : Int
  /-- `none` = zero `ExpireTime` -/
  expiry : Option Int
  /-- backend TTL (secret: fixed at issue; token: the TTL granted last) -/
  bttl : Int
  /-- backend maximum (secret) -/
  bmax : Int
  /-- explicit maximum (token) -/
  emax : Int
  renewable : Bool
  /-- `RevokeErr != ""` -/
  irrevocable : Bool
  /-- `nonexpiringToken()`: a root token whose auth has no TTL -/
  rootNonExp : Bool
  /-- namespace of the lease (0 = root; the lease id carries it as its suffix) -/
  ns : Nat := 0
  /-- secret lease issued to a BATCH token (`leaseEntry.ClientTokenType`; batch tokens have no lease of their own) -/
  batch : Bool := false
  deriving DecidableEq, Repr

inductive FailMode where
  | none | transient (n : Nat) | always | unrecoverable
  deriving DecidableEq, Repr

structure St where
  stored : List Lease
  pending : List Nat
  irrevocable : List Nat
  nonexpiring : List Nat
  /-- secrets revoked at the backend / number of revoke calls it received -/
  revoked : List Nat
  calls : Nat
  fail : FailMode
  /-- the expire strategy is the no-op (timers fire into nothing) -/
  frozen : Bool
  next : Nat
  outOfFuel : Bool
  /-- `restoreLoaded`: (lease id, its namespace) — "this lease already has its timer, a restore may skip it" -/
  marks : List (Nat × Nat) := []
  /-- the global restore-mode counter -/
  restoreMode : Nat := 0
  /-- sealed namespaces -/
  sealed : List Nat := []
  /-- namespace restores in flight: (namespace, the one lease of it that has not been handled yet) -/
  held : List (Nat × Nat) := []
  deriving DecidableEq, Repr

def St.init : St :=
  { stored := [], pending := [], irrevocable := [], nonexpiring := [], revoked := [], calls := 0, fail := .none,
    frozen := false, next := 0, outOfFuel := false }

def find? (s : St) (id : Nat) : Option Lease := s.stored.find? (·.id == id)

def putLease (s : St) (l : Lease) : St :=
  if s.stored.any (·.id == l.id) then { s with stored := s.stored.map fun x => if x.id == l.id then l else x }
  else { s with stored := s.stored ++ [l] }

def delLease (s : St) (id : Nat) : St := { s with stored := s.stored.filter (·.id != id) }

def ins (l : List Nat) (x : Nat) : List Nat := if l.contains x then l else l ++ [x]
/-- remove every occurrence -/
def rm (l : List Nat) (x : Nat) : List Nat := l.filter (· != x)

/-- `updatePendingInternal` -/
def updatePending (s : St) (l : Lease) : St :=
  if l.expiry.isNone && l.rootNonExp then
    { s with nonexpiring := ins s.nonexpiring l.id, pending := rm s.pending l.id }
  else if l.irrevocable then
    { s with pending := rm s.pending l.id, irrevocable := ins s.irrevocable l.id }
  else
    { s with pending := ins s.pending l.id }

/-- the in-memory part of `revokeCommon`'s tail: the lease is gone from every map -/
def untrack (s : St) (id : Nat) : St :=
  { s with pending := rm s.pending id, nonexpiring := rm s.nonexpiring id, irrevocable := rm s.irrevocable id }

def marked (s : St) (id : Nat) : Bool := s.marks.any (·.1 == id)

/-- the side effect of `loadEntry` on an entry it found while ANY restore is in flight (restore mode is a global
counter): unless the lease is already marked, mark it in `restoreLoaded` and `updatePending` it -/
def loadMark (s : St) (l : Lease) : St :=
  if s.restoreMode > 0 && !marked s l.id then updatePending { s with marks := s.marks ++ [(l.id, l.ns)] } l else s

/-- `processRestore` (always called with restore mode on): a marked lease is skipped, the others are loaded, marked
and tracked -/
def processRestore (s : St) (l : Lease) : St :=
  if marked s l.id then s else updatePending { s with marks := s.marks ++ [(l.id, l.ns)] } l

/-- the drain at the end of a namespace restore: the marks of THAT namespace go -/
def drainMarks (s : St) (ns : Nat) : St := { s with marks := s.marks.filter (·.2 != ns) }

/-- the lease cannot be touched: its namespace is sealed, or its restore is the one held in flight -/
def unreachable (s : St) (l : Lease) : Bool := s.sealed.contains l.ns || s.held.any (·.2 == l.id)

/-- `le.ExpireTime.Before(now)` -/
def expired (l : Lease) (now : Int) : Bool :=
  match l.expiry with
  | some e => e < now
  | none => false

/-- a token is usable when its lease is stored and not past its expiry (`lookupInternal`); a root token created
without TTL takes the fast path there: its lease times are not consulted -/
def tokenLive (s : St) (id : Nat) (now : Int) : Bool :=
  match find? s id with
  | some l => l.isAuth && !unreachable s l && (l.rootNonExp || !expired l now)
  | none => false

/-- one call of the backend's revoke handler under the current failure mode: (succeeded, new state) -/
def backendRevoke (s : St) (id : Nat) : Bool × St :=
  let s := { s with calls := s.calls + 1 }
  match s.fail with
  | .none => (true, { s with revoked := s.revoked ++ [id] })
  | .transient 0 => (true, { s with revoked := s.revoked ++ [id] })
  | .transient (n+1) => (false, { s with fail := .transient n })
  | .always => (false, s)
  | .unrecoverable => (false, s)

/-- `lazyRevokeInternal`: the expiry becomes `now`, persisted, `updatePending` -/
def lazyRevoke (s : St) (id : Nat) (now : Int) : St :=
  match find? s id with
  | none => s
  | some l =>
    if unreachable s l then s else                  -- sealed namespace: loadEntry fails; held restore: it would wait
    let s := loadMark s l
    let l := { l with expiry := some now }
    updatePending (putLease s l) l

/-- `revokeTree` + `RevokeByToken` for token lease `id`: the leases it issued are lazily revoked (by ascending id),
its own lease entry is deleted and untracked -/
def revokeToken (s : St) (id : Nat) (now : Int) : St :=
  let s := match find? s id with | some l => loadMark s l | none => s      -- Revoke → revokeCommon → loadEntry
  let owned := (s.stored.filter fun l => !l.isAuth && l.owner == id).map (·.id)
  let s := owned.foldl (fun s o => lazyRevoke s o now) s
  untrack (delLease s id) id

/-- `markLeaseIrrevocable`: `RevokeErr` persisted, the lease moves from `pending` to `irrevocable` -/
def markIrrevocable (s : St) (l : Lease) : St :=
  let s := putLease s { l with irrevocable := true }
  { s with irrevocable := ins s.irrevocable l.id, pending := rm s.pending l.id, nonexpiring := rm s.nonexpiring l.id }

/-- the revocation job of a SECRET lease with the retry loop of `OnFailure`: `attempts` failures so far -/
def secretJob : Nat → St → Lease → Nat → St
  | 0, s, _, _ => { s with outOfFuel := true }
  | fuel+1, s, l, attempts =>
    let s := loadMark s l                          -- Revoke → revokeCommon → loadEntry
    let (ok, s) := backendRevoke s l.id
    if ok then untrack (delLease s l.id) l.id
    else
      let attempts := attempts + 1
      if attempts ≥ maxRevokeAttempts || s.fail == .unrecoverable then
        markIrrevocable s l
      else secretJob fuel s l attempts

/-- the same job when the storage READ of the lease entry fails `faults` times at the point where `OnFailure` wants to
mark the lease irrevocable (budget spent, or an unrecoverable error): the lease can be neither revoked nor marked right
now, so the timer is re-armed with the attempt counter held just below the budget — the next attempt revokes the lease
or, failing again, marks it (repair F66). -/
def secretJobF : Nat → St → Lease → Nat → Nat → St
  | 0, s, _, _, _ => { s with outOfFuel := true }
  | fuel+1, s, l, attempts, faults =>
    let s := loadMark s l
    let (ok, s) := backendRevoke s l.id
    if ok then untrack (delLease s l.id) l.id
    else
      let attempts := attempts + 1
      if attempts ≥ maxRevokeAttempts || s.fail == .unrecoverable then
        match faults with
        | 0 => markIrrevocable s l
        | f+1 => secretJobF fuel s l (min attempts (maxRevokeAttempts - 1)) f
      else secretJobF fuel s l attempts faults

/-- the job before the repair F66: when that read failed, `OnFailure` just returned — timer fired and not re-armed,
nothing marked: the lease stays stored and "pending" with nothing left to ever revoke it on this node -/
def secretJobDrop : Nat → St → Lease → Nat → St
  | 0, s, _, _ => { s with outOfFuel := true }
  | fuel+1, s, l, attempts =>
    let s := loadMark s l
    let (ok, s) := backendRevoke s l.id
    if ok then untrack (delLease s l.id) l.id
    else
      let attempts := attempts + 1
      if attempts ≥ maxRevokeAttempts || s.fail == .unrecoverable then s
      else secretJobDrop fuel s l attempts

/-- `Revoke(leaseID)` called synchronously: `none` = the backend refused (state: only the call is counted) -/
def revokeSync (s : St) (l : Lease) (now : Int) : Bool × St :=
  if l.isAuth then (true, revokeToken s l.id now)
  else
    let s := loadMark s l
    let (ok, s) := backendRevoke s l.id
    if ok then (true, untrack (delLease s l.id) l.id) else (false, s)

/-- the timers: every pending lease whose expiry is not in the future is handed to a revocation job, until none
is left (a token's job expires the leases it issued) -/
def settle : Nat → St → Int → St
  | 0, s, _ => { s with outOfFuel := true }
  | fuel+1, s, now =>
    if s.frozen then s else
    match s.stored.find? (fun l => s.pending.contains l.id && (match l.expiry with | some e => e ≤ now | none => false)) with
    | none => s
    | some l =>
      let s := if l.isAuth then revokeToken s l.id now else secretJob (maxRevokeAttempts + 1) s l 0
      settle fuel s now

def settleFuel (s : St) : Nat := 2 * s.stored.length + 2

inductive Out where
  | okLease (id : Nat) (ttl : Int)
  | okTTL (ttl : Int)
  | ok
  | err (cls : String)
  | bad
  deriving DecidableEq, Repr

/-- `Register` after the request's own `CalculateTTL(sysView, 0, secret.TTL, 0, secret.MaxTTL, 0, time.Time{})` -/
def reg (s : St) (owner : Nat) (ttl max : Int) (renewable : Bool) (now : Int) : St × Out :=
  if !tokenLive s owner now then (s, .err "notoken") else
  match calcTTL { now, start := now, sysMax, sysDefault, increment := 0, backendTTL := ttl, period := 0,
                  backendMax := max, explicitMax := 0 } with
  | .ok t _ =>
    let l : Lease := { id := s.next, isAuth := false, owner, issue := now, expiry := some (now + t), bttl := ttl,
                       bmax := max, emax := 0, renewable, irrevocable := false, rootNonExp := false }
    let s := updatePending (putLease { s with next := s.next + 1 } l) l
    (s, .okLease l.id t)
  | _ => (s, .err "ttl")

/-- a secret leased to a fresh BATCH token (which has no lease of its own: the secret lease is its own owner in the
token index). `Register` caps the expiry by the batch token's; the harness gives the token a lifetime (700 h) beyond
every bound it asks for, so the cap never binds (recorded assumption). -/
def batchReg (s : St) (ttl max : Int) (renewable : Bool) (now : Int) : St × Out :=
  match calcTTL { now, start := now, sysMax, sysDefault, increment := 0, backendTTL := ttl, period := 0,
                  backendMax := max, explicitMax := 0 } with
  | .ok t _ =>
    let l : Lease := { id := s.next, isAuth := false, owner := s.next, issue := now, expiry := some (now + t), bttl := ttl,
                       bmax := max, emax := 0, renewable, irrevocable := false, rootNonExp := false, batch := true }
    let s := updatePending (putLease { s with next := s.next + 1 } l) l
    (s, .okLease l.id t)
  | _ => (s, .err "ttl")

/-- `auth/token/create` by the root token (orphan): TTL from `CalculateTTL(sysView, 0, ttl, 0, 0, explicitMax, now)`,
then `RegisterAuth` -/
def tokCreate (s : St) (ttl emax : Int) (renewable : Bool) (now : Int) : St × Out :=
  match calcTTL { now, start := now, sysMax, sysDefault, increment := 0, backendTTL := ttl, period := 0,
                  backendMax := 0, explicitMax := emax } with
  | .ok t _ =>
    let l : Lease := { id := s.next, isAuth := true, owner := s.next, issue := now, expiry := some (now + t),
                       bttl := t, bmax := 0, emax, renewable, irrevocable := false, rootNonExp := false }
    let s := updatePending (putLease { s with next := s.next + 1 } l) l
    (s, .okLease l.id t)
  | _ => (s, .err "ttl")

/-- a non-expiring root token: `RegisterAuth` with a zero expiry ⇒ `nonexpiring` -/
def rootCreate (s : St) (now : Int) : St × Out :=
  let l : Lease := { id := s.next, isAuth := true, owner := s.next, issue := now, expiry := none, bttl := 0, bmax := 0,
                     emax := 0, renewable := false, irrevocable := false, rootNonExp := true }
  let s := updatePending (putLease { s with next := s.next + 1 } l) l
  (s, .okLease l.id 0)

/-- `leaseEntry.renewable()`, in the code's order. The batch arm answers `(false, nil)` — "not renewable" for the
lookup views, but NO error, and `Renew` looks at the error only: a live lease issued to a batch token is renewed whether
or not its secret is renewable (finding F64, kept by `TestExpiration_Register_BatchToken`). Since the repair F63 the arm
stands below the expiry check (it stood above it: an expired lease of a batch token was renewed, too). -/
def renewableCheck (l : Lease) (now : Int) : Option String :=
  if l.irrevocable then some "irrevocable"
  else if l.expiry.isNone then some "notrenewable"
  else if expired l now then some "expired"
  else if l.batch then none
  else if !l.renewable then some "notrenewable"
  else none

/-- the order before the repair F63 -/
def renewableCheckBatchFirst (l : Lease) (now : Int) : Option String :=
  if l.irrevocable then some "irrevocable"
  else if l.expiry.isNone then some "notrenewable"
  else if l.batch then none
  else if expired l now then some "expired"
  else if !l.renewable then some "notrenewable"
  else none

/-- `ExpirationManager.Renew` (secret leases) -/
def renew (s : St) (id : Nat) (incr : Int) (now : Int) : St × Out :=
  match find? s id with
  | none => (s, .err "notfound")
  | some l =>
    if unreachable s l then (s, .err "sealed") else
    let s := loadMark s l                          -- loadEntry comes before every check
    match renewableCheck l now with
    | some e => (s, .err e)
    | none =>
      match calcTTL { now, start := l.issue, sysMax, sysDefault, increment := incr, backendTTL := l.bttl, period := 0,
                      backendMax := l.bmax, explicitMax := 0 } with
      | .ok t _ =>
        let l := { l with expiry := some (now + t) }
        (updatePending (putLease s l) l, .okTTL t)
      | .errPast => (s, .err "pastmax")
      | .errMaxTTL => (s, .err "ttl")

/-- `auth/token/renew` → `RenewToken`: the token must be usable; the backend TTL is the TTL granted last -/
def tokRenew (s : St) (id : Nat) (incr : Int) (now : Int) : St × Out :=
  if !tokenLive s id now then (s, .err "notoken") else
  match find? s id with
  | none => (s, .err "notoken")
  | some l =>
    let s := loadMark s l
    match renewableCheck l now with
    | some e => (s, .err e)
    | none =>
      match calcTTL { now, start := l.issue, sysMax, sysDefault, increment := incr, backendTTL := l.bttl, period := 0,
                      backendMax := 0, explicitMax := l.emax } with
      | .ok t _ =>
        let l := { l with expiry := some (now + t), bttl := t }
        (updatePending (putLease s l) l, .okTTL t)
      | .errPast => (s, .err "pastmax")
      | .errMaxTTL => (s, .err "ttl")

/-- `sys/leases/revoke` (`sync` or lazy) -/
def revoke (s : St) (id : Nat) (sync : Bool) (now : Int) : St × Out :=
  match find? s id with
  | none => (s, .ok)
  | some l =>
    if unreachable s l then (s, .err "sealed") else
    if sync then
      match revokeSync s l now with
      | (true, s) => (settle (settleFuel s) s now, .ok)
      | (false, s) => (s, .err "revoke")
    else
      let s := lazyRevoke s id now
      (settle (settleFuel s) s now, .ok)

/-- forced expiry of a secret lease (as `revoke … sync := false`) whose revocation job meets ONE failing storage read
of the lease entry inside `OnFailure` (harness: a one-shot read fault filtered by that stack frame) -/
def revokeLoadFault (s : St) (id : Nat) (now : Int) : St × Out :=
  match find? s id with
  | none => (s, .ok)
  | some l =>
    if unreachable s l then (s, .err "sealed") else
    if l.isAuth || s.frozen then (s, .bad) else
    let s := loadMark s l                                  -- `lazyRevokeInternal`
    let l := { l with expiry := some now }
    let s := updatePending (putLease s l) l
    let s := secretJobF (maxRevokeAttempts + 2) s l 0 1    -- the timer fires at once
    (settle (settleFuel s) s now, .ok)

/-- `auth/token/revoke`: an unusable / unknown token is a no-op -/
def tokRevoke (s : St) (id : Nat) (now : Int) : St × Out :=
  if !tokenLive s id now then (s, .ok) else
  let s := revokeToken s id now
  (settle (settleFuel s) s now, .ok)

/-- the harness's time machine: the lease was issued `secs` earlier (issue and expiry move back), `updatePending` -/
def age (s : St) (id : Nat) (secs : Int) (now : Int) : St × Out :=
  match find? s id with
  | none => (s, .err "notfound")
  | some l =>
    if unreachable s l then (s, .err "sealed") else
    let s := loadMark s l
    let l := { l with issue := l.issue - secs, expiry := l.expiry.map (· - secs) }
    let s := updatePending (putLease s l) l
    (settle (settleFuel s) s now, .ok)

/-- `Stop` + `setupExpiration` / a new core: memory is rebuilt from storage by `Restore` (`updatePending` per stored
lease), the strategy is the real one again, expired leases fire at once -/
def restore (stored : List Lease) (s : St) : St :=
  stored.foldl updatePending s

def restart (s : St) (now : Int) : St :=
  -- a new manager: no marks, restore mode off afterwards, no namespace restore in flight; the global `Restore` walks
  -- the namespaces that are not sealed
  let s := { s with pending := [], irrevocable := [], nonexpiring := [], frozen := false, marks := [], restoreMode := 0,
                    held := [] }
  let s := restore (s.stored.filter fun l => !s.sealed.contains l.ns) s
  settle (settleFuel s) s now

/-- `restore` when the storage read of the lease entries `fail` selects returns an error: `loadEntryInternal` fails,
`processRestore` returns the error, the worker reports it on `errs`, `restore` returns it and its deferred block runs
`errorFunc` — `none`: the restore did not complete (global restore: `Core.Shutdown`; namespace restore: the namespace is
sealed again).  A restore that completes (`some`) has handled EVERY collected lease. -/
def restoreF (fail : Nat → Bool) : List Lease → St → Option St
  | [], s => some s
  | l :: ls, s => if fail l.id then none else restoreF fail ls (updatePending s l)

/-- NOT the code: a restore that logs and skips an entry it cannot read and still completes -/
def restoreSkip (fail : Nat → Bool) (ls : List Lease) (s : St) : St :=
  (ls.filter fun l => !fail l.id).foldl updatePending s

/-- `Stop` + `setupExpiration` while the read of lease `fid`'s entry fails once inside `processRestore`: when the
restore collected that lease it ends in `errorFunc` = `Core.Shutdown` (answer `shutdown`; the operator then starts the
server again on the same storage, which is the clean `restart`); a lease the restore does not read cannot fail it -/
def restartFault (s : St) (fid : Nat) (now : Int) : St × Out :=
  let s0 := { s with pending := [], irrevocable := [], nonexpiring := [], frozen := false, marks := [], restoreMode := 0,
                     held := [] }
  (restart s now,
   if (restoreF (· == fid) (s0.stored.filter fun l => !s0.sealed.contains l.ns) s0).isNone then .err "shutdown" else .ok)

/-- a secret lease issued in namespace `ns` to the root token (no owning token lease) -/
def nsReg (s : St) (ns : Nat) (ttl max : Int) (renewable : Bool) (now : Int) : St × Out :=
  if s.sealed.contains ns then (s, .err "sealed") else
  match calcTTL { now, start := now, sysMax, sysDefault, increment := 0, backendTTL := ttl, period := 0,
                  backendMax := max, explicitMax := 0 } with
  | .ok t _ =>
    let l : Lease := { id := s.next, isAuth := false, owner := s.next, issue := now, expiry := some (now + t), bttl := ttl,
                       bmax := max, emax := 0, renewable, irrevocable := false, rootNonExp := false, ns }
    let s := updatePending (putLease { s with next := s.next + 1 } l) l
    (s, .okLease l.id t)
  | _ => (s, .err "ttl")

def nsLeases (s : St) (ns : Nat) : List Lease := s.stored.filter (·.ns == ns)

/-- `SealNamespace` → `StopNamespace`: the namespace's leases leave every tracking map (they stay in storage) and its
marks in `restoreLoaded` are cleared — unconditionally -/
def sealNs (s : St) (ns : Nat) : St × Out :=
  if ns == 0 || s.sealed.contains ns || s.held.any (·.1 == ns) then (s, .err "seal") else
  let s := (nsLeases s ns).foldl (fun s l => untrack s l.id) s
  (drainMarks { s with sealed := s.sealed ++ [ns] } ns, .ok)

/-- `sys/namespaces/<ns>` DELETE (`clearNamespaceResources`): the namespace's mounts are unmounted — which revokes the
secrets they issued (`RevokePrefix` over the namespace's leases) — and the namespace's own `sys/` view, holding its
leases, goes LAST (repair F90: it went first, and the secrets of the other mounts were never revoked at their
backends). Every lease of the namespace is revoked at its backend, gone from storage and untracked. -/
def nsDelete (s : St) (ns : Nat) : St × Out :=
  if ns == 0 || s.sealed.contains ns || s.held.any (·.1 == ns) then (s, .err "delete") else
  ((nsLeases s ns).foldl (fun s l => untrack (delLease (backendRevoke s l.id).2 l.id) l.id) s, .ok)

/-- the deletion before the repair F90: the lease entries are wiped with the namespace's `sys/` view, nothing is revoked -/
def nsDeleteWipeFirst (s : St) (ns : Nat) : St :=
  (nsLeases s ns).foldl (fun s l => untrack (delLease s l.id) l.id) s

/-- a namespace restore starts: the namespace is unsealed, restore mode goes up, and every lease of the namespace is
"collected, not handled yet" (`held`) -/
def unsealStart (s : St) (ns : Nat) : St :=
  { s with sealed := s.sealed.filter (· != ns), restoreMode := s.restoreMode + 1,
           held := s.held ++ (nsLeases s ns).map fun l => (ns, l.id) }

/-- a restore worker handles one collected lease: `processRestore` -/
def releaseRestore (s : St) (l : Lease) : St :=
  processRestore { s with held := s.held.filter (·.2 != l.id) } l

/-- `UnsealNamespace` → `RestoreNamespace`: restore mode on, `processRestore` for every lease of the namespace, the
namespace's marks drained, restore mode off -/
def unsealNs (s : St) (ns : Nat) (now : Int) : St × Out :=
  if !s.sealed.contains ns then (s, .err "unseal") else
  let s := unsealStart s ns
  let s := (nsLeases s ns).foldl releaseRestore s
  let s := drainMarks { s with restoreMode := s.restoreMode - 1 } ns
  (settle (settleFuel s) s now, .ok)

/-- `UnsealNamespace` while the read of lease `fid`'s entry fails once inside `processRestore`: when `fid` is a lease of
the namespace, `RestoreNamespace` returns the error, the unseal fails and `errorFunc` seals the namespace again
(`StopNamespace` drops whatever the restore had tracked and drains its marks): the state is what it was -/
def unsealNsFault (s : St) (ns fid : Nat) (now : Int) : St × Out :=
  if !s.sealed.contains ns then (s, .err "unseal") else
  match restoreF (· == fid) (nsLeases s ns) s with
  | none => (s, .err "unseal")
  | some _ => unsealNs s ns now

/-- the first part of an unseal whose restore is held in flight on lease `h` of the namespace: every other lease of
the namespace is handled -/
def unsealBegin (s : St) (ns h : Nat) (now : Int) : St × Out :=
  if !s.sealed.contains ns || !(nsLeases s ns).any (·.id == h) then (s, .err "unseal") else
  let s := unsealStart s ns
  let s := ((nsLeases s ns).filter (·.id != h)).foldl releaseRestore s
  (settle (settleFuel s) s now, .ok)

/-- the restore is released: the held lease is handled, the namespace's marks are drained, restore mode goes down -/
def unsealEnd (s : St) (ns : Nat) (now : Int) : St × Out :=
  match s.held.find? (·.1 == ns) with
  | none => (s, .err "unseal")
  | some (_, h) =>
    let s := match find? s h with
      | some l => releaseRestore s l
      | none => { s with held := s.held.filter (·.2 != h) }
    let s := drainMarks { s with restoreMode := s.restoreMode - 1 } ns
    (settle (settleFuel s) s now, .ok)

/-- storage is a key-value map: one entry per lease id (first wins), and fresh ids stay fresh -/
def dedupe : List Lease → List Lease
  | [] => []
  | l :: rest => l :: (dedupe rest).filter (·.id != l.id)

/-- the operations of a history -/
inductive Op where
  | tokCreate (ttl emax : Int) (renewable : Bool) (now : Int)
  | rootCreate (now : Int)
  | reg (owner : Nat) (ttl max : Int) (renewable : Bool) (now : Int)
  | batchReg (ttl max : Int) (renewable : Bool) (now : Int)
  | renew (id : Nat) (incr now : Int)
  | tokRenew (id : Nat) (incr now : Int)
  | revoke (id : Nat) (sync : Bool) (now : Int)
  | revokeLoadFault (id : Nat) (now : Int)
  | tokRevoke (id : Nat) (now : Int)
  | age (id : Nat) (secs now : Int)
  | setFail (m : FailMode)
  | freeze (on : Bool)
  | restart (now : Int)
  /-- a leadership-change restart during which the storage read of one lease entry fails inside the restore -/
  | restartFault (fid : Nat) (now : Int)
  /-- a namespace unseal during which the storage read of one lease entry fails inside the restore -/
  | unsealNsFault (ns fid : Nat) (now : Int)
  | nsReg (ns : Nat) (ttl max : Int) (renewable : Bool) (now : Int)
  | sealNs (ns : Nat)
  | nsDelete (ns : Nat)
  | unsealNs (ns : Nat) (now : Int)
  | unsealBegin (ns h : Nat) (now : Int)
  | unsealEnd (ns : Nat) (now : Int)
  /-- a crash at ANY point of any operation followed by a restart: storage holds an arbitrary set of lease entries
  (in particular any prefix of the writes of the interrupted operation), memory is rebuilt from it -/
  | crashRestart (stored : List Lease) (now : Int)
  deriving Repr

def applyOp (s : St) : Op → St × Out
  | .tokCreate ttl emax ren now => tokCreate s ttl emax ren now
  | .rootCreate now => rootCreate s now
  | .reg owner ttl max ren now => reg s owner ttl max ren now
  | .batchReg ttl max ren now => batchReg s ttl max ren now
  | .renew id incr now => renew s id incr now
  | .tokRenew id incr now => tokRenew s id incr now
  | .revoke id sync now => revoke s id sync now
  | .revokeLoadFault id now => revokeLoadFault s id now
  | .tokRevoke id now => tokRevoke s id now
  | .age id secs now => age s id secs now
  | .setFail m => ({ s with fail := m }, .ok)
  | .freeze on => ({ s with frozen := on }, .ok)
  | .restart now => if s.restoreMode > 0 then (s, .err "busy") else (restart s now, .ok)   -- `Stop` waits for restores
  | .restartFault fid now => if s.restoreMode > 0 then (s, .err "busy") else restartFault s fid now
  | .unsealNsFault ns fid now => unsealNsFault s ns fid now
  | .nsReg ns ttl max ren now => nsReg s ns ttl max ren now
  | .sealNs ns => sealNs s ns
  | .nsDelete ns => nsDelete s ns
  | .unsealNs ns now => unsealNs s ns now
  | .unsealBegin ns h now => unsealBegin s ns h now
  | .unsealEnd ns now => unsealEnd s ns now
  | .crashRestart stored now =>
    let stored := dedupe stored
    (restart { s with stored := stored, next := stored.foldl (fun n l => max n (l.id + 1)) s.next } now, .ok)

def run (s : St) : List Op → St
  | [] => s
  | o :: rest => run (applyOp s o).1 rest

/-- every id in storage is tracked in one of the three maps, and nothing else is -/
def trackedEqStored (s : St) : Bool :=
  s.stored.all (fun l => s.pending.contains l.id || s.irrevocable.contains l.id || s.nonexpiring.contains l.id) &&
  (s.pending ++ s.irrevocable ++ s.nonexpiring).all (fun id => s.stored.any (·.id == id))

end Obao.Expiration
