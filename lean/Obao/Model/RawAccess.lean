import Obao.Model.Prelude
/-!
C01 — which storage access a `sys/raw` request gets (`internal/vault/logical_raw.go RawBackend.storageByPath` with
`namespace_store.go Core.NamespaceByStoragePath`). The writer table lists WHERE a pass-through `directStorageAccess`
is constructed; this model is the path-selection logic that decides WHEN a request is handed that unencrypted,
unauthenticated access instead of a barrier. Paths are `List Char` (byte-wise prefix tests, as `strings.HasPrefix`).
Transliteration, in the order of the Go code:

    ns, rest := NamespaceByStoragePath(path)      -- "namespaces/<uuid>/<rest>"; otherwise (root, path)
    protected: HasPrefix(rest, p) for p in {core/keyring, core/cluster/local/info}  ⇒ error
    specialPath := rest == core/seal-config || rest == core/recovery-config
    ns == nil (unknown uuid) or root: special && rest == path ⇒ direct physical, else root barrier;
                                      allowWrites := ns != nil   (`rest == path`: no namespace prefix was stripped — F47 repair)
    child namespace:                  special ⇒ barrier of the parent, else the namespace's own barrier
    every handler then calls storage.Get/Put/Delete(ctx, path) with the FULL path.
-/
namespace Obao.RawAccess

abbrev Path := List Char

def nsPrefix : Path := ['n', 'a', 'm', 'e', 's', 'p', 'a', 'c', 'e', 's', '/']
def keyringPath : Path := ['c', 'o', 'r', 'e', '/', 'k', 'e', 'y', 'r', 'i', 'n', 'g']
def clusterInfoPath : Path := ['c', 'o', 'r', 'e', '/', 'c', 'l', 'u', 's', 't', 'e', 'r', '/', 'l', 'o', 'c', 'a', 'l', '/', 'i', 'n', 'f', 'o']
def sealConfigPath : Path := ['c', 'o', 'r', 'e', '/', 's', 'e', 'a', 'l', '-', 'c', 'o', 'n', 'f', 'i', 'g']
def recoveryConfigPath : Path := ['c', 'o', 'r', 'e', '/', 'r', 'e', 'c', 'o', 'v', 'e', 'r', 'y', '-', 'c', 'o', 'n', 'f', 'i', 'g']
def rootUUID : Path := ['0', '0', '0', '0', '0', '0', '0', '0', '-', '0', '0', '0', '0', '-', '0', '0', '0', '0', '-', '0', '0', '0', '0', '-', '0', '0', '0', '0', '0', '0', '0', '0', '0', '0', '0', '0']

def protectedPaths : List Path := [keyringPath, clusterInfoPath]

/-- the property's fixed bootstrap keys reachable through `sys/raw` -/
def fixedKeys : List Path := [sealConfigPath, recoveryConfigPath]

/-- `strings.CutPrefix` -/
def cutPrefix : Path → Path → Option Path
  | [], l => some l
  | _ :: _, [] => none
  | p :: ps, c :: cs => if p = c then cutPrefix ps cs else none

/-- `strings.Cut(s, "/")`: before and after the first separator -/
def cutSlash : Path → Option (Path × Path)
  | [] => none
  | c :: cs => if c = '/' then some ([], cs) else
      match cutSlash cs with
      | some (a, b) => some (c :: a, b)
      | none => none

inductive Ns where
  | root
  | child (uuid : Path)
  | unknown                -- `GetNamespace` returned nil: deleted / never existed
  deriving DecidableEq, Repr

/-- `namespaceStore.GetNamespace(uuid)`: the root namespace is registered under its all-zero UUID -/
def getNamespace (known : List Path) (uuid : Path) : Ns :=
  if uuid = rootUUID then .root else if known.contains uuid then .child uuid else .unknown

/-- `Core.NamespaceByStoragePath` -/
def nsByStoragePath (known : List Path) (path : Path) : Ns × Path :=
  match cutPrefix nsPrefix path with
  | none => (.root, path)
  | some rest =>
    if rest = [] then (.root, path) else
    match cutSlash rest with
    | none => (.root, path)
    | some (uuid, rest') => (getNamespace known uuid, rest')

inductive Sel where
  | rootBarrier
  | parentBarrier (uuid : Path)
  | ownBarrier (uuid : Path)
  deriving DecidableEq, Repr

inductive Access where
  | denied                                   -- protected path
  | direct (allowWrites : Bool)              -- directStorageAccess{core.physical}: no encryption, no authentication
  | barrier (sel : Sel) (allowWrites : Bool) -- secureStorageAccess
  deriving DecidableEq, Repr

/-- `RawBackend.storageByPath` -/
def storageByPath (known : List Path) (path : Path) : Access :=
  let (ns, rest) := nsByStoragePath known path
  if protectedPaths.any (fun p => p.isPrefixOf rest) then .denied else
  let special := rest = sealConfigPath ∨ rest = recoveryConfigPath
  match ns with
  | .root => if special ∧ rest = path then .direct true else .barrier .rootBarrier true
  | .unknown => if special ∧ rest = path then .direct false else .barrier .rootBarrier false
  | .child u => if special then .barrier (.parentBarrier u) true else .barrier (.ownBarrier u) true

/-- `handleRawList` appends a slash to a non-empty path that lacks one before selecting the storage -/
def listPath (path : Path) : Path :=
  if path = [] then path else if path.getLast? = some '/' then path else path ++ ['/']

/-- what the correspondence stream observes (see harness/wb/vaultc01):
* `sel`: the real `storageByPath` called directly: `denied`, `direct:<allowWrites>`, `barrier:<allowWrites>`;
* end to end through `sys/raw` (errors reach the client as opaque "internal error"/"invalid request", so refusals are one
  class): write ⇒ `refused` (protected, or writes not allowed) / `direct:ok` (value in clear at the physical key, read back
  equal) / `barrier:ok`; read of plaintext planted in the physical backend ⇒ `direct` (served as is) / `refused` (protected,
  or a barrier rejected the bytes); delete ⇒ `refused`/`done`; list ⇒ `refused`/`listed`. -/
def observe (known : List Path) (verb : String) (path : Path) : String :=
  if verb = "sel" then
    match storageByPath known path with
    | .denied => "denied"
    | .direct w => s!"direct:{w}"
    | .barrier _ w => s!"barrier:{w}"
  else if verb = "write" then
    match storageByPath known path with
    | .direct true => "direct:ok"
    | .barrier _ true => "barrier:ok"
    | _ => "refused"
  else if verb = "read" then
    match storageByPath known path with
    | .direct _ => "direct"
    | _ => "refused"
  else if verb = "delete" then
    match storageByPath known path with
    | .denied => "refused"
    | _ => "done"
  else if verb = "list" then
    match storageByPath known (listPath path) with
    | .denied => "refused"
    | _ => "listed"
  else "bad-op"

end Obao.RawAccess
