import Obao.Model.SortedKV
/-!
Implementation-shaped models for property C13: one function per listing implementation in /repo, transliterated
branch by branch (same loop order, same comparisons, same early exits), over the sorted key list the underlying
ordered container (go-radix `WalkPrefix`, bbolt cursor, sorted directory names) presents.

* `inmemList`    — sdk/physical/inmem/inmem.go `listPaginatedInternal`
* `raftSeek`, `raftList` — internal/physical/raft/fsm.go `listPageInner` (cursor start `prefix + after` since the
                   repair of F4/F9/F40; before it, `filepath.Join(prefix, after)` with a fallback to the prefix)
* `raftTxnList`  — internal/physical/raft/transaction.go `RaftTransaction.ListPage` (same cursor start; merge of
                   pending updates / deletions)
* `fileList`     — sdk/physical/file/file.go `ListPageInternal` (sorted names, `sort.SearchStrings`)
* key checks of the wrapping layers: `containsDotDot` (physical.View, file), `isRelativePath`
  (logical.StorageView), `utf8Valid` / `printable?` (StorageEncoding)
* `scanFrom`     — sdk/logical/storage.go `scanViewPaginated` (fuel-bounded: running out of fuel is the model of
                   non-termination)
CORE LEAN ONLY.
-/
namespace Obao.Listing
open Obao.KV

abbrev dot : Nat := 46

/-- `strings.Index(t, "/") != -1` -/
def isFolder (t : Key) : Bool := t.contains slash

/-! ### inmem -/

/-- the `walkFn` closure of `listPaginatedInternal` applied to the keys `WalkPrefix(prefix)` visits, in order.
`out` and `seen` are the Go variables (`out` kept reversed). Returning `true` from `walkFn` stops the walk. -/
def inmemWalk (p after : Key) (limit : Int) : List Key → List Key → List Key → List Key
  | [], out, _ => out
  | s :: rest, out, seen =>
    if limit > 0 ∧ (out.length : Int) ≥ limit then out
    else
      let trimmed := s.drop p.length
      if !isFolder trimmed then
        if after ≠ [] ∧ trimmed ≤ after then inmemWalk p after limit rest out seen
        else inmemWalk p after limit rest (trimmed :: out) seen
      else
        let t := firstSeg trimmed
        if after ≠ [] ∧ t ≤ after then inmemWalk p after limit rest out seen
        else if seen.contains t then inmemWalk p after limit rest out seen
        else inmemWalk p after limit rest (t :: out) (t :: seen)

def inmemList (keys : List Key) (p after : Key) (limit : Int) : List Key :=
  (inmemWalk p after limit (keys.filter (hasPrefix p)) [] []).reverse

/-! ### path segments -/

/-- `strings.Split(s, "/")` -/
def splitSlash : Key → List Key
  | [] => [[]]
  | c :: r =>
    if c = slash then [] :: splitSlash r
    else match splitSlash r with
      | [] => [[c]]
      | s :: ss => (c :: s) :: ss

/-! ### raft FSM -/

/-- the cursor start of `listPageInner` and of `RaftTransaction.ListPage`: `[]byte(prefix + after)` -/
def raftSeek (p after : Key) : Key := p ++ after

/-- the cursor loop of `listPageInner`; `keys` reversed (its head is `keys[len(keys)-1]`) -/
def raftLoop (p after : Key) (limit : Int) : List Key → List Key → List Key
  | [], out => out
  | k :: rest, out =>
    if !hasPrefix p k then out
    else if limit > 0 ∧ (out.length : Int) ≥ limit then out
    else
      let key := k.drop p.length
      if !isFolder key then
        if after ≠ [] ∧ key ≤ after then raftLoop p after limit rest out
        else raftLoop p after limit rest (key :: out)
      else
        let folder := firstSeg key
        if out = [] ∨ out.head? ≠ some folder then
          if after ≠ [] ∧ folder ≤ after then raftLoop p after limit rest out
          else raftLoop p after limit rest (folder :: out)
        else raftLoop p after limit rest out

/-- `c.Seek(seek)`: the first key `≥ seek` and everything after it -/
def seekFrom (keys : List Key) (seek : Key) : List Key := keys.dropWhile (· < seek)

def raftListFrom (seek : Key) (keys : List Key) (p after : Key) (limit : Int) : List Key :=
  (raftLoop p after limit (seekFrom keys seek) []).reverse

def raftList (keys : List Key) (p after : Key) (limit : Int) : List Key :=
  raftListFrom (raftSeek p after) keys p after limit

/-! ### raft transaction -/

/-- `listShouldIncludeEntry`: (entry, isFolder, shouldVisit) -/
def shouldInclude (p after k : Key) : Key × Bool × Bool :=
  let sub := k.drop p.length
  let e := firstSeg sub
  (e, isFolder sub, !(after ≠ [] ∧ e ≤ after))

/-- sorted, duplicate-free (the Go code keeps a `map[string]struct{}` and sorts what it takes out of it) -/
def sortSet (l : List Key) : List Key := l.foldr insertKey []

/-- pending writes of a transaction: key ↦ `some value` (put) or `none` (delete); at most one record per key -/
abbrev Updates := List (Key × Option Val)

def updGet (u : Updates) (k : Key) : Option (Option Val) :=
  match u with
  | [] => none
  | (k', v) :: r => if k' = k then some v else updGet r k

def updSet (u : Updates) (k : Key) (v : Option Val) : Updates := (k, v) :: u.filter (fun e => e.1 ≠ k)

structure TxnLoopSt where
  out : List Key        -- `keys`, reversed
  updates : List Key    -- the `updates` set (entry names of pending puts not merged yet), sorted

/-- body of the cursor loop of `RaftTransaction.ListPage` (verification bookkeeping omitted: not observable) -/
def txnLoop (p after : Key) (limit : Int) (deletions : List Key) : List Key → TxnLoopSt → TxnLoopSt
  | [], st => st
  | k :: rest, st =>
    if !hasPrefix p k then st
    else
      let (entry, isF, visit) := shouldInclude p after k
      if limit > 0 ∧ (st.out.length : Int) ≥ limit then st
      else if deletions.contains k then txnLoop p after limit deletions rest st
      else if !visit then txnLoop p after limit deletions rest st
      else
        let lastKey := match st.out with | [] => [] | x :: _ => x
        let merged := st.updates.filter (fun u => u < entry ∧ lastKey < u)
        let updates := st.updates.filter (fun u => !(u < entry ∧ lastKey < u))
        let out := merged.reverse ++ st.out
        let lastKey := match out with | [] => [] | x :: _ => x
        if isF ∧ out ≠ [] ∧ lastKey = entry then txnLoop p after limit deletions rest { out, updates }
        else txnLoop p after limit deletions rest { out := entry :: out, updates := updates.filter (· ≠ entry) }

def raftTxnList (keys : List Key) (upd : Updates) (p after : Key) (limit : Int) : List Key :=
  let seek := raftSeek p after
  let inP := upd.filter (fun u => hasPrefix p u.1)
  let vis := inP.filter (fun u => (shouldInclude p after u.1).2.2)
  let deletions := (vis.filter (fun u => u.2.isNone)).map (·.1)
  let updates := sortSet ((vis.filter (fun u => u.2.isSome)).map (fun u => (shouldInclude p after u.1).1))
  let st := txnLoop p after limit deletions (seekFrom keys seek) { out := [], updates }
  let lastKey := match st.out with | [] => [] | x :: _ => x
  let merged := st.updates.filter (fun u => lastKey < u)
  let out := (merged.reverse ++ st.out).reverse
  if limit > 0 ∧ (out.length : Int) > limit then out.take limit.toNat else out

/-- the store a raft transaction presents: committed store overlaid with its pending writes -/
def overlay (s : Store) (u : Updates) : Store :=
  u.foldr (fun e acc => match e.2 with | some v => kvPut acc e.1 v | none => kvDel acc e.1) s

/-! ### file backend -/

/-- `sort.SearchStrings(names, after)`: number of leading names `< after` (names sorted) -/
def searchStrings (names : List Key) (after : Key) : Nat := (names.takeWhile (· < after)).length

/-- `ListPageInternal` after the directory has been read into sorted `names` -/
def fileList (names : List Key) (after : Key) (limit : Int) : List Key :=
  let names :=
    if after ≠ [] then
      let idx := searchStrings names after
      let idx := if names[idx]? = some after then idx + 1 else idx
      names.drop idx
    else names
  if limit > 0 then
    let l := if limit > names.length then names.length else limit.toNat
    names.take l
  else names

/-! ### key checks of the wrapping layers -/

/-- `strings.Contains(key, "..")` -/
def containsDotDot : Key → Bool
  | a :: b :: r => (a = dot ∧ b = dot) || containsDotDot (b :: r)
  | _ => false

def endsWith (s suf : Key) : Bool := suf.reverse.isPrefixOf s.reverse

/-- `strings.Contains(key, sub)` -/
def containsSub (sub : Key) : Key → Bool
  | [] => sub.isEmpty
  | c :: r => sub.isPrefixOf (c :: r) || containsSub sub r

/-- sdk/logical/path.go `IsRelativePath` -/
def isRelativePath (path : Key) : Bool :=
  path = [dot] || path = [dot, dot] || hasPrefix [dot, slash] path || hasPrefix [dot, dot, slash] path
  || endsWith path [slash, dot] || endsWith path [slash, dot, dot]
  || containsSub [slash, dot, slash] path || containsSub [slash, dot, dot, slash] path

/-- `utf8.Valid`: decode to code points; `none` on any ill-formed sequence (overlong, surrogate, > U+10FFFF) -/
def utf8Decode : List Nat → Option (List Nat)
  | [] => some []
  | b0 :: r =>
    if b0 < 0x80 then (utf8Decode r).map (b0 :: ·)
    else if b0 < 0xC2 then none
    else if b0 < 0xE0 then
      match r with
      | b1 :: r' => if 0x80 ≤ b1 ∧ b1 < 0xC0 then (utf8Decode r').map (((b0 - 0xC0) * 64 + (b1 - 0x80)) :: ·) else none
      | _ => none
    else if b0 < 0xF0 then
      match r with
      | b1 :: b2 :: r' =>
        let lo := if b0 = 0xE0 then 0xA0 else 0x80
        let hi := if b0 = 0xED then 0xA0 else 0xC0
        if lo ≤ b1 ∧ b1 < hi ∧ 0x80 ≤ b2 ∧ b2 < 0xC0 then
          (utf8Decode r').map (((b0 - 0xE0) * 4096 + (b1 - 0x80) * 64 + (b2 - 0x80)) :: ·)
        else none
      | _ => none
    else if b0 < 0xF5 then
      match r with
      | b1 :: b2 :: b3 :: r' =>
        let lo := if b0 = 0xF0 then 0x90 else 0x80
        let hi := if b0 = 0xF4 then 0x90 else 0xC0
        if lo ≤ b1 ∧ b1 < hi ∧ 0x80 ≤ b2 ∧ b2 < 0xC0 ∧ 0x80 ≤ b3 ∧ b3 < 0xC0 then
          (utf8Decode r').map (((b0 - 0xF0) * 262144 + (b1 - 0x80) * 4096 + (b2 - 0x80) * 64 + (b3 - 0x80)) :: ·)
        else none
      | _ => none
    else none

/-- `unicode.IsPrint` on the code points the generator uses: Latin-1 exactly (Go's own `isPrint` fast path for
runes ≤ U+00FF) plus a short explicit table; `none` = outside the modelled table (the driver rejects the op). -/
def printable? (c : Nat) : Option Bool :=
  if c < 0x100 then
    some (if 0x20 ≤ c ∧ c < 0x7F then true else if 0xA1 ≤ c then c ≠ 0xAD else false)
  else if c = 0x20AC ∨ c = 0x4E2D ∨ c = 0x1F600 ∨ c = 0x3B1 then some true      -- € 中 😀 α
  else if c = 0x200B ∨ c = 0x2028 ∨ c = 0xFEFF ∨ c = 0x2003 then some false     -- ZWSP, LS, BOM, EM SPACE
  else none

/-! ### scanViewPaginated -/

/-- a `ListPage` as the scan sees it: prefix, after, limit ↦ entries or an error class -/
abbrev Lister := Key → Key → Int → Except String (List Key)

def endsWithSlash (k : Key) : Bool := k.getLast? = some slash

/-- the inner `for { … }` of `scanViewPaginated` for one directory `current`; returns the frontier and the
callback arguments so far. `none` = fuel exhausted (the model of non-termination). -/
def scanDir (lp : Lister) (pageSize : Int) (current : Key) :
    Nat → Key → List Key → List Key → Option (Except String (List Key × List Key))
  | 0, _, _, _ => none
  | fuel + 1, after, frontier, cb =>
    match lp current after pageSize with
    | .error e => some (.error e)
    | .ok contents =>
      match contents.getLast? with
      | none => some (.ok (frontier, cb))
      | some last =>
        let fr := frontier ++ (contents.filter endsWithSlash).map (current ++ ·)
        let cb := cb ++ (contents.filter (fun c => !endsWithSlash c)).map (current ++ ·)
        if last = [] ∧ contents.length = 1 ∧ pageSize > 1 then some (.ok (fr, cb))
        else scanDir lp pageSize current fuel last fr cb

/-- the outer frontier loop: pops the LAST element of the frontier -/
def scanFrom (lp : Lister) (pageSize : Int) : Nat → List Key → List Key → Option (Except String (List Key))
  | 0, _, _ => none
  | fuel + 1, frontier, cb =>
    match frontier.getLast? with
    | none => some (.ok cb)
    | some current =>
      match scanDir lp pageSize current fuel [] frontier.dropLast cb with
      | none => none
      | some (.error e) => some (.error e)
      | some (.ok (fr, cb)) => scanFrom lp pageSize fuel fr cb

def scanView (lp : Lister) (pageSize : Int) (fuel : Nat) : Option (Except String (List Key)) :=
  scanFrom lp pageSize fuel [[]] []


/-! ### the layered store as a state machine (what the correspondence streams execute)

One case = one backend kind, one stack of wrapping layers (bottom first), one committed store and at most one
open transaction. Every operation enters at the TOP of the stack, exactly as the harness calls the real code.
The cache layer is the identity here: `C13.cache_coherent` proves that a write-through cache with negative
entries and arbitrary eviction is observationally the identity, and the correspondence stream checks the real
cache against this identity on every run. -/

inductive Kind where
  | inmem | inmemtx | file | fsm | raft
  deriving DecidableEq, Repr

inductive Layer where
  | cache
  | enc
  | pview (p : Key)
  | lview (p : Key)
  deriving DecidableEq, Repr

inductive Txn where
  | inmem (rw : Bool) (s : Store)
  | raft (rw : Bool) (snap : Store) (u : Updates)

structure St where
  kind : Kind
  layers : List Layer
  store : Store
  txn : Option Txn

def St.init : St := { kind := .inmem, layers := [], store := [], txn := none }

inductive Res where
  | ok
  | err (e : String)
  | val (v : Option Val)
  | got (v : Val) (k : Key)      -- an entry: its value and the Key field the caller receives
  | lst (l : List Key)
  | kvs (l : Store)
  | bad

/-- `StorageEncoding` key check (Put / Delete only). `none`: a code point outside the modelled table. -/
def encCheck (k : Key) : Option (Except String Unit) :=
  match utf8Decode k with
  | none => some (.error "nonutf8")
  | some cps =>
    match cps.mapM printable? with
    | none => none
    | some ps => some (if ps.all id then .ok () else .error "nonprint")

/-- key translation through the layers, top first. `write` = Put/Delete (the encoding layer checks only those). -/
def xlate (write : Bool) : List Layer → Key → Option (Except String Key)
  | [], k => some (.ok k)
  | .cache :: r, k => xlate write r k
  | .enc :: r, k =>
    if write then
      match encCheck k with
      | none => none
      | some (.error e) => some (.error e)
      | some (.ok _) => xlate write r k
    else xlate write r k
  | .pview p :: r, k => if containsDotDot k then some (.error "relative") else xlate write r (p ++ k)
  | .lview p :: r, k => if isRelativePath k then some (.error "relative") else xlate write r (p ++ k)

/-- `strings.TrimPrefix(full, prefix)` -/
def trimPrefix (p k : Key) : Key := if hasPrefix p k then k.drop p.length else k

/-- the `Key` of the entry a `Get` hands back up through the layers (top first), given the key `bk` of the entry
the bottom backend returned: every view builds a NEW entry whose key is the received key minus the view prefix
(`physical.View.Get`, `logical.StorageView.Get`); cache and encoding layers pass the entry through. Since the
repair of F42 the view no longer rewrites the received entry, so what the cache keeps is never altered and this
function of the layers alone is the whole story. -/
def keyBack : List Layer → Key → Key
  | [], bk => bk
  | .cache :: r, bk => keyBack r bk
  | .enc :: r, bk => keyBack r bk
  | .pview p :: r, bk => trimPrefix p (keyBack r bk)
  | .lview p :: r, bk => trimPrefix p (keyBack r bk)

def maxKeySize : Nat := 32768

/-- keys the file backend stores faithfully (see DESIGN C13 "Admissible keys"): non-empty `/`-separated
segments, none empty, `.`-only, starting with `_`, containing NUL, or longer than 200 bytes (a segment ending in
`.temp` is an ordinary one since the repair F86: a write is staged under a name no entry can have) -/
def fileSegOk (s : Key) : Bool :=
  s ≠ [] && s ≠ [dot] && !containsDotDot s && s.head? ≠ some 95
  && !s.contains 0 && s.length ≤ 200

def fileAdmissible (k : Key) : Bool := k ≠ [] && (splitSlash k).all fileSegOk

/-- prefixes the file backend lists as a directory: empty, or an admissible path followed by `/` -/
def fileDirPrefix (p : Key) : Bool := p = [] || (endsWithSlash p && fileAdmissible p.dropLast)

def hasLogicalTop (layers : List Layer) : Bool :=
  layers.any (fun l => match l with | .lview _ => true | _ => false)

def hasPView (layers : List Layer) : Bool :=
  layers.any (fun l => match l with | .pview _ => true | _ => false)

/-- bottom-level listing outside a transaction, per backend kind -/
def bottomList (kind : Kind) (s : Store) (p after : Key) (limit : Int) : Option (Except String (List Key)) :=
  match kind with
  | .inmem | .inmemtx => some (.ok (inmemList (keys s) p after limit))
  | .fsm | .raft => some (.ok (raftList (keys s) p after limit))
  | .file =>
    if containsDotDot p then some (.error "parentref")
    else if !fileDirPrefix p then none
    else some (.ok (fileList (children (keys s) p) after limit))

/-- a listing as the top of the stack answers it, in the current transaction if one is open -/
def topList (st : St) (p after : Key) (limit : Int) : Option (Except String (List Key)) :=
  match xlate false st.layers.reverse p with
  | none => none
  | some (.error e) => some (.error e)
  | some (.ok bp) =>
    match st.txn with
    | none => bottomList st.kind st.store bp after limit
    | some (.inmem _ s) => some (.ok (inmemList (keys s) bp after limit))
    | some (.raft _ snap u) => some (.ok (raftTxnList (keys snap) u bp after limit))

def bottomPutCheck (kind : Kind) (inTxn : Bool) (k : Key) : Option (Except String Unit) :=
  match kind with
  | .inmem | .inmemtx => some (.ok ())
  | .file => if containsDotDot k then some (.error "parentref") else if fileAdmissible k then some (.ok ()) else none
  | .fsm => if k = [] then some (.error "keyrequired") else if k.length > maxKeySize then some (.error "keytoolarge") else some (.ok ())
  | .raft =>
    if k.length > maxKeySize then some (.error "keytoolarge")
    else if k = [] then some (.error "keyrequired")   -- refused before it is proposed (bbolt cannot store it; repair F62)
    else if (utf8Decode k).isNone then
      -- the log entry is a protobuf message with a `string` key: marshalling refuses invalid UTF-8. Outside a
      -- transaction that is the Put's error; inside one it only surfaces at Commit (not modelled: never driven)
      (if inTxn then none else some (.error "protoutf8"))
    else some (.ok ())

def bottomKeyCheck (kind : Kind) (k : Key) : Option (Except String Unit) :=
  match kind with
  | .file => if containsDotDot k then some (.error "parentref") else if k = [] ∨ fileAdmissible k then some (.ok ()) else none
  | _ => some (.ok ())

/-- Delete at the bottom: as `bottomKeyCheck`, plus the protobuf refusal of invalid UTF-8 keys on the raft log -/
def bottomDelCheck (kind : Kind) (inTxn : Bool) (k : Key) : Option (Except String Unit) :=
  match kind with
  | .raft => if (utf8Decode k).isNone then (if inTxn then none else some (.error "protoutf8")) else some (.ok ())
  | _ => bottomKeyCheck kind k

def doPut (st : St) (k : Key) (v : Val) : St × Res :=
  match xlate true st.layers.reverse k with
  | none => (st, .bad)
  | some (.error e) => (st, .err e)
  | some (.ok bk) =>
    match st.txn with
    | none =>
      match bottomPutCheck st.kind false bk with
      | none => (st, .bad)
      | some (.error e) => (st, .err e)
      | some (.ok _) => ({ st with store := kvPut st.store bk v }, .ok)
    | some (.inmem rw s) =>
      if !rw then (st, .err "readonly") else ({ st with txn := some (.inmem rw (kvPut s bk v)) }, .ok)
    | some (.raft rw snap u) =>
      if !rw then (st, .err "readonly")
      else match bottomPutCheck st.kind true bk with
        | none => (st, .bad)
        | some (.error e) => (st, .err e)
        | some (.ok _) => ({ st with txn := some (.raft rw snap (updSet u bk (some v))) }, .ok)

def doDel (st : St) (k : Key) : St × Res :=
  match xlate true st.layers.reverse k with
  | none => (st, .bad)
  | some (.error e) => (st, .err e)
  | some (.ok bk) =>
    match st.txn with
    | none =>
      match bottomDelCheck st.kind false bk with
      | none => (st, .bad)
      | some (.error e) => (st, .err e)
      | some (.ok _) => ({ st with store := kvDel st.store bk }, .ok)
    | some (.inmem rw s) =>
      if !rw then (st, .err "readonly") else ({ st with txn := some (.inmem rw (kvDel s bk)) }, .ok)
    | some (.raft rw snap u) =>
      if !rw then (st, .err "readonly")
      else match bottomDelCheck st.kind true bk with
        | none => (st, .bad)
        | some (.error e) => (st, .err e)
        | some (.ok _) => ({ st with txn := some (.raft rw snap (updSet u bk none)) }, .ok)

/-- result of a `Get` that reached the bottom with key `bk`: absent, or the value with the key the caller sees
(every backend returns the entry under the key it was asked for) -/
def entryRes (st : St) (bk : Key) (r : Option Val) : Res :=
  match r with
  | none => .val none
  | some v => .got v (keyBack st.layers.reverse bk)

def doGet (st : St) (k : Key) : Res :=
  match xlate false st.layers.reverse k with
  | none => .bad
  | some (.error e) => .err e
  | some (.ok bk) =>
    match st.txn with
    | none =>
      match bottomKeyCheck st.kind bk with
      | none => .bad
      | some (.error e) => .err e
      | some (.ok _) => if st.kind = .file ∧ bk = [] then .bad else entryRes st bk (kvGet st.store bk)
    | some (.inmem _ s) => entryRes st bk (kvGet s bk)
    | some (.raft rw snap u) =>
      if rw then
        match updGet u bk with
        | some r => entryRes st bk r
        | none => entryRes st bk (kvGet snap bk)
      else entryRes st bk (kvGet snap bk)

def doList (st : St) (p after : Key) (limit : Int) : Res :=
  match topList st p after limit with
  | none => .bad
  | some (.error e) => .err e
  | some (.ok l) => .lst l

def txnCapable (st : St) : Bool := (st.kind = .inmemtx || st.kind = .raft) && !hasPView st.layers

def doBegin (st : St) (rw : Bool) : St × Res :=
  if !txnCapable st ∨ st.txn.isSome then (st, .bad)
  else if st.kind = .inmemtx then ({ st with txn := some (.inmem rw st.store) }, .ok)
  else ({ st with txn := some (.raft rw st.store []) }, .ok)

/-- single-threaded commit: nothing else wrote in between, so the transaction's view becomes the store
(conflict detection is the subject of C08, not of this model) -/
def doCommit (st : St) : St × Res :=
  match st.txn with
  | none => (st, .bad)
  | some (.inmem rw s) => ({ st with store := if rw then s else st.store, txn := none }, .ok)
  | some (.raft rw _ u) => ({ st with store := if rw then overlay st.store u else st.store, txn := none }, .ok)

def doRollback (st : St) : St × Res :=
  match st.txn with
  | none => (st, .bad)
  | some _ => ({ st with txn := none }, .ok)

/-- the lister the scan helpers see at the top of the stack (no transaction open on our side). A logical top over a
transactional backend makes `ScanViewPaginated` open a read-only transaction and list inside it. -/
def scanLister (st : St) : Lister := fun p after limit =>
  let st' : St :=
    if hasLogicalTop st.layers ∧ txnCapable st then
      (if st.kind = .raft then { st with txn := some (.raft false st.store []) } else st)
    else st
  match topList st' p after limit with
  | none => .error "unmodelled"
  | some r => r

def scanFuel (st : St) : Nat := 64 + 8 * (st.store.foldl (fun n e => n + e.1.length + 2) 0)

def doScan (st : St) (pageSize : Int) : Res :=
  if st.txn.isSome then .bad else
  match scanView (scanLister st) pageSize (scanFuel st) with
  | none => .err "fuel"
  | some (.error "unmodelled") => .bad
  | some (.error e) => .err e
  | some (.ok l) => .lst l

/-- `ClearViewWithPagination`: count (a full scan), then scan again deleting every reported path through the
same top; the first failing delete aborts. -/
def clearLoop : St → List Key → St × Res
  | st, [] => (st, .ok)
  | st, k :: r =>
    match doDel st k with
    | (st', .ok) => clearLoop st' r
    | (st', res) => (st', res)

def doClear (st : St) : St × Res :=
  if st.txn.isSome then (st, .bad) else
  match doScan st 2500 with
  | .lst l => clearLoop st l
  | r => (st, r)

def doRawPut (st : St) (k : Key) (v : Val) : St × Res :=
  if st.txn.isSome then (st, .bad) else doPut { st with layers := [] } k v |> fun (s, r) => ({ s with layers := st.layers }, r)

def doRawDel (st : St) (k : Key) : St × Res :=
  if st.txn.isSome then (st, .bad) else doDel { st with layers := [] } k |> fun (s, r) => ({ s with layers := st.layers }, r)

def doDump (st : St) : Res := if st.txn.isSome then .bad else .kvs st.store

end Obao.Listing

/-! ### the read cache (sdk/physical/cache.go) as its own small machine

`lru` maps a key to the cached result of `Get` (`some none` = negative entry). `evict` is the LRU dropping an
entry at any moment; theorems quantify over arbitrary interleavings of evictions. -/
namespace Obao.Listing
open Obao.KV

structure CacheSt where
  backend : Store
  lru : Updates

inductive CacheOp where
  | get (k : Key)
  | put (k : Key) (v : Val)
  | del (k : Key)
  | evict (k : Key)

def lruRemove (l : Updates) (k : Key) : Updates := l.filter (fun e => e.1 ≠ k)

/-- one operation on the cached backend; the second component is what a `Get` returns -/
def cacheStep (c : CacheSt) : CacheOp → CacheSt × Option (Option Val)
  | .get k =>
    match updGet c.lru k with
    | some r => (c, some r)
    | none => let r := kvGet c.backend k; ({ c with lru := updSet c.lru k r }, some r)
  | .put k v => ({ backend := kvPut c.backend k v, lru := updSet c.lru k (some v) }, none)
  | .del k => ({ backend := kvDel c.backend k, lru := lruRemove c.lru k }, none)
  | .evict k => ({ c with lru := lruRemove c.lru k }, none)

/-- the same operation on the bare backend (eviction does nothing) -/
def plainStep (s : Store) : CacheOp → Store × Option (Option Val)
  | .get k => (s, some (kvGet s k))
  | .put k v => (kvPut s k v, none)
  | .del k => (kvDel s k, none)
  | .evict _ => (s, none)

def cacheRun (c : CacheSt) : List CacheOp → List (Option (Option Val))
  | [] => []
  | op :: r => let (c', o) := cacheStep c op; o :: cacheRun c' r

def plainRun (s : Store) : List CacheOp → List (Option (Option Val))
  | [] => []
  | op :: r => let (s', o) := plainStep s op; o :: plainRun s' r

/-- concatenated view prefixes of a layer list given top first -/
def viewPrefix : List Layer → Key
  | [] => []
  | .pview p :: r => viewPrefix r ++ p
  | .lview p :: r => viewPrefix r ++ p
  | _ :: r => viewPrefix r

/-- `HandleListPage`-style paging: ask for the page after the last entry received until a page comes back
empty; `lp after` is one page. Fuel-bounded. -/
def pageAll (lp : Key → List Key) : Nat → Key → Option (List Key)
  | 0, _ => none
  | fuel + 1, after =>
    match (lp after).getLast? with
    | none => some []
    | some last => (pageAll lp fuel last).map ((lp after) ++ ·)

end Obao.Listing
