import Obao.Model.Prelude
import Obao.Model.TTL
/-!
Model of token creation (`internal/vault/token_store.go`: `handleCreateCommon`, `resolveTokenPolicies`,
`parseAndMergeTTLPeriod`, `tokenStoreRoleCreateUpdate`, `create`) and of the token made by an auth-method login
(`request_handling.go`: `LoginCreateToken`, `RegisterAuth`; `routing/router.go`: token-type mapping), together with
the helpers they use (`policyutil.SanitizePolicies`, `strutil.RemoveDuplicates`, `StrListSubset`, `StrListDelete`,
`StrListContainsGlob` over `ryanuber/go-glob`).

Transliterated branch by branch, same order of guards, same error classes. Conventions:
* a policy name is a `List Char` (ASCII; Go lower-cases and trims with the Unicode tables, the model with the ASCII
  ones — the generator stays inside ASCII);
* durations are whole seconds (`Int`); request durations arrive as strings in Go, here as `Dur` (absent / unparsable /
  value) — `parseutil.ParseDurationSecond` itself is outside the model;
* "now" equals the token's creation second (the harness retries a case when the wall-clock second changed);
* `Env.allowed` / `Env.sudo` are the caller's capabilities on the request path (ACL evaluation is C03's subject).
-/
namespace Obao.TokenCreate
open Obao.TTL

abbrev Name := List Char

/-! ## strings -/

def isSpace (c : Char) : Bool :=
  c == ' ' || c == '\t' || c == '\n' || c == '\r' || c.toNat == 11 || c.toNat == 12

def trimL (s : Name) : Name := s.dropWhile isSpace
def trim (s : Name) : Name := (trimL (trimL s).reverse).reverse
/-- ASCII `unicode.ToLower` -/
def lowerC (c : Char) : Char :=
  match c with
  | 'A' => 'a' | 'B' => 'b' | 'C' => 'c' | 'D' => 'd' | 'E' => 'e' | 'F' => 'f' | 'G' => 'g' | 'H' => 'h'
  | 'I' => 'i' | 'J' => 'j' | 'K' => 'k' | 'L' => 'l' | 'M' => 'm' | 'N' => 'n' | 'O' => 'o' | 'P' => 'p'
  | 'Q' => 'q' | 'R' => 'r' | 'S' => 's' | 'T' => 't' | 'U' => 'u' | 'V' => 'v' | 'W' => 'w' | 'X' => 'x'
  | 'Y' => 'y' | 'Z' => 'z'
  | c => c

/-- `strings.ToLower(strings.TrimSpace(p))` -/
def norm (s : Name) : Name := (trim s).map lowerC

def nRoot : Name := ['r', 'o', 'o', 't']
def nDefault : Name := ['d', 'e', 'f', 'a', 'u', 'l', 't']
/-- `policy.NonAssignablePolicies` = [`response-wrapping`] -/
def nRespWrap : Name := ['r','e','s','p','o','n','s','e','-','w','r','a','p','p','i','n','g']
def nonAssignable : List Name := [nRespWrap]

/-- byte-wise (= code point) lexicographic order, as `sort.Strings` -/
def nameLt : Name → Name → Bool
  | [], [] => false
  | [], _ :: _ => true
  | _ :: _, [] => false
  | a :: as, b :: bs =>
    if a.toNat < b.toNat then true else if b.toNat < a.toNat then false else nameLt as bs

def insertSorted (x : Name) : List Name → List Name
  | [] => [x]
  | y :: ys => if x = y then y :: ys else if nameLt x y then x :: y :: ys else y :: insertSorted x ys

def sortDedup : List Name → List Name
  | [] => []
  | x :: xs => insertSorted x (sortDedup xs)

/-- `strutil.RemoveDuplicates(items, true)`: trim, drop empty, lower-case, dedup, sort -/
def removeDuplicates (items : List Name) : List Name :=
  sortDedup ((items.map norm).filter (fun s => !s.isEmpty))

/-- `strutil.TrimStrings` as applied by `TypeCommaStringSlice` parsing of the role fields -/
def trimStrings (items : List Name) : List Name := items.map trim

/-- `policyutil.SanitizePolicies(policies, addDefault)` -/
def sanitize (policies : List Name) (addDefault : Bool) : List Name :=
  let n := policies.map norm
  let hasRoot := n.contains nRoot
  let base := if hasRoot then [nRoot] else n
  let defaultFound := hasRoot || n.contains nDefault
  let base := if addDefault && !defaultFound then base ++ [nDefault] else base
  removeDuplicates base

/-- `strutil.StrListSubset(super, sub)` -/
def subset (super sub : List Name) : Bool := sub.all (fun x => super.contains x)

/-- `strutil.StrListDelete(s, d)`: remove the first occurrence -/
def listDelete : List Name → Name → List Name
  | [], _ => []
  | x :: xs, d => if x = d then xs else x :: listDelete xs d

/-! ## go-glob -/

/-- `strings.Split(pattern, "*")` -/
def splitStar : Name → List Name
  | [] => [[]]
  | c :: cs =>
    match splitStar cs with
    | [] => [[c]]
    | h :: t => if c == '*' then [] :: h :: t else (c :: h) :: t

/-- the rest of `subj` after the first occurrence of `part` (`strings.Index` + slice), `none` when absent -/
def dropThrough (part : Name) : Name → Option Name
  | [] => if part.isEmpty then some [] else none
  | c :: cs =>
    if part.isPrefixOf (c :: cs) then some ((c :: cs).drop part.length) else dropThrough part cs

/-- middle sections of the loop (`i ≥ 1`): each must occur, the subject is trimmed past it; the last section is
    compared as a suffix -/
def globRest (trailingGlob : Bool) : List Name → Name → Bool
  | [], _ => true          -- not reached: `glob` always passes at least the last section
  | [last], subj => trailingGlob || last.isSuffixOf subj
  | p :: ps, subj =>
    match dropThrough p subj with
    | none => false
    | some rest => globRest trailingGlob ps rest

/-- `glob.Glob(pattern, subj)` -/
def glob (pattern subj : Name) : Bool :=
  if pattern.isEmpty then subj.isEmpty
  else if pattern = ['*'] then true
  else
    match splitStar pattern with
    | [] => false
    | [_] => subj == pattern
    | first :: rest =>
      -- i = 0: without a leading glob the first section must be a prefix; with one the section is "" (index 0)
      if first.isPrefixOf subj then
        globRest (pattern.getLast? == some '*') rest (subj.drop first.length)
      else false

/-- `strutil.StrListContainsGlob(haystack, needle)` -/
def containsGlob (haystack : List Name) (needle : Name) : Bool := haystack.any (fun g => glob g needle)

/-! ## records -/

structure Parent where
  policies : List Name      -- as stored in the parent's token entry
  ttl : Int                 -- parent.TTL (0 = non-expiring)
  numUses : Int             -- stored use count BEFORE this request
  batch : Bool
  deriving Repr

inductive RoleType | defaultService | defaultBatch | service | batch
  deriving DecidableEq, Repr

/-- a token role as stored (`tsRoleEntry` after `tokenStoreRole`'s upgrades) -/
structure Role where
  allowed : List Name
  disallowed : List Name
  allowedGlob : List Name
  disallowedGlob : List Name
  orphan : Bool
  renewable : Bool
  noDefault : Bool
  period : Int
  emax : Int
  numUses : Int
  tokType : RoleType
  pathSuffix : Name
  aliases : List Name
  deriving Repr

/-- a duration-valued request string -/
inductive Dur | absent | bad | val (s : Int)
  deriving DecidableEq, Repr

/-- the `id` request parameter: absent; a fresh well-formed custom id; one with the `hvs.` / `s.` prefix; one with
    a dot; the id of an existing token -/
inductive IdReq | none | custom | hvs | legacy | dot | dup
  deriving DecidableEq, Repr

inductive TypeStr | empty | service | batch | other
  deriving DecidableEq, Repr

inductive Endpoint
  | create
  | createOrphan
  | withRole (name : Name) (r : Option Role)   -- `none`: no role of that name is stored
  deriving Repr

structure Req where
  policies : List Name
  noParent : Bool
  noDefault : Bool
  renewable : Bool
  period : Dur
  emax : Dur
  ttl : Dur
  numUses : Int
  id : IdReq
  type : TypeStr
  alias : Option Name
  deriving Repr

structure Env where
  allowed : Bool        -- caller may `update` the request path
  sudo : Bool           -- `SudoPrivilege` on the request path (sudo capability or root)
  nsChild : Bool        -- the request's namespace is not the root namespace
  crossNS : Bool        -- the request's namespace differs from the parent token's
  sysDefault : Int      -- mount default lease TTL
  sysMax : Int          -- mount max lease TTL
  deriving Repr

structure Created where
  policies : List Name
  orphan : Bool
  batch : Bool
  ttl : Int
  period : Int          -- effective (response `auth.period`)
  emax : Int            -- effective (response `auth.explicit_max_ttl`)
  periodStored : Int    -- token entry `Period`
  emaxStored : Int      -- token entry `ExplicitMaxTTL`
  numUses : Int
  renewable : Bool
  customId : Bool
  path : Name
  role : Name
  deriving Repr, DecidableEq

inductive Res
  | denied
  | err (code : String)
  | ok (t : Created)
  deriving Repr, DecidableEq

/-! ## role write (`tokenStoreRoleCreateUpdate`, create operation) -/

/-- raw role configuration as sent to `auth/token/roles/<name>` -/
structure RoleCfg where
  allowed : List Name
  disallowed : List Name
  allowedGlob : List Name
  disallowedGlob : List Name
  orphan : Bool
  renewable : Bool
  noDefault : Bool
  period : Int
  emax : Int
  numUses : Int
  tokType : Option RoleType      -- `token_type` absent / one of the four accepted strings
  tokTypeBad : Bool              -- `token_type` is some other string
  pathSuffix : Name
  suffixOk : Bool                -- `pathSuffixSanitize` matched (regexp evaluation is outside the model)
  aliases : List Name
  deriving Repr

def hasDotDot : Name → Bool
  | '.' :: '.' :: _ => true
  | _ :: cs => hasDotDot cs
  | [] => false

inductive RoleRes | err (code : String) | ok (r : Role)
  deriving Repr

def storeRole (c : RoleCfg) : RoleRes :=
  -- `TypeDurationSecond` fields refuse negative values before the handler runs
  if c.period < 0 || c.emax < 0 then .err "role-field" else
  if !c.pathSuffix.isEmpty && !c.suffixOk then .err "role-suffix" else
  if hasDotDot c.pathSuffix then .err "role-suffix-dotdot" else
  -- ParseTokenFields
  if c.period < 0 then .err "role-parse" else
  if c.numUses < 0 then .err "role-parse" else
  if c.tokTypeBad then .err "bad-type" else
  let tt := match c.tokType with | none => RoleType.defaultService | some t => t
  if tt = .batch && !c.orphan then .err "role-batch-orphan" else
  if tt = .batch && c.period != 0 then .err "role-batch-period" else
  if tt = .batch && c.renewable then .err "role-batch-renewable" else
  if tt = .batch && c.emax != 0 then .err "role-batch-emax" else
  if tt = .batch && c.numUses != 0 then .err "role-batch-uses" else     -- repair F85
  .ok { allowed := sanitize (trimStrings c.allowed) false
        disallowed := removeDuplicates (trimStrings c.disallowed)
        allowedGlob := sanitize (trimStrings c.allowedGlob) false
        disallowedGlob := removeDuplicates (trimStrings c.disallowedGlob)
        orphan := c.orphan, renewable := c.renewable, noDefault := c.noDefault
        period := c.period, emax := c.emax, numUses := c.numUses, tokType := tt
        pathSuffix := c.pathSuffix
        aliases := removeDuplicates (trimStrings c.aliases) }

/-! ## policy resolution (`resolveTokenPolicies`) -/

inductive PolRes | err (code : String) | ok (ps : List Name)
  deriving Repr, DecidableEq

def roleHasLists (r : Role) : Bool :=
  !r.allowed.isEmpty || !r.disallowed.isEmpty || !r.allowedGlob.isEmpty || !r.disallowedGlob.isEmpty

/-- "If the request doesn't say not to add default and default isn't in the disallowed list, add it" -/
def localAddDefaultOf (r : Role) (noDefaultPolicy : Bool) : Bool :=
  !noDefaultPolicy && !r.noDefault && !r.disallowed.contains nDefault && !containsGlob r.disallowedGlob nDefault

/-- role arm, first half: requested policies against the allow-lists (or the parent's policies when nothing is
    requested and there is no allow-list) -/
def roleAllowStep (r : Role) (par : Parent) (policies : List Name) (lad : Bool) : PolRes :=
  let final0 : List Name := if !policies.isEmpty then sanitize policies lad else []
  if !r.allowed.isEmpty || !r.allowedGlob.isEmpty then
    let sanRole := sanitize r.allowed lad
    if final0.isEmpty then .ok sanRole
    else
      let sanGlob := sanitize r.allowedGlob false
      if final0.all (fun p => sanRole.contains p || containsGlob sanGlob p) then .ok final0
      else .err "role-not-allowed"
  else
    if final0.isEmpty then .ok (sanitize par.policies lad) else .ok final0

/-- role arm, second half: the disallow-lists -/
def roleDisallowStep (r : Role) (final1 : List Name) : PolRes :=
  if !r.disallowed.isEmpty || !r.disallowedGlob.isEmpty then
    let dis := removeDuplicates r.disallowed
    let disGlob := removeDuplicates r.disallowedGlob
    if final1.any (fun p => dis.contains p || containsGlob disGlob p) then .err "role-disallowed"
    else .ok final1
  else .ok final1

/-- the role arm of the switch; returns the munged `policies` (before the common tail) -/
def resolveRoleArm (r : Role) (par : Parent) (policies : List Name) (noDefaultPolicy : Bool) : PolRes :=
  match roleAllowStep r par policies (localAddDefaultOf r noDefaultPolicy) with
  | .err e => .err e
  | .ok final1 => roleDisallowStep r final1

/-- the common tail: final sanitising, `no_default_policy` stripping, non-assignable check -/
def resolveTail (policies : List Name) (addDefault noDefaultPolicy : Bool) : PolRes :=
  let fin := sanitize policies addDefault
  let fin := if noDefaultPolicy then listDelete fin nDefault else fin
  if fin.any (fun p => nonAssignable.contains p) then .err "non-assignable" else .ok fin

def resolvePolicies (env : Env) (role : Option Role) (par : Parent) (policies : List Name)
    (noDefaultPolicy : Bool) : PolRes :=
  match role with
  | some r =>
    if roleHasLists r then
      match resolveRoleArm r par policies noDefaultPolicy with
      | .err e => .err e
      | .ok ps => resolveTail ps false noDefaultPolicy
    else resolveNoLists env par policies noDefaultPolicy
  | none => resolveNoLists env par policies noDefaultPolicy
where
  /-- the remaining arms of the switch (no role, or a role without any of the four lists) -/
  resolveNoLists (env : Env) (par : Parent) (policies : List Name) (noDefaultPolicy : Bool) : PolRes :=
    if env.crossNS then resolveTail policies (!noDefaultPolicy) noDefaultPolicy
    else if policies.isEmpty then resolveTail (sanitize par.policies false) false noDefaultPolicy
    else if !env.sudo then
      let sanIn := sanitize policies false
      let sanPar := sanitize par.policies false
      if !subset sanPar sanIn then .err "not-subset"
      else resolveTail policies (!noDefaultPolicy && par.policies.contains nDefault) noDefaultPolicy
    else resolveTail policies (!noDefaultPolicy) noDefaultPolicy

/-! ## TTL / period / explicit max (`parseAndMergeTTLPeriod`) -/

structure Merged where
  emaxToUse : Int
  periodToUse : Int
  emaxStored : Int
  periodStored : Int
  ttl : Int
  deriving Repr

inductive MergeRes | err (code : String) | ok (m : Merged)
  deriving Repr

def parseEmax (d : Dur) : Except String Int :=
  match d with
  | .absent => .ok 0
  | .bad => .error "dur-parse"
  | .val d => if d < 0 then .error "emax-neg" else .ok d

def parsePeriod (d : Dur) (sudo : Bool) : Except String Int :=
  match d with
  | .absent => .ok 0
  | .bad => .error "dur-parse"
  | .val d => if d < 0 then .error "period-neg" else if d = 0 then .ok 0
              else if !sudo then .error "period-sudo" else .ok d

def parseTTLReq (d : Dur) : Except String Int :=
  match d with
  | .absent => .ok 0
  | .bad => .error "dur-parse"
  | .val d => if d < 0 then .error "ttl-neg" else .ok d

/-- "set the lesser period / explicit max TTL if defined both in arguments and in role" -/
def mergeLesser (roleV reqV : Int) : Int :=
  if roleV != 0 then (if reqV = 0 then roleV else if roleV < reqV then roleV else reqV) else reqV

def parseAndMerge (rq : Req) (role : Option Role) (batch sudo : Bool) : MergeRes :=
  match parseEmax rq.emax with
  | .error e => .err e
  | .ok emax =>
  match parsePeriod rq.period sudo with
  | .error e => .err e
  | .ok period =>
  match parseTTLReq rq.ttl with
  | .error e => .err e
  | .ok ttl =>
  match role with
  | some r =>
    if !batch then
      .ok { emaxToUse := mergeLesser r.emax emax, periodToUse := mergeLesser r.period period,
            emaxStored := emax, periodStored := period, ttl }
    else .ok { emaxToUse := emax, periodToUse := period, emaxStored := emax, periodStored := period, ttl }
  | none => .ok { emaxToUse := emax, periodToUse := period, emaxStored := emax, periodStored := period, ttl }

/-! ## `handleCreateCommon` -/

def cCreate : Name :=
  ['a', 'u', 't', 'h', '/', 't', 'o', 'k', 'e', 'n', '/', 'c', 'r', 'e', 'a', 't', 'e']
def cCreateOrphan : Name :=
  ['a', 'u', 't', 'h', '/', 't', 'o', 'k', 'e', 'n', '/', 'c', 'r', 'e', 'a', 't', 'e', '-', 'o', 'r', 'p', 'h', 'a', 'n']

def endpointRole : Endpoint → Option Role
  | .withRole _ r => r
  | _ => none

def endpointPath : Endpoint → Name
  | .create => cCreate
  | .createOrphan => cCreateOrphan
  | .withRole n _ => cCreate ++ ['/'] ++ n

def endpointRoleName : Endpoint → Name
  | .withRole n _ => n
  | _ => []

/-- the batch-type guard: explicit_max_ttl, num_uses and period are each examined (independent tests since the repair
    F85; they had been the arms of one `switch`, so the first non-empty field hid the others); a value that does not
    parse answers at once -/
def batchGuard (rq : Req) : Option String :=
  match rq.emax with
  | .bad => some "batch-emax-parse"
  | .val d => if d != 0 then some "batch-has-emax" else batchGuardRest rq
  | .absent => batchGuardRest rq
where
  batchGuardRest (rq : Req) : Option String :=
    if rq.numUses != 0 then some "batch-has-uses" else
    match rq.period with
    | .bad => some "batch-period-parse"
    | .val d => if d != 0 then some "batch-has-period" else none
    | .absent => none

/-- the guard as it was: only the FIRST non-empty of explicit_max_ttl / num_uses / period examined -/
def batchGuardFirstOnly (rq : Req) : Option String :=
  if rq.emax != .absent then
    match rq.emax with
    | .bad => some "batch-emax-parse"
    | .val d => if d != 0 then some "batch-has-emax" else none
    | .absent => none
  else if rq.numUses != 0 then some "batch-has-uses"
  else if rq.period != .absent then
    match rq.period with
    | .bad => some "batch-period-parse"
    | .val d => if d != 0 then some "batch-has-period" else none
    | .absent => none
  else none

/-- the effective `type` string: a role may force it or supply a default -/
def typeStrOf (role : Option Role) (rq : Req) : TypeStr :=
  match role with
  | some r =>
    (match r.tokType with
     | .defaultService => rq.type
     | .defaultBatch => if rq.type = .empty then .batch else rq.type
     | .service => .service
     | .batch => .batch)
  | none => rq.type

/-- the `switch tokenTypeStr`: is the new token a batch token? -/
def batchOf (role : Option Role) (rq : Req) : Except String Bool :=
  match typeStrOf role rq with
  | .empty => .ok false
  | .service => .ok false
  | .batch => (match batchGuard rq with | some e => .error e | none => .ok true)
  | .other => .error "bad-type"

/-- `resolveEntityAlias`, error class only -/
def aliasCheck (role : Option Role) (rq : Req) : Option String :=
  match rq.alias with
  | none => none
  | some a =>
    match role with
    | none => some "alias-norole"
    | some r =>
      let al := a.map lowerC
      if !r.aliases.contains al && !containsGlob r.aliases al then some "alias-invalid" else none

def renewableOf (role : Option Role) (batch : Bool) (rq : Req) : Bool :=
  let renewable := if batch then false else rq.renewable
  match role with
  | some r => if renewable && !r.renewable then false else renewable
  | none => renewable

def numUsesOf (role : Option Role) (rq : Req) : Int :=
  match role with
  | some r =>
    if r.numUses = 0 then rq.numUses else if rq.numUses = 0 then r.numUses
    else if r.numUses < rq.numUses then r.numUses else rq.numUses
  | none => rq.numUses

def pathOf (ep : Endpoint) : Name :=
  match endpointRole ep with
  | some r => if !r.pathSuffix.isEmpty then endpointPath ep ++ ['/'] ++ r.pathSuffix else endpointPath ep
  | none => endpointPath ep

/-- the orphan switch: role / `no_parent` (needs sudo) / the create-orphan endpoint -/
def orphanOf (env : Env) (ep : Endpoint) (rq : Req) : Except String Bool :=
  match endpointRole ep with
  | some r => .ok r.orphan
  | none =>
    if rq.noParent then (if !env.sudo then .error "orphan-sudo" else .ok true)
    else .ok (match ep with | .createOrphan => true | _ => false)

/-- the arguments of `framework.CalculateTTL(sysView, 0, te.TTL, periodToUse, 0, explicitMaxTTLToUse, creationTime)`;
    "now" is the creation second -/
def ttlInp (env : Env) (m : Merged) : Inp :=
  { now := 0, start := 0, sysMax := env.sysMax, sysDefault := env.sysDefault, increment := 0,
    backendTTL := m.ttl, period := m.periodToUse, backendMax := 0, explicitMax := m.emaxToUse }

/-- TTL of the new token: `CalculateTTL` unless (no period, no TTL, root); then "root tokens are still bound by
    explicit max TTL" -/
def ttlOf (env : Env) (m : Merged) (policies : List Name) : Except String Int :=
  let needCalc := m.periodToUse > 0 || m.ttl > 0 || (m.ttl == 0 && !policies.contains nRoot)
  match (if needCalc then
           (match calcTTL (ttlInp env m) with
            | .ok t _ => (Except.ok t : Except String Int)
            | _ => .error "ttl-calc")
         else .ok m.ttl) with
  | .error e => .error e
  | .ok ttl => .ok (if ttl = 0 && m.emaxToUse > 0 then m.emaxToUse else ttl)

/-- `ts.create`: checks on a caller-chosen id (ignored for batch tokens) -/
def idCheck (batch : Bool) (rq : Req) : Option String :=
  if batch then none else
  match rq.id with
  | .hvs => some "id-hvs"
  | .legacy => some "id-s"
  | .dot => some "id-dot"
  | .dup => some "id-dup"
  | _ => none

/-- the part of `handleCreateCommon` after policy resolution -/
def createTail (env : Env) (par : Parent) (ep : Endpoint) (rq : Req) (batch : Bool) (policies : List Name) : Res :=
  let role := endpointRole ep
  -- root tokens may not be created from a parent namespace: tested on the RESOLVED policies
  if policies.contains nRoot && env.crossNS then .err "ns-root" else
  if policies.contains nRoot && !par.policies.contains nRoot then .err "root-needs-root" else
  if policies.contains nRoot && batch then .err "batch-root" else
  match orphanOf env ep rq with
  | .error e => .err e
  | .ok orphan =>
  match parseAndMerge rq role batch env.sudo with
  | .err e => .err e
  | .ok m =>
  match ttlOf env m policies with
  | .error e => .err e
  | .ok ttl =>
  if ttl = 0 && par.ttl != 0 then .err "root-expiring-parent" else
  match idCheck batch rq with
  | some e => .err e
  | none =>
  .ok { policies := sanitize policies false, orphan, batch, ttl,
        period := m.periodToUse, emax := m.emaxToUse,
        periodStored := if batch then 0 else m.periodStored,
        emaxStored := if batch then 0 else m.emaxStored,
        numUses := numUsesOf role rq,
        renewable := if ttl = 0 then false else renewableOf role batch rq,
        customId := !batch && rq.id = .custom,
        path := pathOf ep, role := endpointRoleName ep }

/-- the guards of `handleCreateCommon` that come after the parent checks, up to policy resolution -/
def createMid (env : Env) (par : Parent) (ep : Endpoint) (rq : Req) : Res :=
  let role := endpointRole ep
  if env.crossNS && !env.sudo then .err "ns-sudo" else
  match batchOf role rq with
  | .error e => .err e
  | .ok batch =>
  if rq.numUses < 0 then .err "neg-uses" else
  match aliasCheck role rq with
  | some e => .err e
  | none =>
  -- role block: the use count the token ends up with (request and role merged) — a batch token cannot carry one
  if role.isSome && batch && numUsesOf role rq != 0 then .err "batch-has-uses" else
  if rq.id != .none && !env.sudo then .err "id-sudo" else
  if rq.id != .none && env.nsChild then .err "id-ns" else
  match resolvePolicies env role par rq.policies rq.noDefault with
  | .err e => .err e
  | .ok policies => createTail env par ep rq batch policies

/-- `framework.FieldData` parsing of the request: a `TypeStringSlice` field is trimmed element-wise (not lower-cased) -/
def parseFields (rq : Req) : Req := { rq with policies := trimStrings rq.policies }

def create (env : Env) (par : Parent) (ep : Endpoint) (rq : Req) : Res :=
  if !env.allowed then .denied else
  match ep with
  | .withRole _ none => .err "unknown-role"
  | _ =>
  -- the request itself consumes one use of a use-limited parent: the last use makes the handler's lookup fail
  if par.batch then .err "batch-parent" else
  if par.numUses = 1 then .err "no-parent" else
  if par.numUses - 1 > 0 then .err "limited-use" else
  createMid env par ep (parseFields rq)

/-! ## login (`LoginCreateToken` / `RegisterAuth`, token type mapping of `router.routeCommon`) -/

/-- `logical.TokenType` values an auth backend / a mount configuration can carry -/
inductive TokType | default | service | batch | defaultService | defaultBatch
  deriving DecidableEq, Repr

/-- `routeCommon`: the mount's configured token type decides what the backend's choice becomes -/
def routeTokenType (mount resp : TokType) : TokType :=
  match mount with
  | .service => .service
  | .batch => .batch
  | .default | .defaultService =>
    (match resp with
     | .default | .defaultService | .service => .service
     | _ => .batch)
  | .defaultBatch =>
    (match resp with
     | .default | .defaultBatch | .batch => .batch
     | _ => .service)

structure LoginAuth where
  policies : List Name       -- `auth.Policies` as returned by the backend
  identity : List Name       -- policies derived from the entity in the request's namespace
  noDefault : Bool
  ttl : Int
  maxTTL : Int
  period : Int
  emax : Int
  numUses : Int
  renewable : Bool
  tokType : TokType
  deriving Repr

structure LoginTok where
  tokenPolicies : List Name
  policies : List Name
  identity : List Name
  batch : Bool
  ttl : Int
  period : Int
  emax : Int
  numUses : Int
  renewable : Bool
  deriving Repr, DecidableEq

inductive LoginRes | err (code : String) | ok (t : LoginTok)
  deriving Repr, DecidableEq

/-- `framework.CalculateTTL(sysView, 0, auth.TTL, auth.Period, auth.MaxTTL, auth.ExplicitMaxTTL, time.Time{})` -/
def loginInp (sysDefault sysMax : Int) (a : LoginAuth) : Inp :=
  { now := 0, start := 0, sysMax, sysDefault, increment := 0, backendTTL := a.ttl, period := a.period,
    backendMax := a.maxTTL, explicitMax := a.emax }

def firstBad : List Name → Option String
  | [] => none
  | p :: ps => if p = nRoot then some "login-root" else if nonAssignable.contains p then some "non-assignable"
               else firstBad ps

def login (mountType : TokType) (sysDefault sysMax : Int) (a : LoginAuth) : LoginRes :=
  let tt := routeTokenType mountType a.tokType
  match calcTTL (loginInp sysDefault sysMax a) with
  | .ok ttl _ =>
    let tokenPolicies := sanitize a.policies (!a.noDefault)
    let all := sanitize (tokenPolicies ++ a.identity) false
    match firstBad all with
    | some e => .err e
    | none =>
      if ttl = 0 && tokenPolicies != [nRoot] then .err "internal" else
      let batch := tt = .batch
      -- `Core.RegisterAuth` (repair of F105): the mount's token_type tuning may have forced the type to batch after the
      -- auth method's own check — a batch token cannot carry a use limit
      if batch && a.numUses != 0 then .err "role-batch-uses" else
      .ok { tokenPolicies, policies := all, identity := sanitize a.identity false, batch, ttl,
            period := if batch then 0 else a.period, emax := if batch then 0 else a.emax,
            numUses := if batch then 0 else a.numUses,
            renewable := if batch then false else a.renewable }
  | _ => .err "ttl-calc"

end Obao.TokenCreate
