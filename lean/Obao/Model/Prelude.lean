/-!
Shared helpers for the executable models and the line-protocol driver. CORE LEAN ONLY: nothing under
`Obao/Model` may import Mathlib, because `Driver/Main.lean` links these modules into a native executable.
-/
namespace Obao

/-- parse a (possibly negative) decimal integer, rejecting everything else -/
def parseInt? (s : String) : Option Int := s.toInt?

def hexDigit? (c : Char) : Option Nat :=
  if '0' ≤ c ∧ c ≤ '9' then some (c.toNat - '0'.toNat)
  else if 'a' ≤ c ∧ c ≤ 'f' then some (c.toNat - 'a'.toNat + 10)
  else none

/-- hex string → bytes as `List Nat` (each < 256); `"-"` denotes the empty list so that fields are never empty -/
def parseHex? (s : String) : Option (List Nat) :=
  if s = "-" then some [] else
  let rec go : List Char → Option (List Nat)
    | [] => some []
    | [_] => none
    | a :: b :: rest => do
        let x ← hexDigit? a
        let y ← hexDigit? b
        let r ← go rest
        pure ((x * 16 + y) :: r)
  go s.toList

def hexNibble (n : Nat) : Char :=
  if n < 10 then Char.ofNat ('0'.toNat + n) else Char.ofNat ('a'.toNat + (n - 10))

def toHex (bs : List Nat) : String :=
  if bs.isEmpty then "-" else
  String.ofList (bs.flatMap fun b => [hexNibble (b / 16 % 16), hexNibble (b % 16)])

/-- hex-encoded UTF-8 string field → String (invalid UTF-8 is rejected) -/
def parseHexStr? (s : String) : Option String := do
  let bs ← parseHex? s
  let ba : ByteArray := ⟨(bs.map fun b => UInt8.ofNat b).toArray⟩
  String.fromUTF8? ba

def strToHex (s : String) : String := toHex (s.toUTF8.toList.map (·.toNat))

def fields (line : String) : List String := (line.splitOn "\t")

end Obao
