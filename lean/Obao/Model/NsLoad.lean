/-!
Loading the namespaces below an unsealed namespace (`namespace_store.go loadNamespacesRecursive / unsealNamespace`).
Namespace storage is FLAT: the data of namespace `u` — its own `core/namespaces/` listing of children included —
lives under `namespaces/<u>/` directly off the barrier, never inside its parent's prefix. A *view* is modelled by the
list of uuids it was scoped by, starting from the barrier: only `[]` (the root namespace's view) and `[u]` hold anything.
-/
namespace Obao.NsLoad

structure Store where
  kids : Nat → List Nat      -- namespace uuid ↦ the uuids of its children (0 = the root namespace)

/-- listing `core/namespaces/` through a view -/
def Store.list (st : Store) : List Nat → List Nat
  | [] => st.kids 0
  | [u] => st.kids u
  | _ => []                  -- `namespaces/<a>/namespaces/<b>/…`: nothing is ever stored there

/-- `loadNamespacesRecursive(ctx, barrier, view, cb)`: every child listed in `view` is loaded, and ITS children are looked
for in `NamespaceScopedView(barrier, child)` = `barrier ++ [child]` (fuel = recursion depth) -/
def load (st : Store) : Nat → List Nat → List Nat → List Nat
  | 0, _, _ => []
  | fuel + 1, bar, view => (st.list view).flatMap fun c => c :: load st fuel bar (bar ++ [c])

/-- specification: the descendants of `u`, depth first -/
def desc (st : Store) : Nat → Nat → List Nat
  | 0, _ => []
  | fuel + 1, u => (st.kids u).flatMap fun c => c :: desc st fuel c

/-- `unsealNamespace(u)` since the repair of F99: the barrier itself and the view of `u` -/
def unsealLoad (st : Store) (fuel u : Nat) : List Nat := load st fuel [] [u]

/-- before the repair: the view of `u` passed as the barrier, too -/
def unsealLoadNested (st : Store) (fuel u : Nat) : List Nat := load st fuel [u] [u]

end Obao.NsLoad
