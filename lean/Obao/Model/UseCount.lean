import Obao.Model.Prelude
/-!
# Use-limited tokens (C19) and response-wrapping tokens (C18) under concurrency

Micro-step model of `m` concurrent requests that all concern ONE token created with `num_uses = n`
(a response-wrapping token is such a token with `n = 1`, a stored payload `cubbyhole/response` and
`cubbyhole/wrapinfo`). Transliterated from `/repo/internal/vault`:

* `request_handling.go` `PopulateTokenEntry` → `TokenStore.Lookup` (first read of the entry; `lookupInternal` hides an
  entry whose `NumUses < 0` or that is absent); when that found nothing `fetchACLTokenEntryAndEntity` looks the token
  up AGAIN and answers `permission denied`; for `sys/wrapping/*` `validateWrappingToken` (`Lookup`), `lookupTainted`
  (finds pending entries, not deleted ones) — the `pre` instructions of a request kind;
* `handleRequest`: `UseToken` BEFORE the authorisation result is acted upon (so denied and failing requests are
  counted): fast path `NumUses == 0`, per-token lock (`acquire`), re-read through `lookupInternal` (`reread`; nothing
  found ⇒ "failed to use token", internal error), `NumUses == 1 ⇒ tokenRevocationPending (-1)` else `NumUses--`,
  `store`, unlock (`release`); third-party unwrap / rewrap reach the same code through `UseTokenByID` (`Lookup`, then
  `UseToken`);
* the request body (`body` instructions: a lease-generating request registers its lease — `expiration.Register`
  does NOT look at the token again —, child creation runs the `handleCreateCommon` guard, unwrap / rewrap / wrapping
  lookup read `cubbyhole/response` / `cubbyhole/wrapinfo`);
* deferred functions, run even when the body failed: first-party requests — on the last use only — `LazyRevoke` of
  the token's own lease (`dq`); third-party unwrap / rewrap `revokeOrphan` → `revokeInternal` synchronously (`rlook`,
  `rmark`, `rP`, `rI`, `rE`: tainted read, pending marker if missing — written WITHOUT the token lock —, destroy the
  cubbyhole, delete the entry);
* the expiration worker (schedule index `= number of threads`): `revokeInternal` — destroy the cubbyhole,
  `RevokeByToken` sweeps the leases indexed under the token at that moment (`swept`), then delete the entry (`gone`).

Granularity = one storage operation or one lock operation per step, the granularity the properties name. Lookups
take the token's *read* lock in the code; the model lets them run lock-free (a superset of the real interleavings),
so no theorem relies on the read lock.  CORE LEAN ONLY (linked into the driver).
-/
namespace Obao.UseCount

/-- `tokenRevocationPending` (token_store.go) -/
def pending : Int := -1

/-- request kinds: C19 (`read … recread`), C18 (`unwrap1 … other`; `1` = the token is the client token, `3` = the
token is in the request body and another, unlimited token is the client token) -/
inductive Kind where
  | read | write | denied | self | lease | create | recread
  | unwrap1 | unwrap3 | rewrap1 | rewrap3 | lookup1 | lookup3 | cubby | other
deriving DecidableEq, Repr

/-- what a finished request reports -/
inductive Res where
  | ok | denied | invalid | errInternal | errInvalid | child | empty
  | secret | withheld | payload | nopayload | info | noinfo | rewrapped
deriving DecidableEq, Repr

inductive NilAct where
  | cont              -- nothing found: carry on with the next instruction
  | stop (r : Res)    -- nothing found: the request ends with `r`
deriving DecidableEq, Repr

/-- instructions before the use step -/
inductive Pre where
  | look (foundFinish : Bool) (a : NilAct)  -- `Lookup`; `foundFinish`: an entry that was found ends the `pre` phase
  | taint (a : NilAct)                      -- `lookupTainted`
deriving DecidableEq, Repr

/-- instructions of the request body -/
inductive Body where
  | set (r : Res)
  | register          -- expiration.Register of a leased secret
  | create            -- handleCreateCommon guard
  | taint (r : Res)   -- handler's lookupTainted; nothing found ⇒ result `r`, body ends
  | getInfo           -- read cubbyhole/wrapinfo
  | getPayload        -- read cubbyhole/response
deriving DecidableEq, Repr

inductive DeferKind where
  | none | lazy | sync
deriving DecidableEq, Repr

structure Script where
  pre   : List Pre
  uses  : Bool
  body  : List Body
  defer : DeferKind
deriving DecidableEq, Repr

def plainPre : List Pre := [.look true .cont, .look true (.stop .denied)]

def scriptOf : Kind → Script
  | .read    => { pre := plainPre, uses := true, body := [.set .ok], defer := .lazy }
  | .write   => { pre := plainPre, uses := true, body := [.set .ok], defer := .lazy }
  | .denied  => { pre := plainPre, uses := true, body := [.set .denied], defer := .lazy }
  -- lookup-self: the handler reads the entry again (tainted); gone by then ⇒ "bad token", permission denied
  | .self    => { pre := plainPre, uses := true, body := [.taint .denied], defer := .lazy }
  | .recread => { pre := plainPre, uses := true, body := [.set .ok], defer := .lazy }
  | .lease   => { pre := plainPre, uses := true, body := [.register], defer := .lazy }
  | .create  => { pre := plainPre, uses := true, body := [.create], defer := .lazy }
  | .cubby   => { pre := plainPre, uses := true, body := [.getPayload], defer := .lazy }
  | .other   => { pre := plainPre, uses := true, body := [.set .denied], defer := .lazy }
  | .unwrap1 => { pre := [.look false .cont, .look false (.stop .invalid), .taint (.stop .errInternal)],
                  uses := true, body := [.taint .empty, .getPayload], defer := .lazy }
  | .unwrap3 => { pre := [.look false (.stop .invalid), .taint (.stop .errInternal), .taint (.stop .empty),
                          .look false (.stop .errInternal)],
                  uses := true, body := [.getPayload], defer := .sync }
  | .rewrap1 => { pre := [.look false .cont, .look false (.stop .invalid)],
                  uses := true, body := [.set .denied], defer := .lazy }
  | .rewrap3 => { pre := [.look false (.stop .invalid), .taint (.stop .empty), .look false (.stop .errInternal)],
                  -- handleWrappingRewrap defers `revokeOrphan(ctx, te.ID)` like unwrap (since 158010c; before, it passed
                  -- the request's token string, which `SaltID` does not decode, and nothing was revoked: finding F44)
                  uses := true, body := [.getInfo, .getPayload, .set .rewrapped], defer := .sync }
  | .lookup1 => { pre := [.look false .cont, .look false (.stop .invalid), .taint (.stop .empty)],
                  uses := false, body := [.getInfo], defer := .none }
  | .lookup3 => { pre := [.look false (.stop .invalid), .taint (.stop .empty)],
                  uses := false, body := [.getInfo], defer := .none }

/-! ### the use-counting entry points outside `handleRequest`: `Core.sealInitCommon` (sys/seal) and `Core.StepDown`

After the use step (`UseToken`; `spent` = the token's count reached "revocation pending") they check the policy
(`RootPrivsRequired`) and revoke a spent token SYNCHRONOUSLY (`expiration.Revoke` of its revocation lease) — on the
allowed path (before sealing / stepping down) and, since the repair of finding F51, on the denied path as well. -/

structure SealTail where
  proceeds : Bool    -- the core seals / steps down
  revoked : Bool     -- the spent token (and with it its leases) was revoked before returning
deriving DecidableEq, Repr

def sealTail (spent allowed : Bool) : SealTail :=
  { proceeds := allowed, revoked := spent }

/-- NOT the code (finding F51, repaired): the denied branch returned before the revocation -/
def sealTailDeniedReturnsEarly (spent allowed : Bool) : SealTail :=
  { proceeds := allowed, revoked := spent && allowed }

/-- the token is the client token of the request (no synchronous `revokeOrphan` by the request itself) -/
def firstParty (k : Kind) : Bool := (scriptOf k).defer != .sync

/-- per-thread program counter; `u : Option Bool` = `none` not past the use step, `some last` past it (`last`: it
consumed the final use); `r` = result so far -/
inductive Pc where
  | pre (i : Nat)
  | acquire
  | reread
  | store (seen : Int)
  | release (o : Option Bool)            -- `none`: the re-read found nothing
  | body (i : Nat) (u : Option Bool) (r : Res)
  | dq (u : Option Bool) (r : Res)       -- deferred LazyRevoke (last use only)
  | rlook (u : Option Bool) (r : Res)    -- deferred revokeOrphan: tainted read
  | rmark (u : Option Bool) (r : Res)    --   pending marker if missing (no lock)
  | rP (u : Option Bool) (r : Res)       --   delete cubbyhole/response
  | rI (u : Option Bool) (r : Res)       --   delete cubbyhole/wrapinfo
  | rL (u : Option Bool) (r : Res)       --   RevokeByToken: delete the token's own lease
  | rE (u : Option Bool) (r : Res)       --   delete the entry
  | done (u : Option Bool) (r : Res)
deriving DecidableEq, Repr

/-- shared state: the stored entry, the per-token lock, the revocation pipeline, lease accounting, the payload -/
structure Shared where
  numUses : Int
  lock    : Option Nat
  queued  : Bool      -- token's own lease marked "expire now" (LazyRevoke)
  swept   : Bool      -- worker ran cubbyhole destroy + RevokeByToken
  gone    : Bool      -- entry deleted
  issued  : Nat       -- leases registered under the token
  revoked : Nat       -- … revoked by the sweep
  late    : Nat       -- … registered after the sweep (never revoked with the token)
  payload : Bool      -- cubbyhole/response exists
  info    : Bool      -- cubbyhole/wrapinfo exists
  leaseGone : Bool    -- the token's own lease was deleted by a synchronous revocation that has not deleted the entry yet
deriving DecidableEq, Repr

structure St where
  sh    : Shared
  pcs   : List Pc
  kinds : List Kind
deriving DecidableEq, Repr

/-- `lookupInternal(…, tainted=true)` returns nil: no entry, or an entry whose lease is missing (such an entry is
treated as expired: the lookup tries to revoke it and reports nothing) -/
def Shared.absent (sh : Shared) : Bool := sh.gone || sh.leaseGone

/-- `lookupInternal(…, tainted=false)` returns nil -/
def Shared.hidden (sh : Shared) : Bool := sh.absent || decide (sh.numUses < 0)

/-- `handleCreateCommon`: `parent, _ := ts.Lookup(...)`; `parent == nil` ⇒ refused; `parent.NumUses > 0` ⇒ refused
("restricted use token cannot generate child tokens"). `true` = the guard lets the creation proceed. -/
def createGuard (sh : Shared) : Bool := !sh.hidden && !decide (sh.numUses > 0)

/-- where a request goes when its `pre` phase is over -/
def endPre (sc : Script) (sh : Shared) : Pc :=
  if sc.uses then
    if sh.numUses = 0 then .body 0 none .ok      -- UseToken fast path: unlimited token, nothing counted
    else .acquire
  else .body 0 none .ok

def advancePre (sc : Script) (i : Nat) (sh : Shared) : Pc :=
  if i + 1 < sc.pre.length then .pre (i + 1) else endPre sc sh

/-- first deferred function -/
def toDefer (sc : Script) (u : Option Bool) (r : Res) : Pc :=
  match sc.defer with
  | .none => .done u r
  | .lazy => .dq u r
  | .sync => .rlook u r

def advanceBody (sc : Script) (i : Nat) (u : Option Bool) (r : Res) : Pc :=
  if i + 1 < sc.body.length then .body (i + 1) u r else toDefer sc u r

/-- one micro-step of a request thread; `locked = false` is the lock-free variant used by `uses_need_lock` -/
def localStep (locked : Bool) (sc : Script) (t : Nat) (pc : Pc) (sh : Shared) : Option (Pc × Shared) :=
  match pc with
  | .pre i =>
      match sc.pre[i]? with
      | none => none
      | some (.look ff a) =>
          if sh.hidden then
            match a with
            | .cont => some (advancePre sc i sh, sh)
            | .stop r => some (.done none r, sh)
          else if ff then some (endPre sc sh, sh) else some (advancePre sc i sh, sh)
      | some (.taint a) =>
          if sh.absent then
            match a with
            | .cont => some (advancePre sc i sh, sh)
            | .stop r => some (.done none r, sh)
          else some (advancePre sc i sh, sh)
  | .acquire =>
      if locked then
        match sh.lock with
        | none => some (.reread, { sh with lock := some t })
        | some _ => none
      else some (.reread, sh)
  | .reread =>
      if sh.hidden then some (.release none, sh) else some (.store sh.numUses, sh)
  | .store seen =>
      some (.release (some (decide (seen = 1))),
            { sh with numUses := if seen = 1 then pending else seen - 1, gone := false })
  | .release o =>
      let sh' := if locked then { sh with lock := none } else sh
      match o with
      | some last => some (.body 0 (some last) .ok, sh')
      | none => some (.done none .errInternal, sh')
  | .body i u r =>
      match sc.body[i]? with
      | none => some (toDefer sc u r, sh)
      | some (.set r') => some (advanceBody sc i u r', sh)
      | some .register =>
          some (advanceBody sc i u .secret,
                { sh with issued := sh.issued + 1, late := if sh.swept then sh.late + 1 else sh.late })
      | some .create => some (advanceBody sc i u (if createGuard sh then .child else .errInvalid), sh)
      | some (.taint r') => if sh.absent then some (toDefer sc u r', sh) else some (advanceBody sc i u r, sh)
      | some .getInfo => if sh.info then some (advanceBody sc i u .info, sh) else some (toDefer sc u .noinfo, sh)
      | some .getPayload =>
          if sh.payload then some (advanceBody sc i u .payload, sh) else some (toDefer sc u .nopayload, sh)
  | .dq u r =>
      if u = some true then
        some (.done u (if r = .secret then .withheld else r), { sh with queued := true })
      else some (.done u r, sh)
  | .rlook u r => if sh.gone then some (.done u r, sh) else some (.rmark u r, sh)
  | .rmark u r => some (.rP u r, if sh.numUses = pending then sh else { sh with numUses := pending })
  | .rP u r => some (.rI u r, { sh with payload := false })
  | .rI u r => some (.rL u r, { sh with info := false })
  | .rL u r => some (.rE u r, { sh with leaseGone := true })
  | .rE u r => some (.done u r, { sh with gone := true })
  | .done _ _ => none

/-- the expiration worker: destroy the cubbyhole and sweep the token's leases, then delete the entry -/
def workerStep (sh : Shared) : Option Shared :=
  if sh.queued && !sh.swept then
    some { sh with swept := true, revoked := sh.issued, payload := false, info := false }
  else if sh.swept && !sh.gone then some { sh with gone := true }
  else none

/-- one step of schedule entry `t`: a request thread, or (`t = number of threads`) the worker; `none` = blocked,
finished or out of range -/
def stepG (locked : Bool) (s : St) (t : Nat) : Option St :=
  if t = s.pcs.length then (workerStep s.sh).map fun sh' => { s with sh := sh' }
  else
    match s.pcs[t]?, s.kinds[t]? with
    | some pc, some k =>
        (localStep locked (scriptOf k) t pc s.sh).map fun r => { s with sh := r.2, pcs := s.pcs.set t r.1 }
    | _, _ => none

def step : St → Nat → Option St := stepG true

def runG (locked : Bool) : List Nat → St → St
  | [], s => s
  | t :: ts, s => match stepG locked s t with
    | some s' => runG locked ts s'
    | none => runG locked ts s

/-- follow an arbitrary schedule, skipping blocked / finished entries -/
def run : List Nat → St → St := runG true

/-- `n` uses, requests of the given kinds; `wrapped`: the token is a response-wrapping token holding a payload -/
def initW (wrapped : Bool) (n : Nat) (kinds : List Kind) : St :=
  { sh := { numUses := n, lock := none, queued := false, swept := false, gone := false,
            issued := 0, revoked := 0, late := 0, payload := wrapped, info := wrapped, leaseGone := false },
    pcs := kinds.map fun _ => .pre 0, kinds := kinds }

def init (n : Nat) (kinds : List Kind) : St := initW false n kinds

/-- 1 for a thread that is past the use step (whether its request is then allowed, denied or fails) -/
def counted : Pc → Nat
  | .release (some _) => 1
  | .body _ (some _) _ => 1
  | .dq (some _) _ => 1
  | .rlook (some _) _ => 1
  | .rmark (some _) _ => 1
  | .rP (some _) _ => 1
  | .rI (some _) _ => 1
  | .rL (some _) _ => 1
  | .rE (some _) _ => 1
  | .done (some _) _ => 1
  | _ => 0

def passedCount : List Pc → Nat
  | [] => 0
  | pc :: rest => counted pc + passedCount rest

/-- requests that did not use the token and were told so -/
def refusedRes : Res → Bool
  | .denied => true
  | .invalid => true
  | .errInternal => true
  | .empty => true
  | _ => false

/-- finished requests that presented the token for use: granted or refused (wrapping lookups are neither) -/
def isDoneUse : Pc → Bool
  | .done (some _) _ => true
  | .done none r => refusedRes r
  | _ => false

def doneCount : List Pc → Nat
  | [] => 0
  | pc :: rest => (if isDoneUse pc then 1 else 0) + doneCount rest

/-- threads inside the critical section -/
def holds : Pc → Bool
  | .reread => true
  | .store _ => true
  | .release _ => true
  | _ => false

def refusedPc : Pc → Bool
  | .release none => true
  | .done none r => refusedRes r
  | _ => false

/-- 1 for a request whose result is the wrapped payload (unwrap, direct cubbyhole read) or its transfer (rewrap) -/
def obtained : Pc → Nat
  | .body _ _ .payload => 1
  | .body _ _ .rewrapped => 1
  | .dq _ .payload => 1
  | .dq _ .rewrapped => 1
  | .rlook _ .payload => 1
  | .rlook _ .rewrapped => 1
  | .rmark _ .payload => 1
  | .rmark _ .rewrapped => 1
  | .rP _ .payload => 1
  | .rP _ .rewrapped => 1
  | .rI _ .payload => 1
  | .rI _ .rewrapped => 1
  | .rL _ .payload => 1
  | .rL _ .rewrapped => 1
  | .rE _ .payload => 1
  | .rE _ .rewrapped => 1
  | .done _ .payload => 1
  | .done _ .rewrapped => 1
  | _ => 0

def obtainedCount : List Pc → Nat
  | [] => 0
  | pc :: rest => obtained pc + obtainedCount rest

/-- outcome class the harness reports for a finished request -/
def resultClass (k : Kind) (r : Res) : String :=
  match r with
  | .ok => "ok"
  | .denied => "denied"
  | .invalid => "err:invalid-wrapping-token"
  | .errInternal => "err:internal"
  | .errInvalid => "err:invalid"
  | .child => "ok+child"
  | .empty => "ok"
  | .secret => "ok+secret"
  | .withheld => "err:resp"
  | .payload => "ok+payload"
  | .nopayload => if k = .rewrap3 then "err:resp" else if k = .cubby then "ok" else "err:internal"
  | .info => "ok+path"
  | .noinfo => "err:resp"
  | .rewrapped => if k = .rewrap3 then "ok+rewrapped" else "ok"

/-- what `wrapInCubbyhole` hands back to the ORIGINAL requester: `handleCancelableRequest` replaces the response by
`&logical.Response{WrapInfo: resp.WrapInfo, Warnings: resp.Warnings}` -/
structure Resp where
  data : Bool      -- carries response data
  auth : Bool      -- carries an Auth block (token)
  secret : Bool    -- carries a leased secret
  wrapInfo : Bool
deriving DecidableEq, Repr

def wrapResponse (_orig : Resp) : Resp := { data := false, auth := false, secret := false, wrapInfo := true }

/-- the `response-wrapping` policy (policy_store.go): exactly these (path, capability) pairs are granted;
`exists` = the cubbyhole key exists (a write to an existing key needs `update`, which is not granted) -/
def wrapPolicyAllows (path op : String) : Bool :=
  (path == "cubbyhole/response" && (op == "read" || op == "create")) ||
  (path == "sys/wrapping/unwrap" && op == "update")

/-- the token entry `wrapInCubbyhole` (wrapping.go) creates for the wrapping token, as far as authorisation looks at
it: the policy list, the entity the token is bound to, and whether identity policies are excluded -/
structure WTokEntry where
  policies : List String
  entityID : String
  noIdentityPolicies : Bool
deriving DecidableEq, Repr

/-- `wrapInCubbyhole`: whoever asked for the wrapping (the requester's `auth.EntityID`), the wrapping token carries the
`response-wrapping` policy only and is bound to NO entity -/
def wrapTokenEntry (_requesterEntity : String) : WTokEntry :=
  { policies := ["response-wrapping"], entityID := "", noIdentityPolicies := false }

/-- NOT the code (seeded change C18-3): the wrapping token inherits the requester's entity -/
def wrapTokenEntryInheriting (requesterEntity : String) : WTokEntry :=
  { policies := ["response-wrapping"], entityID := requesterEntity, noIdentityPolicies := false }

/-- `fetchACLTokenEntryAndEntity`: the token's own policies plus — when it is bound to an entity and identity policies
are not excluded — the identity policies of that entity (`identity` = the identity store's answer) -/
def effectivePolicies (identity : String → List String) (te : WTokEntry) : List String :=
  te.policies ++ (if te.entityID != "" && !te.noIdentityPolicies then identity te.entityID else [])

/-- the identity policy of the harness's entity (`c18ident`) -/
def identPolicyAllows (path op : String) : Bool :=
  (path == "rec/data/a" && (op == "read" || op == "update" || op == "create")) ||
  (path == "sys/mounts" && op == "read") ||
  (path == "sys/policies/acl/default" && op == "read") ||
  (path == "auth/token/create" && op == "update")

def namedPolicyAllows (name path op : String) : Bool :=
  if name == "response-wrapping" then wrapPolicyAllows path op
  else if name == "c18ident" then identPolicyAllows path op
  else false

/-- what a request on `path` with a fresh wrapping token as its client token is allowed to do, when the wrapping was
requested by a token bound to `requesterEntity` ("" = none) -/
def wrapTokenAllows (identity : String → List String) (requesterEntity path op : String) : Bool :=
  (effectivePolicies identity (wrapTokenEntry requesterEntity)).any (namedPolicyAllows · path op)

/-! ### The wrapping information record through rewrap generations (C18: "lookup reports the path that created it")

`wrapInCubbyhole` (wrapping.go): the new token's `te.Path` is the path of the CURRENT request; the response's
`wrap_info.creation_path` is that path unless the request is `sys/wrapping/rewrap`, in which case the value the rewrap
handler put there (the old token's stored `creation_path`) is kept; `cubbyhole/wrapinfo` stores `creation_ttl =
resp.WrapInfo.TTL`, `creation_time = now` and `creation_path` = request path, or — for a rewrap — the carried value.
`handleWrappingRewrap` answers `WrapInfo{TTL: stored creation_ttl, CreationPath: stored creation_path}`.
`handleWrappingLookup` reports the stored record. A first-party rewrap (token as client token) is denied by the
`response-wrapping` policy after the use step: the token is consumed and nothing new is issued. -/

def rewrapPath : String := "sys/wrapping/rewrap"

structure WInfo where
  path : String
  ttl  : Nat       -- seconds
deriving DecidableEq, Repr

/-- a live wrapping token of a chain -/
structure WToken where
  tePath : String    -- te.Path: request that created THIS token
  stored : WInfo     -- cubbyhole/wrapinfo (creation_time is always "now": fresh for every generation)
  handed : WInfo     -- wrap_info of the response that handed the token out
deriving DecidableEq, Repr

/-- `wrapInCubbyhole` for request path `reqPath` and the `WrapInfo` the response carries into it -/
def wrapIn (reqPath : String) (respInfo : WInfo) : WToken :=
  let cp := if reqPath ≠ rewrapPath then reqPath else respInfo.path
  { tePath := reqPath, stored := { path := cp, ttl := respInfo.ttl }, handed := { path := cp, ttl := respInfo.ttl } }

/-- wrapping the response of an ordinary request with the requested TTL -/
def wrapFirst (reqPath : String) (ttl : Nat) : WToken := wrapIn reqPath { path := "", ttl := ttl }

/-- third-party rewrap of a live token -/
def rewrapTok (old : WToken) : WToken := wrapIn rewrapPath { path := old.stored.path, ttl := old.stored.ttl }

def lookupInfo (t : WToken) : WInfo := t.stored

/-- a history of rewraps (`true` = third party, `false` = first party: denied, the token is consumed) applied to the
live token of the chain; `none` = no live token left -/
def rewrapHistory : List Bool → Option WToken → Option WToken
  | [], t => t
  | _ :: rest, none => rewrapHistory rest none
  | true :: rest, some t => rewrapHistory rest (some (rewrapTok t))
  | false :: rest, some _ => rewrapHistory rest none

/-! ### writers of the token entry that are not uses

`revokeInternal`'s orphaning loop and `handleTidy` rewrite a child's token entry with `Parent = ""`. `UseToken` does its
read–decrement–write under the token's lock. Critical sections under that lock are atomic with respect to each other, so
at this level an execution is a sequence of atomic actions. Since the repair F82 the orphaning re-reads the entry with
the lock held (`clearParent`): one atomic action that leaves the count alone. Before it the entry was read OUTSIDE the
lock and written inside: two actions, a use may fall between them. -/

inductive EntryAct where
  | use                       -- `UseToken`: count - 1 (the count is positive for a usable token)
  | orphan                    -- `clearParent`: re-read and rewrite under the lock
  | orphanRead                -- (before the repair) the read outside the lock …
  | orphanWrite               -- … and the write of that stale copy inside
  deriving DecidableEq, Repr

/-- (stored count, the stale copy an orphaner holds) -/
def entryStep (s : Nat × Option Nat) : EntryAct → Nat × Option Nat
  | .use => (s.1 - 1, s.2)
  | .orphan => s
  | .orphanRead => (s.1, some s.1)
  | .orphanWrite => match s.2 with
    | some r => (r, none)
    | none => s

def entryRun (s : Nat × Option Nat) (l : List EntryAct) : Nat × Option Nat := l.foldl entryStep s

/-! ### which tokens can carry a use limit

A service token has a stored entry whose `NumUses` `UseToken` counts down; a batch token is not stored at all (its
protobuf form has no use count), so every request presenting it is authorised while it is unexpired. -/

/-- `handleCreateCommon` (after the repair F85): a batch token that would end up with a use limit — from the request's
`num_uses` or from the role's `token_num_uses` — is refused -/
def createAccepted (batch : Bool) (numUses : Nat) : Bool := !(batch && numUses != 0)

/-- how many of `k` presented requests a token authorises (`numUses = 0`: unlimited) -/
def authorisedOf (batch : Bool) (numUses k : Nat) : Nat :=
  if batch || numUses = 0 then k else min k numUses

end Obao.UseCount
