import Obao.Model.Prelude
/-!
Model of `internal/audit/hashstructure.go` (+ the parts of `format.go` that decide what an audit entry shows):

* `J` — the JSON view of request/response data after `getUnmarshaledCopy` (`json.Marshal` + `json.Unmarshal`
  into `map[string]any`): `str | num | bool | null | arr | obj`; numbers are kept as their literal text.
* `hashJ / hashList / hashFields` — `hashWalker` driven by `reflectwalk`: every string leaf is replaced by
  `fn value` unless (a) `time.Time.UnmarshalText` accepts it (RFC 3339 shaped; documented exemption, see
  `hashWalker.Primitive`) or (b) the innermost enclosing MAP key (`w.key[len(w.key)-1]`; slices do not push a
  key) is in the non-HMAC key list.  Map keys, numbers, booleans, nulls are never touched.
* `isTimeShaped` — transliteration of `parseStrictRFC3339`: `parseRFC3339` (fast, strict) and, when that fails,
  `time.Parse(time.RFC3339, s)` (lenient: one-digit hour, comma as fraction separator, zone hour 24 / minute 60),
  over the UTF-8 bytes of the string.
* `elideFields` — `doElideListResponseData` (top-level `keys` / `key_info` replaced by their length).
* `hashAuth`, `hashWrap`, `formatRequest`, `formatResponse` — which token-like fields are HMAC'ed
  (`HashAuth`, `HashRequest`, `HashResponse`, `HashWrapInfo`) and which of them reach the entry.

`fn` (the salted HMAC, `salt.GetIdentifiedHMAC`) is a parameter: cryptography is symbolic (DESIGN.md section 4).
-/
namespace Obao.HashWalk

/-! ### RFC 3339 shape (`time.Time.UnmarshalText`) -/

@[inline] def isDig (b : Nat) : Bool := 48 ≤ b && b ≤ 57

/-- `isLeap` -/
def isLeap (year : Nat) : Bool := year % 4 == 0 && (year % 100 != 0 || year % 400 == 0)

/-- `daysIn(m, year)` for `1 ≤ m ≤ 12` -/
def daysIn (m year : Nat) : Nat :=
  if m = 2 then (if isLeap year then 29 else 28)
  else 30 + ((m + m / 8) % 2)

/-- the closure `parseUint` of `parseRFC3339`: all bytes are digits and the value lies in `[lo, hi]` -/
def uintIn (bs : List Nat) (lo hi : Nat) : Option Nat :=
  if bs.all isDig then
    let x := bs.foldl (fun a b => a * 10 + (b - 48)) 0
    if lo ≤ x ∧ x ≤ hi then some x else none
  else none

/-- drop a fractional second `sep digit digit*` when present; `comma` says whether `,` is accepted too -/
def dropFrac (comma : Bool) : List Nat → List Nat
  | c :: d :: rest =>
    if (c = 46 || (comma && c = 44)) && isDig d then rest.dropWhile isDig else c :: d :: rest
  | r => r

/-- `parseRFC3339` (the strict fast path): `some ()` iff it returns `ok` -/
def strictRFC3339 (s : List Nat) : Bool :=
  if s.length < 19 then false else
  (do
    let year ← uintIn (s.take 4) 0 9999
    let month ← uintIn ((s.drop 5).take 2) 1 12
    let _day ← uintIn ((s.drop 8).take 2) 1 (daysIn month year)
    let _h ← uintIn ((s.drop 11).take 2) 0 23
    let _mi ← uintIn ((s.drop 14).take 2) 0 59
    let _se ← uintIn ((s.drop 17).take 2) 0 59
    guard (s[4]? = some 45 ∧ s[7]? = some 45 ∧ s[10]? = some 84 ∧ s[13]? = some 58 ∧ s[16]? = some 58)
    let r := dropFrac false (s.drop 19)
    if r = [90] then pure () else do
      guard (r.length = 6)
      let _hr ← uintIn ((r.drop 1).take 2) 0 23
      let _mm ← uintIn ((r.drop 4).take 2) 0 59
      guard ((r[0]? = some 45 ∨ r[0]? = some 43) ∧ r[3]? = some 58)
      pure ()).isSome

/-- `getnum(s, fixed = true)` -/
def num2? : List Nat → Option (Nat × List Nat)
  | a :: b :: rest => if isDig a && isDig b then some ((a - 48) * 10 + (b - 48), rest) else none
  | _ => none

/-- `getnum(s, fixed = false)` -/
def num12? : List Nat → Option (Nat × List Nat)
  | a :: b :: rest =>
    if !isDig a then none
    else if isDig b then some ((a - 48) * 10 + (b - 48), rest) else some (a - 48, b :: rest)
  | [a] => if isDig a then some (a - 48, []) else none
  | [] => none

/-- `stdLongYear`: at least four bytes, all four digits (`atoi` of `value[0:4]` with no remainder) -/
def num4? : List Nat → Option (Nat × List Nat)
  | a :: b :: c :: d :: rest =>
    if isDig a && isDig b && isDig c && isDig d then
      some ((((a - 48) * 10 + (b - 48)) * 10 + (c - 48)) * 10 + (d - 48), rest) else none
  | _ => none

/-- `skip(value, prefix)` for a one-byte literal prefix -/
def expect (c : Nat) : List Nat → Option (List Nat)
  | x :: r => if x = c then some r else none
  | [] => none

/-- `stdISO8601ColonTZ`: `Z`, or sign hh `:` mm with hh ≤ 24 and mm ≤ 60 (the lenient `>` range tests of `parse`) -/
def laxZone : List Nat → Option (List Nat)
  | 90 :: rest => some rest
  | sg :: h1 :: h2 :: c :: m1 :: m2 :: rest =>
    if c ≠ 58 then none else
    match num2? [h1, h2], num2? [m1, m2] with
    | some (hr, _), some (mm, _) =>
      if hr > 24 ∨ mm > 60 then none
      else if sg = 43 ∨ sg = 45 then some rest else none
    | _, _ => none
  | _ => none

/-- `time.Parse(time.RFC3339, s)` succeeds (layout `2006-01-02T15:04:05Z07:00`), chunk by chunk -/
def laxRFC3339 (s : List Nat) : Bool :=
  (do
    let (year, r) ← num4? s
    let r ← expect 45 r
    let (month, r) ← num2? r
    guard (¬ (month = 0 ∨ 12 < month))
    let r ← expect 45 r
    let (day, r) ← num2? r
    let r ← expect 84 r
    let (hour, r) ← num12? r
    guard (hour < 24)
    let r ← expect 58 r
    let (mi, r) ← num2? r
    guard (mi < 60)
    let r ← expect 58 r
    let (sec, r) ← num2? r
    guard (sec < 60)
    let r := dropFrac true r
    let r ← laxZone r
    guard (r = [])
    guard (¬ (day < 1 ∨ day > daysIn month year))
    pure ()).isSome

def utf8 (s : String) : List Nat := s.toUTF8.toList.map (·.toNat)

/-- `t.UnmarshalText([]byte(value)) == nil` -/
def isTimeShaped (s : String) : Bool :=
  let b := utf8 s
  strictRFC3339 b || laxRFC3339 b

/-! ### the walker -/

inductive J where
  | str (s : String)
  | num (lit : String)
  | bool (b : Bool)
  | null
  | arr (xs : List J)
  | obj (kvs : List (String × J))
  deriving Repr, Inhabited

/-- `hashWalker.Primitive` on a string value whose innermost enclosing map key is `key` -/
def hashLeaf (fn : String → String) (ign : List String) (key s : String) : String :=
  if isTimeShaped s then s
  else if ign.contains key then s
  else fn s

mutual
/-- walk of a value found under innermost map key `key` -/
def hashJ (fn : String → String) (ign : List String) (key : String) : J → J
  | .str s => .str (hashLeaf fn ign key s)
  | .num l => .num l
  | .bool b => .bool b
  | .null => .null
  | .arr xs => .arr (hashList fn ign key xs)
  | .obj kvs => .obj (hashFields fn ign kvs)
/-- `walkSlice`: elements keep the enclosing map key (`SliceElem` does not push onto `w.key`) -/
def hashList (fn : String → String) (ign : List String) (key : String) : List J → List J
  | [] => []
  | x :: xs => hashJ fn ign key x :: hashList fn ign key xs
/-- `walkMap`: each value is walked under its own key (`MapElem` pushes it); keys are never hashed -/
def hashFields (fn : String → String) (ign : List String) : List (String × J) → List (String × J)
  | [] => []
  | (k, v) :: rest => (k, hashJ fn ign k v) :: hashFields fn ign rest
end

/-- `hashMap(fn, data, nonHMACDataKeys)` on the top-level data map -/
def hashTree (fn : String → String) (ign : List String) (kvs : List (String × J)) : List (String × J) :=
  hashFields fn ign kvs

/-- `doElideListResponseData`: only the top-level keys `keys` (a list) and `key_info` (a map) -/
def elideFields : List (String × J) → List (String × J)
  | [] => []
  | (k, v) :: rest =>
    (match k, v with
     | "keys", .arr xs => (k, J.num (toString xs.length))
     | "key_info", .obj kvs => (k, J.num (toString kvs.length))
     | _, _ => (k, v)) :: elideFields rest

/-! ### string leaves with their innermost key, and the shape of a tree (used by the theorems) -/

mutual
def leavesJ (key : String) : J → List (String × String)
  | .str s => [(key, s)]
  | .num _ => []
  | .bool _ => []
  | .null => []
  | .arr xs => leavesList key xs
  | .obj kvs => leavesFields kvs
def leavesList (key : String) : List J → List (String × String)
  | [] => []
  | x :: xs => leavesJ key x ++ leavesList key xs
def leavesFields : List (String × J) → List (String × String)
  | [] => []
  | (k, v) :: rest => leavesJ k v ++ leavesFields rest
end

mutual
/-- the tree with every string VALUE blanked: keys, numbers, booleans, nulls and nesting are kept -/
def shapeJ : J → J
  | .str _ => .str ""
  | .num l => .num l
  | .bool b => .bool b
  | .null => .null
  | .arr xs => .arr (shapeList xs)
  | .obj kvs => .obj (shapeFields kvs)
def shapeList : List J → List J
  | [] => []
  | x :: xs => shapeJ x :: shapeList xs
def shapeFields : List (String × J) → List (String × J)
  | [] => []
  | (k, v) :: rest => (k, shapeJ v) :: shapeFields rest
end

/-! ### token-like fields: `HashAuth`, `HashRequest`, `HashResponse`, `HashWrapInfo` and what the entry shows -/

structure Auth where
  clientToken : String
  accessor : String
  deriving Repr, DecidableEq

/-- `HashAuth` -/
def hashAuth (fn : String → String) (hmacAccessor : Bool) (a : Auth) : Auth :=
  { clientToken := if a.clientToken ≠ "" then fn a.clientToken else a.clientToken,
    accessor := if hmacAccessor ∧ a.accessor ≠ "" then fn a.accessor else a.accessor }

structure Wrap where
  token : String
  accessor : String
  wrappedAccessor : String
  deriving Repr, DecidableEq

/-- `HashWrapInfo`: the token is hashed unconditionally (even when empty), the accessor whenever configured -/
def hashWrap (fn : String → String) (hmacAccessor : Bool) (w : Wrap) : Wrap :=
  { token := fn w.token,
    accessor := if hmacAccessor then fn w.accessor else w.accessor,
    wrappedAccessor := if hmacAccessor ∧ w.wrappedAccessor ≠ "" then fn w.wrappedAccessor else w.wrappedAccessor }

/-- the inputs of `FormatRequest` that matter here (`in.Auth`, `in.Request`, `in.NonHMACReqDataKeys`) -/
structure ReqIn where
  auth : Auth                       -- in.Auth (a nil Auth is the zero Auth)
  reqToken : String                 -- in.Request.ClientToken
  reqAccessor : String              -- in.Request.ClientTokenAccessor
  data : Option (List (String × J)) -- in.Request.Data (nil = none)
  ign : List String
  deriving Repr

/-- what the request entry shows (non-raw mode) -/
structure ReqEntry where
  auth : Auth
  reqToken : String
  reqAccessor : String
  data : Option (List (String × J))
  deriving Repr

/-- `HashRequest` as far as the entry is concerned -/
def formatRequest (fn : String → String) (hmacAccessor : Bool) (i : ReqIn) : ReqEntry :=
  { auth := hashAuth fn hmacAccessor i.auth,
    reqToken := if i.reqToken ≠ "" then fn i.reqToken else i.reqToken,
    reqAccessor := if hmacAccessor ∧ i.reqAccessor ≠ "" then fn i.reqAccessor else i.reqAccessor,
    data := i.data.map (hashTree fn i.ign) }

structure RespIn where
  req : ReqIn
  respAuth : Option Auth            -- in.Response.Auth
  respData : Option (List (String × J))
  respIgn : List String
  wrap : Option Wrap                -- in.Response.WrapInfo
  elide : Bool                      -- config.ElideListResponses && req.Operation == list
  deriving Repr

structure RespEntry where
  req : ReqEntry
  respAuth : Option Auth
  respData : Option (List (String × J))
  wrap : Option Wrap
  deriving Repr

/-- `FormatResponse`, non-raw: `HashAuth`, `HashRequest`, `HashResponse` (elision BEFORE hashing), `HashWrapInfo` -/
def formatResponse (fn : String → String) (hmacAccessor : Bool) (i : RespIn) : RespEntry :=
  { req := formatRequest fn hmacAccessor i.req,
    respAuth := i.respAuth.map (hashAuth fn hmacAccessor),
    respData := i.respData.map (fun d => hashTree fn i.respIgn (if i.elide then elideFields d else d)),
    wrap := i.wrap.map (hashWrap fn hmacAccessor) }

end Obao.HashWalk
