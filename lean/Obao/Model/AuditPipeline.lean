import Obao.Model.Audit
/-!
Model of the audit stages of `Core.handleCancelableRequest` → `handleRequest` / `handleLoginRequest`
(`internal/vault/request_handling.go`) as a small stage machine.  Everything that is not an audit decision is
abstracted into the input `handler`: what routing plus post-processing (lease registration, token creation,
response wrapping) hands back for this request when nothing audit-related interferes.

```
 start ──CheckToken──▶ reqAudit ──LogRequest ok──▶ routing ──router.Route──▶ respAudit ──LogResponse ok──▶ return (resp, err)
                          │  LogRequest failed: (nil, ErrInternalError), no routing ─────▶│  LogResponse failed: return (nil, ErrInternalError)
                          │  token check failed (authenticated path): LogRequest result ignored,
                          └─ error response "permission denied", no routing ────────────▶│
```
The response audit is attempted on every path that reaches `handleRequest`/`handleLoginRequest`, also after a
failed request audit.  The trace records the stages in the order they happen.
-/
namespace Obao.AuditPipeline
open Obao.Audit

/-- which parts of a `logical.Response` are populated -/
structure Payload where
  (data secret auth wrap : Bool)
  deriving DecidableEq, Repr, Inhabited

def Payload.any (p : Payload) : Bool := p.data || p.secret || p.auth || p.wrap

inductive RespClass where
  | nil                     -- nil *logical.Response
  | errorResp               -- logical.ErrorResponse(..): Data = {"error": msg} only
  | payload (p : Payload)
  deriving DecidableEq, Repr, Inhabited

inductive ErrClass where
  | none | internal | denied | other
  deriving DecidableEq, Repr, Inhabited

/-- what `HandleRequest` returns to its caller -/
structure Client where
  err : ErrClass
  resp : RespClass
  deriving DecidableEq, Repr, Inhabited

/-- `(nil, ErrInternalError)` -/
def bareInternal : Client := { err := .internal, resp := .nil }

def Client.carries (c : Client) : Bool :=
  match c.resp with
  | .payload p => p.any
  | _ => false

inductive Kind where
  | authed (tokenOk : Bool)   -- handleRequest; CheckToken succeeded or failed with permission denied
  | login                     -- handleLoginRequest (unauthenticated path), CheckToken(unauth) succeeded
  deriving DecidableEq, Repr, Inhabited

structure PipeIn where
  kind : Kind
  reqDevs : List Outcome      -- what each enabled device does with the REQUEST entry, in visiting order
  respDevs : List Outcome     -- … with the RESPONSE entry
  handler : Client            -- result of routing + post-processing
  deriving Repr

inductive Ev where
  | checkToken (ok : Bool)
  | auditReq (devs : List Outcome)
  | route
  | auditResp (devs : List Outcome)
  | ret (c : Client)
  deriving DecidableEq, Repr

inductive Stage where
  | start | reqAudit | routing | respAudit | finished
  deriving DecidableEq, Repr

structure St where
  stage : Stage
  trace : List Ev
  cur : Client
  deriving Repr

def init : St := { stage := .start, trace := [], cur := bareInternal }

def step (i : PipeIn) (s : St) : St :=
  match s.stage with
  | .start =>
    match i.kind with
    | .authed true => { s with stage := .reqAudit, trace := s.trace ++ [.checkToken true] }
    | .authed false =>
      { stage := .reqAudit, trace := s.trace ++ [.checkToken false], cur := { err := .denied, resp := .errorResp } }
    | .login => { s with stage := .reqAudit, trace := s.trace ++ [.checkToken true] }
  | .reqAudit =>
    let tr := s.trace ++ [.auditReq i.reqDevs]
    match i.kind with
    | .authed false =>
      -- `if err := c.auditBroker.LogRequest(..); err != nil { c.logger.Error(..) }` — result ignored, no routing
      { s with stage := .respAudit, trace := tr }
    | _ =>
      if brokerLog i.reqDevs = .ok then { s with stage := .routing, trace := tr }
      else { stage := .respAudit, trace := tr, cur := bareInternal }
  | .routing => { stage := .respAudit, trace := s.trace ++ [.route], cur := i.handler }
  | .respAudit =>
    let tr := s.trace ++ [.auditResp i.respDevs]
    if brokerLog i.respDevs = .ok then { s with stage := .finished, trace := tr ++ [.ret s.cur] }
    else { stage := .finished, trace := tr ++ [.ret bareInternal], cur := bareInternal }
  | .finished => s

/-- five steps always reach `finished` (start, reqAudit, routing?, respAudit) -/
def run (i : PipeIn) : St := step i (step i (step i (step i (step i init))))

def trace (i : PipeIn) : List Ev := (run i).trace

/-- what the client receives -/
def result (i : PipeIn) : Client := (run i).cur

def routed (i : PipeIn) : Bool := (trace i).contains .route

end Obao.AuditPipeline
