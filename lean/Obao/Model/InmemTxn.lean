import Obao.Model.SerialTxn
/-!
C08 — implementation-shaped model of `sdk/physical/inmem` transactions (`InmemBackendTransaction`):
`BeginTx` copies the parent tree; every operation runs on the copy and is appended to `operations` together
with what it observed (`RetEntry`, `RetList`, the pre-image `CurrEntry` of put/delete); `Commit` marks the
transaction finished, returns at once when it is read-only or never wrote, and otherwise replays the log
against the parent, comparing every observation, restoring the saved copy of the parent on the first
mismatch. Same branch order and same error classes as the Go code (e.g. `Put` tests `writable` BEFORE
`finishedTx`).

Not modelled: the `fail*` switches, `ctx` cancellation, `maxValueSize`, the permit pools, and the `nil` vs
empty `[]byte` distinction `reflect.DeepEqual` makes (values are non-nil byte strings).
-/
namespace Obao.InmemTxn
open Obao.SerialTxn

inductive OpType where
  | put | delete | list | listPage | get
  deriving DecidableEq, Repr

/-- `InmemOp` -/
structure InmemOp where
  opType : OpType
  argKey : String
  argVal : Val := ""
  argAfter : String := ""
  argLimit : Int := 0
  currEntry : Option Val := none
  retList : List String := []
  retEntry : Option Val := none
  deriving DecidableEq, Repr

/-- `InmemBackendTransaction` -/
structure Txn where
  root : Store
  writable : Bool
  written : Bool
  finished : Bool
  operations : List InmemOp
  deriving DecidableEq, Repr

inductive Err where
  | readOnly | finished | conflict
  deriving DecidableEq, Repr

inductive Res where
  | ok
  | val (v : Option Val)
  | keys (l : List String)
  | err (e : Err)
  deriving DecidableEq, Repr

def beginTx (parent : Store) : Txn :=
  { root := parent, writable := true, written := false, finished := false, operations := [] }

def beginReadOnlyTx (parent : Store) : Txn := { beginTx parent with writable := false }

def Txn.put (t : Txn) (k : Key) (v : Val) : Txn × Res :=
  if !t.writable then (t, .err .readOnly)
  else if t.finished then (t, .err .finished)
  else
    let curr := sget t.root k
    ({ t with root := sput t.root k v,
              operations := t.operations ++ [{ opType := .put, argKey := k, argVal := v, currEntry := curr }],
              written := true }, .ok)

def Txn.delete (t : Txn) (k : Key) : Txn × Res :=
  if !t.writable then (t, .err .readOnly)
  else if t.finished then (t, .err .finished)
  else
    let curr := sget t.root k
    ({ t with root := sdel t.root k,
              operations := t.operations ++ [{ opType := .delete, argKey := k, currEntry := curr }],
              written := true }, .ok)

def Txn.get (t : Txn) (k : Key) : Txn × Res :=
  if t.finished then (t, .err .finished)
  else
    let e := sget t.root k
    ({ t with operations := t.operations ++ [{ opType := .get, argKey := k, retEntry := e }] }, .val e)

/-- `List(prefix)` = `ListPaginatedInternal(prefix, "", -1)`; the log entry keeps the zero values of
    `ArgAfter`/`ArgLimit` -/
def Txn.list (t : Txn) (pre : String) : Txn × Res :=
  if t.finished then (t, .err .finished)
  else
    let l := slist t.root pre "" (-1)
    ({ t with operations := t.operations ++ [{ opType := .list, argKey := pre, retList := l }] }, .keys l)

def Txn.listPage (t : Txn) (pre after : String) (limit : Int) : Txn × Res :=
  if t.finished then (t, .err .finished)
  else
    let l := slist t.root pre after limit
    ({ t with operations := t.operations ++
                [{ opType := .listPage, argKey := pre, argAfter := after, argLimit := limit, retList := l }] },
     .keys l)

/-- one iteration of the replay loop of `Commit`; `none` = `ErrTransactionCommitFailure` -/
def replayOp (parent : Store) (op : InmemOp) : Option Store :=
  match op.opType with
  | .get => if sget parent op.argKey = op.retEntry then some parent else none
  | .list | .listPage =>
    if slist parent op.argKey op.argAfter op.argLimit = op.retList then some parent else none
  | .put => if sget parent op.argKey = op.currEntry then some (sput parent op.argKey op.argVal) else none
  | .delete => if sget parent op.argKey = op.currEntry then some (sdel parent op.argKey) else none

def replay (parent : Store) : List InmemOp → Option Store
  | [] => some parent
  | op :: r =>
    match replayOp parent op with
    | none => none
    | some p => replay p r

/-- `Commit`: returns the new parent store, the transaction and the verdict -/
def Txn.commit (t : Txn) (parent : Store) : Store × Txn × Res :=
  if t.finished then (parent, t, .err .finished)
  else
    let t' := { t with finished := true }
    if !t.writable || !t.written then (parent, t', .ok)
    else
      let parentCopy := parent
      match replay parent t.operations with
      | none => (parentCopy, t', .err .conflict)
      | some p => (p, t', .ok)

def Txn.rollback (t : Txn) : Txn × Res :=
  if t.finished then (t, .err .finished) else ({ t with finished := true }, .ok)

/-- run one client operation inside a transaction -/
def Txn.apply (t : Txn) : Op → Txn × Res
  | .get k => t.get k
  | .put k v => t.put k v
  | .del k => t.delete k
  | .list p a l => if a = "" ∧ l = -1 then t.list p else t.listPage p a l

/-- the spec-level operation a log entry stands for, and the observation it recorded -/
def InmemOp.toOp (o : InmemOp) : Op :=
  match o.opType with
  | .get => .get o.argKey
  | .put => .put o.argKey o.argVal
  | .delete => .del o.argKey
  | .list | .listPage => .list o.argKey o.argAfter o.argLimit

def InmemOp.toObs (o : InmemOp) : Obs :=
  match o.opType with
  | .get => .val o.retEntry
  | .put | .delete => .pre o.currEntry
  | .list | .listPage => .keys o.retList

def Txn.logOps (t : Txn) : List Op := t.operations.map InmemOp.toOp
def Txn.logObs (t : Txn) : List Obs := t.operations.map InmemOp.toObs

/-- a client runs a sequence of operations inside the transaction (results dropped) -/
def Txn.applyAll (t : Txn) : List Op → Txn
  | [] => t
  | o :: r => ((t.apply o).1).applyAll r

def writesKey (o : Op) (k : Key) : Bool :=
  match o with
  | .put k' _ => k' == k
  | .del k' => k' == k
  | _ => false

/-- a client-visible result agrees with a logged observation (a successful write shows nothing of its pre-image) -/
def Res.agrees : Res → Obs → Prop
  | .val v, .val v' => v = v'
  | .keys l, .keys l' => l = l'
  | .ok, .pre _ => True
  | _, _ => False

def Res.isErr : Res → Bool
  | .err _ => true
  | _ => false

/-! ### the whole backend with its open transactions: the state the scheduler stream runs on -/

structure Sys where
  parent : Store
  txns : List (Nat × Txn)
  deriving DecidableEq, Repr

inductive Event where
  | begin (id : Nat) (writable : Bool)
  | op (id : Nat) (o : Op)
  | commit (id : Nat)
  | rollback (id : Nat)
  | plain (o : Op)          -- non-transactional operation on the backend itself
  deriving Repr

def setTxn : List (Nat × Txn) → Nat → Txn → List (Nat × Txn)
  | [], id, t => [(id, t)]
  | (i, t') :: r, id, t => if i = id then (id, t) :: r else (i, t') :: setTxn r id t

def plainRes (s : Store) : Op → Res
  | .get k => .val (sget s k)
  | .put .. => .ok
  | .del .. => .ok
  | .list p a l => .keys (slist s p a l)

/-- one scheduler step. `none` = the event names a transaction id that was never begun (or begins one
    twice): the driver answers `bad-op`. -/
def Sys.step (s : Sys) : Event → Option (Sys × Res)
  | .begin id w =>
    match s.txns.lookup id with
    | some _ => none
    | none => some ({ s with txns := setTxn s.txns id (if w then beginTx s.parent else beginReadOnlyTx s.parent) }, .ok)
  | .op id o =>
    match s.txns.lookup id with
    | none => none
    | some t => let (t', r) := t.apply o; some ({ s with txns := setTxn s.txns id t' }, r)
  | .commit id =>
    match s.txns.lookup id with
    | none => none
    | some t => let (p, t', r) := t.commit s.parent; some ({ parent := p, txns := setTxn s.txns id t' }, r)
  | .rollback id =>
    match s.txns.lookup id with
    | none => none
    | some t => let (t', r) := t.rollback; some ({ s with txns := setTxn s.txns id t' }, r)
  | .plain o => some ({ s with parent := (SerialTxn.step s.parent o).2 }, plainRes s.parent o)

/-- the unit an event adds to the serial history: a plain write, or the logged operations of a transaction
    whose commit took the replay path and succeeded -/
def Sys.commitRec (s : Sys) : Event → Option CommitRec
  | .plain o => if o.isWrite then some { ops := [o], obs := [(SerialTxn.step s.parent o).1] } else none
  | .commit id =>
    match s.txns.lookup id with
    | none => none
    | some t =>
      if t.finished || !t.writable || !t.written then none
      else match replay s.parent t.operations with
        | none => none
        | some _ => some { ops := t.operations.map InmemOp.toOp, obs := t.operations.map InmemOp.toObs }
  | _ => none

/-- follow a schedule (events naming unknown transactions are skipped), collecting the serial history -/
def Sys.run : Sys → List Event → Sys × List CommitRec
  | s, [] => (s, [])
  | s, e :: es =>
    match s.step e with
    | none => s.run es
    | some (s', _) =>
      let (sf, h) := s'.run es
      (sf, match s.commitRec e with | some r => r :: h | none => h)

def Sys.init (s0 : Store) : Sys := { parent := s0, txns := [] }

end Obao.InmemTxn
