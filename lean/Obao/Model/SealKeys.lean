import Obao.Model.Prelude
/-!
C10 — symbolic model of the barrier key hierarchy (`internal/vault/barrier/aes_gcm.go`, `keyring.go`) and of the
core-level rekey / root-key rotation / unseal (`internal/vault/rekey.go`, `rotate.go`, `seal_manager.go`, `seal.go`).

Cryptography is symbolic (DESIGN section 4): a key is a name; `PEntry.enc term key aad payload` opens only under the
same key and the same AAD (= the physical path it was written to).  The Go harness makes the idealisation
concrete: it names every real key (root keys by the harness, term keys by first observation) and checks with an
independent `cipher.NewGCM(...).Open` which named key opens which physical entry.

Physical paths are a structured type (the `metaPrefix` of namespace barriers only changes how they are printed;
`legacy` is the un-prefixed `core/master`).  Every operation yields the LIST of physical writes it performs, in
program order, so that "crash after the k-th write" is `applyWrites phys (writes.take k)`.

Branches that the real code can only reach through a nil dereference or with a leaked lock return `Res.panic` /
`Res.unmodelled`; the generator does not produce them and the theorems' `Valid` predicate excludes them.
-/
namespace Obao.SealKeys

/-- symbolic key: class 0 = root key `R`, 1 = term (encryption) key `T`, 2 = seal key `S`, 3 = garbage (a Shamir
combination of too few shares); `len` is the byte length (a truncated key is a different key). -/
structure Key where
  cls : Nat
  id : Nat
  len : Nat
  deriving DecidableEq, Repr

/-- `KeyLength()` check of `Initialize` / `updateRootKeyCommon`: 16 ≤ len ≤ 32 -/
def Key.sizeOK (k : Key) : Bool := decide (16 ≤ k.len) && decide (k.len ≤ 32)
/-- `aes.NewCipher` accepts exactly 16, 24, 32 bytes -/
def Key.aesOK (k : Key) : Bool := k.len == 16 || k.len == 24 || k.len == 32

structure Keyring where
  root : Key
  keys : List (Nat × Key)
  active : Nat
  /-- `rotationConfig.Interval` in days (0 = none); `MaxOperations` stays at its default in every stream -/
  rot : Nat := 0
  deriving DecidableEq, Repr

def Keyring.termKey (kr : Keyring) (t : Nat) : Option Key := kr.keys.lookup t

/-- `Keyring.AddKey`: `none` = "conflicting key for term"; an identical key is a no-op -/
def Keyring.addKey (kr : Keyring) (t : Nat) (k : Key) : Option Keyring :=
  match kr.termKey t with
  | some k' => if k' = k then some kr else none
  | none => some { kr with keys := kr.keys ++ [(t, k)], active := max kr.active t }

inductive Path where
  | keyring | rootKey | legacy | kek | stored | sealcfg
  | upgrade (t : Nat)
  | data (k : String)
  deriving DecidableEq, Repr

inductive Val where
  | bytes (s : String)            -- caller data (hex in the protocol)
  | keyrec (term : Nat) (k : Key) -- JSON `Key{Term, Value}` (root-key entry, upgrade entries)
  | raw (k : Key)                 -- raw key bytes (shamir-kek)
  deriving DecidableEq, Repr

inductive Payload where
  | keyring (kr : Keyring)
  | val (v : Val)
  deriving DecidableEq, Repr

inductive PEntry where
  | enc (term : Nat) (key : Key) (aad : Path) (p : Payload)  -- barrier record: 4-byte term, version 2, GCM(key, aad)
  | stored (sk : Key) (root : Key)                         -- core/hsm/barrier-unseal-keys = Enc(sealKey, [rootKey])
  | sealcfg (shares threshold : Nat)                         -- core/seal-config (plaintext)
  deriving DecidableEq, Repr

inductive PWrite where
  | put (path : Path) (e : PEntry)
  | del (path : Path)
  deriving DecidableEq, Repr

abbrev Phys := List (Path × PEntry)

def Phys.get (p : Phys) (k : Path) : Option PEntry := List.lookup k p
def Phys.put (p : Phys) (k : Path) (e : PEntry) : Phys := (k, e) :: p.filter (fun x => x.1 ≠ k)
def Phys.del (p : Phys) (k : Path) : Phys := p.filter (fun x => x.1 ≠ k)

def applyWrite (p : Phys) : PWrite → Phys
  | .put k e => p.put k e
  | .del k => p.del k

def applyWrites (p : Phys) (ws : List PWrite) : Phys := ws.foldl applyWrite p

inductive Res where
  | ok | okTerm (t : Nat) | okPayload (p : Payload) | okUp (did : Bool) (t : Nat) | okList (ks : List String)
  | absent
  | sealed | nsSealed | invalidKey | notInit | alreadyInit | keySize | cipher | noTerm (t : Nat) | decrypt
  | conflict | missing | deser | termMismatch
  | io                     -- an injected storage failure surfaced by the operation
  | due                    -- `CheckBarrierAutoRotate` answers "reached max operations": the caller must rotate
  | panic | unmodelled
  deriving DecidableEq, Repr

structure Barrier where
  sealed : Bool := true
  keyring : Option Keyring := none
  initFlag : Bool := false
  /-- `UnaccountedEncryptions > 0`: something was encrypted since the last bookkeeping tick / rotation / reload -/
  dirty : Bool := false
  /-- the encryption count is above `MaxOperations` (the harness sets the counter; not reachable by traffic) -/
  hot : Bool := false
  deriving DecidableEq, Repr

inductive Op where
  | init (k : Key) (sealK : Option Key)
  | unsealB (k : Key)
  | sealB
  | put (key : String) (v : String)
  | get (p : Path)
  | del (key : String)
  | list
  | rotate
  | rotroot (k : Key)
  | setroot (k : Key)
  | reloadkr | reloadroot
  | mkupgrade (t : Nat) | chkupgrade | rmupgrade (t : Nat)
  | verifyroot (k : Key) | keyinfo
  | tick                    -- `CheckBarrierAutoRotate`: the 5-minute bookkeeping tick of the active node
  | setrot (days : Nat)     -- `SetRotationConfig` with `Interval = days * 24h`
  | heat                    -- harness only: push the encryption counter above `MaxOperations`
  deriving DecidableEq, Repr

/-- effect of one barrier operation: new in-memory barrier, physical writes in program order, result, and whether
a freshly generated term key became visible (in memory or in storage) -/
structure Eff where
  bar : Barrier
  writes : List PWrite := []
  res : Res
  gen : Bool := false

/-- `persistKeyringInternal`: keyring under the root key, then root-key entry under the active term key, then the
(un-prefixed) legacy delete.  A root key `aes.NewCipher` rejects fails before any write. -/
def persist (kr : Keyring) : List PWrite × Res :=
  if !kr.root.aesOK then ([], .cipher) else
  let w1 := PWrite.put .keyring (.enc 1 kr.root .keyring (.keyring kr))
  match kr.termKey kr.active with
  | none => ([w1], .panic)
  | some ak =>
    if !ak.aesOK then ([w1], .cipher) else
    ([w1, .put .rootKey (.enc kr.active ak .rootKey (.val (.keyrec 1 kr.root))), .del .legacy], .ok)

/-- `persistKeyring` of the barrier of a separately sealed namespace (`metaPrefix ≠ ""`) leaves the root namespace's
legacy entry alone (finding F50, repaired): the same writes without the legacy delete -/
def persistNs (ns : Bool) (kr : Keyring) : List PWrite × Res :=
  let (ws, r) := persist kr
  (if ns then ws.filter (fun w => w != PWrite.del .legacy) else ws, r)

/-- `lockSwitchedGet` after the sealed check: read, pick the term key from the header, open with path as AAD -/
def readEntry (p : Phys) (kr : Option Keyring) (path : Path) : Res :=
  match p.get path with
  | none => .absent
  | some (.enc t ek aad pl) =>
    match kr.bind (·.termKey t) with
    | none => .noTerm t
    | some k => if k = ek ∧ aad = path then .okPayload pl else .decrypt
  | some _ => .unmodelled

def dataKeys (p : Phys) : List String :=
  p.filterMap fun x => match x.1 with | .data k => some k | _ => none

/-- insertion sort on strings (listing order of the inmem backend for a flat prefix) -/
def insertStr (s : String) : List String → List String
  | [] => [s]
  | x :: xs => if s ≤ x then s :: x :: xs else x :: insertStr s xs
def sortStrs (l : List String) : List String := l.foldr insertStr []

/-- one barrier operation; `ns` = namespace barrier (only `VerifyRoot` distinguishes), `fk` = the key `GenerateKey`
would return -/
def step (ns : Bool) (p : Phys) (b : Barrier) (fk : Key) : Op → Eff
  | .init k sealK =>
    if !k.sizeOK then { bar := b, res := .keySize } else
    if b.initFlag then { bar := b, res := .alreadyInit } else
    if (p.get .keyring).isSome then { bar := { b with initFlag := true }, res := .alreadyInit } else
    let kr : Keyring := { root := k, keys := [(1, fk)], active := 1 }
    match persistNs ns kr with
    | (ws, .ok) =>
      match sealK with
      | none => { bar := { b with dirty := true }, writes := ws, res := .ok, gen := true }
      | some s =>
        if !fk.aesOK then { bar := { b with dirty := true }, writes := ws, res := .cipher, gen := true } else
        { bar := { b with dirty := true }, writes := ws ++ [.put .kek (.enc 1 fk .kek (.val (.raw s)))], res := .ok, gen := true }
    | (ws, r) => { bar := { b with dirty := b.dirty || !ws.isEmpty }, writes := ws, res := r, gen := !ws.isEmpty }
  | .unsealB k =>
    if !b.sealed then { bar := b, res := .ok } else
    if !k.aesOK then { bar := b, res := .cipher } else
    match p.get .keyring with
    | none => { bar := b, res := .notInit }
    | some (.enc t ek aad pl) =>
      if t ≠ 1 then { bar := b, res := .termMismatch } else
      if ek = k ∧ aad = .keyring then
        match pl with
        | .keyring kr => { bar := { b with sealed := false, keyring := some kr }, res := .ok }
        | _ => { bar := b, res := .deser }
      else { bar := b, res := .invalidKey }
    | some _ => { bar := b, res := .unmodelled }
  | .sealB => { bar := { b with sealed := true, keyring := none }, res := .ok }
  | .put key v =>
    if b.sealed then { bar := b, res := .sealed } else
    match b.keyring with
    | none => { bar := b, res := .panic }
    | some kr =>
      match kr.termKey kr.active with
      | none => { bar := b, res := .panic }
      | some ak =>
        if !ak.aesOK then { bar := b, res := .cipher } else
        { bar := { b with dirty := true }, writes := [.put (.data key) (.enc kr.active ak (.data key) (.val (.bytes v)))], res := .ok }
  | .get path =>
    if b.sealed then { bar := b, res := .sealed } else { bar := b, res := readEntry p b.keyring path }
  | .del key =>
    if b.sealed then { bar := b, res := .sealed } else { bar := b, writes := [.del (.data key)], res := .ok }
  | .list =>
    if b.sealed then { bar := b, res := .sealed } else { bar := b, res := .okList (sortStrs (dataKeys p)) }
  | .rotate =>
    if b.sealed then { bar := b, res := .sealed } else
    match b.keyring with
    | none => { bar := b, res := .panic }
    | some kr =>
      match kr.addKey (kr.active + 1) fk with
      | none => { bar := b, res := .conflict }
      | some nkr =>
        match persistNs ns nkr with
        | (ws, .ok) => { bar := { b with keyring := some nkr, dirty := false, hot := false }, writes := ws, res := .okTerm (kr.active + 1), gen := true }
        | (ws, r) => { bar := { b with dirty := b.dirty || !ws.isEmpty }, writes := ws, res := r, gen := !ws.isEmpty }
  | .rotroot k =>
    if b.sealed then { bar := b, res := .sealed } else
    if !k.sizeOK then { bar := b, res := .keySize } else
    match b.keyring with
    | none => { bar := b, res := .panic }
    | some kr =>
      let nkr := { kr with root := k }
      match persistNs ns nkr with
      | (ws, .ok) => { bar := { b with keyring := some nkr, dirty := true }, writes := ws, res := .ok }
      | (ws, r) => { bar := { b with dirty := b.dirty || !ws.isEmpty }, writes := ws, res := r }
  | .setroot k =>
    if b.sealed then { bar := b, res := .sealed } else
    if !k.sizeOK then { bar := b, res := .keySize } else
    match b.keyring with
    | none => { bar := b, res := .panic }
    | some kr => { bar := { b with keyring := some { kr with root := k } }, res := .ok }
  | .reloadkr =>
    match b.keyring with
    | none => { bar := b, res := .panic }
    | some kr =>
      if !kr.root.aesOK then { bar := b, res := .cipher } else
      match p.get .keyring with
      | none => { bar := b, res := .missing }
      | some (.enc t ek aad pl) =>
        if t ≠ 1 then { bar := b, res := .termMismatch } else
        if ek = kr.root ∧ aad = .keyring then
          match pl with
          | .keyring nkr => { bar := { b with keyring := some nkr, dirty := false, hot := false }, res := .ok }
          | _ => { bar := b, res := .deser }
        else { bar := b, res := .invalidKey }
      | some _ => { bar := b, res := .unmodelled }
  | .reloadroot =>
    if b.sealed then { bar := b, res := .sealed } else
    let use (pl : Payload) : Eff :=
      match pl, b.keyring with
      | .val (.keyrec _ k), some kr =>
        if kr.root = k then { bar := b, res := .ok } else { bar := { b with keyring := some { kr with root := k } }, res := .ok }
      | .val (.keyrec _ _), none => { bar := b, res := .panic }
      | _, _ => { bar := b, res := .deser }
    match readEntry p b.keyring .rootKey with
    | .okPayload pl => use pl
    | .absent =>
      match readEntry p b.keyring .legacy with
      | .okPayload pl => use pl
      | .absent => { bar := b, res := .ok }
      | r => { bar := b, res := r }
    | r => { bar := b, res := r }
  | .mkupgrade t =>
    if b.sealed then { bar := b, res := .sealed } else
    match b.keyring with
    | none => { bar := b, res := .panic }
    | some kr =>
      if t = 0 then { bar := b, res := .unmodelled } else
      match kr.termKey t, kr.termKey (t - 1) with
      | some tk, some pk =>
        if !pk.aesOK then { bar := b, res := .cipher } else
        { bar := { b with dirty := true }, writes := [.put (.upgrade (t - 1)) (.enc (t - 1) pk (.upgrade (t - 1)) (.val (.keyrec t tk)))], res := .ok }
      | _, none => { bar := b, res := .panic }       -- nil AEAD for the previous term (and a leaked read lock)
      | none, some _ => { bar := b, res := .unmodelled } -- would store JSON `null`
  | .chkupgrade =>
    if b.sealed then { bar := b, res := .sealed } else
    match b.keyring with
    | none => { bar := b, res := .panic }
    | some kr =>
      match readEntry p b.keyring (.upgrade kr.active) with
      | .absent => { bar := b, res := .okUp false 0 }
      | .okPayload (.val (.keyrec t k)) =>
        match kr.addKey t k with
        | none => { bar := b, res := .conflict }
        | some nkr => { bar := { b with keyring := some nkr }, res := .okUp true t }
      | .okPayload _ => { bar := b, res := .deser }
      | r => { bar := b, res := r }
  | .rmupgrade t =>
    if t = 0 then { bar := b, res := .unmodelled } else
    if b.sealed then { bar := b, res := .sealed } else { bar := b, writes := [.del (.upgrade (t - 1))], res := .ok }
  | .verifyroot k =>
    if b.sealed then { bar := b, res := if ns then .nsSealed else .sealed } else
    match b.keyring with
    | none => { bar := b, res := .panic }
    | some kr => if kr.root = k then { bar := b, res := .ok } else { bar := b, res := .invalidKey }
  | .keyinfo =>
    if b.sealed then { bar := b, res := .sealed } else
    match b.keyring with
    | none => { bar := b, res := .panic }
    | some kr => { bar := b, res := .okTerm kr.active }
  | .tick =>
    -- CheckBarrierAutoRotate: no keyring ⇒ nothing; over the operation limit ⇒ answer "rotate"; otherwise
    -- persistEncryptions: when something was encrypted since the last tick the keyring (with the updated
    -- counter) is persisted again under the in-memory root key; memory is otherwise unchanged
    match b.keyring with
    | none => { bar := b, res := .ok }
    | some kr =>
      if b.hot then { bar := b, res := .due } else
      if b.sealed then { bar := b, res := .ok } else
      if !b.dirty then { bar := b, res := .ok } else
      match persistNs ns kr with
      | (ws, .ok) => { bar := { b with dirty := false }, writes := ws, res := .ok }
      | (ws, r) => { bar := b, writes := ws, res := r }
  | .setrot d =>
    -- SetRotationConfig: no sealed check (nil keyring panics); an equal configuration is a no-op; otherwise the
    -- in-memory keyring is updated FIRST and then persisted
    match b.keyring with
    | none => { bar := b, res := .panic }
    | some kr =>
      if d = kr.rot then { bar := b, res := .ok } else
      let nkr := { kr with rot := d }
      match persistNs ns nkr with
      | (ws, .ok) => { bar := { b with keyring := some nkr, dirty := true }, writes := ws, res := .ok }
      | (ws, r) => { bar := { b with keyring := some nkr, dirty := b.dirty || !ws.isEmpty }, writes := ws, res := r }
  | .heat => { bar := { b with hot := true, dirty := true }, res := .ok }

/-! ### the world of the barrier-level stream: one store, the active barrier `a`, a standby `b` -/

structure World where
  ns : Bool := false
  phys : Phys := []
  a : Barrier := {}
  b : Barrier := {}
  nextT : Nat := 1
  /-- the store before the last operation and that operation's writes (for crash prefixes) -/
  base : Phys := []
  writes : List PWrite := []
  /-- ghost: last value successfully written per data key (what must be readable again) -/
  shadow : List (String × String) := []
  deriving Repr

def termKeyN (n : Nat) : Key := { cls := 1, id := n, len := 32 }

def shadowPut (s : List (String × String)) (k v : String) : List (String × String) :=
  (k, v) :: s.filter (fun x => x.1 ≠ k)
def shadowDel (s : List (String × String)) (k : String) : List (String × String) := s.filter (fun x => x.1 ≠ k)

def updShadow (s : List (String × String)) (op : Op) (r : Res) : List (String × String) :=
  match op, r with
  | .put k v, .ok => shadowPut s k v
  | .del k, .ok => shadowDel s k
  | _, _ => s

/-- run `op` on barrier `who` (`false` = a, `true` = b) -/
def World.exec (w : World) (who : Bool) (op : Op) : World × Res :=
  let bar := if who then w.b else w.a
  let e := step w.ns w.phys bar (termKeyN w.nextT) op
  let w' : World := { w with
    phys := applyWrites w.phys e.writes,
    a := if who then w.a else e.bar,
    b := if who then e.bar else w.b,
    nextT := if e.gen then w.nextT + 1 else w.nextT,
    base := w.phys, writes := e.writes,
    shadow := updShadow w.shadow op e.res }
  (w', e.res)

/-- `op` with a storage fault: the physical write number `k` (0-based) of the operation fails.  Every operation of
the barrier returns at its first failed write, before it touches its in-memory state (`Rotate`, `RotateRootKey`
swap the keyring only after `persistKeyring` succeeded). -/
def World.execFault (w : World) (who : Bool) (op : Op) (k : Nat) : World × Res :=
  let bar := if who then w.b else w.a
  let e := step w.ns w.phys bar (termKeyN w.nextT) op
  if (match op with | .setrot _ => true | _ => false) && decide (k < e.writes.length) then (w, .unmodelled) else
  if k < e.writes.length then
    let enc : Bool := match op with
      | .put _ _ | .mkupgrade _ => true
      | .rotate | .rotroot _ | .init _ _ | .tick => decide (1 ≤ k)
      | _ => false
    let bar' : Barrier := { bar with dirty := bar.dirty || enc }
    ({ w with a := if who then w.a else bar', b := if who then bar' else w.b,
              phys := applyWrites w.phys (e.writes.take k),
              nextT := if e.gen && decide (1 ≤ k) then w.nextT + 1 else w.nextT,
              base := w.phys, writes := e.writes.take k }, .io)
  else w.exec who op

def World.run (w : World) : List (Bool × Op) → World
  | [] => w
  | (who, op) :: rest => (w.exec who op).1.run rest

/-- `checkKeyringUpgrade` loop of `performKeyUpgrades`: `CheckUpgrade` until it reports no upgrade (or fails);
`fuel` bounds the walk (the number of terms is enough). -/
def chkLoop (p : Phys) : Nat → Barrier → Barrier × Res
  | 0, b => (b, .okUp false 0)
  | n + 1, b =>
    let e := step false p b (termKeyN 0) .chkupgrade
    match e.res with
    | .okUp true _ => chkLoop p n e.bar
    | r => (e.bar, r)

/-- `performKeyUpgrades` on a barrier: upgrade walk, `ReloadRootKey`, `ReloadKeyring`; stops at the first error -/
def follow (p : Phys) (fuel : Nat) (b : Barrier) : Barrier × List Res :=
  let (b1, r1) := chkLoop p fuel b
  if r1 ≠ .okUp false 0 then (b1, [r1]) else
  let e2 := step false p b1 (termKeyN 0) .reloadroot
  if e2.res ≠ .ok then (e2.bar, [r1, e2.res]) else
  let e3 := step false p e2.bar (termKeyN 0) .reloadkr
  (e3.bar, [r1, e2.res, e3.res])

/-- the number of terms in the stored keyring (fuel for `follow`) -/
def physTerms (p : Phys) : Nat :=
  match p.get .keyring with
  | some (.enc _ _ _ (.keyring kr)) => kr.keys.length + 1
  | _ => 1

/-- crash report: a FRESH barrier on the store `p`, unsealed with `k`; every shadow key read back; then the
upgrade path a new leader walks (`performKeyUpgrades`). -/
structure CrashRep where
  unsealRes : Res
  reads : List (String × Res)
  followRes : List Res
  deriving DecidableEq, Repr

def crashReport (ns : Bool) (p : Phys) (keys : List String) (k : Key) : CrashRep :=
  let e := step ns p {} (termKeyN 0) (.unsealB k)
  if e.res ≠ .ok then { unsealRes := e.res, reads := [], followRes := [] } else
  let reads := keys.map fun key => (key, (step ns p e.bar (termKeyN 0) (.get (.data key))).res)
  let (_, fr) := follow p (physTerms p) e.bar
  { unsealRes := .ok, reads := reads, followRes := fr }

def World.crash (w : World) (k : Nat) (key : Key) : CrashRep :=
  crashReport w.ns (applyWrites w.base (w.writes.take k)) (sortStrs (w.shadow.map (·.1))) key

/-! ### core level: Shamir seal, stored keys, seal configuration, rekey and keyless root rotation -/

/-- a set of unseal shares as the operator holds them: the seal key they were split from, how many, threshold -/
structure ShareSet where
  skey : Key
  n : Nat
  t : Nat
  deriving DecidableEq, Repr

inductive UnsealRes where
  | unsealed            -- barrier unsealed (post-unseal is then run by the real core)
  | insufficient        -- all shares supplied, threshold of the stored configuration not reached
  | invalid             -- ErrInvalidKey / message authentication failed somewhere along the chain
  | notInit
  | other
  deriving DecidableEq, Repr

def garbageKey : Key := { cls := 3, id := 0, len := 32 }

/-- `unsealFragment`* + `getUnsealKey` + `unsealKeyToRootKey` + `barrier.Unseal` for an operator who supplies all
shares of `ss` in turn to a freshly started core over `p`.  Threshold comes from the STORED seal configuration.
Shamir (C20): `Combine` of at least `ss.t` shares gives the seal key, of fewer a garbage key; with a stored
threshold of 1 the first share itself is used as the key (a 33-byte share of a real split is rejected).
`candKey` is the key `getUnsealKey` hands on when the shares of `ss` meet a stored threshold `thr`. -/
def candKey (thr : Nat) (ss : ShareSet) : Option Key :=
  if thr = 1 then (if ss.n = 1 then some ss.skey else none)
  else if ss.n = 1 then none
  else if thr ≥ ss.t then some ss.skey else some garbageKey

/-- `unsealKeyToRootKey` + `barrier.Unseal`: open the stored keys with the candidate seal key, unseal with the root
key found inside -/
def openStored (p : Phys) (c : Key) : UnsealRes × Option Keyring :=
  match p.get .stored with
  | some (.stored sk root) =>
    if sk ≠ c then (.invalid, none) else
    match (step false p {} (termKeyN 0) (.unsealB root)).res with
    | .ok => (.unsealed, (step false p {} (termKeyN 0) (.unsealB root)).bar.keyring)
    | .invalidKey => (.invalid, none)
    | _ => (.other, none)
  | _ => (.other, none)

def unsealWith (p : Phys) (ss : ShareSet) : UnsealRes × Option Keyring :=
  match p.get .sealcfg, p.get .keyring with
  | some (.sealcfg _ thr), some _ =>
    if ss.n < thr then (.insufficient, none) else
    match candKey thr ss with
    | none => (.invalid, none)
    | some c => openStored p c
  | _, _ => (.notInit, none)

structure CoreSt where
  phys : Phys := []
  bar : Barrier := {}
  sealKey : Key := { cls := 2, id := 1, len := 32 }
  cur : ShareSet := { skey := { cls := 2, id := 1, len := 32 }, n := 3, t := 3 }   -- shares the operator holds
  prev : ShareSet := { skey := { cls := 2, id := 1, len := 32 }, n := 3, t := 3 }  -- the set before the last rekey
  nextT : Nat := 1
  nextR : Nat := 1
  nextS : Nat := 1
  base : Phys := []
  writes : List PWrite := []
  shadow : List (String × String) := []
  deriving Repr

def rootKeyN (n : Nat) : Key := { cls := 0, id := n, len := 32 }
def sealKeyN (n : Nat) : Key := { cls := 2, id := n, len := 32 }

inductive CoreOp where
  | boot (n t : Nat)          -- `Initialize` + unseal of a new core with an (n, t) Shamir configuration
  | bootAuto                  -- `Initialize` + `UnsealWithStoredKeys` of a core with an auto-unseal (stored-key) seal
  | put (k v : String) | get (k : String) | del (k : String)
  | rotate                    -- `SealManager.RotateBarrierKey` (sys/rotate/keyring)
  | tick                      -- `barrier.CheckBarrierAutoRotate` (the core's 5-minute `checkBarrierAutoRotate`)
  | rekey (n t : Nat)         -- `RekeyInit` + `RekeyUpdate`* → `performBarrierRekey`
  | rotroot                   -- `SealManager.RotateBarrierRootKey` (sys/rotate/root)
  | sealC
  | unsealC (new : Bool)       -- with the current (`true`) or the previous share set
  /-- a rekey (`sys/rekey`, `sys/rotate/root/update`) whose FIRST write — the stored keys under the new seal key — fails
  and which is then cancelled -/
  | rekeyFail (n t : Nat)
  deriving DecidableEq, Repr

def validCfg (n t : Nat) : Bool :=
  decide (1 ≤ n) && decide (1 ≤ t) && !(decide (n > 1) && decide (t < 2)) && decide (n ≤ 255) && decide (t ≤ 255) && decide (t ≤ n)

/-- writes of `performBarrierRekey`: stored keys under the NEW seal key, `RotateRootKey` (3 ops), shamir-kek,
seal configuration -/
def rekeyWrites (kr : Keyring) (newSeal newRoot : Key) (n t : Nat) : List PWrite × Res :=
  let w0 := PWrite.put .stored (.stored newSeal newRoot)
  let nkr := { kr with root := newRoot }
  match persist nkr with
  | (ws, .ok) =>
    match nkr.termKey nkr.active with
    | some ak =>
      ([w0] ++ ws ++ [.put .kek (.enc nkr.active ak .kek (.val (.raw newSeal))), .put .sealcfg (.sealcfg n t)], .ok)
    | none => ([w0] ++ ws, .panic)
  | (ws, r) => ([w0] ++ ws, r)

/-- the failed rekey before the repair F79: the seal's Shamir wrapper keeps the freshly generated seal key, which was
never persisted and whose shares were never handed out -/
def CoreSt.rekeyFailPoisoned (c : CoreSt) : CoreSt :=
  { c with sealKey := sealKeyN c.nextS, nextS := c.nextS + 1, base := c.phys, writes := [] }

/-- writes of `RotateBarrierRootKey`: stored keys (same seal key, new root key), then `RotateRootKey` -/
def rotRootWrites (kr : Keyring) (sk newRoot : Key) : List PWrite × Res :=
  let (ws, r) := persist { kr with root := newRoot }
  (PWrite.put .stored (.stored sk newRoot) :: ws, r)

inductive CoreRes where
  | ok | okN (n : Nat) | bar (r : Res) | uns (u : UnsealRes) | badCfg | sealedErr
  deriving DecidableEq, Repr

def CoreSt.exec (c : CoreSt) : CoreOp → CoreSt × CoreRes
  | .boot n t =>
    let s := sealKeyN c.nextS
    let r := rootKeyN c.nextR
    let tk := termKeyN c.nextT
    let kr : Keyring := { root := r, keys := [(1, tk)], active := 1 }
    let ws : List PWrite := (persist kr).1 ++
      [.put .kek (.enc 1 tk .kek (.val (.raw s))), .put .sealcfg (.sealcfg n t), .put .stored (.stored s r)]
    ({ c with phys := applyWrites [] ws, bar := { sealed := false, keyring := some kr, dirty := true }, sealKey := s,
              cur := ⟨s, n, t⟩, prev := ⟨s, n, t⟩, nextS := c.nextS + 1, nextR := c.nextR + 1, nextT := c.nextT + 1,
              base := [], writes := ws, shadow := [] }, .ok)
  | .bootAuto =>
    -- auto-unseal seal: the wrapper key plays the seal key, configuration (1, 1), no shamir-kek
    let s := sealKeyN c.nextS
    let r := rootKeyN c.nextR
    let tk := termKeyN c.nextT
    let kr : Keyring := { root := r, keys := [(1, tk)], active := 1 }
    let ws : List PWrite := (persist kr).1 ++ [.put .sealcfg (.sealcfg 1 1), .put .stored (.stored s r)]
    ({ c with phys := applyWrites [] ws, bar := { sealed := false, keyring := some kr, dirty := true }, sealKey := s,
              cur := ⟨s, 1, 1⟩, prev := ⟨s, 1, 1⟩, nextS := c.nextS + 1, nextR := c.nextR + 1, nextT := c.nextT + 1,
              base := [], writes := ws, shadow := [] }, .ok)
  | .put k v =>
    let e := step false c.phys c.bar (termKeyN 0) (.put k v)
    ({ c with phys := applyWrites c.phys e.writes, bar := e.bar, base := c.phys, writes := e.writes,
              shadow := updShadow c.shadow (.put k v) e.res }, .bar e.res)
  | .get k => (c, .bar (step false c.phys c.bar (termKeyN 0) (.get (.data k))).res)
  | .del k =>
    let e := step false c.phys c.bar (termKeyN 0) (.del k)
    ({ c with phys := applyWrites c.phys e.writes, bar := e.bar, base := c.phys, writes := e.writes,
              shadow := updShadow c.shadow (.del k) e.res }, .bar e.res)
  | .rotate =>
    let e := step false c.phys c.bar (termKeyN c.nextT) .rotate
    ({ c with phys := applyWrites c.phys e.writes, bar := e.bar, base := c.phys, writes := e.writes,
              nextT := if e.gen then c.nextT + 1 else c.nextT }, .bar e.res)
  | .tick =>
    let e := step false c.phys c.bar (termKeyN 0) .tick
    ({ c with phys := applyWrites c.phys e.writes, bar := e.bar, base := c.phys, writes := e.writes }, .bar e.res)
  | .rekey n t =>
    if !validCfg n t then (c, .badCfg) else
    match c.bar.sealed, c.bar.keyring with
    | false, some kr =>
      let s := sealKeyN c.nextS
      let r := rootKeyN c.nextR
      let (ws, res) := rekeyWrites kr s r n t
      match res with
      | .ok =>
        ({ c with phys := applyWrites c.phys ws, bar := { c.bar with keyring := some { kr with root := r } },
                  sealKey := s, prev := c.cur, cur := ⟨s, n, t⟩, nextS := c.nextS + 1, nextR := c.nextR + 1,
                  base := c.phys, writes := ws }, .okN ws.length)
      | r' => ({ c with phys := applyWrites c.phys ws, base := c.phys, writes := ws }, .bar r')
    | _, _ => (c, .sealedErr)
  | .rotroot =>
    match c.bar.sealed, c.bar.keyring with
    | false, some kr =>
      let r := rootKeyN c.nextR
      let (ws, res) := rotRootWrites kr c.sealKey r
      match res with
      | .ok =>
        ({ c with phys := applyWrites c.phys ws, bar := { c.bar with keyring := some { kr with root := r } },
                  nextR := c.nextR + 1, base := c.phys, writes := ws }, .okN ws.length)
      | r' => ({ c with phys := applyWrites c.phys ws, base := c.phys, writes := ws }, .bar r')
    | _, _ => (c, .sealedErr)
  | .sealC => ({ c with bar := { c.bar with sealed := true, keyring := none } }, .ok)
  | .rekeyFail n t =>
    if !validCfg n t then (c, .badCfg) else
    match c.bar.sealed, c.bar.keyring with
    -- nothing was written; the seal's wrapper holds the key that matches storage again (repair F79: it had been given
    -- the new, never persisted seal key before the write)
    | false, some _ => ({ c with base := c.phys, writes := [] }, .bar .io)
    | _, _ => (c, .sealedErr)
  | .unsealC new =>
    if !c.bar.sealed then (c, .uns .unsealed) else
    let ss := if new then c.cur else c.prev
    match unsealWith c.phys ss with
    | (.unsealed, some kr) =>
      -- the Shamir wrapper now holds the combined key, which is the key the stored keys opened under
      let sk := match c.phys.get .stored with | some (.stored sk _) => sk | _ => c.sealKey
      ({ c with bar := { c.bar with sealed := false, keyring := some kr, dirty := true }, sealKey := sk }, .uns .unsealed)
    | (r, _) => (c, .uns r)

/-- restart on the store after the first `k` writes of the last operation, unseal with the current (`new`) or the
previous share set, read every shadow key back: (unseal result, number of keys read back with their last value,
number of keys) -/
def CoreSt.crash (c : CoreSt) (k : Nat) (new : Bool) : UnsealRes × Nat × Nat :=
  let p := applyWrites c.base (c.writes.take k)
  let ss := if new then c.cur else c.prev
  match unsealWith p ss with
  | (.unsealed, kr) =>
    let good := c.shadow.filter fun kv =>
      readEntry p kr (.data kv.1) = (match c.shadow.lookup kv.1 with
                                     | some v => .okPayload (.val (.bytes v))
                                     | none => .absent)
    (.unsealed, good.length, c.shadow.length)
  | (r, _) => (r, 0, c.shadow.length)

/-- restart an HA-enabled core on the store after the first `k` writes of the last operation: unseal with the current
share set, then win the leader election, which runs `performKeyUpgrades` (CheckUpgrade*, ReloadRootKey,
ReloadKeyring) before the node may serve; `some true` = active, `some false` = unsealed but leadership set-up
failed (the core shuts down), `none` = did not unseal -/
def CoreSt.crashHA (c : CoreSt) (k : Nat) : UnsealRes × Option Bool :=
  let p := applyWrites c.base (c.writes.take k)
  match unsealWith p c.cur with
  | (.unsealed, some kr) =>
    let fr := (follow p (physTerms p) { sealed := false, keyring := some kr }).2
    (.unsealed, some (fr.all fun r => r == .ok || r == .okUp false 0))
  | (r, _) => (r, none)

def CoreSt.run (c : CoreSt) : List CoreOp → CoreSt
  | [] => c
  | op :: rest => (c.exec op).1.run rest

end Obao.SealKeys
