import Obao.Model.Prelude
/-!
Model of the encrypting storage barrier (`internal/vault/barrier/aes_gcm.go`, `keyring.go`) for property C01.

Cryptography is symbolic (DESIGN.md section 4): the output of `gcm.Seal(key, aad, plain)` with a fresh random
nonce is the free constructor `Sealed key aad nonce plain`; `gcm.Open` under `(key', aad')` returns the plaintext
iff `key' = key ∧ aad' = aad` (`openSealed`). A physical value is either

* `Rec term ver body` — the 5-byte header `term(4, big endian) ‖ version(1)` followed by a body the AEAD
  produced (`encrypt`), or
* `Raw hdr len`       — any other byte string (truncated, extended, a flipped body byte, attacker bytes): only its
  first `min 5 len` bytes and its length matter to the code, since every `Open` on it fails.

The physical store is a plain association list that the *adversary* may rewrite between barrier operations
(`Op.advRec`, `Op.advRaw`, …) with any header and any body the barrier ever produced (bodies cannot be forged), or with raw bytes.
Every branch of `lockSwitchedGet`/`decrypt`/`encrypt`/`putWithBackend`/`Rotate`+`persistKeyringInternal` is
transliterated in the order of the Go code, with the same error classes.
-/
namespace Obao.Barrier

abbrev Bytes := List Nat
/-- key identities are natural numbers (a notation, so that arithmetic tactics see `Nat`) -/
scoped notation "KeyId" => Nat

/-- key id of the root key (protects the keyring record); term keys get ids ≥ 1 -/
def rootKeyId : KeyId := 0

/-- what is inside a sealed body: a caller's value, or the barrier's own serialised keyring (the terms it
holds) / serialised root key written by `persistKeyringInternal` -/
inductive Plain where
  | user (b : Bytes)
  | keyring (terms : List Nat)
  | rootkey
  deriving DecidableEq, Repr

structure Sealed where
  key : KeyId
  aad : Option String
  nonce : Nat
  plain : Plain
  deriving DecidableEq, Repr

inductive PVal where
  | Rec (term ver : Nat) (body : Sealed)
  | Raw (hdr : List Nat) (len : Nat)
  deriving DecidableEq, Repr

/-- a record as the barrier handed it to the physical layer: storage key, header, body -/
structure WRec where
  key : String
  term : Nat
  ver : Nat
  body : Sealed
  deriving DecidableEq, Repr

def WRec.pval (w : WRec) : PVal := .Rec w.term w.ver w.body

/-! ### association-list store -/

def sget {α : Type} (m : List (String × α)) (k : String) : Option α :=
  match m with
  | [] => none
  | (k', v) :: rest => if k' = k then some v else sget rest k

def sdel {α : Type} (m : List (String × α)) (k : String) : List (String × α) :=
  match m with
  | [] => []
  | (k', v) :: rest => if k' = k then sdel rest k else (k', v) :: sdel rest k

def sput {α : Type} (m : List (String × α)) (k : String) (v : α) : List (String × α) :=
  (k, v) :: sdel m k

/-! ### keyring -/

def termKey (keys : List (Nat × KeyId)) (t : Nat) : Option KeyId :=
  match keys with
  | [] => none
  | (t', kid) :: rest => if t' = t then some kid else termKey rest t

/-! ### the AEAD idealisation and the record format -/

def openSealed (kid : KeyId) (aad : Option String) (b : Sealed) : Option Plain :=
  if b.key = kid ∧ b.aad = aad then some b.plain else none

/-- `encrypt`/`decrypt`: version 2 binds the storage path as additional data — `nil` when the path is empty —,
version 1 has none -/
def aadFor (ver : Nat) (path : String) : Option String :=
  if ver = 2 then (if path = "" then none else some path) else none

def be32 (t : Nat) : List Nat := [t / 16777216 % 256, t / 65536 % 256, t / 256 % 256, t % 256]

/-- the five header bytes: term (big endian) and version -/
structure Hdr where
  (b0 b1 b2 b3 ver : Nat)
  deriving DecidableEq, Repr

def Hdr.term (h : Hdr) : Nat := h.b0 * 16777216 + h.b1 * 65536 + h.b2 * 256 + h.b3
def Hdr.bytes (h : Hdr) : List Nat := [h.b0, h.b1, h.b2, h.b3, h.ver]
def Hdr.of (t v : Nat) : Hdr := ⟨t / 16777216 % 256, t / 65536 % 256, t / 256 % 256, t % 256, v % 256⟩

def hdr5 (t v : Nat) : List Nat := (Hdr.of t v).bytes

/-- nonce (12) + tag (16) of `cipher.NewGCMWithRandomNonce` -/
def overhead : Nat := 28

def Plain.len? : Plain → Option Nat
  | .user b => some b.length
  | _ => none

/-- physical length of a value, when the model knows it (caller values; the serialisations of keyring and root key
are opaque) -/
def PVal.len? : PVal → Option Nat
  | .Rec _ _ b => b.plain.len?.map (· + 5 + overhead)
  | .Raw _ len => some len

inductive Err where
  | short     -- "invalid value": fewer than 4 bytes
  | noterm    -- "no decryption key available for term"
  | len       -- "invalid cipher length": ≤ 5 bytes
  | version   -- "version bytes mis-match"
  | auth      -- "cipher: message authentication failed"
  | empty     -- `Decrypt` only: "empty ciphertext"
  deriving DecidableEq, Repr

inductive GetOut where
  | none
  | ok (p : Plain)
  | err (e : Err)
  deriving DecidableEq, Repr

/-- `lockSwitchedGet` after the backend read, then `decrypt` with the REQUESTED path -/
def getPV (keys : List (Nat × KeyId)) (path : String) : PVal → GetOut
  | .Raw hdr len =>
      if len < 4 then .err .short else
      match hdr with
      | a :: b :: c :: d :: rest =>
        match termKey keys (a * 16777216 + b * 65536 + c * 256 + d) with
        | none => .err .noterm
        | some _ =>
          if len ≤ 5 then .err .len else
          match rest with
          | [v] => if v = 1 ∨ v = 2 then .err .auth else .err .version
          | _ => .err .version      -- not a well-formed raw value (`rawOk`): never stored
      | _ => .err .short            -- not a well-formed raw value (`rawOk`): never stored
  | .Rec t v b =>
      match termKey keys t with
      | none => .err .noterm
      | some kid =>
        if v = 1 then
          match openSealed kid none b with
          | some p => .ok p
          | none => .err .auth
        else if v = 2 then
          match openSealed kid (aadFor 2 path) b with
          | some p => .ok p
          | none => .err .auth
        else .err .version

/-- `Decrypt` (the in-memory `BarrierEncryptor` entry point) on given bytes: `empty ciphertext` first, then exactly
the checks of a stored read -/
def decPV (keys : List (Nat × KeyId)) (path : String) : PVal → GetOut
  | .Raw _ 0 => .err .empty
  | pv => getPV keys path pv

/-! ### state -/

structure St where
  ver : Nat                          -- `currentAESGCMVersionByte`
  keys : List (Nat × KeyId)          -- keyring: term ↦ key
  active : Nat                       -- active term
  nextKey : KeyId                    -- fresh key ids (`GenerateKey`)
  nextNonce : Nat                    -- fresh nonces
  store : List (String × PVal)       -- the physical backend
  written : List WRec                -- ghost: every record the barrier handed to the physical layer, newest first
  deriving Repr

def keyringPath : String := "core/keyring"
def rootKeyPath : String := "core/root-key"
def legacyRootKeyPath : String := "core/master"

/-- the two records `Initialize` → `persistKeyringInternal` writes: the keyring sealed under the root key with the
fixed term 1, and the root key sealed under the term-1 key -/
def initKeyringRec : WRec :=
  { key := keyringPath, term := 1, ver := 2,
    body := { key := rootKeyId, aad := some keyringPath, nonce := 0, plain := .keyring [1] } }
def initRootKeyRec : WRec :=
  { key := rootKeyPath, term := 1, ver := 2,
    body := { key := 1, aad := some rootKeyPath, nonce := 1, plain := .rootkey } }

/-- after `Initialize` + `Unseal`: term 1 installed, keyring and root-key records in the physical store -/
def init : St :=
  { ver := 2, keys := [(1, 1)], active := 1, nextKey := 2, nextNonce := 2,
    store := [(rootKeyPath, initRootKeyRec.pval), (keyringPath, initKeyringRec.pval)],
    written := [initRootKeyRec, initKeyringRec] }

/-! ### `Unseal` / `ReloadKeyring`: reading the keyring record with the root key

Both read `core/keyring` straight from the physical backend, check the header and decrypt with the root key:
missing ⇒ `ErrBarrierNotInit` (Unseal) — fewer than 4 bytes ⇒ an error (finding F53, repaired: the unguarded
`out.Value[:4]` used to panic) — term ≠ 1 ⇒ "term mis-match" — then `decrypt` with the keyring path: ≤ 5 bytes,
unknown version byte, authentication failure (reported as `ErrBarrierInvalidKey`); the opened plaintext must be a
serialised keyring. -/

inductive UnsealOut where
  | ok (terms : List Nat)
  | notInit
  | short
  | termMismatch
  | len
  | version
  | invalidKey
  | notKeyring       -- an authentic record of the root key that is not a keyring: deserialisation fails
  deriving DecidableEq, Repr

def unsealKeyring : Option PVal → UnsealOut
  | none => .notInit
  | some (.Raw hdr len) =>
      if len < 4 then .short else
      match hdr with
      | a :: b :: c :: d :: rest =>
        if a * 16777216 + b * 65536 + c * 256 + d ≠ 1 then .termMismatch else
        if len ≤ 5 then .len else
        match rest with
        | [v] => if v = 1 ∨ v = 2 then .invalidKey else .version
        | _ => .version
      | _ => .short
  | some (.Rec t v b) =>
      if t ≠ 1 then .termMismatch else
      if v = 1 ∨ v = 2 then
        match openSealed rootKeyId (aadFor v keyringPath) b with
        | some (.keyring ts) => .ok ts
        | some _ => .notKeyring
        | none => .invalidKey
      else .version

inductive Op where
  | put (k : String) (v : Bytes)
  | get (k : String)
  | dec (k : String)                        -- `Decrypt(k, bytes currently stored under k)`; no state change
  | delete (k : String)
  | rotate
  | setver (v : Nat)
  -- the adversary, acting on the physical backend
  | advRaw (k : String) (hdr : List Nat) (len : Nat)  -- any bytes that are not header + produced body
  | advRec (k : String) (term ver nonce : Nat)       -- any header in front of the produced body with that nonce
  | advDel (k : String)
  | flip (k : String) (pos mask : Nat)
  | trunc (k : String) (n : Nat)
  | extend (k : String) (n : Nat)
  | transplant (src dst : String)
  | hswap (k1 k2 : String)
  | replay (k : String) (i : Nat)          -- i-th record ever written (0 = oldest), to any key
  deriving DecidableEq, Repr

inductive Out where
  | wrote (ws : List WRec)       -- barrier write(s) done: the records handed to the physical layer
  | got (g : GetOut)
  | done
  | panic                        -- `encrypt`: "Unknown AESGCM version"
  | phys (vs : List PVal)        -- adversary step: the new physical value(s)
  | bad                          -- operation not applicable (the harness never sends these)
  deriving DecidableEq, Repr

def bodies (s : St) : List Sealed := s.written.map (·.body)

/-- what an adversary without keys can place in the store: raw bytes (`advRaw`; the header prefix must be the
first `min 5 len` bytes), or any header in front of a body the barrier produced at some point (`advRec`; bodies are
named by their nonce — they cannot be forged or altered — and header fields must fit their 4 + 1 bytes) -/
def rawOk (hdr : List Nat) (len : Nat) : Bool := hdr.length == min 5 len && hdr.all (· < 256)

def findBody (s : St) (nonce : Nat) : Option Sealed := (bodies s).find? (·.nonce == nonce)

/-- `encrypt` + `backend.Put` for one entry under the active term; `none` = panic on an unknown version byte -/
def sealFor (s : St) (term : Nat) (kid : KeyId) (path : String) (nonce : Nat) (p : Plain) : WRec :=
  { key := path, term := term, ver := s.ver, body := { key := kid, aad := aadFor s.ver path, nonce := nonce, plain := p } }

def verOk (v : Nat) : Bool := v == 1 || v == 2

def xorByte (a m : Nat) : Nat := Nat.xor a m

/-- header of a physical value that has at least 5 bytes -/
def PVal.hdr? : PVal → Option Hdr
  | .Rec t v _ => some (Hdr.of t v)
  | .Raw [a, b, c, d, e] len => if len ≥ 5 then some ⟨a, b, c, d, e⟩ else none
  | .Raw _ _ => none

/-- replace the 5 header bytes -/
def PVal.withHdr (pv : PVal) (h : Hdr) : PVal :=
  match pv with
  | .Rec _ _ b => .Rec h.term h.ver b
  | .Raw _ len => .Raw h.bytes len

def flipAt (l : List Nat) (pos mask : Nat) : List Nat :=
  l.mapIdx fun i x => if i = pos then xorByte x mask else x

def Hdr.flip (h : Hdr) (pos mask : Nat) : Hdr :=
  match pos with
  | 0 => { h with b0 := xorByte h.b0 mask }
  | 1 => { h with b1 := xorByte h.b1 mask }
  | 2 => { h with b2 := xorByte h.b2 mask }
  | 3 => { h with b3 := xorByte h.b3 mask }
  | _ => { h with ver := xorByte h.ver mask }

/-- single-byte modification `byte[pos] ^= mask` -/
def tamperFlip (pv : PVal) (pos mask : Nat) : Option PVal :=
  if mask = 0 ∨ mask ≥ 256 then none else
  match pv with
  | .Rec t v b =>
      if pos < 5 then
        some (PVal.withHdr (.Rec t v b) ((Hdr.of t v).flip pos mask))
      else match b.plain.len? with
        | some n => if pos < n + 5 + overhead then some (.Raw (hdr5 t v) (n + 5 + overhead)) else none
        | none => none
  | .Raw hdr len =>
      if pos < hdr.length then some (.Raw (flipAt hdr pos mask) len) else none

def tamperTrunc (pv : PVal) (n : Nat) : Option PVal :=
  match pv with
  | .Rec t v b => match b.plain.len? with
      | some l => if n < l + 5 + overhead then some (.Raw ((hdr5 t v).take n) n) else none
      -- the barrier's own records (serialised keyring / root key, never empty): their length is opaque to the model,
      -- but any cut at or below header + AEAD overhead is a proper truncation
      | none => if n ≤ 5 + overhead then some (.Raw ((hdr5 t v).take n) n) else none
  | .Raw _ _ => none

def tamperExtend (pv : PVal) (n : Nat) : Option PVal :=
  match pv with
  | .Rec t v b => match b.plain.len? with
      | some l => if n ≥ 1 then some (.Raw (hdr5 t v) (l + 5 + overhead + n)) else none
      | none => none
  | .Raw _ _ => none

def advPut (s : St) (k : String) (pv : PVal) : St := { s with store := sput s.store k pv }

def step (s : St) : Op → St × Out
  | .put k v =>
      -- putWithBackend: active term, its AEAD; encrypt (panics on an unknown version byte); backend.Put
      match termKey s.keys s.active with
      | none => (s, .bad)
      | some kid =>
        if verOk s.ver then
          let w := sealFor s s.active kid k s.nextNonce (.user v)
          ({ s with store := sput s.store k w.pval, written := w :: s.written, nextNonce := s.nextNonce + 1 }, .wrote [w])
        else (s, .panic)
  | .get k =>
      match sget s.store k with
      | none => (s, .got .none)
      | some pv => (s, .got (getPV s.keys k pv))
  | .dec k =>
      match sget s.store k with
      | none => (s, .got .none)
      | some pv => (s, .got (decPV s.keys k pv))
  | .delete k => ({ s with store := sdel s.store k }, .done)
  | .rotate =>
      -- Rotate: new term = active + 1, fresh key; persistKeyringInternal(newKeyring): keyring under the root key
      -- with the fixed term 1, then the root key under the NEW active key, then delete the legacy path
      if verOk s.ver then
        let nt := s.active + 1
        let nk := s.nextKey
        let keys' := (nt, nk) :: s.keys
        let w1 := sealFor s 1 rootKeyId keyringPath s.nextNonce (.keyring (keys'.map (·.1)))
        let w2 := sealFor s nt nk rootKeyPath (s.nextNonce + 1) .rootkey
        ({ s with keys := keys', active := nt, nextKey := nk + 1, nextNonce := s.nextNonce + 2,
                  store := sdel (sput (sput s.store keyringPath w1.pval) rootKeyPath w2.pval) legacyRootKeyPath,
                  written := w2 :: w1 :: s.written }, .wrote [w1, w2])
      else (s, .panic)
  | .setver v => if v < 256 then ({ s with ver := v }, .done) else (s, .bad)
  | .advRaw k hdr len =>
      if rawOk hdr len then (advPut s k (.Raw hdr len), .phys [.Raw hdr len]) else (s, .bad)
  | .advRec k t v n =>
      match findBody s n with
      | none => (s, .bad)
      | some b =>
        if t < 4294967296 ∧ v < 256 then (advPut s k (.Rec t v b), .phys [.Rec t v b]) else (s, .bad)
  | .advDel k => ({ s with store := sdel s.store k }, .done)
  | .flip k pos mask =>
      match sget s.store k with
      | none => (s, .bad)
      | some pv => match tamperFlip pv pos mask with
        | some pv' => (advPut s k pv', .phys [pv'])
        | none => (s, .bad)
  | .trunc k n =>
      match sget s.store k with
      | none => (s, .bad)
      | some pv => match tamperTrunc pv n with
        | some pv' => (advPut s k pv', .phys [pv'])
        | none => (s, .bad)
  | .extend k n =>
      match sget s.store k with
      | none => (s, .bad)
      | some pv => match tamperExtend pv n with
        | some pv' => (advPut s k pv', .phys [pv'])
        | none => (s, .bad)
  | .transplant src dst =>
      match sget s.store src with
      | none => (s, .bad)
      | some pv => (advPut s dst pv, .phys [pv])
  | .hswap k1 k2 =>
      match sget s.store k1, sget s.store k2 with
      | some p1, some p2 =>
        match p1.hdr?, p2.hdr? with
        | some h1, some h2 =>
          let p1' := p1.withHdr h2
          let p2' := p2.withHdr h1
          if k1 = k2 then (s, .bad) else
          (advPut (advPut s k1 p1') k2 p2', .phys [p1', p2'])
        | _, _ => (s, .bad)
      | _, _ => (s, .bad)
  | .replay k i =>
      match s.written.reverse[i]? with
      | none => (s, .bad)
      | some w => (advPut s k w.pval, .phys [w.pval])

def run (ops : List Op) (s : St) : St := ops.foldl (fun st o => (step st o).1) s

def readKey (s : St) (k : String) : GetOut :=
  match sget s.store k with
  | none => .none
  | some pv => getPV s.keys k pv

end Obao.Barrier
