import Obao.Model.RaftFSM
/-!
Where committed logs come from: a model of the leader side of `RaftBackend` (`raft.go applyLog`,
`transaction.go newTransaction / Commit / Rollback`, the `sourceIndexMap` half of `fsmTxnCommitIndexTracker`)
at the granularity that decides which `LogData` entries can appear in a committed log:

* raft assigns consecutive indexes; `LogNoop`/`LogBarrier` entries consume an index and never reach the FSM;
* hashicorp/raft hands committed entries to the FSM goroutine in batches and advances `raft.AppliedIndex()`
  when it has *queued* them (`handoff`); the FSM applies them later (`deliver`), so the FSM's `latestIndex`
  may lag behind `raft.AppliedIndex()`;
* `BeginTx` reads `AppliedIndex()` (= the FSM's `latestIndex`) as start index, opens a bolt read transaction
  (the snapshot the transaction reads from) and calls `trackTransaction(start)`;
* every submitted entry carries `LowestActiveIndex = min(raft.AppliedIndex(), lowest active start index)`
  (for a commit: lowest start index after this transaction is gone);
* `Commit` ships `begin(start) ‖ read verifications ‖ writes ‖ commit`; the transaction leaves `sourceIndexMap`
  when the leader's FSM has applied the entry; `Rollback` leaves at once and clears the leader's tracker locally.

Only transactions made of gets, puts and deletes are generated (list records are built by
`RaftTransaction.ListPage`, the subject of C08). The model is used to certify that the counterexample logs of
C09 are histories of the real system (`LeaderGenerable`); its `LowestActiveIndex` arithmetic is tied to the Go
tracker by the `rafttracker` stream.
-/
namespace Obao.RaftLeader
open Obao.RaftFSM

inductive TxState where
  /-- `newTransaction` has read the start index and opened the bolt snapshot, `trackTransaction` not yet called -/
  | reading
  | active
  | committing (idx : Nat)
  | done
  deriving DecidableEq, Repr

structure Tx where
  start : Nat
  snap : Store
  state : TxState
  deriving DecidableEq, Repr

structure Leader where
  log : List Entry := []
  lastIdx : Nat := 0          -- raft's last log index
  raftApplied : Nat := 0      -- raft.AppliedIndex()
  handed : Nat := 0           -- entries of `log` queued for the FSM
  rep : Replica := .fresh     -- the leader's FSM
  fsmPos : Nat := 0           -- entries of `log` applied by the FSM
  active : List Nat := []     -- sourceIndexMap as a multiset of start indexes
  txs : List Tx := []
  deriving DecidableEq, Repr

inductive LEv where
  | noop
  | put (k : Key) (v : Val)
  | del (k : Key)
  | begin
  /-- the first half of `newTransaction`: `index := AppliedIndex()` and `db.Begin(false)` -/
  | beginRead
  /-- the second half: `trackTransaction(index)` -/
  | track (t : Nat)
  /-- commit transaction `t`, having read `reads` (from its snapshot) and buffered `writes` (puts/deletes) -/
  | commit (t : Nat) (reads : List Key) (writes : List Op)
  | rollback (t : Nat)
  | handoff (n : Nat)
  | deliver (n : Nat)
  deriving DecidableEq, Repr

/-- `lowestActiveIndex()` with `math.MaxUint64` as `none` -/
def lowest : List Nat → Option Nat
  | [] => none
  | a :: r => match lowest r with
    | none => some a
    | some b => some (min a b)

/-- `min(b.raft.AppliedIndex(), lowestActiveIndex)` -/
def capLow (raftApplied : Nat) (l : Option Nat) : Nat :=
  match l with
  | none => raftApplied
  | some x => min raftApplied x

def submit (ld : Leader) (low : Nat) (ops : List Op) : Leader :=
  let idx := ld.lastIdx + 1
  { ld with log := ld.log ++ [{ idx := idx, low := some low, cmd := .data ops }], lastIdx := idx }

/-- what `Get` returned inside the transaction, as the verification record stores it -/
def observed (snap : Store) (k : Key) : Op :=
  .vread k (some (match get snap k with | some v => v | none => []))

def onlyWrites (ops : List Op) : Bool :=
  ops.all fun o => match o with | .put _ _ => true | .del _ => true | _ => false

def complete (ld : Leader) : Leader :=
  -- transactions whose commit entry the FSM has applied leave sourceIndexMap
  let fin := ld.txs.filter fun t => match t.state with
    | .committing i => decide (i ≤ ld.rep.latest)
    | _ => false
  { ld with
    active := fin.foldl (fun a t => a.erase t.start) ld.active,
    txs := ld.txs.map fun t => match t.state with
      | .committing i => if i ≤ ld.rep.latest then { t with state := .done } else t
      | _ => t }

def step (ld : Leader) : LEv → Option Leader
  | .noop => some { ld with lastIdx := ld.lastIdx + 1 }
  | .put k v => some (submit ld (capLow ld.raftApplied (lowest ld.active)) [.put k v])
  | .del k => some (submit ld (capLow ld.raftApplied (lowest ld.active)) [.del k])
  | .begin =>
    some { ld with active := ld.rep.latest :: ld.active,
                   txs := ld.txs ++ [{ start := ld.rep.latest, snap := ld.rep.kv, state := .active }] }
  | .beginRead =>
    some { ld with txs := ld.txs ++ [{ start := ld.rep.latest, snap := ld.rep.kv, state := .reading }] }
  | .track t =>
    match ld.txs[t]? with
    | some tx =>
      if tx.state = .reading then
        some { ld with active := tx.start :: ld.active, txs := ld.txs.set t { tx with state := .active } }
      else none
    | none => none
  | .commit t reads writes =>
    match ld.txs[t]? with
    | some tx =>
      if tx.state = .active ∧ writes ≠ [] ∧ onlyWrites writes then
        let low := capLow ld.raftApplied (lowest (ld.active.erase tx.start))
        let ops := [Op.begin tx.start] ++ reads.map (observed tx.snap) ++ writes ++ [Op.commit]
        let ld' := submit ld low ops
        some { ld' with txs := ld'.txs.set t { tx with state := .committing ld'.lastIdx } }
      else none
    | none => none
  | .rollback t =>
    match ld.txs[t]? with
    | some tx =>
      if tx.state = .active then
        let act := ld.active.erase tx.start
        let low := capLow ld.raftApplied (lowest act)
        some { ld with active := act, txs := ld.txs.set t { tx with state := .done },
                       rep := { ld.rep with tracker := ld.rep.tracker.clear low } }
      else none
    | none => none
  | .handoff n =>
    let es := (ld.log.drop ld.handed).take n
    match es.getLast? with
    | some e => some { ld with handed := ld.handed + es.length, raftApplied := e.idx }
    | none => none
  | .deliver n =>
    let es := (ld.log.drop ld.fsmPos).take n
    if es ≠ [] ∧ ld.fsmPos + es.length ≤ ld.handed then
      some (complete { ld with rep := (applyBatch (fun _ => true) ld.rep es).1, fsmPos := ld.fsmPos + es.length })
    else none

def run : Leader → List LEv → Option Leader
  | ld, [] => some ld
  | ld, ev :: evs => match step ld ev with
    | some ld' => run ld' evs
    | none => none

/-- the committed log some behaviour of a leader produces -/
def LeaderGenerable (log : List Entry) : Prop :=
  ∃ evs, (run {} evs).map (·.log) = some log

/-! ### what the client is told (`applyLog`)

`applyLog` proposes the operation (one log entry, or several when the encoded `LogData` exceeds
`raftchunking.ChunkSize`) and waits for the leader's own FSM to apply it. The FSM's answer for the final entry of a
chunked operation arrives wrapped (`raftchunking.ChunkingSuccess{Response}`); `applyLog` removes the wrapper FIRST and
only then looks for the transaction-error sentinel entry. -/

inductive FsmAnswer where
  | direct (v : Verdict)    -- one log entry
  | wrapped (v : Verdict)   -- final entry of a chunked operation
  deriving DecidableEq, Repr

/-- the verdict the leader's FSM reached -/
def FsmAnswer.verdict : FsmAnswer → Verdict
  | .direct v => v
  | .wrapped v => v

/-- what `applyLog` reports to the client (`conflict` = `ErrTransactionCommitFailure`, otherwise nil) -/
def reported (a : FsmAnswer) : Verdict :=
  match a with
  | .direct v => v
  | .wrapped v => v      -- unwrap, then inspect

/-- NOT the code (seeded change C09-3): the sentinel is looked for before the wrapper is removed — the type assertion
fails on a wrapped answer and nothing inspects it afterwards -/
def reportedBeforeUnwrap (a : FsmAnswer) : Verdict :=
  match a with
  | .direct v => v
  | .wrapped .conflict => .commit
  | .wrapped v => v

end Obao.RaftLeader
