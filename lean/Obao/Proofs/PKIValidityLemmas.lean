import Obao.Model.PKIValidity
/-! Helper lemmas for C15: the stages of `getNotAfter`. -/
namespace Obao.PKIValidity

theorem capAtIssuer_ok {i : VIn} {na na' : Int} (h : capAtIssuer i na = .ok na') :
    (∀ caNA beh, i.issuer = some (caNA, beh) → beh ≠ .permit → na' ≤ caNA) ∧
    (na' = na ∨ (∃ caNA, i.issuer = some (caNA, .truncate) ∧ na > caNA ∧ na' = caNA)) ∧
    (∀ caNA beh, i.issuer = some (caNA, beh) → na > caNA → (beh = .truncate ∧ na' = caNA) ∨ (beh = .permit ∧ na' = na)) := by
  unfold capAtIssuer at h
  cases hi : i.issuer with
  | none =>
    rw [hi] at h
    injection h with h
    subst h
    refine ⟨?_, Or.inl rfl, ?_⟩ <;> (intro a b hab; cases hab)
  | some p =>
    obtain ⟨caNA, beh⟩ := p
    rw [hi] at h
    simp only at h
    by_cases hgt : na > caNA
    · rw [if_pos hgt] at h
      cases beh with
      | permit =>
        injection h with h
        subst h
        refine ⟨?_, Or.inl rfl, ?_⟩
        · intro a b hab hb; cases hab; exact absurd rfl hb
        · intro a b hab _; cases hab; exact Or.inr ⟨rfl, rfl⟩
      | truncate =>
        simp only at h
        split at h
        · cases h
        · injection h with h
          subst h
          refine ⟨?_, Or.inr ⟨_, rfl, hgt, rfl⟩, ?_⟩
          · intro a b hab _; cases hab; exact Int.le_refl _
          · intro a b hab _; cases hab; exact Or.inl ⟨rfl, rfl⟩
      | err => cases h
    · rw [if_neg hgt] at h
      injection h with h
      subst h
      refine ⟨?_, Or.inl rfl, ?_⟩
      · intro a b hab _; cases hab; omega
      · intro a b hab hlt; cases hab; exact absurd hlt hgt

theorem boundByTimestamp_ok {i : VIn} {na x : Int} (h : boundByTimestamp i na = .ok x) :
    x = na ∧ (∀ ts, i.nab = .timestamp ts → na ≤ ts) := by
  unfold boundByTimestamp at h
  split at h
  · rename_i ts hts
    split at h
    · simp at h
    · simp at h
      refine ⟨h.symm, ?_⟩
      intro ts' hts'
      rw [hts] at hts'
      simp at hts'
      omega
  · rename_i hnot
    simp at h
    refine ⟨h.symm, ?_⟩
    intro ts hts
    exact absurd hts (hnot ts)

/-- an accepted `getNotAfter`, stage by stage -/
theorem getNotAfter_ok {i : VIn} {na : Int} (h : getNotAfter i = .ok na) :
    ∃ alt parsed, selectNotAfter i = .ok (alt, parsed) ∧ ¬ (i.reqTTL > 0 ∧ alt.isSome = true) ∧
      ¬ (i.nab = .ttlLimited ∧ parsedAfter parsed (i.now + effTTL i) = true) ∧
      capAtIssuer i (altOr alt (i.now + effTTL i)) = .ok na ∧
      (∀ ts, i.nab = .timestamp ts → na ≤ ts) := by
  unfold getNotAfter at h
  split at h
  · simp at h
  · rename_i alt parsed hsel
    split at h
    · simp at h
    · rename_i h1
      simp only at h
      split at h
      · simp at h
      · rename_i h2
        split at h
        · simp at h
        · rename_i na' hcap
          obtain ⟨e, hts⟩ := boundByTimestamp_ok h
          subst e
          exact ⟨alt, parsed, hsel, h1, h2, hcap, hts⟩

theorem selectNotAfter_ok {i : VIn} {alt parsed : Option Int} (h : selectNotAfter i = .ok (alt, parsed)) :
    (i.roleNotAfter = none → i.reqNotAfter = none → alt = none) ∧
    (i.roleNotAfter = none → parsed = alt) ∧
    (alt = match i.roleNotAfter, i.reqNotAfter with | some t, _ => some t | none, some t => some t | none, none => none) ∧
    (i.roleNotAfter = none → i.reqNotAfter.isSome = true → i.nab ≠ .forbid) := by
  unfold selectNotAfter at h
  split at h
  · rename_i t hr
    simp at h
    obtain ⟨h1, h2⟩ := h
    subst h1; subst h2
    simp [hr]
  · rename_i hr
    split at h
    · rename_i t hq
      split at h
      · simp at h
      · rename_i hnf
        simp at h
        obtain ⟨h1, h2⟩ := h
        subst h1; subst h2
        simp [hr, hq, hnf]
    · rename_i hq
      simp at h
      obtain ⟨h1, h2⟩ := h
      subst h1; subst h2
      simp [hr, hq]

end Obao.PKIValidity
