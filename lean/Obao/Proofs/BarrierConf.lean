import Obao.Proofs.Barrier
/-! Confidentiality of the barrier model as non-interference: the physical store, with the CONTENT of sealed caller
plaintexts blanked (their length stays visible), is a function of the history's shape only — which operations, which
keys, which value lengths, which adversary steps — and never of the values themselves. -/
namespace Obao.Barrier

def shapePlain : Plain → Plain
  | .user b => .user (List.replicate b.length 0)
  | p => p

def shapeSealed (b : Sealed) : Sealed := { b with plain := shapePlain b.plain }

/-- what an observer of the physical backend sees of a value -/
def shapePV : PVal → PVal
  | .Rec t v b => .Rec t v (shapeSealed b)
  | .Raw h l => .Raw h l

def shapeW (w : WRec) : WRec := { w with body := shapeSealed w.body }

def shapeStore (m : List (String × PVal)) : List (String × PVal) := m.map fun e => (e.1, shapePV e.2)

def shapeSt (s : St) : St := { s with store := shapeStore s.store, written := s.written.map shapeW }

/-- the shape of an operation: a `put` keeps its key and the LENGTH of its value -/
def shapeOp : Op → Op
  | .put k v => .put k (List.replicate v.length 0)
  | o => o

theorem shapePlain_len (p : Plain) : (shapePlain p).len? = p.len? := by
  cases p <;> simp [shapePlain, Plain.len?]

theorem sget_shape (m : List (String × PVal)) (k : String) :
    sget (shapeStore m) k = (sget m k).map shapePV := by
  induction m with
  | nil => rfl
  | cons x rest ih =>
    obtain ⟨k', v⟩ := x
    simp only [shapeStore, List.map_cons, sget]
    by_cases h : k' = k
    · simp [h]
    · simp only [h, if_false]; exact ih

theorem sdel_shape (m : List (String × PVal)) (k : String) : shapeStore (sdel m k) = sdel (shapeStore m) k := by
  induction m with
  | nil => rfl
  | cons x rest ih =>
    obtain ⟨k', v⟩ := x
    by_cases h : k' = k
    · simp only [sdel, h, if_true, shapeStore, List.map_cons]; exact ih
    · simp only [sdel, h, if_false, shapeStore, List.map_cons]
      congr 1

theorem sput_shape (m : List (String × PVal)) (k : String) (v : PVal) :
    shapeStore (sput m k v) = sput (shapeStore m) k (shapePV v) := by
  simp only [sput, shapeStore, List.map_cons]
  congr 1
  exact sdel_shape m k

theorem pval_shape (w : WRec) : shapePV w.pval = (shapeW w).pval := rfl

theorem findBody_shape (s : St) (n : Nat) : findBody (shapeSt s) n = (findBody s n).map shapeSealed := by
  simp only [findBody, bodies, shapeSt, List.map_map]
  induction s.written with
  | nil => rfl
  | cons w rest ih =>
    simp only [List.map_cons, List.find?_cons, Function.comp, shapeW, shapeSealed]
    split
    · rfl
    · exact ih

theorem hdr_shape (pv : PVal) : (shapePV pv).hdr? = pv.hdr? := by cases pv <;> rfl

theorem withHdr_shape (pv : PVal) (h : Hdr) : shapePV (pv.withHdr h) = (shapePV pv).withHdr h := by
  cases pv <;> rfl

theorem tamperFlip_shape (pv : PVal) (pos mask : Nat) :
    tamperFlip (shapePV pv) pos mask = (tamperFlip pv pos mask).map shapePV := by
  cases pv with
  | Raw h l =>
    simp only [tamperFlip, shapePV]
    split
    · rfl
    · split <;> rfl
  | Rec t v b =>
    simp only [tamperFlip, shapePV, shapeSealed, shapePlain_len]
    split
    · rfl
    · split
      · rfl
      · cases b.plain.len? with
        | none => rfl
        | some n => simp only; split <;> rfl

theorem tamperTrunc_shape (pv : PVal) (n : Nat) :
    tamperTrunc (shapePV pv) n = (tamperTrunc pv n).map shapePV := by
  cases pv with
  | Raw h l => rfl
  | Rec t v b =>
    simp only [tamperTrunc, shapePV, shapeSealed, shapePlain_len]
    cases b.plain.len? with
    | none => simp only; split <;> rfl
    | some l => simp only; split <;> rfl

theorem tamperExtend_shape (pv : PVal) (n : Nat) :
    tamperExtend (shapePV pv) n = (tamperExtend pv n).map shapePV := by
  cases pv with
  | Raw h l => rfl
  | Rec t v b =>
    simp only [tamperExtend, shapePV, shapeSealed, shapePlain_len]
    cases b.plain.len? with
    | none => rfl
    | some l => simp only; split <;> rfl

theorem advPut_shape (s : St) (k : String) (pv : PVal) : shapeSt (advPut s k pv) = advPut (shapeSt s) k (shapePV pv) := by
  simp only [advPut, shapeSt, sput_shape]

theorem written_rev_shape (s : St) (i : Nat) :
    (shapeSt s).written.reverse[i]? = (s.written.reverse[i]?).map shapeW := by
  simp only [shapeSt, ← List.map_reverse, List.getElem?_map]

/-- one step commutes with taking shapes -/
theorem step_shape (s : St) (o : Op) : (step (shapeSt s) (shapeOp o)).1 = shapeSt (step s o).1 := by
  cases o with
  | put k v =>
    simp only [shapeOp, step]
    have hk : (shapeSt s).keys = s.keys := rfl
    have ha : (shapeSt s).active = s.active := rfl
    have hv : (shapeSt s).ver = s.ver := rfl
    rw [hk, ha, hv]
    cases termKey s.keys s.active with
    | none => rfl
    | some kid =>
      simp only
      split
      · simp only [shapeSt, sput_shape, List.map_cons, sealFor, WRec.pval, shapePV, shapeW, shapeSealed, shapePlain]
      · rfl
  | get k =>
    simp only [shapeOp, step, shapeSt, sget_shape]
    cases sget s.store k <;> rfl
  | dec k =>
    simp only [shapeOp, step, shapeSt, sget_shape]
    cases sget s.store k <;> rfl
  | delete k => simp only [shapeOp, step, shapeSt, sdel_shape]
  | rotate =>
    simp only [shapeOp, step]
    have hv : (shapeSt s).ver = s.ver := rfl
    rw [hv]
    split
    · simp only [shapeSt, sdel_shape, sput_shape, List.map_cons, sealFor, WRec.pval, shapePV, shapeW, shapeSealed,
        shapePlain]
    · rfl
  | setver v =>
    simp only [shapeOp, step]
    split <;> rfl
  | advRaw k hd l =>
    simp only [shapeOp, step]
    split
    · exact (advPut_shape s k (.Raw hd l)).symm
    · rfl
  | advRec k t v n =>
    simp only [shapeOp, step, findBody_shape]
    cases findBody s n with
    | none => rfl
    | some b =>
      simp only [Option.map_some]
      split
      · exact (advPut_shape s k (.Rec t v b)).symm
      · rfl
  | advDel k => simp only [shapeOp, step, shapeSt, sdel_shape]
  | flip k pos mask =>
    simp only [shapeOp, step]
    rw [show (shapeSt s).store = shapeStore s.store from rfl, sget_shape]
    cases sget s.store k with
    | none => rfl
    | some pv =>
      simp only [Option.map_some, tamperFlip_shape]
      cases tamperFlip pv pos mask with
      | none => rfl
      | some pv' => exact (advPut_shape s k pv').symm
  | trunc k n =>
    simp only [shapeOp, step]
    rw [show (shapeSt s).store = shapeStore s.store from rfl, sget_shape]
    cases sget s.store k with
    | none => rfl
    | some pv =>
      simp only [Option.map_some, tamperTrunc_shape]
      cases tamperTrunc pv n with
      | none => rfl
      | some pv' => exact (advPut_shape s k pv').symm
  | extend k n =>
    simp only [shapeOp, step]
    rw [show (shapeSt s).store = shapeStore s.store from rfl, sget_shape]
    cases sget s.store k with
    | none => rfl
    | some pv =>
      simp only [Option.map_some, tamperExtend_shape]
      cases tamperExtend pv n with
      | none => rfl
      | some pv' => exact (advPut_shape s k pv').symm
  | transplant src dst =>
    simp only [shapeOp, step]
    rw [show (shapeSt s).store = shapeStore s.store from rfl, sget_shape]
    cases sget s.store src with
    | none => rfl
    | some pv => exact (advPut_shape s dst pv).symm
  | hswap k1 k2 =>
    simp only [shapeOp, step]
    rw [show (shapeSt s).store = shapeStore s.store from rfl, sget_shape, sget_shape]
    cases sget s.store k1 with
    | none => rfl
    | some p1 =>
      cases sget s.store k2 with
      | none => rfl
      | some p2 =>
        simp only [Option.map_some, hdr_shape]
        cases p1.hdr? with
        | none => rfl
        | some h1 =>
          cases p2.hdr? with
          | none => rfl
          | some h2 =>
            simp only
            split
            · rfl
            · simp only [advPut_shape, withHdr_shape]
  | replay k i =>
    simp only [shapeOp, step, written_rev_shape]
    cases s.written.reverse[i]? with
    | none => rfl
    | some w => exact (advPut_shape s k w.pval).symm

theorem run_shape (ops : List Op) (s : St) : run (ops.map shapeOp) (shapeSt s) = shapeSt (run ops s) := by
  induction ops generalizing s with
  | nil => rfl
  | cons o rest ih =>
    show run (rest.map shapeOp) (step (shapeSt s) (shapeOp o)).1 = shapeSt (run rest (step s o).1)
    rw [step_shape, ih]

theorem shape_init : shapeSt init = init := rfl

end Obao.Barrier
