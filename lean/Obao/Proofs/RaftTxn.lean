import Obao.Model.RaftTxn
import Obao.Proofs.InmemTxn
/-! Helper lemmas for C08 (raft part): read records describe the snapshot; `listPageInner` with a limit is a
prefix of the unlimited listing. -/
namespace Obao.RaftTxn
open Obao.SerialTxn

/-- every read record holds the hash of the SNAPSHOT content of its key -/
def ReadsInv (t : RTxn) : Prop := ∀ r ∈ t.reads, r.2 = hashOf (sget t.snap r.1)

theorem mem_mapSet {β : Type} (m : List (Key × β)) (k : Key) (b : β) (e : Key × β) (h : e ∈ mapSet m k b) :
    e = (k, b) ∨ e ∈ m := by
  unfold mapSet at h
  rcases List.mem_cons.mp h with h | h
  · exact Or.inl h
  · exact Or.inr (List.mem_filter.mp h).1

theorem keys_mapSet {β : Type} (m : List (Key × β)) (k : Key) (b : β) (k' : Key)
    (h : k' ∈ m.map (·.1)) : k' ∈ (mapSet m k b).map (·.1) := by
  unfold mapSet
  by_cases hk : k' = k
  · simp [hk]
  · obtain ⟨e, he, rfl⟩ := List.mem_map.mp h
    apply List.mem_map.mpr
    exact ⟨e, List.mem_cons_of_mem _ (List.mem_filter.mpr ⟨he, by simpa using hk⟩), rfl⟩

theorem key_mem_mapSet {β : Type} (m : List (Key × β)) (k : Key) (b : β) : k ∈ (mapSet m k b).map (·.1) := by
  simp [mapSet]

theorem snap_apply (t : RTxn) (o : Op) : (t.apply o).1.snap = t.snap ∧ (t.apply o).1.writable = t.writable := by
  cases o with
  | get k =>
    simp only [RTxn.apply, RTxn.get]
    split
    · exact ⟨rfl, rfl⟩
    · split <;> exact ⟨rfl, rfl⟩
  | put k v =>
    simp only [RTxn.apply, RTxn.put]
    split
    · exact ⟨rfl, rfl⟩
    · split <;> exact ⟨rfl, rfl⟩
  | del k =>
    simp only [RTxn.apply, RTxn.delete]
    split
    · exact ⟨rfl, rfl⟩
    · split <;> exact ⟨rfl, rfl⟩
  | list p a l =>
    simp only [RTxn.apply, RTxn.listPage]
    split <;> exact ⟨rfl, rfl⟩

theorem readsInv_apply (t : RTxn) (o : Op) (h : ReadsInv t) : ReadsInv (t.apply o).1 := by
  have add : ∀ k, ReadsInv { t with reads := mapSet t.reads k (hashOf (sget t.snap k)) } := by
    intro k r hr
    rcases mem_mapSet _ _ _ _ hr with rfl | hr
    · rfl
    · exact h r hr
  cases o with
  | get k =>
    simp only [RTxn.apply, RTxn.get]
    split
    · exact h
    · split
      · exact h
      · split
        · exact add k
        · exact h
  | put k v =>
    simp only [RTxn.apply, RTxn.put]
    split
    · exact h
    · split
      · exact h
      · split
        · intro r hr; exact add k r hr
        · intro r hr; exact h r hr
  | del k =>
    simp only [RTxn.apply, RTxn.delete]
    split
    · exact h
    · split
      · exact h
      · split
        · intro r hr; exact add k r hr
        · intro r hr; exact h r hr
  | list p a l =>
    simp only [RTxn.apply, RTxn.listPage]
    split
    · exact h
    · intro r hr; exact h r hr

theorem readsInv_applyAll (t : RTxn) (ops : List Op) (h : ReadsInv t) : ReadsInv (t.applyAll ops) := by
  induction ops generalizing t with
  | nil => exact h
  | cons o r ih => exact ih _ (readsInv_apply t o h)

theorem snap_applyAll (t : RTxn) (ops : List Op) : (t.applyAll ops).snap = t.snap ∧ (t.applyAll ops).writable = t.writable := by
  induction ops generalizing t with
  | nil => exact ⟨rfl, rfl⟩
  | cons o r ih =>
    simp only [RTxn.applyAll]
    rw [(ih _).1, (ih _).2]; exact snap_apply t o

/-- coverage invariant: every buffered write has a read record (the pre-image is verified) -/
def CoverInv (t : RTxn) : Prop := ∀ k ∈ t.updates.map (·.1), k ∈ t.reads.map (·.1)

theorem lookup_isNone_false_mem {β : Type} (m : List (Key × β)) (k : Key) (h : (m.lookup k).isNone = false) :
    k ∈ m.map (·.1) := by
  induction m with
  | nil => simp at h
  | cons e r ih =>
    obtain ⟨k', b⟩ := e
    by_cases hk : k = k'
    · simp [hk]
    · have : (k == k') = false := by simpa using hk
      simp only [List.lookup, this] at h
      simp [ih h]

/-- one operation: unfinished transactions keep all read-record keys, keep the coverage invariant, and record
    every key the operation touches -/
theorem cover_apply (t : RTxn) (o : Op) (hf : t.finished = false) (hc : CoverInv t) :
    (t.apply o).1.finished = false ∧ CoverInv (t.apply o).1 ∧
    (∀ k ∈ t.reads.map (·.1), k ∈ (t.apply o).1.reads.map (·.1)) ∧
    (∀ k, touches t.writable o k = true → k ∈ (t.apply o).1.reads.map (·.1)) := by
  cases o with
  | get k =>
    simp only [RTxn.apply, RTxn.get, hf, Bool.false_eq_true, if_false]
    cases hw : t.writable with
    | false =>
      simp only [Bool.false_eq_true, if_false]
      by_cases hr : (t.reads.lookup k).isNone = true
      · simp only [hr, if_true]
        refine ⟨trivial, ?_, fun k' hk' => keys_mapSet _ _ _ _ hk', ?_⟩
        · intro k' hk'; exact keys_mapSet _ _ _ _ (hc k' hk')
        · intro k' hk'
          have : k = k' := by simpa [touches] using hk'
          subst this; exact key_mem_mapSet _ _ _
      · have hr' : (t.reads.lookup k).isNone = false := by simpa using hr
        simp only [hr', Bool.false_eq_true, if_false]
        refine ⟨trivial, hc, fun k' hk' => hk', ?_⟩
        intro k' hk'
        have : k = k' := by simpa [touches] using hk'
        subst this; exact lookup_isNone_false_mem _ _ hr'
    | true =>
      simp only [if_true]
      cases hu : t.updates.lookup k with
      | some u =>
        refine ⟨hf, hc, fun k' hk' => hk', ?_⟩
        intro k' hk'
        have : k = k' := by simpa [touches] using hk'
        subst this
        exact hc k (lookup_isNone_false_mem _ _ (by simp [hu]))
      | none =>
        simp only
        by_cases hr : (t.reads.lookup k).isNone = true
        · simp only [hr, if_true]
          refine ⟨trivial, ?_, fun k' hk' => keys_mapSet _ _ _ _ hk', ?_⟩
          · intro k' hk'; exact keys_mapSet _ _ _ _ (hc k' hk')
          · intro k' hk'
            have : k = k' := by simpa [touches] using hk'
            subst this; exact key_mem_mapSet _ _ _
        · have hr' : (t.reads.lookup k).isNone = false := by simpa using hr
          simp only [hr', Bool.false_eq_true, if_false]
          refine ⟨trivial, hc, fun k' hk' => hk', ?_⟩
          intro k' hk'
          have : k = k' := by simpa [touches] using hk'
          subst this; exact lookup_isNone_false_mem _ _ hr'
  | put k v =>
    simp only [RTxn.apply, RTxn.put, hf]
    cases hw : t.writable with
    | false => simp [hf, touches]; exact hc
    | true =>
      simp only [Bool.not_true, Bool.false_eq_true, if_false]
      by_cases hn : ((t.updates.lookup k).isNone && (t.reads.lookup k).isNone) = true
      · simp only [hn, if_true]
        refine ⟨trivial, ?_, fun k' hk' => keys_mapSet _ _ _ _ hk', ?_⟩
        · intro k' hk'
          simp only [mapSet, List.map_cons, List.mem_cons] at hk'
          rcases hk' with rfl | hk'
          · exact key_mem_mapSet _ _ _
          · apply keys_mapSet
            apply hc
            obtain ⟨e, he, rfl⟩ := List.mem_map.mp hk'
            exact List.mem_map.mpr ⟨e, (List.mem_filter.mp he).1, rfl⟩
        · intro k' hk'
          have : k = k' := by simpa [touches] using hk'
          subst this; exact key_mem_mapSet _ _ _
      · have hn' : ((t.updates.lookup k).isNone && (t.reads.lookup k).isNone) = false := by simpa using hn
        simp only [hn', Bool.false_eq_true, if_false]
        have hk : k ∈ t.reads.map (·.1) := by
          rcases Bool.and_eq_false_iff.mp hn' with h1 | h1
          · exact hc k (lookup_isNone_false_mem _ _ h1)
          · exact lookup_isNone_false_mem _ _ h1
        refine ⟨trivial, ?_, fun k' hk' => hk', ?_⟩
        · intro k' hk'
          simp only [mapSet, List.map_cons, List.mem_cons] at hk'
          rcases hk' with rfl | hk'
          · exact hk
          · apply hc
            obtain ⟨e, he, rfl⟩ := List.mem_map.mp hk'
            exact List.mem_map.mpr ⟨e, (List.mem_filter.mp he).1, rfl⟩
        · intro k' hk'
          have : k = k' := by simpa [touches] using hk'
          subst this; exact hk
  | del k =>
    simp only [RTxn.apply, RTxn.delete, hf]
    cases hw : t.writable with
    | false => simp [hf, touches]; exact hc
    | true =>
      simp only [Bool.not_true, Bool.false_eq_true, if_false]
      by_cases hn : ((t.updates.lookup k).isNone && (t.reads.lookup k).isNone) = true
      · simp only [hn, if_true]
        refine ⟨trivial, ?_, fun k' hk' => keys_mapSet _ _ _ _ hk', ?_⟩
        · intro k' hk'
          simp only [mapSet, List.map_cons, List.mem_cons] at hk'
          rcases hk' with rfl | hk'
          · exact key_mem_mapSet _ _ _
          · apply keys_mapSet
            apply hc
            obtain ⟨e, he, rfl⟩ := List.mem_map.mp hk'
            exact List.mem_map.mpr ⟨e, (List.mem_filter.mp he).1, rfl⟩
        · intro k' hk'
          have : k = k' := by simpa [touches] using hk'
          subst this; exact key_mem_mapSet _ _ _
      · have hn' : ((t.updates.lookup k).isNone && (t.reads.lookup k).isNone) = false := by simpa using hn
        simp only [hn', Bool.false_eq_true, if_false]
        have hk : k ∈ t.reads.map (·.1) := by
          rcases Bool.and_eq_false_iff.mp hn' with h1 | h1
          · exact hc k (lookup_isNone_false_mem _ _ h1)
          · exact lookup_isNone_false_mem _ _ h1
        refine ⟨trivial, ?_, fun k' hk' => hk', ?_⟩
        · intro k' hk'
          simp only [mapSet, List.map_cons, List.mem_cons] at hk'
          rcases hk' with rfl | hk'
          · exact hk
          · apply hc
            obtain ⟨e, he, rfl⟩ := List.mem_map.mp hk'
            exact List.mem_map.mpr ⟨e, (List.mem_filter.mp he).1, rfl⟩
        · intro k' hk'
          have : k = k' := by simpa [touches] using hk'
          subst this; exact hk
  | list p a l =>
    simp only [RTxn.apply, RTxn.listPage, hf, Bool.false_eq_true, if_false]
    exact ⟨trivial, hc, fun k' hk' => hk', by simp [touches]⟩

theorem cover_applyAll (t : RTxn) (ops : List Op) (hf : t.finished = false) (hc : CoverInv t) :
    (∀ k ∈ t.reads.map (·.1), k ∈ (t.applyAll ops).reads.map (·.1)) ∧
    (∀ o ∈ ops, ∀ k, touches t.writable o k = true → k ∈ (t.applyAll ops).reads.map (·.1)) := by
  induction ops generalizing t with
  | nil => exact ⟨fun k hk => hk, by simp⟩
  | cons o r ih =>
    obtain ⟨hf', hc', hmono, htouch⟩ := cover_apply t o hf hc
    obtain ⟨ih1, ih2⟩ := ih (t.apply o).1 hf' hc'
    simp only [RTxn.applyAll]
    refine ⟨fun k hk => ih1 k (hmono k hk), ?_⟩
    intro o' ho' k hk
    rcases List.mem_cons.mp ho' with rfl | ho'
    · exact ih1 k (htouch k hk)
    · have := ih2 o' ho' k
      rw [(snap_apply t o).2] at this
      exact this hk

end Obao.RaftTxn

namespace Obao.RaftTxn
open Obao.SerialTxn

theorem lpiLoop_nonpos (pre after : String) (l : Int) (h : l ≤ 0) (r : List Key) (keys : List String) :
    lpiLoop pre after l r keys = lpiLoop pre after 0 r keys := by
  induction r generalizing keys with
  | nil => simp [lpiLoop]
  | cons k r ih =>
    have h1 : ¬ (l > 0 ∧ (keys.length : Int) ≥ l) := by omega
    have h2 : ¬ ((0 : Int) > 0 ∧ (keys.length : Int) ≥ 0) := by omega
    simp only [lpiLoop, h1, h2, if_false]
    repeat' split
    all_goals exact ih _

theorem lpiLoop_extends (pre after : String) (r : List Key) (keys : List String) :
    ∃ x, lpiLoop pre after 0 r keys = keys ++ x := by
  induction r generalizing keys with
  | nil => exact ⟨[], by simp [lpiLoop]⟩
  | cons k r ih =>
    have h2 : ¬ ((0 : Int) > 0 ∧ (keys.length : Int) ≥ 0) := by omega
    simp only [lpiLoop, h2, if_false]
    repeat' split
    all_goals first
      | exact ih keys
      | (obtain ⟨x, hx⟩ := ih (keys ++ [_]); exact ⟨_, by rw [hx, List.append_assoc]⟩)

theorem lpiLoop_take (pre after : String) (l : Int) (hl : l > 0) (r : List Key) (keys : List String)
    (hk : (keys.length : Int) ≤ l) :
    lpiLoop pre after l r keys = (lpiLoop pre after 0 r keys).take l.toNat := by
  induction r generalizing keys with
  | nil =>
    simp only [lpiLoop]
    rw [List.take_of_length_le]; omega
  | cons k r ih =>
    by_cases hfull : (keys.length : Int) ≥ l
    · obtain ⟨x, hx⟩ := lpiLoop_extends pre after (k :: r) keys
      have h1 : l > 0 ∧ (keys.length : Int) ≥ l := ⟨hl, hfull⟩
      have hlen : keys.length = l.toNat := by omega
      rw [hx]
      simp only [lpiLoop, h1, and_self, if_true]
      rw [List.take_append_of_le_length (by omega), List.take_of_length_le (by omega)]
    · have h1 : ¬ (l > 0 ∧ (keys.length : Int) ≥ l) := fun h => hfull h.2
      have h2 : ¬ ((0 : Int) > 0 ∧ (keys.length : Int) ≥ 0) := by omega
      have hk' : ∀ x : String, ((keys ++ [x]).length : Int) ≤ l := by
        intro x; simp only [List.length_append, List.length_cons, List.length_nil]; omega
      simp only [lpiLoop, h1, h2, if_false]
      repeat' split
      all_goals first
        | exact ih keys hk
        | exact ih _ (hk' _)

theorem listPageInner_take (s : Store) (pre after : String) (l : Int) (hl : l > 0) :
    listPageInner s pre after l = (listPageInner s pre after 0).take l.toNat := by
  unfold listPageInner
  exact lpiLoop_take pre after l hl _ [] (by simp; omega)

theorem listPageInner_nonpos (s : Store) (pre after : String) (l : Int) (hl : l ≤ 0) :
    listPageInner s pre after l = listPageInner s pre after 0 := by
  unfold listPageInner
  exact lpiLoop_nonpos pre after l hl _ []

end Obao.RaftTxn

namespace Obao.RaftTxn
open Obao.SerialTxn

/-! ### system invariant: on a single node whose FSM keeps up, what was not written since a transaction began
is what its snapshot holds (this is what makes the fast-path bypass sound) -/

def WindowInv (s : RSys) (t : RTxn) : Prop :=
  t.start ≤ s.wlog.length ∧ ∀ k, modifiedIn (s.wlog.drop t.start) k = false → sget s.store k = sget t.snap k

def SysInv (s : RSys) : Prop :=
  ∀ id t, s.txns.lookup id = some t → t.finished = false → ReadsInv t ∧ WindowInv s t

theorem rlookup_setTxn_same (l : List (Nat × RTxn)) (id : Nat) (t : RTxn) : (setTxn l id t).lookup id = some t := by
  induction l with
  | nil => simp [setTxn, List.lookup]
  | cons x r ih =>
    obtain ⟨i, t'⟩ := x
    unfold setTxn
    split
    · simp [List.lookup]
    · rename_i h
      have : (id == i) = false := by simpa using (fun h' : id = i => h h'.symm)
      simp [List.lookup, this, ih]

theorem rlookup_setTxn_other (l : List (Nat × RTxn)) (id id' : Nat) (t : RTxn) (h : id' ≠ id) :
    (setTxn l id t).lookup id' = l.lookup id' := by
  induction l with
  | nil =>
    have : (id' == id) = false := by simpa using h
    simp [setTxn, List.lookup, this]
  | cons x r ih =>
    obtain ⟨i, t'⟩ := x
    unfold setTxn
    split
    · rename_i hi
      subst hi
      have : (id' == i) = false := by simpa using h
      simp [List.lookup, this]
    · simp only [List.lookup]
      split <;> simp [ih]

theorem start_apply (t : RTxn) (o : Op) : (t.apply o).1.start = t.start ∧ (t.apply o).1.finished = t.finished := by
  cases o with
  | get k =>
    simp only [RTxn.apply, RTxn.get]
    split
    · exact ⟨rfl, rfl⟩
    · split <;> exact ⟨rfl, rfl⟩
  | put k v =>
    simp only [RTxn.apply, RTxn.put]
    split
    · exact ⟨rfl, rfl⟩
    · split <;> exact ⟨rfl, rfl⟩
  | del k =>
    simp only [RTxn.apply, RTxn.delete]
    split
    · exact ⟨rfl, rfl⟩
    · split <;> exact ⟨rfl, rfl⟩
  | list p a l =>
    simp only [RTxn.apply, RTxn.listPage]
    split <;> exact ⟨rfl, rfl⟩

theorem modifiedIn_append (w : List (List Key)) (ks : List Key) (k : Key) :
    modifiedIn (w ++ [ks]) k = (modifiedIn w k || ks.contains k) := by
  simp [modifiedIn, List.any_append]

theorem applyUpdates_other (store : Store) (u : List (Key × Option Val)) (k : Key)
    (h : k ∉ u.map (·.1)) : sget (applyUpdates store u) k = sget store k := by
  induction u generalizing store with
  | nil => rfl
  | cons e r ih =>
    obtain ⟨k', ov⟩ := e
    have hk : k ≠ k' := by intro hk; apply h; simp [hk]
    have hr : k ∉ r.map (·.1) := by intro hr; apply h; simp [hr]
    cases ov with
    | none =>
      simp only [applyUpdates]
      rw [ih _ hr]; exact Obao.InmemTxn.sget_sdel_other _ _ _ hk
    | some v =>
      simp only [applyUpdates]
      rw [ih _ hr]; exact Obao.InmemTxn.sget_sput_other _ _ _ _ hk

theorem rcommit_cases (t : RTxn) (s : RSys) :
    (t.commit s).2.2.1.finished = true ∧
    (((t.commit s).1 = s.store ∧ (t.commit s).2.1 = s.wlog) ∨
     ((t.commit s).1 = applyUpdates s.store t.updates.reverse ∧
      (t.commit s).2.1 = s.wlog ++ [t.updates.map (·.1)] ∧ (t.commit s).2.2.2 = .ok ∧
      t.finished = false ∧ t.writable = true ∧ t.haveWritten = true ∧
      (t.reads.all (verifyRead s.store (s.wlog.drop t.start)) &&
        t.lists.all (verifyList s.store (s.wlog.drop t.start))) = true)) ∧
    ((t.commit s).2.2.2 = .ok → t.finished = false ∧
      ((t.writable = false ∨ t.haveWritten = false) ∨
       (t.reads.all (verifyRead s.store (s.wlog.drop t.start)) &&
        t.lists.all (verifyList s.store (s.wlog.drop t.start))) = true)) := by
  unfold RTxn.commit
  by_cases hf : t.finished = true
  · simp [hf]
  · have hf' : t.finished = false := by simpa using hf
    by_cases hw : t.writable = true
    · by_cases hh : t.haveWritten = true
      · by_cases hv : (t.reads.all (verifyRead s.store (s.wlog.drop t.start)) &&
            t.lists.all (verifyList s.store (s.wlog.drop t.start))) = true
        · simp [hf', hw, hh, hv]
        · simp [hf', hw, hh, hv]
      · have hh' : t.haveWritten = false := by simpa using hh
        simp [hf', hw, hh']
    · have hw' : t.writable = false := by simpa using hw
      simp [hf', hw']

/-- a write entry with write set `ks` and a store change confined to `ks` preserves every open transaction's
    window invariant -/
theorem windowInv_write (s : RSys) (t : RTxn) (store' : Store) (ks : List Key) (h : WindowInv s t)
    (hs : ∀ k, ks.contains k = false → sget store' k = sget s.store k) :
    WindowInv { s with store := store', wlog := s.wlog ++ [ks] } t := by
  obtain ⟨hle, hw⟩ := h
  refine ⟨by simp only [List.length_append]; omega, ?_⟩
  intro k hk
  simp only [List.drop_append_of_le_length hle, modifiedIn_append, Bool.or_eq_false_iff] at hk
  rw [hs k hk.2]; exact hw k hk.1

theorem sysInv_step (s s' : RSys) (e : Event) (r : Res) (h : s.step e = some (s', r)) (hi : SysInv s) : SysInv s' := by
  cases e with
  | begin id w =>
    simp only [RSys.step] at h
    split at h
    · cases h
    · cases h
      intro id' t ht hf
      by_cases hid : id' = id
      · subst hid
        simp only [rlookup_setTxn_same] at ht; cases ht
        refine ⟨by intro r hr; simp [beginTx] at hr, by simp [beginTx], ?_⟩
        intro k _; simp [beginTx]
      · simp only [rlookup_setTxn_other _ _ _ _ hid] at ht
        exact hi id' t ht hf
  | op id o =>
    simp only [RSys.step] at h
    split at h
    · cases h
    · rename_i t0 ht0
      cases h
      intro id' t ht hf
      by_cases hid : id' = id
      · subst hid
        simp only [rlookup_setTxn_same] at ht; cases ht
        have hf0 : t0.finished = false := by rw [← (start_apply t0 o).2]; exact hf
        obtain ⟨ri, wi⟩ := hi id' t0 ht0 hf0
        refine ⟨readsInv_apply t0 o ri, ?_⟩
        unfold WindowInv
        rw [(start_apply t0 o).1, (snap_apply t0 o).1]
        exact wi
      · simp only [rlookup_setTxn_other _ _ _ _ hid] at ht
        exact hi id' t ht hf
  | rollback id =>
    simp only [RSys.step] at h
    split at h
    · cases h
    · rename_i t0 ht0
      cases h
      intro id' t ht hf
      by_cases hid : id' = id
      · subst hid
        simp only [rlookup_setTxn_same] at ht; cases ht
        unfold RTxn.rollback at hf
        split at hf
        · rename_i h0; simp [h0] at hf
        · simp at hf
      · simp only [rlookup_setTxn_other _ _ _ _ hid] at ht
        exact hi id' t ht hf
  | plain o =>
    simp only [RSys.step] at h
    cases o with
    | get k => simp only at h; cases h; exact hi
    | list p a l => simp only at h; cases h; exact hi
    | put k v =>
      simp only at h; cases h
      intro id' t ht hf
      obtain ⟨ri, wi⟩ := hi id' t ht hf
      refine ⟨ri, windowInv_write s t _ [k] wi ?_⟩
      intro k' hk'
      have : k' ≠ k := by intro h'; subst h'; simp at hk'
      exact applyUpdates_other s.store [(k, some v)] k' (by simpa using this)
    | del k =>
      simp only at h; cases h
      intro id' t ht hf
      obtain ⟨ri, wi⟩ := hi id' t ht hf
      refine ⟨ri, windowInv_write s t _ [k] wi ?_⟩
      intro k' hk'
      have : k' ≠ k := by intro h'; subst h'; simp at hk'
      exact applyUpdates_other s.store [(k, none)] k' (by simpa using this)
  | commit id =>
    simp only [RSys.step] at h
    split at h
    · cases h
    · rename_i t0 ht0
      cases h
      obtain ⟨hfin, hcases, _⟩ := rcommit_cases t0 s
      intro id' t ht hf
      by_cases hid : id' = id
      · subst hid
        simp only [rlookup_setTxn_same] at ht; cases ht
        rw [hfin] at hf; cases hf
      · simp only [rlookup_setTxn_other _ _ _ _ hid] at ht
        obtain ⟨ri, wi⟩ := hi id' t ht hf
        refine ⟨ri, ?_⟩
        rcases hcases with ⟨h1, h2⟩ | ⟨h1, h2, _⟩
        · unfold WindowInv; rw [h1, h2]; exact wi
        · unfold WindowInv; simp only [h1, h2]
          apply windowInv_write s t _ _ wi
          intro k hk
          apply applyUpdates_other
          intro hmem
          have : (t0.updates.map (·.1)).contains k = true := by
            simp only [List.map_reverse, List.mem_reverse] at hmem
            simpa using hmem
          rw [this] at hk; cases hk

theorem sysInv_run (s : RSys) (es : List Event) (hi : SysInv s) : SysInv (s.run es) := by
  induction es generalizing s with
  | nil => exact hi
  | cons e es ih =>
    simp only [RSys.run]
    cases hs : s.step e with
    | none => exact ih s hi
    | some sr => obtain ⟨s', r⟩ := sr; exact ih s' (sysInv_step s s' e r hs hi)

theorem sysInv_init : SysInv RSys.init := by
  intro id t h; simp [RSys.init, List.lookup] at h

end Obao.RaftTxn
