import Obao.Proofs.SealKeys
/-! C10 — every barrier operation preserves the consistency invariant (part 2: per-operation lemmas). -/
namespace Obao.SealKeys

/-- "holds no key material while sealed" -/
def SealedIff (b : Barrier) : Prop := b.sealed = true ↔ b.keyring = none

/-- the in-memory keyring of a barrier knows only term keys of the stored keyring `KR`, its active term is its
largest term and has a key, and its root key is one the operator supplied (`S`) -/
def SubK (S : List Key) (b : Barrier) (KR : Keyring) : Prop :=
  ∀ kr, b.keyring = some kr →
    kr.Sub KR ∧ (∀ t k, kr.termKey t = some k → t ≤ kr.active) ∧ (∃ k, kr.termKey kr.active = some k) ∧ kr.root ∈ S

/-- the ACTIVE node's in-memory keyring has exactly the stored terms -/
def SyncK (b : Barrier) (KR : Keyring) : Prop :=
  ∀ kr, b.keyring = some kr → kr.keys = KR.keys ∧ kr.active = KR.active

/-- the three barrier invariants only look at `sealed` and `keyring` (not at the bookkeeping flags) -/
theorem SealedIff.flags {b b' : Barrier} (h : SealedIff b) (hs : b'.sealed = b.sealed) (hk : b'.keyring = b.keyring) :
    SealedIff b' := by unfold SealedIff at *; rw [hs, hk]; exact h
theorem SubK.flags {S KR} {b b' : Barrier} (h : SubK S b KR) (hk : b'.keyring = b.keyring) : SubK S b' KR := by
  intro kr hkr; rw [hk] at hkr; exact h kr hkr
theorem SyncK.flags {KR} {b b' : Barrier} (h : SyncK b KR) (hk : b'.keyring = b.keyring) : SyncK b' KR := by
  intro kr hkr; rw [hk] at hkr; exact h kr hkr

def opKeys : Op → List Key
  | .init k _ => [k]
  | .rotroot k => [k]
  | .setroot k => [k]
  | _ => []

def Concl (S' : List Key) (p' : Phys) (sh' : List (String × String)) (rk : Key) (KR : Keyring) (b b' : Barrier) : Prop :=
  PInv p' sh' rk KR ∧ Coherent p' rk KR ∧ SealedIff b' ∧ SubK S' b' KR ∧ (SyncK b KR → SyncK b' KR)

theorem SubK.mono {S S' b KR} (h : SubK S b KR) (hs : ∀ k, k ∈ S → k ∈ S') : SubK S' b KR := by
  intro kr hkr
  obtain ⟨h1, h2, h3, h4⟩ := h kr hkr
  exact ⟨h1, h2, h3, hs _ h4⟩

theorem SubK.grow {S b KR KR'} (h : SubK S b KR) (hs : KR.Sub KR') : SubK S b KR' := by
  intro kr hkr
  obtain ⟨h1, h2, h3, h4⟩ := h kr hkr
  exact ⟨fun t k hk => hs _ _ (h1 _ _ hk), h2, h3, h4⟩

theorem concl_same {S S' p sh rk KR b} (h : PInv p sh rk KR) (hc : Coherent p rk KR) (hsi : SealedIff b)
    (hsub : SubK S b KR) (hs : ∀ k, k ∈ S → k ∈ S') : Concl S' p sh rk KR b b :=
  ⟨h, hc, hsi, hsub.mono hs, fun x => x⟩

theorem subK_self {S rk KR} (hwf : KR.WF) (hr : KR.root = rk) (hrk : rk ∈ S) (b : Barrier) :
    SubK S { b with sealed := false, keyring := some KR } KR := by
  intro kr hkr
  simp at hkr; subst hkr
  exact ⟨fun _ _ h => h, fun t k h => (hwf.2 t k h).2.1, hwf.1, hr ▸ hrk⟩

theorem Coherent.put_other {p rk KR} (h : Coherent p rk KR) (q : Path) (e : PEntry) (hq : q ≠ .rootKey) :
    Coherent (p.put q e) rk KR := by
  obtain ⟨ak, h1, h2⟩ := h
  exact ⟨ak, h1, by rw [get_put_other _ _ _ _ (Ne.symm hq)]; exact h2⟩

theorem Coherent.del_other {p rk KR} (h : Coherent p rk KR) (q : Path) (hq : q ≠ .rootKey) :
    Coherent (p.del q) rk KR := by
  obtain ⟨ak, h1, h2⟩ := h
  exact ⟨ak, h1, by rw [get_del_other _ _ _ (Ne.symm hq)]; exact h2⟩

theorem unsealed_has_keyring {b : Barrier} (hsi : SealedIff b) (hs : ¬ b.sealed = true) : ∃ kr, b.keyring = some kr := by
  cases hk : b.keyring with
  | none => exact absurd (hsi.mpr hk) hs
  | some kr => exact ⟨kr, rfl⟩

theorem keyring_unsealed {b : Barrier} (hsi : SealedIff b) {kr} (hk : b.keyring = some kr) : b.sealed = false := by
  cases hs : b.sealed with
  | false => rfl
  | true => have := hsi.mp hs; rw [hk] at this; cases this

section ops
variable {p : Phys} {sh : List (String × String)} {rk : Key} {KR : Keyring} {S : List Key}
variable (ns : Bool) (fk : Key) (b : Barrier)
variable (h : PInv p sh rk KR) (hc : Coherent p rk KR) (hrk : rk ∈ S) (hsi : SealedIff b) (hsub : SubK S b KR)
include h hc hrk hsi hsub

theorem step_unseal (k : Key) :
    let e := step ns p b fk (.unsealB k)
    Concl S (applyWrites p e.writes) (updShadow sh (.unsealB k) e.res) rk KR b e.bar := by
  simp only [step, updShadow]
  by_cases hs : b.sealed = true
  · by_cases hk : k.aesOK = true
    · by_cases hkk : rk = k
      · subst hkk
        simp [hs, hk, h.kr, applyWrites]
        refine ⟨h, hc, ?_, subK_self h.wf h.root hrk b, ?_⟩
        · simp [SealedIff]
        · intro _ kr hkr; simp at hkr; subst hkr; exact ⟨rfl, rfl⟩
      · simp [hs, hk, h.kr, hkk, applyWrites]
        exact concl_same h hc hsi hsub (fun _ x => x)
    · simp [hs, hk, applyWrites]
      exact concl_same h hc hsi hsub (fun _ x => x)
  · simp [hs, applyWrites]
    exact concl_same h hc hsi hsub (fun _ x => x)

theorem step_seal :
    let e := step ns p b fk .sealB
    Concl S (applyWrites p e.writes) (updShadow sh .sealB e.res) rk KR b e.bar := by
  simp only [step, updShadow, applyWrites, List.foldl]
  refine ⟨h, hc, ?_, ?_, ?_⟩
  · simp [SealedIff]
  · intro kr hkr; simp at hkr
  · intro _ kr hkr; simp at hkr

theorem step_put (s v : String) :
    let e := step ns p b fk (.put s v)
    Concl S (applyWrites p e.writes) (updShadow sh (.put s v) e.res) rk KR b e.bar := by
  simp only [step]
  by_cases hs : b.sealed = true
  · simp [hs, applyWrites, updShadow]
    exact concl_same h hc hsi hsub (fun _ x => x)
  · obtain ⟨kr, hkr⟩ := unsealed_has_keyring hsi hs
    obtain ⟨h1, _, ⟨ak, h3⟩, _⟩ := hsub kr hkr
    have hak : ak.aesOK = true := (h.wf.2 _ _ (h1 _ _ h3)).1
    simp [hs, hkr, h3, hak, applyWrites, applyWrite, updShadow]
    exact ⟨h.put_data s v kr.active ak (h1 _ _ h3), hc.put_other _ _ (by simp), hsi.flags (by first | rfl | (simp only [hkr]; done) | simpa using hs | simp_all) (by first | rfl | (simp only [hkr]; done) | simpa using hs | simp_all), hsub.flags (by first | rfl | (simp only [hkr]; done) | simpa using hs | simp_all),
      fun x => x.flags (by first | rfl | (simp only [hkr]; done) | simpa using hs | simp_all)⟩

theorem step_get (q : Path) :
    let e := step ns p b fk (.get q)
    Concl S (applyWrites p e.writes) (updShadow sh (.get q) e.res) rk KR b e.bar := by
  simp only [step]
  by_cases hs : b.sealed = true <;> simp [hs, applyWrites, updShadow] <;>
    exact concl_same h hc hsi hsub (fun _ x => x)

theorem step_del (s : String) :
    let e := step ns p b fk (.del s)
    Concl S (applyWrites p e.writes) (updShadow sh (.del s) e.res) rk KR b e.bar := by
  simp only [step]
  by_cases hs : b.sealed = true
  · simp [hs, applyWrites, updShadow]
    exact concl_same h hc hsi hsub (fun _ x => x)
  · simp [hs, applyWrites, applyWrite, updShadow]
    exact ⟨h.del_data s, hc.del_other _ (by simp), hsi, hsub, fun x => x⟩

theorem step_list :
    let e := step ns p b fk .list
    Concl S (applyWrites p e.writes) (updShadow sh .list e.res) rk KR b e.bar := by
  simp only [step]
  by_cases hs : b.sealed = true <;> simp [hs, applyWrites, updShadow] <;>
    exact concl_same h hc hsi hsub (fun _ x => x)

theorem step_verifyroot (k : Key) :
    let e := step ns p b fk (.verifyroot k)
    Concl S (applyWrites p e.writes) (updShadow sh (.verifyroot k) e.res) rk KR b e.bar := by
  simp only [step]
  by_cases hs : b.sealed = true
  · simp [hs, applyWrites, updShadow]; exact concl_same h hc hsi hsub (fun _ x => x)
  · obtain ⟨kr, hkr⟩ := unsealed_has_keyring hsi hs
    simp [hs, hkr]
    split <;> simp [applyWrites, updShadow] <;> exact concl_same h hc hsi hsub (fun _ x => x)

theorem step_keyinfo :
    let e := step ns p b fk .keyinfo
    Concl S (applyWrites p e.writes) (updShadow sh .keyinfo e.res) rk KR b e.bar := by
  simp only [step]
  by_cases hs : b.sealed = true
  · simp [hs, applyWrites, updShadow]; exact concl_same h hc hsi hsub (fun _ x => x)
  · obtain ⟨kr, hkr⟩ := unsealed_has_keyring hsi hs
    simp [hs, hkr, applyWrites, updShadow]; exact concl_same h hc hsi hsub (fun _ x => x)

end ops
section ops2
variable {p : Phys} {sh : List (String × String)} {rk : Key} {KR : Keyring} {S : List Key}
variable (ns : Bool) (fk : Key) (b : Barrier)
variable (h : PInv p sh rk KR) (hc : Coherent p rk KR) (hrk : rk ∈ S) (hsi : SealedIff b) (hsub : SubK S b KR)
include h hc hrk hsi hsub

theorem step_setroot (k : Key) :
    let e := step ns p b fk (.setroot k)
    Concl (S ++ [k]) (applyWrites p e.writes) (updShadow sh (.setroot k) e.res) rk KR b e.bar := by
  have mono : ∀ x, x ∈ S → x ∈ S ++ [k] := fun x hx => List.mem_append_left _ hx
  simp only [step]
  by_cases hs : b.sealed = true
  · simp [hs, applyWrites, updShadow]; exact concl_same h hc hsi hsub mono
  · obtain ⟨kr, hkr⟩ := unsealed_has_keyring hsi hs
    by_cases hk : k.sizeOK = true
    · simp [hs, hkr, hk, applyWrites, updShadow]
      obtain ⟨h1, h2, h3, _⟩ := hsub kr hkr
      refine ⟨h, hc, ?_, ?_, ?_⟩
      · simp [SealedIff] <;> simpa using hs
      · intro kr' hkr'; simp at hkr'; subst hkr'
        exact ⟨h1, h2, h3, by simp⟩
      · intro hsy kr' hkr'; simp at hkr'; subst hkr'; exact hsy kr hkr
    · simp [hs, hk, applyWrites, updShadow]; exact concl_same h hc hsi hsub mono

theorem step_reloadkr :
    let e := step ns p b fk .reloadkr
    Concl S (applyWrites p e.writes) (updShadow sh .reloadkr e.res) rk KR b e.bar := by
  simp only [step]
  cases hkr : b.keyring with
  | none => simp [applyWrites, updShadow]; exact concl_same h hc hsi hsub (fun _ x => x)
  | some kr =>
    have hs : b.sealed = false := keyring_unsealed hsi hkr
    by_cases hok : kr.root.aesOK = true
    · by_cases hkk : rk = kr.root
      · subst hkk
        simp [hok, h.kr, applyWrites, updShadow]
        refine ⟨h, hc, ?_, ?_, ?_⟩
        · simp [SealedIff, hs]
        · have := subK_self (S := S) h.wf h.root hrk b
          intro kr' hkr'; simp at hkr'; subst hkr'
          exact this KR (by simp)
        · intro _ kr' hkr'; simp at hkr'; subst hkr'; exact ⟨rfl, rfl⟩
      · simp [hok, h.kr, hkk, applyWrites, updShadow]; exact concl_same h hc hsi hsub (fun _ x => x)
    · simp [hok, applyWrites, updShadow]; exact concl_same h hc hsi hsub (fun _ x => x)

theorem step_reloadroot :
    let e := step ns p b fk .reloadroot
    Concl S (applyWrites p e.writes) (updShadow sh .reloadroot e.res) rk KR b e.bar := by
  simp only [step]
  by_cases hs : b.sealed = true
  · simp [hs, applyWrites, updShadow]; exact concl_same h hc hsi hsub (fun _ x => x)
  · obtain ⟨kr, hkr⟩ := unsealed_has_keyring hsi hs
    obtain ⟨h1, h2, h3, h4⟩ := hsub kr hkr
    obtain ⟨ak, hak, hre⟩ := hc
    cases htk : kr.termKey KR.active with
    | none =>
      simp [hs, hkr, readEntry, hre, htk, applyWrites, updShadow]
      exact concl_same h ⟨ak, hak, hre⟩ hsi hsub (fun _ x => x)
    | some k0 =>
      have : k0 = ak := by have := h1 _ _ htk; rw [hak] at this; cases this; rfl
      subst this
      by_cases hr : kr.root = rk
      · simp [hs, hkr, readEntry, hre, htk, hr, applyWrites, updShadow]
        exact concl_same h ⟨k0, hak, hre⟩ hsi hsub (fun _ x => x)
      · simp [hs, hkr, readEntry, hre, htk, hr, applyWrites, updShadow]
        refine ⟨h, ⟨k0, hak, hre⟩, ?_, ?_, ?_⟩
        · simp [SealedIff] <;> simpa using hs
        · intro kr' hkr'; simp at hkr'; subst hkr'; exact ⟨h1, h2, h3, hrk⟩
        · intro hsy kr' hkr'; simp at hkr'; subst hkr'; exact hsy kr hkr

theorem step_rmupgrade (t : Nat) :
    let e := step ns p b fk (.rmupgrade t)
    Concl S (applyWrites p e.writes) (updShadow sh (.rmupgrade t) e.res) rk KR b e.bar := by
  simp only [step]
  by_cases ht : t = 0
  · simp [ht, applyWrites, updShadow]; exact concl_same h hc hsi hsub (fun _ x => x)
  · by_cases hs : b.sealed = true
    · simp [ht, hs, applyWrites, updShadow]; exact concl_same h hc hsi hsub (fun _ x => x)
    · simp [ht, hs, applyWrites, applyWrite, updShadow]
      exact ⟨h.del_meta _ (by simp) (by simp) (by simp), hc.del_other _ (by simp), hsi, hsub, fun x => x⟩

theorem step_mkupgrade (t : Nat) :
    let e := step ns p b fk (.mkupgrade t)
    Concl S (applyWrites p e.writes) (updShadow sh (.mkupgrade t) e.res) rk KR b e.bar := by
  simp only [step]
  by_cases hs : b.sealed = true
  · simp [hs, applyWrites, updShadow]; exact concl_same h hc hsi hsub (fun _ x => x)
  · obtain ⟨kr, hkr⟩ := unsealed_has_keyring hsi hs
    obtain ⟨h1, _, _, _⟩ := hsub kr hkr
    by_cases ht : t = 0
    · simp [hs, hkr, ht, applyWrites, updShadow]; exact concl_same h hc hsi hsub (fun _ x => x)
    · cases htk : kr.termKey t with
      | none =>
        cases hpk : kr.termKey (t - 1) <;> simp [hs, hkr, ht, htk, hpk, applyWrites, updShadow] <;>
          exact concl_same h hc hsi hsub (fun _ x => x)
      | some tk =>
        cases hpk : kr.termKey (t - 1) with
        | none => simp [hs, hkr, ht, htk, hpk, applyWrites, updShadow]; exact concl_same h hc hsi hsub (fun _ x => x)
        | some pk =>
          by_cases hok : pk.aesOK = true
          · simp [hs, hkr, ht, htk, hpk, hok, applyWrites, applyWrite, updShadow]
            refine ⟨h.put_meta _ _ _ _ (by simp) (by simp) (h1 _ _ hpk) (by simp) ?_, hc.put_other _ _ (by simp),
              hsi.flags (by first | rfl | (simp only [hkr]; done) | simpa using hs | simp_all) (by first | rfl | (simp only [hkr]; done) | simpa using hs | simp_all), hsub.flags (by first | rfl | (simp only [hkr]; done) | simpa using hs | simp_all), fun x => x.flags (by first | rfl | (simp only [hkr]; done) | simpa using hs | simp_all)⟩
            intro u hu
            simp at hu
            have h1t : t - 1 + 1 = t := by omega
            refine ⟨hu, tk, ?_, ?_⟩
            · rw [← hu, h1t]
            · rw [← hu, h1t]; exact h1 _ _ htk
          · simp [hs, hkr, ht, htk, hpk, hok, applyWrites, updShadow]; exact concl_same h hc hsi hsub (fun _ x => x)

theorem step_chkupgrade :
    let e := step ns p b fk .chkupgrade
    Concl S (applyWrites p e.writes) (updShadow sh .chkupgrade e.res) rk KR b e.bar := by
  simp only [step]
  by_cases hs : b.sealed = true
  · simp [hs, applyWrites, updShadow]; exact concl_same h hc hsi hsub (fun _ x => x)
  · obtain ⟨kr, hkr⟩ := unsealed_has_keyring hsi hs
    obtain ⟨h1, h2, ⟨ak, h3⟩, h4⟩ := hsub kr hkr
    cases hg : p.get (.upgrade kr.active) with
    | none =>
      simp [hs, hkr, readEntry, hg, applyWrites, updShadow]; exact concl_same h hc hsi hsub (fun _ x => x)
    | some e =>
      obtain ⟨k, k', he, hk'⟩ := h.ups _ _ hg
      obtain ⟨t2, k2, pl2, he2, hk2⟩ := h.dec _ _ (by simp) (by simp) (by simp) hg
      rw [he] at he2; cases he2
      have hkak : ak = k := by have := h1 _ _ h3; rw [hk2] at this; cases this; rfl
      subst hkak
      have hnone : kr.termKey (kr.active + 1) = none := by
        cases hx : kr.termKey (kr.active + 1) with
        | none => rfl
        | some k0 => have := h2 _ _ hx; omega
      subst he
      simp [hs, hkr, readEntry, hg, h3, Keyring.addKey, hnone, applyWrites, updShadow]
      refine ⟨h, hc, ?_, ?_, ?_⟩
      · simp [SealedIff] <;> simpa using hs
      · intro kr' hkr'; simp at hkr'; subst hkr'
        refine ⟨?_, ?_, ?_, h4⟩
        · intro t k0 hk0
          rw [termKey_append kr _ _ _ k' hnone] at hk0
          by_cases ht : t = kr.active + 1
          · simp [ht] at hk0; subst hk0; subst ht; exact hk'
          · simp [ht] at hk0; exact h1 _ _ hk0
        · intro t k0 hk0
          rw [termKey_append kr _ _ _ k' hnone] at hk0
          by_cases ht : t = kr.active + 1
          · simp [ht]
          · simp [ht] at hk0; have := h2 _ _ hk0; simp only; omega
        · refine ⟨k', ?_⟩
          rw [termKey_append kr _ _ _ k' hnone]
          simp [Nat.max_eq_right (Nat.le_succ kr.active)]
      · intro hsy
        exfalso
        have ha := (hsy kr hkr).2
        have := (h.wf.2 _ _ hk').2.1
        omega

end ops2

theorem termKey_congr {kr kr' : Keyring} (h : kr.keys = kr'.keys) (t : Nat) : kr.termKey t = kr'.termKey t := by
  simp [Keyring.termKey, h]

theorem WF_congr {kr kr' : Keyring} (hk : kr.keys = kr'.keys) (ha : kr.active = kr'.active) (h : kr'.WF) : kr.WF := by
  obtain ⟨⟨ak, h1⟩, h2⟩ := h
  refine ⟨⟨ak, by rw [termKey_congr hk, ha]; exact h1⟩, ?_⟩
  intro t k hk'
  rw [termKey_congr hk] at hk'
  have := h2 t k hk'
  exact ⟨this.1, by omega, this.2.2⟩

/-- conclusion for the operations that persist a NEW keyring (only the active node runs them) -/
def ConclR (S' : List Key) (p' : Phys) (sh' : List (String × String)) (b' : Barrier) (KR : Keyring) : Prop :=
  ∃ rk' KR', PInv p' sh' rk' KR' ∧ Coherent p' rk' KR' ∧ rk' ∈ S' ∧ SealedIff b' ∧ SubK S' b' KR' ∧ SyncK b' KR' ∧ KR.Sub KR'

section ops3
variable {p : Phys} {sh : List (String × String)} {rk : Key} {KR : Keyring} {S : List Key}
variable (ns : Bool) (fk : Key) (b : Barrier)
variable (h : PInv p sh rk KR) (hc : Coherent p rk KR) (hrk : rk ∈ S) (hsi : SealedIff b) (hsub : SubK S b KR)
variable (hsy : SyncK b KR)
include h hc hrk hsi hsub hsy

theorem step_rotate (hfk : fk.aesOK = true) :
    let e := step ns p b fk .rotate
    ConclR S (applyWrites p e.writes) (updShadow sh .rotate e.res) e.bar KR := by
  have same : ConclR S p sh b KR := ⟨rk, KR, h, hc, hrk, hsi, hsub, hsy, fun _ _ x => x⟩
  simp only [step]
  by_cases hs : b.sealed = true
  · simp [hs, applyWrites, updShadow]; exact same
  · obtain ⟨kr, hkr⟩ := unsealed_has_keyring hsi hs
    obtain ⟨hk, ha⟩ := hsy kr hkr
    obtain ⟨_, _, _, h4⟩ := hsub kr hkr
    have krwf : kr.WF := WF_congr hk ha h.wf
    have hnone : kr.termKey (kr.active + 1) = none := by
      cases hx : kr.termKey (kr.active + 1) with
      | none => rfl
      | some k0 => have := (krwf.2 _ _ hx).2.1; omega
    have hact : ({ kr with keys := kr.keys ++ [(kr.active + 1, fk)], active := kr.active + 1 } : Keyring).termKey (kr.active + 1) = some fk := by
      rw [termKey_append kr _ _ _ fk hnone]; simp
    have hsubK : KR.Sub { kr with keys := kr.keys ++ [(kr.active + 1, fk)], active := kr.active + 1 } := by
      intro t k0 hk0
      rw [← termKey_congr hk] at hk0
      exact sub_next kr krwf fk t k0 hk0
    by_cases hroot : kr.root.aesOK = true
    · simp [hs, hkr, addKey_next kr krwf fk, persistNs_eq, hroot, hact, hfk, applyWrites, applyWrite, foldl_legacyDel, updShadow]
      refine ⟨kr.root, _, ?_, ?_, h4, ?_, ?_, ?_, hsubK⟩
      · exact ((h.put_keyring kr.root _ hsubK rfl hroot (wf_next kr krwf fk hfk)).put_meta .rootKey _ fk _
          (by simp) (by simp) hact (fun _ => ⟨_, rfl⟩) (by intro u hu; cases hu)).legTail ns
      · exact ⟨fk, hact, by rw [get_legTail_other _ _ _ (by simp), get_put_same]⟩
      · simp [SealedIff] <;> simpa using hs
      · intro kr' hkr'; simp at hkr'; subst hkr'
        have wf' := wf_next kr krwf fk hfk
        exact ⟨fun _ _ x => x, fun t k0 hk0 => (wf'.2 t k0 hk0).2.1, wf'.1, h4⟩
      · intro kr' hkr'; simp at hkr'; subst hkr'; exact ⟨rfl, rfl⟩
    · simp [hs, hkr, addKey_next kr krwf fk, persistNs_eq, hroot, applyWrites, updShadow]
      exact ⟨rk, KR, h, hc, hrk, hsi.flags (by first | rfl | (simp only [hkr]; done) | simpa using hs | simp_all) (by first | rfl | (simp only [hkr]; done) | simpa using hs | simp_all), hsub.flags (by first | rfl | (simp only [hkr]; done) | simpa using hs | simp_all), hsy.flags (by first | rfl | (simp only [hkr]; done) | simpa using hs | simp_all), fun _ _ x => x⟩

theorem step_rotroot (k : Key) :
    let e := step ns p b fk (.rotroot k)
    ConclR (S ++ [k]) (applyWrites p e.writes) (updShadow sh (.rotroot k) e.res) e.bar KR := by
  have mono : ∀ x, x ∈ S → x ∈ S ++ [k] := fun x hx => List.mem_append_left _ hx
  have same : ConclR (S ++ [k]) p sh b KR := ⟨rk, KR, h, hc, mono _ hrk, hsi, hsub.mono mono, hsy, fun _ _ x => x⟩
  simp only [step]
  by_cases hs : b.sealed = true
  · simp [hs, applyWrites, updShadow]; exact same
  · by_cases hsz : k.sizeOK = true
    · obtain ⟨kr, hkr⟩ := unsealed_has_keyring hsi hs
      obtain ⟨hk, ha⟩ := hsy kr hkr
      obtain ⟨_, _, _, h4⟩ := hsub kr hkr
      have krwf : kr.WF := WF_congr hk ha h.wf
      obtain ⟨ak, hak⟩ := krwf.1
      have hakok : ak.aesOK = true := (krwf.2 _ _ hak).1
      have hsubK : KR.Sub { kr with root := k } := by
        intro t k0 hk0
        rw [← termKey_congr hk] at hk0
        exact hk0
      have wf' : ({ kr with root := k } : Keyring).WF := WF_congr rfl rfl krwf
      have hak' : ({ kr with root := k } : Keyring).termKey kr.active = some ak := hak
      by_cases hroot : k.aesOK = true
      · simp [hs, hsz, hkr, persistNs_eq, hroot, hak', hakok, applyWrites, applyWrite, foldl_legacyDel, updShadow]
        refine ⟨k, _, ?_, ?_, by simp, ?_, ?_, ?_, hsubK⟩
        · exact ((h.put_keyring k _ hsubK rfl hroot wf').put_meta .rootKey _ ak _
            (by simp) (by simp) hak' (fun _ => ⟨_, rfl⟩) (by intro u hu; cases hu)).legTail ns
        · exact ⟨ak, hak', by rw [get_legTail_other _ _ _ (by simp), get_put_same]⟩
        · simp [SealedIff] <;> simpa using hs
        · intro kr' hkr'; simp at hkr'; subst hkr'
          exact ⟨fun _ _ x => x, fun t k0 hk0 => (wf'.2 t k0 hk0).2.1, wf'.1, by simp⟩
        · intro kr' hkr'; simp at hkr'; subst hkr'; exact ⟨rfl, rfl⟩
      · simp [hs, hsz, hkr, persistNs_eq, hroot, applyWrites, updShadow]
        exact ⟨rk, KR, h, hc, mono _ hrk, hsi.flags (by first | rfl | (simp only [hkr]; done) | simpa using hs | simp_all) (by first | rfl | (simp only [hkr]; done) | simpa using hs | simp_all), (hsub.mono mono).flags (by first | rfl | (simp only [hkr]; done) | simpa using hs | simp_all), hsy.flags (by first | rfl | (simp only [hkr]; done) | simpa using hs | simp_all), fun _ _ x => x⟩
    · simp [hs, hsz, applyWrites, updShadow]; exact same

end ops3


/-- re-persisting a keyring `nkr` that has the stored terms (the bookkeeping tick, `SetRotationConfig`): the store is
consistent again under `nkr.root`, with `nkr` as the stored keyring -/
theorem repersist {p : Phys} {sh : List (String × String)} {rk : Key} {KR : Keyring} (ns : Bool) (b : Barrier)
    (h : PInv p sh rk KR) (hsy : SyncK b KR) {kr : Keyring} (hkr : b.keyring = some kr) (nkr : Keyring) (hk : nkr.keys = kr.keys) (ha : nkr.active = kr.active)
    (hroot : nkr.root.aesOK = true) :
    ∃ ak, persistNs ns nkr = (.put .keyring (.enc 1 nkr.root .keyring (.keyring nkr)) ::
            .put .rootKey (.enc nkr.active ak .rootKey (.val (.keyrec 1 nkr.root))) :: legacyDel ns, .ok) ∧
      PInv (applyWrites p (persistNs ns nkr).1) sh nkr.root nkr ∧ Coherent (applyWrites p (persistNs ns nkr).1) nkr.root nkr ∧
      KR.Sub nkr ∧ nkr.WF := by
  obtain ⟨hk0, ha0⟩ := hsy kr hkr
  have wf' : nkr.WF := WF_congr (hk.trans hk0) (ha.trans ha0) h.wf
  obtain ⟨ak, hak⟩ := wf'.1
  have hakok : ak.aesOK = true := (wf'.2 _ _ hak).1
  have hsubK : KR.Sub nkr := by
    intro t k0 hk0'
    rw [← termKey_congr (hk.trans hk0)] at hk0'
    exact hk0'
  have hp : persistNs ns nkr = (.put .keyring (.enc 1 nkr.root .keyring (.keyring nkr)) ::
            .put .rootKey (.enc nkr.active ak .rootKey (.val (.keyrec 1 nkr.root))) :: legacyDel ns, .ok) := by
    simp [persistNs_eq, hroot, hak, hakok]
  refine ⟨ak, hp, ?_, ?_, hsubK, wf'⟩
  · rw [hp]
    simp only [applyWrites, List.foldl_cons, foldl_legacyDel, applyWrite]
    exact ((h.put_keyring nkr.root nkr hsubK rfl hroot wf').put_meta .rootKey _ ak _
      (by simp) (by simp) hak (fun _ => ⟨_, rfl⟩) (by intro u hu; cases hu)).legTail ns
  · rw [hp]
    simp only [applyWrites, List.foldl_cons, foldl_legacyDel, applyWrite]
    exact ⟨ak, hak, by rw [get_legTail_other _ _ _ (by simp), get_put_same]⟩


section ops4
variable {p : Phys} {sh : List (String × String)} {rk : Key} {KR : Keyring} {S : List Key}
variable (ns : Bool) (fk : Key) (b : Barrier)
variable (h : PInv p sh rk KR) (hc : Coherent p rk KR) (hrk : rk ∈ S) (hsi : SealedIff b) (hsub : SubK S b KR)
variable (hsy : SyncK b KR)
include h hc hrk hsi hsub hsy

theorem step_tick :
    let e := step ns p b fk .tick
    ConclR S (applyWrites p e.writes) (updShadow sh .tick e.res) e.bar KR := by
  have same : ConclR S p sh b KR := ⟨rk, KR, h, hc, hrk, hsi, hsub, hsy, fun _ _ x => x⟩
  simp only [step]
  cases hkr : b.keyring with
  | none => simp [applyWrites, updShadow]; exact same
  | some kr =>
    have hs : b.sealed = false := keyring_unsealed hsi hkr
    obtain ⟨_, h2, h3, h4⟩ := hsub kr hkr
    by_cases hhot : b.hot = true
    · simp [hhot, applyWrites, updShadow]; exact same
    · by_cases hd : b.dirty = true
      · by_cases hroot : kr.root.aesOK = true
        · obtain ⟨ak, hp, g1, g2, g3, g4⟩ := repersist ns b h hsy hkr kr rfl rfl hroot
          rw [hp] at g1 g2
          simp only [hhot, hs, hd, hp, updShadow]
          simp only [Bool.false_eq_true, if_false, Bool.not_true]
          refine ⟨kr.root, kr, g1, g2, h4, ?_, ?_, ?_, g3⟩
          · simp [SealedIff]
          · intro kr' hkr'; simp [hkr] at hkr'; subst hkr'
            exact ⟨fun _ _ x => x, h2, h3, h4⟩
          · intro kr' hkr'; simp [hkr] at hkr'; subst hkr'; exact ⟨rfl, rfl⟩
        · simp [hhot, hs, hd, persistNs_eq, hroot, applyWrites, updShadow]; exact same
      · simp [hhot, hs, hd, applyWrites, updShadow]; exact same

theorem step_setrot (d : Nat) :
    let e := step ns p b fk (.setrot d)
    ConclR S (applyWrites p e.writes) (updShadow sh (.setrot d) e.res) e.bar KR := by
  have same : ConclR S p sh b KR := ⟨rk, KR, h, hc, hrk, hsi, hsub, hsy, fun _ _ x => x⟩
  simp only [step]
  cases hkr : b.keyring with
  | none => simp [applyWrites, updShadow]; exact same
  | some kr =>
    have hs : b.sealed = false := keyring_unsealed hsi hkr
    obtain ⟨h1, h2, h3, h4⟩ := hsub kr hkr
    obtain ⟨hk0, ha0⟩ := hsy kr hkr
    by_cases hd : d = kr.rot
    · simp [hd, applyWrites, updShadow]; exact same
    · by_cases hroot : kr.root.aesOK = true
      · obtain ⟨ak, hp, g1, g2, g3, g4⟩ := repersist ns b h hsy hkr { kr with rot := d } rfl rfl hroot
        rw [hp] at g1 g2
        simp only [hd, hp, updShadow, if_false]
        refine ⟨kr.root, { kr with rot := d }, g1, g2, h4, ?_, ?_, ?_, g3⟩
        · simp [SealedIff, hs]
        · intro kr' hkr'; simp at hkr'; subst hkr'
          exact ⟨fun _ _ x => x, h2, h3, h4⟩
        · intro kr' hkr'; simp at hkr'; subst hkr'; exact ⟨rfl, rfl⟩
      · -- the root key is unusable: nothing is written, only the in-memory configuration changed
        simp [hd, persistNs_eq, hroot, applyWrites, updShadow]
        refine ⟨rk, KR, h, hc, hrk, ?_, ?_, ?_, fun _ _ x => x⟩
        · simp [SealedIff, hs]
        · intro kr' hkr'; simp at hkr'; subst hkr'
          exact ⟨h1, h2, h3, h4⟩
        · intro kr' hkr'; simp at hkr'; subst hkr'; exact ⟨hk0, ha0⟩

end ops4

theorem step_heat {p sh rk KR S} (ns : Bool) (fk : Key) (b : Barrier)
    (h : PInv p sh rk KR) (hc : Coherent p rk KR) (hsi : SealedIff b) (hsub : SubK S b KR) :
    let e := step ns p b fk .heat
    Concl S (applyWrites p e.writes) (updShadow sh .heat e.res) rk KR b e.bar := by
  simp only [step, updShadow, applyWrites, List.foldl_nil]
  exact ⟨h, hc, hsi.flags rfl rfl, hsub.flags rfl, fun x => x.flags rfl⟩

end Obao.SealKeys
