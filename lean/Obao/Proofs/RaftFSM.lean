import Obao.Model.RaftFSM
/-!
Helper lemmas for C09 (`Obao/Props/C09.lean`). Core Lean only.

Part 1: with the fast path disabled `applyBatch` is the reference fold, whatever tracker, latest index and
offsets are — hence independence of batching, restarts and snapshot installs.
Part 2: frame lemmas for the store and the listing.
Part 3: under tracker completeness the optimised step equals the reference step; the completeness invariant
along executions (watermark).
-/
namespace Obao.RaftFSM

/-! ## Part 1 — fast path disabled -/

theorem verifyOp_false (s : Store) (tr : Tracker) (cf : Bool) (st : Nat) (ops : List Op) (pos : Nat) (op : Op) :
    verifyOp false s tr cf st ops pos op = verifyOp false s [] false 0 ops pos op := by
  cases op <;> simp [verifyOp]

theorem verifyLoop_false (s : Store) (tr : Tracker) (cf : Bool) (st : Nat) (ops : List Op) (l : List Op) (pos : Nat) :
    verifyLoop false s tr cf st ops pos l = verifyLoop false s [] false 0 ops pos l := by
  induction l generalizing pos with
  | nil => rfl
  | cons op rest ih => simp only [verifyLoop]; rw [verifyOp_false, ih]

theorem applyEntry_false (s : Store) (tr : Tracker) (l0 off : Nat) (e : Entry) :
    (applyEntry false s tr l0 off e).1 = (refStep s e).1 ∧
    (applyEntry false s tr l0 off e).2.2 = (refStep s e).2 := by
  unfold applyEntry refStep
  cases e.cmd with
  | config => simp
  | data ops =>
    simp only [applyData, fullVerify]
    rw [verifyLoop_false]
    by_cases h1 : isTx ops = true
    · simp only [h1, if_true]
      by_cases h2 : verifyLoop false s [] false 0 ops 0 ops = true <;> simp [h2]
    · simp [h1]

theorem applyLoop_false (fastOf : Entry → Bool) (hf : ∀ e, fastOf e = false)
    (l0 : Nat) (es : List Entry) (off : Nat) (s : Store) (tr : Tracker) :
    (applyLoop fastOf l0 off s tr es).1 = refState s es ∧
    (applyLoop fastOf l0 off s tr es).2.2 = refVerdicts s es := by
  induction es generalizing off s tr with
  | nil => simp [applyLoop, refState, refVerdicts]
  | cons e es ih =>
    have h := applyEntry_false s tr l0 off e
    simp only [applyLoop, refState, refVerdicts, hf e]
    obtain ⟨a, b⟩ := ih (off + 1) (applyEntry false s tr l0 off e).1 (applyEntry false s tr l0 off e).2.1
    exact ⟨by rw [a, h.1], by rw [b, h.2, h.1]⟩

theorem applyBatch_false (fastOf : Entry → Bool) (hf : ∀ e, fastOf e = false) (r : Replica) (es : List Entry) :
    (applyBatch fastOf r es).1.kv = refState r.kv es ∧ (applyBatch fastOf r es).2 = refVerdicts r.kv es := by
  unfold applyBatch
  cases h : es.getLast? with
  | none =>
    have : es = [] := List.getLast?_eq_none_iff.mp h
    subst this
    simp [refState, refVerdicts]
  | some lastE =>
    have hl := applyLoop_false fastOf hf r.latest es 0 r.kv r.tracker
    simp only
    exact ⟨hl.1, hl.2⟩

theorem refState_append (s : Store) (a b : List Entry) :
    refState s (a ++ b) = refState (refState s a) b := by
  induction a generalizing s with
  | nil => rfl
  | cons e a ih => simp [refState, ih]

theorem refVerdicts_append (s : Store) (a b : List Entry) :
    refVerdicts s (a ++ b) = refVerdicts s a ++ refVerdicts (refState s a) b := by
  induction a generalizing s with
  | nil => rfl
  | cons e a ih => simp [refVerdicts, refState, ih]

theorem refVerdicts_length (s : Store) (a : List Entry) : (refVerdicts s a).length = a.length := by
  induction a generalizing s with
  | nil => rfl
  | cons e a ih => simp [refVerdicts, ih]

theorem zipPos_append (p : Nat) (a b : List Verdict) :
    zipPos p (a ++ b) = zipPos p a ++ zipPos (p + a.length) b := by
  induction a generalizing p with
  | nil => simp [zipPos]
  | cons v a ih =>
    simp only [List.cons_append, zipPos, ih, List.length_cons]
    rw [show p + 1 + a.length = p + (a.length + 1) by omega]

theorem mem_zipPos {p : Nat} {l : List Verdict} {x : Nat × Verdict} :
    x ∈ zipPos p l ↔ p ≤ x.1 ∧ l[x.1 - p]? = some x.2 := by
  induction l generalizing p with
  | nil => simp [zipPos]
  | cons v l ih =>
    simp only [zipPos, List.mem_cons, ih]
    constructor
    · rintro (rfl | ⟨h1, h2⟩)
      · simp
      · refine ⟨by omega, ?_⟩
        have : x.1 - p = (x.1 - (p + 1)) + 1 := by omega
        rw [this]; simpa using h2
    · rintro ⟨h1, h2⟩
      by_cases hx : x.1 = p
      · left
        have : x.1 - p = 0 := by omega
        rw [this] at h2
        simp at h2
        exact Prod.ext hx h2.symm
      · right
        refine ⟨by omega, ?_⟩
        have : x.1 - p = (x.1 - (p + 1)) + 1 := by omega
        rw [this] at h2; simpa using h2

/-- the slice handed to a replica as its next batch, and what remains -/
theorem log_split (log : List Entry) (p n : Nat) :
    log = log.take p ++ (log.drop p).take n ++ (log.drop p).drop n := by
  rw [List.append_assoc, List.take_append_drop, List.take_append_drop]

theorem take_batch (log : List Entry) (p n : Nat) (hp : p ≤ log.length) :
    log.take (p + ((log.drop p).take n).length) = log.take p ++ (log.drop p).take n := by
  rw [List.take_add]
  congr 1
  generalize log.drop p = l
  rw [List.length_take]
  by_cases h : n ≤ l.length
  · rw [Nat.min_eq_left h]
  · have h' : l.length ≤ n := by omega
    rw [Nat.min_eq_right h', List.take_of_length_le h', List.take_of_length_le (Nat.le_refl _)]

/-- what the theorems say about one replica of an execution: its data is the reference state of the prefix it
has consumed and every verdict it reported is the reference verdict of that log position -/
def NodeRef (log : List Entry) (nd : Node) : Prop :=
  nd.pos ≤ log.length ∧
  nd.rep.kv = refState [] (log.take nd.pos) ∧
  ∀ x ∈ nd.out, (refVerdicts [] log)[x.1]? = some x.2

theorem refVerdicts_take_getElem (log : List Entry) (p n : Nat) (hp : p ≤ log.length) (x : Nat × Verdict)
    (hx : x ∈ zipPos p (refVerdicts (refState [] (log.take p)) ((log.drop p).take n))) :
    (refVerdicts [] log)[x.1]? = some x.2 := by
  have hsplit := log_split log p n
  have hv : refVerdicts [] log =
      refVerdicts [] (log.take p) ++ (refVerdicts (refState [] (log.take p)) ((log.drop p).take n) ++
        refVerdicts (refState (refState [] (log.take p)) ((log.drop p).take n)) ((log.drop p).drop n)) := by
    conv => lhs; rw [hsplit]
    rw [List.append_assoc, refVerdicts_append, refVerdicts_append]
  obtain ⟨h1, h2⟩ := mem_zipPos.mp hx
  rw [hv]
  have hlen : (refVerdicts [] (log.take p)).length = p := by
    rw [refVerdicts_length, List.length_take, Nat.min_eq_left hp]
  have hlt : x.1 - p < (refVerdicts (refState [] (List.take p log)) (List.take n (List.drop p log))).length :=
    (List.getElem?_eq_some_iff.mp h2).1
  rw [List.getElem?_append_right (by omega), hlen, List.getElem?_append_left hlt]
  exact h2

theorem NodeRef_batch_false (log : List Entry) (nd : Node) (n : Nat) (h : NodeRef log nd) :
    NodeRef log (nd.batch .full log n) := by
  obtain ⟨hp, hkv, hout⟩ := h
  have hb := applyBatch_false (Mode.full.fastOf nd.wm) (fun _ => rfl) nd.rep ((log.drop nd.pos).take n)
  refine ⟨?_, ?_, ?_⟩
  · simp only [Node.batch, List.length_take, List.length_drop]; omega
  · simp only [Node.batch]
    rw [hb.1, hkv, take_batch log nd.pos n hp, refState_append]
  · intro x hx
    simp only [Node.batch, List.mem_append] at hx
    rcases hx with hx | hx
    · exact hout x hx
    · rw [hb.2, hkv] at hx
      exact refVerdicts_take_getElem log nd.pos n hp x hx

theorem NodeRef_restart (log : List Entry) (nd : Node) (h : NodeRef log nd) : NodeRef log nd.restart := by
  simpa [NodeRef, Node.restart, Replica.restart] using h

theorem NodeRef_install (log : List Entry) (nd src : Node) (h : NodeRef log nd) (hs : NodeRef log src) :
    NodeRef log (nd.install src) := by
  unfold Node.install
  by_cases hle : nd.pos ≤ src.pos
  · simp only [hle, if_true]
    exact ⟨hs.1, by simpa [Replica.install] using hs.2.1, h.2.2⟩
  · simpa [hle] using h

theorem sysStep_inv (fast : Mode) (log : List Entry) (P : Node → Prop)
    (hb : ∀ nd n, P nd → P (nd.batch fast log n))
    (hr : ∀ nd, P nd → P nd.restart)
    (hi : ∀ nd src, P nd → P src → P (nd.install src))
    (hl : ∀ nd low, P nd → P (nd.lclear low))
    (nodes : List Node) (ev : Ev)
    (h : ∀ nd ∈ nodes, P nd) : ∀ nd ∈ sysStep fast log nodes ev, P nd := by
  intro nd hnd
  cases ev with
  | batch r n =>
    simp only [sysStep] at hnd
    cases hr' : nodes[r]? with
    | none => rw [hr'] at hnd; exact h nd hnd
    | some x =>
      rw [hr'] at hnd
      rcases List.mem_or_eq_of_mem_set hnd with h1 | h1
      · exact h nd h1
      · subst h1; exact hb x n (h x (List.mem_of_getElem? hr'))
  | restart r =>
    simp only [sysStep] at hnd
    cases hr' : nodes[r]? with
    | none => rw [hr'] at hnd; exact h nd hnd
    | some x =>
      rw [hr'] at hnd
      rcases List.mem_or_eq_of_mem_set hnd with h1 | h1
      · exact h nd h1
      · subst h1; exact hr x (h x (List.mem_of_getElem? hr'))
  | snap d s =>
    simp only [sysStep] at hnd
    cases hd : nodes[d]? with
    | none => rw [hd] at hnd; exact h nd hnd
    | some x =>
      cases hs : nodes[s]? with
      | none => rw [hd, hs] at hnd; exact h nd hnd
      | some y =>
        rw [hd, hs] at hnd
        rcases List.mem_or_eq_of_mem_set hnd with h1 | h1
        · exact h nd h1
        · subst h1
          exact hi x y (h x (List.mem_of_getElem? hd)) (h y (List.mem_of_getElem? hs))
  | lclear r low =>
    simp only [sysStep] at hnd
    cases hr' : nodes[r]? with
    | none => rw [hr'] at hnd; exact h nd hnd
    | some x =>
      rw [hr'] at hnd
      rcases List.mem_or_eq_of_mem_set hnd with h1 | h1
      · exact h nd h1
      · subst h1; exact hl x low (h x (List.mem_of_getElem? hr'))

theorem sysRun_inv (fast : Mode) (log : List Entry) (P : Node → Prop)
    (hb : ∀ nd n, P nd → P (nd.batch fast log n))
    (hr : ∀ nd, P nd → P nd.restart)
    (hi : ∀ nd src, P nd → P src → P (nd.install src))
    (hl : ∀ nd low, P nd → P (nd.lclear low))
    (evs : List Ev) (nodes : List Node)
    (h : ∀ nd ∈ nodes, P nd) : ∀ nd ∈ sysRun fast log nodes evs, P nd := by
  induction evs generalizing nodes with
  | nil => exact h
  | cons ev evs ih => exact ih _ (sysStep_inv fast log P hb hr hi hl nodes ev h)

theorem NodeRef_fresh (log : List Entry) : NodeRef log Node.fresh := by
  simp [NodeRef, Node.fresh, Replica.fresh, refState]

theorem sysRun_false_inv (log : List Entry) (evs : List Ev) (nodes : List Node)
    (h : ∀ nd ∈ nodes, NodeRef log nd) : ∀ nd ∈ sysRun .full log nodes evs, NodeRef log nd :=
  sysRun_inv .full log (NodeRef log) (fun nd n => NodeRef_batch_false log nd n) (NodeRef_restart log)
    (NodeRef_install log) (fun nd low hn => by simpa [NodeRef, Node.lclear] using hn) evs nodes h

/-! ## Part 2 — frame lemmas -/

theorem get_put_ne (s : Store) (k k' : Key) (v : Val) (h : k' ≠ k) : get (put s k v) k' = get s k' := by
  induction s with
  | nil => simp [put, get, Ne.symm h]
  | cons p r ih =>
    obtain ⟨k0, v0⟩ := p
    simp only [put]
    by_cases h0 : k0 = k
    · subst h0; simp [get, Ne.symm h]
    · simp only [h0, if_false]
      by_cases h1 : bytesLt k k0 = true
      · simp [h1, get, Ne.symm h]
      · have h1' : bytesLt k k0 = false := by simpa using h1
        simp only [h1', Bool.false_eq_true, if_false, get, ih]

theorem get_del_ne (s : Store) (k k' : Key) (h : k' ≠ k) : get (del s k) k' = get s k' := by
  induction s with
  | nil => rfl
  | cons p r ih =>
    obtain ⟨k0, v0⟩ := p
    simp only [del]
    by_cases h0 : k0 = k
    · subst h0; simp [get, Ne.symm h, ih]
    · simp [h0, get, ih]

/-- the stored keys satisfying `P`, in bucket order -/
def pkeys (P : Key → Bool) (s : Store) : List Key := (keys s).filter P

theorem pkeys_put (P : Key → Bool) (s : Store) (k : Key) (v : Val) (h : P k = false) :
    pkeys P (put s k v) = pkeys P s := by
  induction s with
  | nil => simp [put, pkeys, keys, h]
  | cons p r ih =>
    obtain ⟨k0, v0⟩ := p
    simp only [put]
    by_cases h0 : k0 = k
    · subst h0; simp [pkeys, keys]
    · simp only [h0, if_false]
      by_cases h1 : bytesLt k k0 = true
      · simp [h1, pkeys, keys, h]
      · have h1' : bytesLt k k0 = false := by simpa using h1
        simp only [h1', Bool.false_eq_true, if_false]
        simp only [pkeys, keys, List.map_cons, List.filter_cons] at ih ⊢
        rw [ih]

theorem pkeys_del (P : Key → Bool) (s : Store) (k : Key) (h : P k = false) :
    pkeys P (del s k) = pkeys P s := by
  induction s with
  | nil => rfl
  | cons p r ih =>
    obtain ⟨k0, v0⟩ := p
    simp only [del]
    by_cases h0 : k0 = k
    · subst h0; simp only [if_true]; rw [ih]; simp [pkeys, keys, h]
    · simp only [h0, if_false]
      simp only [pkeys, keys, List.map_cons, List.filter_cons] at ih ⊢
      rw [ih]

theorem applyWrites_get (ops : List Op) (s : Store) (k0 : Key) (h : ∀ k ∈ writeKeys ops, k ≠ k0) :
    get (applyWrites s ops) k0 = get s k0 := by
  induction ops generalizing s with
  | nil => rfl
  | cons op r ih =>
    cases op <;> simp only [applyWrites, writeKeys, List.mem_cons, forall_eq_or_imp] at h ⊢
    case put k v => rw [ih _ h.2, get_put_ne _ _ _ _ (Ne.symm h.1)]
    case del k => rw [ih _ h.2, get_del_ne _ _ _ (Ne.symm h.1)]
    all_goals exact ih _ h

theorem applyWrites_pkeys (P : Key → Bool) (ops : List Op) (s : Store) (h : ∀ k ∈ writeKeys ops, P k = false) :
    pkeys P (applyWrites s ops) = pkeys P s := by
  induction ops generalizing s with
  | nil => rfl
  | cons op r ih =>
    cases op <;> simp only [applyWrites, writeKeys, List.mem_cons, forall_eq_or_imp] at h ⊢
    case put k v => rw [ih _ h.2, pkeys_put _ _ _ _ h.1]
    case del k => rw [ih _ h.2, pkeys_del _ _ _ h.1]
    all_goals exact ih _ h

theorem refStep_get (s : Store) (e : Entry) (k0 : Key) (h : ∀ k ∈ effKeys s e, k ≠ k0) :
    get (refStep s e).1 k0 = get s k0 := by
  unfold refStep; unfold effKeys at h
  cases hc : e.cmd with
  | config => rfl
  | data ops =>
    simp only [hc] at h ⊢
    by_cases h1 : isTx ops = true
    · simp only [h1, if_true] at h ⊢
      by_cases h2 : fullVerify s ops = true
      · simp only [h2, if_true] at h ⊢; exact applyWrites_get ops s k0 h
      · simp [h2]
    · simp only [h1] at h ⊢; exact applyWrites_get ops s k0 h

theorem refStep_pkeys (P : Key → Bool) (s : Store) (e : Entry) (h : ∀ k ∈ effKeys s e, P k = false) :
    pkeys P (refStep s e).1 = pkeys P s := by
  unfold refStep; unfold effKeys at h
  cases hc : e.cmd with
  | config => rfl
  | data ops =>
    simp only [hc] at h ⊢
    by_cases h1 : isTx ops = true
    · simp only [h1, if_true] at h ⊢
      by_cases h2 : fullVerify s ops = true
      · simp only [h2, if_true] at h ⊢; exact applyWrites_pkeys P ops s h
      · simp [h2]
    · simp only [h1] at h ⊢; exact applyWrites_pkeys P ops s h

/-- no entry of `mid`, applied by the reference semantics from `s0`, writes a key satisfying `P` -/
def NoEffWrite (P : Key → Prop) (s0 : Store) (mid : List Entry) : Prop :=
  ∀ a e b, mid = a ++ e :: b → ∀ k ∈ effKeys (refState s0 a) e, ¬ P k

theorem NoEffWrite_tail {P : Key → Prop} {s0 : Store} {e : Entry} {mid : List Entry}
    (h : NoEffWrite P s0 (e :: mid)) : NoEffWrite P (refStep s0 e).1 mid := by
  intro a e' b hm k hk
  exact h (e :: a) e' b (by rw [hm]; rfl) k (by simpa [refState] using hk)

theorem refState_get (mid : List Entry) (s0 : Store) (k0 : Key) (h : NoEffWrite (· = k0) s0 mid) :
    get (refState s0 mid) k0 = get s0 k0 := by
  induction mid generalizing s0 with
  | nil => rfl
  | cons e mid ih =>
    simp only [refState]
    rw [ih _ (NoEffWrite_tail h)]
    exact refStep_get s0 e k0 (fun k hk => h [] e mid rfl k (by simpa [refState] using hk))

theorem refState_pkeys (P : Key → Bool) (mid : List Entry) (s0 : Store) (h : NoEffWrite (P · = true) s0 mid) :
    pkeys P (refState s0 mid) = pkeys P s0 := by
  induction mid generalizing s0 with
  | nil => rfl
  | cons e mid ih =>
    simp only [refState]
    rw [ih _ (NoEffWrite_tail h)]
    refine refStep_pkeys P s0 e (fun k hk => ?_)
    have := h [] e mid rfl k (by simpa [refState] using hk)
    simpa using this

theorem listCands_eq (s : Store) (pfx after : Key) :
    listCands s pfx after = (pkeys (hasPrefix pfx) s).filter (bytesLe (seekKey pfx after)) := by
  simp [listCands, pkeys, List.filter_filter, Bool.and_comm]

theorem listPage_congr (s s' : Store) (pfx after : Key) (limit : Int)
    (h : pkeys (hasPrefix pfx) s = pkeys (hasPrefix pfx) s') : listPage s pfx after limit = listPage s' pfx after limit := by
  simp only [listPage, listCands_eq, h]

theorem readMatches_congr (s s' : Store) (k : Key) (obs : Option Val) (h : get s k = get s' k) :
    readMatches s k obs = readMatches s' k obs := by
  simp only [readMatches, h]

/-! ## Part 3 — the fast path under tracker completeness -/

/-- the tracker `tr` records, above index `start`, every key effectively written by the entries `mid` when the
reference semantics runs them from `s0` -/
def TrackerComplete (tr : Tracker) (s0 : Store) (mid : List Entry) (start : Nat) : Prop :=
  ∀ a e b, mid = a ++ e :: b → ∀ k ∈ effKeys (refState s0 a) e, ∃ p ∈ tr, start < p.1 ∧ k ∈ p.2

theorem hasModifiedEntry_of_mem {tr : Tracker} {start : Nat} {k : Key} {p : Nat × List Key}
    (hp : p ∈ tr) (h1 : start < p.1) (h2 : k ∈ p.2) : hasModifiedEntry tr start k = true := by
  simp only [hasModifiedEntry, List.any_eq_true]
  exact ⟨p, hp, by simp [h1, h2]⟩

theorem hasModifiedListEntry_of_mem {tr : Tracker} {start : Nat} {pfx k : Key} {p : Nat × List Key}
    (hp : p ∈ tr) (h1 : start < p.1) (h2 : k ∈ p.2) (hpk : hasPrefix pfx k = true) (hok : prefixOk pfx = true) :
    hasModifiedListEntry tr start pfx = true := by
  simp only [hasModifiedListEntry, List.any_eq_true]
  refine ⟨p, hp, ?_⟩
  have hn : normListKey pfx = pfx := by simpa [prefixOk] using hok
  simp only [h1, decide_true, Bool.true_and, List.any_eq_true]
  exact ⟨k, h2, by simp [hn, hpk]⟩

theorem verifyOp_fast_eq (s0 : Store) (mid : List Entry) (tr : Tracker) (cf : Bool) (start : Nat)
    (ops : List Op) (pos : Nat) (op : Op)
    (hobs : observedOp s0 op = true)
    (hpre : ∀ p a l obs, op = .vlist p a l obs → prefixOk p = true)
    (hcomp : TrackerComplete tr s0 mid start)
    (hcf : cf = true → mid = []) :
    verifyOp true (refState s0 mid) tr cf start ops pos op =
      verifyOp false (refState s0 mid) [] false 0 ops pos op := by
  cases op with
  | vread k obs =>
    simp only [verifyOp, Bool.true_and, Bool.false_and, Bool.false_or]
    by_cases hb : (cf || !hasModifiedEntry tr start k) = true
    · have hgoal : readMatches (refState s0 mid) k obs = true := by
        have h0 : readMatches s0 k obs = true := hobs
        rcases Bool.or_eq_true _ _ |>.mp hb with h | h
        · rw [hcf h]; exact h0
        · have hm : hasModifiedEntry tr start k = false := by simpa using h
          rw [readMatches_congr _ s0 k obs]
          · exact h0
          · apply refState_get
            intro a e b hsplit k' hk' heq
            obtain ⟨p, hp, h1, h2⟩ := hcomp a e b hsplit k' hk'
            rw [heq] at h2
            rw [hasModifiedEntry_of_mem hp h1 h2] at hm
            exact Bool.noConfusion hm
      simp [hb, hgoal]
    · have hb' : (cf || !hasModifiedEntry tr start k) = false := by simpa using hb
      simp [hb']
  | vlist pfx a l obs =>
    simp only [verifyOp, Bool.true_and, Bool.false_and, Bool.false_or]
    by_cases hb : (cf || !hasModifiedListEntry tr start pfx) = true
    · have hgoal : listMatches (refState s0 mid) pfx a l obs = true := by
        have h0 : listMatches s0 pfx a l obs = true := hobs
        rcases Bool.or_eq_true _ _ |>.mp hb with h | h
        · rw [hcf h]; exact h0
        · have hm : hasModifiedListEntry tr start pfx = false := by simpa using h
          have hpk : pkeys (hasPrefix pfx) (refState s0 mid) = pkeys (hasPrefix pfx) s0 := by
            apply refState_pkeys
            intro a' e b hsplit k' hk' hpre'
            obtain ⟨p, hp, h1, h2⟩ := hcomp a' e b hsplit k' hk'
            rw [hasModifiedListEntry_of_mem hp h1 h2 hpre' (hpre _ _ _ _ rfl)] at hm
            exact Bool.noConfusion hm
          simp only [listMatches, listPage_congr _ _ pfx a l hpk]
          exact h0
      simp [hb, hgoal]
    · have hb' : (cf || !hasModifiedListEntry tr start pfx) = false := by simpa using hb
      simp [hb']
  | _ => rfl

theorem verifyLoop_fast_eq (s0 : Store) (mid : List Entry) (tr : Tracker) (cf : Bool) (start : Nat)
    (ops : List Op)
    (hobs : observedAt s0 ops = true) (hpre : prefixesOk ops = true)
    (hcomp : TrackerComplete tr s0 mid start) (hcf : cf = true → mid = [])
    (l : List Op) (hl : ∀ op ∈ l, op ∈ ops) (pos : Nat) :
    verifyLoop true (refState s0 mid) tr cf start ops pos l =
      verifyLoop false (refState s0 mid) [] false 0 ops pos l := by
  induction l generalizing pos with
  | nil => rfl
  | cons op rest ih =>
    simp only [verifyLoop]
    have hmem : op ∈ ops := hl op (List.mem_cons_self)
    have h1 : observedOp s0 op = true := by
      have := List.all_eq_true.mp hobs op hmem
      exact this
    have h2 : ∀ p a l obs, op = .vlist p a l obs → prefixOk p = true := by
      intro p a l obs hop
      have := List.all_eq_true.mp hpre op hmem
      subst hop
      exact this
    rw [verifyOp_fast_eq s0 mid tr cf start ops pos op h1 h2 hcomp hcf,
        ih (fun o ho => hl o (List.mem_cons_of_mem _ ho))]

theorem fast_verify_eq (s0 : Store) (mid : List Entry) (tr : Tracker) (latest0 offset : Nat) (ops : List Op)
    (hobs : observedAt s0 ops = true) (hpre : prefixesOk ops = true)
    (hcomp : TrackerComplete tr s0 mid (txStart ops))
    (hcf : offset = 0 → latest0 = txStart ops → mid = []) :
    verifyLoop true (refState s0 mid) tr (offset == 0 && latest0 == txStart ops) (txStart ops) ops 0 ops
      = fullVerify (refState s0 mid) ops := by
  have hcf' : (offset == 0 && latest0 == txStart ops) = true → mid = [] := by
    intro hx
    simp only [Bool.and_eq_true, beq_iff_eq] at hx
    exact hcf hx.1 hx.2
  unfold fullVerify
  exact verifyLoop_fast_eq s0 mid tr _ (txStart ops) ops hobs hpre hcomp hcf' ops (fun _ h => h) 0

/-- the optimised application of one entry equals the reference step, provided — when the entry is a
transaction — its records were observed at `s0`, its list prefixes are well formed, the tracker is complete for
the entries `mid` applied since, and `canFastWrite` can only hold when nothing was applied since -/
theorem applyEntry_fast_eq (s0 : Store) (mid : List Entry) (tr : Tracker) (latest0 offset : Nat) (e : Entry)
    (h : ∀ ops, e.cmd = .data ops → isTx ops = true →
      observedAt s0 ops = true ∧ prefixesOk ops = true ∧ TrackerComplete tr s0 mid (txStart ops) ∧
      (offset = 0 → latest0 = txStart ops → mid = [])) :
    (applyEntry true (refState s0 mid) tr latest0 offset e).1 = (refStep (refState s0 mid) e).1 ∧
    (applyEntry true (refState s0 mid) tr latest0 offset e).2.2 = (refStep (refState s0 mid) e).2 := by
  unfold applyEntry refStep
  cases hc : e.cmd with
  | config => simp
  | data ops =>
    simp only [applyData]
    by_cases h1 : isTx ops = true
    · obtain ⟨hobs, hpre, hcomp, hcf⟩ := h ops hc h1
      rw [fast_verify_eq s0 mid tr latest0 offset ops hobs hpre hcomp hcf]
      simp only [h1, if_true]
      by_cases h2 : fullVerify (refState s0 mid) ops = true <;> simp [h2]
    · simp [h1]

/-! ## Part 4 — completeness along executions (watermark) -/

def Mono (log : List Entry) : Prop := List.Pairwise (fun a b => a.idx < b.idx) log

instance (log : List Entry) : Decidable (Mono log) := by unfold Mono; infer_instance

/-- the tracker records every effective write of the consumed entries `pre` whose index is above `wm` -/
def TrackInv (wm : Nat) (pre : List Entry) (tr : Tracker) : Prop :=
  ∀ a e b, pre = a ++ e :: b → wm < e.idx →
    ∀ k ∈ effKeys (refState [] a) e, ∃ p ∈ tr, p.1 = e.idx ∧ k ∈ p.2

theorem split_snoc {α : Type} (pre a b : List α) (e e' : α) (h : pre ++ [e] = a ++ e' :: b) :
    (b = [] ∧ a = pre ∧ e' = e) ∨ ∃ b', b = b' ++ [e] ∧ pre = a ++ e' :: b' := by
  rcases List.eq_nil_or_concat b with hb | ⟨b', x, hb⟩
  · subst hb
    have := List.append_inj' h (by simp)
    left
    exact ⟨rfl, this.1.symm, by simpa using this.2.symm⟩
  · right
    rw [List.concat_eq_append] at hb
    subst hb
    have h' : pre ++ [e] = (a ++ e' :: b') ++ [x] := by simpa using h
    have := List.append_inj' h' (by simp)
    refine ⟨b', ?_, this.1⟩
    have hx : e = x := by simpa using this.2
    rw [hx]

theorem mem_set {tr : Tracker} {i : Nat} {ks : List Key} {p : Nat × List Key} :
    p ∈ tr.set i ks ↔ p = (i, ks) ∨ (p ∈ tr ∧ p.1 ≠ i) := by
  simp [Tracker.set, List.mem_filter]

theorem mem_clear {tr : Tracker} {l : Nat} {p : Nat × List Key} :
    p ∈ tr.clear l ↔ p ∈ tr ∧ ¬ p.1 < l := by
  simp [Tracker.clear, List.mem_filter]

theorem TrackInv_snoc (wm : Nat) (pre : List Entry) (e : Entry) (tr tr' : Tracker)
    (hlt : ∀ e' ∈ pre, e'.idx < e.idx)
    (hold : ∀ p ∈ tr, p.1 ≠ e.idx → p ∈ tr')
    (hnew : wm < e.idx → ∀ k ∈ effKeys (refState [] pre) e, ∃ p ∈ tr', p.1 = e.idx ∧ k ∈ p.2)
    (h : TrackInv wm pre tr) : TrackInv wm (pre ++ [e]) tr' := by
  intro a e' b hsplit hwm k hk
  rcases split_snoc pre a b e e' hsplit with ⟨_, ha, he⟩ | ⟨b', _, hpre⟩
  · subst ha; subst he
    exact hnew hwm k hk
  · obtain ⟨p, hp, hp1, hp2⟩ := h a e' b' hpre hwm k hk
    have hmem : e' ∈ pre := by rw [hpre]; simp
    have : p.1 ≠ e.idx := by have := hlt e' hmem; omega
    exact ⟨p, hold p hp this, hp1, hp2⟩

theorem mono_split {pre post : List Entry} {e : Entry} (hm : Mono (pre ++ e :: post)) :
    ∀ e' ∈ pre, e'.idx < e.idx := by
  intro e' he'
  exact (List.pairwise_append.mp hm).2.2 e' he' e (List.mem_cons_self)

theorem mono_prefix {pre post : List Entry} (hm : Mono (pre ++ post)) : Mono pre :=
  (List.pairwise_append.mp hm).1

theorem lastIdx_snoc (l : List Entry) (e : Entry) : lastIdx (l ++ [e]) = e.idx := by
  simp [lastIdx, List.getLast?_concat]

theorem idx_le_lastIdx {pre : List Entry} (hm : Mono pre) {e : Entry} (he : e ∈ pre) : e.idx ≤ lastIdx pre := by
  rcases List.eq_nil_or_concat pre with hp | ⟨init, x, hp⟩
  · subst hp; simp at he
  · rw [List.concat_eq_append] at hp
    subst hp
    rw [lastIdx_snoc]
    rcases List.mem_append.mp he with h | h
    · have := (List.pairwise_append.mp hm).2.2 e h x (by simp)
      omega
    · have : e = x := by simpa using h
      subst this; exact Nat.le_refl _

theorem honestFrom_split (pre : List Entry) (acc : List Entry) (e : Entry) (post : List Entry)
    (h : honestFrom acc (pre ++ e :: post) = true) (ops : List Op) (hc : e.cmd = .data ops)
    (ht : isTx ops = true) : honestAt (acc ++ pre) ops = true := by
  induction pre generalizing acc with
  | nil =>
    simp only [List.nil_append, honestFrom, hc, Bool.and_eq_true, Bool.or_eq_true] at h
    rcases h.1 with h1 | h1
    · simp [ht] at h1
    · simpa using h1
  | cons x pre ih =>
    simp only [List.cons_append, honestFrom, Bool.and_eq_true] at h
    have := ih (acc ++ [x]) h.2
    simpa [List.append_assoc] using this

theorem honestAt_elim (pre : List Entry) (ops : List Op) (h : honestAt pre ops = true) :
    prefixesOk ops = true ∧ ∃ p1 mid, pre = p1 ++ mid ∧ observedAt (refState [] p1) ops = true ∧
      ∀ e' ∈ mid, txStart ops < e'.idx := by
  simp only [honestAt, Bool.and_eq_true, List.any_eq_true] at h
  obtain ⟨h1, j, _, h2, h3⟩ := h
  refine ⟨h1, pre.take j, pre.drop j, (List.take_append_drop j pre).symm, h2, ?_⟩
  intro e' he'
  have := List.all_eq_true.mp h3 e' he'
  simpa using this

/-- hypotheses on the committed log under which the partial theorems hold -/
structure LogOk (log : List Entry) : Prop where
  mono : Mono log
  single : plainSingle log = true
  honest : honestFrom [] log = true

theorem plainSingle_mem {log : List Entry} (h : plainSingle log = true) {e : Entry} (he : e ∈ log)
    {ops : List Op} (hc : e.cmd = .data ops) (ht : isTx ops = false) : (writeKeys ops).length ≤ 1 := by
  have := List.all_eq_true.mp h e he
  simp only [hc, ht, Bool.false_or, decide_eq_true_eq] at this
  exact this

theorem applyEntry_sound (log : List Entry) (hok : LogOk log) (latest0 wm : Nat) (fast : Bool)
    (pre : List Entry) (e : Entry) (post : List Entry) (off : Nat) (tr : Tracker)
    (hlog : log = pre ++ e :: post)
    (hoff : off = 0 → lastIdx pre = latest0)
    (hwm : fast = true → ∀ ops, e.cmd = .data ops → isTx ops = true → wm ≤ txStart ops)
    (hinv : TrackInv wm pre tr) :
    (applyEntry fast (refState [] pre) tr latest0 off e).1 = (refStep (refState [] pre) e).1 ∧
    (applyEntry fast (refState [] pre) tr latest0 off e).2.2 = (refStep (refState [] pre) e).2 ∧
    TrackInv wm (pre ++ [e]) (applyEntry fast (refState [] pre) tr latest0 off e).2.1 := by
  have hm : Mono (pre ++ e :: post) := hlog ▸ hok.mono
  have hlt := mono_split hm
  cases hc : e.cmd with
  | config =>
    refine ⟨by simp [applyEntry, refStep, hc], by simp [applyEntry, refStep, hc], ?_⟩
    simp only [applyEntry, hc]
    exact TrackInv_snoc wm pre e tr tr hlt (fun p hp _ => hp) (by simp [effKeys, hc]) hinv
  | data ops =>
    by_cases ht : isTx ops = true
    · -- transaction: the verification loop decides like full verification
      have hv : verifyLoop fast (refState [] pre) tr (off == 0 && latest0 == txStart ops) (txStart ops) ops 0 ops
          = fullVerify (refState [] pre) ops := by
        cases fast with
        | false => unfold fullVerify; exact verifyLoop_false _ _ _ _ _ _ _
        | true =>
          -- the honest-client split of the consumed prefix
          have hha := honestFrom_split pre [] e post (hlog ▸ hok.honest) ops hc ht
          simp only [List.nil_append] at hha
          obtain ⟨hpre, p1, mid, hsplit, hobs, hmid⟩ := honestAt_elim pre ops hha
          have hstart := hwm rfl ops hc ht
          have hcomp : TrackerComplete tr (refState [] p1) mid (txStart ops) := by
            intro a x b hx k hk
            have hxm : x ∈ mid := by rw [hx]; simp
            have hpre' : pre = (p1 ++ a) ++ x :: b := by rw [hsplit, hx]; simp
            have hk' : k ∈ effKeys (refState [] (p1 ++ a)) x := by rw [refState_append]; exact hk
            obtain ⟨p, hp, hp1, hp2⟩ := hinv (p1 ++ a) x b hpre' (by have := hmid x hxm; omega) k hk'
            exact ⟨p, hp, by have := hmid x hxm; omega, hp2⟩
          have hcf : off = 0 → latest0 = txStart ops → mid = [] := by
            intro h0 hl
            rcases List.eq_nil_or_concat mid with hnil | ⟨m', x, hx⟩
            · exact hnil
            · exfalso
              rw [List.concat_eq_append] at hx
              have h1 : lastIdx pre = x.idx := by
                rw [hsplit, hx, ← List.append_assoc, lastIdx_snoc]
              have h2 := hmid x (by rw [hx]; simp)
              have h3 := hoff h0
              omega
          have hs : refState [] pre = refState (refState [] p1) mid := by rw [hsplit, refState_append]
          have hv := fast_verify_eq (refState [] p1) mid tr latest0 off ops hobs hpre hcomp hcf
          rw [← hs] at hv
          exact hv
      simp only [applyEntry, refStep, hc, applyData, ht, if_true]
      rw [hv]
      by_cases h2 : fullVerify (refState [] pre) ops = true
      · simp only [h2, if_true, true_and]
        refine TrackInv_snoc wm pre e tr _ hlt (fun p hp hne => mem_set.mpr (Or.inr ⟨hp, hne⟩)) ?_ hinv
        intro _ k hk
        simp only [effKeys, hc, ht, h2, if_true] at hk
        exact ⟨(e.idx, writeKeys ops), mem_set.mpr (Or.inl rfl), rfl, hk⟩
      · have h2' : fullVerify (refState [] pre) ops = false := by simpa using h2
        simp only [h2', Bool.false_eq_true, if_false, true_and]
        refine TrackInv_snoc wm pre e tr tr hlt (fun p hp _ => hp) ?_ hinv
        intro _ k hk
        simp [effKeys, hc, ht, h2'] at hk
    · have ht' : isTx ops = false := by simpa using ht
      refine ⟨by simp [applyEntry, refStep, hc, applyData, ht'], by simp [applyEntry, refStep, hc, applyData, ht'], ?_⟩
      simp only [applyEntry, hc, applyData, ht']
      have hlen := plainSingle_mem hok.single (e := e) (by rw [hlog]; simp) hc ht'
      unfold plainTrack
      cases hw : writeKeys ops with
      | nil =>
        simp only [List.getLast?_nil]
        refine TrackInv_snoc wm pre e tr tr hlt (fun p hp _ => hp) ?_ hinv
        intro _ k hk
        simp [effKeys, hc, ht', hw] at hk
      | cons k0 rest =>
        have hrest : rest = [] := by
          rw [hw] at hlen
          simp only [List.length_cons] at hlen
          exact List.length_eq_zero_iff.mp (by omega)
        subst hrest
        simp only [List.getLast?_singleton]
        refine TrackInv_snoc wm pre e tr _ hlt (fun p hp hne => mem_set.mpr (Or.inr ⟨hp, hne⟩)) ?_ hinv
        intro _ k hk
        simp only [effKeys, hc, ht', hw] at hk
        exact ⟨(e.idx, [k0]), mem_set.mpr (Or.inl rfl), rfl, by simpa using hk⟩

/-- the per-entry guard of a batch: wherever the fast path is enabled for a transaction, the transaction
starts at or after the watermark -/
def Guarded (fastOf : Entry → Bool) (wm : Nat) (es : List Entry) : Prop :=
  ∀ e ∈ es, fastOf e = true → ∀ ops, e.cmd = .data ops → isTx ops = true → wm ≤ txStart ops

theorem guarded_of_batchOk {fastOf : Entry → Bool} {wm : Nat} {es : List Entry} (h : batchOk wm es = true) :
    Guarded fastOf wm es := by
  intro e he _ ops hc ht
  have := List.all_eq_true.mp h e he
  simp only [hc, ht, Bool.not_true, Bool.false_or, decide_eq_true_eq] at this
  exact this

theorem guarded_mode (wm : Nat) (es : List Entry) : Guarded (Mode.guarded.fastOf wm) wm es := by
  intro e _ hf ops hc _
  simp only [Mode.fastOf, hc, decide_eq_true_eq] at hf
  exact hf

theorem applyLoop_sound (log : List Entry) (hok : LogOk log) (fastOf : Entry → Bool) (latest0 wm : Nat)
    (es : List Entry) :
    ∀ (pre post : List Entry) (off : Nat) (tr : Tracker),
      log = pre ++ es ++ post →
      (off = 0 → lastIdx pre = latest0) →
      Guarded fastOf wm es →
      TrackInv wm pre tr →
      (applyLoop fastOf latest0 off (refState [] pre) tr es).1 = refState (refState [] pre) es ∧
      (applyLoop fastOf latest0 off (refState [] pre) tr es).2.2 = refVerdicts (refState [] pre) es ∧
      TrackInv wm (pre ++ es) (applyLoop fastOf latest0 off (refState [] pre) tr es).2.1 := by
  induction es with
  | nil =>
    intro pre post off tr _ _ _ hinv
    simpa [applyLoop, refState, refVerdicts] using hinv
  | cons e es ih =>
    intro pre post off tr hlog hoff hb hinv
    have hwm := hb e (List.mem_cons_self)
    have hb' : Guarded fastOf wm es := fun x hx => hb x (List.mem_cons_of_mem _ hx)
    have hlog1 : log = pre ++ e :: (es ++ post) := by rw [hlog]; simp
    obtain ⟨h1, h2, h3⟩ := applyEntry_sound log hok latest0 wm (fastOf e) pre e (es ++ post) off tr hlog1 hoff hwm hinv
    have hlog2 : log = (pre ++ [e]) ++ es ++ post := by rw [hlog]; simp
    have hst : refState [] (pre ++ [e]) = (refStep (refState [] pre) e).1 := by
      rw [refState_append]; rfl
    have ih' := ih (pre ++ [e]) post (off + 1) (applyEntry (fastOf e) (refState [] pre) tr latest0 off e).2.1
      hlog2 (by omega) hb' h3
    rw [hst] at ih'
    simp only [applyLoop, refState, refVerdicts]
    rw [h1]
    refine ⟨ih'.1, by rw [ih'.2.1, h2], ?_⟩
    have : pre ++ e :: es = pre ++ [e] ++ es := by simp
    rw [this]
    exact ih'.2.2

theorem TrackInv_clear {wm : Nat} {pre : List Entry} {tr : Tracker} (l : Nat) (h : TrackInv wm pre tr) :
    TrackInv (if wm < l - 1 then l - 1 else wm) pre (tr.clear l) := by
  intro a e b hsplit hwm k hk
  have hwm' : wm < e.idx ∧ l - 1 < e.idx := by
    by_cases hc : wm < l - 1
    · simp only [hc, if_true] at hwm; omega
    · simp only [hc, if_false] at hwm; omega
  obtain ⟨p, hp, hp1, hp2⟩ := h a e b hsplit hwm'.1 k hk
  exact ⟨p, mem_clear.mpr ⟨hp, by omega⟩, hp1, hp2⟩

theorem TrackInv_vacuous {pre : List Entry} (hm : Mono pre) (tr : Tracker) : TrackInv (lastIdx pre) pre tr := by
  intro a e b hsplit hwm
  have := idx_le_lastIdx hm (e := e) (by rw [hsplit]; simp)
  omega

/-! ### node level -/

theorem applyBatch_ne (fastOf : Entry → Bool) (r : Replica) (es : List Entry) (hne : es ≠ []) :
    applyBatch fastOf r es =
      ({ kv := (applyLoop fastOf r.latest 0 r.kv r.tracker es).1,
         latest := if r.latest < lastIdx es then lastIdx es else r.latest,
         tracker := match lastLow es with
           | some l => (applyLoop fastOf r.latest 0 r.kv r.tracker es).2.1.clear l
           | none => (applyLoop fastOf r.latest 0 r.kv r.tracker es).2.1,
         cfg := match lastConfig es with | some i => i | none => r.cfg },
       (applyLoop fastOf r.latest 0 r.kv r.tracker es).2.2) := by
  unfold applyBatch lastIdx
  cases h : es.getLast? with
  | none => exact absurd (List.getLast?_eq_none_iff.mp h) hne
  | some lastE => rfl

theorem lastIdx_le_of_mono {pre es : List Entry} (hm : Mono (pre ++ es)) {e : Entry} (he : e ∈ es) :
    lastIdx pre ≤ e.idx := by
  rcases List.eq_nil_or_concat pre with hp | ⟨init, x, hp⟩
  · subst hp; simp [lastIdx]
  · rw [List.concat_eq_append] at hp
    subst hp
    rw [lastIdx_snoc]
    have := (List.pairwise_append.mp hm).2.2 x (by simp) e he
    omega

theorem lastIdx_append_ne (pre es : List Entry) (hne : es ≠ []) : lastIdx (pre ++ es) = lastIdx es := by
  rcases List.eq_nil_or_concat es with h | ⟨init, x, h⟩
  · exact absurd h hne
  · rw [List.concat_eq_append] at h
    subst h
    rw [← List.append_assoc, lastIdx_snoc, lastIdx_snoc]

theorem mem_lastIdx {es : List Entry} (hne : es ≠ []) : ∃ x, x ∈ es ∧ x.idx = lastIdx es := by
  rcases List.eq_nil_or_concat es with h0 | ⟨init, x, h0⟩
  · exact absurd h0 hne
  · rw [List.concat_eq_append] at h0
    exact ⟨x, by rw [h0]; simp, by rw [h0, lastIdx_snoc]⟩

/-- position and latest index of a replica follow the log (any mode; only increasing indexes are needed) -/
structure NodePos (log : List Entry) (nd : Node) : Prop where
  pos_le : nd.pos ≤ log.length
  latest : nd.rep.latest = lastIdx (log.take nd.pos)

theorem batch_empty (m : Mode) (log : List Entry) (nd : Node) (n : Nat)
    (hne : (log.drop nd.pos).take n = []) :
    nd.batch m log n = { nd with out := nd.out ++ [], ok := nd.ok && true } := by
  simp [Node.batch, hne, applyBatch, zipPos, lastLow, batchOk]

theorem NodePos_batch (m : Mode) (log : List Entry) (hm : Mono log) (nd : Node) (n : Nat) (h : NodePos log nd) :
    NodePos log (nd.batch m log n) := by
  have hsplit := log_split log nd.pos n
  have htake := take_batch log nd.pos n h.pos_le
  by_cases hne : (log.drop nd.pos).take n = []
  · rw [batch_empty m log nd n hne]
    exact ⟨h.pos_le, h.latest⟩
  · have hmono : Mono (log.take nd.pos ++ (log.drop nd.pos).take n) := by
      rw [hsplit] at hm
      exact mono_prefix hm
    have hab := applyBatch_ne (m.fastOf nd.wm) nd.rep _ hne
    refine ⟨?_, ?_⟩
    · simp only [Node.batch, List.length_take, List.length_drop]; have := h.pos_le; omega
    · simp only [Node.batch]
      rw [hab, htake, lastIdx_append_ne _ _ hne, h.latest]
      simp only
      obtain ⟨x, hx⟩ := mem_lastIdx hne
      have := lastIdx_le_of_mono hmono hx.1
      rw [hx.2] at this
      split <;> omega

/-- one batch keeps a replica on the reference and its tracker complete above the watermark, provided the fast
path is only enabled for transactions that start at or after the watermark -/
theorem batch_good (m : Mode) (log : List Entry) (hok : LogOk log) (nd : Node) (n : Nat)
    (hp : NodePos log nd) (href : NodeRef log nd) (htr : TrackInv nd.wm (log.take nd.pos) nd.rep.tracker)
    (hg : Guarded (m.fastOf nd.wm) nd.wm ((log.drop nd.pos).take n)) :
    NodeRef log (nd.batch m log n) ∧
    TrackInv (nd.batch m log n).wm (log.take (nd.batch m log n).pos) (nd.batch m log n).rep.tracker := by
  have hsplit := log_split log nd.pos n
  have htake := take_batch log nd.pos n hp.pos_le
  by_cases hne : (log.drop nd.pos).take n = []
  · rw [batch_empty m log nd n hne]
    exact ⟨by simpa [NodeRef] using href, htr⟩
  · have hab := applyBatch_ne (m.fastOf nd.wm) nd.rep _ hne
    have hloop := applyLoop_sound log hok (m.fastOf nd.wm) nd.rep.latest nd.wm _ (log.take nd.pos)
      ((log.drop nd.pos).drop n) 0 nd.rep.tracker hsplit (fun _ => hp.latest.symm) hg htr
    rw [← href.2.1] at hloop
    refine ⟨⟨?_, ?_, ?_⟩, ?_⟩
    · simp only [Node.batch, List.length_take, List.length_drop]; have := hp.pos_le; omega
    · simp only [Node.batch]
      rw [hab, htake, refState_append, ← href.2.1]
      exact hloop.1
    · intro x hx
      simp only [Node.batch, List.mem_append] at hx
      rcases hx with hx | hx
      · exact href.2.2 x hx
      · rw [hab] at hx
        simp only at hx
        rw [hloop.2.1, href.2.1] at hx
        exact refVerdicts_take_getElem log nd.pos n hp.pos_le x hx
    · simp only [Node.batch]
      rw [hab, htake]
      simp only
      cases hl : lastLow ((log.drop nd.pos).take n) with
      | none => exact hloop.2.2
      | some l => exact TrackInv_clear l hloop.2.2

theorem mono_take {log : List Entry} (hm : Mono log) (p : Nat) : Mono (log.take p) := by
  rw [← List.take_append_drop p log] at hm
  exact mono_prefix hm

theorem NodePos_restart (log : List Entry) (nd : Node) (h : NodePos log nd) : NodePos log nd.restart :=
  ⟨h.pos_le, h.latest⟩

theorem NodePos_install (log : List Entry) (nd src : Node) (h : NodePos log nd) (hs : NodePos log src) :
    NodePos log (nd.install src) := by
  unfold Node.install
  by_cases hle : nd.pos ≤ src.pos
  · simp only [hle, if_true]
    exact ⟨hs.pos_le, by simpa [Replica.install] using hs.latest⟩
  · simpa [hle] using h

theorem NodePos_fresh (log : List Entry) : NodePos log Node.fresh :=
  ⟨by simp [Node.fresh], by simp [Node.fresh, Replica.fresh, lastIdx]⟩

theorem TrackInv_fresh (log : List Entry) : TrackInv Node.fresh.wm (log.take Node.fresh.pos) Node.fresh.rep.tracker := by
  intro a e b hsplit
  simp [Node.fresh] at hsplit

/-- invariant of every replica of an execution of the Go algorithm (`Mode.fast`): on the reference as long as
the ghost flag `ok` holds -/
structure NodeInv (log : List Entry) (nd : Node) : Prop where
  posn : NodePos log nd
  good : nd.ok = true → NodeRef log nd ∧ TrackInv nd.wm (log.take nd.pos) nd.rep.tracker

theorem NodeInv_batch (log : List Entry) (hok : LogOk log) (nd : Node) (n : Nat) (h : NodeInv log nd) :
    NodeInv log (nd.batch .fast log n) := by
  refine ⟨NodePos_batch .fast log hok.mono nd n h.posn, ?_⟩
  intro hokb
  simp only [Node.batch, Bool.and_eq_true] at hokb
  obtain ⟨href, htr⟩ := h.good hokb.1
  exact batch_good .fast log hok nd n h.posn href htr (guarded_of_batchOk hokb.2)

theorem NodeInv_restart (log : List Entry) (hok : LogOk log) (nd : Node) (h : NodeInv log nd) :
    NodeInv log nd.restart := by
  refine ⟨NodePos_restart log nd h.posn, ?_⟩
  intro hk
  refine ⟨NodeRef_restart log nd (h.good hk).1, ?_⟩
  simp only [Node.restart, Replica.restart]
  rw [h.posn.latest]
  exact TrackInv_vacuous (mono_take hok.mono _) []

theorem install_good (log : List Entry) (hok : LogOk log) (nd src : Node) (hs : NodePos log src)
    (hr : NodeRef log nd) (hrs : NodeRef log src) (htr : TrackInv nd.wm (log.take nd.pos) nd.rep.tracker) :
    NodeRef log (nd.install src) ∧
    TrackInv (nd.install src).wm (log.take (nd.install src).pos) (nd.install src).rep.tracker := by
  refine ⟨NodeRef_install log nd src hr hrs, ?_⟩
  unfold Node.install
  by_cases hle : nd.pos ≤ src.pos
  · simp only [hle, if_true, Replica.install]
    rw [hs.latest]
    exact TrackInv_vacuous (mono_take hok.mono _) _
  · simpa [hle] using htr

theorem NodeInv_install (log : List Entry) (hok : LogOk log) (nd src : Node) (h : NodeInv log nd)
    (hs : NodeInv log src) : NodeInv log (nd.install src) := by
  refine ⟨NodePos_install log nd src h.posn hs.posn, ?_⟩
  intro hk
  by_cases hle : nd.pos ≤ src.pos
  · have hk' : nd.ok = true ∧ src.ok = true := by
      simpa [Node.install, hle, Bool.and_eq_true] using hk
    exact install_good log hok nd src hs.posn (h.good hk'.1).1 (hs.good hk'.2).1 (h.good hk'.1).2
  · have hk' : nd.ok = true := by simpa [Node.install, hle] using hk
    have : nd.install src = nd := by simp [Node.install, hle]
    rw [this]
    exact h.good hk'

theorem NodeInv_fresh (log : List Entry) : NodeInv log Node.fresh :=
  ⟨NodePos_fresh log, fun _ => ⟨NodeRef_fresh log, TrackInv_fresh log⟩⟩

theorem sysRun_true_inv (log : List Entry) (hok : LogOk log) (evs : List Ev) (nodes : List Node)
    (h : ∀ nd ∈ nodes, NodeInv log nd) : ∀ nd ∈ sysRun .fast log nodes evs, NodeInv log nd :=
  sysRun_inv .fast log (NodeInv log) (fun nd n => NodeInv_batch log hok nd n) (NodeInv_restart log hok)
    (NodeInv_install log hok)
    (fun nd low hi => ⟨⟨hi.posn.pos_le, hi.posn.latest⟩, fun hk =>
      ⟨by simpa [NodeRef, Node.lclear] using (hi.good hk).1, TrackInv_clear low (hi.good hk).2⟩⟩)
    evs nodes h

/-- invariant of every replica of an execution of the repaired algorithm (`Mode.guarded`): unconditional -/
structure NodeInvG (log : List Entry) (nd : Node) : Prop where
  posn : NodePos log nd
  ref : NodeRef log nd
  track : TrackInv nd.wm (log.take nd.pos) nd.rep.tracker

theorem sysRun_guarded_inv (log : List Entry) (hok : LogOk log) (evs : List Ev) (nodes : List Node)
    (h : ∀ nd ∈ nodes, NodeInvG log nd) : ∀ nd ∈ sysRun .guarded log nodes evs, NodeInvG log nd := by
  refine sysRun_inv .guarded log (NodeInvG log) ?_ ?_ ?_
    (fun nd low hi => ⟨⟨hi.posn.pos_le, hi.posn.latest⟩, by simpa [NodeRef, Node.lclear] using hi.ref,
      TrackInv_clear low hi.track⟩) evs nodes h
  · intro nd n hi
    have := batch_good .guarded log hok nd n hi.posn hi.ref hi.track (guarded_mode _ _)
    exact ⟨NodePos_batch .guarded log hok.mono nd n hi.posn, this.1, this.2⟩
  · intro nd hi
    refine ⟨NodePos_restart log nd hi.posn, NodeRef_restart log nd hi.ref, ?_⟩
    simp only [Node.restart, Replica.restart]
    rw [hi.posn.latest]
    exact TrackInv_vacuous (mono_take hok.mono _) []
  · intro nd src hi hs
    have := install_good log hok nd src hs.posn hi.ref hs.ref hi.track
    exact ⟨NodePos_install log nd src hi.posn hs.posn, this.1, this.2⟩

theorem NodeInvG_fresh (log : List Entry) : NodeInvG log Node.fresh :=
  ⟨NodePos_fresh log, NodeRef_fresh log, TrackInv_fresh log⟩

/-! ## Part 5 — the tracker never holds an index above the entry being applied: no "saw later index" panic -/

theorem applyEntry_tracker_mem (fast : Bool) (s : Store) (tr : Tracker) (l0 off : Nat) (e : Entry)
    (p : Nat × List Key) (hp : p ∈ (applyEntry fast s tr l0 off e).2.1) : p ∈ tr ∨ p.1 = e.idx := by
  unfold applyEntry at hp
  cases hc : e.cmd with
  | config => rw [hc] at hp; exact Or.inl hp
  | data ops =>
    rw [hc] at hp
    simp only [applyData] at hp
    by_cases ht : isTx ops = true
    · simp only [ht, if_true] at hp
      by_cases hv : verifyLoop fast s tr (off == 0 && l0 == txStart ops) (txStart ops) ops 0 ops = true
      · simp only [hv, if_true] at hp
        rcases mem_set.mp hp with h | h
        · right; rw [h]
        · exact Or.inl h.1
      · simp only [hv] at hp
        exact Or.inl hp
    · simp only [ht] at hp
      unfold plainTrack at hp
      cases hw : (writeKeys ops).getLast? with
      | none => rw [hw] at hp; exact Or.inl hp
      | some k =>
        rw [hw] at hp
        rcases mem_set.mp hp with h | h
        · right; rw [h]
        · exact Or.inl h.1

theorem trackerPanics_false {tr : Tracker} {lo hi : Nat} (h : ∀ p ∈ tr, p.1 ≤ hi) : trackerPanics tr lo hi = false := by
  simp only [trackerPanics, List.any_eq_false, Bool.and_eq_true, decide_eq_true_eq, not_and]
  intro p hp _
  have := h p hp
  omega

theorem lastIdx_cons (e : Entry) (es : List Entry) :
    lastIdx (e :: es) = if es = [] then e.idx else lastIdx es := by
  cases es with
  | nil => simp [lastIdx]
  | cons x r => simp [lastIdx, List.getLast?_cons_cons]

theorem loop_bound (fastOf : Entry → Bool) (l0 : Nat) (es : List Entry) :
    ∀ (B off : Nat) (s : Store) (tr : Tracker),
      (∀ p ∈ tr, p.1 ≤ B) → (∀ e ∈ es, B ≤ e.idx) → Mono es →
      loopPanics fastOf l0 off s tr es = false ∧
      ∀ p ∈ (applyLoop fastOf l0 off s tr es).2.1, p.1 ≤ (if es = [] then B else lastIdx es) := by
  induction es with
  | nil => intro B off s tr hb _ _; exact ⟨rfl, fun p hp => by simpa [applyLoop] using hb p hp⟩
  | cons e es ih =>
    intro B off s tr hb hes hm
    have hBe : B ≤ e.idx := hes e (List.mem_cons_self)
    have hm' := List.pairwise_cons.mp hm
    have hstep : ∀ p ∈ (applyEntry (fastOf e) s tr l0 off e).2.1, p.1 ≤ e.idx := by
      intro p hp
      rcases applyEntry_tracker_mem _ _ _ _ _ _ p hp with h | h
      · have := hb p h; omega
      · omega
    obtain ⟨h1, h2⟩ := ih e.idx (off + 1) (applyEntry (fastOf e) s tr l0 off e).1
      (applyEntry (fastOf e) s tr l0 off e).2.1 hstep (fun x hx => Nat.le_of_lt (hm'.1 x hx)) hm'.2
    refine ⟨?_, ?_⟩
    · simp only [loopPanics, h1, Bool.or_false]
      unfold entryPanics
      cases e.cmd with
      | config => rfl
      | data ops =>
        simp only
        rw [trackerPanics_false (fun p hp => Nat.le_trans (hb p hp) hBe)]
        simp
    · intro p hp
      simp only [applyLoop] at hp
      have := h2 p hp
      simp only [List.cons_ne_nil, if_false]
      rw [lastIdx_cons]
      exact this

/-- position, latest index and the bound on the tracker's indexes -/
structure NodeBnd (log : List Entry) (nd : Node) : Prop where
  posn : NodePos log nd
  bnd : ∀ p ∈ nd.rep.tracker, p.1 ≤ nd.rep.latest

theorem next_batch_bounds (log : List Entry) (hm : Mono log) (nd : Node) (n : Nat) (h : NodeBnd log nd) :
    (∀ e ∈ (log.drop nd.pos).take n, nd.rep.latest ≤ e.idx) ∧ Mono ((log.drop nd.pos).take n) := by
  have hsplit := log_split log nd.pos n
  rw [hsplit] at hm
  have hm1 := mono_prefix hm
  refine ⟨fun e he => ?_, (List.pairwise_append.mp hm1).2.1⟩
  rw [h.posn.latest]
  exact lastIdx_le_of_mono hm1 he

theorem NodeBnd_batch (m : Mode) (log : List Entry) (hm : Mono log) (nd : Node) (n : Nat) (h : NodeBnd log nd) :
    NodeBnd log (nd.batch m log n) := by
  refine ⟨NodePos_batch m log hm nd n h.posn, ?_⟩
  by_cases hne : (log.drop nd.pos).take n = []
  · rw [batch_empty m log nd n hne]; exact h.bnd
  · obtain ⟨hle, hmes⟩ := next_batch_bounds log hm nd n h
    have hl := (loop_bound (m.fastOf nd.wm) nd.rep.latest _ nd.rep.latest 0 nd.rep.kv nd.rep.tracker h.bnd hle hmes).2
    simp only [hne, if_false] at hl
    obtain ⟨x, hx⟩ := mem_lastIdx hne
    have hxl := hle x hx.1
    intro p hp
    simp only [Node.batch] at hp ⊢
    rw [applyBatch_ne _ _ _ hne] at hp ⊢
    simp only at hp ⊢
    have hp' : p ∈ (applyLoop (m.fastOf nd.wm) nd.rep.latest 0 nd.rep.kv nd.rep.tracker
        ((log.drop nd.pos).take n)).2.1 := by
      cases hlow : lastLow ((log.drop nd.pos).take n) with
      | none => rw [hlow] at hp; exact hp
      | some l => rw [hlow] at hp; exact (mem_clear.mp hp).1
    have := hl p hp'
    split <;> omega

theorem lastIdx_take_mono {log : List Entry} (hm : Mono log) {a b : Nat} (hab : a ≤ b) :
    lastIdx (log.take a) ≤ lastIdx (log.take b) := by
  have hsplit : log.take b = log.take a ++ (log.take b).drop a := by
    have := List.take_append_drop a (log.take b)
    rw [List.take_take, Nat.min_eq_left hab] at this
    exact this.symm
  by_cases hne : (log.take b).drop a = []
  · rw [hsplit, hne, List.append_nil]; exact Nat.le_refl _
  · have hmb := mono_take hm b
    rw [hsplit] at hmb
    obtain ⟨x, hx⟩ := mem_lastIdx hne
    have := lastIdx_le_of_mono hmb hx.1
    rw [hsplit, lastIdx_append_ne _ _ hne, ← hx.2]
    exact this

theorem sysRun_bnd (m : Mode) (log : List Entry) (hm : Mono log) (evs : List Ev) (nodes : List Node)
    (h : ∀ nd ∈ nodes, NodeBnd log nd) : ∀ nd ∈ sysRun m log nodes evs, NodeBnd log nd := by
  refine sysRun_inv m log (NodeBnd log) (fun nd n => NodeBnd_batch m log hm nd n) ?_ ?_
    (fun nd low hi => ⟨⟨hi.posn.pos_le, hi.posn.latest⟩, fun p hp => hi.bnd p (mem_clear.mp hp).1⟩) evs nodes h
  · intro nd hi
    exact ⟨NodePos_restart log nd hi.posn, by simp [Node.restart, Replica.restart]⟩
  · intro nd src hi hs
    refine ⟨NodePos_install log nd src hi.posn hs.posn, ?_⟩
    unfold Node.install
    by_cases hle : nd.pos ≤ src.pos
    · simp only [hle, if_true, Replica.install]
      intro p hp
      have h1 := hi.bnd p hp
      rw [hi.posn.latest] at h1
      rw [hs.posn.latest]
      exact Nat.le_trans h1 (lastIdx_take_mono hm hle)
    · simpa [hle] using hi.bnd

theorem NodeBnd_fresh (log : List Entry) : NodeBnd log Node.fresh :=
  ⟨NodePos_fresh log, by simp [Node.fresh, Replica.fresh]⟩

end Obao.RaftFSM
