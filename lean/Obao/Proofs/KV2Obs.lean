import Obao.Proofs.KV2Step
/-! C14 helper lemmas, part 3: the current version number along histories; what a read observes; observational
equivalence of states that differ only in blobs no metadata refers to. -/
namespace Obao.KV2

/-- the current version number of a path (0 when the key does not exist) -/
def curVer (s : State) (p : String) : Nat := (metaOr (s.paths p)).current

def Resp.isWrote : Resp → Bool
  | .wrote _ _ _ => true
  | _ => false

def Op.writesTo : Op → Option String
  | .write p _ _ | .patch p _ _ => some p
  | _ => none

theorem setPath_self (s : State) (p : String) : setPath s p (s.paths p) = s := by
  cases s with
  | mk cfg paths =>
    simp only [setPath, State.mk.injEq, true_and]
    funext q; split
    · rename_i h; rw [h]
    · rfl

/-! ### the current version number -/

theorem writeOutcome_cur (ps ps' : PathSt) (m : Meta) (d : Data) (del : Del) (c : Nat) (r : Resp)
    (hm : m = metaOr ps) (h : WriteOutcome ps m d del c ps' r) :
    (r.isWrote = true ∧ (∃ w, r = .wrote ((metaOr ps).current + 1) del w) ∧ (metaOr ps').current = (metaOr ps).current + 1) ∨
    (r.isWrote = false ∧ (metaOr ps').current = (metaOr ps).current) := by
  subst hm
  rcases h with ⟨w, hr, hmd, _, _⟩ | ⟨hr, hmd, _⟩
  · left
    refine ⟨by rw [hr]; rfl, ⟨w, hr⟩, ?_⟩
    rw [metaOr_some ps' _ hmd, addVersion_current]
  · right
    refine ⟨by rw [hr]; rfl, ?_⟩
    unfold metaOr; rw [hmd]

theorem writePath_cur (cfg : Config) (ps : PathSt) (cas : Cas) (d : Data) (tx : Bool) (fault : Option Nat) :
    ((writePath cfg ps cas d tx fault).2.1.isWrote = true ∧
      (∃ del w, (writePath cfg ps cas d tx fault).2.1 = .wrote ((metaOr ps).current + 1) del w) ∧
      (metaOr (writePath cfg ps cas d tx fault).1).current = (metaOr ps).current + 1) ∨
    ((writePath cfg ps cas d tx fault).2.1.isWrote = false ∧
      (metaOr (writePath cfg ps cas d tx fault).1).current = (metaOr ps).current) := by
  rcases writePath_cases cfg ps cas d tx fault with ⟨e, err, he⟩ | ⟨_, ho⟩
  · right; rw [e, he]; exact ⟨rfl, rfl⟩
  · rcases writeOutcome_cur _ _ _ _ _ _ _ rfl ho with ⟨a, ⟨w, b⟩, c⟩ | h
    · exact Or.inl ⟨a, ⟨_, w, b⟩, c⟩
    · exact Or.inr h

theorem refusal_not_wrote (r : Resp) (h : r.refusal) : r.isWrote = false := by
  cases r <;> first | rfl | exact absurd h (by simp [Resp.refusal])

theorem patchPath_cur (cfg : Config) (ps : PathSt) (cas : Cas) (pd : PatchData) (tx : Bool) (fault : Option Nat) :
    ((patchPath cfg ps cas pd tx fault).2.1.isWrote = true ∧
      (∃ del w, (patchPath cfg ps cas pd tx fault).2.1 = .wrote ((metaOr ps).current + 1) del w) ∧
      (metaOr (patchPath cfg ps cas pd tx fault).1).current = (metaOr ps).current + 1) ∨
    ((patchPath cfg ps cas pd tx fault).2.1.isWrote = false ∧
      (metaOr (patchPath cfg ps cas pd tx fault).1).current = (metaOr ps).current) := by
  rcases patchPath_cases cfg ps cas pd tx fault with ⟨e, href⟩ | ⟨m, vm, d0, hm, _, _, _, _, _, ho⟩
  · right; rw [e]; exact ⟨refusal_not_wrote _ href, rfl⟩
  · have hmo : m = metaOr ps := (metaOr_some ps m hm).symm
    rcases writeOutcome_cur _ _ _ _ _ _ _ hmo ho with ⟨a, ⟨w, b⟩, c⟩ | h
    · exact Or.inl ⟨a, ⟨_, w, b⟩, c⟩
    · exact Or.inr h

theorem flagOnly_cur (ps : PathSt) (m m' : Meta) (hm : ps.md = some m) (fs : FlagStep m m') :
    (metaOr { ps with md := some m' }).current = (metaOr ps).current := by
  rw [metaOr_some ps m hm, metaOr_some _ m' rfl, fs.cur]

theorem deleteLatest_cur (ps : PathSt) : (metaOr (deleteLatest ps)).current = (metaOr ps).current := by
  unfold deleteLatest
  split
  · rfl
  · rename_i m hm
    split
    · rfl
    · split
      · rfl
      · split
        · rfl
        · rw [metaOr_some ps m hm, metaOr_some _ _ rfl]; rfl

theorem deleteVersions_cur (ps : PathSt) (vs : List Int) : (metaOr (deleteVersions ps vs)).current = (metaOr ps).current := by
  unfold deleteVersions; split
  · rfl
  · rename_i m hm; exact flagOnly_cur ps m _ hm (foldl_flagStep _ markDeleted_flagStep vs m)

theorem undeleteVersions_cur (cfg : Config) (ps : PathSt) (vs : List Int) :
    (metaOr (undeleteVersions cfg ps vs)).current = (metaOr ps).current := by
  unfold undeleteVersions; split
  · rfl
  · rename_i m hm; exact flagOnly_cur ps m _ hm (foldl_flagStep _ (markUndeleted_flagStep cfg) vs m)

theorem destroyVersions_cur (ps : PathSt) (vs : List Int) : (metaOr (destroyVersions ps vs)).current = (metaOr ps).current := by
  unfold destroyVersions; split
  · rfl
  · rename_i m hm
    rw [metaOr_some ps m hm, metaOr_some _ _ rfl]
    exact (foldl_flagStep _ markDestroyed_flagStep vs m).cur

theorem settingsShape_cur (ps ps' : PathSt) (r : Resp) (sh : SettingsShape ps ps' r) :
    (metaOr ps').current = (metaOr ps).current := by
  rcases sh with e | ⟨m', e, sv, _⟩
  · rw [e]
  · rw [e, metaOr_some _ m' rfl, sv.cur]

theorem settingsShape_not_wrote (ps ps' : PathSt) (r : Resp) (sh : SettingsShape ps ps' r) (hr : r = .nil ∨ r = .warn ∨ (∃ e, r = .err e) ∨ r = .notFound) :
    r.isWrote = false := by
  rcases hr with h | h | ⟨e, h⟩ | h <;> rw [h] <;> rfl

theorem metaDelete_cur (ps : PathSt) : (metaOr (metaDelete ps)).current = 0 := by
  unfold metaDelete; split
  · rename_i h; rw [metaOr_none ps h]; rfl
  · rw [metaOr_none _ rfl]; rfl

/-- how one request moves the current version number of path `p` -/
theorem stepF_curVer (tx : Bool) (fault : Option Nat) (s : State) (op : Op) (p : String) :
    curVer (stepF tx fault s op).1 p =
      if op.writesTo = some p ∧ (stepF tx fault s op).2.1.isWrote = true then curVer s p + 1
      else match op with
        | .metaDelete q => if q = p then 0 else curVer s p
        | _ => curVer s p := by
  unfold curVer
  cases op with
  | write q cas d =>
    simp only [stepF, Op.writesTo, Option.some.injEq, setPath_paths]
    by_cases hq : q = p
    · subst hq
      simp only [true_and, ↓reduceIte]
      rcases writePath_cur s.cfg (s.paths q) cas d tx fault with ⟨a, _, c⟩ | ⟨a, c⟩
      · rw [if_pos a, c]
      · rw [if_neg (by rw [a]; simp), c]
    · have : ¬ p = q := fun h => hq h.symm
      simp [hq, this]
  | patch q cas d =>
    simp only [stepF, Op.writesTo, Option.some.injEq, setPath_paths]
    by_cases hq : q = p
    · subst hq
      simp only [true_and, ↓reduceIte]
      rcases patchPath_cur s.cfg (s.paths q) cas d tx fault with ⟨a, _, c⟩ | ⟨a, c⟩
      · rw [if_pos a, c]
      · rw [if_neg (by rw [a]; simp), c]
    · have : ¬ p = q := fun h => hq h.symm
      simp [hq, this]
  | read q v => simp [stepF, Op.writesTo]
  | delete q =>
    simp only [stepF, Op.writesTo, setPath_paths]
    by_cases hq : p = q
    · subst hq; simp [deleteLatest_cur]
    · simp [hq]
  | deleteV q vs =>
    simp only [stepF, Op.writesTo]
    split
    · simp
    · simp only [setPath_paths]
      by_cases hq : p = q
      · subst hq; simp [deleteVersions_cur]
      · simp [hq]
  | undelete q vs =>
    simp only [stepF, Op.writesTo]
    split
    · simp
    · simp only [setPath_paths]
      by_cases hq : p = q
      · subst hq; simp [undeleteVersions_cur]
      · simp [hq]
  | destroy q vs =>
    simp only [stepF, Op.writesTo]
    split
    · simp
    · simp only [setPath_paths]
      by_cases hq : p = q
      · subst hq; simp [destroyVersions_cur]
      · simp [hq]
  | metaWrite q a =>
    simp only [stepF, Op.writesTo, setPath_paths]
    by_cases hq : p = q
    · subst hq; simp [settingsShape_cur _ _ _ (metaWrite_shape s.cfg (s.paths p) a)]
    · simp [hq]
  | metaPatch q a =>
    simp only [stepF, Op.writesTo, setPath_paths]
    by_cases hq : p = q
    · subst hq; simp [settingsShape_cur _ _ _ (metaPatch_shape s.cfg (s.paths p) a)]
    · simp [hq]
  | metaRead q => simp [stepF, Op.writesTo]
  | metaDelete q =>
    simp only [stepF, Op.writesTo, setPath_paths]
    by_cases hq : p = q
    · subst hq; simp [metaDelete_cur]
    · have : ¬ q = p := fun h => hq h.symm
      simp [hq, this]
  | confWrite mx cr dva => simp [stepF, Op.writesTo]
  | confRead => simp [stepF, Op.writesTo]

/-- a successful write/patch answers with the successor of the current version number -/
theorem stepF_wrote (tx : Bool) (fault : Option Nat) (s : State) (op : Op) (v : Nat) (del : Del) (w : Bool)
    (h : (stepF tx fault s op).2.1 = .wrote v del w) : ∃ p, op.writesTo = some p ∧ v = curVer s p + 1 := by
  unfold curVer
  cases op with
  | write q cas d =>
    refine ⟨q, rfl, ?_⟩
    simp only [stepF] at h
    rcases writePath_cur s.cfg (s.paths q) cas d tx fault with ⟨_, ⟨del', w', b⟩, _⟩ | ⟨a, _⟩
    · rw [b] at h; cases h; rfl
    · rw [h] at a; cases a
  | patch q cas d =>
    refine ⟨q, rfl, ?_⟩
    simp only [stepF] at h
    rcases patchPath_cur s.cfg (s.paths q) cas d tx fault with ⟨_, ⟨del', w', b⟩, _⟩ | ⟨a, _⟩
    · rw [b] at h; cases h; rfl
    · rw [h] at a; cases a
  | read q v' =>
    simp only [stepF, readPath] at h
    repeat' split at h
    all_goals cases h
  | delete q => simp [stepF] at h
  | deleteV q vs => simp only [stepF] at h; split at h <;> cases h
  | undelete q vs => simp only [stepF] at h; split at h <;> cases h
  | destroy q vs => simp only [stepF] at h; split at h <;> cases h
  | metaWrite q a =>
    simp only [stepF, metaWrite] at h
    repeat' split at h
    all_goals cases h
  | metaPatch q a =>
    simp only [stepF, metaPatch] at h
    repeat' split at h
    all_goals cases h
  | metaRead q => simp only [stepF, metaRead] at h; split at h <;> cases h
  | metaDelete q => simp [stepF] at h
  | confWrite mx cr dva => simp [stepF] at h
  | confRead => simp [stepF] at h

end Obao.KV2
