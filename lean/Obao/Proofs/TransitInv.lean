import Obao.Proofs.TransitKeys
/-! The key-ring invariant of the transit model and its preservation by `Persist` in the five ways the
operations use it (identity, rotation, raising / lowering `min_decryption_version`, trimming). -/
namespace Obao.Transit

/-- policy object and stored archive are consistent -/
structure PInv (p : Policy) (archive : List Key) : Prop where
  decPos : 1 ≤ p.minDec
  decLe : p.minDec ≤ p.latest
  encOk : p.minEnc = 0 ∨ p.minDec ≤ p.minEnc
  encLe : p.minEnc ≤ p.latest
  availDec : p.minAvail ≤ p.minDec
  availEnc : p.minAvail ≤ p.minEnc
  archVer : p.archiveVer = p.latest
  archMin : p.archiveMin = p.minAvail
  archLen : archive.length = p.latest + 1 - p.minAvail
  keysNodup : (p.keys.map Prod.fst).Nodup
  /-- the in-memory key map holds exactly the versions `[minDec, latest]`, each with its archive slot -/
  keysWin : ∀ v, kget p.keys v = if p.minDec ≤ v ∧ v ≤ p.latest then archive[v - p.minAvail]? else none
  /-- every archive slot of a real version holds a key generated for that version -/
  slotVer : ∀ v, 1 ≤ v → p.minAvail ≤ v → v ≤ p.latest → ∃ k, archive[v - p.minAvail]? = some k ∧ k.1 = v

theorem PInv.keyAt {p : Policy} {a : List Key} (h : PInv p a) {v : Nat} (h1 : p.minDec ≤ v) (h2 : v ≤ p.latest) :
    ∃ k, kget p.keys v = some k ∧ a[v - p.minAvail]? = some k ∧ k.1 = v := by
  obtain ⟨k, hk, hv⟩ := h.slotVer v (by have := h.decPos; omega) (by have := h.availDec; omega) h2
  exact ⟨k, by rw [h.keysWin, if_pos ⟨h1, h2⟩, hk], hk, hv⟩

theorem PInv.keysDom {p : Policy} {a : List Key} (h : PInv p a) (v : Nat) :
    (kget p.keys v).isSome ↔ p.minDec ≤ v ∧ v ≤ p.latest := by
  constructor
  · intro hs
    rw [h.keysWin] at hs
    by_cases hc : p.minDec ≤ v ∧ v ≤ p.latest
    · exact hc
    · rw [if_neg hc] at hs; simp at hs
  · intro ⟨h1, h2⟩
    obtain ⟨k, hk, _⟩ := h.keyAt h1 h2
    simp [hk]

theorem PInv.keysLen {p : Policy} {a : List Key} (h : PInv p a) : p.keys.length = p.latest + 1 - p.minDec :=
  keys_length p.keys p.minDec p.latest h.keysNodup h.keysDom

theorem verRange_empty {a b : Nat} (h : b < a) : verRange a b = [] := by
  unfold verRange
  have : b + 1 - a = 0 := by omega
  rw [this]; rfl

theorem kdelRange_none (m : List (Nat × Key)) (lo : Int) (hi : Nat) (h : ∀ e ∈ m, ¬ (lo ≤ (e.1 : Int) ∧ e.1 < hi)) :
    kdelRange m lo hi = m := by
  unfold kdelRange
  rw [List.filter_eq_self]
  intro e he
  exact decide_eq_true (h e he)

/-- L1: `Persist` of a consistent policy changes nothing -/
theorem persist_id {p : Policy} {a : List Key} (h : PInv p a) : persist p a 0 = .ok p a := by
  have hk : (kget p.keys p.minDec).isSome = true := (h.keysDom _).2 ⟨Nat.le_refl _, h.decLe⟩
  have hlen := h.keysLen
  have h1 := h.decPos; have h2 := h.decLe; have h3 := h.archVer; have h4 := h.archMin
  have h5 := h.archLen; have h6 := h.availDec
  have henc : ¬ (p.minEnc > 0 ∧ p.minEnc < p.minDec) := by
    rcases h.encOk with e | e <;> omega
  have hr : verRange (p.archiveVer + 1) p.latest = [] := verRange_empty (by omega)
  have hdel : kdelRange p.keys ((p.latest : Int) - (p.keys.length : Int) + 1) p.minDec = p.keys := by
    apply kdelRange_none
    intro e _; rw [hlen]; omega
  unfold persist
  simp only [hk]
  rw [if_neg (by omega), if_neg (by omega), if_neg (by simp), if_neg (by omega), if_neg henc, if_neg (by omega)]
  simp only [Bool.not_true, Bool.false_eq_true, if_false]
  rw [hr]
  simp only [toArchive]
  have hnm : ¬ p.archiveMin < p.minAvail := by omega
  have hnv : ¬ p.archiveVer + 1 ≤ p.latest := by omega
  have hnl : ¬ a.length + p.minAvail < p.latest + 1 := by omega
  simp only [hnm, hnv, hnl, false_and, if_false, hdel, Nat.zero_ne_one]
  rw [if_neg (by decide)]

theorem set_append_last (a : List Key) (x y : Key) : (a ++ [x]).set a.length y = a ++ [y] := by
  induction a with
  | nil => rfl
  | cons b a ih => simp [List.set, ih]

theorem verRange_single (a : Nat) : verRange a a = [a] := by
  unfold verRange
  have : a + 1 - a = 1 := by omega
  rw [this]; rfl

/-- the policy object `Rotate` hands to `Persist` -/
def rotated (p : Policy) (k : Key) : Policy :=
  { p with latest := p.latest + 1, keys := kset p.keys (p.latest + 1) k,
           minDec := if p.minDec = 0 then 1 else p.minDec }

/-- L2: `Persist` after a rotation appends the new key to the archive -/
theorem persist_rotate {p : Policy} {a : List Key} (h : PInv p a) (k : Key) :
    persist (rotated p k) a 0 = .ok { rotated p k with archiveVer := p.latest + 1 } (a ++ [k]) := by
  have h1 := h.decPos; have h2 := h.decLe; have h3 := h.archVer; have h4 := h.archMin
  have h5 := h.archLen; have h6 := h.availDec
  have hmd : (if p.minDec = 0 then 1 else p.minDec) = p.minDec := by rw [if_neg (by omega)]
  have hk : (kget (kset p.keys (p.latest + 1) k) p.minDec).isSome = true := by
    rw [kget_kset, if_neg (by omega)]; exact (h.keysDom _).2 ⟨Nat.le_refl _, h2⟩
  have hnew : kget (kset p.keys (p.latest + 1) k) (p.latest + 1) = some k := by rw [kget_kset, if_pos rfl]
  have hlen : (kset p.keys (p.latest + 1) k).length = p.latest + 1 + 1 - p.minDec := by
    apply keys_length _ _ _ (kset_nodup _ _ _ h.keysNodup)
    intro v
    rw [kget_kset]
    by_cases hv : v = p.latest + 1
    · simp [hv]; omega
    · rw [if_neg hv, h.keysDom]; omega
  have henc : ¬ (p.minEnc > 0 ∧ p.minEnc < p.minDec) := by
    rcases h.encOk with e | e <;> omega
  have hdel : kdelRange (kset p.keys (p.latest + 1) k)
      (((p.latest + 1 : Nat) : Int) - ((kset p.keys (p.latest + 1) k).length : Int) + 1) p.minDec
        = kset p.keys (p.latest + 1) k := by
    apply kdelRange_none
    intro e _; rw [hlen]; omega
  unfold persist rotated
  simp only [hmd, hk]
  rw [if_neg (by omega), if_neg (by omega), if_neg (by simp), if_neg (by omega), if_neg henc, if_neg (by omega)]
  simp only [Bool.not_true, Bool.false_eq_true, if_false]
  have hlt : a.length + p.minAvail < p.latest + 1 + 1 := by omega
  have hrep : p.latest + 1 - p.minAvail + 1 - a.length = 1 := by omega
  rw [h3, verRange_single]
  simp only [hlt, if_true, hrep, List.replicate, toArchive]
  rw [if_neg (by omega), if_pos (by simp; omega)]
  have hidx : p.latest + 1 - p.minAvail = a.length := by omega
  simp only [hidx, set_append_last, hnew, Option.getD_some]
  have hnm : ¬ p.archiveMin < p.minAvail := by omega
  simp only [hnm, false_and, if_false, Nat.le_refl, if_true, Nat.zero_ne_one, hdel]
  rw [if_neg (by decide)]

theorem persist_rotate_inv {p : Policy} {a : List Key} (h : PInv p a) (k : Key) (hk : k.1 = p.latest + 1) :
    PInv { rotated p k with archiveVer := p.latest + 1 } (a ++ [k]) := by
  have h1 := h.decPos; have h2 := h.decLe; have h5 := h.archLen; have h6 := h.availDec
  have hmd : (if p.minDec = 0 then 1 else p.minDec) = p.minDec := by rw [if_neg (by omega)]
  refine ⟨?_, ?_, ?_, ?_, ?_, ?_, ?_, ?_, ?_, ?_, ?_, ?_⟩ <;> simp only [rotated, hmd]
  · exact h1
  · omega
  · exact h.encOk
  · have := h.encLe; omega
  · exact h6
  · exact h.availEnc
  · exact h.archMin
  · simp; omega
  · exact kset_nodup _ _ _ h.keysNodup
  · intro v
    rw [kget_kset]
    by_cases hv : v = p.latest + 1
    · subst hv
      rw [if_pos rfl, if_pos ⟨by omega, Nat.le_refl _⟩]
      have : p.latest + 1 - p.minAvail = a.length := by omega
      rw [this]; simp
    · rw [if_neg hv, h.keysWin]
      by_cases hw : p.minDec ≤ v ∧ v ≤ p.latest
      · rw [if_pos hw, if_pos ⟨hw.1, by omega⟩, List.getElem?_append_left (by omega)]
      · rw [if_neg hw, if_neg (by omega)]
  · intro v hv1 hv2 hv3
    by_cases hv : v = p.latest + 1
    · subst hv
      have : p.latest + 1 - p.minAvail = a.length := by omega
      exact ⟨k, by rw [this]; simp, hk⟩
    · obtain ⟨k', hk', hkv⟩ := h.slotVer v hv1 hv2 (by omega)
      exact ⟨k', by rw [List.getElem?_append_left (by omega)]; exact hk', hkv⟩

/-- `p` differs from `p0` only in the fields the configuration endpoint may change -/
structure SameRing (p0 p : Policy) : Prop where
  keys : p.keys = p0.keys
  latest : p.latest = p0.latest
  minAvail : p.minAvail = p0.minAvail
  archiveVer : p.archiveVer = p0.archiveVer
  archiveMin : p.archiveMin = p0.archiveMin

theorem fromArchive_spec (a : List Key) (minAvail : Nat) :
    ∀ (vs : List Nat) (m : List (Nat × Key)), (∀ i ∈ vs, minAvail ≤ i ∧ i - minAvail < a.length) →
      ∃ ks, fromArchive a minAvail vs m = some ks ∧
        (∀ w, kget ks w = if w ∈ vs then a[w - minAvail]? else kget m w) ∧
        ((m.map Prod.fst).Nodup → (ks.map Prod.fst).Nodup) := by
  intro vs
  induction vs with
  | nil => intro m _; exact ⟨m, rfl, by simp, id⟩
  | cons i is ih =>
    intro m hvs
    have hi := hvs i (by simp)
    obtain ⟨k, hk⟩ : ∃ k, a[i - minAvail]? = some k := ⟨a[i - minAvail]'hi.2, by simp [hi.2]⟩
    obtain ⟨ks, hks, hget, hnd⟩ := ih (kset m i k) (fun j hj => hvs j (by simp [hj]))
    refine ⟨ks, ?_, ?_, fun hn => hnd (kset_nodup _ _ _ hn)⟩
    · unfold fromArchive
      rw [if_neg (by omega), hk]; exact hks
    · intro w
      rw [hget, kget_kset]
      by_cases hw : w ∈ is
      · simp [hw]
      · by_cases hwi : w = i
        · subst hwi; simp [hk]
        · simp [hw, hwi]

/-- L3/L4: `Persist` after the configuration endpoint changed `min_decryption_version` (either direction),
    `min_encryption_version` or the flags: only the in-memory key map is adjusted, and consistency is kept -/
theorem persist_cfg {p0 p : Policy} {a : List Key} (h : PInv p0 a) (hs : SameRing p0 p)
    (hd1 : 1 ≤ p.minDec) (hd2 : p.minDec ≤ p.latest) (he1 : p.minEnc = 0 ∨ p.minDec ≤ p.minEnc)
    (he2 : p.minEnc ≤ p.latest) (ha1 : p.minAvail ≤ p.minDec) (ha2 : p.minAvail ≤ p.minEnc) :
    ∃ ks, persist p a 0 = .ok { p with keys := ks } a ∧ PInv { p with keys := ks } a := by
  have g3 := h.archVer; have g4 := h.archMin; have g5 := h.archLen
  have s1 := hs.keys; have s2 := hs.latest; have s3 := hs.minAvail; have s4 := hs.archiveVer; have s5 := hs.archiveMin
  have henc : ¬ (p.minEnc > 0 ∧ p.minEnc < p.minDec) := by rcases he1 with e | e <;> omega
  -- what consistency of the result amounts to
  have mk : ∀ ks : List (Nat × Key), (ks.map Prod.fst).Nodup →
      (∀ v, kget ks v = if p.minDec ≤ v ∧ v ≤ p.latest then a[v - p.minAvail]? else none) →
      PInv { p with keys := ks } a := by
    intro ks hn hw
    refine ⟨hd1, hd2, he1, he2, ha1, ha2, by simp only; omega, by simp only; omega, by simp only; omega, hn, hw, ?_⟩
    intro v hv1 hv2 hv3
    simp only at hv2 hv3 ⊢
    rw [s3]; exact h.slotVer v hv1 (by omega) (by omega)
  by_cases hdir : p0.minDec ≤ p.minDec
  · -- same or higher: keys below the new minimum are deleted from the map
    have hk : (kget p.keys p.minDec).isSome = true := by
      rw [s1]; exact (h.keysDom _).2 ⟨hdir, by omega⟩
    have hlen : p.keys.length = p.latest + 1 - p0.minDec := by rw [s1, s2]; exact h.keysLen
    refine ⟨kdelRange p.keys ((p.latest : Int) - (p.keys.length : Int) + 1) p.minDec, ?_, ?_⟩
    · have hr : verRange (p.archiveVer + 1) p.latest = [] := verRange_empty (by omega)
      unfold persist
      simp only [hk]
      rw [if_neg (by omega), if_neg (by omega), if_neg (by simp), if_neg (by omega), if_neg henc, if_neg (by omega)]
      simp only [Bool.not_true, Bool.false_eq_true, if_false]
      rw [hr]
      simp only [toArchive]
      have hnm : ¬ p.archiveMin < p.minAvail := by omega
      have hnv : ¬ p.archiveVer + 1 ≤ p.latest := by omega
      have hnl : ¬ a.length + p.minAvail < p.latest + 1 := by omega
      simp only [hnm, hnv, hnl, false_and, if_false, Nat.zero_ne_one]
      rw [if_neg (by decide)]
    · apply mk
      · exact kdelRange_nodup _ _ _ (by rw [s1]; exact h.keysNodup)
      · intro v
        rw [kget_kdelRange, hlen, s1, h.keysWin, s2, s3]
        have := h.decLe
        by_cases hv : p.minDec ≤ v ∧ v ≤ p0.latest
        · rw [if_neg (by omega), if_pos (by omega), if_pos hv]
        · rw [if_neg hv]
          by_cases hv' : ((p0.latest : Int) - ((p0.latest + 1 - p0.minDec : Nat) : Int) + 1 ≤ (v : Int) ∧ v < p.minDec)
          · rw [if_pos hv']
          · rw [if_neg hv', if_neg (by omega)]
  · -- lower: the keys are read back from the archive
    have hk : (kget p.keys p.minDec).isSome = false := by
      rw [s1]
      cases hc : (kget p0.keys p.minDec).isSome with
      | false => rfl
      | true => have := (h.keysDom _).1 hc; omega
    obtain ⟨ks, hks, hget, hnd⟩ := fromArchive_spec a p.minAvail (verRange p.minDec p.latest) p.keys (by
      intro i hi
      unfold verRange at hi
      rw [List.mem_range'_1] at hi
      omega)
    refine ⟨ks, ?_, ?_⟩
    · unfold persist
      simp only [hk]
      rw [if_neg (by omega), if_neg (by omega), if_neg (by simp; omega), if_neg (by omega), if_neg henc, if_neg (by omega)]
      simp only [Bool.not_false, if_true, hks]
      rw [if_neg (by decide)]
    · apply mk
      · exact hnd (by rw [s1]; exact h.keysNodup)
      · intro v
        have hm : v ∈ verRange p.minDec p.latest ↔ p.minDec ≤ v ∧ v ≤ p.latest := by
          unfold verRange; rw [List.mem_range'_1]; omega
        rw [hget]
        have := h.decLe
        by_cases hv : p.minDec ≤ v ∧ v ≤ p.latest
        · rw [if_pos (hm.2 hv), if_pos hv]
        · rw [if_neg (fun hc => hv (hm.1 hc)), if_neg hv, s1, h.keysWin, if_neg (by omega)]

/-- L5: `Persist` after the trim endpoint raised `min_available_version` drops the archive prefix -/
theorem persist_trim {p : Policy} {a : List Key} (h : PInv p a) (n : Nat)
    (hn1 : p.minAvail ≤ n) (hn2 : n ≤ p.minDec) :
    persist { p with minAvail := n } a 0 = .ok { p with minAvail := n, archiveMin := n } (a.drop (n - p.minAvail)) := by
  have hk : (kget p.keys p.minDec).isSome = true := (h.keysDom _).2 ⟨Nat.le_refl _, h.decLe⟩
  have hlen := h.keysLen
  have h1 := h.decPos; have h2 := h.decLe; have h3 := h.archVer; have h4 := h.archMin
  have h5 := h.archLen; have h6 := h.availDec
  have henc : ¬ (p.minEnc > 0 ∧ p.minEnc < p.minDec) := by
    rcases h.encOk with e | e <;> omega
  have hr : verRange (p.archiveVer + 1) p.latest = [] := verRange_empty (by omega)
  have hdel : kdelRange p.keys ((p.latest : Int) - (p.keys.length : Int) + 1) p.minDec = p.keys := by
    apply kdelRange_none
    intro e _; rw [hlen]; omega
  unfold persist
  simp only [hk]
  rw [if_neg (by omega), if_neg (by omega), if_neg (by simp), if_neg (by omega), if_neg henc, if_neg (by omega)]
  simp only [Bool.not_true, Bool.false_eq_true, if_false]
  rw [hr]
  simp only [toArchive]
  have hnv : ¬ p.archiveVer + 1 ≤ p.latest := by omega
  have hnl : ¬ a.length + n < p.latest + 1 := by omega
  by_cases hlt : p.minAvail < n
  · have hnp : ¬ (n - p.minAvail > a.length) := by omega
    simp only [h4, hlt, hnv, hnl, hnp, true_and, if_true, if_false, hdel, Nat.zero_ne_one]
    rw [if_neg (by decide)]
  · have hnn : n = p.minAvail := by omega
    have h0 : n - p.minAvail = 0 := by omega
    simp only [h4, hlt, hnv, hnl, false_and, if_false, hdel, Nat.zero_ne_one, h0, List.drop_zero]
    rw [if_neg (by decide), ← hnn]

theorem persist_trim_inv {p : Policy} {a : List Key} (h : PInv p a) (n : Nat)
    (hn1 : p.minAvail ≤ n) (hn2 : n ≤ p.minDec) (hn3 : n ≤ p.minEnc) :
    PInv { p with minAvail := n, archiveMin := n } (a.drop (n - p.minAvail)) := by
  have h5 := h.archLen; have h2 := h.decLe
  have hidx : ∀ v, n ≤ v → (a.drop (n - p.minAvail))[v - n]? = a[v - p.minAvail]? := by
    intro v hv
    rw [List.getElem?_drop]
    congr 1; omega
  refine ⟨h.decPos, h.decLe, h.encOk, h.encLe, hn2, hn3, h.archVer, rfl, ?_, h.keysNodup, ?_, ?_⟩
  · simp only [List.length_drop]; omega
  · intro v
    simp only
    rw [h.keysWin]
    by_cases hv : p.minDec ≤ v ∧ v ≤ p.latest
    · rw [if_pos hv, if_pos hv, hidx v (by omega)]
    · rw [if_neg hv, if_neg hv]
  · intro v hv1 hv2 hv3
    simp only at hv2 hv3 ⊢
    rw [hidx v hv2]
    exact h.slotVer v hv1 (by omega) hv3

end Obao.Transit
