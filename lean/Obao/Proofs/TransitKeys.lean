import Obao.Model.Transit
/-! Lemmas about the `Keys` association list of the transit model (core Lean only). -/
namespace Obao.Transit

theorem kget_nil (v : Nat) : kget [] v = none := rfl

theorem kget_cons (e : Nat × Key) (m : List (Nat × Key)) (v : Nat) :
    kget (e :: m) v = if v = e.1 then some e.2 else kget m v := by
  obtain ⟨a, b⟩ := e
  simp only [kget, List.lookup_cons]
  by_cases h : v = a
  · subst h; simp
  · have : (v == a) = false := by simpa using h
    simp [this, h]

theorem kget_isSome_iff (m : List (Nat × Key)) (v : Nat) : (kget m v).isSome ↔ v ∈ m.map Prod.fst := by
  induction m with
  | nil => simp [kget]
  | cons e m ih =>
    rw [kget_cons]
    by_cases h : v = e.1
    · simp [h]
    · simp only [h, if_false, List.map_cons, List.mem_cons, false_or]; exact ih

theorem kget_map_replace (m : List (Nat × Key)) (v : Nat) (k : Key) (w : Nat) :
    kget (m.map (fun e => if e.1 = v then (v, k) else e)) w =
      if w = v then (if (kget m v).isSome then some k else none) else kget m w := by
  induction m with
  | nil => simp [kget]
  | cons e m ih =>
    rw [List.map_cons, kget_cons, ih]
    by_cases hev : e.1 = v
    · by_cases hw : w = v
      · subst hw; simp [hev, kget_cons]
      · have : ¬ w = e.1 := by omega
        simp [hev, hw, kget_cons]
    · by_cases hw : w = v
      · subst hw
        have h1 : ¬ w = e.1 := fun h => hev h.symm
        simp [hev, kget_cons, h1]
      · simp [hev, hw, kget_cons]

theorem kget_append (m₁ m₂ : List (Nat × Key)) (v : Nat) :
    kget (m₁ ++ m₂) v = (kget m₁ v).or (kget m₂ v) := by
  induction m₁ with
  | nil => simp [kget]
  | cons e m ih =>
    rw [List.cons_append, kget_cons, kget_cons, ih]
    by_cases h : v = e.1 <;> simp [h]

theorem kget_kset (m : List (Nat × Key)) (v : Nat) (k : Key) (w : Nat) :
    kget (kset m v k) w = if w = v then some k else kget m w := by
  unfold kset
  by_cases h : (m.lookup v).isSome
  · rw [if_pos h, kget_map_replace]
    have h' : (kget m v).isSome := h
    by_cases hw : w = v <;> simp [hw, h']
  · rw [if_neg h, kget_append]
    have h' : kget m v = none := by
      have : ¬ (kget m v).isSome := h
      simpa using this
    by_cases hw : w = v
    · subst hw; simp [h', kget_cons]
    · simp [hw, kget_cons, kget_nil]

theorem kset_fst (m : List (Nat × Key)) (v : Nat) (k : Key) :
    (kset m v k).map Prod.fst = if (kget m v).isSome then m.map Prod.fst else m.map Prod.fst ++ [v] := by
  unfold kset
  by_cases h : (m.lookup v).isSome
  · have h' : (kget m v).isSome := h
    rw [if_pos h, if_pos h', List.map_map]
    apply List.map_congr_left
    intro e _
    by_cases he : e.1 = v <;> simp [he]
  · have h' : ¬ (kget m v).isSome := h
    rw [if_neg h, if_neg h']; simp

theorem kset_nodup (m : List (Nat × Key)) (v : Nat) (k : Key) (hn : (m.map Prod.fst).Nodup) :
    ((kset m v k).map Prod.fst).Nodup := by
  rw [kset_fst]
  by_cases h : (kget m v).isSome
  · simpa [h] using hn
  · rw [if_neg h]
    have : v ∉ m.map Prod.fst := fun hm => h ((kget_isSome_iff m v).2 hm)
    exact List.nodup_append.2 ⟨hn, by simp, by
      intro a ha b hb; simp at hb; subst hb; intro hab; subst hab; exact this ha⟩

theorem kget_kdelRange (m : List (Nat × Key)) (lo : Int) (hi : Nat) (w : Nat) :
    kget (kdelRange m lo hi) w = if lo ≤ (w : Int) ∧ w < hi then none else kget m w := by
  unfold kdelRange
  induction m with
  | nil => simp [kget]
  | cons e m ih =>
    rw [List.filter_cons]
    by_cases hp : (decide ¬(lo ≤ (e.1 : Int) ∧ e.1 < hi)) = true
    · rw [if_pos hp, kget_cons, kget_cons, ih]
      by_cases hw : w = e.1
      · subst hw
        have : ¬ (lo ≤ (e.1 : Int) ∧ e.1 < hi) := of_decide_eq_true hp
        simp [this]
      · simp [hw]
    · rw [if_neg hp, ih, kget_cons]
      by_cases hw : w = e.1
      · subst hw
        have : (lo ≤ (e.1 : Int) ∧ e.1 < hi) := by
          apply Decidable.of_not_not; intro hc; exact hp (decide_eq_true hc)
        simp [this]
      · simp [hw]

theorem kdelRange_nodup (m : List (Nat × Key)) (lo : Int) (hi : Nat) (hn : (m.map Prod.fst).Nodup) :
    ((kdelRange m lo hi).map Prod.fst).Nodup := by
  unfold kdelRange
  exact List.Nodup.sublist (List.Sublist.map _ List.filter_sublist) hn

/-- a duplicate-free key list whose domain is exactly the interval `[a, b]` has `b + 1 - a` entries -/
theorem keys_length (m : List (Nat × Key)) (a b : Nat) (hn : (m.map Prod.fst).Nodup)
    (hdom : ∀ v, (kget m v).isSome ↔ a ≤ v ∧ v ≤ b) : m.length = b + 1 - a := by
  have hperm : (m.map Prod.fst).Perm (List.range' a (b + 1 - a)) := by
    rw [List.perm_ext_iff_of_nodup hn (List.nodup_range' (step := 1))]
    intro v
    rw [← kget_isSome_iff, hdom, List.mem_range'_1]
    omega
  have := hperm.length_eq
  simpa using this

end Obao.Transit
