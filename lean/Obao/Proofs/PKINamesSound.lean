import Obao.Proofs.PKIStrings
/-! Soundness of the string implementation `validateName` for the label-level specification `nameAllowed`
(helper lemmas; the theorems themselves are restated in `Obao/Props/C15.lean`). -/
namespace Obao.PKI

/-- how the host part relates to (wildcard label, reduced name) after the wildcard step -/
def HostForm (host w reduced : Str) (isW : Bool) : Prop :=
  (isW = false ∧ reduced = host) ∨ (isW = true ∧ ((reduced = [] ∧ host = w) ∨ host = w ++ '.' :: reduced))

theorem labels_ne_nil (s : Str) : labels s ≠ [] := splitOn_ne_nil _ _

theorem labels_append (a b : Str) : labels (a ++ '.' :: b) = labels a ++ labels b := splitOn_append _ _ _

theorem lower_append_dot (a b : Str) : lower (a ++ '.' :: b) = lower a ++ '.' :: lower b := by
  simp [lower, show lowerCh '.' = '.' by decide]

theorem lower_eq_nil {s : Str} (h : lower s = []) : s = [] := by
  simpa [lower] using h

theorem under_of_suffix {host w reduced base : Str} {isW : Bool} (hf : HostForm host w reduced isW)
    (hs : hasSuffix reduced ('.' :: base) = true) : underLabels (labels host) (labels base) := by
  obtain ⟨x, hx⟩ := hasSuffix_elim hs
  rcases hf with ⟨_, hr⟩ | ⟨_, ⟨hr, _⟩ | hh⟩
  · subst hr
    exact ⟨labels x, labels_ne_nil x, by rw [hx, labels_append]⟩
  · rw [hr] at hx
    cases x <;> simp at hx
  · refine ⟨labels w ++ labels x, by simp [labels_ne_nil], ?_⟩
    rw [hh, hx, labels_append, labels_append, List.append_assoc]

theorem under_of_suffix_lower {host w reduced base : Str} {isW : Bool} (hf : HostForm host w reduced isW)
    (hs : hasSuffix reduced ('.' :: base) = true) :
    underLabels (labels (lower host)) (labels (lower base)) := by
  obtain ⟨x, hx⟩ := hasSuffix_elim hs
  rcases hf with ⟨_, hr⟩ | ⟨_, ⟨hr, _⟩ | hh⟩
  · subst hr
    exact ⟨labels (lower x), labels_ne_nil _, by rw [hx, lower_append_dot, labels_append]⟩
  · rw [hr] at hx
    cases x <;> simp at hx
  · refine ⟨labels (lower w) ++ labels (lower x), by simp [labels_ne_nil], ?_⟩
    rw [hh, hx, lower_append_dot, lower_append_dot, labels_append, labels_append, List.append_assoc]

theorem under_of_wild_eq {host w reduced base : Str} (hf : HostForm host w reduced true)
    (he : reduced = base) (hb : base ≠ []) : underLabels (labels host) (labels base) := by
  rcases hf with ⟨h, _⟩ | ⟨_, ⟨hr, _⟩ | hh⟩
  · simp at h
  · exact absurd (he ▸ hr) hb
  · exact ⟨labels w, labels_ne_nil w, by rw [hh, labels_append, he]⟩

theorem under_of_wild_eq_lower {host w reduced base : Str} (hf : HostForm host w reduced true)
    (he : lower reduced = lower base) (hb : base ≠ []) :
    underLabels (labels (lower host)) (labels (lower base)) := by
  rcases hf with ⟨h, _⟩ | ⟨_, ⟨hr, _⟩ | hh⟩
  · simp at h
  · subst hr
    exact absurd (lower_eq_nil he.symm) hb
  · exact ⟨labels (lower w), labels_ne_nil _, by rw [hh, lower_append_dot, labels_append, he]⟩

/-- the e-mail split produces the shape of the name -/
theorem emailSplit_spec {n r0 ed : Str} {isEmail : Bool} (h : emailSplit n = some (r0, ed, isEmail)) :
    ed = r0 ∧ shapeOf n { host := r0, isEmail := isEmail } := by
  unfold emailSplit at h
  split at h
  · split at h
    · rename_i a d hsp
      simp at h
      obtain ⟨h1, h2, h3⟩ := h
      subst h1; subst h2; subst h3
      obtain ⟨e1, e2, e3⟩ := splitOn_pair hsp
      exact ⟨rfl, Or.inr ⟨rfl, a, e1, e2, e3⟩⟩
    · simp at h
  · rename_i hc
    simp at h
    obtain ⟨h1, h2, h3⟩ := h
    subst h1; subst h2; subst h3
    exact ⟨rfl, Or.inl ⟨rfl, rfl, by simpa using hc⟩⟩

/-- the wildcard step: one `*`, in the leftmost label -/
theorem wildcard_spec {host w reduced : Str} (hc : containsCh host '*' = true)
    (h : validateWildcardDomain host = some (w, reduced)) :
    HostForm host w reduced true ∧ wildcardHost host ∧ countCh w '*' = 1 ∧ containsCh w '.' = false := by
  unfold validateWildcardDomain at h
  split at h
  · simp at h
  · rename_i hcnt
    have hpos := countCh_pos_of_contains hc
    have hone : countCh host '*' = 1 := by omega
    split at h
    · rename_i l hcut
      simp at h
      obtain ⟨h1, h2⟩ := h
      subst h1; subst h2
      obtain ⟨e1, e2⟩ := cut_none hcut
      subst e1
      refine ⟨Or.inr ⟨rfl, Or.inl ⟨rfl, rfl⟩⟩, ⟨l, [], ?_, hone, by simp⟩, hone, e2⟩
      exact splitOn_of_not_contains e2
    · rename_i l rest hcut
      split at h
      · simp at h
      · rename_i hrest
        simp at h
        obtain ⟨h1, h2⟩ := h
        subst h1; subst h2
        obtain ⟨e1, e2⟩ := cut_some hcut
        have hrest' : containsCh rest '*' = false := by simpa using hrest
        have hw : countCh l '*' = 1 := by
          have := countCh_append l ('.' :: rest) '*'
          rw [← e1] at this
          have hz : countCh ('.' :: rest) '*' = 0 := by
            apply countCh_zero_of_not_contains
            rw [containsCh_cons, hrest']; decide
          omega
        refine ⟨Or.inr ⟨rfl, Or.inr e1⟩, ⟨l, labels rest, ?_, hw, ?_⟩, hw, e2⟩
        · show splitOn '.' host = l :: splitOn '.' rest
          rw [e1, splitOn_append, splitOn_of_not_contains e2]; rfl
        · intro lab hlab
          cases hl : containsCh lab '*' with
          | false => rfl
          | true =>
            have := contains_of_mem_splitOn hlab hl
            rw [hrest'] at this
            exact absurd this (by simp)

theorem beq_str {a b : Str} (h : (a == b) = true) : a = b := by simpa using h

theorem labels_localhost : labels localhost = [localhost] := by decide
theorem labels_localdomain : labels localdomain = [localdomain] := by decide
theorem localhost_ne_nil : localhost ≠ [] := by decide
theorem localdomain_ne_nil : localdomain ≠ [] := by decide

/-- conclusion of `localhost_sound` -/
def LHGoal (r : NameRole) (host w : Str) (isW : Bool) : Prop :=
    (labels host = [localhost] ∨ labels host = [localdomain]
      ∨ (r.allowSub = true ∧ (underLabels (labels host) [localhost] ∨ underLabels (labels host) [localdomain])))
    ∨ (r.allowSub = false ∧ isW = true ∧ countCh w '*' = 1 ∧ containsCh w '.' = false ∧
        (host = w ++ '.' :: localhost ∨ host = w ++ '.' :: localdomain))

/-- the localhost block, read at label level; the second alternative is the one exception -/
theorem localhost_sound {r : NameRole} {host w reduced ed : Str} {isEmail isW : Bool}
    (hf : HostForm host w reduced isW) (hed : isEmail = true → ed = host ∧ isW = false)
    (hw : isW = true → countCh w '*' = 1 ∧ containsCh w '.' = false)
    (h : localhostMatches r reduced ed isEmail isW = true) : LHGoal r host w isW := by
  -- a reduced name equal to one of the two bases
  have base : ∀ b : Str, b ≠ [] → labels b = [b] → reduced = b →
      (labels host = [b] ∨ (r.allowSub = true ∧ underLabels (labels host) [b]))
      ∨ (r.allowSub = false ∧ isW = true ∧ countCh w '*' = 1 ∧ containsCh w '.' = false ∧ host = w ++ '.' :: b) := by
    intro b hb hlb he
    cases hW : isW with
    | false =>
      rcases hf with ⟨_, hr⟩ | ⟨hc, _⟩
      · left; left; rw [← hr, he, hlb]
      · rw [hW] at hc; simp at hc
    | true =>
      subst hW
      have hu := under_of_wild_eq hf he hb
      rw [hlb] at hu
      cases hs : r.allowSub with
      | true => left; right; exact ⟨rfl, hu⟩
      | false =>
        right
        obtain ⟨h1, h2⟩ := hw rfl
        refine ⟨rfl, rfl, h1, h2, ?_⟩
        rcases hf with ⟨hc, _⟩ | ⟨_, ⟨hr, _⟩ | hh⟩
        · simp at hc
        · exact absurd (he ▸ hr) hb
        · rw [hh, he]
  have emailBase : ∀ b : Str, isEmail = true → ed = b → reduced = b := by
    intro b hem he
    obtain ⟨e1, e2⟩ := hed hem
    rcases hf with ⟨_, hr⟩ | ⟨hc, _⟩
    · rw [hr, ← e1, he]
    · rw [e2] at hc; simp at hc
  have fromLH := fun (he : reduced = localhost) => base localhost localhost_ne_nil labels_localhost he
  have fromLD := fun (he : reduced = localdomain) => base localdomain localdomain_ne_nil labels_localdomain he
  have liftLH : ((labels host = [localhost] ∨ (r.allowSub = true ∧ underLabels (labels host) [localhost]))
      ∨ (r.allowSub = false ∧ isW = true ∧ countCh w '*' = 1 ∧ containsCh w '.' = false ∧ host = w ++ '.' :: localhost)) → LHGoal r host w isW := by
    intro hh
    unfold LHGoal
    rcases hh with (h1 | ⟨h1, h2⟩) | ⟨h1, h2, h3, h4, h5⟩
    · exact Or.inl (Or.inl h1)
    · exact Or.inl (Or.inr (Or.inr ⟨h1, Or.inl h2⟩))
    · exact Or.inr ⟨h1, h2, h3, h4, Or.inl h5⟩
  have liftLD : ((labels host = [localdomain] ∨ (r.allowSub = true ∧ underLabels (labels host) [localdomain]))
      ∨ (r.allowSub = false ∧ isW = true ∧ countCh w '*' = 1 ∧ containsCh w '.' = false ∧ host = w ++ '.' :: localdomain)) → LHGoal r host w isW := by
    intro hh
    unfold LHGoal
    rcases hh with (h1 | ⟨h1, h2⟩) | ⟨h1, h2, h3, h4, h5⟩
    · exact Or.inl (Or.inr (Or.inl h1))
    · exact Or.inl (Or.inr (Or.inr ⟨h1, Or.inr h2⟩))
    · exact Or.inr ⟨h1, h2, h3, h4, Or.inr h5⟩
  unfold localhostMatches at h
  simp only [Bool.or_eq_true, Bool.and_eq_true] at h
  rcases h with (((h | h) | ⟨hem, h⟩) | ⟨hem, h⟩) | ⟨hsub, h⟩
  · exact liftLH (fromLH (beq_str h))
  · exact liftLD (fromLD (beq_str h))
  · exact liftLH (fromLH (emailBase _ hem (beq_str h)))
  · exact liftLD (fromLD (emailBase _ hem (beq_str h)))
  · rcases h with ((h | ⟨_, h⟩) | h) | ⟨_, h⟩
    · have := under_of_suffix hf h
      rw [labels_localhost] at this
      unfold LHGoal
      exact Or.inl (Or.inr (Or.inr ⟨hsub, Or.inl this⟩))
    · exact liftLH (fromLH (beq_str h))
    · have := under_of_suffix hf h
      rw [labels_localdomain] at this
      unfold LHGoal
      exact Or.inl (Or.inr (Or.inr ⟨hsub, Or.inr this⟩))
    · exact liftLD (fromLD (beq_str h))

/-- the token display name block -/
theorem displayName_sound {r : NameRole} {n host w reduced : Str} {isEmail isW : Bool}
    (hf : HostForm host w reduced isW) (hdn : r.displayName ≠ [])
    (h : displayNameMatches r n reduced isEmail isW = true) :
    n = r.displayName
    ∨ (r.allowSub = true ∧
        (underLabels (labels host) (labels r.displayName)
         ∨ (isEmail = true ∧ ∃ loc dd, r.displayName = loc ++ '@' :: dd ∧ underLabels (labels host) (labels dd)))) := by
  unfold displayNameMatches at h
  simp only [Bool.or_eq_true, Bool.and_eq_true] at h
  rcases h with h | ⟨hsub, h⟩
  · exact Or.inl (beq_str h)
  · right
    refine ⟨hsub, ?_⟩
    rcases h with (⟨⟨hem, _⟩, h⟩ | h) | ⟨hW, h⟩
    · right
      split at h
      · rename_i loc dd hsp
        obtain ⟨e1, _, _⟩ := splitOn_pair hsp
        exact ⟨hem, loc, dd, e1, under_of_suffix hf h⟩
      · simp at h
    · exact Or.inl (under_of_suffix hf h)
    · subst hW
      exact Or.inl (under_of_wild_eq hf (beq_str h) hdn)

/-- one allowed domain -/
theorem domain_sound {r : NameRole} {n host w reduced ed d : Str} {isEmail isW : Bool}
    (hf : HostForm host w reduced isW) (hed : ed = host) (hd : d ≠ [])
    (h : domainMatches r n reduced ed isEmail isW d = true) :
    domainAllows r n { host := host, isEmail := isEmail } d := by
  unfold domainMatches at h
  simp only [Bool.or_eq_true, Bool.and_eq_true] at h
  unfold domainAllows
  rcases h with (⟨hb, h⟩ | ⟨hs, h⟩) | ⟨⟨hg, hc⟩, h⟩
  · left
    refine ⟨hb, ?_⟩
    rcases h with h | ⟨hem, h⟩
    · left; unfold equalFold at h; exact beq_str h
    · right; unfold equalFold at h; subst hed; exact ⟨hem, beq_str h⟩
  · right; left
    refine ⟨hs, ?_⟩
    rcases h with h | ⟨hW, h⟩
    · exact under_of_suffix_lower hf h
    · subst hW
      unfold equalFold at h
      exact under_of_wild_eq_lower hf (beq_str h) hd
  · right; right
    exact ⟨hg, hc, glob_sound h⟩

/-- `validateName` accepts only names the label-level reading of the role allows — or a wildcard over
localhost / localdomain without `allow_subdomains` (what the unchanged code really does). -/
theorem validateName_sound (r : NameRole) (n : Str)
    (hdn : r.allowTokenDisplayName = true → r.displayName ≠ [])
    (h0 : validateName r n = true) : nameAllowed r n ∨ wildcardLocalhost r n := by
  have h : validateNameBody r n = true := by
    unfold validateName at h0
    simp only [Bool.and_eq_true] at h0
    exact h0.2
  unfold validateNameBody at h
  split at h
  · simp at h
  · rename_i r0 ed isEmail hes
    obtain ⟨hed, hshape⟩ := emailSplit_spec hes
    simp only at h
    split at h
    · simp at h
    · rename_i w reduced hwild
      -- facts about the wildcard step
      have hfacts : HostForm r0 w reduced (containsCh r0 '*') ∧
          (containsCh r0 '*' = true → r.allowWildcard = true ∧ wildcardHost r0 ∧ countCh w '*' = 1 ∧ containsCh w '.' = false) := by
        cases hc : containsCh r0 '*' with
        | false =>
          rw [hc] at hwild
          simp at hwild
          exact ⟨Or.inl ⟨rfl, hwild.2.symm⟩, by intro hh; simp at hh⟩
        | true =>
          rw [hc] at hwild
          simp at hwild
          obtain ⟨haw, hv⟩ := hwild
          obtain ⟨f1, f2, f3, f4⟩ := wildcard_spec hc hv
          exact ⟨f1, fun _ => ⟨haw, f2, f3, f4⟩⟩
      obtain ⟨hf, hwf⟩ := hfacts
      split at h
      · simp at h
      · rename_i hew
        have hnotboth : ¬ (isEmail = true ∧ containsCh r0 '*' = true) := by simpa using hew
        have hwildSpec : containsCh r0 '*' = true → r.allowWildcard = true ∧ isEmail = false ∧ wildcardHost r0 := by
          intro hc
          obtain ⟨a, b, _, _⟩ := hwf hc
          refine ⟨a, ?_, b⟩
          cases isEmail with
          | false => rfl
          | true => exact absurd ⟨rfl, hc⟩ hnotboth
        split at h
        · simp at h
        · split at h
          · rename_i hany
            exact Or.inl ⟨_, hshape, hwildSpec, Or.inl hany⟩
          · split at h
            · rename_i hlh
              simp only [Bool.and_eq_true] at hlh
              obtain ⟨hlh1, hlh2⟩ := hlh
              have := localhost_sound (r := r) hf
                (by intro hem
                    refine ⟨hed, ?_⟩
                    cases hc : containsCh r0 '*' with
                    | false => rfl
                    | true => exact absurd ⟨hem, hc⟩ hnotboth)
                (by intro hc; obtain ⟨_, _, c1, c2⟩ := hwf hc; exact ⟨c1, c2⟩) hlh2
              unfold LHGoal at this
              rcases this with hok | ⟨hs, hW, c1, c2, hhost⟩
              · exact Or.inl ⟨_, hshape, hwildSpec, Or.inr (Or.inl ⟨hlh1, hok⟩)⟩
              · right
                obtain ⟨haw, hne, _⟩ := hwildSpec hW
                have hname : n = r0 := by
                  rcases hshape with ⟨_, hh, _⟩ | ⟨hh, _⟩
                  · exact hh.symm
                  · simp at hh; rw [hne] at hh; simp at hh
                refine ⟨hlh1, hs, haw, w, c1, c2, ?_⟩
                rw [hname]
                exact hhost
            · split at h
              · rename_i htd
                simp only [Bool.and_eq_true] at htd
                obtain ⟨htd1, htd2⟩ := htd
                have := displayName_sound (r := r) (n := n) hf (hdn htd1) htd2
                exact Or.inl ⟨_, hshape, hwildSpec, Or.inr (Or.inr (Or.inl ⟨htd1, this⟩))⟩
              · obtain ⟨d, hdmem, hdm⟩ := List.any_eq_true.mp h
                simp only [List.mem_filter] at hdmem
                obtain ⟨hdin, hdne⟩ := hdmem
                have hdne' : d ≠ [] := by
                  intro hh; subst hh; simp at hdne
                have := domain_sound (r := r) (n := n) hf hed hdne' hdm
                exact Or.inl ⟨_, hshape, hwildSpec, Or.inr (Or.inr (Or.inr ⟨d, hdin, hdne', this⟩))⟩

end Obao.PKI
