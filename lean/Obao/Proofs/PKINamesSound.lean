import Obao.Proofs.PKIStrings
/-! Soundness of the string implementation `validateName` for the label-level specification `nameAllowed`
(helper lemmas; the theorems themselves are restated in `Obao/Props/C15.lean`). -/
namespace Obao.PKI

/-- how the host part relates to (wildcard label, reduced name) after the wildcard step -/
def HostForm (host w reduced : Str) (isW : Bool) : Prop :=
  (isW = false ∧ reduced = host) ∨ (isW = true ∧ ((reduced = [] ∧ host = w) ∨ host = w ++ '.' :: reduced))

theorem labels_ne_nil (s : Str) : labels s ≠ [] := splitOn_ne_nil _ _

theorem labels_append (a b : Str) : labels (a ++ '.' :: b) = labels a ++ labels b := splitOn_append _ _ _

theorem lower_append_dot (a b : Str) : lower (a ++ '.' :: b) = lower a ++ '.' :: lower b := by
  simp [lower, show lowerCh '.' = '.' by decide]

theorem lower_eq_nil {s : Str} (h : lower s = []) : s = [] := by
  simpa [lower] using h

theorem under_of_suffix {host w reduced base : Str} {isW : Bool} (hf : HostForm host w reduced isW)
    (hs : hasSuffix reduced ('.' :: base) = true) : underLabels (labels host) (labels base) := by
  obtain ⟨x, hx⟩ := hasSuffix_elim hs
  rcases hf with ⟨_, hr⟩ | ⟨_, ⟨hr, _⟩ | hh⟩
  · subst hr
    exact ⟨labels x, labels_ne_nil x, by rw [hx, labels_append]⟩
  · rw [hr] at hx
    cases x <;> simp at hx
  · refine ⟨labels w ++ labels x, by simp [labels_ne_nil], ?_⟩
    rw [hh, hx, labels_append, labels_append, List.append_assoc]

theorem under_of_suffix_lower {host w reduced base : Str} {isW : Bool} (hf : HostForm host w reduced isW)
    (hs : hasSuffix reduced ('.' :: base) = true) :
    underLabels (labels (lower host)) (labels (lower base)) := by
  obtain ⟨x, hx⟩ := hasSuffix_elim hs
  rcases hf with ⟨_, hr⟩ | ⟨_, ⟨hr, _⟩ | hh⟩
  · subst hr
    exact ⟨labels (lower x), labels_ne_nil _, by rw [hx, lower_append_dot, labels_append]⟩
  · rw [hr] at hx
    cases x <;> simp at hx
  · refine ⟨labels (lower w) ++ labels (lower x), by simp [labels_ne_nil], ?_⟩
    rw [hh, hx, lower_append_dot, lower_append_dot, labels_append, labels_append, List.append_assoc]

theorem under_of_wild_eq {host w reduced base : Str} (hf : HostForm host w reduced true)
    (he : reduced = base) (hb : base ≠ []) : underLabels (labels host) (labels base) := by
  rcases hf with ⟨h, _⟩ | ⟨_, ⟨hr, _⟩ | hh⟩
  · simp at h
  · exact absurd (he ▸ hr) hb
  · exact ⟨labels w, labels_ne_nil w, by rw [hh, labels_append, he]⟩

theorem under_of_wild_eq_lower {host w reduced base : Str} (hf : HostForm host w reduced true)
    (he : lower reduced = lower base) (hb : base ≠ []) :
    underLabels (labels (lower host)) (labels (lower base)) := by
  rcases hf with ⟨h, _⟩ | ⟨_, ⟨hr, _⟩ | hh⟩
  · simp at h
  · subst hr
    exact absurd (lower_eq_nil he.symm) hb
  · exact ⟨labels (lower w), labels_ne_nil _, by rw [hh, lower_append_dot, labels_append, he]⟩

/-- the e-mail split produces the shape of the name -/
theorem emailSplit_spec {n r0 ed : Str} {isEmail : Bool} (h : emailSplit n = some (r0, ed, isEmail)) :
    ed = r0 ∧ shapeOf n { host := r0, isEmail := isEmail } := by
  unfold emailSplit at h
  split at h
  · split at h
    · rename_i a d hsp
      simp at h
      obtain ⟨h1, h2, h3⟩ := h
      subst h1; subst h2; subst h3
      obtain ⟨e1, e2, e3⟩ := splitOn_pair hsp
      exact ⟨rfl, Or.inr ⟨rfl, a, e1, e2, e3⟩⟩
    · simp at h
  · rename_i hc
    simp at h
    obtain ⟨h1, h2, h3⟩ := h
    subst h1; subst h2; subst h3
    exact ⟨rfl, Or.inl ⟨rfl, rfl, by simpa using hc⟩⟩

/-- the wildcard step: one `*`, in the leftmost label -/
theorem wildcard_spec {host w reduced : Str} (hc : containsCh host '*' = true)
    (h : validateWildcardDomain host = some (w, reduced)) :
    HostForm host w reduced true ∧ wildcardHost host ∧ countCh w '*' = 1 ∧ containsCh w '.' = false := by
  unfold validateWildcardDomain at h
  split at h
  · simp at h
  · rename_i hcnt
    have hpos := countCh_pos_of_contains hc
    have hone : countCh host '*' = 1 := by omega
    split at h
    · rename_i l hcut
      simp at h
      obtain ⟨h1, h2⟩ := h
      subst h1; subst h2
      obtain ⟨e1, e2⟩ := cut_none hcut
      subst e1
      refine ⟨Or.inr ⟨rfl, Or.inl ⟨rfl, rfl⟩⟩, ⟨l, [], ?_, hone, by simp⟩, hone, e2⟩
      exact splitOn_of_not_contains e2
    · rename_i l rest hcut
      split at h
      · simp at h
      · rename_i hrest
        simp at h
        obtain ⟨h1, h2⟩ := h
        subst h1; subst h2
        obtain ⟨e1, e2⟩ := cut_some hcut
        have hrest' : containsCh rest '*' = false := by simpa using hrest
        have hw : countCh l '*' = 1 := by
          have := countCh_append l ('.' :: rest) '*'
          rw [← e1] at this
          have hz : countCh ('.' :: rest) '*' = 0 := by
            apply countCh_zero_of_not_contains
            rw [containsCh_cons, hrest']; decide
          omega
        refine ⟨Or.inr ⟨rfl, Or.inr e1⟩, ⟨l, labels rest, ?_, hw, ?_⟩, hw, e2⟩
        · show splitOn '.' host = l :: splitOn '.' rest
          rw [e1, splitOn_append, splitOn_of_not_contains e2]; rfl
        · intro lab hlab
          cases hl : containsCh lab '*' with
          | false => rfl
          | true =>
            have := contains_of_mem_splitOn hlab hl
            rw [hrest'] at this
            exact absurd this (by simp)

theorem beq_str {a b : Str} (h : (a == b) = true) : a = b := by simpa using h

theorem labels_localhost : labels localhost = [localhost] := by decide
theorem labels_localdomain : labels localdomain = [localdomain] := by decide
theorem localhost_ne_nil : localhost ≠ [] := by decide
theorem localdomain_ne_nil : localdomain ≠ [] := by decide

/-- the localhost block, read at label level -/
theorem localhost_sound {r : NameRole} {n host w reduced ed : Str} {isEmail isW : Bool}
    (hf : HostForm host w reduced isW) (hed : isEmail = true → ed = host)
    (hname : ∀ b : Str, (b = localhost ∨ b = localdomain) → n = b → host = b)
    (h : localhostMatches r n reduced ed isEmail isW = true) :
    labels host = [localhost] ∨ labels host = [localdomain]
      ∨ (r.allowSub = true ∧ (underLabels (labels host) [localhost] ∨ underLabels (labels host) [localdomain])) := by
  unfold localhostMatches at h
  simp only [Bool.or_eq_true, Bool.and_eq_true] at h
  rcases h with (((h | h) | ⟨hem, h⟩) | ⟨hem, h⟩) | ⟨hsub, h⟩
  · left; rw [hname _ (Or.inl rfl) (beq_str h), labels_localhost]
  · right; left; rw [hname _ (Or.inr rfl) (beq_str h), labels_localdomain]
  · left; rw [← hed hem, beq_str h, labels_localhost]
  · right; left; rw [← hed hem, beq_str h, labels_localdomain]
  · right; right
    refine ⟨hsub, ?_⟩
    rcases h with ((h | ⟨hW, h⟩) | h) | ⟨hW, h⟩
    · left; have := under_of_suffix hf h; rwa [labels_localhost] at this
    · left; subst hW
      have := under_of_wild_eq hf (beq_str h) localhost_ne_nil
      rwa [labels_localhost] at this
    · right; have := under_of_suffix hf h; rwa [labels_localdomain] at this
    · right; subst hW
      have := under_of_wild_eq hf (beq_str h) localdomain_ne_nil
      rwa [labels_localdomain] at this

/-- the token display name block -/
theorem displayName_sound {r : NameRole} {n host w reduced : Str} {isEmail isW : Bool}
    (hf : HostForm host w reduced isW) (hdn : r.displayName ≠ [])
    (h : displayNameMatches r n reduced isEmail isW = true) :
    n = r.displayName
    ∨ (r.allowSub = true ∧
        (underLabels (labels host) (labels r.displayName)
         ∨ (isEmail = true ∧ ∃ loc dd, r.displayName = loc ++ '@' :: dd ∧ underLabels (labels host) (labels dd)))) := by
  unfold displayNameMatches at h
  simp only [Bool.or_eq_true, Bool.and_eq_true] at h
  rcases h with h | ⟨hsub, h⟩
  · exact Or.inl (beq_str h)
  · right
    refine ⟨hsub, ?_⟩
    rcases h with (⟨⟨hem, _⟩, h⟩ | h) | ⟨hW, h⟩
    · right
      split at h
      · rename_i loc dd hsp
        obtain ⟨e1, _, _⟩ := splitOn_pair hsp
        exact ⟨hem, loc, dd, e1, under_of_suffix hf h⟩
      · simp at h
    · exact Or.inl (under_of_suffix hf h)
    · subst hW
      exact Or.inl (under_of_wild_eq hf (beq_str h) hdn)

/-- one allowed domain -/
theorem domain_sound {r : NameRole} {n host w reduced ed d : Str} {isEmail isW : Bool}
    (hf : HostForm host w reduced isW) (hed : ed = host) (hd : d ≠ [])
    (h : domainMatches r n reduced ed isEmail isW d = true) :
    domainAllows r n { host := host, isEmail := isEmail } d := by
  unfold domainMatches at h
  simp only [Bool.or_eq_true, Bool.and_eq_true] at h
  unfold domainAllows
  rcases h with (⟨hb, h⟩ | ⟨hs, h⟩) | ⟨⟨hg, hc⟩, h⟩
  · left
    refine ⟨hb, ?_⟩
    rcases h with h | ⟨hem, h⟩
    · left; unfold equalFold at h; exact beq_str h
    · right; unfold equalFold at h; subst hed; exact ⟨hem, beq_str h⟩
  · right; left
    refine ⟨hs, ?_⟩
    rcases h with h | ⟨hW, h⟩
    · exact under_of_suffix_lower hf h
    · subst hW
      unfold equalFold at h
      exact under_of_wild_eq_lower hf (beq_str h) hd
  · right; right
    exact ⟨hg, hc, glob_sound h⟩

/-- `validateName` accepts only names the label-level reading of the role allows. -/
theorem validateName_sound (r : NameRole) (n : Str)
    (hdn : r.allowTokenDisplayName = true → r.displayName ≠ [])
    (h0 : validateName r n = true) : nameAllowed r n := by
  have h : validateNameBody r n = true := by
    unfold validateName at h0
    simp only [Bool.and_eq_true] at h0
    exact h0.2
  unfold validateNameBody at h
  split at h
  · simp at h
  · rename_i r0 ed isEmail hes
    obtain ⟨hed, hshape⟩ := emailSplit_spec hes
    simp only at h
    split at h
    · simp at h
    · rename_i w reduced hwild
      -- facts about the wildcard step
      have hfacts : HostForm r0 w reduced (containsCh r0 '*') ∧
          (containsCh r0 '*' = true → r.allowWildcard = true ∧ wildcardHost r0 ∧ countCh w '*' = 1 ∧ containsCh w '.' = false) := by
        cases hc : containsCh r0 '*' with
        | false =>
          rw [hc] at hwild
          simp at hwild
          exact ⟨Or.inl ⟨rfl, hwild.2.symm⟩, by intro hh; simp at hh⟩
        | true =>
          rw [hc] at hwild
          simp at hwild
          obtain ⟨haw, hv⟩ := hwild
          obtain ⟨f1, f2, f3, f4⟩ := wildcard_spec hc hv
          exact ⟨f1, fun _ => ⟨haw, f2, f3, f4⟩⟩
      obtain ⟨hf, hwf⟩ := hfacts
      split at h
      · simp at h
      · rename_i hew
        have hnotboth : ¬ (isEmail = true ∧ containsCh r0 '*' = true) := by simpa using hew
        have hwildSpec : containsCh r0 '*' = true → r.allowWildcard = true ∧ isEmail = false ∧ wildcardHost r0 := by
          intro hc
          obtain ⟨a, b, _, _⟩ := hwf hc
          refine ⟨a, ?_, b⟩
          cases isEmail with
          | false => rfl
          | true => exact absurd ⟨rfl, hc⟩ hnotboth
        split at h
        · simp at h
        · split at h
          · rename_i hany
            exact ⟨_, hshape, hwildSpec, Or.inl hany⟩
          · split at h
            · rename_i hlh
              simp only [Bool.and_eq_true] at hlh
              obtain ⟨hlh1, hlh2⟩ := hlh
              have hnm : ∀ b : Str, (b = localhost ∨ b = localdomain) → n = b → r0 = b := by
                intro b hb hnb
                rcases hshape with ⟨_, hh, _⟩ | ⟨_, loc, hname, _, _⟩
                · exact hh.trans hnb
                · have hc : containsCh n '@' = true := by
                    rw [hname, containsCh_append, containsCh_cons]; simp
                  rw [hnb] at hc
                  rcases hb with rfl | rfl <;> exact absurd hc (by decide)
              have := localhost_sound (r := r) (n := n) hf (fun _ => hed) hnm hlh2
              exact ⟨_, hshape, hwildSpec, Or.inr (Or.inl ⟨hlh1, this⟩)⟩
            · split at h
              · rename_i htd
                simp only [Bool.and_eq_true] at htd
                obtain ⟨htd1, htd2⟩ := htd
                have := displayName_sound (r := r) (n := n) hf (hdn htd1) htd2
                exact ⟨_, hshape, hwildSpec, Or.inr (Or.inr (Or.inl ⟨htd1, this⟩))⟩
              · obtain ⟨d, hdmem, hdm⟩ := List.any_eq_true.mp h
                simp only [List.mem_filter] at hdmem
                obtain ⟨hdin, hdne⟩ := hdmem
                have hdne' : d ≠ [] := by
                  intro hh; subst hh; simp at hdne
                have := domain_sound (r := r) (n := n) hf hed hdne' hdm
                exact ⟨_, hshape, hwildSpec, Or.inr (Or.inr (Or.inr ⟨d, hdin, hdne', this⟩))⟩

end Obao.PKI
