import Obao.Model.GF256
/-!
Core-only arithmetic facts about the model's GF(2^8) operations (`Obao.GF256.mult`, `inverse`, `add`):
closure below 256, xor-bilinearity of `mult` (algebra over one enumerated fact: the reduction step is
xor-linear), and from bilinearity + the 8-element bit basis: commutativity, associativity, unit.
No 2^24-triple enumeration anywhere: the largest table is 65 536 cheap cases (`redc_lin`).
-/
namespace Obao.GF256

/-- checked enumeration over a rectangle, evaluated by the kernel -/
def all2 (n m : Nat) (p : Nat → Nat → Bool) : Bool :=
  (List.range n).all fun a => (List.range m).all fun b => p a b

theorem all2_spec {n m : Nat} {p : Nat → Nat → Bool} (h : all2 n m p = true) :
    ∀ a < n, ∀ b < m, p a b = true := by
  intro a ha b hb
  simp only [all2, List.all_eq_true, List.mem_range] at h
  exact h a ha b hb

/-- the reduction step of one round: `(-(r>>7) & 0x1B) ^ (r+r)` on a byte -/
def redc (r : Nat) : Nat := ((r / 128) * 27) ^^^ ((r + r) % 256)

/-- bit `i` of `b` as the 0/1 multiplier of a round -/
def bit (b i : Nat) : Nat := (b >>> i) % 2

theorem round_eq (a b r i : Nat) : round a b r i = (bit b i * a) ^^^ redc r := by
  simp only [round, redc, bit, Nat.xor_assoc]

theorem bit_cases (b i : Nat) : bit b i = 0 ∨ bit b i = 1 := Nat.mod_two_eq_zero_or_one _

theorem bit_xor (b b' i : Nat) : bit (b ^^^ b') i = bit b i ^^^ bit b' i := by
  simp only [bit, Nat.shiftRight_xor_distrib]
  exact Nat.xor_mod_two_pow (n := 1)

set_option maxRecDepth 100000 in
theorem redc_lin_tab :
    all2 256 256 (fun r s => redc (r ^^^ s) == (redc r ^^^ redc s)) = true := by decide +kernel

/-- the reduction step is xor-linear on bytes (65 536 cases) -/
theorem redc_lin {r s : Nat} (hr : r < 256) (hs : s < 256) : redc (r ^^^ s) = redc r ^^^ redc s := by
  simpa using all2_spec redc_lin_tab r hr s hs

theorem redc_lt (r : Nat) (hr : r < 256) : redc r < 256 := by
  unfold redc
  have h1 : r / 128 * 27 < 2 ^ 8 := by omega
  have h2 : (r + r) % 256 < 2 ^ 8 := by omega
  exact Nat.xor_lt_two_pow h1 h2

theorem redc_zero : redc 0 = 0 := by decide

theorem xor_lt_256 {a b : Nat} (ha : a < 256) (hb : b < 256) : a ^^^ b < 256 :=
  Nat.xor_lt_two_pow (n := 8) ha hb

theorem round_lt {a r : Nat} (b i : Nat) (ha : a < 256) (hr : r < 256) : round a b r i < 256 := by
  rw [round_eq]
  apply xor_lt_256 _ (redc_lt r hr)
  rcases bit_cases b i with h | h <;> rw [h] <;> omega

theorem round_lin_a {a a' r r' : Nat} (b i : Nat) (hr : r < 256) (hr' : r' < 256) :
    round (a ^^^ a') b (r ^^^ r') i = round a b r i ^^^ round a' b r' i := by
  simp only [round_eq, redc_lin hr hr']
  rcases bit_cases b i with h | h <;> rw [h] <;> simp only [Nat.zero_mul, Nat.one_mul] <;> ac_rfl

theorem round_lin_b {r r' : Nat} (a b b' i : Nat) (hr : r < 256) (hr' : r' < 256) :
    round a (b ^^^ b') (r ^^^ r') i = round a b r i ^^^ round a b' r' i := by
  simp only [round_eq, redc_lin hr hr', bit_xor]
  have e00 : (0 : Nat) ^^^ 0 = 0 := rfl
  have e01 : (0 : Nat) ^^^ 1 = 1 := rfl
  have e10 : (1 : Nat) ^^^ 0 = 1 := rfl
  have e11 : (1 : Nat) ^^^ 1 = 0 := rfl
  have key : redc r ^^^ redc r' = a ^^^ redc r ^^^ (a ^^^ redc r') := by
    have : a ^^^ redc r ^^^ (a ^^^ redc r') = (a ^^^ a) ^^^ (redc r ^^^ redc r') := by ac_rfl
    rw [this, Nat.xor_self, Nat.zero_xor]
  rcases bit_cases b i with h | h <;> rcases bit_cases b' i with h' | h' <;> rw [h, h']
  · simp only [e00, Nat.zero_mul, Nat.zero_xor]
  · simp only [e01, Nat.zero_mul, Nat.one_mul, Nat.zero_xor]; ac_rfl
  · simp only [e10, Nat.zero_mul, Nat.one_mul, Nat.zero_xor]; ac_rfl
  · simp only [e11, Nat.zero_mul, Nat.one_mul, Nat.zero_xor]; exact key

/-- the rounds of `mult` as a fold over the bit positions -/
def rounds (a b : Nat) (r : Nat) : List Nat → Nat
  | [] => r
  | i :: is => rounds a b (round a b r i) is

theorem mult_eq_rounds (a b : Nat) : mult a b = rounds a b 0 [7, 6, 5, 4, 3, 2, 1, 0] := rfl

theorem rounds_lt {a : Nat} (b : Nat) (ha : a < 256) (is : List Nat) :
    ∀ {r : Nat}, r < 256 → rounds a b r is < 256 := by
  induction is with
  | nil => intro r hr; exact hr
  | cons i is ih => intro r hr; exact ih (round_lt b i ha hr)

theorem rounds_lin_a {a a' : Nat} (b : Nat) (ha : a < 256) (ha' : a' < 256) (is : List Nat) :
    ∀ {r r' : Nat}, r < 256 → r' < 256 →
      rounds (a ^^^ a') b (r ^^^ r') is = rounds a b r is ^^^ rounds a' b r' is := by
  induction is with
  | nil => intro r r' _ _; rfl
  | cons i is ih =>
    intro r r' hr hr'
    simp only [rounds, round_lin_a b i hr hr']
    exact ih (round_lt b i ha hr) (round_lt b i ha' hr')

theorem rounds_lin_b {a : Nat} (b b' : Nat) (ha : a < 256) (is : List Nat) :
    ∀ {r r' : Nat}, r < 256 → r' < 256 →
      rounds a (b ^^^ b') (r ^^^ r') is = rounds a b r is ^^^ rounds a b' r' is := by
  induction is with
  | nil => intro r r' _ _; rfl
  | cons i is ih =>
    intro r r' hr hr'
    simp only [rounds, round_lin_b a b b' i hr hr']
    exact ih (round_lt b i ha hr) (round_lt b' i ha hr')

/-- closure: the product of a byte with anything is a byte -/
theorem mult_lt {a : Nat} (b : Nat) (ha : a < 256) : mult a b < 256 := by
  rw [mult_eq_rounds]; exact rounds_lt b ha _ (by omega)

/-- left distributivity over xor (algebra; no enumeration of triples) -/
theorem mult_xor_left {a a' : Nat} (b : Nat) (ha : a < 256) (ha' : a' < 256) :
    mult (a ^^^ a') b = mult a b ^^^ mult a' b := by
  simp only [mult_eq_rounds]
  exact rounds_lin_a (r := 0) (r' := 0) b ha ha' _ (by omega) (by omega)

/-- right distributivity over xor -/
theorem mult_xor_right {a : Nat} (b b' : Nat) (ha : a < 256) :
    mult a (b ^^^ b') = mult a b ^^^ mult a b' := by
  simp only [mult_eq_rounds]
  exact rounds_lin_b (r := 0) (r' := 0) b b' ha _ (by omega) (by omega)

theorem mult_zero_left (b : Nat) : mult 0 b = 0 := by
  have h := mult_xor_left (a := 0) (a' := 0) b (by omega) (by omega)
  simp only [Nat.xor_self] at h
  exact h

theorem mult_zero_right {a : Nat} (ha : a < 256) : mult a 0 = 0 := by
  have h := mult_xor_right (a := a) 0 0 ha
  simp only [Nat.xor_self] at h
  exact h

/-! ### the bit basis spans the bytes -/

def bitsum (a : Nat) : Nat :=
  bit a 0 * 2 ^ 0 ^^^ bit a 1 * 2 ^ 1 ^^^ bit a 2 * 2 ^ 2 ^^^ bit a 3 * 2 ^ 3 ^^^
  bit a 4 * 2 ^ 4 ^^^ bit a 5 * 2 ^ 5 ^^^ bit a 6 * 2 ^ 6 ^^^ bit a 7 * 2 ^ 7

theorem bitsum_eq : ∀ a < 256, bitsum a = a := by decide +kernel

/-- induction principle: a predicate on bytes that holds at 0 and at the 8 powers of two and is closed
    under xor holds for every byte -/
theorem byte_span (P : Nat → Prop) (h0 : P 0) (hb : ∀ i < 8, P (2 ^ i))
    (hx : ∀ a b, P a → P b → P (a ^^^ b)) : ∀ a < 256, P a := by
  intro a ha
  have term : ∀ i < 8, P (bit a i * 2 ^ i) := by
    intro i hi
    rcases bit_cases a i with h | h <;> rw [h]
    · rw [Nat.zero_mul]; exact h0
    · rw [Nat.one_mul]; exact hb i hi
  rw [← bitsum_eq a ha]
  unfold bitsum
  exact hx _ _ (hx _ _ (hx _ _ (hx _ _ (hx _ _ (hx _ _ (hx _ _ (term 0 (by omega)) (term 1 (by omega)))
    (term 2 (by omega))) (term 3 (by omega))) (term 4 (by omega))) (term 5 (by omega)))
    (term 6 (by omega))) (term 7 (by omega))

theorem two_pow_lt_256 {i : Nat} (hi : i < 8) : 2 ^ i < 256 :=
  Nat.pow_lt_pow_right (a := 2) (by omega) hi

/-- the same with closure only required on bytes -/
theorem byte_induction (P : Nat → Prop) (h0 : P 0) (hb : ∀ i < 8, P (2 ^ i))
    (hx : ∀ a b, a < 256 → b < 256 → P a → P b → P (a ^^^ b)) : ∀ a < 256, P a := by
  intro a ha
  refine (byte_span (fun a => a < 256 ∧ P a) ⟨by omega, h0⟩ (fun i hi => ⟨two_pow_lt_256 hi, hb i hi⟩) ?_ a ha).2
  intro a b ⟨ha, pa⟩ ⟨hb, pb⟩
  exact ⟨xor_lt_256 ha hb, hx a b ha hb pa pb⟩

/-! ### commutativity, unit, associativity from the basis cases -/

theorem comm_basis : ∀ i < 8, ∀ j < 8, mult (2 ^ i) (2 ^ j) = mult (2 ^ j) (2 ^ i) := by decide +kernel

theorem mult_comm {a b : Nat} (ha : a < 256) (hb : b < 256) : mult a b = mult b a := by
  refine byte_induction (fun a => ∀ b < 256, mult a b = mult b a) ?_ ?_ ?_ a ha b hb
  · intro b hb; rw [mult_zero_left, mult_zero_right hb]
  · intro i hi b hb
    have hi' := two_pow_lt_256 hi
    refine byte_induction (fun b => mult (2 ^ i) b = mult b (2 ^ i)) ?_ ?_ ?_ b hb
    · rw [mult_zero_left, mult_zero_right hi']
    · intro j hj; exact comm_basis i hi j hj
    · intro b b' hb hb' h h'
      rw [mult_xor_right _ _ hi', mult_xor_left _ hb hb', h, h']
  · intro a a' ha ha' h h' b hb
    rw [mult_xor_left _ ha ha', mult_xor_right _ _ hb, h b hb, h' b hb]

theorem one_basis : ∀ i < 8, mult 1 (2 ^ i) = 2 ^ i := by decide +kernel

theorem mult_one_left {b : Nat} (hb : b < 256) : mult 1 b = b := by
  refine byte_induction (fun b => mult 1 b = b) ?_ ?_ ?_ b hb
  · exact mult_zero_right (by omega)
  · exact one_basis
  · intro b b' _ _ h h'
    rw [mult_xor_right _ _ (by omega), h, h']

theorem mult_one_right {a : Nat} (ha : a < 256) : mult a 1 = a := by
  rw [mult_comm ha (by omega), mult_one_left ha]

theorem assoc_basis : ∀ i < 8, ∀ j < 8, ∀ k < 8,
    mult (mult (2 ^ i) (2 ^ j)) (2 ^ k) = mult (2 ^ i) (mult (2 ^ j) (2 ^ k)) := by decide +kernel

theorem mult_assoc {a b c : Nat} (ha : a < 256) (hb : b < 256) (hc : c < 256) :
    mult (mult a b) c = mult a (mult b c) := by
  refine byte_induction (fun a => ∀ b < 256, ∀ c < 256, mult (mult a b) c = mult a (mult b c))
    ?_ ?_ ?_ a ha b hb c hc
  · intro b _ c _; simp only [mult_zero_left]
  · intro i hi b hb c hc
    have hi' := two_pow_lt_256 hi
    refine byte_induction (fun b => ∀ c < 256, mult (mult (2 ^ i) b) c = mult (2 ^ i) (mult b c))
      ?_ ?_ ?_ b hb c hc
    · intro c _; simp only [mult_zero_left, mult_zero_right hi']
    · intro j hj c hc
      have hj' := two_pow_lt_256 hj
      refine byte_induction (fun c => mult (mult (2 ^ i) (2 ^ j)) c = mult (2 ^ i) (mult (2 ^ j) c))
        ?_ ?_ ?_ c hc
      · simp only [mult_zero_right hj', mult_zero_right hi', mult_zero_right (mult_lt _ hi')]
      · intro k hk; exact assoc_basis i hi j hj k hk
      · intro c c' _ _ h h'
        rw [mult_xor_right _ _ (mult_lt _ hi'), mult_xor_right _ _ hj', mult_xor_right _ _ hi', h, h']
    · intro b b' hb hb' h h' c hc
      rw [mult_xor_right _ _ hi', mult_xor_left _ (mult_lt _ hi') (mult_lt _ hi'),
        mult_xor_left _ hb hb', mult_xor_right _ _ hi', h c hc, h' c hc]
  · intro a a' ha ha' h h' b hb c hc
    rw [mult_xor_left _ ha ha', mult_xor_left _ (mult_lt _ ha) (mult_lt _ ha'),
      mult_xor_left _ ha ha', h b hb c hc, h' b hb c hc]

/-! ### inverse -/

theorem inverse_lt {a : Nat} (ha : a < 256) : inverse a < 256 := by
  unfold inverse
  exact mult_lt _ (mult_lt _ ha)

theorem inverse_zero : inverse 0 = 0 := by decide +kernel

theorem inverse_tab : ∀ a < 256, a ≠ 0 → mult a (inverse a) = 1 := by decide +kernel

theorem mult_inverse {a : Nat} (ha : a < 256) (h0 : a ≠ 0) : mult a (inverse a) = 1 := inverse_tab a ha h0

theorem div_eq (a b : Nat) : div a b = mult a (inverse b) := by
  unfold div
  split
  · next h => rw [h, mult_zero_left]
  · rfl

theorem div?_eq (a b : Nat) : div? a b = if b = 0 then none else some (div a b) := rfl

end Obao.GF256
