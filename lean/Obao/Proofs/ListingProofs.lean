import Obao.Proofs.Canon
/-! The inmem walk and the raft cursor loop are instances of the canonical pass; assembly of the listing theorems.
Core Lean only. -/
namespace Obao.Listing
open Obao.KV

theorem isFolder_iff {t : Key} : isFolder t = true ↔ slash ∈ t := by
  unfold isFolder; simp

/-- invariant linking the emitted entries with the keys still to be visited -/
def OutInv (p : Key) (ks out : List Key) : Prop :=
  Desc out ∧ ∀ x ∈ out, ∀ k ∈ ks, x ≤ child p k ∧ (x = child p k → slash ∈ x)

theorem OutInv.tail {p k : Key} {ks out : List Key} (h : OutInv p (k :: ks) out) : OutInv p ks out :=
  ⟨h.1, fun x hx k' hk' => h.2 x hx k' (List.mem_cons_of_mem _ hk')⟩

theorem child_folder_mem {p k : Key} (h : slash ∈ k.drop p.length) : slash ∈ child p k :=
  firstSeg_folder_mem h

theorem child_leaf_not_mem {p k : Key} (h : slash ∉ k.drop p.length) : slash ∉ child p k :=
  firstSeg_leaf_not_mem h

/-- pushing the child of the current key keeps the invariant, provided it is not already the head -/
theorem OutInv.push {p k : Key} {ks out : List Key} (h : OutInv p (k :: ks) out)
    (hs : Sorted (k :: ks)) (hp : ∀ k' ∈ k :: ks, hasPrefix p k' = true)
    (hnew : out.head? ≠ some (child p k)) : OutInv p ks (child p k :: out) := by
  have hk := List.pairwise_cons.mp hs
  have hlt : ∀ x ∈ out, x < child p k := by
    intro x hx
    have := h.2 x hx k (List.mem_cons_self ..)
    rcases kle_iff_lt_or_eq.mp this.1 with h' | h'
    · exact h'
    · obtain ⟨hd', hh', hle2⟩ := h.1.le_head hx
      have h3 := (h.2 hd' (List.mem_of_mem_head? hh') k (List.mem_cons_self ..)).1
      have : hd' = x := kle_antisymm (h' ▸ h3) hle2
      subst this
      exact absurd (h' ▸ hh') hnew
  refine ⟨List.pairwise_cons.mpr ⟨hlt, h.1⟩, ?_⟩
  intro x hx k' hk'
  rcases List.mem_cons.mp hx with e | hx
  · subst e
    have hkk' : k < k' := hk.1 k' hk'
    refine ⟨child_mono (hp k (List.mem_cons_self ..)) (hp k' (List.mem_cons_of_mem _ hk')) hkk', ?_⟩
    intro heq
    -- equal children of two different keys: the child must be a folder
    by_cases hf : slash ∈ k.drop p.length
    · exact child_folder_mem hf
    · exfalso
      have hf' : slash ∉ k'.drop p.length := by
        intro hc
        exact child_leaf_not_mem hf (heq ▸ child_folder_mem hc)
      have e1 := key_of_leaf_child (hp k (List.mem_cons_self ..)) hf
      have e2 := key_of_leaf_child (hp k' (List.mem_cons_of_mem _ hk')) hf'
      rw [← heq] at e2
      exact klt_irrefl k (by rw [← e1] at e2; exact e2 ▸ hkk')
  · exact h.2 x hx k' (List.mem_cons_of_mem _ hk')

theorem inmemWalk_eq_canon (p after : Key) (limit : Int) (ks out seen : List Key)
    (hs : Sorted ks) (hp : ∀ k ∈ ks, hasPrefix p k = true) (hinv : OutInv p ks out)
    (hseen : ∀ t, slash ∈ t → (seen.contains t = true ↔ t ∈ out)) :
    inmemWalk p after limit ks out seen = canon after limit (ks.map (child p)) out := by
  induction ks generalizing out seen with
  | nil => rfl
  | cons k rest ih =>
    have hs' := (List.pairwise_cons.mp hs).2
    have hp' : ∀ k' ∈ rest, hasPrefix p k' = true := fun k' h => hp k' (List.mem_cons_of_mem _ h)
    simp only [List.map_cons]
    unfold inmemWalk canon
    split
    · rfl
    · by_cases hf : isFolder (k.drop p.length) = true
      · have hmem := isFolder_iff.mp hf
        simp only [hf, Bool.not_true, Bool.false_eq_true, if_false]
        have hc : firstSeg (k.drop p.length) = child p k := rfl
        rw [hc]
        have hskip : (after ≠ [] ∧ child p k ≤ after) = skip after (child p k) := rfl
        simp only [hskip]
        split
        · exact ih out seen hs' hp' hinv.tail hseen
        · -- contained in `seen` iff it is the head of `out`
          have hfold := child_folder_mem (p := p) hmem
          have hiff : seen.contains (child p k) = true ↔ out.head? = some (child p k) := by
            rw [hseen _ hfold]
            constructor
            · intro hin
              obtain ⟨hd', hh', hle2⟩ := hinv.1.le_head hin
              have h3 := (hinv.2 hd' (List.mem_of_mem_head? hh') k (List.mem_cons_self ..)).1
              rw [hh', kle_antisymm h3 hle2]
            · intro hh; exact List.mem_of_mem_head? hh
          by_cases hc2 : seen.contains (child p k) = true
          · simp only [hc2, if_true, hiff.mp hc2]
            exact ih out seen hs' hp' hinv.tail hseen
          · have hh : out.head? ≠ some (child p k) := fun h => hc2 (hiff.mpr h)
            simp only [hc2, hh, if_false, Bool.false_eq_true]
            apply ih _ _ hs' hp' (hinv.push hs hp hh)
            intro t ht
            simp only [List.contains_cons, Bool.or_eq_true, beq_iff_eq, List.mem_cons]
            rw [hseen t ht]
      · have hf' : isFolder (k.drop p.length) = false := by simpa using hf
        have hnm : slash ∉ k.drop p.length := fun h => hf (isFolder_iff.mpr h)
        simp only [hf', Bool.not_false, if_true]
        have hc : k.drop p.length = child p k := (firstSeg_eq_self_of_not_mem hnm).symm
        rw [hc]
        have hskip : (after ≠ [] ∧ child p k ≤ after) = skip after (child p k) := rfl
        simp only [hskip]
        split
        · exact ih out seen hs' hp' hinv.tail hseen
        · have hleaf := child_leaf_not_mem (p := p) hnm
          have hh : out.head? ≠ some (child p k) := by
            intro hh
            have hin := List.mem_of_mem_head? hh
            exact hleaf ((hinv.2 _ hin k (List.mem_cons_self ..)).2 rfl)
          simp only [hh, if_false]
          apply ih _ _ hs' hp' (hinv.push hs hp hh)
          intro t ht
          rw [hseen t ht, List.mem_cons]
          constructor
          · exact fun h => .inr h
          · rintro (h | h)
            · exact absurd (h ▸ ht) hleaf
            · exact h

theorem raftLoop_eq_canon (p after : Key) (limit : Int) (ks out : List Key)
    (hs : Sorted ks) (hp : ∀ k ∈ ks, hasPrefix p k = true) (hinv : OutInv p ks out) :
    raftLoop p after limit ks out = canon after limit (ks.map (child p)) out := by
  induction ks generalizing out with
  | nil => rfl
  | cons k rest ih =>
    have hs' := (List.pairwise_cons.mp hs).2
    have hp' : ∀ k' ∈ rest, hasPrefix p k' = true := fun k' h => hp k' (List.mem_cons_of_mem _ h)
    simp only [List.map_cons]
    unfold raftLoop canon
    simp only [hp k (List.mem_cons_self ..), Bool.not_true, Bool.false_eq_true, if_false]
    split
    · rfl
    · by_cases hf : isFolder (k.drop p.length) = true
      · have hmem := isFolder_iff.mp hf
        simp only [hf, Bool.not_true, Bool.false_eq_true, if_false]
        have hc : firstSeg (k.drop p.length) = child p k := rfl
        rw [hc]
        have hskip : (after ≠ [] ∧ child p k ≤ after) = skip after (child p k) := rfl
        simp only [hskip]
        by_cases hh : out.head? = some (child p k)
        · have hne : ¬ (out = [] ∨ out.head? ≠ some (child p k)) := by
            rintro (h | h)
            · subst h; simp at hh
            · exact h hh
          rw [if_neg hne, if_pos hh]
          split <;> exact ih out hs' hp' hinv.tail
        · have hne : (out = [] ∨ out.head? ≠ some (child p k)) := .inr hh
          rw [if_pos hne, if_neg hh]
          split
          · exact ih out hs' hp' hinv.tail
          · exact ih _ hs' hp' (hinv.push hs hp hh)
      · have hf' : isFolder (k.drop p.length) = false := by simpa using hf
        have hnm : slash ∉ k.drop p.length := fun h => hf (isFolder_iff.mpr h)
        simp only [hf', Bool.not_false, if_true]
        have hc : k.drop p.length = child p k := (firstSeg_eq_self_of_not_mem hnm).symm
        rw [hc]
        have hskip : (after ≠ [] ∧ child p k ≤ after) = skip after (child p k) := rfl
        simp only [hskip]
        split
        · exact ih out hs' hp' hinv.tail
        · have hleaf := child_leaf_not_mem (p := p) hnm
          have hh : out.head? ≠ some (child p k) := by
            intro hh
            have hin := List.mem_of_mem_head? hh
            exact hleaf ((hinv.2 _ hin k (List.mem_cons_self ..)).2 rfl)
          simp only [hh, if_false]
          exact ih _ hs' hp' (hinv.push hs hp hh)

/-- the loop leaves at the first key without the prefix -/
theorem raftLoop_takeWhile (p after : Key) (limit : Int) (ks out : List Key) :
    raftLoop p after limit ks out = raftLoop p after limit (ks.takeWhile (hasPrefix p)) out := by
  induction ks generalizing out with
  | nil => rfl
  | cons k rest ih =>
    by_cases hk : hasPrefix p k = true
    · rw [List.takeWhile_cons_of_pos hk]
      unfold raftLoop
      simp only [hk, Bool.not_true, Bool.false_eq_true, if_false]
      split
      · rfl
      · split
        · split
          · exact ih _
          · exact ih _
        · split
          · split
            · exact ih _
            · exact ih _
          · exact ih _
    · rw [List.takeWhile_cons_of_neg hk]
      unfold raftLoop
      simp [hk]

theorem sorted_sublist {l l' : List Key} (h : l'.Sublist l) (hs : Sorted l) : Sorted l' := List.Pairwise.sublist h hs

theorem outInv_nil (p : Key) (ks : List Key) : OutInv p ks [] := ⟨by simp [Desc], by simp⟩

theorem firstSeg_prefix (t : Key) : ∃ r, t = firstSeg t ++ r := by
  induction t with
  | nil => exact ⟨[], rfl⟩
  | cons c r ih =>
    unfold firstSeg
    split
    · rename_i h; exact ⟨r, by simp [h]⟩
    · obtain ⟨r', hr'⟩ := ih
      exact ⟨r', by simp [← hr']⟩

theorem firstSeg_le_self (t : Key) : firstSeg t ≤ t := by
  obtain ⟨r, hr⟩ := firstSeg_prefix t
  have := kle_append_right (firstSeg t) r
  rw [← hr] at this; exact this

/-- **inmem**: the walk equals the specification for every sorted key list, prefix, `after` and `limit` -/
theorem inmemList_eq_listPage (keys : List Key) (hs : Sorted keys) (p after : Key) (limit : Int) :
    inmemList keys p after limit = listPage keys p after limit := by
  unfold inmemList
  have hfs : Sorted (keys.filter (hasPrefix p)) := sorted_filter _ hs
  have hfp : ∀ k ∈ keys.filter (hasPrefix p), hasPrefix p k = true := fun k hk => (List.mem_filter.mp hk).2
  rw [inmemWalk_eq_canon p after limit _ [] [] hfs hfp (outInv_nil ..) (by simp)]
  exact canon_children_eq_listPage _ p after limit keys hfs hfp
    (fun k hk => (List.mem_filter.mp hk).1) (fun k hk hpk _ => List.mem_filter.mpr ⟨hk, hpk⟩)

theorem mem_seekFrom {keys : List Key} (hs : Sorted keys) {seek k : Key} :
    k ∈ seekFrom keys seek ↔ k ∈ keys ∧ seek ≤ k := by
  unfold seekFrom
  induction keys with
  | nil => simp
  | cons x xs ih =>
    have hx := List.pairwise_cons.mp hs
    by_cases hlt : x < seek
    · rw [List.dropWhile_cons_of_pos (by simpa using hlt), ih hx.2, List.mem_cons]
      constructor
      · rintro ⟨h1, h2⟩; exact ⟨.inr h1, h2⟩
      · rintro ⟨h1 | h1, h2⟩
        · subst h1; exact absurd hlt (knot_lt.mpr h2)
        · exact ⟨h1, h2⟩
    · rw [List.dropWhile_cons_of_neg (by simpa using hlt)]
      have hle := knot_lt.mp hlt
      constructor
      · intro h; refine ⟨h, ?_⟩
        rcases List.mem_cons.mp h with e | m
        · subst e; exact hle
        · exact kle_trans hle (kle_of_lt (hx.1 k m))
      · exact fun h => h.1

theorem seekFrom_sublist (keys : List Key) (seek : Key) : (seekFrom keys seek).Sublist keys :=
  List.dropWhile_sublist _

/-- keys with the prefix are an initial segment of a cursor that starts inside the prefix interval -/
theorem takeWhile_prefix_eq_filter (p : Key) (C : List Key) (hs : Sorted C) (seek : Key) (hseek : hasPrefix p seek = true)
    (hge : ∀ k ∈ C, seek ≤ k) : C.takeWhile (hasPrefix p) = C.filter (hasPrefix p) := by
  induction C with
  | nil => rfl
  | cons x xs ih =>
    have hx := List.pairwise_cons.mp hs
    by_cases hpx : hasPrefix p x = true
    · rw [List.takeWhile_cons_of_pos hpx, List.filter_cons_of_pos hpx, ih hx.2 (fun k hk => hge k (List.mem_cons_of_mem _ hk))]
    · rw [List.takeWhile_cons_of_neg hpx, List.filter_cons_of_neg hpx]
      symm
      rw [List.filter_eq_nil_iff]
      intro k hk hpk
      exact hpx (hasPrefix_convex hseek hpk (hge x (List.mem_cons_self ..)) (kle_of_lt (hx.1 k hk)))

/-- a cursor start is SAFE when it lies in the prefix interval and not beyond `prefix ++ after` -/
def SeekSafe (seek p after : Key) : Prop := hasPrefix p seek = true ∧ seek ≤ p ++ after

/-- **raft**: from a safe cursor start the loop equals the specification -/
theorem raftListFrom_eq_listPage (keys : List Key) (hs : Sorted keys) (seek p after : Key) (limit : Int)
    (hsafe : SeekSafe seek p after) :
    raftListFrom seek keys p after limit = listPage keys p after limit := by
  unfold raftListFrom
  rw [raftLoop_takeWhile]
  have hCs : Sorted (seekFrom keys seek) := sorted_sublist (seekFrom_sublist ..) hs
  rw [takeWhile_prefix_eq_filter p _ hCs seek hsafe.1 (fun k hk => ((mem_seekFrom hs).mp hk).2)]
  have hfs : Sorted ((seekFrom keys seek).filter (hasPrefix p)) := sorted_filter _ hCs
  have hfp : ∀ k ∈ (seekFrom keys seek).filter (hasPrefix p), hasPrefix p k = true := fun k hk => (List.mem_filter.mp hk).2
  rw [raftLoop_eq_canon p after limit _ [] hfs hfp (outInv_nil ..)]
  apply canon_children_eq_listPage _ p after limit keys hfs hfp
  · intro k hk
    exact ((mem_seekFrom hs).mp (List.mem_filter.mp hk).1).1
  · intro k hk hpk hns
    refine List.mem_filter.mpr ⟨(mem_seekFrom hs).mpr ⟨hk, ?_⟩, hpk⟩
    -- seek ≤ p ++ after < p ++ child ≤ k   (or seek ≤ p ≤ k when after is empty)
    obtain ⟨t, rfl⟩ := hasPrefix_iff.mp hpk
    rcases not_skip_iff.mp hns with ha | ha
    · subst ha
      have := hsafe.2
      simp only [List.append_nil] at this
      exact kle_trans this (kle_append_right p t)
    · have h1 : after < t := by
        have hc : child p (p ++ t) = firstSeg t := by simp [child]
        rw [hc] at ha
        exact klt_of_lt_of_le ha (firstSeg_le_self t)
      exact kle_trans hsafe.2 (kle_of_lt ((append_klt_append_left p).mpr h1))

theorem raftSeek_safe (p after : Key) : SeekSafe (raftSeek p after) p after :=
  ⟨hasPrefix_append p after, kle_refl _⟩

end Obao.Listing
