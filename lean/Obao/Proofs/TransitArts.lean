import Obao.Proofs.TransitRun
/-! Artifact-table lemmas and the consequences of `Ext` used by the property theorems. -/
namespace Obao.Transit

theorem internArt_get (arts : List Art) (a : Art) :
    1 ≤ (internArt arts a).2 ∧ (internArt arts a).1[(internArt arts a).2 - 1]? = some a := by
  unfold internArt
  cases h : arts.idxOf? a with
  | some i =>
    simp only
    refine ⟨by omega, ?_⟩
    have hi := List.of_findIdx?_eq_some (xs := arts) (p := (· == a)) (by simpa [List.idxOf?] using h)
    simp only [Nat.add_sub_cancel]
    cases hg : arts[i]? with
    | none => simp [hg] at hi
    | some b =>
      simp [hg] at hi
      rw [hi]
  | none =>
    simp only
    refine ⟨by omega, ?_⟩
    simp

theorem artAt_ext {s s' : St} (he : Ext s s') {h : Nat} {kind : AKind} {a : Art} (ha : artAt s h kind = some a) :
    artAt s' h kind = some a := by
  obtain ⟨more, hm⟩ := he.arts
  unfold artAt at ha ⊢
  by_cases h0 : h = 0
  · rw [if_pos h0] at ha; cases ha
  · rw [if_neg h0] at ha ⊢
    cases hg : s.arts[h - 1]? with
    | none => rw [hg] at ha; cases ha
    | some b =>
      rw [hg] at ha
      have hlt : h - 1 < s.arts.length := by
        rcases Nat.lt_or_ge (h - 1) s.arts.length with hl | hl
        · exact hl
        · rw [List.getElem?_eq_none hl] at hg; cases hg
      rw [hm, List.getElem?_append_left hlt, hg]
      exact ha

/-- a key that is in the map now is still the key of that version later, as long as the version has not been
    pushed below `min_decryption_version` -/
theorem key_stable {s s' : St} (hi : Inv s) (hi' : Inv s') (he : Ext s s') {p : Policy} (hp : s.pol = some p)
    {v : Nat} {k : Key} (hk : kget p.keys v = some k) :
    ∃ p', s'.pol = some p' ∧ p'.ktype = p.ktype ∧ p'.derived = p.derived ∧ p'.convergent = p.convergent ∧
      v ≤ p'.latest ∧ (p'.minDec ≤ v → kget p'.keys v = some k) := by
  obtain ⟨p', hp', e⟩ := he.pol p hp
  have i1 := hi.pol p hp
  have i2 := hi'.pol p' hp'
  obtain ⟨_, hv1, hv2, _⟩ := i1.kget_ver hk
  refine ⟨p', hp', e.ktype, e.derived, e.convergent, Nat.le_trans hv2 e.latest, fun hd => ?_⟩
  have h1 : kget p.keys v = s.archive[v - p.minAvail]? := by rw [i1.keysWin, if_pos ⟨hv1, hv2⟩]
  rw [i2.keysWin, if_pos ⟨hd, Nat.le_trans hv2 e.latest⟩, e.slots v (Nat.le_trans i2.availDec hd) hv2, ← h1, hk]

end Obao.Transit
