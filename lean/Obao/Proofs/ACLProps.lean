import Obao.Proofs.ACLRefine
import Obao.Proofs.ACLPerm
/-! C03 helper lemmas behind default deny, "constraints only restrict", and the capability list. -/
namespace Obao.ACLProofs
open Obao.ACL Obao.ACLSpec

/-! ### default deny -/

theorem pickBest_eq_none_iff (cs : List (Descr × Kind × Path)) : pickBest cs = none ↔ cs = [] := by
  rw [pickBest_eq_foldMax]
  rcases foldMax_spec (fun (b c : Descr × Kind × Path) => less b.1 c.1) (fun a => less_irrefl a.1)
    (fun a b c => less_trans) cs with ⟨he, hn⟩ | ⟨x, hx, hm, _⟩
  · constructor
    · intro _; exact he
    · intro _; exact hn
  · constructor
    · intro h; rw [h] at hx; exact absurd hx (by simp)
    · intro h; rw [h] at hm; simp at hm

theorem specNonExact_none_of_no_match (rules : List PathRule) (path : Path)
    (h : ∀ r ∈ rules, stanzaMatches path r = false) : specNonExact rules path = none := by
  unfold specNonExact
  rw [Option.map_eq_none_iff, pickBest_eq_none_iff, List.filterMap_eq_nil_iff]
  intro r hr
  have := h r hr
  unfold stanzaMatches at this
  unfold candidate
  cases hk : kindOf r with
  | exact => simp [candOf]
  | pref => rw [hk] at this; simp only at this; rw [Option.map_eq_none_iff]; simpa using this
  | segwc => rw [hk] at this; simp only at this; rw [Option.map_eq_none_iff]; simpa using this

theorem hasExact_false_of_no_match (rules : List PathRule) (path : Path)
    (h : ∀ r ∈ rules, stanzaMatches path r = false) : hasExact rules path = false := by
  unfold hasExact
  rw [Bool.eq_false_iff]
  intro hc
  obtain ⟨r, hr, hh⟩ := List.any_eq_true.mp hc
  simp only [Bool.and_eq_true, beq_iff_eq] at hh
  have := h r hr
  unfold stanzaMatches at this
  rw [hh.1] at this
  simp [hh.2] at this

theorem trimSlash_of_no_slash (path : Path) (h : ¬ path.getLast? = some slash) : trimSlash path = path := by
  unfold trimSlash
  simp [h]

theorem specFind_none_of_none_applies (rules : List PathRule) (path : Path) (op : Op)
    (h : ∀ r ∈ rules, stanzaApplies path op r = false) : specFind rules path op = none := by
  have h1 : ∀ r ∈ rules, stanzaMatches path r = false := by
    intro r hr
    have := h r hr
    unfold stanzaApplies at this
    simp only [Bool.or_eq_false_iff] at this
    exact this.1
  unfold specFind
  rw [hasExact_false_of_no_match rules path h1, specNonExact_none_of_no_match rules path h1]
  cases hls : isListScan op with
  | false => simp
  | true =>
    have h2 : ∀ r ∈ rules, stanzaMatches (trimSlash path) r = false := by
      intro r hr
      have := h r hr
      unfold stanzaApplies at this
      simp only [Bool.or_eq_false_iff, hls, Bool.true_and] at this
      exact this.2
    rw [hasExact_false_of_no_match rules _ h2, specNonExact_none_of_no_match rules _ h2]
    simp

/-! ### constraints only restrict -/

theorem kindOf_stripRule (r : PathRule) : kindOf (stripRule r) = kindOf r := rfl

theorem candidate_stripRule (path : Path) (r : PathRule) : candidate path (stripRule r) = candidate path r := rfl

theorem rulesOf_strip (now : Int) (ps : List (Option Policy)) :
    rulesOf now (ps.map stripPolicy) = (rulesOf now ps).map stripRule := by
  induction ps with
  | nil => rfl
  | cons p ps ih =>
    cases p with
    | none => simpa [rulesOf, stripPolicy] using ih
    | some p =>
      simp only [List.map_cons, stripPolicy, Option.map_some, rulesOf_cons_some, List.map_append, ih]
      congr 1
      rw [List.filter_map]
      rfl

theorem hasRoot_strip (ps : List (Option Policy)) : hasRoot (ps.map stripPolicy) = hasRoot ps := by
  unfold hasRoot
  rw [List.any_map]
  congr 1
  funext p
  cases p <;> rfl

theorem attachable_strip (ps : List (Option Policy)) : attachable (ps.map stripPolicy) = attachable ps := by
  unfold attachable
  rw [List.all_map, List.length_map]
  congr 1
  funext p
  cases p <;> rfl

theorem specFind_strip (rules : List PathRule) (path : Path) (op : Op) :
    specFind (rules.map stripRule) path op = specFind rules path op := by
  have hE : ∀ k, hasExact (rules.map stripRule) k = hasExact rules k := by
    intro k; unfold hasExact; rw [List.any_map]; rfl
  have hN : ∀ p, specNonExact (rules.map stripRule) p = specNonExact rules p := by
    intro p; unfold specNonExact; rw [List.filterMap_map]; rfl
  unfold specFind
  rw [hE, hE, hN, hN]

theorem permsFor_strip (rules : List PathRule) (kind : Kind) (k : Path) :
    permsFor (rules.map stripRule) kind k = (permsFor rules kind k).map fun p => { caps := p.caps } := by
  unfold permsFor
  rw [List.filter_map, List.map_map, List.map_map]
  rfl

theorem minPos_zero_of_nonpos (xs : List Int) (h : ∀ x ∈ xs, x ≤ 0) : minPos xs = 0 := by
  rcases minPos_spec xs with ⟨h1, _⟩ | ⟨h1, h2, _⟩
  · exact h1
  · have := h _ h2; omega

theorem specCaps_strip (rs : List Perms) : specCaps (rs.map fun p => ({ caps := p.caps } : Perms)) = specCaps rs := by
  unfold specCaps anyDeny unionCaps
  rw [List.any_map, List.foldl_map]
  rfl

theorem checkCore_allowed_mono (caps : Nat) (t p t' p' : Bool) (g g' : Option (Option PVal)) (req : Req)
    (ht : t' = true) (hp : p' = true) (hg : g'.isSome = true)
    (h : (checkCore caps t p g req false).allowed = true) : (checkCore caps t' p' g' req false).allowed = true := by
  unfold checkCore at h ⊢
  simp only [Bool.false_eq_true, if_false] at h ⊢
  cases hop : opCap req.op with
  | none => rw [hop] at h; simp at h
  | some i =>
    rw [hop] at h
    simp only at h ⊢
    subst ht; subst hp
    by_cases hc : caps.testBit i = true
    · simp only [hc, Bool.not_true, Bool.false_eq_true, if_false] at h ⊢
      by_cases hop1 : req.op = .read ∨ req.op = .update ∨ req.op = .create ∨ req.op = .patch
      · simp [hop1]
      · simp only [hop1, if_false]
        by_cases hop2 : req.op = .list ∨ req.op = .scan
        · simp only [hop2, if_true]
          obtain ⟨l, hl⟩ := Option.isSome_iff_exists.mp hg
          rw [hl]
        · simp [hop2]
    · simp [hc] at h

theorem paginate_zero_isSome (b : Bool) (data : List (String × PVal)) : (paginate 0 b data).isSome = true := by
  unfold paginate
  have : ¬ (0 : Int) > 0 := by omega
  simp only [this, if_false]
  cases limitOf data with
  | none => rfl
  | some v => simp only; split <;> rfl

theorem specCheck_strip_mono (rs : List Perms) (req : Req)
    (h : (specCheck rs req false).allowed = true) :
    (specCheck (rs.map fun p => ({ caps := p.caps } : Perms)) req false).allowed = true := by
  unfold specCheck at h ⊢
  rw [specCaps_strip]
  refine checkCore_allowed_mono _ _ _ _ _ _ _ req ?_ ?_ ?_ h
  · rw [minPos_zero_of_nonpos, minPos_zero_of_nonpos]
    · unfold ttlOK; simp
    · intro x hx; simp only [List.map_map, List.mem_map] at hx; obtain ⟨_, _, rfl⟩ := hx; simp
    · intro x hx; simp only [List.map_map, List.mem_map] at hx; obtain ⟨_, _, rfl⟩ := hx; simp
  · unfold specCheckParams pmEmpty
    simp [List.all_map]
  · rw [minPos_zero_of_nonpos]
    · exact paginate_zero_isSome _ _
    · intro x hx; simp only [List.map_map, List.mem_map] at hx; obtain ⟨_, _, rfl⟩ := hx; simp

theorem specDecide_strip_mono (rules : List PathRule) (req : Req)
    (h : (specDecide rules req false).allowed = true) :
    (specDecide (rules.map stripRule) req false).allowed = true := by
  unfold specDecide at h ⊢
  rw [specFind_strip]
  cases hs : specFind rules (dropSlashes req.path) req.op with
  | none => rw [hs] at h; simp at h
  | some pat =>
    rw [hs] at h
    simp only at h ⊢
    rw [permsFor_strip]
    exact specCheck_strip_mono _ req h

theorem wfRules_strip (rules : List PathRule) (h : wfRules rules = true) : wfRules (rules.map stripRule) = true := by
  unfold wfRules at h ⊢
  rw [List.all_map]
  rw [List.all_eq_true] at h ⊢
  intro r hr
  have := (wfPerms_iff _).mp (h r hr)
  apply (wfPerms_iff _).mpr
  exact ⟨this.deny, by simp [stripRule], by simp [stripRule], by simp [stripRule], by simp [stripRule]⟩


/-! ### the capability list -/

theorem specFind_op_indep (rules : List PathRule) (path : Path) (op op' : Op) (h : ¬ path.getLast? = some slash) :
    specFind rules path op = specFind rules path op' := by
  unfold specFind
  rw [trimSlash_of_no_slash path h]
  cases hE : hasExact rules path with
  | true => simp
  | false =>
    have : (path.getLast? == some slash) = false := by simpa using h
    simp [this]

theorem checkCore_allowed_testBit (caps : Nat) (t p : Bool) (g : Option (Option PVal)) (req : Req)
    (h : (checkCore caps t p g req false).allowed = true) : ∃ i, opCap req.op = some i ∧ caps.testBit i = true := by
  unfold checkCore at h
  simp only [Bool.false_eq_true, if_false] at h
  cases hop : opCap req.op with
  | none => rw [hop] at h; simp at h
  | some i =>
    rw [hop] at h
    simp only at h
    refine ⟨i, rfl, ?_⟩
    by_cases hc : caps.testBit i = true
    · exact hc
    · simp [hc] at h

theorem capName_mem_capList (c : Nat) (b : Bool) (l : Option PVal) (op : Op) (i : Nat) (hop : opCap op = some i)
    (hbit : c.testBit i = true) (hden : c.testBit denyI = false) :
    capName i ∈ capList { allowed := false, rootPrivs := b, isRoot := false, caps := c, limit := l } := by
  unfold capList
  simp only [Bool.false_eq_true, if_false, hden, Bool.false_or]
  have hmem : capName i ∈ [sudoI, readI, listI, updateI, deleteI, createI, patchI, scanI].filterMap fun j =>
      if c.testBit j then some (capName j) else none := by
    rw [List.mem_filterMap]
    refine ⟨i, ?_, by simp [hbit]⟩
    cases op <;> simp [opCap] at hop <;> subst hop <;> decide
  split
  · rename_i he
    have : ([sudoI, readI, listI, updateI, deleteI, createI, patchI, scanI].filterMap fun j =>
      if c.testBit j then some (capName j) else none) = [] := by simpa using he
    rw [this] at hmem
    simp at hmem
  · exact hmem

/-- on the semantics: an operation that is permitted has its capability in the reported list (no trailing slash) -/
theorem spec_caps_agree (rules : List PathRule) (req : Req) (i : Nat)
    (hns : ¬ (dropSlashes req.path).getLast? = some slash) (hop : opCap req.op = some i)
    (h : (specDecide rules req false).allowed = true) :
    capName i ∈ capList (specDecide rules { path := req.path, op := .list } true) := by
  unfold specDecide at h ⊢
  simp only
  rw [specFind_op_indep rules _ .list req.op hns]
  cases hs : specFind rules (dropSlashes req.path) req.op with
  | none => rw [hs] at h; simp at h
  | some pat =>
    rw [hs] at h
    simp only at h ⊢
    unfold specCheck at h ⊢
    obtain ⟨j, hj, hbit⟩ := checkCore_allowed_testBit _ _ _ _ _ h
    rw [hop] at hj
    simp only [Option.some.injEq] at hj
    subst hj
    have hden : (specCaps (permsFor rules pat.1 pat.2)).testBit denyI = false := by
      have := isDeny_specCaps (permsFor rules pat.1 pat.2)
      unfold isDeny at this
      rw [this]
      cases hd : anyDeny (permsFor rules pat.1 pat.2) with
      | false => rfl
      | true =>
        have hc : specCaps (permsFor rules pat.1 pat.2) = denyBits := by unfold specCaps; simp [hd]
        rw [hc, denyBits_testBit_opCap req.op i hop] at hbit
        exact absurd hbit (by decide)
    unfold checkCore
    simp only [if_true]
    exact capName_mem_capList _ _ _ req.op i hop hbit hden

/-! ### what `parsePaths` guarantees -/

theorem capLoop_no_deny (cs : List String) (acc bits : Nat) (h : capLoop cs acc = .ok (some bits))
    (hacc : acc.testBit denyI = false) : bits.testBit denyI = false := by
  induction cs generalizing acc with
  | nil => simp [capLoop] at h; rw [← h]; exact hacc
  | cons c cs ih =>
    unfold capLoop at h
    cases hc : capIndex? c with
    | none => rw [hc] at h; simp at h
    | some i =>
      rw [hc] at h
      simp only at h
      by_cases hi : i = denyI
      · simp [hi] at h
      · simp only [hi, if_false] at h
        apply ih _ h
        rw [Nat.testBit_or, hacc, Bool.false_or, Nat.testBit_shiftLeft]
        have : ¬ denyI ≥ i := by unfold denyI at *; omega
        simp [this]

theorem nodup_lowerKeys (m : PMap) (h : (m.map fun kv => lower kv.1).Nodup) : ((lowerKeys m).map (·.1)).Nodup := by
  unfold lowerKeys
  rw [List.map_map]
  exact h

theorem hasDupLower_false_iff (m : PMap) : hasDupLower m = false ↔ (m.map fun kv => lower kv.1).Nodup := by
  unfold hasDupLower
  simp

/-- what `parsePaths` accepts is well-formed: `deny` stands alone, parameter names are distinct (F21 repaired),
wrapping-TTL bounds are not negative (F19 repaired) -/
theorem parsePerms_wf (r : SrcRule) (caps : List String) (p : Perms) (h : parsePerms r caps = .ok p) : WF p := by
  unfold parsePerms at h
  cases hc : capLoop caps 0 with
  | error e => rw [hc] at h; simp at h
  | ok v =>
    rw [hc] at h
    cases v with
    | none =>
      simp only [Except.ok.injEq] at h
      subst h
      exact ⟨fun _ => rfl, by simp, by simp, by simp, by simp⟩
    | some bits =>
      simp only at h
      by_cases h1 : hasDupLower (r.allowed.getD []) = true
      · simp [h1] at h
      · by_cases h2 : hasDupLower (r.denied.getD []) = true
        · simp [h1, h2] at h
        · by_cases h3 : r.minTTL.getD 0 < 0
          · simp [h1, h2, h3] at h
          · by_cases h4 : r.maxTTL.getD 0 < 0
            · simp [h1, h2, h3, h4] at h
            · simp only [h1, h2, h3, h4, Bool.false_eq_true, if_false] at h
              split at h
              · simp at h
              · simp only [Except.ok.injEq] at h
                subst h
                have hb := capLoop_no_deny caps 0 bits hc (by decide)
                have hka := (hasDupLower_false_iff _).mp (by simpa using h1)
                have hkd := (hasDupLower_false_iff _).mp (by simpa using h2)
                refine ⟨?_, nodup_lowerKeys _ hka, nodup_lowerKeys _ hkd, by simp only; omega, by simp only; omega⟩
                intro hd
                unfold isDeny at hd
                simp only at hd
                rw [hb] at hd
                exact absurd hd (by decide)

theorem parseRule_perms (r : SrcRule) (pr : PathRule) (h : parseRule r = .ok pr) :
    ∃ caps, legacyCaps r = .ok caps ∧ parsePerms r caps = .ok pr.perms := by
  unfold parseRule at h
  simp only at h
  split at h
  · simp at h
  · cases hl : legacyCaps r with
    | error e => rw [hl] at h; simp at h
    | ok caps =>
      rw [hl] at h
      simp only at h
      cases hp : parsePerms r caps with
      | error e => rw [hp] at h; simp at h
      | ok perms =>
        rw [hp] at h
        simp only [Except.ok.injEq] at h
        subst h
        exact ⟨caps, rfl, hp⟩

theorem parseRule_wf (r : SrcRule) (pr : PathRule) (h : parseRule r = .ok pr) : WF pr.perms := by
  obtain ⟨caps, _, hp⟩ := parseRule_perms r pr h
  exact parsePerms_wf r caps pr.perms hp

theorem parseRules_wf (parseNow : Int) (rs : List SrcRule) (prs : List PathRule)
    (h : parseRules parseNow rs = .ok prs) : ∀ pr ∈ prs, WF pr.perms := by
  induction rs generalizing prs with
  | nil => simp [parseRules] at h; subst h; simp
  | cons r rs ih =>
    unfold parseRules at h
    split at h
    · exact ih prs h
    cases h1 : parseRule r with
    | error e => rw [h1] at h; simp at h
    | ok pr =>
      rw [h1] at h
      simp only at h
      cases h2 : parseRules parseNow rs with
      | error e => rw [h2] at h; simp at h
      | ok prs' =>
        rw [h2] at h
        simp only [Except.ok.injEq] at h
        subst h
        intro q hq
        rcases List.mem_cons.mp hq with rfl | hq
        · exact parseRule_wf r _ h1
        · exact ih prs' h2 q hq

/-- a policy is the output of `parsePaths` for some stanza list -/
def Parsed (p : Policy) : Prop := ∃ parseNow rs, parsePolicy parseNow p.name rs = .ok p

theorem parsed_wf (p : Policy) (h : Parsed p) : ∀ pr ∈ p.paths, WF pr.perms := by
  obtain ⟨parseNow, rs, h⟩ := h
  unfold parsePolicy at h
  cases h1 : parseRules parseNow rs with
  | error e => rw [h1] at h; simp at h
  | ok prs =>
    rw [h1] at h
    simp only [Except.ok.injEq] at h
    rw [← h]
    exact parseRules_wf parseNow rs prs h1

theorem wfRules_of_parsed (now : Int) (ps : List (Option Policy)) (h : ∀ p, some p ∈ ps → Parsed p) :
    wfRules (rulesOf now ps) = true := by
  unfold wfRules rulesOf
  rw [List.all_eq_true]
  intro r hr
  rw [List.mem_flatMap] at hr
  obtain ⟨p, hp, hrp⟩ := hr
  cases p with
  | none => simp at hrp
  | some p => exact (wfPerms_iff _).mpr (parsed_wf p (h p hp) r (List.mem_filter.mp hrp).1)

/-- re-parsing gives the same stanzas: a stanza whose parse could depend on the iteration order is refused -/
theorem stanzaStable_true (r : SrcRule) : stanzaStable r = true := by
  unfold stanzaStable
  cases h : parseRule r with
  | error e => rfl
  | ok pr =>
    simp only
    obtain ⟨caps, _, hp⟩ := parseRule_perms r pr h
    unfold parsePerms at hp
    cases hc : capLoop caps 0 with
    | error e => rw [hc] at hp; simp at hp
    | ok v =>
      rw [hc] at hp
      cases v with
      | none =>
        simp only [Except.ok.injEq] at hp
        rw [← hp]
        have : denyBits.testBit denyI = true := by decide
        simp [this]
      | some bits =>
        simp only at hp
        have stable_of_nodup : ∀ m : PMap, hasDupLower m = false → pmStable m = true := by
          intro m hm
          have hn := (hasDupLower_false_iff m).mp hm
          unfold pmStable
          rw [List.all_eq_true]
          intro kv hkv
          rw [List.all_eq_true]
          intro kv' hkv'
          by_cases hl : lower kv.1 = lower kv'.1
          · -- equal lower-cased names in a duplicate-free list: the same entry
            have : kv = kv' := by
              clear hm hp
              induction m with
              | nil => simp at hkv
              | cons x xs ih =>
                simp only [List.map_cons, List.nodup_cons] at hn
                rcases List.mem_cons.mp hkv with e1 | m1
                · rcases List.mem_cons.mp hkv' with e2 | m2
                  · rw [e1, e2]
                  · exfalso; apply hn.1; rw [← e1, hl]; exact List.mem_map.mpr ⟨kv', m2, rfl⟩
                · rcases List.mem_cons.mp hkv' with e2 | m2
                  · exfalso; apply hn.1; rw [← e2, ← hl]; exact List.mem_map.mpr ⟨kv, m1, rfl⟩
                  · exact ih hn.2 m1 m2
            subst this
            simp
          · simp [hl]
        by_cases h1 : hasDupLower (r.allowed.getD []) = true
        · simp [h1] at hp
        · by_cases h2 : hasDupLower (r.denied.getD []) = true
          · simp [h1, h2] at hp
          · rw [stable_of_nodup _ (by simpa using h1), stable_of_nodup _ (by simpa using h2)]
            simp

theorem parseStable_true (rs : List SrcRule) : parseStable rs = true := by
  unfold parseStable
  split
  · rfl
  · rw [List.all_eq_true]; intro r _; exact stanzaStable_true r

/-! ### the parse does not depend on Go's map iteration order, unless two parameter names differ only in case -/

theorem lookup_of_mem_nodup' {α β : Type} [DecidableEq α] (m : List (α × β)) (k : α) (p : β)
    (hn : (m.map (·.1)).Nodup) (h : (k, p) ∈ m) : m.lookup k = some p := by
  induction m with
  | nil => simp at h
  | cons kv rest ih =>
    obtain ⟨k0, p0⟩ := kv
    simp only [List.map_cons, List.nodup_cons] at hn
    rcases List.mem_cons.mp h with h | h
    · simp only [Prod.mk.injEq] at h
      obtain ⟨rfl, rfl⟩ := h
      simp
    · have hne : k ≠ k0 := by
        intro hc
        apply hn.1
        rw [← hc]
        exact List.mem_map.mpr ⟨(k, p), h, rfl⟩
      have : (k == k0) = false := by simp [hne]
      simp only [List.lookup_cons, this]
      exact ih hn.2 h

theorem mem_of_lookup' {α β : Type} [DecidableEq α] (m : List (α × β)) (k : α) (p : β) (h : m.lookup k = some p) :
    (k, p) ∈ m := by
  induction m with
  | nil => simp at h
  | cons kv rest ih =>
    obtain ⟨k0, p0⟩ := kv
    simp only [List.lookup_cons] at h
    by_cases hk : k = k0
    · subst hk; simp at h; subst h; simp
    · have : (k == k0) = false := by simp [hk]
      simp only [this] at h
      exact List.mem_cons_of_mem _ (ih h)

theorem lookup_perm {α β : Type} [DecidableEq α] (l l' : List (α × β)) (hp : l.Perm l') (hn : (l.map (·.1)).Nodup)
    (k : α) : l.lookup k = l'.lookup k := by
  have hn' : (l'.map (·.1)).Nodup := (hp.map _).nodup_iff.mp hn
  cases h : l.lookup k with
  | some v => exact (lookup_of_mem_nodup' l' k v hn' (hp.mem_iff.mp (mem_of_lookup' l k v h))).symm
  | none =>
    cases h' : l'.lookup k with
    | none => rfl
    | some v =>
      have := lookup_of_mem_nodup' l k v hn (hp.mem_iff.mpr (mem_of_lookup' l' k v h'))
      rw [h] at this; exact absurd this (by simp)

theorem lowerKeys_perm (m m' : PMap) (hp : m.Perm m') (hn : (m.map fun kv => lower kv.1).Nodup) (k : String) :
    (lowerKeys m).lookup k = (lowerKeys m').lookup k := by
  apply lookup_perm
  · exact hp.map _
  · exact nodup_lowerKeys m hn

/-! ### the whole stanza parse is independent of Go's map iteration order (F21 repaired) -/

/-- equality of the parsed permissions as Go values: maps are compared by lookup (a Go map has no entry order) -/
def permsEquiv (p p' : Perms) : Prop :=
  p.caps = p'.caps ∧ p.minTTL = p'.minTTL ∧ p.maxTTL = p'.maxTTL ∧ p.required = p'.required ∧ p.pag = p'.pag ∧
    (∀ k, p.allowed.lookup k = p'.allowed.lookup k) ∧ (∀ k, p.denied.lookup k = p'.denied.lookup k)

def ruleEquiv (p p' : PathRule) : Prop :=
  p.path = p'.path ∧ p.isPrefix = p'.isPrefix ∧ p.hasSW = p'.hasSW ∧ permsEquiv p.perms p'.perms

def exceptRel {α : Type} (R : α → α → Prop) : Except ParseErr α → Except ParseErr α → Prop
  | .error e, .error e' => e = e'
  | .ok a, .ok b => R a b
  | _, _ => False

/-- `r'` is the stanza `r` with the entries of its parameter objects enumerated in another order -/
structure Reordered (r r' : SrcRule) : Prop where
  path : r'.path = r.path
  caps : r'.caps = r.caps
  legacy : r'.legacy = r.legacy
  minTTL : r'.minTTL = r.minTTL
  maxTTL : r'.maxTTL = r.maxTTL
  required : r'.required = r.required
  pag : r'.pag = r.pag
  allowed : (r.allowed.getD []).Perm (r'.allowed.getD [])
  denied : (r.denied.getD []).Perm (r'.denied.getD [])

theorem hasDupLower_perm (m m' : PMap) (h : m.Perm m') : hasDupLower m = hasDupLower m' := by
  unfold hasDupLower
  have : (m.map fun kv => lower kv.1).Nodup ↔ (m'.map fun kv => lower kv.1).Nodup := (h.map _).nodup_iff
  simp [this]

theorem parsePerms_reordered (r r' : SrcRule) (h : Reordered r r') (caps : List String) :
    exceptRel permsEquiv (parsePerms r caps) (parsePerms r' caps) := by
  unfold parsePerms
  rw [h.minTTL, h.maxTTL, h.required, h.pag, ← hasDupLower_perm _ _ h.allowed, ← hasDupLower_perm _ _ h.denied]
  cases capLoop caps 0 with
  | error e => exact rfl
  | ok v =>
    cases v with
    | none => exact ⟨rfl, rfl, rfl, rfl, rfl, fun _ => rfl, fun _ => rfl⟩
    | some bits =>
      simp only
      by_cases h1 : hasDupLower (r.allowed.getD []) = true
      · simp only [h1, if_true]; exact rfl
      · by_cases h2 : hasDupLower (r.denied.getD []) = true
        · simp only [h1, h2, if_true, Bool.false_eq_true, if_false]; exact rfl
        · simp only [h1, h2, Bool.false_eq_true, if_false]
          split
          · exact rfl
          · split
            · exact rfl
            · split
              · exact rfl
              · refine ⟨rfl, rfl, rfl, rfl, rfl, ?_, ?_⟩
                · intro k
                  exact lowerKeys_perm _ _ h.allowed ((hasDupLower_false_iff _).mp (by simpa using h1)) k
                · intro k
                  exact lowerKeys_perm _ _ h.denied ((hasDupLower_false_iff _).mp (by simpa using h2)) k

theorem legacyCaps_reordered (r r' : SrcRule) (h : Reordered r r') : legacyCaps r' = legacyCaps r := by
  unfold legacyCaps
  rw [h.legacy, h.caps]

theorem parseRule_reordered (r r' : SrcRule) (h : Reordered r r') :
    exceptRel ruleEquiv (parseRule r) (parseRule r') := by
  unfold parseRule
  rw [h.path, legacyCaps_reordered r r' h]
  simp only
  split
  · exact rfl
  · cases legacyCaps r with
    | error e => exact rfl
    | ok caps =>
      simp only
      have := parsePerms_reordered r r' h caps
      cases h1 : parsePerms r caps with
      | error e =>
        cases h2 : parsePerms r' caps with
        | error e' => rw [h1, h2] at this; exact this
        | ok p' => rw [h1, h2] at this; exact absurd this id
      | ok p =>
        cases h2 : parsePerms r' caps with
        | error e' => rw [h1, h2] at this; exact absurd this id
        | ok p' => rw [h1, h2] at this; exact ⟨rfl, rfl, rfl, this⟩

/-! ### stanza expiration -/

theorem rulesOf_dropExpired (now : Int) (ps : List (Option Policy)) :
    rulesOf now (ps.map (dropExpired now)) = rulesOf now ps := by
  induction ps with
  | nil => rfl
  | cons p ps ih =>
    cases p with
    | none => simpa [rulesOf, dropExpired] using ih
    | some p =>
      simp only [List.map_cons, dropExpired, Option.map_some, rulesOf_cons_some, ih, List.filter_filter, Bool.and_self]

theorem hasRoot_dropExpired (now : Int) (ps : List (Option Policy)) : hasRoot (ps.map (dropExpired now)) = hasRoot ps := by
  unfold hasRoot
  rw [List.any_map]
  congr 1
  funext p
  cases p <;> rfl

theorem attachable_dropExpired (now : Int) (ps : List (Option Policy)) :
    attachable (ps.map (dropExpired now)) = attachable ps := by
  unfold attachable
  rw [List.all_map, List.length_map]
  congr 1
  funext p
  cases p <;> rfl

theorem newACL_dropExpired (now : Int) (ps : List (Option Policy)) :
    newACL now (ps.map (dropExpired now)) = newACL now ps := by
  rw [newACL_eq, newACL_eq, rulesOf_dropExpired, hasRoot_dropExpired, attachable_dropExpired]

theorem expiredAt_mono (now now' : Int) (h : now ≤ now') (e : Option Int) (he : expiredAt now e = true) :
    expiredAt now' e = true := by
  cases e with
  | none => simp [expiredAt] at he
  | some t => simp only [expiredAt, decide_eq_true_eq] at he ⊢; omega

theorem mem_rulesOf_mono (now now' : Int) (h : now ≤ now') (ps : List (Option Policy)) (r : PathRule)
    (hr : r ∈ rulesOf now' ps) : r ∈ rulesOf now ps := by
  unfold rulesOf at hr ⊢
  rw [List.mem_flatMap] at hr ⊢
  obtain ⟨p, hp, hrp⟩ := hr
  refine ⟨p, hp, ?_⟩
  cases p with
  | none => simp at hrp
  | some p =>
    simp only [List.mem_filter] at hrp ⊢
    refine ⟨hrp.1, ?_⟩
    unfold liveAt at *
    cases hx : expiredAt now r.expiration with
    | false => rfl
    | true =>
      have := expiredAt_mono now now' h _ hx
      rw [this] at hrp
      exact absurd hrp.2 (by decide)

end Obao.ACLProofs
