import Obao.Model.Revoke
/-!
`Always P prog`: every operation anywhere in the program tree — whatever values the storage returns, whatever
other requests do in between — satisfies `P`. Used with `P := Op.keepsGone p` ("never writes an unmarked entry
for `p`"): a cascading revocation is `Always (keepsGone p)`, so under EVERY interleaving, once the entry of `p`
is marked or gone it stays marked or gone.
-/
namespace Obao.Revoke

inductive Always (P : Op → Prop) : Prog α → Prop where
  | ret {r : Except Err α} : Always P (.ret r)
  | io {o : Op} {k : Val → Prog α} : P o → (∀ v, Always P (k v)) → Always P (.io o k)

theorem Always.bind {P : Op → Prop} {p : Prog α} {f : α → Prog β}
    (h : Always P p) (hf : ∀ a, Always P (f a)) : Always P (p.bind f) := by
  induction h with
  | @ret r => cases r with
    | ok a => exact hf a
    | error e => exact .ret
  | io ho _ ih => exact .io ho ih

theorem Always.bindE {P : Op → Prop} {p : Prog α} {f : Except Err α → Prog β}
    (h : Always P p) (hf : ∀ r, Always P (f r)) : Always P (p.bindE f) := by
  induction h with
  | ret => exact hf _
  | io ho _ ih => exact .io ho ih

@[simp] theorem bind_eq (p : Prog α) (f : α → Prog β) : (p >>= f) = p.bind f := rfl
@[simp] theorem pure_eq (a : α) : (pure a : Prog α) = .ret (.ok a) := rfl

/-- the only operation that can break `ParentGone p` is a write of an UNMARKED entry for `p` -/
def Op.keepsGone (p : Nat) : Op → Prop
  | .put (.id x) (.tok e) => x = p → e.marked = true
  | _ => True

theorem exec_keepsGone {p : Nat} {o : Op} (ho : o.keepsGone p) {s : St} (hs : ParentGone p s) :
    ParentGone p (exec o s).1 := by
  cases o with
  | get k => exact hs
  | put k v =>
    cases k <;> cases v <;> first
      | exact hs
      | (rename_i x e
         intro e' he'
         simp only [exec, St.putKey] at he'
         by_cases hx : p = x
         · subst hx; simp at he'; subst he'; exact ho rfl
         · simp [hx] at he'; exact hs e' he')
  | del k =>
    cases k <;> first
      | exact hs
      | (rename_i x
         intro e' he'
         simp only [exec, St.delKey] at he'
         by_cases hx : p = x
         · subst hx; simp at he'
         · simp [hx] at he'; exact hs e' he')
  | list pf => cases pf <;> exact hs
  | pendLOS k =>
    simp only [exec]
    split <;> exact hs
  | pendStore k b => exact hs
  | pendDel k => exact hs
  | cacheGet t => exact hs
  | cacheSet t v => exact hs
  | newTok sk => exact hs
  | allocId x sk =>
    simp only [exec]
    split <;> exact hs
  | newLease lk => exact hs

section
variable {p : Nat}
local notation "K" => Op.keepsGone p

theorem al_getKey (k : Key) : Always K (getKey k) :=
  .io (by exact trivial) fun v => by cases v <;> exact .ret
theorem al_putKey (k : Key) (v : Payload) (h : (Op.put k v).keepsGone p) : Always K (putKey k v) :=
  .io h fun v => by cases v <;> exact .ret
theorem al_putKey' (k : Key) (v : Payload) (h : ∀ x e, k = .id x → v = .tok e → x = p → e.marked = true) :
    Always K (putKey k v) := by
  apply al_putKey
  cases k <;> cases v <;> simp only [Op.keepsGone] <;> try trivial
  intro hx
  exact h _ _ rfl rfl hx
theorem al_delKey (k : Key) : Always K (delKey k) :=
  .io (by exact trivial) fun v => by cases v <;> exact .ret
theorem al_listPfx (pf : Pfx) : Always K (listPfx pf) :=
  .io (by exact trivial) fun v => by cases v <;> exact .ret
theorem al_pendLOS (k : PKey) : Always K (pendLOS k) :=
  .io (by exact trivial) fun v => by cases v <;> exact .ret
theorem al_pendStore (k : PKey) (b : Bool) : Always K (pendStore k b) := .io (by exact trivial) fun _ => .ret
theorem al_pendDel (k : PKey) : Always K (pendDel k) := .io (by exact trivial) fun _ => .ret
theorem al_cacheGet (t : Nat) : Always K (cacheGet t) :=
  .io (by exact trivial) fun v => by cases v <;> exact .ret
theorem al_cacheSet (t : Nat) (v : Option Bool) : Always K (cacheSet t v) := .io (by exact trivial) fun _ => .ret

theorem al_getTok (t : Nat) : Always K (getTok t) := by
  unfold getTok
  simp only [bind_eq]
  refine (al_getKey _).bind fun v => ?_
  split <;> exact .ret

theorem al_getTL (t : Nat) : Always K (getTL t) := by
  unfold getTL
  simp only [bind_eq]
  refine (al_getKey _).bind fun v => ?_
  split <;> exact .ret

theorem al_forM' (l : List Nat) (f : Nat → Prog Unit) (hf : ∀ x, Always K (f x)) : Always K (forM' l f) := by
  induction l with
  | nil => exact .ret
  | cons x xs ih =>
    simp only [forM', bind_eq]
    exact (hf x).bind fun _ => ih

end

macro "al_prim" : tactic => `(tactic| first
  | exact al_listPfx _ | exact al_delKey _ | exact al_getTL _ | exact al_cacheGet _
  | exact al_cacheSet _ _ | exact al_pendLOS _ | exact al_pendStore _ _ | exact al_pendDel _
  | exact al_getKey _ | exact al_getTok _
  | exact al_putKey' _ _ (by intros; simp_all)
  | assumption)

macro "al_auto" : tactic => `(tactic| repeat' (first
  | exact Always.ret | al_prim
  | (apply al_forM'; intro _)
  | refine Always.bind ?_ (fun _ => ?_)
  | split))

section
variable {p : Nat}
local notation "K" => Op.keepsGone p

theorem al_cubDestroy (t : CubKey) : Always K (cubDestroy t) := by
  unfold cubDestroy
  simp only [bind_eq, pure_eq]
  al_auto

theorem al_lazyRevoke (l : Nat) : Always K (lazyRevoke l) := by
  unfold lazyRevoke
  simp only [bind_eq, pure_eq]
  al_auto

theorem al_leasesByToken_go (t : Nat) (ls acc : List Nat) : Always K (leasesByToken.go t ls acc) := by
  induction ls generalizing acc with
  | nil => exact .ret
  | cons l rest ih =>
    simp only [leasesByToken.go, bind_eq]
    refine Always.bind (al_getKey _) fun v => ?_
    split <;> exact ih _

theorem al_leasesByToken (t : Nat) : Always K (leasesByToken t) := by
  unfold leasesByToken
  simp only [bind_eq]
  exact Always.bind (al_listPfx _) fun _ => al_leasesByToken_go _ _ _

theorem al_revokeByToken (t : Nat) : Always K (revokeByToken t) := by
  unfold revokeByToken
  simp only [bind_eq, pure_eq]
  refine Always.bind (al_leasesByToken t) fun ls => ?_
  refine Always.bind (al_forM' _ _ fun l => al_lazyRevoke l) fun _ => ?_
  al_auto

theorem al_createOrFetch (t : Nat) : Always K (createOrFetch t) := by
  unfold createOrFetch
  simp only [bind_eq, pure_eq]
  al_auto

theorem al_riMark (t : Nat) (e : TokEntry) : Always K (riMark t e) := by
  unfold riMark
  split
  · refine Always.bindE (al_putKey' _ _ (by intro x e' hk hv _; cases hk; cases hv; rfl)) fun r => ?_
    split
    · exact .ret
    · simp only [bind_eq]; exact Always.bind (al_pendStore _ _) fun _ => .ret
  · exact .ret

theorem al_riFinish (t : Nat) (r : Except Err Unit) : Always K (riFinish t r) := by
  unfold riFinish
  split
  · refine Always.bindE (al_delKey _) fun r => ?_
    split
    · simp only [bind_eq, pure_eq]; exact Always.bind (al_pendDel _) fun _ => .ret
    · simp only [bind_eq]; exact Always.bind (al_pendStore _ _) fun _ => .ret
  · simp only [bind_eq]; exact Always.bind (al_pendStore _ _) fun _ => .ret

/-- with `skipOrphan = true` the orphaning loop is never entered -/
theorem al_riBody (t : Nat) (e : TokEntry) (ol : List Nat → Prog Unit) : Always K (riBody t e true ol) := by
  unfold riBody
  simp only [bind_eq, pure_eq]
  split
  · refine Always.bind (al_cubDestroy _) fun _ => ?_
    refine Always.bind (al_revokeByToken t) fun _ => ?_
    simp only [Bool.not_true, Bool.false_eq_true, if_false]
    al_auto
  · exact Always.ret

end

structure AllAlways (p f : Nat) : Prop where
  lookup : ∀ t tn, Always (Op.keepsGone p) (lookup f t tn)
  expRevoke : ∀ t, Always (Op.keepsGone p) (expRevoke f t)
  revokeTree : ∀ t, Always (Op.keepsGone p) (revokeTree f t)
  dfs : ∀ st sn, Always (Op.keepsGone p) (dfs f st sn)
  revokeInternal : ∀ t, Always (Op.keepsGone p) (revokeInternal f t true)

theorem allAlways (p : Nat) : ∀ f, AllAlways p f := by
  intro f
  induction f with
  | zero =>
    constructor <;> intros
    · unfold lookup; exact .ret
    · unfold expRevoke; exact .ret
    · unfold revokeTree; exact .ret
    · unfold dfs; exact .ret
    · unfold revokeInternal; exact .ret
  | succ f ih =>
    constructor
    · intro t tn
      unfold lookup
      simp only [bind_eq, pure_eq]
      refine (al_getTok t).bind fun oe => ?_
      split
      · exact .ret
      · split
        · exact .ret
        · split
          · exact .ret
          · refine Always.bind (al_cacheGet t) fun c => ?_
            split
            · exact .ret
            · refine Always.bind (al_getTL t) fun le => ?_
              split
              · exact Always.bind (al_cacheSet _ _) fun _ => .ret
              · refine Always.bind (al_createOrFetch t) fun _ => ?_
                exact Always.bind (ih.expRevoke t) fun _ => .ret
    · intro t
      unfold expRevoke
      simp only [bind_eq, pure_eq]
      refine Always.bind (al_getTL t) fun le => ?_
      split
      · exact .ret
      · refine Always.bind (ih.revokeTree t) fun _ => ?_
        al_auto
    · intro t
      unfold revokeTree
      simp only [bind_eq]
      exact Always.bind (ih.lookup t true) fun _ => ih.dfs _ _
    · intro st sn
      unfold dfs
      simp only [bind_eq, pure_eq]
      split
      · exact .ret
      · refine Always.bind (al_listPfx _) fun ch => ?_
        refine Always.bind (al_forM' _ _ fun c => al_delKey _) fun _ => ?_
        split
        · refine Always.bind (ih.revokeInternal _) fun _ => ?_
          split
          · exact .ret
          · exact ih.dfs _ _
        · exact ih.dfs _ _
    · intro t
      unfold revokeInternal
      simp only [bind_eq, pure_eq]
      refine Always.bind (al_pendLOS _) fun ls => ?_
      split
      · exact .ret
      · refine Always.bindE (ih.lookup t true) fun r => ?_
        unfold riAfterLookup
        split
        · simp only [bind_eq]; exact Always.bind (al_pendStore _ _) fun _ => .ret
        · exact .ret
        · simp only [bind_eq]
          refine Always.bind (al_riMark _ _) fun _ => ?_
          exact Always.bindE (al_riBody _ _ _) fun _ => al_riFinish _ _

theorem al_auth (p f r : Nat) : Always (Op.keepsGone p) (auth f r) := by
  unfold auth
  simp only [bind_eq, pure_eq]
  refine Always.bind ((allAlways p f).lookup r false) fun oe => ?_
  split
  · exact .ret
  · refine Always.bind ((allAlways p f).lookup r false) fun oe => ?_
    split <;> exact .ret

theorem al_revokeCommon (p f t : Nat) : Always (Op.keepsGone p) (revokeCommon f t) := by
  unfold revokeCommon
  simp only [bind_eq, pure_eq]
  refine Always.bind ((allAlways p f).lookup t false) fun oe => ?_
  split
  · exact .ret
  · exact Always.bind (al_createOrFetch t) fun _ => (allAlways p f).expRevoke t

/-- every cascading revocation request never writes an unmarked entry for any token `p` -/
theorem al_cascade (p f : Nat) (q : Req) (t : Nat) (hq : q.cascadeTarget = some t) :
    Always (Op.keepsGone p) (q.prog f) := by
  cases q <;> simp only [Req.cascadeTarget] at hq <;> try contradiction
  all_goals
    unfold Req.prog
    simp only [bind_eq, pure_eq]
  · exact Always.bind (al_auth p f _) fun _ => al_revokeCommon p f _
  · exact Always.bind (al_auth p f _) fun _ => al_revokeCommon p f _
  · refine Always.bind (al_auth p f _) fun _ => ?_
    refine Always.bind (al_getKey _) fun _ => ?_
    split
    · exact .ret
    · refine Always.bind ((allAlways p f).lookup _ false) fun oe => ?_
      split
      · exact .ret
      · exact Always.bind (al_createOrFetch _) fun _ => (allAlways p f).expRevoke _
  · refine Always.bind (al_auth p f _) fun _ => ?_
    refine Always.bindE ((allAlways p f).expRevoke _) fun r => ?_
    split <;> exact .ret

/-! ### consequences for interleaved runs -/

theorem Always.advance {P : Op → Prop} {a : Prog α} (h : Always P a) (s : St) : Always P (advance a s).1 := by
  induction h generalizing s with
  | ret => exact .ret
  | @io o k ho hk ih =>
    unfold Obao.Revoke.advance
    split
    · exact .io ho hk
    · exact ih _ _

theorem Always.stepGate {P : Op → Prop} {a : Prog α} (h : Always P a) (s : St) : Always P (stepGate a s).1 := by
  cases h with
  | ret => exact .ret
  | io ho hk => exact (hk _).advance _

theorem advance_keeps {p : Nat} {a : Prog α} (h : Always (Op.keepsGone p) a) {s : St} (hs : ParentGone p s) :
    ParentGone p (advance a s).2 := by
  induction h generalizing s with
  | ret => exact hs
  | @io o k ho hk ih =>
    unfold Obao.Revoke.advance
    split
    · exact hs
    · exact ih _ (exec_keepsGone ho hs)

theorem stepGate_keeps {p : Nat} {a : Prog α} (h : Always (Op.keepsGone p) a) {s : St} (hs : ParentGone p s) :
    ParentGone p (stepGate a s).2 := by
  cases h with
  | ret => exact hs
  | io ho hk => exact advance_keeps (hk _) (exec_keepsGone ho hs)


/-- the creator parked at `storeCommon`'s parent lookup while the parent is marked or gone: the lookup returns
nil, the creation fails with "parent token not found", nothing is written -/
theorem storeAndRegister_gone (f p n : Nat) {s : St} (hs : ParentGone p s) :
    stepGate (storeAndRegister (f+1) p n false) s = (.ret (.error .invalid), s) := by
  unfold storeAndRegister lookup getTok getKey
  simp only [bind_eq, pure_eq, Bool.not_false, if_true, Prog.bind, stepGate, exec, St.getKey]
  cases h : s.ids p with
  | none => simp [advance, Prog.bind, Prog.fail]
  | some e =>
    have := hs e h
    simp [advance, Prog.bind, Prog.fail, this]

theorem race_core {p : Nat} (f n : Nat) {A : Prog α} (hA : Always (Op.keepsGone p) A) {s : St}
    (hs : ParentGone p s) (sched : List Bool) :
    ((Conc.run ⟨A, storeAndRegister (f+1) p n false, s⟩ sched).b = storeAndRegister (f+1) p n false ∨
      (Conc.run ⟨A, storeAndRegister (f+1) p n false, s⟩ sched).b = .ret (.error .invalid)) ∧
    ParentGone p (Conc.run ⟨A, storeAndRegister (f+1) p n false, s⟩ sched).st := by
  suffices h : ∀ (A : Prog α) (B : Prog Unit) (s : St), Always (Op.keepsGone p) A → ParentGone p s →
      (B = storeAndRegister (f+1) p n false ∨ B = .ret (.error .invalid)) →
      ((Conc.run ⟨A, B, s⟩ sched).b = storeAndRegister (f+1) p n false ∨
        (Conc.run ⟨A, B, s⟩ sched).b = .ret (.error .invalid)) ∧ ParentGone p (Conc.run ⟨A, B, s⟩ sched).st from
    h A _ s hA hs (Or.inl rfl)
  induction sched with
  | nil => intro A B s _ hs hB; exact ⟨hB, hs⟩
  | cons who rest ih =>
    intro A B s hA hs hB
    simp only [Conc.run, List.foldl_cons]
    cases who with
    | false =>
      simp only [Conc.step, Bool.false_eq_true, if_false]
      exact ih _ _ _ (hA.stepGate s) (stepGate_keeps hA hs) hB
    | true =>
      simp only [Conc.step, if_true]
      rcases hB with rfl | rfl
      · rw [storeAndRegister_gone f p n hs]
        exact ih _ _ _ hA hs (Or.inr rfl)
      · exact ih _ _ _ hA hs (Or.inr rfl)

/-- releasing only the revocation keeps it a revocation (`Always`), whatever it reads; the other thread stays put -/
theorem Always.runA {P : Op → Prop} {A : Prog α} {B : Prog β} (hA : Always P A) (s : St) (k : Nat) :
    Always P (Conc.run ⟨A, B, s⟩ (List.replicate k false)).a ∧
      (Conc.run ⟨A, B, s⟩ (List.replicate k false)).b = B := by
  induction k generalizing A s with
  | zero => exact ⟨hA, rfl⟩
  | succ k ih =>
    simp only [List.replicate_succ, Conc.run, List.foldl_cons, Conc.step, Bool.false_eq_true, if_false]
    exact ih (hA.stepGate s) _

end Obao.Revoke
