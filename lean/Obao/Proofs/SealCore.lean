import Obao.Proofs.SealKeysCrash
/-! C10, core level: Shamir share sets, stored keys, seal configuration; rekey and keyless root rotation. -/
namespace Obao.SealKeys

/-- does the restarted core (store after the first `k` writes of the last operation) unseal with the given share
set AND read every earlier entry back? -/
def CoreSt.recovers (c : CoreSt) (k : Nat) (new : Bool) : Bool :=
  (c.crash k new).1 = .unsealed && (c.crash k new).2.1 == (c.crash k new).2.2

/-- the share sets the operator HOLDS at crash point `k` of the last operation: the previous set always, the
current (new) set only once the operation has returned, i.e. after its last write -/
def CoreSt.heldRecovers (c : CoreSt) (k : Nat) : Bool :=
  c.recovers k false || (decide (k = c.writes.length) && c.recovers k true)

end Obao.SealKeys

namespace Obao.SealKeys

/-- writing a plaintext hierarchy record (stored keys, seal configuration) does not disturb consistency -/
theorem PInv.put_plain {p sh rk KR} (h : PInv p sh rk KR) (q : Path) (e : PEntry) (hq : q = .stored ∨ q = .sealcfg) :
    PInv (p.put q e) sh rk KR where
  kr := by rw [get_put_other _ _ _ _ (by rcases hq with rfl | rfl <;> simp)]; exact h.kr
  root := h.root
  rkOK := h.rkOK
  wf := h.wf
  dec := by
    intro path e' hp hp2 hp3 he
    rw [get_put_other _ _ _ _ (by rcases hq with rfl | rfl <;> assumption)] at he
    exact h.dec path e' hp hp2 hp3 he
  data := fun s => dataAgree_of_other p _ sh s (get_put_other _ _ _ _ (by rcases hq with rfl | rfl <;> simp)) (h.data s)
  rootShape := by
    obtain ⟨t0, ak, r, hr⟩ := h.rootShape
    exact ⟨t0, ak, r, by rw [get_put_other _ _ _ _ (by rcases hq with rfl | rfl <;> simp)]; exact hr⟩
  ups := by
    intro u e' he
    rw [get_put_other _ _ _ _ (by rcases hq with rfl | rfl <;> simp)] at he
    exact h.ups u e' he

theorem readEntry_data {p sh rk KR} (h : PInv p sh rk KR) (s : String) :
    readEntry p (some KR) (.data s) =
      match sh.lookup s with
      | some v => .okPayload (.val (.bytes v))
      | none => .absent := by
  have hd := h.data s
  unfold DataAgree at hd
  cases hl : sh.lookup s with
  | none => rw [hl] at hd; simp [readEntry, hd]
  | some v =>
    rw [hl] at hd
    obtain ⟨t, key, hg⟩ := hd
    obtain ⟨t', k', pl', he, hk'⟩ := h.dec (.data s) _ (by simp) (by simp) (by simp) hg
    cases he
    simp [readEntry, hg, hk']

/-- the hierarchy above the barrier: stored keys under the seal key of the share set, a valid configuration -/
structure HInv (p : Phys) (ss : ShareSet) (rk : Key) : Prop where
  stored : p.get .stored = some (.stored ss.skey rk)
  cfg : p.get .sealcfg = some (.sealcfg ss.n ss.t)
  valid : validCfg ss.n ss.t = true

theorem candKey_own {ss : ShareSet} (hv : validCfg ss.n ss.t = true) : candKey ss.t ss = some ss.skey := by
  simp only [validCfg, Bool.and_eq_true, decide_eq_true_eq, Bool.not_eq_true', Bool.and_eq_false_imp] at hv
  obtain ⟨⟨⟨⟨⟨h1, h2⟩, h3⟩, h4⟩, h5⟩, h6⟩ := hv
  by_cases ht1 : ss.t = 1
  · have hn1 : ss.n = 1 := by
      by_cases hn : ss.n > 1
      · have := h3 hn; simp [ht1] at this
      · omega
    simp [candKey, ht1, hn1]
  · have hn1 : ss.n ≠ 1 := by omega
    simp [candKey, ht1, hn1]

theorem openStored_ok {p sh rk KR} (h : PInv p sh rk KR) (sk : Key) (hs : p.get .stored = some (.stored sk rk)) :
    openStored p sk = (.unsealed, some KR) := by
  simp [openStored, hs, unseal_ok h false (termKeyN 0) {} rfl]

/-- a consistent store unseals with the share set its hierarchy names -/
theorem unsealWith_ok {p sh rk KR ss} (h : PInv p sh rk KR) (hh : HInv p ss rk) :
    unsealWith p ss = (.unsealed, some KR) := by
  have hv := hh.valid
  have hns : ¬ ss.n < ss.t := by
    simp only [validCfg, Bool.and_eq_true, decide_eq_true_eq] at hv
    omega
  simp [unsealWith, hh.cfg, h.kr, hns, candKey_own hh.valid, openStored_ok h ss.skey hh.stored]

theorem openStored_keyring {p sh rk KR} (h : PInv p sh rk KR) (c : Key) (kr : Option Keyring)
    (hu : openStored p c = (.unsealed, kr)) : kr = some KR := by
  unfold openStored at hu
  cases hg : p.get .stored with
  | none => simp [hg] at hu
  | some e =>
    cases e with
    | enc _ _ _ _ => simp [hg] at hu
    | sealcfg _ _ => simp [hg] at hu
    | stored sk root =>
      by_cases hsk : sk = c
      · by_cases hr : root = rk
        · subst hr
          simp [hg, hsk, unseal_ok h false (termKeyN 0) {} rfl] at hu
          exact hu.symm
        · have hres : (step false p {} (termKeyN 0) (.unsealB root)).res = .invalidKey ∨
              (step false p {} (termKeyN 0) (.unsealB root)).res = .cipher := by
            simp only [step]
            by_cases hok : root.aesOK = true
            · simp [hok, h.kr, Ne.symm hr]
            · simp [hok]
          rcases hres with hres | hres <;> simp [hg, hsk, hres] at hu
      · simp [hg, hsk] at hu

/-- whatever share set is tried: if the store unseals at all, it is with the stored keyring -/
theorem unsealWith_keyring {p sh rk KR} (h : PInv p sh rk KR) (ss : ShareSet) (kr : Option Keyring)
    (hu : unsealWith p ss = (.unsealed, kr)) : kr = some KR := by
  unfold unsealWith at hu
  cases hc : p.get .sealcfg with
  | none => simp [hc] at hu
  | some e =>
    cases e with
    | enc _ _ _ _ => simp [hc] at hu
    | stored _ _ => simp [hc] at hu
    | sealcfg n thr =>
      simp only [hc, h.kr] at hu
      by_cases hn : ss.n < thr
      · simp [hn] at hu
      · cases hk : candKey thr ss with
        | none => simp [hn, hk] at hu
        | some c => simp [hn, hk] at hu; exact openStored_keyring h c kr hu

/-- counting the entries that read back: all of them, on a consistent store -/
theorem readback_all {p sh rk KR} (h : PInv p sh rk KR) :
    (sh.filter fun kv => readEntry p (some KR) (.data kv.1) =
        (match sh.lookup kv.1 with
         | some v => .okPayload (.val (.bytes v))
         | none => .absent)).length = sh.length := by
  congr 1
  apply List.filter_eq_self.mpr
  intro kv _
  simp [readEntry_data h kv.1]

def PWrite.path : PWrite → Path
  | .put k _ => k
  | .del k => k

theorem applyWrites_frame (ws : List PWrite) (p : Phys) (q : Path) (h : ∀ w ∈ ws, w.path ≠ q) :
    (applyWrites p ws).get q = p.get q := by
  induction ws generalizing p with
  | nil => rfl
  | cons w rest ih =>
    have hw := h w (by simp)
    have := ih (applyWrite p w) (fun w' hw' => h w' (by simp [hw']))
    simp only [applyWrites, List.foldl_cons] at this ⊢
    rw [this]
    cases w with
    | put k e => simp only [applyWrite]; exact get_put_other _ _ _ _ (by simpa [PWrite.path] using hw.symm)
    | del k => simp only [applyWrite]; exact get_del_other _ _ _ (by simpa [PWrite.path] using hw.symm)

theorem persist_frame (kr : Keyring) : ∀ w ∈ (persist kr).1, w.path ≠ .stored ∧ w.path ≠ .sealcfg := by
  intro w hw
  unfold persist at hw
  split at hw
  · simp at hw
  · split at hw
    · simp at hw; subst hw; simp [PWrite.path]
    · split at hw
      · simp at hw; subst hw; simp [PWrite.path]
      · simp at hw
        rcases hw with rfl | rfl | rfl <;> simp [PWrite.path]

theorem mem_persist_fst {kr : Keyring} {ws : List PWrite} {r : Res} {w : PWrite} (hp : persist kr = (ws, r)) (hw : w ∈ ws) :
    w.path ≠ .stored ∧ w.path ≠ .sealcfg := persist_frame kr w (by rw [hp]; exact hw)

theorem persistNs_frame (ns : Bool) (kr : Keyring) :
    ∀ w ∈ (persistNs ns kr).1, w.path ≠ .stored ∧ w.path ≠ .sealcfg :=
  fun w hw => persist_frame kr w (mem_persistNs_fst ns kr w hw)

theorem mem_persistNs_frame {ns : Bool} {kr : Keyring} {ws : List PWrite} {r : Res} {w : PWrite}
    (hp : persistNs ns kr = (ws, r)) (hw : w ∈ ws) :
    w.path ≠ .stored ∧ w.path ≠ .sealcfg := persistNs_frame ns kr w (by rw [hp]; exact hw)

theorem step_frame (ns : Bool) (p : Phys) (b : Barrier) (fk : Key) (op : Op) (hni : ∀ k s, op ≠ .init k s) :
    ∀ w ∈ (step ns p b fk op).writes, w.path ≠ .stored ∧ w.path ≠ .sealcfg := by
  intro w hw
  cases op with
  | rotate =>
    simp only [step] at hw
    split at hw
    · simp at hw
    · split at hw
      · simp at hw
      · split at hw
        · simp at hw
        · rename_i nkr _
          split at hw <;> exact persistNs_frame ns nkr w (by simp_all)
  | rotroot k =>
    simp only [step] at hw
    split at hw
    · simp at hw
    · split at hw
      · simp at hw
      · split at hw
        · simp at hw
        · rename_i kr _
          split at hw <;> exact persistNs_frame ns { kr with root := k } w (by simp_all)
  | init k s => exact absurd rfl (hni k s)
  | tick =>
    simp only [step] at hw
    repeat' split at hw
    all_goals first
      | (simp at hw; done)
      | exact mem_persistNs_frame (by assumption) hw
  | setrot d =>
    simp only [step] at hw
    repeat' split at hw
    all_goals first
      | (simp at hw; done)
      | exact mem_persistNs_frame (by assumption) hw
  | _ => simp only [step] at hw; repeat' split at hw
         all_goals simp at hw
         all_goals (try subst hw); simp [PWrite.path]

end Obao.SealKeys
