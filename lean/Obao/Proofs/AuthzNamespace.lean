import Obao.Model.RequestAuthz
/-!
Namespace translation of the ACL model: a policy of namespace `ns` stores its rules under `ns ++ path`
(`parsePaths` prefixes the namespace path), a request in `ns` is decided at `ns ++ path`. For namespace-relative
request paths (non-empty, no leading slash) the decision is the one the un-prefixed rules give on the un-prefixed
path — the formal ground for running the C02/C03 scripts unchanged inside a child namespace.
-/
namespace Obao.RequestAuthz

/-- the rule as stored for a policy of namespace `ns` -/
def Rule.inNs (ns : Path) (r : Rule) : Rule := { r with path := ns ++ r.path }

theorem stripLeadingSlashes_of_head (q : Path) (h : q.head? ≠ some '/') : stripLeadingSlashes q = q := by
  cases q with
  | nil => rfl
  | cons c t =>
    have hc : c ≠ '/' := by intro hc; apply h; simp [hc]
    unfold stripLeadingSlashes
    split
    · rename_i heq; cases heq; exact absurd rfl hc
    · rfl

theorem mergedAt_inNs (ns : Path) (rules : List Rule) (isP : Bool) (k : Path) :
    mergedAt (rules.map (Rule.inNs ns)) isP (ns ++ k) = mergedAt rules isP k := by
  unfold mergedAt
  generalize (Option.none : Option Caps) = acc
  induction rules generalizing acc with
  | nil => rfl
  | cons r rs ih =>
    simp only [List.map_cons, List.foldl_cons]
    have hb : (ns ++ r.path == ns ++ k) = (r.path == k) := by
      rw [Bool.eq_iff_iff]; simp
    have hk : ((Rule.inNs ns r).isPrefix == isP && (Rule.inNs ns r).path == ns ++ k) =
        (r.isPrefix == isP && r.path == k) := by
      show (r.isPrefix == isP && ns ++ r.path == ns ++ k) = _
      rw [hb]
    rw [hk]
    have hc : (Rule.inNs ns r).caps = r.caps := rfl
    rw [hc]
    exact ih _

theorem trimSlash_append (ns p : Path) (hp : p ≠ []) : trimSlash (ns ++ p) = ns ++ trimSlash p := by
  unfold trimSlash
  have hrev : (ns ++ p).reverse = p.reverse ++ ns.reverse := List.reverse_append
  rw [hrev]
  cases hpr : p.reverse with
  | nil => exact absurd (List.reverse_eq_nil_iff.mp hpr) hp
  | cons c r =>
    simp only [List.cons_append]
    by_cases hc : c = '/'
    · subst hc
      simp
    · split
      · rename_i heq; cases heq; exact absurd rfl hc
      · split
        · rename_i heq; cases heq; exact absurd rfl hc
        · rfl

theorem endsSlash_append (ns p : Path) (hp : p ≠ []) : endsSlash (ns ++ p) = endsSlash p := by
  unfold endsSlash
  simp only [List.isSuffixOf, cs]
  have hrev : (ns ++ p).reverse = p.reverse ++ ns.reverse := List.reverse_append
  rw [hrev]
  cases hpr : p.reverse with
  | nil => exact absurd (List.reverse_eq_nil_iff.mp hpr) hp
  | cons c r => simp [List.isPrefixOf]

theorem isPrefixOf_append_left (ns k p : Path) : (ns ++ k).isPrefixOf (ns ++ p) = k.isPrefixOf p := by
  induction ns with
  | nil => rfl
  | cons c t ih => simp [List.isPrefixOf, ih]

theorem longestPrefix_inNs (ns : Path) (keys : List Path) (p : Path) :
    longestPrefix (keys.map (ns ++ ·)) (ns ++ p) = (longestPrefix keys p).map (ns ++ ·) := by
  unfold longestPrefix
  have key : ∀ (ks : List Path) (best : Option Path),
      (ks.map (ns ++ ·)).foldl (fun best k =>
        if k.isPrefixOf (ns ++ p) then
          match best with
          | Option.none => some k
          | some b => if b.length < k.length then some k else some b
        else best) (best.map (ns ++ ·)) =
      (ks.foldl (fun best k =>
        if k.isPrefixOf p then
          match best with
          | Option.none => some k
          | some b => if b.length < k.length then some k else some b
        else best) best).map (ns ++ ·) := by
    intro ks
    induction ks with
    | nil => intro best; rfl
    | cons k ks ih =>
      intro best
      simp only [List.map_cons, List.foldl_cons]
      have hpre : (ns ++ k).isPrefixOf (ns ++ p) = k.isPrefixOf p := isPrefixOf_append_left ns k p
      rw [hpre]
      by_cases hkp : k.isPrefixOf p = true
      · simp only [hkp, if_true]
        cases best with
        | none => exact ih (some k)
        | some b =>
          simp only [Option.map_some, List.length_append]
          by_cases hl : b.length < k.length
          · have : ns.length + b.length < ns.length + k.length := by omega
            simp only [this, hl, if_true]
            exact ih (some k)
          · have : ¬ (ns.length + b.length < ns.length + k.length) := by omega
            simp only [this, hl, if_false]
            exact ih (some b)
      · simp only [hkp]
        exact ih best
  exact key keys Option.none

theorem prefixPerms_inNs (ns : Path) (rules : List Rule) (p : Path) :
    prefixPerms (rules.map (Rule.inNs ns)) (ns ++ p) = prefixPerms rules p := by
  unfold prefixPerms
  have hkeys : (((rules.map (Rule.inNs ns)).filter (·.isPrefix)).map (·.path)) =
      (((rules.filter (·.isPrefix)).map (·.path)).map (ns ++ ·)) := by
    induction rules with
    | nil => rfl
    | cons r rs ih =>
      simp only [List.map_cons, List.filter_cons]
      have : (Rule.inNs ns r).isPrefix = r.isPrefix := rfl
      rw [this]
      cases r.isPrefix <;> simp [ih, Rule.inNs]
  rw [hkeys, longestPrefix_inNs]
  cases longestPrefix ((rules.filter (·.isPrefix)).map (·.path)) p with
  | none => rfl
  | some k => simp only [Option.map_some]; exact mergedAt_inNs ns rules true k

/-- **selectPerms is invariant under namespace translation** (namespace-relative request paths) -/
theorem selectPerms_inNs (ns : Path) (rules : List Rule) (op : Op) (p : Path)
    (hns : ns ≠ []) (hns0 : ns.head? ≠ some '/') (hp : p ≠ []) (hp0 : p.head? ≠ some '/') :
    selectPerms (rules.map (Rule.inNs ns)) op (ns ++ p) = selectPerms rules op p := by
  unfold selectPerms
  have h1 : stripLeadingSlashes (ns ++ p) = ns ++ p := by
    apply stripLeadingSlashes_of_head
    cases ns with
    | nil => exact absurd rfl hns
    | cons c t => simpa using hns0
  have h2 : stripLeadingSlashes p = p := stripLeadingSlashes_of_head p hp0
  simp only [h1, h2, trimSlash_append ns p hp, endsSlash_append ns p hp, mergedAt_inNs, prefixPerms_inNs]

end Obao.RequestAuthz
