import Obao.Proofs.GF256Poly
/-!
Below the threshold: for `k` distinct non-zero x-coordinates, every vector of `k` observed y-values and every
candidate secret byte there is exactly one coefficient vector of length `k` producing those observations.
-/
namespace Obao.GF256
open Polynomial

/-- a polynomial of degree `< n` is the polynomial of its first `n` coefficients -/
theorem polyOf_coeffs (p : GF[X]) (n : Nat) (h : p.degree < n) : polyOf ((List.range n).map p.coeff) = p := by
  ext i
  rw [coeff_polyOf]
  by_cases hi : i < n
  · simp [List.getD_eq_getElem?_getD, hi]
  · have : (n : WithBot Nat) ≤ i := by exact_mod_cast Nat.le_of_not_lt hi
    rw [coeff_eq_zero_of_degree_lt (lt_of_lt_of_le h this)]
    simp [List.getD_eq_getElem?_getD, hi]

theorem eval_zero_polyOf_cons (s : GF) (cs : List GF) : (polyOf (s :: cs)).eval 0 = s := by
  simp [polyOf]

theorem exists_coeffs (XS YS : List GF) (s : GF) (hnd : XS.Nodup) (hnz : ∀ x ∈ XS, x ≠ 0)
    (hlen : YS.length = XS.length) :
    ∃ CS : List GF, CS.length = XS.length ∧ XS.map (fun x => (polyOf (s :: CS)).eval x) = YS := by
  have hnd' : (0 :: XS).Nodup := List.nodup_cons.2 ⟨fun h => hnz 0 h rfl, hnd⟩
  let f : GF → GF := fun a => (s :: YS).getD ((0 :: XS).idxOf a) 0
  let p : GF[X] := Lagrange.interpolate (0 :: XS).toFinset id f
  have hcard : (0 :: XS).toFinset.card = XS.length + 1 := by
    rw [List.toFinset_card_of_nodup hnd']; rfl
  have hdeg : p.degree < ((XS.length + 1 : Nat) : WithBot Nat) := by
    rw [← hcard]; exact Lagrange.degree_interpolate_lt _ (Set.injOn_id _)
  have heval : ∀ a ∈ 0 :: XS, p.eval a = f a := fun a ha =>
    Lagrange.eval_interpolate_at_node (v := id) f (Set.injOn_id _) (List.mem_toFinset.2 ha)
  have hp0 : p.coeff 0 = s := by
    rw [coeff_zero_eq_eval_zero, heval 0 List.mem_cons_self]
    simp [f]
  refine ⟨(List.range XS.length).map fun i => p.coeff (i + 1), by simp, ?_⟩
  have hpoly : polyOf (s :: (List.range XS.length).map fun i => p.coeff (i + 1)) = p := by
    have := polyOf_coeffs p (XS.length + 1) hdeg
    rw [List.range_succ_eq_map, List.map_cons, List.map_map, hp0] at this
    exact this
  rw [hpoly]
  apply List.ext_getElem (by simp [hlen])
  intro i h1 h2
  have hi : i < XS.length := by simpa using h1
  simp only [List.getElem_map]
  rw [heval _ (List.mem_cons_of_mem _ (List.getElem_mem hi))]
  have hidx : (0 :: XS).idxOf XS[i] = i + 1 := by
    have := hnd'.idxOf_getElem (i + 1) (by simpa using hi)
    simpa using this
  simp only [f, hidx]
  simp [h2]

theorem unique_coeffs (XS : List GF) (s : GF) (hnd : XS.Nodup) (hnz : ∀ x ∈ XS, x ≠ 0)
    (CS CS' : List GF) (hl : CS.length = XS.length) (hl' : CS'.length = XS.length)
    (heq : XS.map (fun x => (polyOf (s :: CS)).eval x) = XS.map (fun x => (polyOf (s :: CS')).eval x)) :
    CS = CS' := by
  have hnd' : (0 :: XS).Nodup := List.nodup_cons.2 ⟨fun h => hnz 0 h rfl, hnd⟩
  have hcard : (0 :: XS).toFinset.card = XS.length + 1 := by
    rw [List.toFinset_card_of_nodup hnd']; rfl
  have hd : ∀ C : List GF, C.length = XS.length →
      (polyOf (s :: C)).degree < (((0 :: XS).toFinset.card : Nat) : WithBot Nat) := by
    intro C hC
    have := degree_polyOf_lt (s :: C)
    rw [hcard]; simpa [hC] using this
  have hpoly : polyOf (s :: CS) = polyOf (s :: CS') := by
    refine eq_of_degrees_lt_of_eval_finset_eq _ (hd CS hl) (hd CS' hl') ?_
    intro a ha
    rcases List.mem_cons.1 (List.mem_toFinset.1 ha) with h | h
    · rw [h, eval_zero_polyOf_cons, eval_zero_polyOf_cons]
    · exact List.map_inj_left.1 heq a h
  apply List.ext_getElem (by rw [hl, hl'])
  intro i h1 h2
  have := congrArg (fun q => q.coeff (i + 1)) hpoly
  simpa [coeff_polyOf, List.getD_eq_getElem?_getD, h1, h2] using this

/-- carrier-level statement of `below_threshold_independent` -/
theorem existsUnique_coeffs (XS YS : List GF) (s : GF) (hnd : XS.Nodup) (hnz : ∀ x ∈ XS, x ≠ 0)
    (hlen : YS.length = XS.length) :
    ∃! CS : List GF, CS.length = XS.length ∧ XS.map (fun x => (polyOf (s :: CS)).eval x) = YS := by
  obtain ⟨CS, hl, h⟩ := exists_coeffs XS YS s hnd hnz hlen
  refine ⟨CS, ⟨hl, h⟩, ?_⟩
  rintro CS' ⟨hl', h'⟩
  exact unique_coeffs XS s hnd hnz CS' CS hl' hl (h'.trans h.symm)

/-! ### on the model's byte lists -/

theorem map_evaluate_eq {xs cs : List Nat} (hxs : Bytes xs) (hcs : Bytes cs) :
    xs.map (evaluate cs) =
      ((xs.map GF.ofNat).map fun x => (polyOf (cs.map GF.ofNat)).eval x).map GF.val := by
  rw [List.map_map, List.map_map]
  refine List.map_congr_left fun x hx => ?_
  have := evaluate_val (cs.map GF.ofNat) (GF.ofNat x)
  rw [map_val_ofNat hcs, GF.ofNat_val (hxs x hx)] at this
  exact this

theorem map_ofNat_val (l : List GF) : (l.map GF.val).map GF.ofNat = l := by
  rw [List.map_map]
  conv => rhs; rw [← List.map_id l]
  exact List.map_congr_left fun a _ => GF.ofNat_val_self a

theorem bytes_cons {s : Nat} {cs : List Nat} (hs : s < 256) (hcs : Bytes cs) : Bytes (s :: cs) := by
  intro v hv
  rcases List.mem_cons.1 hv with h | h
  · rw [h]; exact hs
  · exact hcs v h

/-- **below_threshold_independent** for one secret byte: `k` distinct non-zero x-coordinates, any `k` observed
    y-values, any candidate secret byte `s`: exactly one coefficient vector of length `k` explains them. -/
theorem existsUnique_coeffs_nat {xs ys : List Nat} {s : Nat} (hxs : Bytes xs) (hnd : xs.Nodup)
    (hnz : ∀ x ∈ xs, x ≠ 0) (hys : Bytes ys) (hlen : ys.length = xs.length) (hs : s < 256) :
    ∃! cs : List Nat, cs.length = xs.length ∧ Bytes cs ∧ xs.map (evaluate (s :: cs)) = ys := by
  have hnd' : (xs.map GF.ofNat).Nodup := by
    apply List.Nodup.of_map GF.val
    rwa [map_val_ofNat hxs]
  have hnz' : ∀ x ∈ xs.map GF.ofNat, x ≠ 0 := by
    intro x hx h0
    obtain ⟨n, hn, rfl⟩ := List.mem_map.1 hx
    have := congrArg GF.val h0
    rw [GF.ofNat_val (hxs n hn)] at this
    exact hnz n hn this
  obtain ⟨CS, ⟨hCl, hC⟩, huniq⟩ := existsUnique_coeffs (xs.map GF.ofNat) (ys.map GF.ofNat) (GF.ofNat s)
    hnd' hnz' (by simp [hlen])
  have hsv : GF.ofNat s :: CS = (s :: CS.map GF.val).map GF.ofNat := by
    rw [List.map_cons, map_ofNat_val]
  refine ⟨CS.map GF.val, ⟨by simpa using hCl, bytes_map_val CS, ?_⟩, ?_⟩
  · rw [map_evaluate_eq hxs (bytes_cons hs (bytes_map_val CS)), ← hsv, hC, map_val_ofNat hys]
  · rintro cs' ⟨hl', hb', h'⟩
    have : cs'.map GF.ofNat = CS := by
      apply huniq
      refine ⟨by simpa using hl', ?_⟩
      apply List.map_injective_iff.2 GF.val_injective
      rw [map_val_ofNat hys, ← h', map_evaluate_eq hxs (bytes_cons hs hb'), List.map_cons]
    rw [← this, map_val_ofNat hb']

end Obao.GF256
