import Obao.Proofs.GF256Split
/-!
A verified reconstruction forces genuineness: if `threshold` parts combine to the secret and all but one of them
are genuine shares, the remaining one is the point of the sharing polynomials at its own x-coordinate.
-/
namespace Obao.GF256
open Polynomial

/-- carrier level: a polynomial `p` of degree `< k`, `k` distinct nodes of which all but the `j`-th are non-zero
    and carry `p`'s values; if the model's interpolation at 0 gives `p(0)`, the `j`-th value is `p`'s too. -/
theorem forced_point (XS YS : List GF) (hnd : XS.Nodup) (hlen : YS.length = XS.length) (p : GF[X])
    (hdeg : p.degree < XS.length) (j : Nat) (hj : j < XS.length)
    (h : ∀ i (hi : i < XS.length), i ≠ j → XS[i] ≠ 0 ∧ p.eval XS[i] = YS[i]'(hlen ▸ hi))
    (h0 : interpolate (XS.map GF.val) (YS.map GF.val) (0 : GF).val = (p.eval 0).val) :
    p.eval XS[j] = YS[j]'(hlen ▸ hj) := by
  let F : GF → GF := fun a => YS.getD (XS.idxOf a) 0
  let q : GF[X] := Lagrange.interpolate XS.toFinset id F
  have hq0 : q.eval 0 = p.eval 0 := by
    apply GF.val_injective
    rw [← h0, interpolate_eq_lagrange_lookup XS YS 0 hnd hlen]
  have hF : ∀ i (hi : i < XS.length), F XS[i] = YS[i]'(hlen ▸ hi) := by
    intro i hi
    simp only [F, hnd.idxOf_getElem i hi]
    simp [List.getD_eq_getElem?_getD, hlen ▸ hi]
  have hqn : ∀ i (hi : i < XS.length), q.eval XS[i] = YS[i]'(hlen ▸ hi) := by
    intro i hi
    rw [← hF i hi]
    exact Lagrange.eval_interpolate_at_node (v := id) F (Set.injOn_id _) (List.mem_toFinset.2 (List.getElem_mem hi))
  by_cases hz : XS[j] = 0
  · rw [← hqn j hj, hz, hq0]
  · have hmem : ∀ a ∈ XS.toFinset.erase XS[j], ∃ i, ∃ hi : i < XS.length, i ≠ j ∧ XS[i] = a := by
      intro a ha
      obtain ⟨hne, hin⟩ := Finset.mem_erase.1 ha
      obtain ⟨i, hi, rfl⟩ := List.getElem_of_mem (List.mem_toFinset.1 hin)
      exact ⟨i, hi, fun e => hne (by subst e; rfl), rfl⟩
    have h0n : (0 : GF) ∉ XS.toFinset.erase XS[j] := by
      intro h0m
      obtain ⟨i, hi, hij, e⟩ := hmem 0 h0m
      exact (h i hi hij).1 e
    have hcard : (insert (0 : GF) (XS.toFinset.erase XS[j])).card = XS.length := by
      rw [Finset.card_insert_of_notMem h0n,
        Finset.card_erase_of_mem (List.mem_toFinset.2 (List.getElem_mem hj)),
        List.toFinset_card_of_nodup hnd]
      omega
    have hqdeg : q.degree < XS.length := by
      have := Lagrange.degree_interpolate_lt (s := XS.toFinset) (v := id) F (Set.injOn_id _)
      rwa [List.toFinset_card_of_nodup hnd] at this
    have hpq : p = q := by
      refine eq_of_degrees_lt_of_eval_finset_eq (insert (0 : GF) (XS.toFinset.erase XS[j]))
        (by rw [hcard]; exact hdeg) (by rw [hcard]; exact hqdeg) ?_
      intro a ha
      rcases Finset.mem_insert.1 ha with rfl | ha
      · exact hq0.symm
      · obtain ⟨i, hi, hij, rfl⟩ := hmem a ha
        rw [(h i hi hij).2, hqn i hi]
    rw [hpq]; exact hqn j hj

/-- what `Combine` returning `ok` says about its input -/
theorem combine_ok_inv {ps : List (List Nat)} {s : List Nat} (h : combine ps = .ok s) :
    ∃ n, 2 ≤ ps.length ∧ 2 ≤ n ∧ (∀ p ∈ ps, p.length = n) ∧ (ps.map fun p => p.getD (n - 1) 0).Nodup ∧
      s = (List.range (n - 1)).map fun idx =>
        interpolate (ps.map fun p => p.getD (n - 1) 0) (ps.map fun p => p.getD idx 0) 0 := by
  match ps, h with
  | [], h => simp [combine] at h
  | [_], h => simp [combine] at h
  | p0 :: p1 :: rest, h =>
    rw [combine_cons_cons] at h
    by_cases h1 : p0.length < 2
    · simp [h1] at h
    by_cases h2 : (p1 :: rest).any (fun p => p.length != p0.length) = true
    · simp [h1, h2] at h
    by_cases h3 : hasDup ((p0 :: p1 :: rest).map fun p => p.getD (p0.length - 1) 0) = true
    · simp only [h1, h2, h3, if_true, if_false] at h; cases h
    simp only [h1, h2, h3, if_false] at h
    refine ⟨p0.length, by simp, by omega, ?_, ?_, ?_⟩
    · intro p hp
      rcases List.mem_cons.1 hp with rfl | hp
      · rfl
      · have h2' : (p1 :: rest).any (fun p => p.length != p0.length) = false := by
          cases hh : (p1 :: rest).any (fun p => p.length != p0.length)
          · rfl
          · exact absurd hh h2
        have := List.any_eq_false.1 h2' p hp
        simpa using this
    · exact (hasDup_eq_false_iff _).1 (by simpa using h3)
    · injection h with h; exact h.symm

theorem bytes_share {secret : List Nat} {coeffs : List (List Nat)} {k x : Nat} (hsec : Bytes secret)
    (hc : CoeffsWF k coeffs) (hx : x < 256) : Bytes (share secret coeffs x) := by
  intro v hv
  unfold share at hv
  rcases List.mem_append.1 hv with hv | hv
  · obtain ⟨sc, hsc, rfl⟩ := List.mem_map.1 hv
    have h1 := List.of_mem_zip hsc
    exact evaluate_lt (bytes_cons (hsec _ h1.1) (hc _ h1.2).2) hx
  · rw [List.mem_singleton.1 hv]; exact hx

theorem getElem_eq_getD_zero (l : List Nat) {i : Nat} (h : i < l.length) : l[i] = l.getD i 0 := by
  rw [List.getD_eq_getElem?_getD, List.getElem?_eq_getElem h, Option.getD_some]

/-- **a verified quorum is genuine.** `ps` are exactly `t` parts that `Combine` to the secret of a split with
    threshold `t`; all of them except possibly the `j`-th are genuine shares (non-zero x-coordinates). Then the
    `j`-th part is the point of the sharing polynomials at its own x-coordinate: it is the share that `Split`
    would have dealt for that x. A forged part never completes `t-1` genuine shares to a verified key. -/
theorem forged_part_on_polynomial {secret xs : List Nat} {coeffs : List (List Nat)} {t : Nat}
    (hsec : Bytes secret) (hclen : coeffs.length = secret.length)
    (hc : CoeffsWF (t - 1) coeffs) (hxs : Bytes xs) (hnz : ∀ x ∈ xs, x ≠ 0)
    (ps : List (List Nat)) (hlen : ps.length = t) (j : Nat) (hj : j < ps.length) (hb : Bytes ps[j])
    (hgen : ∀ i (hi : i < ps.length), i ≠ j → ps[i] ∈ split secret xs coeffs)
    (hcomb : combine ps = .ok secret) :
    ps[j] = share secret coeffs (ps[j].getD secret.length 0) := by
  obtain ⟨n, h2, hn2, hlens, hnd, hsecret⟩ := combine_ok_inv hcomb
  have hL : n - 1 = secret.length := by
    have := congrArg List.length hsecret
    simpa using this.symm
  rw [hL] at hnd hsecret
  have hn : n = secret.length + 1 := by omega
  have hgen' : ∀ i (hi : i < ps.length), i ≠ j → ∃ x ∈ xs, ps[i] = share secret coeffs x := by
    intro i hi hij
    have := hgen i hi hij
    rw [split_eq] at this
    obtain ⟨x, hx, e⟩ := List.mem_map.1 this
    exact ⟨x, hx, e.symm⟩
  have hplen : ∀ i (hi : i < ps.length), ps[i].length = secret.length + 1 := by
    intro i hi; rw [hlens _ (List.getElem_mem hi), hn]
  have hbytes : ∀ i (hi : i < ps.length), Bytes ps[i] := by
    intro i hi
    by_cases hij : i = j
    · subst hij; exact hb
    · obtain ⟨x, hx, e⟩ := hgen' i hi hij
      rw [e]; exact bytes_share hsec hc (hxs x hx)
  have hgetD : ∀ i (hi : i < ps.length) idx, idx < secret.length + 1 → ps[i].getD idx 0 < 256 := by
    intro i hi idx hidx
    have hl : idx < ps[i].length := by rw [hplen i hi]; exact hidx
    rw [List.getD_eq_getElem?_getD, List.getElem?_eq_getElem hl, Option.getD_some]
    exact hbytes i hi _ (List.getElem_mem hl)
  have hcolB : ∀ idx, idx < secret.length + 1 → Bytes (ps.map fun p => p.getD idx 0) := by
    intro idx hidx v hv
    obtain ⟨p, hp, rfl⟩ := List.mem_map.1 hv
    obtain ⟨i, hi, rfl⟩ := List.getElem_of_mem hp
    exact hgetD i hi idx hidx
  have htagsB := hcolB secret.length (by omega)
  have key : ∀ idx (hidx : idx < secret.length), ps[j].getD idx 0 =
      evaluate (secret[idx] :: coeffs[idx]'(hclen ▸ hidx)) (ps[j].getD secret.length 0) := by
    intro idx hidx
    have hcB := hcolB idx (by omega)
    have hcmem : coeffs[idx]'(hclen ▸ hidx) ∈ coeffs := List.getElem_mem _
    have hcs : Bytes (secret[idx] :: coeffs[idx]'(hclen ▸ hidx)) :=
      bytes_cons (hsec _ (List.getElem_mem _)) (hc _ hcmem).2
    have hint : interpolate (ps.map fun p => p.getD secret.length 0) (ps.map fun p => p.getD idx 0) 0
        = secret[idx] := by
      have := congrArg (fun l => l[idx]?) hsecret
      simp only [List.getElem?_eq_getElem hidx, List.getElem?_map, List.getElem?_range hidx,
        Option.map_some] at this
      exact (Option.some.inj this).symm
    have hdeg : (polyOf ((secret[idx] :: coeffs[idx]'(hclen ▸ hidx)).map GF.ofNat)).degree <
        (((ps.map fun p => p.getD secret.length 0).map GF.ofNat).length : WithBot Nat) := by
      refine lt_of_lt_of_le (degree_polyOf_lt _) ?_
      have := (hc _ hcmem).1
      simp only [List.length_map, List.length_cons, hlen]
      exact_mod_cast (by omega : (coeffs[idx]'(hclen ▸ hidx)).length + 1 ≤ t)
    have res := forced_point ((ps.map fun p => p.getD secret.length 0).map GF.ofNat)
      ((ps.map fun p => p.getD idx 0).map GF.ofNat) (nodup_map_ofNat htagsB hnd) (by simp)
      (polyOf ((secret[idx] :: coeffs[idx]'(hclen ▸ hidx)).map GF.ofNat)) hdeg j (by simpa using hj) ?_ ?_
    · have := congrArg GF.val res
      simp only [List.getElem_map] at this
      rw [GF.ofNat_val (hgetD j hj idx (by omega)),
        ← evaluate_eq_eval hcs (hgetD j hj secret.length (by omega))] at this
      exact this.symm
    · intro i hi hij
      have hi' : i < ps.length := by simpa using hi
      obtain ⟨x, hx, e⟩ := hgen' i hi' hij
      simp only [List.getElem_map, e, share_getD_last hclen, share_getD_lt hclen x hidx]
      refine ⟨?_, ?_⟩
      · intro h0
        have := congrArg GF.val h0
        rw [GF.ofNat_val (hxs x hx)] at this
        exact hnz x hx this
      · apply GF.val_injective
        rw [← evaluate_eq_eval hcs (hxs x hx), GF.ofNat_val (evaluate_lt hcs (hxs x hx))]
    · rw [map_val_ofNat htagsB, map_val_ofNat hcB]
      show interpolate _ _ 0 = _
      rw [hint, List.map_cons, eval_zero_polyOf_cons, GF.ofNat_val (hsec _ (List.getElem_mem _))]
  apply List.ext_getElem
  · rw [hplen j hj, share_length hclen]
  · intro idx h1 h2'
    have hidx : idx < secret.length + 1 := by rw [← hplen j hj]; exact h1
    rw [getElem_eq_getD_zero _ h1, getElem_eq_getD_zero _ h2']
    by_cases hlt : idx < secret.length
    · rw [share_getD_lt hclen _ hlt]; exact key idx hlt
    · have : idx = secret.length := by omega
      subst this
      rw [share_getD_last hclen]

end Obao.GF256
