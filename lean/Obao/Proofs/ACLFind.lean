import Obao.Proofs.ACLMaps
/-! C03 helper lemmas: the rule found by `CheckAllowedFromNonExactPaths` is the one stored for the highest-priority
matching glob/wildcard pattern of the declarative semantics. -/
namespace Obao.ACLProofs
open Obao.ACL Obao.ACLSpec

/-- the four components `less` looks at -/
def sameKey (a b : Descr) : Prop :=
  a.firstWC = b.firstWC ∧ a.isPrefix = b.isPrefix ∧ a.wildcards = b.wildcards ∧ a.wcPath = b.wcPath

theorem sameKey.symm {a b : Descr} (h : sameKey a b) : sameKey b a :=
  ⟨h.1.symm, h.2.1.symm, h.2.2.1.symm, h.2.2.2.symm⟩

theorem sameKey.trans {a b c : Descr} (h1 : sameKey a b) (h2 : sameKey b c) : sameKey a c :=
  ⟨h1.1.trans h2.1, h1.2.1.trans h2.2.1, h1.2.2.1.trans h2.2.2.1, h1.2.2.2.trans h2.2.2.2⟩

theorem less_congr {a a' b b' : Descr} (ha : sameKey a a') (hb : sameKey b b') : less a b = less a' b' := by
  unfold less
  rw [ha.1, ha.2.1, ha.2.2.1, ha.2.2.2, hb.1, hb.2.1, hb.2.2.1, hb.2.2.2]

def withPerms (d : Descr) (p : Perms) : Descr := { d with perms := p }

theorem sameKey_withPerms (d : Descr) (p : Perms) : sameKey (withPerms d p) d := ⟨rfl, rfl, rfl, rfl⟩

def isPre (k : Path) : Bool := k.getLast? == some star
def currOf (k : Path) : Path := if isPre k then k.dropLast else k

theorem descrOf_def (parts : List Path) (k : Path) (p : Perms) :
    descrOf parts (k, p) =
      if k.isEmpty then none
      else if parts.length < (splitSlash (currOf k)).length then none
      else if !isPre k && (splitSlash (currOf k)).length ≠ parts.length then none
      else (segLoop (isPre k) (splitSlash (currOf k)) parts 0).map fun wc =>
        { firstWC := indexOfPlus k 0, wildcards := wc, isPrefix := isPre k, wcPath := currOf k, perms := p } := rfl

theorem descrOf_perms (parts : List Path) (k : Path) (p : Perms) :
    descrOf parts (k, p) = (descrOf parts (k, {})).map fun d => withPerms d p := by
  rw [descrOf_def, descrOf_def]
  split
  · rfl
  · split
    · rfl
    · split
      · rfl
      · rw [Option.map_map]; rfl

/-- the shape of a segment-wildcard descriptor -/
theorem descrOf_fields (parts : List Path) (k : Path) (p : Perms) (d : Descr) (h : descrOf parts (k, p) = some d) :
    k ≠ [] ∧ d.isPrefix = (k.getLast? == some star) ∧ d.wcPath = (if d.isPrefix then k.dropLast else k) ∧
      d.firstWC = indexOfPlus k 0 ∧ d.perms = p := by
  rw [descrOf_def] at h
  split at h
  · exact absurd h (by simp)
  · rename_i h1
    split at h
    · exact absurd h (by simp)
    · split at h
      · exact absurd h (by simp)
      · rw [Option.map_eq_some_iff] at h
        obtain ⟨wc, _, hd⟩ := h
        subst hd
        exact ⟨by simpa using h1, rfl, rfl, rfl, rfl⟩

theorem indexOfPlus_append_star (k : Path) (n : Nat) : indexOfPlus (k ++ [star]) n ≠ (n + k.length : Nat) := by
  induction k generalizing n with
  | nil =>
    simp only [List.nil_append, indexOfPlus, List.length_nil]
    have : ¬ star = plus := by decide
    simp only [this, if_false]
    omega
  | cons c cs ih =>
    simp only [List.cons_append, indexOfPlus, List.length_cons]
    split
    · omega
    · have := ih (n + 1)
      intro h
      apply this
      rw [h]
      congr 1
      omega

theorem eq_dropLast_append_of_getLast? (k : Path) (c : Nat) (h : k.getLast? = some c) : k = k.dropLast ++ [c] := by
  induction k with
  | nil => simp at h
  | cons x xs ih =>
    cases xs with
    | nil => simp at h; simp [h]
    | cons y ys =>
      simp only [List.getLast?_cons_cons] at h
      simp only [List.dropLast_cons_cons, List.cons_append]
      rw [← ih h]

/-- a descriptor identifies its pattern -/
theorem candOf_injective (path : Path) (kind kind' : Kind) (k k' : Path) (d d' : Descr)
    (h : candOf path kind k = some d) (h' : candOf path kind' k' = some d') (hk : sameKey d d') :
    kind = kind' ∧ k = k' := by
  have segseg : ∀ (k k' : Path) (d d' : Descr), descrOf (splitSlash path) (k, {}) = some d →
      descrOf (splitSlash path) (k', {}) = some d' → sameKey d d' → k = k' := by
    intro k k' d d' h h' hk
    obtain ⟨_, hp, hw, _, _⟩ := descrOf_fields _ _ _ _ h
    obtain ⟨_, hp', hw', _, _⟩ := descrOf_fields _ _ _ _ h'
    have e1 := hk.2.1
    have e2 := hk.2.2.2
    cases hdp : d.isPrefix with
    | true =>
      have hdp' : d'.isPrefix = true := by rw [← e1]; exact hdp
      rw [hdp] at hp hw; rw [hdp'] at hp' hw'
      have g : k.getLast? = some star := by simpa using hp.symm
      have g' : k'.getLast? = some star := by simpa using hp'.symm
      rw [eq_dropLast_append_of_getLast? k star g, eq_dropLast_append_of_getLast? k' star g']
      simp only [if_true] at hw hw'
      rw [← hw, ← hw', e2]
    | false =>
      have hdp' : d'.isPrefix = false := by rw [← e1]; exact hdp
      rw [hdp] at hw; rw [hdp'] at hw'
      simp only [Bool.false_eq_true, if_false] at hw hw'
      rw [← hw, ← hw', e2]
  have prefseg : ∀ (k k' : Path) (d d' : Descr), candOf path .pref k = some d →
      descrOf (splitSlash path) (k', {}) = some d' → sameKey d d' → False := by
    intro k k' d d' h h' hk
    unfold candOf at h
    simp only at h
    split at h
    · simp only [Option.some.injEq] at h
      subst h
      obtain ⟨_, hp, hw, hf, _⟩ := descrOf_fields _ _ _ _ h'
      have e0 := hk.1; have e1 := hk.2.1; have e2 := hk.2.2.2
      simp only at e0 e1 e2
      rw [← e1] at hp hw
      have g' : k'.getLast? = some star := by simpa using hp.symm
      simp only [if_true] at hw
      have hk' := eq_dropLast_append_of_getLast? k' star g'
      rw [← hw, ← e2] at hk'
      rw [hk'] at hf
      have := indexOfPlus_append_star k 0
      rw [← hf, ← e0] at this
      simp at this
    · simp at h
  cases kind with
  | exact => simp [candOf] at h
  | pref =>
    cases kind' with
    | exact => simp [candOf] at h'
    | pref =>
      refine ⟨rfl, ?_⟩
      unfold candOf at h h'
      simp only at h h'
      split at h
      · split at h'
        · simp only [Option.some.injEq] at h h'
          subst h; subst h'
          exact hk.2.2.2
        · simp at h'
      · simp at h
    | segwc => exact absurd (prefseg k k' d d' h h' hk) id
  | segwc =>
    cases kind' with
    | exact => simp [candOf] at h'
    | pref => exact absurd (prefseg k' k d' d h' h hk.symm) id
    | segwc => exact ⟨rfl, segseg k k' d d' h h' hk⟩

/-! ### `radix.LongestPrefix` -/

theorem longestPrefix_eq (m : RuleMap) (path : Path) :
    longestPrefix m path =
      foldMax (fun b kv => decide (b.1.length < kv.1.length)) (m.filter fun kv => kv.1.isPrefixOf path) := by
  unfold longestPrefix foldMax
  rw [List.foldl_filter]
  congr
  funext best kv
  split
  · cases best <;> simp [foldMaxStep]
  · rfl

theorem longestPrefix_spec (m : RuleMap) (path : Path) :
    (longestPrefix m path = none ∧ ∀ kv ∈ m, kv.1.isPrefixOf path = false) ∨
    ∃ kv, longestPrefix m path = some kv ∧ kv ∈ m ∧ kv.1.isPrefixOf path = true ∧
      ∀ kv' ∈ m, kv'.1.isPrefixOf path = true → kv'.1.length ≤ kv.1.length := by
  rw [longestPrefix_eq]
  rcases foldMax_spec (fun (b kv : Path × Perms) => decide (b.1.length < kv.1.length)) (by intro a; simp)
      (by intro a b c h1 h2; simp at h1 h2 ⊢; omega) (m.filter fun kv => kv.1.isPrefixOf path) with ⟨he, hn⟩ | ⟨x, hx, hmem, hmax⟩
  · left
    refine ⟨hn, ?_⟩
    intro kv hkv
    rw [Bool.eq_false_iff]
    intro hc
    have : kv ∈ m.filter fun kv => kv.1.isPrefixOf path := List.mem_filter.mpr ⟨hkv, hc⟩
    rw [he] at this
    simp at this
  · right
    obtain ⟨hm, hp⟩ := List.mem_filter.mp hmem
    refine ⟨x, hx, hm, hp, ?_⟩
    intro kv' hkv' hp'
    have := hmax kv' (List.mem_filter.mpr ⟨hkv', hp'⟩)
    simp at this
    exact this

theorem lookup_of_mem_nodup (m : RuleMap) (k : Path) (p : Perms) (hn : (m.map (·.1)).Nodup) (h : (k, p) ∈ m) :
    m.lookup k = some p := by
  induction m with
  | nil => simp at h
  | cons kv rest ih =>
    obtain ⟨k0, p0⟩ := kv
    simp only [List.map_cons, List.nodup_cons] at hn
    rcases List.mem_cons.mp h with h | h
    · simp only [Prod.mk.injEq] at h
      obtain ⟨rfl, rfl⟩ := h
      simp
    · have hne : k ≠ k0 := by
        intro hc
        apply hn.1
        rw [← hc]
        exact List.mem_map.mpr ⟨(k, p), h, rfl⟩
      have : (k == k0) = false := by simp [hne]
      simp only [List.lookup_cons, this]
      exact ih hn.2 h

theorem mem_of_lookup (m : RuleMap) (k : Path) (p : Perms) (h : m.lookup k = some p) : (k, p) ∈ m := by
  induction m with
  | nil => simp at h
  | cons kv rest ih =>
    obtain ⟨k0, p0⟩ := kv
    simp only [List.lookup_cons] at h
    by_cases hk : k = k0
    · subst hk; simp at h; subst h; simp
    · have : (k == k0) = false := by simp [hk]
      simp only [this] at h
      exact List.mem_cons_of_mem _ (ih h)

theorem mem_keys_iff_lookup (m : RuleMap) (k : Path) : k ∈ m.map (·.1) ↔ ∃ p, m.lookup k = some p := by
  constructor
  · intro h
    induction m with
    | nil => simp at h
    | cons kv rest ih =>
      obtain ⟨k0, p0⟩ := kv
      by_cases hk : k = k0
      · subst hk; exact ⟨p0, by simp⟩
      · have : (k == k0) = false := by simp [hk]
        simp only [List.map_cons, List.mem_cons, hk, false_or] at h
        obtain ⟨p, hp⟩ := ih h
        exact ⟨p, by simp [List.lookup_cons, this, hp]⟩
  · rintro ⟨p, hp⟩
    exact List.mem_map.mpr ⟨(k, p), mem_of_lookup m k p hp, rfl⟩

/-! ### the ACL as built from a list of stanzas -/

structure Built (a : ACL) (rules : List PathRule) : Prop where
  nodup : ∀ kind, ((mapOf a kind).map (·.1)).Nodup
  keys : ∀ kind k, k ∈ (mapOf a kind).map (·.1) ↔ ∃ r ∈ rules, kindOf r = kind ∧ r.path = k
  lookup : ∀ kind k, (mapOf a kind).lookup k = mergeAll (permsFor rules kind k)

theorem built_foldl (rules : List PathRule) (b : Bool) : Built (setRoot (rules.foldl insertRule {}) b) rules := by
  have hm : ∀ kind, mapOf (setRoot (rules.foldl insertRule {}) b) kind = mapOf (rules.foldl insertRule {}) kind := by
    intro kind; cases kind <;> rfl
  refine ⟨?_, ?_, ?_⟩
  · intro kind
    rw [hm]
    apply nodup_foldl_insertRule
    cases kind <;> simp [mapOf]
  · intro kind k
    rw [hm, mem_keys_foldl_insertRule]
    have : k ∉ (mapOf ({} : ACL) kind).map (·.1) := by cases kind <;> simp [mapOf]
    simp [this]
  · intro kind k
    rw [hm, lookup_foldl_insertRule]
    have : (mapOf ({} : ACL) kind).lookup k = none := by cases kind <;> simp [mapOf]
    rw [this, foldl_mergeOpt_none]

/-! ### the descriptor list of `CheckAllowedFromNonExactPaths` -/

def prefDescr (k : Path) (p : Perms) : Descr :=
  { firstWC := k.length, wildcards := 0, isPrefix := true, wcPath := k, perms := p }

def implDescrs (a : ACL) (path : Path) : List Descr :=
  (match longestPrefix a.pref path with
    | some kv => [prefDescr kv.1 kv.2]
    | none => []) ++ a.segwc.filterMap (descrOf (splitSlash path))

theorem pickMax_singleton (d : Descr) : pickMax [d] = some d := rfl

theorem checkNonExact_eq_pickMax (a : ACL) (path : Path) :
    checkNonExact a path = (pickMax (implDescrs a path)).map (·.perms) := by
  unfold checkNonExact implDescrs
  simp only
  by_cases he : a.segwc.isEmpty = true
  · have : a.segwc = [] := by simpa using he
    simp only [he, if_true, this, List.filterMap_nil, List.append_nil]
    cases longestPrefix a.pref path with
    | none => rfl
    | some kv => rfl
  · simp only [he]
    cases longestPrefix a.pref path with
    | none => rfl
    | some kv => rfl

def specCands (rules : List PathRule) (path : Path) : List (Descr × Kind × Path) := rules.filterMap (candidate path)

theorem mem_specCands {rules : List PathRule} {path : Path} {c : Descr × Kind × Path} :
    c ∈ specCands rules path ↔ ∃ r ∈ rules, candOf path (kindOf r) r.path = some c.1 ∧ c.2 = (kindOf r, r.path) := by
  unfold specCands candidate
  rw [List.mem_filterMap]
  constructor
  · rintro ⟨r, hr, h⟩
    rw [Option.map_eq_some_iff] at h
    obtain ⟨d, hd, rfl⟩ := h
    exact ⟨r, hr, hd, rfl⟩
  · rintro ⟨r, hr, hd, hc⟩
    refine ⟨r, hr, ?_⟩
    rw [hd]
    obtain ⟨d, kk⟩ := c
    simp only at hc
    subst hc
    rfl

/-- every descriptor the implementation considers belongs to a matching pattern of some stanza, and carries what is
stored for that pattern -/
theorem impl_to_spec {a : ACL} {rules : List PathRule} (hb : Built a rules) (path : Path) (x : Descr)
    (hx : x ∈ implDescrs a path) :
    ∃ c ∈ specCands rules path, sameKey c.1 x ∧ (mapOf a c.2.1).lookup c.2.2 = some x.perms := by
  unfold implDescrs at hx
  rcases List.mem_append.mp hx with hx | hx
  · rcases longestPrefix_spec a.pref path with ⟨hn, _⟩ | ⟨kv, hkv, hmem, hpre, _⟩
    · rw [hn] at hx; simp at hx
    · rw [hkv] at hx
      simp only [List.mem_singleton] at hx
      subst hx
      have hk : kv.1 ∈ (mapOf a .pref).map (·.1) := List.mem_map.mpr ⟨kv, hmem, rfl⟩
      obtain ⟨r, hr, hkind, hpath⟩ := (hb.keys .pref kv.1).mp hk
      refine ⟨(prefDescr kv.1 {}, .pref, kv.1), ?_, ⟨rfl, rfl, rfl, rfl⟩, ?_⟩
      · rw [mem_specCands]
        refine ⟨r, hr, ?_, by simp [hkind, hpath]⟩
        rw [hkind, hpath]
        simp [candOf, hpre, prefDescr]
      · exact lookup_of_mem_nodup _ _ _ (hb.nodup .pref) hmem
  · rw [List.mem_filterMap] at hx
    obtain ⟨kv, hmem, hd⟩ := hx
    obtain ⟨k, p⟩ := kv
    have hk : k ∈ (mapOf a .segwc).map (·.1) := List.mem_map.mpr ⟨(k, p), hmem, rfl⟩
    obtain ⟨r, hr, hkind, hpath⟩ := (hb.keys .segwc k).mp hk
    rw [descrOf_perms] at hd
    rw [Option.map_eq_some_iff] at hd
    obtain ⟨d, hd0, hdx⟩ := hd
    refine ⟨(d, .segwc, k), ?_, ?_, ?_⟩
    · rw [mem_specCands]
      refine ⟨r, hr, ?_, by simp [hkind, hpath]⟩
      rw [hkind, hpath]
      exact hd0
    · rw [← hdx]; exact (sameKey_withPerms d p).symm
    · rw [← hdx]
      exact lookup_of_mem_nodup _ _ _ (hb.nodup .segwc) hmem

theorem less_of_firstWC_lt {a b : Descr} (h : a.firstWC < b.firstWC) : less a b = true := by
  unfold less; simp [h]

/-- every matching pattern of a stanza is represented in the implementation's list, or beaten by the longest prefix -/
theorem spec_to_impl {a : ACL} {rules : List PathRule} (hb : Built a rules) (path : Path) (c : Descr × Kind × Path)
    (hc : c ∈ specCands rules path) : ∃ x ∈ implDescrs a path, sameKey x c.1 ∨ less c.1 x = true := by
  rw [mem_specCands] at hc
  obtain ⟨r, hr, hd, hpat⟩ := hc
  cases hkind : kindOf r with
  | exact => rw [hkind] at hd; simp [candOf] at hd
  | pref =>
    rw [hkind] at hd
    unfold candOf at hd
    simp only at hd
    split at hd
    · rename_i hpre
      simp only [Option.some.injEq] at hd
      have hk : r.path ∈ (mapOf a .pref).map (·.1) := (hb.keys .pref r.path).mpr ⟨r, hr, hkind, rfl⟩
      obtain ⟨p, hp⟩ := (mem_keys_iff_lookup _ _).mp hk
      have hmem := mem_of_lookup _ _ _ hp
      rcases longestPrefix_spec a.pref path with ⟨_, hall⟩ | ⟨kv, hkv, hkmem, hkpre, hmax⟩
      · have := hall _ hmem
        simp only at this
        rw [hpre] at this
        exact absurd this (by decide)
      · refine ⟨prefDescr kv.1 kv.2, ?_, ?_⟩
        · unfold implDescrs; rw [hkv]; simp
        · have hle := hmax _ hmem hpre
          simp only at hle
          by_cases hlen : r.path.length = kv.1.length
          · left
            have h1 := List.isPrefixOf_iff_prefix.mp hpre
            have h2 := List.isPrefixOf_iff_prefix.mp hkpre
            have := (List.prefix_of_prefix_length_le h1 h2 (by omega)).eq_of_length hlen
            rw [← hd]
            exact ⟨by simp [prefDescr, this], rfl, rfl, by simp [prefDescr, this]⟩
          · right
            apply less_of_firstWC_lt
            rw [← hd]
            simp only [prefDescr]
            omega
    · simp at hd
  | segwc =>
    rw [hkind] at hd
    simp only [candOf] at hd
    have hk : r.path ∈ (mapOf a .segwc).map (·.1) := (hb.keys .segwc r.path).mpr ⟨r, hr, hkind, rfl⟩
    obtain ⟨p, hp⟩ := (mem_keys_iff_lookup _ _).mp hk
    have hmem := mem_of_lookup _ _ _ hp
    refine ⟨withPerms c.1 p, ?_, Or.inl (sameKey_withPerms _ _)⟩
    unfold implDescrs
    apply List.mem_append_right
    rw [List.mem_filterMap]
    refine ⟨(r.path, p), hmem, ?_⟩
    rw [descrOf_perms, hd]
    rfl

/-- the rule found among the non-exact patterns = what is stored for the highest-priority matching pattern -/
theorem checkNonExact_eq {a : ACL} {rules : List PathRule} (hb : Built a rules) (path : Path) :
    checkNonExact a path = (specNonExact rules path).bind fun pat => (mapOf a pat.1).lookup pat.2 := by
  rw [checkNonExact_eq_pickMax]
  unfold specNonExact
  show _ = Option.bind (Option.map (fun x => x.snd) (pickBest (specCands rules path))) _
  rw [pickMax_eq_foldMax, pickBest_eq_foldMax]
  have hirr' : ∀ a : Descr × Kind × Path, less a.1 a.1 = false := fun a => less_irrefl a.1
  have htr' : ∀ a b c : Descr × Kind × Path, less a.1 b.1 = true → less b.1 c.1 = true → less a.1 c.1 = true :=
    fun a b c => less_trans
  rcases foldMax_spec less less_irrefl (fun a b c => less_trans) (implDescrs a path) with ⟨hDe, hDn⟩ | ⟨x, hx, hxm, hxmax⟩
  · -- nothing matches on the implementation side: nothing matches in the semantics either
    rcases foldMax_spec (fun (b c : Descr × Kind × Path) => less b.1 c.1) hirr' htr' (specCands rules path) with
      ⟨_, hCn⟩ | ⟨c, _, hcm, _⟩
    · rw [hDn, hCn]; rfl
    · obtain ⟨y, hy, _⟩ := spec_to_impl hb path c hcm
      rw [hDe] at hy; simp at hy
  · obtain ⟨c', hc'm, hc'k, hc'l⟩ := impl_to_spec hb path x hxm
    rcases foldMax_spec (fun (b c : Descr × Kind × Path) => less b.1 c.1) hirr' htr' (specCands rules path) with
      ⟨hCe, _⟩ | ⟨c, hc, hcm, hcmax⟩
    · rw [hCe] at hc'm; simp at hc'm
    · -- `c` is maximal among the candidates, `x` among the implementation's descriptors: same pattern
      have h1 : less c.1 x = false := by
        rw [← less_congr (sameKey.symm ⟨rfl, rfl, rfl, rfl⟩ : sameKey c.1 c.1) hc'k]
        exact hcmax c' hc'm
      obtain ⟨x', hx'm, hx'⟩ := spec_to_impl hb path c hcm
      have h2 : less x c.1 = false := by
        rcases hx' with hx' | hx'
        · rw [← less_congr (⟨rfl, rfl, rfl, rfl⟩ : sameKey x x) hx']
          exact hxmax x' hx'm
        · exfalso
          have h3 := hxmax x' hx'm
          cases h4 : less x' x with
          | true =>
            have := less_trans hx' h4
            rw [h1] at this; exact absurd this (by decide)
          | false =>
            have hk := less_incomparable h3 h4
            have : less c.1 x = less c.1 x' := less_congr ⟨rfl, rfl, rfl, rfl⟩ hk
            rw [h1, hx'] at this; exact absurd this (by decide)
      have hk : sameKey c.1 x := less_incomparable h1 h2
      -- both `c` and `c'` are candidates with the same descriptor key: same pattern
      obtain ⟨r, _, hd, hpat⟩ := mem_specCands.mp hcm
      obtain ⟨r', _, hd', hpat'⟩ := mem_specCands.mp hc'm
      have := candOf_injective path _ _ _ _ _ _ hd hd' (hk.trans hc'k.symm)
      have hcc : c.2 = c'.2 := by rw [hpat, hpat', this.1, this.2]
      rw [hx, hc]
      simp only [Option.map_some, Option.bind_some]
      rw [hcc, hc'l]

end Obao.ACLProofs
