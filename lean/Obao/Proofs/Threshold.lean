import Obao.Model.Threshold
/-!
Threshold accounting: invariants of `submit`/`run` for every history of submitted parts.
-/
namespace Obao.Threshold
open Obao.GF256

/-- a part passes the length checks of `unsealFragment` -/
def Valid (cfg : Cfg) (k : Part) : Prop := cfg.minLen ≤ k.length ∧ k.length ≤ cfg.maxLen

/-- invariant of the recorded parts: pairwise distinct, all of valid length, and (when there are any) fewer
    than the threshold -/
structure Inv (cfg : Cfg) (st : List Part) : Prop where
  nodup : st.Nodup
  valid : ∀ p ∈ st, Valid cfg p
  below : st ≠ [] → (st.length : Int) < cfg.threshold

theorem nodup_single (k : Part) : [k].Nodup := by simp

theorem inv_nil (cfg : Cfg) : Inv cfg [] := ⟨List.nodup_nil, by intro p h; simp at h, by intro h; exact absurd rfl h⟩

/-- the five ways a submission can go, with the exact new state for each -/
theorem submit_cases (cfg : Cfg) (st : List Part) (k : Part) :
    (k.length < cfg.minLen ∧ submit cfg st k = (st, .tooShort)) ∨
    (cfg.minLen ≤ k.length ∧ cfg.maxLen < k.length ∧ submit cfg st k = (st, .tooLong)) ∨
    (Valid cfg k ∧ k ∈ st ∧ submit cfg st k = (st, .duplicate)) ∨
    (Valid cfg k ∧ k ∉ st ∧ ((st ++ [k]).length : Int) < cfg.threshold ∧
        submit cfg st k = (st ++ [k], .pending (st.length + 1))) ∨
    (Valid cfg k ∧ k ∉ st ∧ cfg.threshold ≤ ((st ++ [k]).length : Int) ∧ (submit cfg st k).1 = [] ∧
        ((cfg.threshold = 1 ∧ (submit cfg st k).2 = .key ((st ++ [k]).head (by simp))) ∨
         (cfg.threshold ≠ 1 ∧ ∃ key, combine (st ++ [k]) = .ok key ∧ (submit cfg st k).2 = .key key) ∨
         (cfg.threshold ≠ 1 ∧ ∃ e, combine (st ++ [k]) = .error e ∧ (submit cfg st k).2 = .combineErr e))) := by
  unfold submit Valid
  by_cases h1 : k.length < cfg.minLen
  · left; simp [h1]
  by_cases h2 : k.length > cfg.maxLen
  · right; left; simp [h1, h2]; omega
  by_cases h3 : k ∈ st
  · right; right; left
    simp [h1, h2, h3]; omega
  right; right; right
  have hv : cfg.minLen ≤ k.length ∧ k.length ≤ cfg.maxLen := by omega
  by_cases h4 : ((st ++ [k]).length : Int) < cfg.threshold
  · left
    simp only [h1, h2, h3, h4, if_true, if_false, List.contains_iff_mem]
    simp [hv]
  · right
    refine ⟨hv, h3, by omega, ?_, ?_⟩
    · simp only [h1, h2, h3, h4, if_false, List.contains_iff_mem]
      split
      · rfl
      · split <;> rfl
    · by_cases h5 : cfg.threshold = 1
      · left
        refine ⟨h5, ?_⟩
        simp only [h1, h2, h3, h5, if_true, if_false, List.contains_iff_mem]
        cases st <;> rfl
      · right
        simp only [h1, h2, h3, h4, h5, if_false, List.contains_iff_mem]
        cases hc : combine (st ++ [k]) with
        | ok key => left; exact ⟨h5, key, rfl, rfl⟩
        | error e => right; exact ⟨h5, e, rfl, rfl⟩

/-- the invariant is preserved by every submission -/
theorem submit_inv {cfg : Cfg} {st : List Part} (h : Inv cfg st) (k : Part) : Inv cfg (submit cfg st k).1 := by
  rcases submit_cases cfg st k with ⟨_, e⟩ | ⟨_, _, e⟩ | ⟨_, _, e⟩ | ⟨hv, hk, hlt, e⟩ | ⟨_, _, _, e, _⟩
  · rw [e]; exact h
  · rw [e]; exact h
  · rw [e]; exact h
  · rw [e]
    refine ⟨?_, ?_, fun _ => hlt⟩
    · exact List.nodup_append.2 ⟨h.nodup, nodup_single k,
        fun a ha b hb => by rw [List.mem_singleton.1 hb]; intro e; exact hk (e ▸ ha)⟩
    · intro p hp
      rcases List.mem_append.1 hp with hp | hp
      · exact h.valid p hp
      · rw [List.mem_singleton.1 hp]; exact hv
  · rw [e]; exact inv_nil cfg

/-- duplicates do not advance: same state, no key -/
theorem submit_duplicate {cfg : Cfg} {st : List Part} {k : Part} (hv : Valid cfg k) (hk : k ∈ st) :
    submit cfg st k = (st, .duplicate) := by
  unfold Valid at hv
  unfold submit
  have h1 : ¬ k.length < cfg.minLen := by omega
  have h2 : ¬ k.length > cfg.maxLen := by omega
  simp [h1, h2, hk]

/-- a key is produced only by a new, valid part that brings the number of distinct recorded parts to the
    threshold; the key is `Parts[0]` for threshold 1 and `Combine(Parts)` otherwise; progress is reset -/
theorem submit_key {cfg : Cfg} {st : List Part} {k : Part} {key : List Nat}
    (h : (submit cfg st k).2 = .key key) :
    Valid cfg k ∧ k ∉ st ∧ cfg.threshold ≤ ((st ++ [k]).length : Int) ∧ (submit cfg st k).1 = [] ∧
    ((cfg.threshold = 1 ∧ key = (st ++ [k]).head (by simp)) ∨ (cfg.threshold ≠ 1 ∧ combine (st ++ [k]) = .ok key)) := by
  rcases submit_cases cfg st k with ⟨_, e⟩ | ⟨_, _, e⟩ | ⟨_, _, e⟩ | ⟨_, _, _, e⟩ | ⟨hv, hk, hge, e, hout⟩
  · rw [e] at h; cases h
  · rw [e] at h; cases h
  · rw [e] at h; cases h
  · rw [e] at h; cases h
  · refine ⟨hv, hk, hge, e, ?_⟩
    rcases hout with ⟨h1, e2⟩ | ⟨h1, key', hc, e2⟩ | ⟨_, e', _, e2⟩
    · rw [e2] at h; injection h with h; exact Or.inl ⟨h1, h.symm⟩
    · rw [e2] at h; injection h with h; exact Or.inr ⟨h1, h ▸ hc⟩
    · rw [e2] at h; cases h

/-- no key material while progress (counting the part being submitted) is below the threshold -/
theorem submit_no_key_below {cfg : Cfg} {st : List Part} {k : Part}
    (hlt : ((st ++ [k]).length : Int) < cfg.threshold) (key : List Nat) : (submit cfg st k).2 ≠ .key key := by
  intro h
  have := (submit_key h).2.2.1
  omega

/-- the state and outcome components of `run` -/
theorem run_nil (cfg : Cfg) (st : List Part) : run cfg st [] = (st, []) := rfl
theorem run_cons (cfg : Cfg) (st : List Part) (k : Part) (ks : List Part) :
    run cfg st (k :: ks) = ((run cfg (submit cfg st k).1 ks).1, (submit cfg st k).2 :: (run cfg (submit cfg st k).1 ks).2) := rfl

theorem run_length (cfg : Cfg) (ks : List Part) : ∀ st, (run cfg st ks).2.length = ks.length := by
  induction ks with
  | nil => intro st; rfl
  | cons k ks ih => intro st; simp [run_cons, ih]

/-- after every history the invariant holds: recorded parts pairwise distinct, valid, below the threshold -/
theorem run_inv {cfg : Cfg} (ks : List Part) : ∀ {st}, Inv cfg st → Inv cfg (run cfg st ks).1 := by
  induction ks with
  | nil => intro st h; exact h
  | cons k ks ih => intro st h; rw [run_cons]; exact ih (submit_inv h k)

/-- every recorded part was submitted (or was there initially) -/
theorem run_mem {cfg : Cfg} (ks : List Part) : ∀ {st}, ∀ p ∈ (run cfg st ks).1, p ∈ st ∨ p ∈ ks := by
  induction ks with
  | nil => intro st p hp; exact Or.inl hp
  | cons k ks ih =>
    intro st p hp
    rw [run_cons] at hp
    rcases ih p hp with h | h
    · rcases submit_cases cfg st k with ⟨_, e⟩ | ⟨_, _, e⟩ | ⟨_, _, e⟩ | ⟨_, _, _, e⟩ | ⟨_, _, _, e, _⟩ <;>
        rw [e] at h
      · exact Or.inl h
      · exact Or.inl h
      · exact Or.inl h
      · rcases List.mem_append.1 h with h | h
        · exact Or.inl h
        · exact Or.inr (by rw [List.mem_singleton.1 h]; exact List.mem_cons_self)
      · simp at h
    · exact Or.inr (List.mem_cons_of_mem _ h)

/-- every key that any history produces comes from at least `threshold` pairwise distinct valid parts, all of
    them submitted in that history (or recorded initially): `Parts[0]` for threshold 1, else their `Combine` -/
theorem run_key_sound {cfg : Cfg} (ks : List Part) : ∀ {st}, Inv cfg st →
    ∀ key, Outcome.key key ∈ (run cfg st ks).2 →
      ∃ parts : List Part, parts.Nodup ∧ (∀ p ∈ parts, Valid cfg p ∧ (p ∈ st ∨ p ∈ ks)) ∧
        cfg.threshold ≤ (parts.length : Int) ∧
        ((cfg.threshold = 1 ∧ parts.head? = some key) ∨ (cfg.threshold ≠ 1 ∧ combine parts = .ok key)) := by
  induction ks with
  | nil => intro st _ key h; simp [run_nil] at h
  | cons k ks ih =>
    intro st hinv key h
    rw [run_cons] at h
    rcases List.mem_cons.1 h with h | h
    · have hk := submit_key h.symm
      have hinv' := submit_inv hinv k
      refine ⟨st ++ [k], ?_, ?_, hk.2.2.1, ?_⟩
      · exact List.nodup_append.2 ⟨hinv.nodup, nodup_single k,
          fun a ha b hb => by rw [List.mem_singleton.1 hb]; intro e; exact hk.2.1 (e ▸ ha)⟩
      · intro p hp
        rcases List.mem_append.1 hp with hp | hp
        · exact ⟨hinv.valid p hp, Or.inl hp⟩
        · rw [List.mem_singleton.1 hp]; exact ⟨hk.1, Or.inr List.mem_cons_self⟩
      · rcases hk.2.2.2.2 with ⟨h1, e⟩ | ⟨h1, e⟩
        · left; refine ⟨h1, ?_⟩; rw [e]; exact List.head?_eq_some_head _
        · right; exact ⟨h1, e⟩
    · obtain ⟨parts, hnd, hmem, hge, hkey⟩ := ih (submit_inv hinv k) key h
      refine ⟨parts, hnd, ?_, hge, hkey⟩
      intro p hp
      refine ⟨(hmem p hp).1, ?_⟩
      rcases (hmem p hp).2 with h' | h'
      · have := run_mem (cfg := cfg) [k] (st := st) p (by simpa [run_cons, run_nil] using h')
        rcases this with h'' | h''
        · exact Or.inl h''
        · exact Or.inr (List.mem_cons.2 (Or.inl (List.mem_singleton.1 h'')))
      · exact Or.inr (List.mem_cons_of_mem _ h')

/-- while no submission completes an attempt, the recorded parts are exactly the distinct valid submitted
    parts (plus the initial ones): `progress` counts distinct parts, duplicates and invalid parts do not count -/
theorem run_progress {cfg : Cfg} (ks : List Part) : ∀ {st},
    (∀ o ∈ (run cfg st ks).2, o.completes = false) →
    ∀ p, p ∈ (run cfg st ks).1 ↔ (p ∈ st ∨ (p ∈ ks ∧ Valid cfg p)) := by
  induction ks with
  | nil => intro st _ p; simp [run_nil]
  | cons k ks ih =>
    intro st hno p
    rw [run_cons] at hno ⊢
    have hno' : ∀ o ∈ (run cfg (submit cfg st k).1 ks).2, o.completes = false :=
      fun o ho => hno o (List.mem_cons_of_mem _ ho)
    have hk := hno _ List.mem_cons_self
    rw [ih hno' p]
    rcases submit_cases cfg st k with ⟨hs, e⟩ | ⟨_, hl, e⟩ | ⟨hv, hm, e⟩ | ⟨hv, _, _, e⟩ | ⟨_, _, _, _, hout⟩
    · rw [e]
      have : ¬ Valid cfg k := by unfold Valid; omega
      constructor
      · rintro (h | ⟨h, hv⟩)
        · exact Or.inl h
        · exact Or.inr ⟨List.mem_cons_of_mem _ h, hv⟩
      · rintro (h | ⟨h, hv⟩)
        · exact Or.inl h
        · rcases List.mem_cons.1 h with h | h
          · exact absurd (h ▸ hv) this
          · exact Or.inr ⟨h, hv⟩
    · rw [e]
      have : ¬ Valid cfg k := by unfold Valid; omega
      constructor
      · rintro (h | ⟨h, hv⟩)
        · exact Or.inl h
        · exact Or.inr ⟨List.mem_cons_of_mem _ h, hv⟩
      · rintro (h | ⟨h, hv⟩)
        · exact Or.inl h
        · rcases List.mem_cons.1 h with h | h
          · exact absurd (h ▸ hv) this
          · exact Or.inr ⟨h, hv⟩
    · rw [e]
      constructor
      · rintro (h | ⟨h, hv⟩)
        · exact Or.inl h
        · exact Or.inr ⟨List.mem_cons_of_mem _ h, hv⟩
      · rintro (h | ⟨h, hv'⟩)
        · exact Or.inl h
        · rcases List.mem_cons.1 h with h | h
          · exact Or.inl (h ▸ hm)
          · exact Or.inr ⟨h, hv'⟩
    · rw [e]
      constructor
      · rintro (h | ⟨h, hv'⟩)
        · rcases List.mem_append.1 h with h | h
          · exact Or.inl h
          · exact Or.inr ⟨by rw [List.mem_singleton.1 h]; exact List.mem_cons_self, by rw [List.mem_singleton.1 h]; exact hv⟩
        · exact Or.inr ⟨List.mem_cons_of_mem _ h, hv'⟩
      · rintro (h | ⟨h, hv'⟩)
        · exact Or.inl (List.mem_append_left _ h)
        · rcases List.mem_cons.1 h with h | h
          · exact Or.inl (List.mem_append_right _ (by rw [h]; exact List.mem_singleton_self k))
          · exact Or.inr ⟨h, hv'⟩
    · exfalso
      rcases hout with ⟨_, e2⟩ | ⟨_, _, _, e2⟩ | ⟨_, _, _, e2⟩ <;> rw [e2] at hk <;> simp [Outcome.completes] at hk

/-! ### rotation / rekey / generate-root: accounting followed by verification -/

/-- the part passes the path's length check (if it has one) -/
def RotValid (cfg : RotCfg) (k : Part) : Prop :=
  match cfg.lenCheck with
  | some (mn, mx) => mn ≤ k.length ∧ k.length ≤ mx
  | none => True

/-- the verification step on the parts of an attempt: the recovered key (`Parts[0]` for threshold 1, else
    `shamir.Combine`) is the current key -/
def Verified (cfg : RotCfg) (ps : List Part) : Prop :=
  (cfg.threshold = 1 ∧ ps.head? = some cfg.secret) ∨ (cfg.threshold ≠ 1 ∧ combine ps = .ok cfg.secret)

structure RotInv (cfg : RotCfg) (st : List Part) : Prop where
  nodup : st.Nodup
  below : st ≠ [] → (st.length : Int) < cfg.threshold

theorem rotInv_nil (cfg : RotCfg) : RotInv cfg [] := ⟨List.nodup_nil, fun h => absurd rfl h⟩

theorem recoverKey_ok_iff (cfg : RotCfg) (st : List Part) (k : Part) :
    recoverKey cfg.threshold st k = .ok cfg.secret ↔ Verified cfg (st ++ [k]) := by
  unfold recoverKey Verified
  by_cases h1 : cfg.threshold = 1
  · simp only [h1, if_true, true_and, ne_eq, not_true_eq_false, false_and, or_false]
    cases st <;> simp
  · simp [h1]

theorem rotSubmit_rest_cases (cfg : RotCfg) (st : List Part) (k : Part) :
    (k ∈ st ∧ rotSubmit.rest cfg st k = (st, .duplicate)) ∨
    (k ∉ st ∧ ((st ++ [k]).length : Int) < cfg.threshold ∧
      rotSubmit.rest cfg st k = (st ++ [k], .pending (st.length + 1))) ∨
    (k ∉ st ∧ cfg.threshold ≤ ((st ++ [k]).length : Int) ∧ (rotSubmit.rest cfg st k).1 = [] ∧
      ((Verified cfg (st ++ [k]) ∧ (rotSubmit.rest cfg st k).2 = .proceeds) ∨
       (¬ Verified cfg (st ++ [k]) ∧ ((rotSubmit.rest cfg st k).2 = .verifyFail ∨
          ∃ e, (rotSubmit.rest cfg st k).2 = .combineErr e)))) := by
  unfold rotSubmit.rest
  by_cases h3 : k ∈ st
  · left; simp [h3]
  right
  by_cases h4 : ((st ++ [k]).length : Int) < cfg.threshold
  · left; refine ⟨h3, h4, ?_⟩; simp only [h3, h4, List.contains_iff_mem, if_true, if_false]
  · right
    refine ⟨h3, by omega, ?_, ?_⟩
    · simp only [h3, h4, List.contains_iff_mem, if_false]
      split
      · rfl
      · split <;> rfl
    · simp only [h3, h4, List.contains_iff_mem, if_false]
      rw [← recoverKey_ok_iff]
      cases hr : recoverKey cfg.threshold st k with
      | error e => right; exact ⟨by simp, Or.inr ⟨e, rfl⟩⟩
      | ok key =>
        by_cases hk : key = cfg.secret
        · left; subst hk; exact ⟨rfl, by simp⟩
        · right
          refine ⟨by intro h; injection h with h; exact hk h, Or.inl ?_⟩
          simp [hk]

theorem rotSubmit_cases (cfg : RotCfg) (st : List Part) (k : Part) :
    (¬ RotValid cfg k ∧ (rotSubmit cfg st k = (st, .tooShort) ∨ rotSubmit cfg st k = (st, .tooLong))) ∨
    (RotValid cfg k ∧ rotSubmit cfg st k = rotSubmit.rest cfg st k) := by
  unfold rotSubmit RotValid
  cases hlc : cfg.lenCheck with
  | none => right; exact ⟨trivial, rfl⟩
  | some mm =>
    obtain ⟨mn, mx⟩ := mm
    simp only
    by_cases h1 : k.length < mn
    · left; exact ⟨by omega, Or.inl (by simp [h1])⟩
    by_cases h2 : k.length > mx
    · left; exact ⟨by omega, Or.inr (by simp [h1, h2])⟩
    · right; exact ⟨by omega, by simp [h1, h2]⟩

/-- **proceeds ⇔ verified quorum**: a submission lets the operation proceed exactly when it is a new, acceptable
    part that brings the attempt to the threshold and the key recovered from the attempt's parts is the
    current key. -/
theorem rotSubmit_proceeds_iff (cfg : RotCfg) (st : List Part) (k : Part) :
    (rotSubmit cfg st k).2 = .proceeds ↔
      (RotValid cfg k ∧ k ∉ st ∧ cfg.threshold ≤ ((st ++ [k]).length : Int) ∧ Verified cfg (st ++ [k])) := by
  rcases rotSubmit_cases cfg st k with ⟨hv, e | e⟩ | ⟨hv, e⟩
  · rw [e]; constructor
    · intro h; cases h
    · intro h; exact absurd h.1 hv
  · rw [e]; constructor
    · intro h; cases h
    · intro h; exact absurd h.1 hv
  · rw [e]
    rcases rotSubmit_rest_cases cfg st k with ⟨hm, e2⟩ | ⟨hm, hlt, e2⟩ | ⟨hm, hge, _, ⟨hver, e2⟩ | ⟨hnv, e2⟩⟩
    · rw [e2]; constructor
      · intro h; cases h
      · intro h; exact absurd hm h.2.1
    · rw [e2]; constructor
      · intro h; cases h
      · intro h; omega
    · rw [e2]; exact ⟨fun _ => ⟨hv, hm, hge, hver⟩, fun _ => rfl⟩
    · constructor
      · intro h
        rcases e2 with e2 | ⟨e', e2⟩ <;> rw [e2] at h <;> cases h
      · intro h; exact absurd h.2.2.2 hnv

/-- the new state is the old one, the old one plus the part, or empty -/
theorem rotSubmit_state (cfg : RotCfg) (st : List Part) (k : Part) :
    (rotSubmit cfg st k).1 = st ∨ (k ∉ st ∧ ((st ++ [k]).length : Int) < cfg.threshold ∧
      (rotSubmit cfg st k).1 = st ++ [k]) ∨ (rotSubmit cfg st k).1 = [] := by
  rcases rotSubmit_cases cfg st k with ⟨_, e | e⟩ | ⟨_, e⟩
  · rw [e]; exact Or.inl rfl
  · rw [e]; exact Or.inl rfl
  · rw [e]
    rcases rotSubmit_rest_cases cfg st k with ⟨_, e2⟩ | ⟨hm, hlt, e2⟩ | ⟨_, _, e2, _⟩
    · rw [e2]; exact Or.inl rfl
    · rw [e2]; exact Or.inr (Or.inl ⟨hm, hlt, rfl⟩)
    · exact Or.inr (Or.inr e2)

theorem rotSubmit_inv {cfg : RotCfg} {st : List Part} (h : RotInv cfg st) (k : Part) :
    RotInv cfg (rotSubmit cfg st k).1 := by
  rcases rotSubmit_state cfg st k with e | ⟨hm, hlt, e⟩ | e
  · rw [e]; exact h
  · rw [e]
    exact ⟨List.nodup_append.2 ⟨h.nodup, nodup_single k,
      fun a ha b hb => by rw [List.mem_singleton.1 hb]; intro e; exact hm (e ▸ ha)⟩, fun _ => hlt⟩
  · rw [e]; exact rotInv_nil cfg

theorem rotRun_nil (cfg : RotCfg) (st : List Part) : rotRun cfg st [] = (st, []) := rfl
theorem rotRun_cons (cfg : RotCfg) (st : List Part) (k : Part) (ks : List Part) :
    rotRun cfg st (k :: ks) =
      ((rotRun cfg (rotSubmit cfg st k).1 ks).1, (rotSubmit cfg st k).2 :: (rotRun cfg (rotSubmit cfg st k).1 ks).2) := rfl

theorem rotRun_inv {cfg : RotCfg} (ks : List Part) : ∀ {st}, RotInv cfg st → RotInv cfg (rotRun cfg st ks).1 := by
  induction ks with
  | nil => intro st h; exact h
  | cons k ks ih => intro st h; rw [rotRun_cons]; exact ih (rotSubmit_inv h k)

/-- **every step that proceeds rests on a verified quorum of that attempt.** For every history `ks` from a state
    `st` satisfying the invariant and every position `i` whose outcome is `proceeds`: the parts `ps` of that attempt
    end with the part submitted at `i`, are pairwise distinct, were all submitted at or before `i` (or recorded
    initially), are at least `threshold` many (exactly `threshold`, or one when the threshold is below one), and
    the key recovered from exactly these parts is the current key. -/
theorem rotRun_proceeds_sound {cfg : RotCfg} (ks : List Part) : ∀ {st}, RotInv cfg st →
    ∀ i, (rotRun cfg st ks).2[i]? = some .proceeds →
      ∃ (ps : List Part) (k : Part), ks[i]? = some k ∧ ps.getLast? = some k ∧ RotValid cfg k ∧ ps.Nodup ∧
        (∀ p ∈ ps, p ∈ st ∨ p ∈ ks.take (i + 1)) ∧ cfg.threshold ≤ (ps.length : Int) ∧
        ((ps.length : Int) = cfg.threshold ∨ ps.length = 1) ∧ Verified cfg ps := by
  induction ks with
  | nil => intro st _ i h; simp [rotRun_nil] at h
  | cons k ks ih =>
    intro st hinv i h
    rw [rotRun_cons] at h
    cases i with
    | zero =>
      simp only [List.getElem?_cons_zero, Option.some.injEq] at h
      obtain ⟨hv, hm, hge, hver⟩ := (rotSubmit_proceeds_iff cfg st k).1 h
      refine ⟨st ++ [k], k, rfl, by simp, hv, ?_, ?_, hge, ?_, hver⟩
      · exact List.nodup_append.2 ⟨hinv.nodup, nodup_single k,
          fun a ha b hb => by rw [List.mem_singleton.1 hb]; intro e; exact hm (e ▸ ha)⟩
      · intro p hp
        rcases List.mem_append.1 hp with hp | hp
        · exact Or.inl hp
        · exact Or.inr (by rw [List.mem_singleton.1 hp]; simp)
      · by_cases hst : st = []
        · right; simp [hst]
        · left
          have := hinv.below hst
          simp only [List.length_append, List.length_singleton] at hge ⊢
          omega
    | succ i =>
      simp only [List.getElem?_cons_succ] at h
      obtain ⟨ps, k', hk', hlast, hv, hnd, hmem, hge, hlen, hver⟩ := ih (rotSubmit_inv hinv k) i h
      refine ⟨ps, k', by simpa using hk', hlast, hv, hnd, ?_, hge, hlen, hver⟩
      intro p hp
      rcases hmem p hp with h' | h'
      · rcases rotSubmit_state cfg st k with e | ⟨_, _, e⟩ | e <;> rw [e] at h'
        · exact Or.inl h'
        · rcases List.mem_append.1 h' with h' | h'
          · exact Or.inl h'
          · exact Or.inr (by rw [List.mem_singleton.1 h']; simp)
        · simp at h'
      · exact Or.inr (by simp only [List.take_succ_cons]; exact List.mem_cons_of_mem _ h')

end Obao.Threshold
