import Obao.Proofs.RevokeSeq
/-!
Invariants of the token forest used by the sequential theorems of C04, and their preservation by one completed
`revokeInternal` (`purge1`).
-/
namespace Obao.Revoke

/-- what the revocation of `x` relies on in the in-memory state -/
structure TokOK (s : St) (x : Nat) : Prop where
  pend : s.pend (.salted x) ≠ some true
  cache : x ≠ 0 → s.cache x = some false
  tlc : s.tl x = none → s.cache x = none

/-- forest invariant: what holds at every point of a fault-free tree revocation -/
structure FInv (s : St) : Prop where
  edge_lt : ∀ p c, s.par p c = true → p < c ∧ c < s.next
  edge_live : ∀ p c, s.par p c = true → (s.ids p).isSome → ∃ e, s.ids c = some e ∧ e.parent = some p
  entry_edge : ∀ c e p, s.ids c = some e → e.parent = some p → s.par p c = true
  idsB : ∀ x, (s.ids x).isSome → x < s.next
  tok : ∀ x e, s.ids x = some e → TokOK s x
  cubB : ∀ c k, s.cub c k = true → k < s.kmax
  /-- every cubbyhole key belongs to a stored token and sits where the router puts that token's data -/
  cubOwn : ∀ c k, s.cub c k = true → ∃ x e, s.ids x = some e ∧ routerKey x e = some c
  /-- entries carry a CubbyholeID exactly when `create` gives them one -/
  entryWf : ∀ x e, s.ids x = some e → e.cubId = createCubId e.nsRoot e.pfx
  tixB : ∀ t l, s.tix t l = true → l < s.nextL
  slIx : ∀ l t, s.sl l = some (t, false) → s.tix t l = true

/-- `σ` is `s` with some tokens purged -/
structure Shrink (s σ : St) : Prop where
  next : σ.next = s.next
  nextL : σ.nextL = s.nextL
  kmax : σ.kmax = s.kmax
  skey : σ.skey = s.skey
  lkey : σ.lkey = s.lkey
  tix : σ.tix = s.tix
  ids : ∀ y, σ.ids y = s.ids y ∨
    (σ.ids y = none ∧ Dead σ y ∧ σ.cache y = none ∧ σ.pend (.salted y) = none)
  keep : ∀ y, σ.ids y = s.ids y → σ.acc y = s.acc y ∧ σ.tl y = s.tl y ∧ σ.cache y = s.cache y ∧
    σ.cub (.cid y) = s.cub (.cid y) ∧ σ.cub (.salted y) = s.cub (.salted y) ∧
    σ.pend (.salted y) = s.pend (.salted y)
  rawp : ∀ y, σ.pend (.raw y) = s.pend (.raw y)
  edges1 : ∀ p c, σ.par p c = true → s.par p c = true
  edges2 : ∀ p c, s.par p c = true → σ.par p c = true ∨ (σ.ids c = none ∧ (s.ids c).isSome)
  sl : ∀ l, σ.sl l = s.sl l ∨ ∃ t e, s.sl l = some (t, e) ∧ σ.sl l = some (t, true)

theorem Shrink.refl (s : St) : Shrink s s :=
  ⟨rfl, rfl, rfl, rfl, rfl, rfl, fun _ => .inl rfl, fun _ _ => ⟨rfl, rfl, rfl, rfl, rfl, rfl⟩, fun _ => rfl,
   fun _ _ h => h, fun _ _ h => .inl h, fun _ => .inl rfl⟩

/-- `destroy_clears_routed_key`: for every entry written by `create` — generated id, caller-chosen id, any
namespace — the prefix `destroyCubbyhole` clears is the prefix the router stores the token's cubbyhole under -/
theorem destroyKey_eq_routerKey (t : Nat) (e : TokEntry) (hwf : e.cubId = createCubId e.nsRoot e.pfx) :
    destroyKey t e = routerKey t e ∧ routerKey t e = some (ckey t e) := by
  obtain ⟨p, m, c, pf, ns⟩ := e
  simp only [createCubId] at hwf
  subst hwf
  cases pf <;> cases ns <;> simp [destroyKey, routerKey, ckey]

theorem routerKey_own {t : Nat} {e : TokEntry} {c : CubKey} (h : routerKey t e = some c) :
    c = .cid t ∨ c = .salted t := by
  unfold routerKey at h
  split at h
  · cases h; exact .inr rfl
  · split at h
    · cases h; exact .inl rfl
    · cases h

section purge
variable {σ : St} {x : Nat} {e : TokEntry}

@[simp] theorem purge1_ids (y : Nat) : (purge1 x e σ).ids y = if y = x then none else σ.ids y := rfl
@[simp] theorem purge1_acc (y : Nat) : (purge1 x e σ).acc y = if y = x then false else σ.acc y := rfl
@[simp] theorem purge1_tl (y : Nat) : (purge1 x e σ).tl y = if y = x then none else σ.tl y := rfl
@[simp] theorem purge1_cache (y : Nat) : (purge1 x e σ).cache y = if y = x then none else σ.cache y := rfl
@[simp] theorem purge1_cub (y : CubKey) (k : Nat) :
    (purge1 x e σ).cub y k = if y = ckey x e ∧ k ∈ σ.cubKeys (ckey x e) then false else σ.cub y k := rfl
@[simp] theorem purge1_sl (l : Nat) :
    (purge1 x e σ).sl l = if l ∈ σ.leasesOf x then (σ.sl l).map (fun q => (q.1, true)) else σ.sl l := rfl
@[simp] theorem purge1_par (p c : Nat) :
    (purge1 x e σ).par p c = if some p = e.parent ∧ c = x then false else σ.par p c := rfl
@[simp] theorem purge1_pend (k : PKey) :
    (purge1 x e σ).pend k = if k = .salted x then none else σ.pend k := rfl
@[simp] theorem purge1_next : (purge1 x e σ).next = σ.next := rfl
@[simp] theorem purge1_nextL : (purge1 x e σ).nextL = σ.nextL := rfl
@[simp] theorem purge1_kmax : (purge1 x e σ).kmax = σ.kmax := rfl
@[simp] theorem purge1_tix : (purge1 x e σ).tix = σ.tix := rfl
@[simp] theorem purge1_skey : (purge1 x e σ).skey = σ.skey := rfl
@[simp] theorem purge1_lkey : (purge1 x e σ).lkey = σ.lkey := rfl

theorem purge1_cub_le {c : CubKey} {k : Nat} (h : (purge1 x e σ).cub c k = true) : σ.cub c k = true := by
  simp only [purge1_cub] at h
  split at h
  · cases h
  · exact h

/-- the cleared prefix is empty afterwards -/
theorem purge1_cub_key (hf : FInv σ) (k : Nat) : (purge1 x e σ).cub (ckey x e) k = false := by
  simp only [purge1_cub, true_and]
  split
  · rfl
  · rename_i h
    cases hc : σ.cub (ckey x e) k with
    | false => rfl
    | true => exact absurd ((mem_cubKeys σ _ k).mpr ⟨hf.cubB _ k hc, hc⟩) h

/-- both cubbyhole prefixes of the purged token are empty: the one the router uses was cleared
(`destroyKey_eq_routerKey`), the other one never held anything (`cubOwn`) -/
theorem purge1_noCub (hf : FInv σ) (he : σ.ids x = some e) (k : Nat) :
    (purge1 x e σ).cub (.cid x) k = false ∧ (purge1 x e σ).cub (.salted x) k = false := by
  have hrk := (destroyKey_eq_routerKey x e (hf.entryWf x e he)).2
  have hown : ∀ c, (c = .cid x ∨ c = .salted x) → (purge1 x e σ).cub c k = false := by
    intro c hc
    by_cases hck : c = ckey x e
    · subst hck; exact purge1_cub_key hf k
    · cases hv : (purge1 x e σ).cub c k with
      | false => rfl
      | true =>
        obtain ⟨y, ey, hy, hry⟩ := hf.cubOwn c k (purge1_cub_le hv)
        have hyx : y = x := by
          rcases routerKey_own hry with h | h <;> rcases hc with h' | h' <;> rw [h] at h' <;> cases h' <;> rfl
        subst hyx
        rw [he] at hy; cases hy
        rw [hrk] at hry; cases hry
        exact absurd rfl hck
  exact ⟨hown _ (.inl rfl), hown _ (.inr rfl)⟩

/-- the purged token is dead -/
theorem purge1_dead (hf : FInv σ) (he : σ.ids x = some e) : Dead (purge1 x e σ) x := by
  refine ⟨by simp, by simp, by simp, purge1_noCub hf he, ?_⟩
  · intro l ex hl
    simp only [purge1_sl] at hl
    split at hl
    · cases hs : σ.sl l with
      | none => simp [hs] at hl
      | some q => simp [hs] at hl; exact hl.2
    · rename_i h
      cases ex with
      | true => rfl
      | false =>
        have := hf.slIx l x hl
        exact absurd ((mem_leasesOf σ x l).mpr ⟨hf.tixB x l this, this⟩) h

/-- a token that was dead stays dead when another one is purged -/
theorem purge1_keeps_dead {y : Nat} (hy : Dead σ y) : Dead (purge1 x e σ) y := by
  refine ⟨?_, ?_, ?_, ?_, ?_⟩
  · simp only [purge1_ids]; split
    · rfl
    · exact hy.noEntry
  · simp only [purge1_tl]; split
    · rfl
    · exact hy.noLease
  · simp only [purge1_acc]; split
    · rfl
    · exact hy.noAcc
  · intro k
    have := hy.noCub k
    constructor
    · cases hv : (purge1 x e σ).cub (.cid y) k with
      | false => rfl
      | true => rw [purge1_cub_le hv] at this; cases this.1
    · cases hv : (purge1 x e σ).cub (.salted y) k with
      | false => rfl
      | true => rw [purge1_cub_le hv] at this; cases this.2
  · intro l ex hl
    simp only [purge1_sl] at hl
    split at hl
    · cases hs : σ.sl l with
      | none => simp [hs] at hl
      | some q => simp [hs] at hl; exact hl.2
    · exact hy.leases l ex hl


theorem purge1_finv (hf : FInv σ) (he : σ.ids x = some e) : FInv (purge1 x e σ) := by
  constructor
  · intro p c h
    simp only [purge1_par] at h
    split at h
    · cases h
    · exact hf.edge_lt p c h
  · intro p c h hp
    simp only [purge1_par] at h
    simp only [purge1_ids] at hp
    split at h
    · cases h
    · rename_i hne
      split at hp
      · cases hp
      · obtain ⟨e', he', hpar⟩ := hf.edge_live p c h hp
        refine ⟨e', ?_, hpar⟩
        simp only [purge1_ids]
        split
        · rename_i hcx
          subst hcx
          rw [he] at he'
          cases he'
          exact absurd ⟨hpar.symm, rfl⟩ hne
        · exact he'
  · intro c e' p h hpar
    simp only [purge1_ids] at h
    split at h
    · cases h
    · rename_i hcx
      simp only [purge1_par]
      split
      · rename_i hh; exact absurd hh.2 hcx
      · exact hf.entry_edge c e' p h hpar
  · intro y hy
    simp only [purge1_ids] at hy
    split at hy
    · cases hy
    · exact hf.idsB y hy
  · intro y e' hy
    simp only [purge1_ids] at hy
    split at hy
    · cases hy
    · rename_i hyx
      have ht := hf.tok y e' hy
      refine ⟨?_, ?_, ?_⟩
      · simp only [purge1_pend]
        split
        · rename_i hk; cases hk; exact absurd rfl hyx
        · exact ht.pend
      · intro h0; simp only [purge1_cache, hyx, if_false]; exact ht.cache h0
      · simp only [purge1_tl, purge1_cache, hyx, if_false]; exact ht.tlc
  · intro t k h
    exact hf.cubB t k (purge1_cub_le h)
  · intro c k h
    obtain ⟨y, ey, hy, hry⟩ := hf.cubOwn c k (purge1_cub_le h)
    by_cases hyx : y = x
    · subst hyx
      rw [he] at hy; cases hy
      rw [(destroyKey_eq_routerKey y e (hf.entryWf y e he)).2] at hry
      cases hry
      rw [purge1_cub_key hf k] at h; cases h
    · exact ⟨y, ey, by simp [hyx, hy], hry⟩
  · intro y ey hy
    simp only [purge1_ids] at hy
    split at hy
    · cases hy
    · exact hf.entryWf y ey hy
  · intro t l h
    exact hf.tixB t l h
  · intro l t h
    simp only [purge1_sl] at h
    split at h
    · cases hs : σ.sl l with
      | none => simp [hs] at h
      | some q => simp [hs] at h
    · exact hf.slIx l t h

theorem purge1_shrink {s : St} (hs : Shrink s σ) (hf : FInv σ) (he : σ.ids x = some e) :
    Shrink s (purge1 x e σ) := by
  have hsx : s.ids x = some e := by
    rcases hs.ids x with h | h
    · rw [← h]; exact he
    · rw [h.1] at he; cases he
  refine ⟨hs.next, hs.nextL, hs.kmax, hs.skey, hs.lkey, hs.tix, ?_, ?_, ?_, ?_, ?_, ?_⟩
  · intro y
    by_cases hyx : y = x
    · subst hyx
      exact .inr ⟨by simp, purge1_dead hf he, by simp, by simp⟩
    · rcases hs.ids y with h | ⟨h1, h2, h3, h4⟩
      · exact .inl (by simp [hyx, h])
      · refine .inr ⟨by simp [hyx, h1], purge1_keeps_dead h2, by simp [hyx, h3], ?_⟩
        simp only [purge1_pend]
        split
        · rfl
        · exact h4
  · intro y hy
    by_cases hyx : y = x
    · subst hyx
      simp only [purge1_ids, if_true] at hy
      rw [hsx] at hy; cases hy
    · simp only [purge1_ids, hyx, if_false] at hy
      obtain ⟨k1, k2, k3, k4, k4', k5⟩ := hs.keep y hy
      have hother : ∀ c, (c = CubKey.cid y ∨ c = CubKey.salted y) → (purge1 x e σ).cub c = σ.cub c := by
        intro c hc
        funext k
        simp only [purge1_cub]
        split
        · rename_i hh
          exfalso
          have : ckey x e = .cid x ∨ ckey x e = .salted x := by unfold ckey; split <;> simp
          rcases this with h | h <;> rcases hc with h' | h' <;> rw [h', h] at hh <;> cases hh.1 <;> exact hyx rfl
        · rfl
      refine ⟨by simp [hyx, k1], by simp [hyx, k2], by simp [hyx, k3], ?_, ?_, ?_⟩
      · rw [hother _ (.inl rfl)]; exact k4
      · rw [hother _ (.inr rfl)]; exact k4'
      · simp only [purge1_pend]
        split
        · rename_i hk; cases hk; exact absurd rfl hyx
        · exact k5
  · intro y
    simp only [purge1_pend]
    split
    · rename_i hk; cases hk
    · exact hs.rawp y
  · intro p c h
    simp only [purge1_par] at h
    split at h
    · cases h
    · exact hs.edges1 p c h
  · intro p c h
    rcases hs.edges2 p c h with h' | ⟨h1, h2⟩
    · by_cases hc : some p = e.parent ∧ c = x
      · right
        obtain ⟨_, rfl⟩ := hc
        exact ⟨by simp, by simp [hsx]⟩
      · left; simp only [purge1_par, hc, if_false]; exact h'
    · right
      refine ⟨?_, h2⟩
      simp only [purge1_ids]; split
      · rfl
      · exact h1
  · intro l
    simp only [purge1_sl]
    split
    · rcases hs.sl l with h | ⟨t, e0, h1, h2⟩
      · cases hq : σ.sl l with
        | none => left; rw [← h, hq]; rfl
        | some q => right; exact ⟨q.1, q.2, by rw [← h, hq], by simp⟩
      · right; exact ⟨t, e0, h1, by simp [h2]⟩
    · exact hs.sl l

end purge
end Obao.Revoke
