import Obao.Model.ACLSpec
/-! Helper lemmas for C03: the step-by-step merge of `NewACL` computes the aggregate ("any stanza …") view of
`Obao.ACLSpec`. -/
namespace Obao.ACLProofs
open Obao.ACL Obao.ACLSpec

/-! ### association lists -/

theorem lookup_pmSet (m : PMap) (k k' : String) (v : List PVal) :
    (pmSet m k v).lookup k' = if k' = k then some v else m.lookup k' := by
  induction m with
  | nil => simp [pmSet, List.lookup_cons]; split <;> simp_all
  | cons kv rest ih =>
    obtain ⟨k0, v0⟩ := kv
    unfold pmSet
    by_cases h0 : k0 = k
    · subst h0
      simp only [if_true, List.lookup_cons]
      by_cases h1 : k' = k0
      · simp [h1]
      · have : (k' == k0) = false := by simp [h1]
        simp [this, h1]
    · simp only [h0, if_false, List.lookup_cons, ih]
      by_cases h1 : k' = k
      · subst h1
        have : (k' == k0) = false := by simp; exact fun h => h0 h.symm
        simp [this]
      · simp [h1]

theorem keys_pmSet (m : PMap) (k : String) (v : List PVal) :
    (pmSet m k v).map (·.1) = if k ∈ m.map (·.1) then m.map (·.1) else m.map (·.1) ++ [k] := by
  induction m with
  | nil => simp [pmSet]
  | cons kv rest ih =>
    obtain ⟨k0, v0⟩ := kv
    unfold pmSet
    by_cases h0 : k0 = k
    · subst h0; simp
    · have h0' : ¬ k = k0 := fun h => h0 h.symm
      simp only [h0, if_false, List.map_cons, ih, List.mem_cons, h0', false_or]
      split <;> simp

theorem nodup_pmSet (m : PMap) (k : String) (v : List PVal) (h : (m.map (·.1)).Nodup) :
    ((pmSet m k v).map (·.1)).Nodup := by
  rw [keys_pmSet]
  split
  · exact h
  · rename_i hk
    rw [List.nodup_append]
    refine ⟨h, by simp, ?_⟩
    intro a ha b hb
    simp at hb
    subst hb
    exact fun hab => hk (hab ▸ ha)

theorem lookup_isSome_iff_mem_keys (m : PMap) (k : String) : (m.lookup k).isSome = true ↔ k ∈ m.map (·.1) := by
  rw [List.lookup_isSome_iff]
  constructor
  · rintro ⟨p, hp, hk⟩
    simp at hk
    exact List.mem_map.mpr ⟨p, hp, hk.symm⟩
  · intro h
    obtain ⟨p, hp, hk⟩ := List.mem_map.mp h
    exact ⟨p, hp, by simp [hk]⟩

theorem lookup_eq_none_of_not_mem (m : PMap) (k : String) (h : k ∉ m.map (·.1)) : m.lookup k = none := by
  cases hl : m.lookup k with
  | none => rfl
  | some v =>
    have : (m.lookup k).isSome = true := by simp [hl]
    exact absurd ((lookup_isSome_iff_mem_keys m k).mp this) h

/-- the value stored for a key after merging `new` into `existing` -/
def combineVals (e n : Option (List PVal)) : Option (List PVal) :=
  match e, n with
  | some ev, some nv => some (if nv.isEmpty || ev.isEmpty then [] else nv ++ ev)
  | none, some nv => some nv
  | some ev, none => some ev
  | none, none => none

def mergeLoopStep (ex : PMap) (kv : String × List PVal) : PMap :=
  match ex.lookup kv.1 with
  | some pcValue => if kv.2.isEmpty || pcValue.isEmpty then pmSet ex kv.1 [] else pmSet ex kv.1 (kv.2 ++ pcValue)
  | none => if kv.2.isEmpty then pmSet ex kv.1 [] else pmSet ex kv.1 kv.2

theorem nodup_mergeLoop (new ex : PMap) (h : (ex.map (·.1)).Nodup) :
    ((new.foldl mergeLoopStep ex).map (·.1)).Nodup := by
  induction new generalizing ex with
  | nil => simpa
  | cons kv rest ih =>
    simp only [List.foldl_cons]
    apply ih
    unfold mergeLoopStep
    split <;> split <;> exact nodup_pmSet _ _ _ h

theorem combineVals_none_right (x : Option (List PVal)) : combineVals x none = x := by
  cases x <;> rfl

theorem lookup_mergeLoopStep_self (ex : PMap) (k : String) (v0 : List PVal) :
    (mergeLoopStep ex (k, v0)).lookup k = combineVals (ex.lookup k) (some v0) := by
  unfold mergeLoopStep
  cases he : ex.lookup k with
  | none =>
    simp only [combineVals]
    by_cases hv : v0.isEmpty = true
    · have : v0 = [] := by simpa using hv
      simp [lookup_pmSet, this]
    · simp [lookup_pmSet, hv]
  | some ev =>
    simp only [combineVals]
    by_cases hv : (v0.isEmpty || ev.isEmpty) = true
    · simp only [hv, if_true, lookup_pmSet]
    · have hv' : (v0.isEmpty || ev.isEmpty) = false := by simpa using hv
      simp [hv', lookup_pmSet]

theorem lookup_mergeLoopStep_other (ex : PMap) (k k0 : String) (v0 : List PVal) (hk : k ≠ k0) :
    (mergeLoopStep ex (k0, v0)).lookup k = ex.lookup k := by
  unfold mergeLoopStep
  simp only
  split <;> split <;> simp [lookup_pmSet, hk]

theorem lookup_mergeLoop (new ex : PMap) (hn : (new.map (·.1)).Nodup) (k : String) :
    (new.foldl mergeLoopStep ex).lookup k = combineVals (ex.lookup k) (new.lookup k) := by
  induction new generalizing ex with
  | nil => simp [combineVals_none_right]
  | cons kv rest ih =>
    obtain ⟨k0, v0⟩ := kv
    simp only [List.map_cons, List.nodup_cons] at hn
    simp only [List.foldl_cons]
    rw [ih _ hn.2]
    by_cases hk : k = k0
    · subst hk
      have hr : rest.lookup k = none := lookup_eq_none_of_not_mem _ _ hn.1
      simp only [hr, List.lookup_cons, beq_self_eq_true, combineVals_none_right, lookup_mergeLoopStep_self]
    · have hk' : (k == k0) = false := by simp [hk]
      simp only [List.lookup_cons, hk', lookup_mergeLoopStep_other _ _ _ _ hk]

theorem mergeParams_eq (ex new : PMap) :
    mergeParams ex new = if new.isEmpty then ex else if ex.isEmpty then new else new.foldl mergeLoopStep ex := rfl

theorem lookup_mergeParams (ex new : PMap) (hn : (new.map (·.1)).Nodup) (k : String) :
    (mergeParams ex new).lookup k = combineVals (ex.lookup k) (new.lookup k) := by
  rw [mergeParams_eq]
  split
  · rename_i h
    have : new = [] := by simpa using h
    subst this
    simp [combineVals]; cases ex.lookup k <;> rfl
  · split
    · rename_i h
      have : ex = [] := by simpa using h
      subst this
      simp [combineVals]; cases new.lookup k <;> rfl
    · exact lookup_mergeLoop new ex hn k

theorem nodup_mergeParams (ex new : PMap) (he : (ex.map (·.1)).Nodup) (hn : (new.map (·.1)).Nodup) :
    ((mergeParams ex new).map (·.1)).Nodup := by
  rw [mergeParams_eq]
  split
  · exact he
  · split
    · exact hn
    · exact nodup_mergeLoop new ex he

/-! ### required parameters -/

theorem mem_mergeRequired_loop (new ex : List String) (s : String) :
    s ∈ new.foldl (fun ex v => if ex.contains v then ex else ex ++ [v]) ex ↔ s ∈ ex ∨ s ∈ new := by
  induction new generalizing ex with
  | nil => simp
  | cons v rest ih =>
    simp only [List.foldl_cons, ih, List.mem_cons]
    by_cases hc : ex.contains v = true
    · simp only [hc, if_true]
      have hv : v ∈ ex := by simpa using hc
      constructor
      · rintro (h | h)
        · exact Or.inl h
        · exact Or.inr (Or.inr h)
      · rintro (h | h | h)
        · exact Or.inl h
        · exact Or.inl (h ▸ hv)
        · exact Or.inr h
    · simp only [hc]
      simp only [Bool.false_eq_true, if_false, List.mem_append, List.mem_singleton]
      constructor
      · rintro ((h | h) | h)
        · exact Or.inl h
        · exact Or.inr (Or.inl h)
        · exact Or.inr (Or.inr h)
      · rintro (h | h | h)
        · exact Or.inl (Or.inl h)
        · exact Or.inl (Or.inr h)
        · exact Or.inr h

theorem mem_mergeRequired (ex new : List String) (s : String) :
    s ∈ mergeRequired ex new ↔ s ∈ ex ∨ s ∈ new := by
  unfold mergeRequired
  split
  · rename_i h
    have : new = [] := by simpa using h
    simp [this]
  · split
    · rename_i h
      have : ex = [] := by simpa using h
      simp [this]
    · exact mem_mergeRequired_loop new ex s

/-! ### aggregates over `rs ++ [p]` -/

theorem anyDeny_snoc (rs : List Perms) (p : Perms) : anyDeny (rs ++ [p]) = (anyDeny rs || isDeny p.caps) := by
  simp [anyDeny, List.any_append]

theorem unionCaps_snoc (rs : List Perms) (p : Perms) : unionCaps (rs ++ [p]) = unionCaps rs ||| p.caps := by
  simp [unionCaps, List.foldl_append]

theorem minPos_snoc (xs : List Int) (x : Int) :
    minPos (xs ++ [x]) = if x > 0 ∧ (minPos xs = 0 ∨ x < minPos xs) then x else minPos xs := by
  simp [minPos, List.foldl_append]

theorem minPos_nonneg (xs : List Int) : 0 ≤ minPos xs := by
  unfold minPos
  suffices h : ∀ a : Int, 0 ≤ a → 0 ≤ xs.foldl (fun a x => if x > 0 ∧ (a = 0 ∨ x < a) then x else a) a from h 0 (by omega)
  induction xs with
  | nil => intro a ha; simpa
  | cons x xs ih =>
    intro a ha
    simp only [List.foldl_cons]
    apply ih
    split <;> omega

theorem pmHas_snoc (sel : Perms → PMap) (rs : List Perms) (p : Perms) (k : String) :
    pmHas sel (rs ++ [p]) k = (pmHas sel rs k || ((sel p).lookup k).isSome) := by
  simp [pmHas, List.any_append]

theorem pmAccepts_snoc (sel : Perms → PMap) (rs : List Perms) (p : Perms) (k : String) (v : PVal) :
    pmAccepts sel (rs ++ [p]) k v = (pmAccepts sel rs k v || valueListed (sel p) k v) := by
  simp [pmAccepts, List.any_append]

/-! ### the invariant of the merge loop -/

/-- `mm` is the map stored for the pattern after the stanzas `rs` were merged -/
structure PMAgrees (mm : PMap) (sel : Perms → PMap) (rs : List Perms) : Prop where
  nodup : (mm.map (·.1)).Nodup
  has : ∀ k, (mm.lookup k).isSome = pmHas sel rs k
  accepts : ∀ k vs v, mm.lookup k = some vs → valueInParameterList v vs = pmAccepts sel rs k v

theorem valueIn_combine (v : PVal) (nv ev : List PVal) :
    valueInParameterList v (if nv.isEmpty || ev.isEmpty then [] else nv ++ ev) =
      (valueInParameterList v ev || valueInParameterList v nv) := by
  unfold valueInParameterList
  cases nv with
  | nil => simp
  | cons a as =>
    cases ev with
    | nil => simp
    | cons b bs =>
      simp only [List.isEmpty_cons, Bool.or_false, Bool.false_eq_true, if_false, Bool.false_or, List.cons_append,
        List.any_cons, List.any_append]
      generalize valMatches v a = x1
      generalize as.any (valMatches v) = x2
      generalize valMatches v b = x3
      generalize bs.any (valMatches v) = x4
      cases x1 <;> cases x2 <;> cases x3 <;> cases x4 <;> rfl

theorem PMAgrees.snoc {mm : PMap} {sel : Perms → PMap} {rs : List Perms} (h : PMAgrees mm sel rs) (p : Perms)
    (hp : ((sel p).map (·.1)).Nodup) : PMAgrees (mergeParams mm (sel p)) sel (rs ++ [p]) := by
  refine ⟨nodup_mergeParams _ _ h.nodup hp, ?_, ?_⟩
  · intro k
    rw [lookup_mergeParams _ _ hp, pmHas_snoc, ← h.has k]
    cases mm.lookup k <;> cases (sel p).lookup k <;> rfl
  · intro k vs v hl
    rw [lookup_mergeParams _ _ hp] at hl
    rw [pmAccepts_snoc]
    cases he : mm.lookup k with
    | none =>
      have h0 : pmAccepts sel rs k v = false := by
        have := h.has k
        rw [he] at this
        simp only [Option.isSome_none] at this
        unfold pmAccepts
        unfold pmHas at this
        rw [Bool.eq_false_iff]
        intro hc
        rw [List.any_eq_true] at hc
        obtain ⟨q, hq, hm⟩ := hc
        have : rs.any (fun p => ((sel p).lookup k).isSome) = true := by
          rw [List.any_eq_true]
          refine ⟨q, hq, ?_⟩
          cases hqk : (sel q).lookup k with
          | none => simp [valueListed, hqk] at hm
          | some _ => rfl
        simp_all
      cases hn : (sel p).lookup k with
      | none => simp [he, hn, combineVals] at hl
      | some nv =>
        simp only [he, hn, combineVals, Option.some.injEq] at hl
        subst hl
        simp [h0, valueListed, hn]
    | some ev =>
      have h1 := h.accepts k ev v he
      cases hn : (sel p).lookup k with
      | none =>
        simp only [he, hn, combineVals, Option.some.injEq] at hl
        subst hl
        simp [h1, valueListed, hn]
      | some nv =>
        simp only [he, hn, combineVals, Option.some.injEq] at hl
        subst hl
        rw [valueIn_combine, h1]
        simp [valueListed, hn]

theorem PMAgrees.single (sel : Perms → PMap) (p : Perms) (hp : ((sel p).map (·.1)).Nodup) :
    PMAgrees (sel p) sel [p] := by
  refine ⟨hp, ?_, ?_⟩
  · intro k; simp [pmHas]
  · intro k vs v hl; simp [pmAccepts, valueListed, hl]

/-! ### capabilities -/

theorem testBit_unionCaps (rs : List Perms) (i : Nat) :
    (unionCaps rs).testBit i = rs.any fun p => p.caps.testBit i := by
  unfold unionCaps
  suffices h : ∀ a : Nat, (rs.foldl (fun a p => a ||| p.caps) a).testBit i = (a.testBit i || rs.any fun p => p.caps.testBit i) by
    simpa using h 0
  induction rs with
  | nil => intro a; simp
  | cons p rs ih => intro a; simp [ih, Nat.testBit_or, Bool.or_assoc]

theorem isDeny_unionCaps (rs : List Perms) : isDeny (unionCaps rs) = anyDeny rs := by
  unfold isDeny anyDeny
  rw [testBit_unionCaps]
  rfl

theorem isDeny_specCaps (rs : List Perms) : isDeny (specCaps rs) = anyDeny rs := by
  unfold specCaps
  split
  · rename_i h; rw [h]; decide
  · exact isDeny_unionCaps rs

/-! ### the whole permission record -/

/-- what `parsePaths` guarantees for the permissions of a stanza, plus non-negative wrapping-TTL bounds -/
structure WF (p : Perms) : Prop where
  deny : isDeny p.caps = true → p.caps = denyBits
  allowedNodup : (p.allowed.map (·.1)).Nodup
  deniedNodup : (p.denied.map (·.1)).Nodup
  minTTL : 0 ≤ p.minTTL
  maxTTL : 0 ≤ p.maxTTL

theorem wfPerms_iff (p : Perms) : wfPerms p = true ↔ WF p := by
  unfold wfPerms keysNodup
  simp only [Bool.and_eq_true, Bool.or_eq_true, Bool.not_eq_true', decide_eq_true_eq, beq_iff_eq]
  constructor
  · rintro ⟨⟨⟨⟨h1, h2⟩, h3⟩, h4⟩, h5⟩
    refine ⟨?_, h2, h3, h4, h5⟩
    intro hd
    rcases h1 with h1 | h1
    · rw [h1] at hd; exact absurd hd (by decide)
    · exact h1
  · rintro ⟨h1, h2, h3, h4, h5⟩
    refine ⟨⟨⟨⟨?_, h2⟩, h3⟩, h4⟩, h5⟩
    cases hd : isDeny p.caps
    · exact Or.inl rfl
    · exact Or.inr (h1 hd)

def normPag (x : Int) : Int := if x > 0 then x else 0

/-- `e` is what `NewACL` stores for a pattern after merging the stanzas `rs` (in this order) -/
structure Agrees (e : Perms) (rs : List Perms) : Prop where
  caps : e.caps = specCaps rs
  minTTL : anyDeny rs = false → e.minTTL = minPos (rs.map (·.minTTL))
  maxTTL : anyDeny rs = false → e.maxTTL = minPos (rs.map (·.maxTTL))
  pag : anyDeny rs = false → normPag e.pag = minPos (rs.map (·.pag))
  required : anyDeny rs = false → ∀ s, s ∈ e.required ↔ ∃ p ∈ rs, s ∈ p.required
  allowed : anyDeny rs = false → PMAgrees e.allowed (·.allowed) rs
  denied : anyDeny rs = false → PMAgrees e.denied (·.denied) rs

theorem Agrees.single (p : Perms) (hp : WF p) : Agrees p [p] := by
  have hcaps : p.caps = specCaps [p] := by
    unfold specCaps anyDeny unionCaps
    simp only [List.any_cons, List.any_nil, Bool.or_false, List.foldl_cons, List.foldl_nil, Nat.zero_or]
    split
    · rename_i h; exact hp.deny h
    · rfl
  refine ⟨hcaps, ?_, ?_, ?_, ?_, ?_, ?_⟩
  · intro _
    have := hp.minTTL
    simp only [minPos, List.map_cons, List.map_nil, List.foldl_cons, List.foldl_nil]
    by_cases hpos : p.minTTL > 0
    · simp [hpos]
    · simp only [hpos, false_and, if_false]; omega
  · intro _
    have := hp.maxTTL
    simp only [minPos, List.map_cons, List.map_nil, List.foldl_cons, List.foldl_nil]
    by_cases hpos : p.maxTTL > 0
    · simp [hpos]
    · simp only [hpos, false_and, if_false]; omega
  · intro _
    simp only [minPos, normPag, List.map_cons, List.map_nil, List.foldl_cons, List.foldl_nil]
    by_cases hpos : p.pag > 0
    · simp [hpos]
    · simp only [hpos, false_and, if_false]
  · intro _ s; simp
  · intro _; exact PMAgrees.single (·.allowed) p hp.allowedNodup
  · intro _; exact PMAgrees.single (·.denied) p hp.deniedNodup

theorem mergeStep_of_deny_left {e p : Perms} (h : isDeny e.caps = true) : mergeStep e p = e := by
  unfold mergeStep; simp [h]

theorem mergeStep_of_deny_right {e p : Perms} (h1 : isDeny e.caps = false) (h2 : isDeny p.caps = true) :
    mergeStep e p = { e with caps := denyBits, allowed := [], denied := [] } := by
  unfold mergeStep; simp [h1, h2]

theorem mergeStep_of_not_deny {e p : Perms} (h1 : isDeny e.caps = false) (h2 : isDeny p.caps = false) :
    mergeStep e p =
    { caps := e.caps ||| p.caps
      maxTTL := if p.maxTTL > 0 ∧ (e.maxTTL = 0 ∨ p.maxTTL < e.maxTTL) then p.maxTTL else e.maxTTL
      minTTL := if p.minTTL > 0 ∧ (e.minTTL = 0 ∨ p.minTTL < e.minTTL) then p.minTTL else e.minTTL
      allowed := mergeParams e.allowed p.allowed
      denied := mergeParams e.denied p.denied
      required := mergeRequired e.required p.required
      pag := if p.pag > 0 ∧ (e.pag ≤ 0 ∨ p.pag < e.pag) then p.pag else e.pag } := by
  unfold mergeStep; simp [h1, h2]

theorem Agrees.snoc {e : Perms} {rs : List Perms} (h : Agrees e rs) (p : Perms) (hp : WF p) :
    Agrees (mergeStep e p) (rs ++ [p]) := by
  have hde : isDeny e.caps = anyDeny rs := by rw [h.caps]; exact isDeny_specCaps rs
  by_cases h1 : isDeny e.caps = true
  · -- already denied: nothing changes
    have hd : anyDeny rs = true := by rw [← hde]; exact h1
    have hd' : anyDeny (rs ++ [p]) = true := by rw [anyDeny_snoc, hd]; rfl
    rw [mergeStep_of_deny_left h1]
    refine ⟨?_, ?_, ?_, ?_, ?_, ?_, ?_⟩
    · rw [h.caps]; unfold specCaps; rw [hd, hd']; simp
    all_goals (intro hc; rw [hd'] at hc; exact absurd hc (by decide))
  · have h1 : isDeny e.caps = false := by simpa using h1
    have hd : anyDeny rs = false := by rw [← hde]; exact h1
    by_cases h2 : isDeny p.caps = true
    · have hd' : anyDeny (rs ++ [p]) = true := by rw [anyDeny_snoc, h2]; simp
      rw [mergeStep_of_deny_right h1 h2]
      refine ⟨?_, ?_, ?_, ?_, ?_, ?_, ?_⟩
      · unfold specCaps; rw [hd']; rfl
      all_goals (intro hc; rw [hd'] at hc; exact absurd hc (by decide))
    · have h2 : isDeny p.caps = false := by simpa using h2
      have hd' : anyDeny (rs ++ [p]) = false := by rw [anyDeny_snoc, hd, h2]; rfl
      rw [mergeStep_of_not_deny h1 h2]
      refine ⟨?_, ?_, ?_, ?_, ?_, ?_, ?_⟩
      · show e.caps ||| p.caps = specCaps (rs ++ [p])
        unfold specCaps
        rw [hd', unionCaps_snoc]
        have := h.caps
        unfold specCaps at this
        rw [hd] at this
        simp only [Bool.false_eq_true, if_false] at this ⊢
        rw [this]
      · intro _
        simp only [List.map_append, List.map_cons, List.map_nil, minPos_snoc, ← h.minTTL hd]
      · intro _
        simp only [List.map_append, List.map_cons, List.map_nil, minPos_snoc, ← h.maxTTL hd]
      · intro _
        simp only [List.map_append, List.map_cons, List.map_nil, minPos_snoc, ← h.pag hd]
        unfold normPag
        split <;> split <;> split <;> omega
      · intro _ s
        show s ∈ mergeRequired e.required p.required ↔ _
        rw [mem_mergeRequired, h.required hd s]
        simp only [List.mem_append, List.mem_singleton]
        constructor
        · rintro (⟨q, hq, hs⟩ | hs)
          · exact ⟨q, Or.inl hq, hs⟩
          · exact ⟨p, Or.inr rfl, hs⟩
        · rintro ⟨q, hq | hq, hs⟩
          · exact Or.inl ⟨q, hq, hs⟩
          · exact Or.inr (hq ▸ hs)
      · intro _; exact (h.allowed hd).snoc p hp.allowedNodup
      · intro _; exact (h.denied hd).snoc p hp.deniedNodup

theorem Agrees.foldl {e : Perms} {rs : List Perms} (h : Agrees e rs) (ps : List Perms) (hps : ∀ p ∈ ps, WF p) :
    Agrees (ps.foldl mergeStep e) (rs ++ ps) := by
  induction ps generalizing e rs with
  | nil => simpa using h
  | cons p ps ih =>
    simp only [List.foldl_cons]
    have := ih (h.snoc p (hps p (by simp))) (fun q hq => hps q (by simp [hq]))
    simpa using this

/-- what `NewACL` stores for a pattern whose stanzas are `rs`, in this order: the first is cloned, the rest merged -/
def mergeAll : List Perms → Option Perms
  | [] => none
  | p :: rest => some (rest.foldl mergeStep p)

theorem agrees_mergeAll (rs : List Perms) (hrs : ∀ p ∈ rs, WF p) (m : Perms) (hm : mergeAll rs = some m) :
    Agrees m rs := by
  cases rs with
  | nil => simp [mergeAll] at hm
  | cons p rest =>
    simp only [mergeAll, Option.some.injEq] at hm
    subst hm
    have := (Agrees.single p (hrs p (by simp))).foldl rest (fun q hq => hrs q (by simp [hq]))
    simpa using this

end Obao.ACLProofs
