import Obao.Model.Router
import Obao.Proofs.View
/-! Helper lemmas for the router theorems of C12 (core Lean only). -/
set_option linter.unusedSimpArgs false
namespace Obao.Router
open Obao.View

theorem longestPrefix_none (t : Table) (q : Bytes) (h : longestPrefix t q = none) :
    ∀ e ∈ t, ¬ e.pfx <+: q := by
  induction t with
  | nil => intro e he; cases he
  | cons y t ih =>
    unfold longestPrefix at h
    split at h
    · split at h <;> cases h
    · rename_i hn
      split at h
      · cases h
      · rename_i hy
        intro e he hp
        rcases List.mem_cons.mp he with rfl | he
        · exact hy (List.isPrefixOf_iff_prefix.mpr hp)
        · exact ih hn e he hp

theorem longestPrefix_some (t : Table) (q : Bytes) (e : Entry) (h : longestPrefix t q = some e) :
    e ∈ t ∧ e.pfx <+: q ∧ ∀ e' ∈ t, e'.pfx <+: q → e'.pfx.length ≤ e.pfx.length := by
  induction t generalizing e with
  | nil => simp [longestPrefix] at h
  | cons x t ih =>
    unfold longestPrefix at h
    split at h
    · rename_i b hb
      obtain ⟨hb1, hb2, hb3⟩ := ih b hb
      split at h
      · rename_i hc
        injection h with h; subst h
        refine ⟨List.mem_cons_self, List.isPrefixOf_iff_prefix.mp hc.1, ?_⟩
        intro e' he' hp
        rcases List.mem_cons.mp he' with rfl | he'
        · exact Nat.le_refl _
        · exact Nat.le_trans (hb3 e' he' hp) (Nat.le_of_lt hc.2)
      · rename_i hc
        injection h with h; subst h
        refine ⟨List.mem_cons_of_mem _ hb1, hb2, ?_⟩
        intro e' he' hp
        rcases List.mem_cons.mp he' with rfl | he'
        · have : ¬ (e'.pfx.isPrefixOf q = true) ∨ ¬ (b.pfx.length < e'.pfx.length) := by
            by_cases h1 : e'.pfx.isPrefixOf q = true
            · right; intro h2; exact hc ⟨h1, h2⟩
            · left; exact h1
          rcases this with h1 | h1
          · exact absurd (List.isPrefixOf_iff_prefix.mpr hp) h1
          · omega
        · exact hb3 e' he' hp
    · rename_i hn
      split at h
      · rename_i hc
        injection h with h; subst h
        refine ⟨List.mem_cons_self, List.isPrefixOf_iff_prefix.mp hc, ?_⟩
        intro e' he' hp
        rcases List.mem_cons.mp he' with rfl | he'
        · exact Nat.le_refl _
        · exact absurd hp (longestPrefix_none t q hn e' he')
      · cases h

/-- cancellation at the first '/': slash-free heads are determined by the whole string -/
theorem slashfree_cancel (a b x y : Bytes) (ha : slash ∉ a) (hb : slash ∉ b)
    (h : a ++ slash :: x = b ++ slash :: y) : a = b ∧ x = y := by
  induction a generalizing b with
  | nil =>
    cases b with
    | nil => simpa using h
    | cons c b => simp at h; simp at hb; exact absurd h.1 hb.1
  | cons c a ih =>
    cases b with
    | nil => simp at h; simp at ha; exact absurd h.1.symm ha.1
    | cons d b =>
      simp at h ha hb
      obtain ⟨rfl, h⟩ := h
      obtain ⟨rfl, rfl⟩ := ih b ha.2 hb.2 h
      exact ⟨rfl, rfl⟩

theorem findEntry_some (t : Table) (ns path : Bytes) (e : Entry) (adj : Bytes)
    (h : findEntry t ns path = some (e, adj)) :
    e ∈ t ∧ e.pfx <+: ns ++ adj ∧ (∀ e' ∈ t, e'.pfx <+: ns ++ adj → e'.pfx.length ≤ e.pfx.length) ∧
    (adj = path ∨ (adj = path ++ [slash] ∧ ∀ e' ∈ t, ¬ e'.pfx <+: ns ++ path)) := by
  unfold findEntry at h
  split at h
  · rename_i b hb
    injection h with h; injection h with h1 h2; subst h1 h2
    obtain ⟨a1, a2, a3⟩ := longestPrefix_some _ _ _ hb
    exact ⟨a1, a2, a3, .inl rfl⟩
  · rename_i hn
    split at h
    · split at h
      · rename_i b hb
        injection h with h; injection h with h1 h2; subst h1 h2
        obtain ⟨a1, a2, a3⟩ := longestPrefix_some _ _ _ hb
        exact ⟨a1, a2, a3, .inr ⟨rfl, longestPrefix_none _ _ hn⟩⟩
      · cases h
    · cases h

theorem dispatch_handled (e : Entry) (ns adj : Bytes) (rb : Bool) (te : Option TokEntry)
    (e' : Entry) (mp rel : Bytes) (tok : TokSeen) (h : dispatch e ns adj rb te = .handled e' mp rel tok) :
    e' = e ∧ mp = e.pfx ∧ rel = relPath ns adj e := by
  unfold dispatch at h
  simp only at h
  repeat' split at h
  all_goals first
    | (injection h with h1 h2 h3 h4; exact ⟨h1.symm, h2.symm, h3.symm⟩)
    | cases h

theorem route_handled (t : Table) (ns : Bytes) (nst : Bool) (path : Bytes) (rr rb : Bool) (te : Option TokEntry)
    (e : Entry) (mp rel : Bytes) (tok : TokSeen) (h : route t ns nst path rr rb te = .handled e mp rel tok) :
    ∃ adj, findEntry t ns path = some (e, adj) ∧ mp = e.pfx ∧ rel = relPath ns adj e ∧
      (rr = true ∨ (e.tainted = false ∧ nst = false)) := by
  unfold route at h
  split at h
  · cases h
  · rename_i e0 adj hf
    split at h
    · cases h
    · rename_i hc
      obtain ⟨h1, h2, h3⟩ := dispatch_handled _ _ _ _ _ _ _ _ _ h
      subst h1
      refine ⟨adj, hf, h2, h3, ?_⟩
      cases rr <;> cases ht : e.tainted <;> cases nst <;> simp_all

end Obao.Router
