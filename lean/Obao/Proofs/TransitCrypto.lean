import Obao.Proofs.TransitArts
/-! Specifications of the symbolic encrypt / decrypt / sign / verify / hmac functions of the transit model. -/
namespace Obao.Transit

theorem encryptArt_spec {p : Policy} {n : Nat} {ver : Int} {ctx aad nonce plain : String} {a : Art}
    (h : encryptArt p n ver ctx aad nonce plain = .ok a) :
    p.ktype.encSupported = true ∧ pickVersion p ver = .ok a.ver ∧ nonce = "-" ∧
      getKey p ctx a.ver = .ok (a.key, a.dctx) ∧ a.aad = aad ∧ a.msg = plain ∧ a.kind = .enc ∧
      a.uniq = (if p.convergent then 0 else n) := by
  unfold encryptArt at h
  by_cases hs : (!p.ktype.encSupported) = true
  · rw [if_pos hs] at h; cases h
  · rw [if_neg hs] at h
    cases hv : pickVersion p ver with
    | error c => rw [hv] at h; cases h
    | ok v =>
      rw [hv] at h
      simp only at h
      by_cases hn : nonce ≠ "-"
      · rw [if_pos hn] at h; cases h
      · rw [if_neg hn] at h
        cases hk : getKey p ctx v with
        | error c => rw [hk] at h; cases h
        | ok r =>
          obtain ⟨k, dctx⟩ := r
          rw [hk] at h
          simp only at h
          split at h
          · cases h
          · cases h
            exact ⟨by simpa using hs, rfl, by simpa using hn, hk, rfl, rfl, rfl, rfl⟩

/-- decryption of an artifact succeeds exactly when nothing was rewritten beyond an equivalent version string,
    the version is inside the window, and the key, derivation context and associated data are the sealed ones -/
theorem decryptArt_ok_iff {p : Policy} {a : Art} {vm : VMut} {bm : BMut} {ctx aad m : String} :
    decryptArt p a vm bm ctx aad = .ok m ↔
      p.ktype.encSupported = true ∧ vm ≠ .noPrefix ∧ vm ≠ .noFields ∧
      ∃ ver0 : Int, parseVer a vm = some ver0 ∧
        (let ver : Int := if ver0 = 0 then 1 else ver0
         ver ≤ p.latest ∧ ¬ (p.minDec > 0 ∧ ver < p.minDec) ∧ bm = .same ∧
         ∃ dctx, getKey p ctx ver = .ok (a.key, dctx) ∧ dctx = a.dctx ∧ aad = a.aad ∧ m = a.msg) := by
  unfold decryptArt
  by_cases hs : (!p.ktype.encSupported) = true
  · rw [if_pos hs]; constructor
    · intro h; cases h
    · intro ⟨h, _⟩; rw [h] at hs; cases hs
  rw [if_neg hs]
  have hs' : p.ktype.encSupported = true := by simpa using hs
  by_cases h1 : vm = .noPrefix
  · rw [if_pos h1]; constructor
    · intro h; cases h
    · intro ⟨_, h, _⟩; exact absurd h1 h
  rw [if_neg h1]
  by_cases h2 : vm = .noFields
  · rw [if_pos h2]; constructor
    · intro h; cases h
    · intro ⟨_, _, h, _⟩; exact absurd h2 h
  rw [if_neg h2]
  cases hv : parseVer a vm with
  | none => constructor
            · intro h; cases h
            · intro ⟨_, _, _, v, hv', _⟩; cases hv'
  | some ver0 =>
    simp only
    by_cases h3 : (if ver0 = 0 then 1 else ver0) > (p.latest : Int)
    · rw [if_pos h3]; constructor
      · intro h; cases h
      · intro ⟨_, _, _, v, hv', h, _⟩; cases hv'; omega
    rw [if_neg h3]
    by_cases h4 : p.minDec > 0 ∧ (if ver0 = 0 then 1 else ver0) < (p.minDec : Int)
    · rw [if_pos h4]; constructor
      · intro h; cases h
      · intro ⟨_, _, _, v, hv', _, h, _⟩; cases hv'; exact absurd h4 h
    rw [if_neg h4]
    by_cases h5 : bm = .badB64
    · rw [if_pos h5]; constructor
      · intro h; cases h
      · intro ⟨_, _, _, v, hv', _, _, h, _⟩; rw [h5] at h; cases h
    rw [if_neg h5]
    cases hk : getKey p ctx (if ver0 = 0 then 1 else ver0) with
    | error c => constructor
                 · intro h; cases h
                 · intro ⟨_, _, _, v, hv', _, _, _, d, h, _⟩; cases hv'; rw [hk] at h; cases h
    | ok r =>
      obtain ⟨k, dctx⟩ := r
      simp only
      by_cases h6 : bm = .short
      · rw [if_pos h6]; constructor
        · intro h; cases h
        · intro ⟨_, _, _, v, hv', _, _, h, _⟩; rw [h6] at h; cases h
      rw [if_neg h6]
      by_cases h7 : bm = .same ∧ k = a.key ∧ dctx = a.dctx ∧ aad = a.aad
      · rw [if_pos h7]; constructor
        · intro h; cases h
          obtain ⟨b1, b2, b3, b4⟩ := h7
          subst b2
          exact ⟨hs', h1, h2, ver0, rfl, by omega, h4, b1, dctx, hk, b3, b4, rfl⟩
        · intro ⟨_, _, _, v, hv', _, _, _, d, h, _, _, hm⟩; rw [hm]
      · rw [if_neg h7]; constructor
        · intro h; cases h
        · intro ⟨_, _, _, v, hv', _, _, hb, d, h, hd, ha, _⟩
          cases hv'
          rw [hk] at h; cases h
          exact absurd ⟨hb, rfl, hd, ha⟩ h7

theorem encrypt_ok_spec {st : St} {ver : Int} {ctx aad nonce plain : String} {h v : Nat}
    (henc : (encrypt st ver ctx aad nonce plain).2 = .okArt h v) :
    ∃ p a, st.pol = some p ∧ encryptArt p (st.arts.length + 1) ver ctx aad nonce plain = .ok a ∧ v = a.ver ∧
      h = (internArt st.arts a).2 ∧
      (encrypt st ver ctx aad nonce plain).1 = { st with arts := (internArt st.arts a).1 } := by
  unfold encrypt at henc ⊢
  cases hp : st.pol with
  | none => rw [hp] at henc; cases henc
  | some p =>
    rw [hp] at henc
    simp only at henc ⊢
    cases he : encryptArt p (st.arts.length + 1) ver ctx aad nonce plain with
    | error c => rw [he] at henc; cases henc
    | ok a =>
      rw [he] at henc
      simp only at henc ⊢
      cases henc
      exact ⟨p, a, rfl, he, rfl, rfl, rfl⟩

theorem decrypt_ok_iff {st : St} {h : Nat} {vm : VMut} {bm : BMut} {ctx aad m : String} :
    (decrypt st h vm bm ctx aad).2 = .okPlain m ↔
      ∃ a p, artAt st h .enc = some a ∧ st.pol = some p ∧ decryptArt p a vm bm ctx aad = .ok m := by
  unfold decrypt
  cases ha : artAt st h .enc with
  | none => simp
  | some a =>
    cases hp : st.pol with
    | none => simp
    | some p =>
      cases hd : decryptArt p a vm bm ctx aad with
      | error c => simp [hd]
      | ok m' => simp [hd]

theorem artAt_intern (st : St) (a : Art) :
    artAt { st with arts := (internArt st.arts a).1 } (internArt st.arts a).2 a.kind = some a := by
  obtain ⟨h1, h2⟩ := internArt_get st.arts a
  unfold artAt
  rw [if_neg (by omega)]
  simp only [h2, if_true]

/-- in a consistent state, a ciphertext just returned by `encrypt` decrypts to its plaintext -/
theorem roundtrip_of_inv {st : St} (hi : Inv st) {ver : Int} {ctx aad nonce plain : String} {h v : Nat}
    (henc : (encrypt st ver ctx aad nonce plain).2 = .okArt h v) :
    (decrypt (encrypt st ver ctx aad nonce plain).1 h .same .same ctx aad).2 = .okPlain plain := by
  obtain ⟨p, a, hp, he, hv, hh, hst⟩ := encrypt_ok_spec henc
  obtain ⟨s1, s2, s3, s4, s5, s6, s7, _⟩ := encryptArt_spec he
  obtain ⟨k1, k2, k3, k4⟩ := encryptArt_ok (hi.pol p hp) he
  obtain ⟨_, w1, w2, _⟩ := (hi.pol p hp).kget_ver k3
  rw [decrypt_ok_iff, hst]
  refine ⟨a, p, ?_, hp, ?_⟩
  · rw [hh, ← k4]; exact artAt_intern st a
  · rw [decryptArt_ok_iff]
    refine ⟨s1, by simp, by simp, (a.ver : Int), rfl, ?_⟩
    have hne : ¬ ((a.ver : Int) = 0) := by omega
    simp only [if_neg hne]
    exact ⟨by omega, by omega, trivial, a.dctx, s4, rfl, s5.symm, s6.symm⟩

/-- the version a (possibly rewritten) prefix denotes for a ciphertext: what `strconv.Atoi` reads, with the
documented alias `v0 ≡ v1` -/
def denotes (a : Art) (vm : VMut) (v : Int) : Prop :=
  ∃ ver0 : Int, parseVer a vm = some ver0 ∧ v = (if ver0 = 0 then 1 else ver0) ∧ vm ≠ .noPrefix ∧ vm ≠ .noFields

/-- the version a (possibly rewritten) prefix denotes for a signature or HMAC (no `v0` alias there) -/
def denotesExact (a : Art) (vm : VMut) (v : Int) : Prop :=
  parseVer a vm = some v ∧ vm ≠ .noPrefix ∧ vm ≠ .noFields

theorem getKey_intro {p : Policy} {ctx : String} {v : Nat} {k : Key} (hv1 : 1 ≤ v) (hv2 : v ≤ p.latest)
    (hk : kget p.keys v = some k) (hd : p.derived = true → ctx ≠ "-") (hn : p.derived = false → k ≠ emptyKey) :
    getKey p ctx (v : Int) = .ok (k, if p.derived then ctx else "-") := by
  unfold getKey
  cases hder : p.derived with
  | false =>
    simp only [Bool.not_false, if_true, Int.toNat_natCast, hk]
    rw [if_neg (by omega), if_neg (hn hder)]
    simp
  | true =>
    simp only [Bool.not_true, Bool.false_eq_true, if_false, Int.toNat_natCast, hk]
    rw [if_neg (by omega), if_neg (hd hder)]
    simp

theorem decrypt_out {st : St} {h : Nat} {a : Art} {p : Policy} (ha : artAt st h .enc = some a) (hp : st.pol = some p)
    (vm : VMut) (bm : BMut) (ctx aad : String) :
    (decrypt st h vm bm ctx aad).2 =
      (match decryptArt p a vm bm ctx aad with | .error c => Out.err c | .ok m => Out.okPlain m) := by
  unfold decrypt
  rw [ha, hp]
  simp only
  cases decryptArt p a vm bm ctx aad <;> rfl

end Obao.Transit
