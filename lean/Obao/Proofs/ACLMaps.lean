import Obao.Proofs.ACLMerge
import Obao.Proofs.ACLLess
/-! C03 helper lemmas: the three rule maps built by `NewACL` as functions of the list of stanzas. -/
namespace Obao.ACLProofs
open Obao.ACL Obao.ACLSpec

def mapOf (a : ACL) : Kind → RuleMap
  | .exact => a.exact
  | .pref => a.pref
  | .segwc => a.segwc

/-- merge one more stanza into what is stored for a pattern (nothing stored yet: clone) -/
def mergeOpt (acc : Option Perms) (pc : Perms) : Option Perms :=
  match acc with
  | none => some pc
  | some e => some (mergeStep e pc)

theorem lookup_upsert (m : RuleMap) (k k' : Path) (pc : Perms) :
    (upsert m k pc).lookup k' = if k' = k then mergeOpt (m.lookup k) pc else m.lookup k' := by
  induction m with
  | nil =>
    simp only [upsert, List.lookup_cons, List.lookup_nil, mergeOpt]
    by_cases h : k' = k
    · simp [h]
    · have : (k' == k) = false := by simp [h]
      simp [h, this]
  | cons kv rest ih =>
    obtain ⟨k0, e⟩ := kv
    unfold upsert
    by_cases h0 : k0 = k
    · subst h0
      simp only [if_true, List.lookup_cons]
      by_cases h1 : k' = k0
      · subst h1; simp [mergeOpt]
      · have : (k' == k0) = false := by simp [h1]
        simp [this, h1]
    · simp only [h0, if_false, List.lookup_cons, ih]
      by_cases h1 : k' = k
      · subst h1
        have : (k' == k0) = false := by simp; exact fun h => h0 h.symm
        simp [this]
      · simp [h1]

theorem keys_upsert (m : RuleMap) (k : Path) (pc : Perms) :
    (upsert m k pc).map (·.1) = if k ∈ m.map (·.1) then m.map (·.1) else m.map (·.1) ++ [k] := by
  induction m with
  | nil => simp [upsert]
  | cons kv rest ih =>
    obtain ⟨k0, v0⟩ := kv
    unfold upsert
    by_cases h0 : k0 = k
    · subst h0; simp
    · have h0' : ¬ k = k0 := fun h => h0 h.symm
      simp only [h0, if_false, List.map_cons, ih, List.mem_cons, h0', false_or]
      split <;> simp

theorem nodup_upsert (m : RuleMap) (k : Path) (pc : Perms) (h : (m.map (·.1)).Nodup) :
    ((upsert m k pc).map (·.1)).Nodup := by
  rw [keys_upsert]
  split
  · exact h
  · rename_i hk
    rw [List.nodup_append]
    refine ⟨h, by simp, ?_⟩
    intro a ha b hb
    simp at hb
    subst hb
    exact fun hab => hk (hab ▸ ha)

theorem mem_keys_upsert (m : RuleMap) (k k' : Path) (pc : Perms) :
    k' ∈ (upsert m k pc).map (·.1) ↔ k' ∈ m.map (·.1) ∨ k' = k := by
  rw [keys_upsert]
  split
  · rename_i h
    constructor
    · exact Or.inl
    · rintro (h' | h')
      · exact h'
      · exact h' ▸ h
  · simp

theorem mapOf_insertRule (a : ACL) (r : PathRule) (kind : Kind) :
    mapOf (insertRule a r) kind = if kindOf r = kind then upsert (mapOf a kind) r.path r.perms else mapOf a kind := by
  unfold insertRule kindOf
  cases hsw : r.hasSW <;> cases hp : r.isPrefix <;> cases kind <;> simp [mapOf]

theorem root_insertRule (a : ACL) (r : PathRule) : (insertRule a r).root = a.root := by
  unfold insertRule
  split
  · rfl
  · split <;> rfl

theorem permsFor_cons (r : PathRule) (rules : List PathRule) (kind : Kind) (k : Path) :
    permsFor (r :: rules) kind k =
      if kindOf r = kind ∧ r.path = k then r.perms :: permsFor rules kind k else permsFor rules kind k := by
  unfold permsFor
  by_cases h : kindOf r = kind ∧ r.path = k
  · have : (kindOf r == kind && r.path == k) = true := by simp [h.1, h.2]
    simp [List.filter_cons, this, h]
  · have : (kindOf r == kind && r.path == k) = false := by
      rw [Bool.eq_false_iff]; intro hc; simp at hc; exact h hc
    simp [List.filter_cons, this, h]

/-- the value stored for pattern `(kind, k)` after inserting all stanzas -/
theorem lookup_foldl_insertRule (rules : List PathRule) (a : ACL) (kind : Kind) (k : Path) :
    (mapOf (rules.foldl insertRule a) kind).lookup k =
      (permsFor rules kind k).foldl mergeOpt ((mapOf a kind).lookup k) := by
  induction rules generalizing a with
  | nil => simp [permsFor]
  | cons r rules ih =>
    simp only [List.foldl_cons]
    rw [ih, permsFor_cons, mapOf_insertRule]
    by_cases hk : kindOf r = kind
    · simp only [hk, if_true, true_and, lookup_upsert]
      by_cases hp : k = r.path
      · subst hp; simp
      · have hp' : ¬ r.path = k := fun h => hp h.symm
        simp [hp, hp']
    · simp [hk]

theorem mem_keys_foldl_insertRule (rules : List PathRule) (a : ACL) (kind : Kind) (k : Path) :
    k ∈ (mapOf (rules.foldl insertRule a) kind).map (·.1) ↔
      k ∈ (mapOf a kind).map (·.1) ∨ ∃ r ∈ rules, kindOf r = kind ∧ r.path = k := by
  induction rules generalizing a with
  | nil => simp
  | cons r rules ih =>
    simp only [List.foldl_cons]
    rw [ih, mapOf_insertRule]
    by_cases hk : kindOf r = kind
    · simp only [hk, if_true, mem_keys_upsert, List.mem_cons, exists_eq_or_imp, true_and]
      constructor
      · rintro ((h | h) | h)
        · exact Or.inl h
        · exact Or.inr (Or.inl h.symm)
        · exact Or.inr (Or.inr h)
      · rintro (h | h | h)
        · exact Or.inl (Or.inl h)
        · exact Or.inl (Or.inr h.symm)
        · exact Or.inr h
    · simp only [hk, if_false, List.mem_cons, exists_eq_or_imp, false_and, false_or]

theorem nodup_foldl_insertRule (rules : List PathRule) (a : ACL) (kind : Kind)
    (h : ((mapOf a kind).map (·.1)).Nodup) : ((mapOf (rules.foldl insertRule a) kind).map (·.1)).Nodup := by
  induction rules generalizing a with
  | nil => simpa
  | cons r rules ih =>
    simp only [List.foldl_cons]
    apply ih
    rw [mapOf_insertRule]
    split
    · exact nodup_upsert _ _ _ h
    · exact h

theorem root_foldl_insertRule (rules : List PathRule) (a : ACL) : (rules.foldl insertRule a).root = a.root := by
  induction rules generalizing a with
  | nil => rfl
  | cons r rules ih => simp only [List.foldl_cons, ih, root_insertRule]

theorem foldl_mergeOpt_none (l : List Perms) : l.foldl mergeOpt none = mergeAll l := by
  cases l with
  | nil => rfl
  | cons p rest =>
    simp only [List.foldl_cons, mergeOpt, mergeAll]
    induction rest generalizing p with
    | nil => rfl
    | cons q rest ih => simp only [List.foldl_cons, mergeOpt]; exact ih _

/-! ### `NewACL` over the list of policies -/

def setRoot (a : ACL) (b : Bool) : ACL := { a with root := b }

theorem insertRule_setRoot (a : ACL) (b : Bool) (r : PathRule) :
    insertRule (setRoot a b) r = setRoot (insertRule a r) b := by
  unfold insertRule setRoot
  split
  · rfl
  · split <;> rfl

theorem foldl_insertRule_setRoot (rules : List PathRule) (a : ACL) (b : Bool) :
    rules.foldl insertRule (setRoot a b) = setRoot (rules.foldl insertRule a) b := by
  induction rules generalizing a with
  | nil => rfl
  | cons r rules ih => simp only [List.foldl_cons, insertRule_setRoot, ih]

theorem setRoot_setRoot (a : ACL) (b c : Bool) : setRoot (setRoot a b) c = setRoot a c := rfl

theorem setRoot_self (a : ACL) : setRoot a a.root = a := rfl

/-- the per-policy admission test of `NewACL`, with `n = len(policies)` -/
def admits (n : Nat) (p : Option Policy) : Bool :=
  match p with
  | none => true
  | some p => !(p.name == "root") || n == 1

theorem foldl_insertPolicy_error (n : Nat) (now : Int) (ps : List (Option Policy)) (e : ACLErr) :
    ps.foldl (insertPolicy n now) (.error e) = .error e := by
  induction ps with
  | nil => rfl
  | cons p ps ih => simp only [List.foldl_cons, insertPolicy, ih]

theorem rulesOf_cons_none (now : Int) (ps : List (Option Policy)) : rulesOf now (none :: ps) = rulesOf now ps := by
  simp [rulesOf]

theorem rulesOf_cons_some (now : Int) (p : Policy) (ps : List (Option Policy)) :
    rulesOf now (some p :: ps) = p.paths.filter (liveAt now) ++ rulesOf now ps := by
  simp [rulesOf]

/-- skipping expired stanzas inside the loop = looping over the stanzas that count at `now` -/
theorem foldl_insertLive (now : Int) (rules : List PathRule) (a : ACL) :
    rules.foldl (insertLive now) a = (rules.filter (liveAt now)).foldl insertRule a := by
  induction rules generalizing a with
  | nil => rfl
  | cons r rules ih =>
    simp only [List.foldl_cons, List.filter_cons, insertLive, liveAt]
    by_cases h : expiredAt now r.expiration = true
    · simp only [h, if_true, Bool.not_true, Bool.false_eq_true, if_false]; exact ih a
    · have h' : expiredAt now r.expiration = false := by simpa using h
      simp only [h', Bool.false_eq_true, if_false, Bool.not_false, if_true, List.foldl_cons]; exact ih _

theorem hasRoot_cons_none (ps : List (Option Policy)) : hasRoot (none :: ps) = hasRoot ps := by
  simp [hasRoot]

theorem hasRoot_cons_some (p : Policy) (ps : List (Option Policy)) :
    hasRoot (some p :: ps) = (p.name == "root" || hasRoot ps) := by
  simp [hasRoot]

theorem insertPolicy_ok_none (n : Nat) (now : Int) (a : ACL) : insertPolicy n now (.ok a) none = .ok a := rfl

theorem insertPolicy_ok_some (n : Nat) (now : Int) (a : ACL) (p : Policy) :
    insertPolicy n now (.ok a) (some p) =
      if p.name = "root" ∧ n ≠ 1 then .error .rootWithOthers
      else .ok ((p.paths.filter (liveAt now)).foldl insertRule (if p.name = "root" then setRoot a true else a)) := by
  rw [← foldl_insertLive]
  rfl

theorem foldl_insertPolicy_ok (n : Nat) (now : Int) (ps : List (Option Policy)) (a0 : ACL) :
    ps.foldl (insertPolicy n now) (.ok a0) =
      if ps.all (admits n) then .ok (setRoot ((rulesOf now ps).foldl insertRule a0) (a0.root || hasRoot ps))
      else .error .rootWithOthers := by
  induction ps generalizing a0 with
  | nil => simp [rulesOf, hasRoot, setRoot]
  | cons p ps ih =>
    cases p with
    | none =>
      rw [List.foldl_cons, insertPolicy_ok_none, ih, List.all_cons, rulesOf_cons_none, hasRoot_cons_none]
      simp [admits]
    | some p =>
      rw [List.foldl_cons, insertPolicy_ok_some, List.all_cons, rulesOf_cons_some, hasRoot_cons_some,
        List.foldl_append]
      by_cases hr : p.name = "root"
      · by_cases hn : n = 1
        · have h1 : ¬ (p.name = "root" ∧ n ≠ 1) := by simp [hn]
          rw [if_neg h1, if_pos hr, ih, foldl_insertRule_setRoot, foldl_insertRule_setRoot]
          have : admits n (some p) = true := by simp [admits, hn]
          rw [this, Bool.true_and]
          have hb : (p.name == "root") = true := by simp [hr]
          simp [setRoot, hb]
        · have h1 : p.name = "root" ∧ n ≠ 1 := ⟨hr, hn⟩
          rw [if_pos h1, foldl_insertPolicy_error]
          have : admits n (some p) = false := by simp [admits, hr, hn]
          simp [this]
      · have h1 : ¬ (p.name = "root" ∧ n ≠ 1) := by simp [hr]
        rw [if_neg h1, if_neg hr, ih]
        have : admits n (some p) = true := by simp [admits, hr]
        rw [this, Bool.true_and]
        have hb : (p.name == "root") = false := by simp [hr]
        simp [hb, root_foldl_insertRule]

theorem attachable_eq (ps : List (Option Policy)) : attachable ps = ps.all (admits ps.length) := by
  unfold attachable
  congr 1

/-- `NewACL` succeeds exactly on attachable policy lists and then is the fold of `insertRule` over all stanzas -/
theorem newACL_eq (now : Int) (ps : List (Option Policy)) :
    newACL now ps = if attachable ps then .ok (setRoot ((rulesOf now ps).foldl insertRule {}) (hasRoot ps))
      else .error .rootWithOthers := by
  unfold newACL
  rw [foldl_insertPolicy_ok, attachable_eq]
  simp

end Obao.ACLProofs
