import Obao.Model.InmemTxn
/-! Helper lemmas for C08 (inmem part): store algebra, `exec` over appends, replay = serial execution. -/
namespace Obao.InmemTxn
open Obao.SerialTxn

theorem sget_sput_same (s : Store) (k : Key) (v : Val) : sget (sput s k v) k = some v := by
  induction s with
  | nil => simp [sput, sget]
  | cons e r ih =>
    obtain ⟨k', v'⟩ := e
    unfold sput
    split
    · simp [sget]
    · split
      · simp [sget]
      · rename_i h1 h2
        have : ¬ k' = k := fun h => h2 h.symm
        simp [sget, this, ih]

theorem sget_sput_other (s : Store) (k k2 : Key) (v : Val) (h : k2 ≠ k) : sget (sput s k v) k2 = sget s k2 := by
  induction s with
  | nil => simp [sput, sget, Ne.symm h]
  | cons e r ih =>
    obtain ⟨k', v'⟩ := e
    unfold sput
    split
    · simp [sget, Ne.symm h]
    · split
      · rename_i h1 h2
        subst h2
        simp [sget, Ne.symm h]
      · simp [sget, ih]

theorem sdel_cons (e : Key × Val) (r : Store) (k : Key) :
    sdel (e :: r) k = if e.1 = k then sdel r k else e :: sdel r k := by
  unfold sdel
  by_cases h : e.1 = k <;> simp [List.filter_cons, h]

theorem sget_sdel_same (s : Store) (k : Key) : sget (sdel s k) k = none := by
  induction s with
  | nil => simp [sdel, sget]
  | cons e r ih =>
    rw [sdel_cons]
    by_cases h : e.1 = k
    · simp [h, ih]
    · simp [h, sget, ih]

theorem sget_sdel_other (s : Store) (k k2 : Key) (h : k2 ≠ k) : sget (sdel s k) k2 = sget s k2 := by
  induction s with
  | nil => simp [sdel, sget]
  | cons e r ih =>
    rw [sdel_cons]
    by_cases h1 : e.1 = k
    · have : ¬ e.1 = k2 := fun h2 => h (h2.symm.trans h1)
      simp [h1, sget, ih]
      intro h3; exact absurd h3.symm h
    · simp [h1, sget, ih]

theorem exec_append (s : Store) (a b : List Op) :
    exec s (a ++ b) = ((exec s a).1 ++ (exec (exec s a).2 b).1, (exec (exec s a).2 b).2) := by
  induction a generalizing s with
  | nil => simp [exec]
  | cons o r ih => simp [exec, ih]

theorem exec_single (s : Store) (o : Op) : exec s [o] = ([(step s o).1], (step s o).2) := by
  simp [exec]

/-- one replay iteration succeeds exactly when serial execution of that operation observes what was logged -/
theorem replayOp_iff (p q : Store) (op : InmemOp) :
    replayOp p op = some q ↔ step p op.toOp = (op.toObs, q) := by
  unfold replayOp InmemOp.toOp InmemOp.toObs
  cases op.opType <;> simp [step] <;> (split <;> simp_all)

theorem replayOp_none_iff (p : Store) (op : InmemOp) :
    replayOp p op = none ↔ (step p op.toOp).1 ≠ op.toObs := by
  unfold replayOp InmemOp.toOp InmemOp.toObs
  cases op.opType <;> simp [step]

/-- the replay loop of `Commit` is serial execution of the logged operations with every observation compared -/
theorem replay_iff_exec (p q : Store) (ops : List InmemOp) :
    replay p ops = some q ↔ exec p (ops.map InmemOp.toOp) = (ops.map InmemOp.toObs, q) := by
  induction ops generalizing p with
  | nil => simp [replay, exec]
  | cons op r ih =>
    simp only [replay, List.map_cons, exec]
    cases h : replayOp p op with
    | none =>
      have := (replayOp_none_iff p op).mp h
      simp
      intro h1
      exact absurd h1 this
    | some p1 =>
      have h1 := (replayOp_iff p p1 op).mp h
      simp [h1, ih]
      exact Prod.ext_iff

theorem replay_none_iff (p : Store) (ops : List InmemOp) :
    replay p ops = none ↔ (exec p (ops.map InmemOp.toOp)).1 ≠ ops.map InmemOp.toObs := by
  constructor
  · intro h he
    have : replay p ops = some (exec p (ops.map InmemOp.toOp)).2 := by
      rw [replay_iff_exec]; rw [← he]
    rw [h] at this; cases this
  · intro h
    cases hr : replay p ops with
    | none => rfl
    | some q =>
      have := (replay_iff_exec p q ops).mp hr
      rw [this] at h
      exact absurd rfl h

end Obao.InmemTxn

namespace Obao.InmemTxn
open Obao.SerialTxn

theorem slist_nonpos (s : Store) (p a : String) (l : Int) (h : l ≤ 0) : slist s p a l = slist s p a 0 := by
  unfold slist
  have : ¬ l > 0 := by omega
  simp [this]

/-- what one client operation does to a transaction: an error leaves it untouched; otherwise exactly one log entry
    is appended whose observation is the result the client saw, and whose spec operation behaves like the call -/
theorem apply_cases (t : Txn) (o : Op) :
    ((t.apply o).2.isErr = true ∧ (t.apply o).1 = t) ∨
    (∃ e : InmemOp, (t.apply o).1.operations = t.operations ++ [e] ∧ (t.apply o).2.agrees e.toObs ∧
        (∀ s, step s e.toOp = step s o) ∧ (step t.root o) = (e.toObs, (t.apply o).1.root) ∧
        (t.apply o).1.writable = t.writable ∧ (t.apply o).1.finished = t.finished ∧ t.finished = false) := by
  cases o with
  | get k =>
    simp only [Txn.apply, Txn.get]
    by_cases hf : t.finished = true
    · left; simp [hf, Res.isErr]
    · right; simp [hf, InmemOp.toObs, InmemOp.toOp, Res.agrees, step]
  | put k v =>
    simp only [Txn.apply, Txn.put]
    by_cases hw : t.writable = true
    · by_cases hf : t.finished = true
      · left; simp [hw, hf, Res.isErr]
      · right; simp [hw, hf, InmemOp.toObs, InmemOp.toOp, Res.agrees, step]
    · left; simp [hw, Res.isErr]
  | del k =>
    simp only [Txn.apply, Txn.delete]
    by_cases hw : t.writable = true
    · by_cases hf : t.finished = true
      · left; simp [hw, hf, Res.isErr]
      · right; simp [hw, hf, InmemOp.toObs, InmemOp.toOp, Res.agrees, step]
    · left; simp [hw, Res.isErr]
  | list p a l =>
    simp only [Txn.apply]
    by_cases hl : a = "" ∧ l = -1
    · simp only [hl, and_self, if_true, Txn.list]
      by_cases hf : t.finished = true
      · left; simp [hf, Res.isErr]
      · right
        obtain ⟨ha, hl⟩ := hl
        subst ha; subst hl
        have h0 : ∀ s : Store, slist s p "" 0 = slist s p "" (-1) := fun s => (slist_nonpos s p "" (-1) (by omega)).symm
        simp [hf, InmemOp.toObs, InmemOp.toOp, Res.agrees, step, h0]
    · simp only [hl, if_false, Txn.listPage]
      by_cases hf : t.finished = true
      · left; simp [hf, Res.isErr]
      · right; simp [hf, InmemOp.toObs, InmemOp.toOp, Res.agrees, step]

/-- invariant of an open transaction: its log, executed serially on the snapshot it began from, reproduces the
    logged observations and ends in the transaction's private tree -/
def ViewInv (snap : Store) (t : Txn) : Prop := exec snap t.logOps = (t.logObs, t.root)

theorem viewInv_apply (snap : Store) (t : Txn) (o : Op) (h : ViewInv snap t) : ViewInv snap (t.apply o).1 := by
  rcases apply_cases t o with ⟨_, he⟩ | ⟨e, hops, _, hstep, hroot, _⟩
  · rw [he]; exact h
  · unfold ViewInv Txn.logOps Txn.logObs at *
    rw [hops, List.map_append, List.map_append, exec_append, h]
    simp only [List.map_cons, List.map_nil, exec_single, hstep, hroot]

theorem viewInv_applyAll (snap : Store) (t : Txn) (ops : List Op) (h : ViewInv snap t) : ViewInv snap (t.applyAll ops) := by
  induction ops generalizing t with
  | nil => exact h
  | cons o r ih => exact ih _ (viewInv_apply snap t o h)

theorem apply_flags (t : Txn) (o : Op) : (t.apply o).1.writable = t.writable ∧ (t.apply o).1.finished = t.finished := by
  rcases apply_cases t o with ⟨_, he⟩ | ⟨e, _, _, _, _, hw, hf, _⟩
  · rw [he]; exact ⟨rfl, rfl⟩
  · exact ⟨hw, hf⟩

theorem applyAll_flags (t : Txn) (ops : List Op) : (t.applyAll ops).writable = t.writable ∧ (t.applyAll ops).finished = t.finished := by
  induction ops generalizing t with
  | nil => exact ⟨rfl, rfl⟩
  | cons o r ih =>
    have := apply_flags t o
    simp only [Txn.applyAll]
    rw [(ih _).1, (ih _).2]; exact this

theorem apply_root_other (t : Txn) (o : Op) (k : Key) (h : writesKey o k = false) :
    sget (t.apply o).1.root k = sget t.root k := by
  rcases apply_cases t o with ⟨_, he⟩ | ⟨e, _, _, _, hroot, _⟩
  · rw [he]
  · have : (t.apply o).1.root = (step t.root o).2 := by rw [hroot]
    rw [this]
    cases o with
    | get k' => simp [step]
    | list p a l => simp [step]
    | put k' v =>
      have hk : k ≠ k' := by
        intro hk; subst hk; simp [writesKey] at h
      simp [step, sget_sput_other _ _ _ _ hk]
    | del k' =>
      have hk : k ≠ k' := by
        intro hk; subst hk; simp [writesKey] at h
      simp [step, sget_sdel_other _ _ _ hk]

theorem applyAll_root_other (t : Txn) (ops : List Op) (k : Key) (h : ∀ o ∈ ops, writesKey o k = false) :
    sget (t.applyAll ops).root k = sget t.root k := by
  induction ops generalizing t with
  | nil => rfl
  | cons o r ih =>
    simp only [Txn.applyAll]
    rw [ih _ (fun o' ho' => h o' (List.mem_cons_of_mem _ ho'))]
    exact apply_root_other t o k (h o (List.mem_cons_self ..))

theorem replaySerial_append (s : Store) (h1 h2 : List CommitRec) :
    replaySerial s (h1 ++ h2) = (replaySerial s h1).bind (fun s' => replaySerial s' h2) := by
  induction h1 generalizing s with
  | nil => simp [replaySerial]
  | cons r rest ih =>
    simp only [List.cons_append, replaySerial]
    split
    · exact ih _
    · rfl

end Obao.InmemTxn
