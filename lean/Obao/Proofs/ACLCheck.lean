import Obao.Proofs.ACLMerge
/-! C03 helper lemmas: the `CHECK:` block evaluated on the merged permissions equals the declarative check over all
stanzas of the pattern. -/
namespace Obao.ACLProofs
open Obao.ACL Obao.ACLSpec

theorem bool_eq_of_iff {a b : Bool} (h : a = true ↔ b = true) : a = b := by
  cases a <;> cases b <;> simp_all

theorem isEmpty_iff_lookup (m : PMap) : m.isEmpty = true ↔ ∀ k, (m.lookup k).isSome = false := by
  cases m with
  | nil => simp
  | cons kv rest =>
    obtain ⟨k, v⟩ := kv
    simp only [List.isEmpty_cons, Bool.false_eq_true, false_iff]
    intro h
    have := h k
    simp [List.lookup_cons] at this

theorem pmEmpty_iff (sel : Perms → PMap) (rs : List Perms) : pmEmpty sel rs = true ↔ ∀ k, pmHas sel rs k = false := by
  unfold pmEmpty pmHas
  rw [List.all_eq_true]
  constructor
  · intro h k
    rw [Bool.eq_false_iff]
    intro hc
    rw [List.any_eq_true] at hc
    obtain ⟨p, hp, hk⟩ := hc
    have := (isEmpty_iff_lookup (sel p)).mp (h p hp) k
    simp_all
  · intro h p hp
    rw [isEmpty_iff_lookup]
    intro k
    have := h k
    rw [Bool.eq_false_iff] at this ⊢
    intro hc
    exact this (List.any_eq_true.mpr ⟨p, hp, hc⟩)

theorem PMAgrees.isEmpty_eq {mm : PMap} {sel : Perms → PMap} {rs : List Perms} (h : PMAgrees mm sel rs) :
    mm.isEmpty = pmEmpty sel rs := by
  apply bool_eq_of_iff
  rw [isEmpty_iff_lookup, pmEmpty_iff]
  constructor
  · intro hh k
    rw [← h.has k]; exact hh k
  · intro hh k
    rw [h.has k]; exact hh k

theorem length_one_star (m : PMap) (hn : (m.map (·.1)).Nodup) :
    (m.length == 1 && (m.lookup "*").isSome) = ((m.lookup "*").isSome && m.all fun kv => kv.1 == "*") := by
  match m with
  | [] => simp
  | [(k, v)] =>
    by_cases hk : k = "*"
    · subst hk; simp
    · have : ("*" == k) = false := by simp; exact fun h => hk h.symm
      simp [List.lookup_cons, this]
  | (k, v) :: (k', v') :: rest =>
    have h1 : (((k, v) :: (k', v') :: rest).length == 1) = false := by simp
    rw [h1, Bool.false_and]
    symm
    rw [Bool.eq_false_iff]
    intro hc
    simp only [Bool.and_eq_true, List.all_cons, beq_iff_eq] at hc
    obtain ⟨_, hk, hk', _⟩ := hc
    simp only [List.map_cons, List.nodup_cons, List.mem_cons] at hn
    exact hn.1 (Or.inl (hk.trans hk'.symm))

theorem all_star_iff (m : PMap) : (m.all fun kv => kv.1 == "*") = true ↔ ∀ k, (m.lookup k).isSome = true → k = "*" := by
  rw [List.all_eq_true]
  constructor
  · intro h k hk
    rw [lookup_isSome_iff_mem_keys] at hk
    obtain ⟨kv, hkv, rfl⟩ := List.mem_map.mp hk
    simpa using h kv hkv
  · intro h kv hkv
    have : (m.lookup kv.1).isSome = true := (lookup_isSome_iff_mem_keys m kv.1).mpr (List.mem_map.mpr ⟨kv, hkv, rfl⟩)
    simpa using h kv.1 this

theorem PMAgrees.onlyStar_eq {mm : PMap} {sel : Perms → PMap} {rs : List Perms} (h : PMAgrees mm sel rs) :
    (mm.length == 1 && (mm.lookup "*").isSome) = pmOnlyStar sel rs := by
  rw [length_one_star mm h.nodup]
  unfold pmOnlyStar
  rw [h.has "*"]
  congr 1
  apply bool_eq_of_iff
  rw [all_star_iff, List.all_eq_true]
  constructor
  · intro hh p hp
    rw [all_star_iff]
    intro k hk
    apply hh k
    rw [h.has k]
    unfold pmHas
    exact List.any_eq_true.mpr ⟨p, hp, hk⟩
  · intro hh k hk
    rw [h.has k] at hk
    unfold pmHas at hk
    obtain ⟨p, hp, hpk⟩ := List.any_eq_true.mp hk
    exact (all_star_iff (sel p)).mp (hh p hp) k hpk

/-- per request parameter: "its value is in the stored list" (or no list is stored) -/
theorem PMAgrees.accepts_eq {mm : PMap} {sel : Perms → PMap} {rs : List Perms} (h : PMAgrees mm sel rs)
    (k : String) (v : PVal) : valueListed mm k v = pmAccepts sel rs k v := by
  unfold valueListed
  cases hl : mm.lookup k with
  | none =>
    simp only
    have := h.has k
    rw [hl] at this
    symm
    rw [Bool.eq_false_iff]
    intro hc
    unfold pmAccepts at hc
    obtain ⟨p, hp, hpk⟩ := List.any_eq_true.mp hc
    have : pmHas sel rs k = true := by
      unfold pmHas
      refine List.any_eq_true.mpr ⟨p, hp, ?_⟩
      unfold valueListed at hpk
      cases hq : (sel p).lookup k with
      | none => simp [hq] at hpk
      | some _ => rfl
    simp_all
  | some vs => exact h.accepts k vs v hl

theorem checkParams_eq {m : Perms} {rs : List Perms} (h : Agrees m rs) (hd : anyDeny rs = false)
    (data : List (String × PVal)) : checkParams m data = specCheckParams rs data := by
  have hreq : (m.required.all fun r => (data.lookup (lower r)).isSome) =
      (rs.all fun p => p.required.all fun r => (data.lookup (lower r)).isSome) := by
    apply bool_eq_of_iff
    simp only [List.all_eq_true]
    constructor
    · intro hh p hp r hr
      exact hh r ((h.required hd r).mpr ⟨p, hp, hr⟩)
    · intro hh r hr
      obtain ⟨p, hp, hpr⟩ := (h.required hd r).mp hr
      exact hh p hp r hpr
  have hden := h.denied hd
  have hal := h.allowed hd
  have hdenBody : (data.all fun kv => !valueListed m.denied (lower kv.1) kv.2) =
      (data.all fun kv => !pmAccepts (·.denied) rs (lower kv.1) kv.2) := by
    congr 1
    funext kv
    rw [hden.accepts_eq]
  have halBody : (data.all fun kv => if (m.allowed.lookup (lower kv.1)).isSome then valueListed m.allowed (lower kv.1) kv.2
        else (m.allowed.lookup "*").isSome) =
      (data.all fun kv => if pmHas (·.allowed) rs (lower kv.1) then pmAccepts (·.allowed) rs (lower kv.1) kv.2
        else pmHas (·.allowed) rs "*") := by
    congr 1
    funext kv
    rw [hal.accepts_eq, hal.has, hal.has]
  unfold checkParams specCheckParams
  simp only [hreq, hden.isEmpty_eq, hden.has "*", hdenBody, hal.isEmpty_eq, hal.onlyStar_eq, halBody]

theorem paginate_norm (pag : Int) (b : Bool) (data : List (String × PVal)) :
    paginate pag b data = paginate (normPag pag) b data := by
  unfold paginate normPag
  by_cases h : pag > 0
  · simp [h]
  · have : ¬ (0 : Int) > 0 := by omega
    simp [h, this]

theorem checkPagination_eq {m : Perms} {rs : List Perms} (h : Agrees m rs) (hd : anyDeny rs = false)
    (data : List (String × PVal)) :
    checkPagination m data =
      paginate (minPos (rs.map (·.pag))) (rs.any fun p => p.required.any fun r => (lower r) == "limit") data := by
  unfold checkPagination
  have hreq : (m.required.any fun r => (lower r) == "limit") =
      (rs.any fun p => p.required.any fun r => (lower r) == "limit") := by
    apply bool_eq_of_iff
    simp only [List.any_eq_true]
    constructor
    · rintro ⟨r, hr, hl⟩
      obtain ⟨p, hp, hpr⟩ := (h.required hd r).mp hr
      exact ⟨p, hp, r, hpr, hl⟩
    · rintro ⟨p, hp, r, hpr, hl⟩
      exact ⟨r, (h.required hd r).mpr ⟨p, hp, hpr⟩, hl⟩
  rw [hreq, paginate_norm, h.pag hd]

theorem denyBits_testBit_opCap (op : Op) (i : Nat) (h : opCap op = some i) : denyBits.testBit i = false := by
  cases op <;> simp [opCap] at h <;> subst h <;> decide

theorem checkCore_deny (b1 b2 b1' b2' : Bool) (pg pg' : Option (Option PVal)) (req : Req) (cc : Bool) :
    checkCore denyBits b1 b2 pg req cc = checkCore denyBits b1' b2' pg' req cc := by
  unfold checkCore
  cases cc with
  | true => rfl
  | false =>
    simp only [Bool.false_eq_true, if_false]
    cases hop : opCap req.op with
    | none => rfl
    | some i => simp [denyBits_testBit_opCap req.op i hop]

/-- the decision computed from the merged record = the declarative decision over all stanzas of the pattern -/
theorem checkPerms_eq_specCheck {m : Perms} {rs : List Perms} (h : Agrees m rs) (req : Req) (cc : Bool) :
    checkPerms m req cc = specCheck rs req cc := by
  unfold checkPerms specCheck
  rw [h.caps]
  cases hd : anyDeny rs with
  | true =>
    have : specCaps rs = denyBits := by unfold specCaps; simp [hd]
    rw [this]
    exact checkCore_deny _ _ _ _ _ _ _ _
  | false =>
    rw [h.minTTL hd, h.maxTTL hd, checkParams_eq h hd, checkPagination_eq h hd]

end Obao.ACLProofs
