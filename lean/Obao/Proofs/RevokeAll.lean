import Obao.Proofs.RevokeOrphan
/-!
`Inv` along whole histories; absent tokens stay absent.
-/
namespace Obao.Revoke

/-- one request from an `Inv` state: `Inv` again, at most one more token, allocated absent tokens stay absent -/
theorem inv_req {s : St} (hI : Inv s) (f : Nat) (hF : 2 * s.next + 8 ≤ f) (q : Req) (hq : q.okAt s) :
    Inv (run (q.prog f) s).2 ∧ (run (q.prog f) s).2.next ≤ s.next + 1 ∧ s.next ≤ (run (q.prog f) s).2.next ∧
    (∀ x, x < s.next → s.ids x = none → q.recreates ≠ some x → (run (q.prog f) s).2.ids x = none) := by
  obtain ⟨g, rfl⟩ : ∃ g, f = g + 2 := ⟨f - 2, by omega⟩
  cases q with
  | create r orphan sk =>
    rw [run_create hI (g+1)]
    cases hr : (s.ids r).isSome with
    | false => exact ⟨hI, by simp, by simp, fun _ _ h _ => h⟩
    | true =>
      simp only [if_true]
      have hrn := hI.fi.idsB r hr
      refine ⟨inv_mkTokAt hI r s.next orphan true sk hr (Nat.le_refl _) hI.fresh hrn ?_, by simp [mkTokAt],
        by simp [mkTokAt], ?_⟩
      · intro c
        cases h : s.par s.next c with
        | false => rfl
        | true => have := hI.fi.edge_lt _ _ h; omega
      · intro x hx h _
        simp only [mkTokAt]
        split
        · omega
        · exact h
  | createId r x sk =>
    obtain ⟨hx0, hrx, hxn, hnopar⟩ := hq
    rw [run_createId hI (g+1) r x sk hxn]
    cases hr : (s.ids r).isSome with
    | false => exact ⟨hI, by simp, by simp, fun _ _ h _ => h⟩
    | true =>
      simp only [if_true]
      cases hxs : s.ids x with
      | some q =>
        have hne : x ≠ s.next := by
          intro h; subst h; rw [hI.fresh] at hxs; cases hxs
        simp only [Option.isSome_some, if_true, hne, if_false]
        exact ⟨hI, by simp, by simp, fun _ _ h _ => h⟩
      | none =>
        simp only [Option.isSome_none, Bool.false_eq_true, if_false]
        refine ⟨inv_mkTokAt hI r x false false sk hr hxn hxs hrx hnopar, ?_, ?_, ?_⟩
        · simp only [mkTokAt]; split <;> omega
        · simp only [mkTokAt]; split <;> omega
        · intro y hy h hrec
          have hyx : y ≠ x := fun h' => hrec (by rw [h']; rfl)
          simp only [mkTokAt, hyx, if_false]
          exact h
  | renew t =>
    rw [run_renew hI (g+1)]
    cases hr : (s.ids t).isSome with
    | false => exact ⟨hI, by simp, by simp, fun _ _ h _ => h⟩
    | true => exact ⟨inv_renewTok hI t hr, by simp [renewTok], by simp [renewTok], fun _ _ h _ => h⟩
  | cubby t k =>
    rw [run_cubby hI (g+1)]
    cases ht : s.ids t with
    | none => exact ⟨hI, by simp, by simp, fun _ _ h _ => h⟩
    | some e => exact ⟨inv_cubbyTok hI t k ht, by simp [cubbyTok], by simp [cubbyTok], fun _ _ h _ => h⟩
  | cubRead t k =>
    rw [run_cubRead hI (g+1)]
    exact ⟨hI, by simp, by simp, fun _ _ h _ => h⟩
  | lease t lk =>
    rw [run_lease hI (g+1)]
    cases hr : (s.ids t).isSome with
    | false => exact ⟨hI, by simp, by simp, fun _ _ h _ => h⟩
    | true => exact ⟨inv_leaseTok hI t lk hr, by simp [leaseTok], by simp [leaseTok], fun _ _ h _ => h⟩
  | lookupSelf t =>
    rw [run_lookupSelf hI (g+1)]
    exact ⟨hI, by simp, by simp, fun _ _ h _ => h⟩
  | revokeOrphan r t =>
    rw [run_revokeOrphan hI g (by omega)]
    cases hr : (s.ids r).isSome with
    | false => exact ⟨hI, by simp, by simp, fun _ _ h _ => h⟩
    | true =>
      simp only [if_true]
      cases ht : s.ids t with
      | none => exact ⟨hI, by simp, by simp, fun _ _ h _ => h⟩
      | some e =>
        refine ⟨inv_orphanSt hI ht, by simp [orphanSt, orphanL], by simp [orphanSt, orphanL], ?_⟩
        intro x _ h _
        show (if x ∈ s.children t then ((purge1 t e s).ids x).map orphanE else (purge1 t e s).ids x) = none
        simp only [purge1_ids]
        split <;> split <;> simp [h]
  | revoke r t =>
    have hc := run_cascade hI (g+2) hF (.revoke r t) t rfl hq
    exact ⟨cascade_inv hI _ hF _ t rfl hq, by rw [cascade_next hI _ hF _ t rfl hq]; omega,
      by rw [cascade_next hI _ hF _ t rfl hq]; omega, by
        intro x _ h _
        rcases hc with ⟨r', hr', _⟩ | ⟨σ, hr', _, hpost⟩
        · rw [hr']; exact h
        · rw [hr']
          rcases hpost.sh.ids x with h' | h'
          · rw [h']; exact h
          · exact h'.1⟩
  | revokeSelf t =>
    have hc := run_cascade hI (g+2) hF (.revokeSelf t) t rfl hq
    exact ⟨cascade_inv hI _ hF _ t rfl hq, by rw [cascade_next hI _ hF _ t rfl hq]; omega,
      by rw [cascade_next hI _ hF _ t rfl hq]; omega, by
        intro x _ h _
        rcases hc with ⟨r', hr', _⟩ | ⟨σ, hr', _, hpost⟩
        · rw [hr']; exact h
        · rw [hr']
          rcases hpost.sh.ids x with h' | h'
          · rw [h']; exact h
          · exact h'.1⟩
  | revokeAcc r t =>
    have hc := run_cascade hI (g+2) hF (.revokeAcc r t) t rfl hq
    exact ⟨cascade_inv hI _ hF _ t rfl hq, by rw [cascade_next hI _ hF _ t rfl hq]; omega,
      by rw [cascade_next hI _ hF _ t rfl hq]; omega, by
        intro x _ h _
        rcases hc with ⟨r', hr', _⟩ | ⟨σ, hr', _, hpost⟩
        · rw [hr']; exact h
        · rw [hr']
          rcases hpost.sh.ids x with h' | h'
          · rw [h']; exact h
          · exact h'.1⟩
  | revokeLease r t =>
    have hc := run_cascade hI (g+2) hF (.revokeLease r t) t rfl hq
    exact ⟨cascade_inv hI _ hF _ t rfl hq, by rw [cascade_next hI _ hF _ t rfl hq]; omega,
      by rw [cascade_next hI _ hF _ t rfl hq]; omega, by
        intro x _ h _
        rcases hc with ⟨r', hr', _⟩ | ⟨σ, hr', _, hpost⟩
        · rw [hr']; exact h
        · rw [hr']
          rcases hpost.sh.ids x with h' | h'
          · rw [h']; exact h
          · exact h'.1⟩

theorem inv_hstep {s : St} (hI : Inv s) (f : Nat) (hF : 2 * s.next + 8 ≤ f) (st : HStep) (hq : st.okAt s) :
    Inv (st.apply f s) ∧ (st.apply f s).next ≤ s.next + 1 ∧ s.next ≤ (st.apply f s).next ∧
    (∀ x, x < s.next → s.ids x = none → st.recreates ≠ some x → (st.apply f s).ids x = none) := by
  cases st with
  | req q => exact inv_req hI f hF q hq
  | settle => exact ⟨inv_settle hI, by simp [HStep.apply, St.settle], by simp [HStep.apply, St.settle], fun _ _ h _ => h⟩

/-- along a whole history (fuel covering the tokens it can create) -/
theorem inv_hist (h : List HStep) : ∀ (s : St) (f : Nat), Inv s → HistOK f h s →
    2 * (s.next + h.length) + 8 ≤ f →
    Inv (runHist f h s) ∧ (runHist f h s).next ≤ s.next + h.length ∧ s.next ≤ (runHist f h s).next ∧
    (∀ x, x < s.next → s.ids x = none → (∀ st ∈ h, st.recreates ≠ some x) → (runHist f h s).ids x = none) := by
  induction h with
  | nil => intro s f hI _ _; exact ⟨hI, by simp [runHist], by simp [runHist], fun _ _ h _ => h⟩
  | cons st rest ih =>
    intro s f hI hrf hF
    simp only [List.length_cons] at hF
    obtain ⟨h1, h2, h3, h4⟩ := inv_hstep hI f (by omega) st hrf.1
    obtain ⟨k1, k2, k3, k4⟩ := ih (st.apply f s) f h1 hrf.2 (by omega)
    simp only [runHist, List.foldl_cons, List.length_cons] at *
    refine ⟨k1, by omega, by omega, ?_⟩
    intro x hx hn hrec
    exact k4 x (by omega) (h4 x hx hn (hrec st (List.mem_cons_self ..)))
      (fun st' hst' => hrec st' (List.mem_cons_of_mem _ hst'))

theorem histOK_append (f : Nat) (h1 h2 : List HStep) (s : St) :
    HistOK f (h1 ++ h2) s ↔ HistOK f h1 s ∧ HistOK f h2 (runHist f h1 s) := by
  induction h1 generalizing s with
  | nil => simp [HistOK, runHist]
  | cons st rest ih =>
    simp only [List.cons_append, HistOK, ih, runHist, List.foldl_cons]
    exact and_assoc.symm

theorem runHist_append (f : Nat) (h1 h2 : List HStep) (s : St) :
    runHist f (h1 ++ h2) s = runHist f h2 (runHist f h1 s) := by
  simp [runHist, List.foldl_append]

/-- a token without an entry is refused by request authentication -/
theorem Inv.unusable {s : St} (hI : Inv s) (f x : Nat) (hx : s.ids x = none) : (usable (f+1) x s).1 = false := by
  unfold usable
  rw [hI.run_auth, hx]
  rfl

end Obao.Revoke

namespace Obao.Revoke

/-! ### finality of the marker under faults, crashes and restarts -/

theorem run_keeps {p : Nat} {a : Prog α} (h : Always (Op.keepsGone p) a) {s : St} (hs : ParentGone p s) :
    ParentGone p (run a s).2 := by
  induction h generalizing s with
  | ret => exact hs
  | @io o k ho hk ih => rw [run_io]; exact ih _ (exec_keepsGone ho hs)

theorem runFault_keeps {p : Nat} {a : Prog α} (h : Always (Op.keepsGone p) a) (n : Nat) {s : St}
    (hs : ParentGone p s) : ParentGone p (runFault n a s).2 := by
  induction h generalizing s n with
  | ret => cases n <;> exact hs
  | @io o k ho hk ih =>
    unfold runFault
    split
    · cases n with
      | zero => exact run_keeps (hk _) hs
      | succ n => exact ih _ n (exec_keepsGone ho hs)
    · exact ih _ n (exec_keepsGone ho hs)

theorem runCrash_keeps {p : Nat} {a : Prog α} (h : Always (Op.keepsGone p) a) (n : Nat) {s : St}
    (hs : ParentGone p s) : ParentGone p (runCrash n a s) := by
  induction h generalizing s n with
  | ret => cases n <;> exact hs
  | @io o k ho hk ih =>
    cases n with
    | zero => exact hs
    | succ n =>
      unfold runCrash
      simp only
      split
      · exact ih _ n (exec_keepsGone ho hs)
      · exact ih _ (n+1) (exec_keepsGone ho hs)

/-- a token whose entry is marked or gone is refused by request authentication — in ANY state -/
theorem gone_unusable (f x : Nat) {s : St} (hs : ParentGone x s) : (usable (f+1) x s).1 = false := by
  have hl : run (lookup (f+1) x false) s = (.ok none, s) := by
    unfold lookup
    simp only [bind_eq, pure_eq, run_bind, run_getTok]
    cases h : s.ids x with
    | none => rfl
    | some e => simp [hs e h]
  unfold usable auth
  simp only [bind_eq, pure_eq, run_bind, hl]
  rfl

theorem restart_keeps {p : Nat} {s : St} (hs : ParentGone p s) : ParentGone p s.restart := hs

/-- beyond the program's last write a crash prefix is the whole run -/
theorem runCrash_full (a : Prog α) : ∀ s, ∃ K, ∀ k, K ≤ k → runCrash k a s = (run a s).2 := by
  induction a with
  | ret r => intro s; exact ⟨0, fun k _ => by cases k <;> rfl⟩
  | io o c ih =>
    intro s
    obtain ⟨K, hK⟩ := ih (exec o s).2 (exec o s).1
    refine ⟨K + 1, fun k hk => ?_⟩
    obtain ⟨k', rfl⟩ : ∃ k', k = k' + 1 := ⟨k - 1, by omega⟩
    unfold runCrash
    simp only [run_io]
    split
    · exact hK k' (by omega)
    · exact hK (k'+1) (by omega)

theorem dead_restart {s : St} {x : Nat} (h : Dead s x) : Dead s.restart x :=
  ⟨h.noEntry, h.noLease, h.noAcc, h.noCub, h.leases⟩

theorem inv_restart {s : St} (hI : Inv s) : Inv s.restart := by
  refine ⟨⟨hI.fi.edge_lt, hI.fi.edge_live, hI.fi.entry_edge, hI.fi.idsB, ?_, hI.fi.cubB, hI.fi.cubOwn, hI.fi.entryWf,
    hI.fi.tixB, hI.fi.slIx⟩, hI.unmarked, hI.lease, hI.acc, fun _ => rfl, fun x hx => dead_restart (hI.deadClean x hx), hI.parentLive, fun _ h => by cases h⟩
  intro x e h
  refine ⟨by simp [St.restart], fun h0 => ?_, fun h' => h'⟩
  show s.tl x = some false
  exact hI.lease x e h h0


/-- outcome of a successful `revoke-orphan` from an `Inv` state -/
theorem orphan_outcome {s : St} (hI : Inv s) (f : Nat) (hF : 2 * s.next + 8 ≤ f) (r t : Nat)
    (hok : okB (run ((Req.revokeOrphan r t).prog f) s).1 = true) :
    Dead (run ((Req.revokeOrphan r t).prog f) s).2 t ∧
    (∀ c ec, s.ids c = some ec → ec.parent = some t →
      (run ((Req.revokeOrphan r t).prog f) s).2.ids c = some { ec with parent := none }) := by
  obtain ⟨g, rfl⟩ : ∃ g, f = g + 2 := ⟨f - 2, by omega⟩
  rw [run_revokeOrphan hI g (by omega)] at hok ⊢
  cases hr : (s.ids r).isSome with
  | false => rw [hr] at hok; cases hok
  | true =>
    simp only [hr, if_true] at hok ⊢
    cases ht : s.ids t with
    | none => rw [ht] at hok; cases hok
    | some e =>
      simp only
      have hI' := inv_orphanSt hI ht
      have hts : (s.ids t).isSome := by simp [ht]
      have htcs : t ∉ s.children t := fun h => by have := (hI.child_facts hts t h).2; omega
      have hnone : (orphanSt t e s).ids t = none := by
        show (if t ∈ s.children t then ((purge1 t e s).ids t).map orphanE else (purge1 t e s).ids t) = none
        simp [htcs]
      refine ⟨hI'.deadClean t hnone, ?_⟩
      intro c ec hc hpar
      have hp := hI.fi.entry_edge c ec t hc hpar
      have hlt := hI.fi.edge_lt t c hp
      have hmem : c ∈ s.children t := (mem_children s t c).mpr ⟨hlt.2, hp⟩
      have hct : c ≠ t := by omega
      show (if c ∈ s.children t then ((purge1 t e s).ids c).map orphanE else (purge1 t e s).ids c) = _
      simp [hmem, hct, hc, orphanE]


/-- descendants that survived a partial purge are still descendants -/
theorem desc_shrink {s σ : St} (hI : Inv s) (hs : Shrink s σ)
    (hclosed : ∀ y, (s.ids y).isSome → σ.ids y = none → ∀ c, s.par y c = true → σ.ids c = none) {t : Nat} :
    ∀ x, Desc s t x → (σ.ids x).isSome → Desc σ t x := by
  intro x hx
  induction hx with
  | self => intro _; exact .self
  | @child c p e _ hc hpar ih =>
    intro hlive
    have hcσ : σ.ids c = some e := by
      rcases hs.ids c with h | h
      · rw [h]; exact hc
      · rw [h.1] at hlive; cases hlive
    have hp : (σ.ids p).isSome := by
      cases hσp : σ.ids p with
      | some _ => rfl
      | none =>
        have := hclosed p (hI.parentLive c e p hc hpar) hσp c (hI.fi.entry_edge c e p hc hpar)
        rw [this] at hcσ; cases hcσ
    exact .child (ih hp) hcσ hpar

/-- retry from a state in which some complete leaf revocations of the first attempt have happened -/
theorem cascade_after_partial {s σ : St} (hI : Inv s) (hIσ : Inv σ) (hs : Shrink s σ)
    (hclosed : ∀ y, (s.ids y).isSome → σ.ids y = none → ∀ c, s.par y c = true → σ.ids c = none)
    (f : Nat) (hF : 2 * σ.next + 8 ≤ f) (q : Req) (t : Nat) (hq : q.cascadeTarget = some t) (ht0 : t ≠ 0)
    (hok : okB (run (q.prog f) σ).1 = true) :
    ∀ x, Desc s t x → Dead (run (q.prog f) σ).2 x := by
  intro x hx
  have hrf : q.okAt σ ∧ q.recreates = none := by
    cases q <;> simp only [Req.cascadeTarget, Option.some.injEq] at hq <;>
      first | contradiction | (subst hq; exact ⟨ht0, rfl⟩)
  obtain ⟨hI', _, _, hkeep⟩ := inv_req hIσ f hF q hrf.1
  cases hσx : σ.ids x with
  | some e =>
    exact cascade_dead hIσ f hF q t hq ht0 hok x (desc_shrink hI hs hclosed x hx (by simp [hσx]))
  | none =>
    have hnone : (run (q.prog f) σ).2.ids x = none := by
      by_cases hlt : x < σ.next
      · exact hkeep x hlt hσx (by rw [hrf.2]; intro h; cases h)
      · cases h : (run (q.prog f) σ).2.ids x with
        | none => rfl
        | some e' =>
          have := hI'.fi.idsB x (by simp [h])
          rw [cascade_next hIσ f hF q t hq ht0] at this
          omega
    exact hI'.deadClean x hnone


/-- `σ` is `s` except for the in-memory `tokensPendingDeletion` map -/
structure SameButPend (s σ : St) : Prop where
  next : σ.next = s.next
  nextL : σ.nextL = s.nextL
  kmax : σ.kmax = s.kmax
  ids : σ.ids = s.ids
  acc : σ.acc = s.acc
  par : σ.par = s.par
  tl : σ.tl = s.tl
  sl : σ.sl = s.sl
  tix : σ.tix = s.tix
  cub : σ.cub = s.cub
  cache : σ.cache = s.cache
  skey : σ.skey = s.skey
  lkey : σ.lkey = s.lkey

theorem inv_sameButPend {s σ : St} (hI : Inv s) (h : SameButPend s σ) (hp : ∀ k, σ.pend k ≠ some true) : Inv σ := by
  obtain ⟨h1, h2, h3, h4, h5, h6, h7, h8, h9, h10, h11, h12, h13⟩ := h
  refine ⟨⟨?_, ?_, ?_, ?_, ?_, ?_, ?_, ?_, ?_, ?_⟩, ?_, ?_, ?_, ?_, ?_, ?_, hp⟩
  · rw [h6, h1]; exact hI.fi.edge_lt
  · rw [h6, h4]; exact hI.fi.edge_live
  · rw [h6, h4]; exact hI.fi.entry_edge
  · rw [h4, h1]; exact hI.fi.idsB
  · intro x e he
    rw [h4] at he
    have := hI.fi.tok x e he
    exact ⟨hp _, by rw [h11]; exact this.cache, by rw [h7, h11]; exact this.tlc⟩
  · rw [h10, h3]; exact hI.fi.cubB
  · rw [h10, h4]; exact hI.fi.cubOwn
  · rw [h4]; exact hI.fi.entryWf
  · rw [h9, h2]; exact hI.fi.tixB
  · rw [h8, h9]; exact hI.fi.slIx
  · rw [h4]; exact hI.unmarked
  · rw [h4, h7]; exact hI.lease
  · rw [h4, h5]; exact hI.acc
  · rw [h11, h7]; exact hI.cacheEq
  · intro x hx
    rw [h4] at hx
    have hd := hI.deadClean x hx
    exact ⟨by rw [h4]; exact hd.noEntry, by rw [h7]; exact hd.noLease, by rw [h5]; exact hd.noAcc,
      by rw [h10]; exact hd.noCub, by rw [h8]; exact hd.leases⟩
  · rw [h4]; exact hI.parentLive

theorem desc_sameButPend {s σ : St} (h : SameButPend s σ) {t x : Nat} (hx : Desc s t x) : Desc σ t x := by
  induction hx with
  | self => exact .self
  | child _ hc hp ih => exact .child ih (by rw [h.ids]; exact hc) hp

end Obao.Revoke
