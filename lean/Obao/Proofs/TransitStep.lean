import Obao.Proofs.TransitInv
/-! The state invariant of the transit model and its preservation by every fault-free operation. -/
namespace Obao.Transit

structure Inv (st : St) : Prop where
  pol : ∀ p, st.pol = some p → PInv p st.archive
  noPol : st.pol = none → st.archive = []
  /-- every artifact was made with a key generated for the version in its prefix -/
  arts : ∀ a ∈ st.arts, a.key.1 = a.ver ∧ 1 ≤ a.ver
  backups : ∀ b ∈ st.backups, PInv b.1 b.2
  noFault : st.failPut = 0

theorem inv_init : Inv init :=
  ⟨(by intro p h; cases h), fun _ => rfl, (by intro a h; cases h), (by intro b h; cases h), rfl⟩

theorem PInv.kget_ver {p : Policy} {a : List Key} (h : PInv p a) {v : Nat} {k : Key} (hk : kget p.keys v = some k) :
    k.1 = v ∧ p.minDec ≤ v ∧ v ≤ p.latest ∧ 1 ≤ v := by
  have hd := (h.keysDom v).1 (by simp [hk])
  obtain ⟨k', hk', _, hv⟩ := h.keyAt hd.1 hd.2
  rw [hk] at hk'; cases hk'
  exact ⟨hv, hd.1, hd.2, by have := h.decPos; omega⟩

/-! ### creation -/

theorem persist_fresh (t : KType) (d c e pb da : Bool) (k : Key) :
    persist { ktype := t, derived := d, convergent := c, latest := 1, minDec := 1, minEnc := 0, minAvail := 0,
              archiveVer := 0, archiveMin := 0, keys := [(1, k)], exportable := e, plainBackup := pb,
              deletionAllowed := da } [] 0
      = .ok { ktype := t, derived := d, convergent := c, latest := 1, minDec := 1, minEnc := 0, minAvail := 0,
              archiveVer := 1, archiveMin := 0, keys := [(1, k)], exportable := e, plainBackup := pb,
              deletionAllowed := da } [emptyKey, k] := by
  simp [persist, kget, List.lookup, verRange, toArchive, kdelRange, List.replicate]

theorem pinv_fresh (t : KType) (d c e pb da : Bool) (k : Key) (hk : k.1 = 1) :
    PInv { ktype := t, derived := d, convergent := c, latest := 1, minDec := 1, minEnc := 0, minAvail := 0,
           archiveVer := 1, archiveMin := 0, keys := [(1, k)], exportable := e, plainBackup := pb,
           deletionAllowed := da } [emptyKey, k] := by
  refine ⟨by simp, by simp, Or.inl rfl, by simp, by simp, by simp, rfl, rfl, rfl, by simp, ?_, ?_⟩
  · intro v
    simp only [kget_cons, kget_nil]
    by_cases hv : v = 1
    · subst hv; simp
    · rw [if_neg hv, if_neg (by omega)]
  · intro v h1 _ h3
    have : v = 1 := by simp only at h3; omega
    subst this
    exact ⟨k, rfl, hk⟩

/-- a state that differs only in `nextKey` / `failPut := 0` is still consistent -/
theorem Inv.congr {st st' : St} (h : Inv st) (h1 : st'.pol = st.pol) (h2 : st'.archive = st.archive)
    (h3 : st'.arts = st.arts) (h4 : st'.backups = st.backups) (h5 : st'.failPut = 0) : Inv st' :=
  ⟨(by rw [h1, h2]; exact h.pol), (by rw [h1, h2]; exact h.noPol), (by rw [h3]; exact h.arts),
   (by rw [h4]; exact h.backups), h5⟩

/-- replacing policy and archive by a consistent pair -/
theorem Inv.setPol {st st' : St} (h : Inv st) {p : Policy} (hp : st'.pol = some p) (hi : PInv p st'.archive)
    (h3 : st'.arts = st.arts) (h4 : st'.backups = st.backups) (h5 : st'.failPut = 0) : Inv st' :=
  ⟨(by intro q hq; rw [hp] at hq; cases hq; exact hi), (by intro hn; rw [hp] at hn; cases hn),
   (by rw [h3]; exact h.arts), (by rw [h4]; exact h.backups), h5⟩

theorem inv_new {st : St} (h : Inv st) (t : KType) (d c : Bool) : Inv (newPolicy st t d c).1 := by
  unfold newPolicy
  cases hp : st.pol with
  | some p => exact h.congr (by simp [hp]) rfl rfl rfl rfl
  | none =>
    simp only
    by_cases hb : badParams t d c = true
    · rw [if_pos hb]; exact h.congr (by simp [hp]) rfl rfl rfl rfl
    · rw [if_neg hb, h.noPol hp, h.noFault, persist_fresh]
      exact h.setPol rfl (pinv_fresh _ _ _ _ _ _ _ rfl) rfl rfl rfl

theorem inv_rotate {st : St} (h : Inv st) : Inv (rotate st).1 := by
  unfold rotate
  cases hp : st.pol with
  | none => exact h.congr (by simp [hp]) rfl rfl rfl rfl
  | some p =>
    have hi := h.pol p hp
    have := persist_rotate hi (p.latest + 1, st.nextKey)
    simp only [rotated] at this
    simp only [h.noFault, this]
    exact h.setPol rfl (persist_rotate_inv hi _ rfl) rfl rfl rfl

/-! ### configuration -/

/-- `q` is `p` with at most `minDec`, `minEnc` and the three flags changed -/
structure CfgUpd (p q : Policy) : Prop where
  ring : SameRing p q
  ktype : q.ktype = p.ktype
  derived : q.derived = p.derived
  convergent : q.convergent = p.convergent

theorem CfgUpd.refl (p : Policy) : CfgUpd p p := ⟨⟨rfl, rfl, rfl, rfl, rfl⟩, rfl, rfl, rfl⟩

theorem cfgDec_spec {p q : Policy} {dec : Option Int} {b : Bool} (h1 : 1 ≤ p.minDec) (h2 : p.minDec ≤ p.latest)
    (hr : cfgDec p dec = .ok (q, b)) :
    CfgUpd p q ∧ q.minEnc = p.minEnc ∧ 1 ≤ q.minDec ∧ q.minDec ≤ p.latest ∧ (b = false → q = p) := by
  cases dec with
  | none => simp only [cfgDec] at hr; cases hr; exact ⟨CfgUpd.refl _, rfl, h1, h2, fun _ => rfl⟩
  | some d =>
    simp only [cfgDec] at hr
    by_cases hneg : d < 0
    · rw [if_pos hneg] at hr; cases hr
    · rw [if_neg hneg] at hr
      generalize hd : (if d = 0 then 1 else d.toNat) = d' at hr
      have hd1 : 1 ≤ d' := by rw [← hd]; split <;> omega
      by_cases hne : d' ≠ p.minDec
      · rw [if_pos hne] at hr
        by_cases hgt : d' > p.latest
        · rw [if_pos hgt] at hr; cases hr
        · rw [if_neg hgt] at hr; cases hr
          exact ⟨⟨⟨rfl, rfl, rfl, rfl, rfl⟩, rfl, rfl, rfl⟩, rfl, hd1, by simp only; omega, fun hb => by cases hb⟩
      · rw [if_neg hne] at hr; cases hr; exact ⟨CfgUpd.refl _, rfl, h1, h2, fun _ => rfl⟩

theorem cfgEnc_spec {p q : Policy} {enc : Option Int} {pn b : Bool} (h2 : p.minEnc ≤ p.latest)
    (hr : cfgEnc p pn enc = .ok (q, b)) :
    CfgUpd p q ∧ q.minDec = p.minDec ∧ q.minEnc ≤ p.latest ∧ (b = false → q = p ∧ pn = false) := by
  cases enc with
  | none => simp only [cfgEnc] at hr; cases hr; exact ⟨CfgUpd.refl _, rfl, h2, fun hb => ⟨rfl, hb⟩⟩
  | some e =>
    simp only [cfgEnc] at hr
    by_cases hneg : e < 0
    · rw [if_pos hneg] at hr; cases hr
    · rw [if_neg hneg] at hr
      by_cases hne : e.toNat ≠ p.minEnc
      · rw [if_pos hne] at hr
        by_cases hgt : e.toNat > p.latest
        · rw [if_pos hgt] at hr; cases hr
        · rw [if_neg hgt] at hr; cases hr
          exact ⟨⟨⟨rfl, rfl, rfl, rfl, rfl⟩, rfl, rfl, rfl⟩, rfl, by simp only; omega, fun hb => by cases hb⟩
      · rw [if_neg hne] at hr; cases hr; exact ⟨CfgUpd.refl _, rfl, h2, fun hb => ⟨rfl, hb⟩⟩

/-- a flag block: the ring, `minDec` and `minEnc` are untouched; `persistNeeded` stays false only if nothing changed -/
def FlagUpd (p : Policy) (pn : Bool) (r : Policy × Bool) : Prop :=
  CfgUpd p r.1 ∧ r.1.minDec = p.minDec ∧ r.1.minEnc = p.minEnc ∧ (r.2 = false → r.1 = p ∧ pn = false)

theorem FlagUpd.same (p : Policy) (pn : Bool) : FlagUpd p pn (p, pn) :=
  ⟨CfgUpd.refl _, rfl, rfl, fun hb => ⟨rfl, hb⟩⟩

theorem cfgDel_spec (p : Policy) (pn : Bool) (del : Option Bool) : FlagUpd p pn (cfgDel p pn del) := by
  cases del with
  | none => exact FlagUpd.same _ _
  | some b =>
    simp only [cfgDel]
    split
    · exact ⟨⟨⟨rfl, rfl, rfl, rfl, rfl⟩, rfl, rfl, rfl⟩, rfl, rfl, fun hb => by cases hb⟩
    · exact FlagUpd.same _ _

theorem cfgDecZero_spec (p : Policy) (pn : Bool) (h1 : 1 ≤ p.minDec) : FlagUpd p pn (cfgDecZero p pn) := by
  unfold cfgDecZero
  rw [if_neg (by omega)]
  exact FlagUpd.same _ _

theorem cfgExp_spec (p : Policy) (pn : Bool) (e : Option Bool) : FlagUpd p pn (cfgExp p pn e) := by
  unfold cfgExp
  split
  · split
    · exact ⟨⟨⟨rfl, rfl, rfl, rfl, rfl⟩, rfl, rfl, rfl⟩, rfl, rfl, fun hb => by cases hb⟩
    · exact FlagUpd.same _ _
  · exact FlagUpd.same _ _

theorem cfgApb_spec (p : Policy) (pn : Bool) (e : Option Bool) : FlagUpd p pn (cfgApb p pn e) := by
  unfold cfgApb
  split
  · split
    · exact ⟨⟨⟨rfl, rfl, rfl, rfl, rfl⟩, rfl, rfl, rfl⟩, rfl, rfl, fun hb => by cases hb⟩
    · exact FlagUpd.same _ _
  · exact FlagUpd.same _ _

theorem CfgUpd.trans {p q r : Policy} (h1 : CfgUpd p q) (h2 : CfgUpd q r) : CfgUpd p r :=
  ⟨⟨h2.ring.keys.trans h1.ring.keys, h2.ring.latest.trans h1.ring.latest, h2.ring.minAvail.trans h1.ring.minAvail,
    h2.ring.archiveVer.trans h1.ring.archiveVer, h2.ring.archiveMin.trans h1.ring.archiveMin⟩,
   h2.ktype.trans h1.ktype, h2.derived.trans h1.derived, h2.convergent.trans h1.convergent⟩

theorem FlagUpd.trans {p : Policy} {pn : Bool} {r : Policy × Bool} {r' : Policy × Bool}
    (h1 : FlagUpd p pn r) (h2 : FlagUpd r.1 r.2 r') : FlagUpd p pn r' := by
  obtain ⟨a1, a2, a3, a4⟩ := h1
  obtain ⟨b1, b2, b3, b4⟩ := h2
  refine ⟨a1.trans b1, b2.trans a2, b3.trans a3, fun hb => ?_⟩
  obtain ⟨e1, e2⟩ := b4 hb
  obtain ⟨e3, e4⟩ := a4 e2
  exact ⟨e1.trans e3, e4⟩

theorem cfgFlags_spec (p : Policy) (pn : Bool) (del exp apb : Option Bool) (h1 : 1 ≤ p.minDec) :
    FlagUpd p pn (cfgFlags p pn del exp apb) := by
  unfold cfgFlags
  have s3 := cfgDel_spec p pn del
  have s4 := cfgDecZero_spec (cfgDel p pn del).1 (cfgDel p pn del).2 (by rw [s3.2.1]; exact h1)
  have s5 := cfgExp_spec (cfgDecZero (cfgDel p pn del).1 (cfgDel p pn del).2).1
    (cfgDecZero (cfgDel p pn del).1 (cfgDel p pn del).2).2 exp
  exact (s3.trans s4).trans (s5.trans (cfgApb_spec _ _ apb))

/-- what the configuration endpoint hands to `Persist` (or keeps, when nothing is to be persisted) -/
theorem cfgTarget_spec {p q : Policy} {a : List Key} (h : PInv p a) {dec enc : Option Int} {del exp apb : Option Bool}
    {pn : Bool} (hr : cfgTarget p dec enc del exp apb = .ok (q, pn)) :
    CfgUpd p q ∧ (pn = false → q = p) ∧
      (pn = true → 1 ≤ q.minDec ∧ q.minDec ≤ q.latest ∧ (q.minEnc = 0 ∨ q.minDec ≤ q.minEnc) ∧ q.minEnc ≤ q.latest ∧
        q.minAvail ≤ q.minDec ∧ q.minAvail ≤ q.minEnc) := by
  unfold cfgTarget at hr
  cases h1 : cfgDec p dec with
  | error c => rw [h1] at hr; cases hr
  | ok r1 =>
    obtain ⟨p1, pn1⟩ := r1
    rw [h1] at hr
    obtain ⟨u1, e1, d1, d2, b1⟩ := cfgDec_spec h.decPos h.decLe h1
    simp only at hr
    cases h2 : cfgEnc p1 pn1 enc with
    | error c => rw [h2] at hr; cases hr
    | ok r2 =>
      obtain ⟨p2, pn2⟩ := r2
      rw [h2] at hr
      obtain ⟨u2, e2, d3, b2⟩ := cfgEnc_spec (by rw [e1, u1.ring.latest]; exact h.encLe) h2
      simp only at hr
      by_cases hg : p2.minEnc > 0 ∧ p2.minEnc < p2.minDec
      · rw [if_pos hg] at hr; cases hr
      · rw [if_neg hg] at hr
        have f := cfgFlags_spec p2 pn2 del exp apb (by rw [e2]; exact d1)
        generalize cfgFlags p2 pn2 del exp apb = r6 at hr f
        obtain ⟨p6, pn6⟩ := r6
        obtain ⟨u6, m1, m2, b6⟩ := f
        simp only at hr u6 m1 m2 b6
        have hu : CfgUpd p p6 := (u1.trans u2).trans u6
        by_cases hpn : (!pn6) = true
        · rw [if_pos hpn] at hr; cases hr
          have : pn6 = false := by simpa using hpn
          refine ⟨hu, fun _ => ?_, (fun hc => by cases hc)⟩
          obtain ⟨x1, x2⟩ := b6 this
          obtain ⟨x3, x4⟩ := b2 x2
          exact x1.trans (x3.trans (b1 x4))
        · rw [if_neg hpn] at hr
          by_cases ha1 : p6.minAvail > p6.minEnc
          · rw [if_pos ha1] at hr; cases hr
          · rw [if_neg ha1] at hr
            by_cases ha2 : p6.minAvail > p6.minDec
            · rw [if_pos ha2] at hr; cases hr
            · rw [if_neg ha2] at hr; cases hr
              refine ⟨hu, (fun hc => by cases hc), fun _ => ?_⟩
              have l1 : q.latest = p.latest := hu.ring.latest
              have l2 : p1.latest = p.latest := u1.ring.latest
              refine ⟨by omega, by omega, by omega, by omega, by omega, by omega⟩

theorem inv_config {st : St} (h : Inv st) (dec enc : Option Int) (del exp apb : Option Bool) :
    Inv (config st dec enc del exp apb).1 := by
  unfold config
  cases hp : st.pol with
  | none => exact h.congr (by simp [hp]) rfl rfl rfl rfl
  | some p =>
    have hi := h.pol p hp
    simp only
    cases ht : cfgTarget p dec enc del exp apb with
    | error c => exact h.congr (by simp [hp]) rfl rfl rfl rfl
    | ok r =>
      obtain ⟨q, pn⟩ := r
      obtain ⟨hu, hf, ht'⟩ := cfgTarget_spec hi ht
      cases pn with
      | false =>
        simp only
        rw [hf rfl]
        exact h.congr (by simp [hp]) rfl rfl rfl rfl
      | true =>
        obtain ⟨c1, c2, c3, c4, c5, c6⟩ := ht' rfl
        obtain ⟨ks, hks, hinv⟩ := persist_cfg hi hu.ring c1 c2 c3 c4 c5 c6
        simp only [h.noFault, hks]
        exact h.setPol rfl hinv rfl rfl rfl

/-! ### trim, backup, restore, delete -/

theorem inv_trim {st : St} (h : Inv st) (n : Int) : Inv (trim st n).1 := by
  unfold trim
  cases hp : st.pol with
  | none => exact h.congr (by simp [hp]) rfl rfl rfl rfl
  | some p =>
    have hi := h.pol p hp
    simp only
    by_cases g1 : n < p.minAvail
    · rw [if_pos g1]; exact h.congr (by simp [hp]) rfl rfl rfl rfl
    rw [if_neg g1]
    by_cases g2 : p.minEnc = 0
    · rw [if_pos g2]; exact h.congr (by simp [hp]) rfl rfl rfl rfl
    rw [if_neg g2]
    by_cases g3 : p.minDec = 0
    · rw [if_pos g3]; exact h.congr (by simp [hp]) rfl rfl rfl rfl
    rw [if_neg g3]
    by_cases g4 : n > p.minEnc
    · rw [if_pos g4]; exact h.congr (by simp [hp]) rfl rfl rfl rfl
    rw [if_neg g4]
    by_cases g5 : n > p.minDec
    · rw [if_pos g5]; exact h.congr (by simp [hp]) rfl rfl rfl rfl
    rw [if_neg g5]
    by_cases g6 : n < 0
    · rw [if_pos g6]; exact h.congr (by simp [hp]) rfl rfl rfl rfl
    rw [if_neg g6]
    by_cases g7 : n = 0
    · rw [if_pos g7]; exact h.congr (by simp [hp]) rfl rfl rfl rfl
    rw [if_neg g7]
    have e1 : p.minAvail ≤ n.toNat := by omega
    have e2 : n.toNat ≤ p.minDec := by omega
    have e3 : n.toNat ≤ p.minEnc := by omega
    simp only [h.noFault, persist_trim hi n.toNat e1 e2]
    exact h.setPol rfl (persist_trim_inv hi n.toNat e1 e2 e3) rfl rfl rfl

theorem inv_backup {st : St} (h : Inv st) : Inv (backup st).1 := by
  unfold backup
  cases hp : st.pol with
  | none => exact h.congr (by simp [hp]) rfl rfl rfl rfl
  | some p =>
    have hi := h.pol p hp
    simp only
    by_cases g1 : (!p.exportable) = true
    · rw [if_pos g1]; exact h.congr (by simp [hp]) rfl rfl rfl rfl
    rw [if_neg g1]
    by_cases g2 : (!p.plainBackup) = true
    · rw [if_pos g2]; exact h.congr (by simp [hp]) rfl rfl rfl rfl
    rw [if_neg g2]
    simp only [h.noFault, persist_id hi]
    refine ⟨?_, ?_, h.arts, ?_, rfl⟩
    · intro q hq; cases hq; exact hi
    · intro hn; cases hn
    · intro b hb
      simp only [List.mem_append, List.mem_singleton] at hb
      rcases hb with hb | hb
      · exact h.backups b hb
      · subst hb; exact hi

theorem inv_restore {st : St} (h : Inv st) (b : Nat) (force : Bool) : Inv (restore st b force).1 := by
  unfold restore restoreWith
  simp only
  by_cases g0 : b = 0
  · rw [if_pos g0]; exact h.congr rfl rfl rfl rfl rfl
  rw [if_neg g0]
  cases hb : st.backups[b - 1]? with
  | none => exact h.congr rfl rfl rfl rfl rfl
  | some bk =>
    obtain ⟨bp, ba⟩ := bk
    have hi : PInv bp ba := h.backups (bp, ba) (List.mem_of_getElem? hb)
    simp only
    by_cases g1 : st.pol.isSome = true ∧ (!force) = true
    · rw [if_pos g1]; exact h.congr rfl rfl rfl rfl rfl
    rw [if_neg g1, h.noFault]
    simp only [Nat.zero_ne_one, if_false, Nat.zero_sub, persist_id hi]
    exact h.setPol rfl hi rfl rfl rfl

theorem inv_delete {st : St} (h : Inv st) : Inv (delete st).1 := by
  unfold delete
  cases hp : st.pol with
  | none => exact h.congr (by simp [hp]) rfl rfl rfl rfl
  | some p =>
    simp only
    split
    · exact h.congr (by simp [hp]) rfl rfl rfl rfl
    · exact ⟨(by intro q hq; cases hq), fun _ => rfl, h.arts, h.backups, rfl⟩

/-! ### artifacts -/

theorem getKey_spec {p : Policy} {ctx : String} {v : Int} {k : Key} {dctx : String}
    (h : getKey p ctx v = .ok (k, dctx)) :
    0 ≤ v ∧ kget p.keys v.toNat = some k ∧ dctx = (if p.derived then ctx else "-") ∧ (p.derived = true → ctx ≠ "-") ∧
      (p.derived = false → k ≠ emptyKey) := by
  unfold getKey at h
  cases hd : p.derived with
  | false =>
    simp only [hd, Bool.not_false, if_true] at h
    by_cases hv : v < 0
    · rw [if_pos hv] at h; cases h
    · rw [if_neg hv] at h
      cases hk : kget p.keys v.toNat with
      | none => rw [hk] at h; cases h
      | some k' =>
        rw [hk] at h
        simp only at h
        by_cases he : k' = emptyKey
        · rw [if_pos he] at h; cases h
        · rw [if_neg he] at h; cases h
          exact ⟨by omega, rfl, by simp, (fun hc => by cases hc), fun _ => he⟩
  | true =>
    simp only [hd, Bool.not_true, Bool.false_eq_true, if_false] at h
    by_cases hv : v ≤ 0 ∨ v > p.latest
    · rw [if_pos hv] at h; cases h
    · rw [if_neg hv] at h
      by_cases hc : ctx = "-"
      · rw [if_pos hc] at h; cases h
      · rw [if_neg hc] at h
        cases hk : kget p.keys v.toNat with
        | none => rw [hk] at h; cases h
        | some k' =>
          rw [hk] at h; cases h
          exact ⟨by omega, rfl, by simp, fun _ => hc, (fun hc' => by cases hc')⟩

theorem pickVersion_spec {p : Policy} {ver : Int} {v : Nat} (h : pickVersion p ver = .ok v) :
    (ver = 0 → v = p.latest) ∧ (ver ≠ 0 → (v : Int) = ver) ∧ (ver ≠ 0 → p.minEnc ≤ v) ∧ (ver ≠ 0 → v ≤ p.latest) := by
  unfold pickVersion at h
  by_cases h0 : ver = 0
  · rw [if_pos h0] at h; cases h
    exact ⟨fun _ => rfl, fun hc => absurd h0 hc, fun hc => absurd h0 hc, fun hc => absurd h0 hc⟩
  · rw [if_neg h0] at h
    by_cases h1 : ver < 0
    · rw [if_pos h1] at h; cases h
    · rw [if_neg h1] at h
      by_cases h2 : ver > p.latest
      · rw [if_pos h2] at h; cases h
      · rw [if_neg h2] at h
        by_cases h3 : ver < p.minEnc
        · rw [if_pos h3] at h; cases h
        · rw [if_neg h3] at h; cases h
          exact ⟨fun hc => absurd hc h0, fun _ => by omega, fun _ => by omega, fun _ => by omega⟩

theorem internArt_arts (arts : List Art) (a : Art) :
    (internArt arts a).1 = arts ∨ (internArt arts a).1 = arts ++ [a] := by
  unfold internArt
  split
  · exact Or.inl rfl
  · exact Or.inr rfl

theorem arts_ok_intern {arts : List Art} {a : Art} (h : ∀ x ∈ arts, x.key.1 = x.ver ∧ 1 ≤ x.ver)
    (ha : a.key.1 = a.ver ∧ 1 ≤ a.ver) : ∀ x ∈ (internArt arts a).1, x.key.1 = x.ver ∧ 1 ≤ x.ver := by
  rcases internArt_arts arts a with e | e <;> rw [e]
  · exact h
  · intro x hx
    simp only [List.mem_append, List.mem_singleton] at hx
    rcases hx with hx | hx
    · exact h x hx
    · subst hx; exact ha

theorem encryptArt_ok {p : Policy} {arch : List Key} (hi : PInv p arch) {n : Nat} {ver : Int}
    {ctx aad nonce plain : String} {a : Art} (h : encryptArt p n ver ctx aad nonce plain = .ok a) :
    a.key.1 = a.ver ∧ 1 ≤ a.ver ∧ kget p.keys a.ver = some a.key ∧ a.kind = .enc := by
  unfold encryptArt at h
  split at h
  · cases h
  · split at h
    · cases h
    · rename_i v hv
      split at h
      · cases h
      · split at h
        · cases h
        · rename_i k dctx hk
          obtain ⟨_, hkg, _⟩ := getKey_spec hk
          simp only [Int.toNat_natCast] at hkg
          split at h
          · cases h
          · cases h
            obtain ⟨e1, _, _, e4⟩ := hi.kget_ver hkg
            exact ⟨e1, e4, hkg, rfl⟩

theorem inv_encrypt {st : St} (h : Inv st) (ver : Int) (ctx aad nonce plain : String) :
    Inv (encrypt st ver ctx aad nonce plain).1 := by
  unfold encrypt
  cases hp : st.pol with
  | none => exact h
  | some p =>
    simp only
    cases he : encryptArt p (st.arts.length + 1) ver ctx aad nonce plain with
    | error c => exact h
    | ok a =>
      obtain ⟨e1, e2, _⟩ := encryptArt_ok (h.pol p hp) he
      exact ⟨by simpa [hp] using h.pol, by simp, arts_ok_intern h.arts ⟨e1, e2⟩, h.backups, h.noFault⟩

theorem inv_rewrap {st : St} (h : Inv st) (hd : Nat) (ver : Int) (ctx : String) : Inv (rewrap st hd ver ctx).1 := by
  unfold rewrap
  split
  · exact h
  · split
    · exact h
    · split
      · exact h
      · exact inv_encrypt h _ _ _ _ _

theorem signArt_ok {p : Policy} {arch : List Key} (hi : PInv p arch) {n : Nat} {ver : Int}
    {ctx msg : String} {a : Art} (h : signArt p n ver ctx msg = .ok a) :
    a.key.1 = a.ver ∧ 1 ≤ a.ver ∧ kget p.keys a.ver = some a.key ∧ a.kind = .sig := by
  unfold signArt at h
  split at h
  · cases h
  · split at h
    · cases h
    · rename_i v hv
      split at h
      · cases h
      · rename_i k hk
        obtain ⟨e1, _, _, e4⟩ := hi.kget_ver hk
        split at h
        · cases h
        · split at h
          · split at h
            · cases h
            · cases h; exact ⟨e1, e4, hk, rfl⟩
          · cases h; exact ⟨e1, e4, hk, rfl⟩

theorem inv_sign {st : St} (h : Inv st) (ver : Int) (ctx msg : String) : Inv (sign st ver ctx msg).1 := by
  unfold sign
  cases hp : st.pol with
  | none => exact h
  | some p =>
    simp only
    cases he : signArt p (st.arts.length + 1) ver ctx msg with
    | error c => exact h
    | ok a =>
      obtain ⟨e1, e2, _⟩ := signArt_ok (h.pol p hp) he
      exact ⟨by simpa [hp] using h.pol, by simp, arts_ok_intern h.arts ⟨e1, e2⟩, h.backups, h.noFault⟩

theorem hmacKey_spec {p : Policy} {ver : Int} {k : Key} (h : hmacKey p ver = .ok k) :
    0 ≤ ver ∧ kget p.keys ver.toNat = some k := by
  unfold hmacKey at h
  split at h
  · cases h
  · split at h
    · cases h
    · split at h
      · cases h
      · rename_i k' hk
        split at h
        · cases h
        · cases h; exact ⟨by omega, hk⟩

theorem hmacArt_ok {p : Policy} {arch : List Key} (hi : PInv p arch) {ver : Int} {msg : String} {a : Art}
    (h : hmacArt p ver msg = .ok a) :
    a.key.1 = a.ver ∧ 1 ≤ a.ver ∧ kget p.keys a.ver = some a.key ∧ a.kind = .mac := by
  unfold hmacArt at h
  simp only at h
  split at h
  · cases h
  · rename_i v hv
    split at h
    · cases h
    · rename_i k hk
      cases h
      obtain ⟨_, hkg⟩ := hmacKey_spec hk
      obtain ⟨e1, _, _, e4⟩ := hi.kget_ver hkg
      exact ⟨e1, e4, hkg, rfl⟩

theorem inv_hmac {st : St} (h : Inv st) (ver : Int) (msg : String) : Inv (hmac st ver msg).1 := by
  unfold hmac
  cases hp : st.pol with
  | none => exact h
  | some p =>
    simp only
    cases he : hmacArt p ver msg with
    | error c => exact h
    | ok a =>
      obtain ⟨e1, e2, _⟩ := hmacArt_ok (h.pol p hp) he
      exact ⟨by simpa [hp] using h.pol, by simp, arts_ok_intern h.arts ⟨e1, e2⟩, h.backups, h.noFault⟩

end Obao.Transit
