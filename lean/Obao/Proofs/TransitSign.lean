import Obao.Proofs.TransitCrypto
/-! Specifications of sign / verify / hmac / hmac-verify of the transit model. -/
namespace Obao.Transit

theorem signArt_spec {p : Policy} {n : Nat} {ver : Int} {ctx msg : String} {a : Art}
    (h : signArt p n ver ctx msg = .ok a) :
    p.ktype.signSupported = true ∧ pickVersion p ver = .ok a.ver ∧ kget p.keys a.ver = some a.key ∧
      a.key ≠ emptyKey ∧ a.msg = msg ∧ a.kind = .sig ∧
      a.dctx = (if p.ktype = .ed25519 ∧ p.derived = true then ctx else "-") ∧
      (p.ktype = .ed25519 ∧ p.derived = true → ctx ≠ "-") := by
  unfold signArt at h
  by_cases hs : (!p.ktype.signSupported) = true
  · rw [if_pos hs] at h; cases h
  rw [if_neg hs] at h
  cases hv : pickVersion p ver with
  | error c => rw [hv] at h; cases h
  | ok v =>
    rw [hv] at h; simp only at h
    cases hk : kget p.keys v with
    | none => rw [hk] at h; cases h
    | some k =>
      rw [hk] at h; simp only at h
      by_cases he : k = emptyKey
      · rw [if_pos he] at h; cases h
      rw [if_neg he] at h
      by_cases hd : p.ktype = .ed25519 ∧ p.derived = true
      · rw [if_pos hd] at h
        by_cases hc : ctx = "-"
        · rw [if_pos hc] at h; cases h
        · rw [if_neg hc] at h; cases h
          exact ⟨by simpa using hs, rfl, hk, he, rfl, rfl, by rw [if_pos hd], fun _ => hc⟩
      · rw [if_neg hd] at h; cases h
        exact ⟨by simpa using hs, rfl, hk, he, rfl, rfl, by rw [if_neg hd], fun hc => absurd hc hd⟩

theorem sign_ok_spec {st : St} {ver : Int} {ctx msg : String} {h v : Nat}
    (hs : (sign st ver ctx msg).2 = .okArt h v) :
    ∃ p a, st.pol = some p ∧ signArt p (st.arts.length + 1) ver ctx msg = .ok a ∧ v = a.ver ∧
      h = (internArt st.arts a).2 ∧ (sign st ver ctx msg).1 = { st with arts := (internArt st.arts a).1 } := by
  unfold sign at hs ⊢
  cases hp : st.pol with
  | none => rw [hp] at hs; cases hs
  | some p =>
    rw [hp] at hs
    simp only at hs ⊢
    cases he : signArt p (st.arts.length + 1) ver ctx msg with
    | error c => rw [he] at hs; cases hs
    | ok a =>
      rw [he] at hs
      simp only at hs ⊢
      cases hs
      exact ⟨p, a, rfl, he, rfl, rfl, rfl⟩

theorem verify_out {st : St} {h : Nat} {a : Art} {p : Policy} (ha : artAt st h .sig = some a) (hp : st.pol = some p)
    (vm : VMut) (bm : BMut) (ctx msg : String) :
    (verify st h vm bm ctx msg).2 =
      (match verifyArt p a vm bm ctx msg with
       | .error c => if c = "PANIC" then Out.panic else Out.err c
       | .ok b => Out.okBool b) := by
  unfold verify
  rw [ha, hp]
  simp only
  cases verifyArt p a vm bm ctx msg <;> rfl

theorem verify_true_spec {st : St} {h : Nat} {vm : VMut} {bm : BMut} {ctx msg : String}
    (hv : (verify st h vm bm ctx msg).2 = .okBool true) :
    ∃ a p, artAt st h .sig = some a ∧ st.pol = some p ∧ verifyArt p a vm bm ctx msg = .ok true := by
  unfold verify at hv
  cases ha : artAt st h .sig with
  | none => rw [ha] at hv; cases hv
  | some a =>
    rw [ha] at hv
    cases hp : st.pol with
    | none => rw [hp] at hv; cases hv
    | some p =>
      rw [hp] at hv
      simp only at hv
      cases hd : verifyArt p a vm bm ctx msg with
      | error c => rw [hd] at hv; simp only at hv; split at hv <;> cases hv
      | ok b => rw [hd] at hv; cases hv; exact ⟨a, p, rfl, rfl, hd⟩

/-- what a successful verification implies -/
theorem verifyArt_true {p : Policy} {a : Art} {vm : VMut} {bm : BMut} {ctx msg : String}
    (h : verifyArt p a vm bm ctx msg = .ok true) :
    p.ktype.signSupported = true ∧ vm ≠ .noPrefix ∧ vm ≠ .noFields ∧
      ∃ ver : Int, parseVer a vm = some ver ∧ 0 ≤ ver ∧ ver ≤ p.latest ∧ ¬ (p.minDec > 0 ∧ ver < p.minDec) ∧
        bm = .same ∧ kget p.keys ver.toNat = some a.key ∧ msg = a.msg ∧
        (p.ktype = .ed25519 ∧ p.derived = true → ctx = a.dctx) := by
  unfold verifyArt at h
  by_cases hs : (!p.ktype.signSupported) = true
  · rw [if_pos hs] at h; cases h
  rw [if_neg hs] at h
  by_cases h1 : vm = .noPrefix
  · rw [if_pos h1] at h; cases h
  rw [if_neg h1] at h
  by_cases h2 : vm = .noFields
  · rw [if_pos h2] at h; cases h
  rw [if_neg h2] at h
  cases hv : parseVer a vm with
  | none => rw [hv] at h; cases h
  | some ver =>
    rw [hv] at h; simp only at h
    by_cases h3 : ver > (p.latest : Int)
    · rw [if_pos h3] at h; cases h
    rw [if_neg h3] at h
    by_cases h4 : p.minDec > 0 ∧ ver < (p.minDec : Int)
    · rw [if_pos h4] at h; cases h
    rw [if_neg h4] at h
    by_cases h5 : bm = .badB64
    · rw [if_pos h5] at h; cases h
    rw [if_neg h5] at h
    by_cases h6 : bm = .badFormat
    · rw [if_pos h6] at h; cases h
    rw [if_neg h6] at h
    by_cases hd : p.ktype = .ed25519 ∧ p.derived = true
    · rw [if_pos hd] at h
      by_cases h7 : ver ≤ 0 ∨ ctx = "-"
      · rw [if_pos h7] at h; cases h
      rw [if_neg h7] at h
      cases hk : kget p.keys ver.toNat with
      | none => rw [hk] at h; cases h
      | some k =>
        rw [hk] at h
        simp only [Except.ok.injEq, decide_eq_true_eq] at h
        obtain ⟨b1, b2, b3, b4⟩ := h
        subst b2
        exact ⟨by simpa using hs, h1, h2, ver, rfl, by omega, by omega, h4, b1, hk, b4, fun _ => b3⟩
    · rw [if_neg hd] at h
      by_cases h7 : ver < 0
      · rw [if_pos h7] at h; cases h
      rw [if_neg h7] at h
      cases hk : kget p.keys ver.toNat with
      | none => rw [hk] at h; cases h
      | some k =>
        rw [hk] at h; simp only at h
        by_cases he : k = emptyKey
        · rw [if_pos he] at h; cases h
        rw [if_neg he] at h
        simp only [Except.ok.injEq, decide_eq_true_eq] at h
        obtain ⟨b1, b2, _, b4⟩ := h
        subst b2
        exact ⟨by simpa using hs, h1, h2, ver, rfl, by omega, by omega, h4, b1, hk, b4, fun hc => absurd hc hd⟩

/-- an untouched signature verifies when its version is in the window and holds the signing key -/
theorem verifyArt_intro {p : Policy} {a : Art} {ctx : String} (hs : p.ktype.signSupported = true)
    (hv1 : 1 ≤ a.ver) (hv2 : a.ver ≤ p.latest) (hv3 : p.minDec ≤ a.ver) (hk : kget p.keys a.ver = some a.key)
    (hne : a.key ≠ emptyKey)
    (hd : a.dctx = (if p.ktype = .ed25519 ∧ p.derived = true then ctx else "-"))
    (hc : p.ktype = .ed25519 ∧ p.derived = true → ctx ≠ "-") :
    verifyArt p a .same .same ctx a.msg = .ok true := by
  unfold verifyArt
  rw [if_neg (by simp [hs]), if_neg (by simp), if_neg (by simp)]
  simp only [parseVer]
  have e1 : ¬ ((a.ver : Int) > (p.latest : Int)) := by omega
  have e2 : ¬ (p.minDec > 0 ∧ (a.ver : Int) < (p.minDec : Int)) := by omega
  rw [if_neg e1, if_neg e2, if_neg (by simp), if_neg (by simp)]
  by_cases hdd : p.ktype = .ed25519 ∧ p.derived = true
  · have e3 : ¬ ((a.ver : Int) ≤ 0 ∨ ctx = "-") := by
      intro hh; rcases hh with hh | hh
      · omega
      · exact hc hdd hh
    rw [if_pos hdd, if_neg e3]
    simp only [Int.toNat_natCast, hk]
    rw [if_pos hdd] at hd
    simp [hd]
  · rw [if_neg hdd, if_neg (by omega)]
    simp only [Int.toNat_natCast, hk]
    rw [if_neg hne]
    rw [if_neg hdd] at hd
    simp [hd]

/-! ### HMAC -/

theorem hmacKey_intro {p : Policy} {v : Nat} {k : Key} (hv : v ≤ p.latest) (hk : kget p.keys v = some k)
    (hne : k ≠ emptyKey ∨ p.ktype = .hmac) : hmacKey p (v : Int) = .ok k := by
  unfold hmacKey
  rw [if_neg (by omega), if_neg (by omega)]
  simp only [Int.toNat_natCast, hk]
  rw [if_neg (by intro ⟨h1, h2⟩; rcases hne with h | h; exact h h1; exact h2 h)]

theorem hmacKey_ne {p : Policy} {ver : Int} {k : Key} (h : hmacKey p ver = .ok k) : k ≠ emptyKey ∨ p.ktype = .hmac := by
  unfold hmacKey at h
  split at h
  · cases h
  · split at h
    · cases h
    · split at h
      · cases h
      · split at h
        · cases h
        · rename_i hc
          cases h
          by_cases he : k = emptyKey
          · right
            apply Decidable.of_not_not
            intro hn; exact hc ⟨he, hn⟩
          · exact Or.inl he

theorem hmacArt_spec {p : Policy} {ver : Int} {msg : String} {a : Art} (h : hmacArt p ver msg = .ok a) :
    kget p.keys a.ver = some a.key ∧ a.msg = msg ∧ a.kind = .mac ∧ (a.key ≠ emptyKey ∨ p.ktype = .hmac) ∧
      (ver = 0 → a.ver = p.latest) ∧ (ver ≠ 0 → (a.ver : Int) = ver) := by
  unfold hmacArt at h
  simp only at h
  split at h
  · cases h
  · rename_i v hv
    split at h
    · cases h
    · rename_i k hk
      cases h
      obtain ⟨g0, g1⟩ := hmacKey_spec hk
      refine ⟨g1, rfl, rfl, hmacKey_ne hk, ?_, ?_⟩
      · intro h0
        rw [if_pos h0] at hv; cases hv; simp
      · intro h0
        rw [if_neg h0] at hv
        split at hv
        · cases hv; simp only; omega
        · split at hv
          · cases hv
          · cases hv; simp only; omega

theorem hmac_ok_spec {st : St} {ver : Int} {msg : String} {h v : Nat}
    (hs : (hmac st ver msg).2 = .okArt h v) :
    ∃ p a, st.pol = some p ∧ hmacArt p ver msg = .ok a ∧ v = a.ver ∧
      h = (internArt st.arts a).2 ∧ (hmac st ver msg).1 = { st with arts := (internArt st.arts a).1 } := by
  unfold hmac at hs ⊢
  cases hp : st.pol with
  | none => rw [hp] at hs; cases hs
  | some p =>
    rw [hp] at hs
    simp only at hs ⊢
    cases he : hmacArt p ver msg with
    | error c => rw [he] at hs; cases hs
    | ok a =>
      rw [he] at hs
      simp only at hs ⊢
      cases hs
      exact ⟨p, a, rfl, he, rfl, rfl, rfl⟩

theorem hmacVerify_out {st : St} {h : Nat} {a : Art} {p : Policy} (ha : artAt st h .mac = some a) (hp : st.pol = some p)
    (vm : VMut) (bm : BMut) (msg : String) :
    (hmacVerify st h vm bm msg).2 =
      (match hmacVerifyArt p a vm bm msg with | .error c => Out.err c | .ok b => Out.okBool b) := by
  unfold hmacVerify
  rw [ha, hp]
  simp only
  cases hmacVerifyArt p a vm bm msg <;> rfl

theorem hmacVerify_true_spec {st : St} {h : Nat} {vm : VMut} {bm : BMut} {msg : String}
    (hv : (hmacVerify st h vm bm msg).2 = .okBool true) :
    ∃ a p, artAt st h .mac = some a ∧ st.pol = some p ∧ hmacVerifyArt p a vm bm msg = .ok true := by
  unfold hmacVerify at hv
  cases ha : artAt st h .mac with
  | none => rw [ha] at hv; cases hv
  | some a =>
    rw [ha] at hv
    cases hp : st.pol with
    | none => rw [hp] at hv; cases hv
    | some p =>
      rw [hp] at hv
      simp only at hv
      cases hd : hmacVerifyArt p a vm bm msg with
      | error c => rw [hd] at hv; cases hv
      | ok b => rw [hd] at hv; cases hv; exact ⟨a, p, rfl, rfl, hd⟩

theorem hmacVerifyArt_true {p : Policy} {a : Art} {vm : VMut} {bm : BMut} {msg : String}
    (h : hmacVerifyArt p a vm bm msg = .ok true) :
    vm ≠ .noPrefix ∧ vm ≠ .noFields ∧
      ∃ ver : Int, parseVer a vm = some ver ∧ 0 ≤ ver ∧ ver ≤ p.latest ∧ ¬ (p.minDec > 0 ∧ ver < p.minDec) ∧
        bm = .same ∧ kget p.keys ver.toNat = some a.key ∧ msg = a.msg := by
  unfold hmacVerifyArt at h
  by_cases h1 : vm = .noPrefix
  · rw [if_pos h1] at h; cases h
  rw [if_neg h1] at h
  by_cases h2 : vm = .noFields
  · rw [if_pos h2] at h; cases h
  rw [if_neg h2] at h
  cases hv : parseVer a vm with
  | none => rw [hv] at h; cases h
  | some ver =>
    rw [hv] at h; simp only at h
    by_cases h5 : bm = .badB64
    · rw [if_pos h5] at h; cases h
    rw [if_neg h5] at h
    by_cases h3 : ver > (p.latest : Int)
    · rw [if_pos h3] at h; cases h
    rw [if_neg h3] at h
    by_cases h4 : p.minDec > 0 ∧ ver < (p.minDec : Int)
    · rw [if_pos h4] at h; cases h
    rw [if_neg h4] at h
    cases hk : hmacKey p ver with
    | error c => rw [hk] at h; cases h
    | ok k =>
      rw [hk] at h
      simp only at h
      by_cases he : k = emptyKey
      · rw [if_pos he] at h; cases h
      rw [if_neg he] at h
      simp only [Except.ok.injEq, decide_eq_true_eq] at h
      obtain ⟨b1, b2, b3⟩ := h
      subst b2
      obtain ⟨g0, g1⟩ := hmacKey_spec hk
      exact ⟨h1, h2, ver, rfl, g0, by omega, h4, b1, g1, b3⟩

theorem hmacVerifyArt_intro {p : Policy} {a : Art} (hv2 : a.ver ≤ p.latest) (hv3 : p.minDec ≤ a.ver)
    (hk : kget p.keys a.ver = some a.key) (hne' : a.key ≠ emptyKey) :
    hmacVerifyArt p a .same .same a.msg = .ok true := by
  unfold hmacVerifyArt
  rw [if_neg (by simp), if_neg (by simp)]
  simp only [parseVer]
  have e1 : ¬ ((a.ver : Int) > (p.latest : Int)) := by omega
  have e2 : ¬ (p.minDec > 0 ∧ (a.ver : Int) < (p.minDec : Int)) := by omega
  rw [if_neg (by simp), if_neg e1, if_neg e2, hmacKey_intro hv2 hk (Or.inl hne')]
  simp only
  rw [if_neg hne']
  simp

/-- what survives an arbitrary ring-keeping history after an artifact was made -/
theorem later_setup {st1 : St} (hi1 : Inv st1) {h : Nat} {kind : AKind} {a : Art} (ha1 : artAt st1 h kind = some a)
    {p : Policy} (hp1 : st1.pol = some p) (hk : kget p.keys a.ver = some a.key) (later : List Op)
    (hkr : KeepsRing later) :
    Inv (run st1 later) ∧ artAt (run st1 later) h kind = some a ∧
      ∃ p2, (run st1 later).pol = some p2 ∧ p2.ktype = p.ktype ∧ p2.derived = p.derived ∧
        p2.convergent = p.convergent ∧ a.ver ≤ p2.latest ∧ 1 ≤ p2.minDec ∧
        (p2.minDec ≤ a.ver → kget p2.keys a.ver = some a.key) := by
  have hi2 : Inv (run st1 later) := inv_run later st1 hi1 hkr.ff
  have he2 : Ext st1 (run st1 later) := ext_run later st1 hi1 hkr
  obtain ⟨p2, hp2, t1, t2, t3, t4, t5⟩ := key_stable hi1 hi2 he2 hp1 hk
  exact ⟨hi2, artAt_ext he2 ha1, p2, hp2, t1, t2, t3, t4, (hi2.pol p2 hp2).decPos, t5⟩

theorem artAt_mem {st : St} {h : Nat} {kind : AKind} {a : Art} (ha : artAt st h kind = some a) :
    a ∈ st.arts ∧ a.kind = kind := by
  unfold artAt at ha
  split at ha
  · cases ha
  · split at ha
    · split at ha
      · cases ha; rename_i hget hk
        exact ⟨List.mem_of_getElem? hget, hk⟩
      · cases ha
    · cases ha

theorem Art.eq_of {a b : Art} (h1 : a.kind = b.kind) (h2 : a.ver = b.ver) (h3 : a.key = b.key) (h4 : a.dctx = b.dctx)
    (h5 : a.aad = b.aad) (h6 : a.msg = b.msg) (h7 : a.uniq = b.uniq) : a = b := by
  cases a; cases b; simp_all

/-! ### first-occurrence handles are stable -/

theorem idxOf?_append_some {l m : List Art} {a : Art} {i : Nat} (h : l.idxOf? a = some i) :
    (l ++ m).idxOf? a = some i := by
  unfold List.idxOf? at h ⊢
  rw [List.findIdx?_append, h]; rfl

/-- interning the same artifact again, after the table grew, gives the same handle and leaves the table alone -/
theorem internArt_stable (arts more : List Art) (a : Art) :
    internArt ((internArt arts a).1 ++ more) a = ((internArt arts a).1 ++ more, (internArt arts a).2) := by
  unfold internArt
  cases h : arts.idxOf? a with
  | some i =>
    simp only
    rw [idxOf?_append_some h]
  | none =>
    simp only
    have : (arts ++ [a] ++ more).idxOf? a = some arts.length := by
      unfold List.idxOf? at h ⊢
      rw [List.append_assoc, List.findIdx?_append, h]
      simp [List.findIdx?_cons]
    rw [this]

end Obao.Transit
