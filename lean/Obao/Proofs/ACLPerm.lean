import Obao.Proofs.ACLFind
/-! C03: the declarative semantics does not depend on the order of the stanzas. -/
namespace Obao.ACLProofs
open Obao.ACL Obao.ACLSpec
open List (Perm)

theorem any_perm {α : Type} {l l' : List α} (h : l.Perm l') (f : α → Bool) : l.any f = l'.any f := by
  apply Bool.eq_iff_iff.mpr
  simp only [List.any_eq_true]
  constructor
  · rintro ⟨x, hx, hf⟩; exact ⟨x, h.mem_iff.mp hx, hf⟩
  · rintro ⟨x, hx, hf⟩; exact ⟨x, h.mem_iff.mpr hx, hf⟩

theorem all_perm {α : Type} {l l' : List α} (h : l.Perm l') (f : α → Bool) : l.all f = l'.all f := by
  apply Bool.eq_iff_iff.mpr
  simp only [List.all_eq_true]
  constructor
  · intro hh x hx; exact hh x (h.mem_iff.mpr hx)
  · intro hh x hx; exact hh x (h.mem_iff.mp hx)

theorem unionCaps_perm {rs rs' : List Perms} (h : rs.Perm rs') : unionCaps rs = unionCaps rs' := by
  unfold unionCaps
  apply h.foldl_eq'
  intro x _ y _ z
  show z ||| x.caps ||| y.caps = z ||| y.caps ||| x.caps
  rw [Nat.or_assoc, Nat.or_assoc, Nat.or_comm x.caps]

theorem minPos_aux (xs : List Int) (a : Int) (ha : 0 ≤ a) :
    let m := xs.foldl (fun a x => if x > 0 ∧ (a = 0 ∨ x < a) then x else a) a
    (m = 0 ∧ a = 0 ∧ ∀ x ∈ xs, x ≤ 0) ∨
      (m > 0 ∧ (m = a ∨ m ∈ xs) ∧ (a > 0 → m ≤ a) ∧ ∀ x ∈ xs, x > 0 → m ≤ x) := by
  induction xs generalizing a with
  | nil =>
    simp only [List.foldl_nil]
    by_cases h0 : a = 0
    · left; exact ⟨h0, h0, by simp⟩
    · right; exact ⟨by omega, by simp, fun _ => by omega, by simp⟩
  | cons x xs ih =>
    simp only [List.foldl_cons]
    by_cases hc : x > 0 ∧ (a = 0 ∨ x < a)
    · simp only [hc, and_self, if_true]
      have := ih x (by omega)
      simp only at this
      rcases this with ⟨h1, h2, _⟩ | ⟨h1, h2, h3, h4⟩
      · omega
      · right
        refine ⟨h1, ?_, by omega, ?_⟩
        · rcases h2 with h2 | h2
          · right; rw [h2]; simp
          · right; simp [h2]
        · intro y hy hpos
          rcases List.mem_cons.mp hy with rfl | hy
          · omega
          · exact h4 y hy hpos
    · simp only [hc, if_false]
      have := ih a ha
      simp only at this
      rcases this with ⟨h1, h2, h3⟩ | ⟨h1, h2, h3, h4⟩
      · left
        refine ⟨h1, h2, ?_⟩
        intro y hy
        rcases List.mem_cons.mp hy with rfl | hy
        · omega
        · exact h3 y hy
      · right
        refine ⟨h1, ?_, h3, ?_⟩
        · rcases h2 with h2 | h2
          · left; exact h2
          · right; simp [h2]
        · intro y hy hpos
          rcases List.mem_cons.mp hy with rfl | hy
          · omega
          · exact h4 y hy hpos

/-- `minPos` is the least positive element, `0` when there is none -/
theorem minPos_spec (xs : List Int) :
    (minPos xs = 0 ∧ ∀ x ∈ xs, x ≤ 0) ∨ (minPos xs > 0 ∧ minPos xs ∈ xs ∧ ∀ x ∈ xs, x > 0 → minPos xs ≤ x) := by
  have := minPos_aux xs 0 (by omega)
  simp only at this
  unfold minPos
  rcases this with ⟨h1, _, h3⟩ | ⟨h1, h2, _, h4⟩
  · exact Or.inl ⟨h1, h3⟩
  · right
    refine ⟨h1, ?_, h4⟩
    rcases h2 with h2 | h2
    · omega
    · exact h2

theorem minPos_perm {xs xs' : List Int} (h : xs.Perm xs') : minPos xs = minPos xs' := by
  rcases minPos_spec xs with ⟨h1, h2⟩ | ⟨h1, h2, h3⟩ <;> rcases minPos_spec xs' with ⟨g1, g2⟩ | ⟨g1, g2, g3⟩
  · omega
  · have := h2 _ (h.mem_iff.mpr g2); omega
  · have := g2 _ (h.mem_iff.mp h2); omega
  · have := h3 _ (h.mem_iff.mpr g2) g1
    have := g3 _ (h.mem_iff.mp h2) h1
    omega

theorem specCheckParams_perm {rs rs' : List Perms} (h : rs.Perm rs') (data : List (String × PVal)) :
    specCheckParams rs data = specCheckParams rs' data := by
  unfold specCheckParams pmEmpty pmHas pmAccepts pmOnlyStar pmHas
  simp only [any_perm h, all_perm h]

theorem specCheck_perm {rs rs' : List Perms} (h : rs.Perm rs') (req : Req) (cc : Bool) :
    specCheck rs req cc = specCheck rs' req cc := by
  unfold specCheck specCaps anyDeny
  rw [any_perm h, unionCaps_perm h, minPos_perm (h.map _), minPos_perm (h.map (·.maxTTL)), minPos_perm (h.map (·.pag)),
    specCheckParams_perm h, any_perm h]

theorem permsFor_perm {rules rules' : List PathRule} (h : rules.Perm rules') (kind : Kind) (k : Path) :
    (permsFor rules kind k).Perm (permsFor rules' kind k) := by
  unfold permsFor
  exact (h.filter _).map _

theorem specNonExact_perm {rules rules' : List PathRule} (h : rules.Perm rules') (path : Path) :
    specNonExact rules path = specNonExact rules' path := by
  unfold specNonExact
  rw [pickBest_eq_foldMax, pickBest_eq_foldMax]
  have hC : (specCands rules path).Perm (specCands rules' path) := h.filterMap _
  have hirr' : ∀ a : Descr × Kind × Path, less a.1 a.1 = false := fun a => less_irrefl a.1
  have htr' : ∀ a b c : Descr × Kind × Path, less a.1 b.1 = true → less b.1 c.1 = true → less a.1 c.1 = true :=
    fun a b c => less_trans
  show Option.map _ (foldMax _ (specCands rules path)) = Option.map _ (foldMax _ (specCands rules' path))
  rcases foldMax_spec (fun (b c : Descr × Kind × Path) => less b.1 c.1) hirr' htr' (specCands rules path) with
    ⟨he, hn⟩ | ⟨x, hx, hxm, hxmax⟩
  · have he' : specCands rules' path = [] := by
      have := hC.length_eq
      rw [he] at this
      exact List.length_eq_zero_iff.mp this.symm
    rw [hn, he']; rfl
  · rcases foldMax_spec (fun (b c : Descr × Kind × Path) => less b.1 c.1) hirr' htr' (specCands rules' path) with
      ⟨he', _⟩ | ⟨x', hx', hx'm, hx'max⟩
    · have := hC.mem_iff.mp hxm
      rw [he'] at this; simp at this
    · have h1 := hxmax x' (hC.mem_iff.mpr hx'm)
      have h2 := hx'max x (hC.mem_iff.mp hxm)
      have hk := less_incomparable h1 h2
      obtain ⟨r, _, hd, hpat⟩ := mem_specCands.mp hxm
      obtain ⟨r', _, hd', hpat'⟩ := mem_specCands.mp hx'm
      have := candOf_injective path _ _ _ _ _ _ hd hd' hk
      rw [hx, hx']
      simp only [Option.map_some]
      rw [hpat, hpat', this.1, this.2]

theorem specFind_perm {rules rules' : List PathRule} (h : rules.Perm rules') (path : Path) (op : Op) :
    specFind rules path op = specFind rules' path op := by
  unfold specFind hasExact
  rw [any_perm h, any_perm h, specNonExact_perm h, specNonExact_perm h]

/-- the decision of the semantics is a function of the multiset of stanzas -/
theorem specDecide_perm {rules rules' : List PathRule} (h : rules.Perm rules') (req : Req) (cc : Bool) :
    specDecide rules req cc = specDecide rules' req cc := by
  unfold specDecide
  rw [specFind_perm h]
  cases specFind rules' (dropSlashes req.path) req.op with
  | none => rfl
  | some pat => exact specCheck_perm (permsFor_perm h _ _) req cc

theorem rulesOf_perm (now : Int) {ps ps' : List (Option Policy)} (h : ps.Perm ps') :
    (rulesOf now ps).Perm (rulesOf now ps') := by
  unfold rulesOf
  exact h.flatMap_right _

theorem hasRoot_perm {ps ps' : List (Option Policy)} (h : ps.Perm ps') : hasRoot ps = hasRoot ps' := by
  unfold hasRoot
  exact any_perm h _

theorem attachable_perm {ps ps' : List (Option Policy)} (h : ps.Perm ps') : attachable ps = attachable ps' := by
  rw [attachable_eq, attachable_eq, h.length_eq]
  exact all_perm h _

theorem wfRules_perm {rules rules' : List PathRule} (h : rules.Perm rules') : wfRules rules = wfRules rules' := by
  unfold wfRules
  exact all_perm h _

end Obao.ACLProofs
