import Obao.Proofs.TxnMerge3
/-! Final theorem for `RaftTransaction.ListPage` with pending writes. Core Lean only. -/
namespace Obao.Listing
open Obao.KV

/-- the deletions set and the pending-entry set computed at the top of `ListPage` -/
def txnDeletions (u : Updates) (p after : Key) : List Key :=
  (((u.filter (fun e => hasPrefix p e.1)).filter (fun e => (shouldInclude p after e.1).2.2)).filter (fun e => e.2.isNone)).map (·.1)

def txnPending (u : Updates) (p after : Key) : List Key :=
  sortSet ((((u.filter (fun e => hasPrefix p e.1)).filter (fun e => (shouldInclude p after e.1).2.2)).filter
    (fun e => e.2.isSome)).map (fun e => (shouldInclude p after e.1).1))

theorem shouldInclude_visit (p after k : Key) : (shouldInclude p after k).2.2 = true ↔ ¬ skip after (child p k) := by
  unfold shouldInclude skip child
  simp only [Bool.not_eq_true', decide_eq_false_iff_not]

theorem mem_txnDeletions {u : Updates} {p after k : Key} :
    k ∈ txnDeletions u p after ↔ (k, none) ∈ u ∧ hasPrefix p k = true ∧ ¬ skip after (child p k) := by
  unfold txnDeletions
  simp only [List.mem_map, List.mem_filter, shouldInclude_visit]
  constructor
  · rintro ⟨⟨k', r⟩, ⟨⟨⟨h1, h2⟩, h3⟩, h4⟩, rfl⟩
    cases r with
    | none => exact ⟨h1, h2, h3⟩
    | some v => simp at h4
  · rintro ⟨h1, h2, h3⟩
    exact ⟨(k, none), ⟨⟨⟨h1, h2⟩, h3⟩, rfl⟩, rfl⟩

theorem mem_txnPending {u : Updates} {p after x : Key} :
    x ∈ txnPending u p after ↔ ∃ k v, (k, some v) ∈ u ∧ hasPrefix p k = true ∧ ¬ skip after (child p k) ∧ child p k = x := by
  unfold txnPending
  rw [mem_sortSet]
  simp only [List.mem_map, List.mem_filter, shouldInclude_visit]
  constructor
  · rintro ⟨⟨k', r⟩, ⟨⟨⟨h1, h2⟩, h3⟩, h4⟩, rfl⟩
    cases r with
    | none => simp at h4
    | some v => exact ⟨k', v, h1, h2, h3, rfl⟩
  · rintro ⟨k, v, h1, h2, h3, rfl⟩
    exact ⟨(k, some v), ⟨⟨⟨h1, h2⟩, h3⟩, rfl⟩, rfl⟩

theorem firstSeg_eq_nil {t : Key} : firstSeg t = [] ↔ t = [] := by
  cases t with
  | nil => simp [firstSeg]
  | cons c r =>
    unfold firstSeg
    split <;> simp

theorem child_eq_nil {p k : Key} (hk : hasPrefix p k = true) : child p k = [] ↔ k = p := by
  obtain ⟨t, rfl⟩ := hasPrefix_iff.mp hk
  simp [child, firstSeg_eq_nil]

/-- unlimited listing inside a transaction = unlimited page of the store the transaction presents -/
theorem txn_unlimited_eq_spec0 (s : Store) (hs : Sorted (keys s)) (u : Updates) (hu : UpdWF u)
    (p after : Key) (limit : Int) (hl : ¬ limit > 0) (hsafe : SeekSafe (txnSeek p after) p after)
    (hne : ∀ k v, (k, some v) ∈ u → k ≠ p) :
    (txnFinish0 (txnLoop p after limit (txnDeletions u p after)
        ((seekFrom (keys s) (txnSeek p after)).filter (hasPrefix p)) ⟨[], txnPending u p after⟩)).reverse
      = spec0 (keys (overlay s u)) p after := by
  have hCs : Sorted (seekFrom (keys s) (txnSeek p after)) := sorted_sublist (seekFrom_sublist ..) hs
  have hfs : Sorted ((seekFrom (keys s) (txnSeek p after)).filter (hasPrefix p)) := sorted_filter _ hCs
  have hfp : ∀ k ∈ (seekFrom (keys s) (txnSeek p after)).filter (hasPrefix p), hasPrefix p k = true :=
    fun k hk => (List.mem_filter.mp hk).2
  have hT : TInv p ((seekFrom (keys s) (txnSeek p after)).filter (hasPrefix p)) [] (txnPending u p after) := by
    refine ⟨outInv_nil .., sorted_sortSet _, ?_, by simp⟩
    intro hm
    obtain ⟨k, v, h1, h2, _, h4⟩ := mem_txnPending.mp hm
    exact hne k v h1 ((child_eq_nil h2).mp h4)
  obtain ⟨d, m⟩ := txnLoop_unlimited_spec p after limit hl (txnDeletions u p after) _ hfs hfp [] _ hT
  apply sorted_ext (desc_reverse_sorted d) (spec0_sorted ..)
  intro x
  rw [List.mem_reverse, m x, mem_spec0]
  simp only [List.not_mem_nil, false_or]
  constructor
  · rintro (hx | ⟨k, hk, hD, hsk, rfl⟩)
    · obtain ⟨k, v, h1, h2, h3, rfl⟩ := mem_txnPending.mp hx
      exact ⟨⟨k, (mem_keys_overlay s u k).mpr (.inl ⟨v, updGet_of_mem hu h1⟩), h2, rfl⟩, h3⟩
    · have hk' := List.mem_filter.mp hk
      have hks : k ∈ keys s := ((mem_seekFrom hs).mp hk'.1).1
      refine ⟨⟨k, ?_, hk'.2, rfl⟩, hsk⟩
      rw [mem_keys_overlay]
      cases hg : updGet u k with
      | none => exact .inr ⟨rfl, hks⟩
      | some r =>
        cases r with
        | some v => exact .inl ⟨v, rfl⟩
        | none =>
          exfalso
          have : k ∈ txnDeletions u p after := mem_txnDeletions.mpr ⟨mem_of_updGet hg, hk'.2, hsk⟩
          have hc : (txnDeletions u p after).contains k = true := by simpa using this
          rw [hc] at hD; exact absurd hD (by simp)
  · rintro ⟨⟨k, hk, hpk, rfl⟩, hsk⟩
    rcases (mem_keys_overlay s u k).mp hk with ⟨v, hv⟩ | ⟨hnone, hks⟩
    · exact .inl (mem_txnPending.mpr ⟨k, v, mem_of_updGet hv, hpk, hsk, rfl⟩)
    · right
      refine ⟨k, List.mem_filter.mpr ⟨(mem_seekFrom hs).mpr ⟨hks, ?_⟩, hpk⟩, ?_, hsk, rfl⟩
      · -- the cursor start is not beyond k
        obtain ⟨t, rfl⟩ := hasPrefix_iff.mp hpk
        rcases not_skip_iff.mp hsk with ha | ha
        · subst ha
          have := hsafe.2
          simp only [List.append_nil] at this
          exact kle_trans this (kle_append_right p t)
        · have h1 : after < t := by
            have hc : child p (p ++ t) = firstSeg t := by simp [child]
            rw [hc] at ha
            exact klt_of_lt_of_le ha (firstSeg_le_self t)
          exact kle_trans hsafe.2 (kle_of_lt ((append_klt_append_left p).mpr h1))
      · apply Bool.eq_false_iff.mpr
        intro hc
        have : k ∈ txnDeletions u p after := by simpa using hc
        have := updGet_of_mem hu (mem_txnDeletions.mp this).1
        rw [hnone] at this; exact absurd this (by simp)

/-- **raft transaction with pending writes**: the listing equals the specification applied to the store the
transaction will commit — for every committed store, every set of pending puts and deletes, every limit —
whenever the cursor start is safe and no pending put writes the key that equals the listed prefix (F13) -/
theorem raftTxnList_eq_listPage (s : Store) (hs : Sorted (keys s)) (u : Updates) (hu : UpdWF u)
    (p after : Key) (limit : Int) (hsafe : SeekSafe (txnSeek p after) p after)
    (hne : ∀ k v, (k, some v) ∈ u → k ≠ p) :
    raftTxnList (keys s) u p after limit = listPage (keys (overlay s u)) p after limit := by
  have hCs : Sorted (seekFrom (keys s) (txnSeek p after)) := sorted_sublist (seekFrom_sublist ..) hs
  have hfp : ∀ k ∈ (seekFrom (keys s) (txnSeek p after)).filter (hasPrefix p), hasPrefix p k = true :=
    fun k hk => (List.mem_filter.mp hk).2
  have htw := takeWhile_prefix_eq_filter p _ hCs _ hsafe.1 (fun k hk => ((mem_seekFrom hs).mp hk).2)
  have hshape : raftTxnList (keys s) u p after limit =
      (let out := (txnFinish0 (txnLoop p after limit (txnDeletions u p after)
          (seekFrom (keys s) (txnSeek p after)) ⟨[], txnPending u p after⟩)).reverse
       if limit > 0 ∧ (out.length : Int) > limit then out.take limit.toNat else out) := rfl
  rw [hshape, txnLoop_takeWhile, htw, listPage_eq]
  simp only
  by_cases hl : limit > 0
  · rw [if_pos hl]
    have h0 := txn_unlimited_eq_spec0 s hs u hu p after 0 (by omega) hsafe hne
    have ht := txn_take p after limit hl (txnDeletions u p after) _ hfp ⟨[], txnPending u p after⟩
    rw [h0] at ht
    split
    · exact ht
    · rename_i hlen
      have hle : (txnFinish0 (txnLoop p after limit (txnDeletions u p after)
          ((seekFrom (keys s) (txnSeek p after)).filter (hasPrefix p)) ⟨[], txnPending u p after⟩)).reverse.length ≤ limit.toNat := by
        have : ¬ ((txnFinish0 (txnLoop p after limit (txnDeletions u p after)
          ((seekFrom (keys s) (txnSeek p after)).filter (hasPrefix p)) ⟨[], txnPending u p after⟩)).reverse.length : Int) > limit :=
          fun h => hlen ⟨hl, h⟩
        omega
      rw [← ht, List.take_of_length_le hle]
  · rw [if_neg hl]
    have hc : ¬ (limit > 0 ∧ ((txnFinish0 (txnLoop p after limit (txnDeletions u p after)
          ((seekFrom (keys s) (txnSeek p after)).filter (hasPrefix p)) ⟨[], txnPending u p after⟩)).reverse.length : Int) > limit) :=
      fun h => hl h.1
    rw [if_neg hc]
    exact txn_unlimited_eq_spec0 s hs u hu p after limit hl hsafe hne

end Obao.Listing
