import Obao.Model.Confine
import Obao.Proofs.Router
/-! Helper lemmas for the confinement theorems of C12 (core Lean only). -/
set_option linter.unusedSimpArgs false
namespace Obao.Confine
open Obao.View Obao.Router

theorem storageOp_some (s : St) (tgt : Target) (kind : Kind) (vk rk : Bytes) (w : Nat)
    (s' : St) (o : Outcome) (tch : Touch) (h : storageOp s tgt kind vk rk w = some (s', o, tch)) :
    isRelativePath vk = false ∧ tch = { tgt := tgt, kind := kind, key := rk } := by
  unfold storageOp at h
  split at h
  · cases h
  · rename_i hr
    refine ⟨by simpa using hr, ?_⟩
    simp only at h
    cases kind <;> simp only at h
    · split at h <;> (injection h with h; injection h with _ h; injection h with _ h; exact h.symm)
    · injection h with h; injection h with _ h; injection h with _ h; exact h.symm
    · injection h with h; injection h with _ h; injection h with _ h; exact h.symm
    · injection h with h; injection h with _ h; injection h with _ h; exact h.symm

/-- what a touch of a request must look like, given the routing result -/
def TouchOk (t : Tok) (routed : Routed) (tch : Touch) : Prop :=
  (∃ m r, routed = .toRec m r ∧ tch.tgt = .mount m.id ∧ isRelativePath tch.key = false) ∨
  (∃ no r, routed = .toCubby no r ∧ tch.tgt = .cubby no t.ord ∧
     isRelativePath (natBytes t.ord ++ [slash] ++ tch.key) = false)

theorem existCheck_ok (t : Tok) (op : OpKind) (routed : Routed) (pre : List Touch)
    (h : existCheck t op routed = some pre) : ∀ tch ∈ pre, TouchOk t routed tch := by
  unfold existCheck at h
  split at h
  · rename_i no r
    split at h
    · cases h
    · rename_i hr
      injection h with h; subst h
      intro tch htch
      simp at htch; subst htch
      exact .inr ⟨no, r, rfl, rfl, by simpa using hr⟩
  · injection h with h; subst h; intro tch h; cases h

theorem backend_ok (s : St) (t : Tok) (op : OpKind) (skey : Bytes) (routed : Routed) (pre : List Touch)
    (hpre : ∀ tch ∈ pre, TouchOk t routed tch) :
    ∀ tch ∈ (backend s t op skey routed pre).2.2, TouchOk t routed tch := by
  unfold backend
  split
  · exact hpre
  · rename_i m r
    split
    · exact hpre
    · split
      · exact hpre
      · rename_i s' o tch0 hs
        obtain ⟨h1, h2⟩ := storageOp_some _ _ _ _ _ _ _ _ _ hs
        intro tch htch
        rcases List.mem_append.mp htch with h | h
        · exact hpre tch h
        · simp at h; subst h; subst h2
          exact .inl ⟨m, r, rfl, rfl, h1⟩
  · rename_i no r
    generalize cubbyKey op r = r'
    split
    · exact hpre
    · split
      · exact hpre
      · rename_i s' o tch0 hs
        obtain ⟨h1, h2⟩ := storageOp_some _ _ _ _ _ _ _ _ _ hs
        intro tch htch
        rcases List.mem_append.mp htch with h | h
        · exact hpre tch h
        · simp at h; subst h; subst h2
          exact .inr ⟨no, r, rfl, rfl, h1⟩

theorem request_touches (s : St) (t : Tok) (ctx : Option Bytes) (hdr path : Bytes) (op : OpKind) (skey : Bytes) :
    ∀ tch ∈ (request s t ctx hdr path op skey).2.2,
      ∃ ns rel, precheck s t ctx hdr path op = .ok (ns, rel) ∧ TouchOk t (routeIn s ns rel) tch := by
  unfold request
  split
  · intro tch h; cases h
  · rename_i ns rel hp
    simp only
    split
    · intro tch h; cases h
    · rename_i pre he
      have hpre := existCheck_ok _ _ _ _ he
      split
      · intro tch h; exact ⟨ns, rel, hp, hpre tch h⟩
      · intro tch h; exact ⟨ns, rel, hp, backend_ok _ _ _ _ _ _ hpre tch h⟩

/-- the namespaces whose mounts the router holds -/
theorem routeIn_rec (s : St) (ns : Ns) (rel : Bytes) (m : Mount) (r : Bytes) (h : routeIn s ns rel = .toRec m r) :
    m ∈ s.mounts ∧ routable s m.ns = true := by
  unfold routeIn at h
  simp only at h
  split at h
  · cases h
  · split at h
    · split at h <;> cases h
    · split at h
      · rename_i m' hm
        injection h with h1 h2; subst h1
        have := List.mem_of_find?_eq_some hm
        rw [List.mem_filter] at this
        exact this
      · cases h

theorem routeIn_cubby (s : St) (ns : Ns) (rel : Bytes) (no : Nat) (r : Bytes) (h : routeIn s ns rel = .toCubby no r) :
    ∃ n ∈ allNs s, routable s n.path = true ∧ nsOrd s n.path = some no := by
  unfold routeIn at h
  simp only at h
  split at h
  · cases h
  · rename_i e adj hf
    split at h
    · rename_i hid
      split at h
      · rename_i no' hno
        injection h with h1 h2; subst h1
        obtain ⟨he, _, _, _⟩ := findEntry_some _ _ _ _ _ hf
        rcases List.mem_append.mp he with he | he
        · rw [List.mem_map] at he
          obtain ⟨n, hn, rfl⟩ := he
          rw [List.mem_filter] at hn
          exact ⟨n, hn.1, hn.2, hno⟩
        · -- a c12rec entry has id ≠ 0 only if its mount id is; ruled out by `e.id = 0` together with the look-up
          rw [List.mem_map] at he
          obtain ⟨m, hm, rfl⟩ := he
          rw [List.mem_filter] at hm
          simp only at hno hid
          -- the entry's `storage` is the mount's namespace path, which is a namespace iff nsOrd finds it
          have : ∃ n ∈ allNs s, n.path = m.ns := by
            unfold nsOrd at hno
            have := List.findIdx?_eq_some_iff_getElem.mp hno
            obtain ⟨hlt, hp, _⟩ := this
            exact ⟨(allNs s)[no'], List.getElem_mem hlt, by simpa using hp⟩
          obtain ⟨n, hn, hpath⟩ := this
          exact ⟨n, hn, by rw [hpath]; exact hm.2, by rw [hpath]; exact hno⟩
      · cases h
    · split at h <;> cases h

/-! ### store invariant: cubbyhole values are labelled with their owner -/

def CubbyInv (s : St) : Prop := ∀ e ∈ s.vals, ∀ no o, e.1.1 = Target.cubby no o → e.2 = o

theorem storageOp_inv (s : St) (tgt : Target) (kind : Kind) (vk rk : Bytes) (w : Nat)
    (s' : St) (o : Outcome) (tch : Touch) (h : storageOp s tgt kind vk rk w = some (s', o, tch))
    (hinv : CubbyInv s) (hw : ∀ no ow, tgt = .cubby no ow → w = ow) : CubbyInv s' := by
  unfold storageOp at h
  split at h
  · cases h
  · simp only at h
    cases kind <;> simp only at h
    · split at h <;> (injection h with h; injection h with h _; subst h; exact hinv)
    · injection h with h; injection h with h _; subst h
      intro e he no ow hte
      simp only at he
      rcases List.mem_cons.mp he with rfl | he
      · exact hw no ow hte
      · exact hinv e (List.mem_filter.mp he).1 no ow hte
    · injection h with h; injection h with h _; subst h
      intro e he no ow hte
      exact hinv e (List.mem_filter.mp he).1 no ow hte
    · injection h with h; injection h with h _; subst h; exact hinv

theorem backend_inv (s : St) (t : Tok) (op : OpKind) (skey : Bytes) (routed : Routed) (pre : List Touch)
    (hinv : CubbyInv s) : CubbyInv (backend s t op skey routed pre).1 := by
  unfold backend
  split
  · exact hinv
  · split
    · exact hinv
    · split
      · exact hinv
      · rename_i hs
        exact storageOp_inv _ _ _ _ _ _ _ _ _ hs hinv (by intro no ow h; cases h)
  · split
    · exact hinv
    · split
      · exact hinv
      · rename_i hs
        exact storageOp_inv _ _ _ _ _ _ _ _ _ hs hinv (by intro no ow h; injection h)

theorem request_inv (s : St) (t : Tok) (ctx : Option Bytes) (hdr path : Bytes) (op : OpKind) (skey : Bytes)
    (hinv : CubbyInv s) : CubbyInv (request s t ctx hdr path op skey).1 := by
  unfold request
  split
  · exact hinv
  · simp only
    split
    · exact hinv
    · split
      · exact hinv
      · exact backend_inv _ _ _ _ _ _ hinv

theorem lookupVal_inv (s : St) (hinv : CubbyInv s) (no o : Nat) (k : Bytes) (w : Nat)
    (h : lookupVal s (.cubby no o, k) = some w) : w = o := by
  unfold lookupVal at h
  cases hf : s.vals.find? (·.1 == (Target.cubby no o, k)) with
  | none => rw [hf] at h; cases h
  | some e =>
    rw [hf] at h
    simp at h; subst h
    have hm := List.mem_of_find?_eq_some hf
    have hk := List.find?_some hf
    simp at hk
    exact hinv e hm no o (by rw [hk])


theorem intercalate_append (A B : List Bytes) (hA : A ≠ []) (hB : B ≠ []) :
    [slash].intercalate (A ++ B) = [slash].intercalate A ++ slash :: [slash].intercalate B := by
  induction A with
  | nil => exact absurd rfl hA
  | cons x A ih =>
    cases A with
    | nil =>
      cases B with
      | nil => exact absurd rfl hB
      | cons b bs => simp [List.intercalate]
    | cons y A =>
      have := ih (by simp)
      cases B with
      | nil => exact absurd rfl hB
      | cons b bs =>
        simp [List.intercalate] at this ⊢
        exact this

theorem matchSegs_lit (isP : Bool) (A W parts : List Bytes) (hA : ∀ seg ∈ A, seg ≠ [plus]) (hW : W ≠ [])
    (h : matchSegs isP (A ++ W) parts = true) : ∃ parts', parts = A ++ parts' ∧ parts' ≠ [] := by
  induction A generalizing parts with
  | nil =>
    refine ⟨parts, rfl, ?_⟩
    intro hp; subst hp
    cases W with
    | nil => exact hW rfl
    | cons w ws => simp [matchSegs] at h
  | cons a A ih =>
    cases parts with
    | nil => simp [matchSegs] at h
    | cons p ps =>
      simp only [List.cons_append, matchSegs] at h
      have ha : a ≠ [plus] := hA a List.mem_cons_self
      split at h
      · rename_i hc
        have hap : a = p := by
          rcases hc with hc | hc
          · exact absurd (by simpa using hc) ha
          · simpa using hc
        subst hap
        obtain ⟨parts', h1, h2⟩ := ih ps (fun seg hs => hA seg (List.mem_cons_of_mem _ hs)) h
        exact ⟨parts', by simp [h1], h2⟩
      · split at h
        · rename_i hc
          have : (A ++ W).isEmpty = false := by
            cases A <;> cases W <;> simp_all
          simp [this] at hc
        · cases h

/-- canonical namespace path: "" (root) or `a ++ "/"` with no "+" segment in `a` (namespace names cannot contain
'+' or '*': `Namespace.Validate`) -/
def CanonNs (p : Bytes) : Prop := p = [] ∨ ∃ a, p = a ++ [slash] ∧ ∀ seg ∈ splitSlash a, seg ≠ [plus]

theorem dropLast_append_ne (a b : Bytes) (hb : b ≠ []) : (a ++ b).dropLast = a ++ b.dropLast := by
  induction a with
  | nil => simp
  | cons c a ih =>
    cases hab : a ++ b with
    | nil => simp at hab; exact absurd hab.2 hb
    | cons x xs => rw [List.cons_append, hab, List.dropLast_cons_cons, ← hab, ih]; rfl

theorem segPattern_prefix (a rest path : Bytes) (hplus : ∀ seg ∈ splitSlash a, seg ≠ [plus])
    (h : matchSegPattern ((a ++ [slash]) ++ rest) path = true) : (a ++ [slash]) <+: path := by
  unfold matchSegPattern at h
  simp only at h
  -- the pattern body (without a trailing '*') still starts with `a ++ "/"`
  have hcur : ∃ rest', (if (((a ++ [slash]) ++ rest).getLast? == some star) = true then ((a ++ [slash]) ++ rest).dropLast
      else (a ++ [slash]) ++ rest) = (a ++ [slash]) ++ rest' := by
    split
    · rename_i hl
      cases rest with
      | nil => simp [star, slash] at hl
      | cons r rs => exact ⟨(r :: rs).dropLast, dropLast_append_ne _ _ (by simp)⟩
    · exact ⟨rest, rfl⟩
  obtain ⟨rest', hcur⟩ := hcur
  rw [hcur] at h
  have hsplit : splitSlash ((a ++ [slash]) ++ rest') = splitSlash a ++ splitSlash rest' := by
    rw [List.append_assoc, List.singleton_append, splitSlash_append_slash]
  rw [hsplit] at h
  split at h
  · cases h
  · split at h
    · cases h
    · obtain ⟨parts', h1, h2⟩ := matchSegs_lit _ _ _ _ hplus (splitSlash_ne_nil rest') h
      have hj := splitSlash_join path
      rw [h1, intercalate_append _ _ (splitSlash_ne_nil a) h2, splitSlash_join] at hj
      exact ⟨[slash].intercalate parts', by rw [← hj]; simp⟩

theorem patMatches_prefix (nsP rest path : Bytes) (hns : CanonNs nsP)
    (h : patMatches (nsP ++ rest) path = true) : nsP <+: path := by
  rcases hns with rfl | ⟨a, rfl, hplus⟩
  · exact List.nil_prefix
  · unfold patMatches at h
    split at h
    · exact segPattern_prefix a rest path hplus h
    · split at h
      · rename_i hl
        cases rest with
        | nil => simp [star, slash] at hl
        | cons r rs =>
          rw [dropLast_append_ne _ _ (by simp)] at h
          have := List.isPrefixOf_iff_prefix.mp h
          exact List.IsPrefix.trans (List.prefix_append _ _) this
      · have : (a ++ [slash]) ++ rest = path := by simpa using h
        rw [← this]; exact List.prefix_append _ _

theorem trimSlash_prefix (p : Bytes) : trimSlash p <+: p := by
  unfold trimSlash
  split
  · exact List.dropLast_prefix p
  · exact List.prefix_refl p

theorem qualify_eq (nsP pat : Bytes) : ∃ rest, qualify nsP pat = nsP ++ rest := ⟨_, rfl⟩

theorem aclAllows_scope (t : Tok) (reqNs rel : Bytes) (isList : Bool) (hns : CanonNs t.ns)
    (h : aclAllows t reqNs rel isList = true) :
    (t.isRoot = true → hasParent reqNs t.ns = true ∨ t.ns <+: reqNs ++ rel) ∧ (t.isRoot = false → t.ns <+: reqNs ++ rel) := by
  unfold aclAllows at h
  split at h
  · rename_i hr
    refine ⟨fun _ => ?_, fun hf => by rw [hr] at hf; cases hf⟩
    rcases Bool.or_eq_true_iff.mp h with h | h
    · exact Or.inl h
    · exact Or.inr (List.isPrefixOf_iff_prefix.mp h)
  · rename_i hr
    refine ⟨fun ht => absurd ht hr, fun _ => ?_⟩
    simp only [List.any_map, List.any_eq_true, Function.comp] at h
    obtain ⟨pat, _, h⟩ := h
    obtain ⟨rest, hq⟩ := qualify_eq t.ns pat
    rw [hq] at h
    simp only [Bool.or_eq_true, Bool.and_eq_true] at h
    rcases h with (h | h) | h
    · exact patMatches_prefix _ _ _ hns h
    · have : t.ns ++ rest = trimSlash (reqNs ++ rel) := by simpa using h.2
      exact List.IsPrefix.trans (by rw [← this]; exact List.prefix_append _ _) (trimSlash_prefix _)
    · exact List.IsPrefix.trans (patMatches_prefix _ _ _ hns h.2) (trimSlash_prefix _)


def PlainSeg (sg : Bytes) : Prop := sg ≠ [] ∧ sg ≠ [dot] ∧ sg ≠ [dot, dot] ∧ sg ≠ [plus]

/-- well-formed namespace path (`Namespace.Validate`): "" or `a ++ "/"` whose segments are non-empty, not "."/".."
and not "+" -/
def WfNs (p : Bytes) : Prop := p = [] ∨ ∃ a, p = a ++ [slash] ∧ ∀ sg ∈ splitSlash a, PlainSeg sg

theorem WfNs.canon {p : Bytes} (h : WfNs p) : CanonNs p := by
  rcases h with h | ⟨a, h1, h2⟩
  · exact .inl h
  · exact .inr ⟨a, h1, fun sg hs => (h2 sg hs).2.2.2⟩

theorem cleanStep_plain (out : List Bytes) (sg : Bytes) (h1 : sg ≠ [dot]) (h2 : sg ≠ [dot, dot]) :
    cleanStep false out sg = if sg = [] then out else out ++ [sg] := by
  unfold cleanStep
  by_cases h : sg = []
  · simp [h]
  · simp [h, h1, h2]

theorem foldl_cleanStep_nodots (B : List Bytes) (out : List Bytes)
    (h : ∀ sg ∈ B, sg ≠ [dot] ∧ sg ≠ [dot, dot]) :
    B.foldl (cleanStep false) out = out ++ B.filter (fun sg => sg != []) := by
  induction B generalizing out with
  | nil => simp
  | cons b B ih =>
    have hb := h b List.mem_cons_self
    rw [List.foldl_cons, cleanStep_plain _ _ hb.1 hb.2, ih _ (fun sg hs => h sg (List.mem_cons_of_mem _ hs))]
    by_cases hbe : b = []
    · simp [hbe]
    · simp [hbe]

theorem nsSegs_slash (a : Bytes) : nsSegs (a ++ [slash]) = splitSlash a := by
  have h1 : splitSlash (a ++ [slash]) = splitSlash a ++ [[]] := by
    simpa [splitSlash] using splitSlash_append_slash a []
  simp [nsSegs, h1]

theorem nsSegs_nil : nsSegs [] = [] := by decide

theorem filter_plain (A : List Bytes) (h : ∀ sg ∈ A, sg ≠ []) : A.filter (fun sg => sg != []) = A := by
  apply List.filter_eq_self.mpr
  intro sg hs; simpa using h sg hs

/-- a well-formed namespace path that is a byte prefix of a dot-free request is found by the tree walk -/
theorem nsSegs_prefix_canonSegs (P full : Bytes) (hP : WfNs P) (hpre : P <+: full)
    (hsafe : ∀ sg ∈ splitSlash full, sg ≠ [dot] ∧ sg ≠ [dot, dot]) : nsSegs P <+: canonSegs full := by
  rcases hP with rfl | ⟨a, rfl, hseg⟩
  · rw [nsSegs_nil]; exact List.nil_prefix
  · obtain ⟨rest, rfl⟩ := hpre
    rw [nsSegs_slash]
    -- `a` starts with a non-'/' byte, so no leading '/' is stripped and the path is not rooted
    obtain ⟨tl, hshape, _⟩ := splitSlash_shape a
    have hhead : a.takeWhile (· != slash) ≠ [] := (hseg _ (by rw [hshape]; exact List.mem_cons_self)).1
    obtain ⟨c, a', rfl, hc⟩ : ∃ c a', a = c :: a' ∧ c ≠ slash := by
      cases a with
      | nil => simp at hhead
      | cons c a' =>
        refine ⟨c, a', rfl, ?_⟩
        intro hc; subst hc; simp [List.takeWhile_cons] at hhead
    have hsplit : splitSlash (c :: a' ++ [slash] ++ rest) = splitSlash (c :: a') ++ splitSlash rest := by
      rw [List.append_assoc, List.singleton_append, splitSlash_append_slash]
    unfold canonSegs
    simp only [List.cons_append, hc, if_false, List.head?_cons]
    have hnr : (some c == some slash) = false := by simp [hc]
    rw [hnr]
    simp only [Bool.false_eq_true, if_false]
    have hsplit' : splitSlash (c :: (a' ++ [slash] ++ rest)) = splitSlash (c :: a') ++ splitSlash rest := by
      simpa using hsplit
    rw [hsplit', foldl_cleanStep_nodots _ _ (by
      intro sg hs; exact hsafe sg (by rw [hsplit]; exact hs))]
    rw [List.nil_append, List.filter_append, filter_plain _ (fun sg hs => (hseg sg hs).1)]
    exact List.prefix_append _ _

theorem deepestNs_none (L : List Ns) (segs : List Bytes) (h : deepestNs L segs = none) :
    ∀ n ∈ L, ¬ nsSegs n.path <+: segs := by
  induction L with
  | nil => intro n hn; cases hn
  | cons y L ih =>
    unfold deepestNs at h
    split at h
    · split at h <;> cases h
    · rename_i hn
      split at h
      · cases h
      · rename_i hy
        intro n hn' hp
        rcases List.mem_cons.mp hn' with rfl | hn'
        · exact hy (List.isPrefixOf_iff_prefix.mpr hp)
        · exact ih hn n hn' hp

theorem deepestNs_some (L : List Ns) (segs : List Bytes) (n : Ns) (h : deepestNs L segs = some n) :
    n ∈ L ∧ nsSegs n.path <+: segs ∧ ∀ n' ∈ L, nsSegs n'.path <+: segs → n'.path.length ≤ n.path.length := by
  induction L generalizing n with
  | nil => simp [deepestNs] at h
  | cons x L ih =>
    unfold deepestNs at h
    split at h
    · rename_i b hb
      obtain ⟨hb1, hb2, hb3⟩ := ih b hb
      split at h
      · rename_i hc
        injection h with h; subst h
        refine ⟨List.mem_cons_self, List.isPrefixOf_iff_prefix.mp hc.1, ?_⟩
        intro n' hn' hp
        rcases List.mem_cons.mp hn' with rfl | hn'
        · exact Nat.le_refl _
        · exact Nat.le_trans (hb3 n' hn' hp) (Nat.le_of_lt hc.2)
      · rename_i hc
        injection h with h; subst h
        refine ⟨List.mem_cons_of_mem _ hb1, hb2, ?_⟩
        intro n' hn' hp
        rcases List.mem_cons.mp hn' with rfl | hn'
        · by_cases h1 : (nsSegs n'.path).isPrefixOf segs = true
          · have : ¬ (b.path.length < n'.path.length) := fun h2 => hc ⟨h1, h2⟩
            omega
          · exact absurd (List.isPrefixOf_iff_prefix.mpr hp) h1
        · exact hb3 n' hn' hp
    · rename_i hn
      split at h
      · rename_i hc
        injection h with h; subst h
        refine ⟨List.mem_cons_self, List.isPrefixOf_iff_prefix.mp hc, ?_⟩
        intro n' hn' hp
        rcases List.mem_cons.mp hn' with rfl | hn'
        · exact Nat.le_refl _
        · exact absurd hp (deepestNs_none L segs hn n' hn')
      · cases h

theorem ns_prefix_of_segs (p1 p2 : Bytes) (h1 : WfNs p1) (h2 : WfNs p2) (h : nsSegs p1 <+: nsSegs p2) : p1 <+: p2 := by
  rcases h1 with rfl | ⟨a1, rfl, _⟩
  · exact List.nil_prefix
  · rw [nsSegs_slash] at h
    rcases h2 with rfl | ⟨a2, rfl, _⟩
    · rw [nsSegs_nil] at h
      exact absurd (List.prefix_nil.mp h) (splitSlash_ne_nil a1)
    · rw [nsSegs_slash] at h
      obtain ⟨more, hm⟩ := h
      cases more with
      | nil =>
        have : a1 = a2 := by
          have := congrArg ([slash].intercalate ·) hm
          simpa [splitSlash_join] using this
        rw [this]; exact List.prefix_refl _
      | cons m ms =>
        have := congrArg ([slash].intercalate ·) hm
        rw [intercalate_append _ _ (splitSlash_ne_nil a1) (by simp), splitSlash_join, splitSlash_join] at this
        exact ⟨[slash].intercalate (m :: ms) ++ [slash], by rw [← this]; simp⟩

theorem ns_prefix_of_common (p1 p2 : Bytes) (S : List Bytes) (h1 : WfNs p1) (h2 : WfNs p2)
    (hs1 : nsSegs p1 <+: S) (hs2 : nsSegs p2 <+: S) (hlen : p1.length ≤ p2.length) : p1 <+: p2 := by
  rcases List.prefix_or_prefix_of_prefix hs1 hs2 with h | h
  · exact ns_prefix_of_segs _ _ h1 h2 h
  · have hp := ns_prefix_of_segs _ _ h2 h1 h
    have : p2 = p1 := List.IsPrefix.eq_of_length_le hp hlen
    rw [this]; exact List.prefix_refl _



theorem longestNs_none (L : List Ns) (q : Bytes) (h : longestNs L q = none) : ∀ n ∈ L, ¬ n.path <+: q := by
  induction L with
  | nil => intro n hn; cases hn
  | cons y L ih =>
    unfold longestNs at h
    split at h
    · split at h <;> cases h
    · rename_i hn
      split at h
      · cases h
      · rename_i hy
        intro n hn' hp
        rcases List.mem_cons.mp hn' with rfl | hn'
        · exact hy (List.isPrefixOf_iff_prefix.mpr hp)
        · exact ih hn n hn' hp

theorem longestNs_some (L : List Ns) (q : Bytes) (n : Ns) (h : longestNs L q = some n) :
    n ∈ L ∧ n.path <+: q ∧ ∀ n' ∈ L, n'.path <+: q → n'.path.length ≤ n.path.length := by
  induction L generalizing n with
  | nil => simp [longestNs] at h
  | cons x L ih =>
    unfold longestNs at h
    split at h
    · rename_i b hb
      obtain ⟨hb1, hb2, hb3⟩ := ih b hb
      split at h
      · rename_i hc
        injection h with h; subst h
        refine ⟨List.mem_cons_self, List.isPrefixOf_iff_prefix.mp hc.1, ?_⟩
        intro n' hn' hp
        rcases List.mem_cons.mp hn' with rfl | hn'
        · exact Nat.le_refl _
        · exact Nat.le_trans (hb3 n' hn' hp) (Nat.le_of_lt hc.2)
      · rename_i hc
        injection h with h; subst h
        refine ⟨List.mem_cons_of_mem _ hb1, hb2, ?_⟩
        intro n' hn' hp
        rcases List.mem_cons.mp hn' with rfl | hn'
        · by_cases h1 : n'.path.isPrefixOf q = true
          · have : ¬ (b.path.length < n'.path.length) := fun h2 => hc ⟨h1, h2⟩
            omega
          · exact absurd (List.isPrefixOf_iff_prefix.mpr hp) h1
        · exact hb3 n' hn' hp
    · rename_i hn
      split at h
      · rename_i hc
        injection h with h; subst h
        refine ⟨List.mem_cons_self, List.isPrefixOf_iff_prefix.mp hc, ?_⟩
        intro n' hn' hp
        rcases List.mem_cons.mp hn' with rfl | hn'
        · exact Nat.le_refl _
        · exact absurd hp (longestNs_none L q hn n' hn')
      · cases h

/-- namespace table well-formedness kept by every history: paths are non-empty and pairwise distinct -/
def NsWf (s : St) : Prop :=
  (∀ a ∈ s.nss, a.path ≠ []) ∧ (∀ a ∈ s.nss, ∀ b ∈ s.nss, a.path = b.path → a = b)

/-- a sealed own-barrier namespace at or above `q` makes `q` unroutable -/
theorem routable_no_sealed_above (s : St) (hwf : NsWf s) (q : Bytes) (hr : routable s q = true) :
    ∀ a ∈ s.nss, a.sealable = true → a.sealed = true → ¬ a.path <+: q := by
  intro a ha hsl hsd hp
  unfold routable at hr
  have h1 : underSealed s q = false := by cases h : underSealed s q <;> simp_all
  have h2 : nsSealed s q = false := by cases h : nsSealed s q <;> simp_all
  by_cases hq : a.path = q
  · -- the nearest own-barrier namespace of `q` is `a` itself
    unfold nsSealed at h2
    have haL : a ∈ (allNs s).filter (fun n => n.sealable || n.path == []) := by
      rw [List.mem_filter]; exact ⟨List.mem_cons_of_mem _ ha, by simp [hsl]⟩
    cases hl : longestNs ((allNs s).filter (fun n => n.sealable || n.path == [])) q with
    | none => exact longestNs_none _ _ hl a haL hp
    | some b =>
      rw [hl] at h2
      obtain ⟨hb1, hb2, hb3⟩ := longestNs_some _ _ _ hl
      have hlen := hb3 a haL hp
      have hbq : b.path = q := by
        rw [hq] at hlen
        exact List.IsPrefix.eq_of_length_le hb2 hlen
      have hbmem := (List.mem_filter.mp hb1).1
      rcases List.mem_cons.mp hbmem with hb | hb
      · -- the root entry has the empty path, `a` has not
        rw [hb] at hbq; simp at hbq
        exact hwf.1 a ha (by rw [hq, ← hbq])
      · have := hwf.2 a ha b hb (by rw [hq, hbq])
        rw [← this] at h2
        simp at h2; rw [hsd] at h2; cases h2
  · unfold underSealed at h1
    have : (s.nss.any fun n => n.sealable && n.sealed && n.path.isPrefixOf q && n.path != q) = true := by
      rw [List.any_eq_true]
      exact ⟨a, ha, by simp [hsl, hsd, List.isPrefixOf_iff_prefix.mpr hp, hq]⟩
    rw [this] at h1; cases h1

theorem sealNs_covers (s : St) (p : Bytes) :
    ∀ n ∈ (sealNs s p).nss, n.sealable = true → p <+: n.path → n.sealed = true := by
  intro n hn hsl hp
  unfold sealNs at hn
  simp only [List.mem_map] at hn
  obtain ⟨m, _, rfl⟩ := hn
  split
  · rfl
  · rename_i hc
    split at hsl <;> split at hp <;> simp_all [List.isPrefixOf_iff_prefix]

theorem unsealNs_other (s : St) (p : Bytes) (c : Ns) (hc : c ∈ s.nss) (hne : c.path ≠ p) : c ∈ (unsealNs s p).nss := by
  unfold unsealNs
  simp only [List.mem_map]
  exact ⟨c, hc, by simp [hne]⟩

theorem sealNs_keeps_sealed (s : St) (p : Bytes) (c : Ns) (hc : c ∈ s.nss) (hs : c.sealed = true) : c ∈ (sealNs s p).nss := by
  unfold sealNs
  simp only [List.mem_map]
  refine ⟨c, hc, ?_⟩
  split
  · cases c; simp_all
  · rfl

theorem backend_nss (s : St) (t : Tok) (op : OpKind) (skey : Bytes) (routed : Routed) (pre : List Touch) :
    (backend s t op skey routed pre).1.nss = s.nss := by
  have hso : ∀ (tgt : Target) (kind : Kind) (vk rk : Bytes) (w : Nat) (s' : St) (o : Outcome) (tch : Touch),
      storageOp s tgt kind vk rk w = some (s', o, tch) → s'.nss = s.nss := by
    intro tgt kind vk rk w s' o tch h
    unfold storageOp at h
    split at h
    · cases h
    · simp only at h
      cases kind <;> simp only at h
      · split at h <;> (injection h with h; injection h with h _; subst h; rfl)
      · injection h with h; injection h with h _; subst h; rfl
      · injection h with h; injection h with h _; subst h; rfl
      · injection h with h; injection h with h _; subst h; rfl
  unfold backend
  split
  · rfl
  · split
    · rfl
    · split
      · rfl
      · rename_i hs; exact hso _ _ _ _ _ _ _ _ hs
  · split
    · rfl
    · split
      · rfl
      · rename_i hs; exact hso _ _ _ _ _ _ _ _ hs

theorem request_nss (s : St) (t : Tok) (ctx : Option Bytes) (hdr path : Bytes) (op : OpKind) (skey : Bytes) :
    (request s t ctx hdr path op skey).1.nss = s.nss := by
  unfold request
  split
  · rfl
  · simp only
    split
    · rfl
    · split
      · rfl
      · exact backend_nss _ _ _ _ _ _

theorem NsWf_map (s : St) (f : Ns → Ns) (hf : ∀ n, (f n).path = n.path) (h : NsWf s) :
    NsWf { s with nss := s.nss.map f } := by
  constructor
  · intro a ha
    simp only [List.mem_map] at ha
    obtain ⟨a0, ha0, rfl⟩ := ha
    rw [hf]; exact h.1 a0 ha0
  · intro a ha b hb hab
    simp only [List.mem_map] at ha hb
    obtain ⟨a0, ha0, rfl⟩ := ha
    obtain ⟨b0, hb0, rfl⟩ := hb
    rw [hf, hf] at hab
    rw [h.2 a0 ha0 b0 hb0 hab]

theorem stepEv_wf (s : St) (ev : Ev) (h : NsWf s) : NsWf (stepEv s ev) := by
  cases ev with
  | addNs p sl =>
    simp only [stepEv, addNs]
    split
    · exact h
    · rename_i hc
      have hnone : ∀ m ∈ allNs s, ¬ p <+: m.path := by
        intro m hm hp
        apply hc
        rw [List.any_eq_true]
        exact ⟨m, hm, List.isPrefixOf_iff_prefix.mpr hp⟩
      constructor
      · intro a ha
        simp only [List.mem_append, List.mem_singleton] at ha
        rcases ha with ha | rfl
        · exact h.1 a ha
        · intro hp
          simp only at hp
          exact hnone _ List.mem_cons_self (by rw [hp]; exact List.nil_prefix)
      · intro a ha b hb hab
        simp only [List.mem_append, List.mem_singleton] at ha hb
        rcases ha with ha | rfl <;> rcases hb with hb | rfl
        · exact h.2 a ha b hb hab
        · simp only at hab
          exact absurd (by rw [hab]; exact List.prefix_refl _) (hnone a (List.mem_cons_of_mem _ ha))
        · simp only at hab
          exact absurd (by rw [← hab]; exact List.prefix_refl _) (hnone b (List.mem_cons_of_mem _ hb))
        · rfl
  | sealEv p =>
    simp only [stepEv, sealOp]
    split
    · exact h
    · simp only [if_true]
      exact NsWf_map s _ (by intro n; split <;> rfl) h
  | unsealEv p =>
    simp only [stepEv, sealOp]
    split
    · exact h
    · simp only [Bool.false_eq_true, if_false]
      exact NsWf_map s _ (by intro n; split <;> rfl) h
  | req t ctx hdr path op skey =>
    simp only [stepEv]
    have := request_nss s t ctx hdr path op skey
    exact ⟨by rw [this]; exact h.1, by rw [this]; exact h.2⟩
  | setup m tk => exact h

theorem runEvs_wf (evs : List Ev) (s : St) (h : NsWf s) : NsWf (runEvs s evs) := by
  induction evs generalizing s with
  | nil => exact h
  | cons e es ih => exact ih _ (stepEv_wf s e h)

/-- a sealed own-barrier namespace stays sealed through every history without an unseal of ITSELF -/
theorem stays_sealed (evs : List Ev) (s : St) (c : Ns) (hc : c ∈ s.nss) (hs : c.sealed = true)
    (hno : ∀ e ∈ evs, e ≠ Ev.unsealEv c.path) : c ∈ (runEvs s evs).nss := by
  induction evs generalizing s with
  | nil => exact hc
  | cons e es ih =>
    apply ih _ _ (fun e' he' => hno e' (List.mem_cons_of_mem _ he'))
    have hne := hno e List.mem_cons_self
    cases e with
    | addNs p sl =>
      simp only [stepEv, addNs]
      split
      · exact hc
      · exact List.mem_append_left _ hc
    | sealEv p =>
      simp only [stepEv, sealOp]
      split
      · exact hc
      · exact sealNs_keeps_sealed s p c hc hs
    | unsealEv p =>
      simp only [stepEv, sealOp]
      split
      · exact hc
      · exact unsealNs_other s p c hc (fun h => hne (by rw [h]))
    | req t ctx hdr path op skey =>
      simp only [stepEv]; rw [request_nss]; exact hc
    | setup m tk => exact hc


end Obao.Confine
