import Obao.Proofs.TxnMerge2
/-! `RaftTransaction.ListPage` with pending writes: limit handling, the overlay store, final theorem. Core Lean only. -/
namespace Obao.Listing
open Obao.KV

/-! ### the limit is a truncation -/

theorem txnFinish0_suffix (st : TxnLoopSt) : ∃ more, txnFinish0 st = more ++ st.out := ⟨_, rfl⟩

theorem txnLoop_suffix (p after : Key) (limit : Int) (D ks : List Key) (hp : ∀ k ∈ ks, hasPrefix p k = true) (st : TxnLoopSt) :
    ∃ more, (txnLoop p after limit D ks st).out = more ++ st.out := by
  induction ks generalizing st with
  | nil => exact ⟨[], rfl⟩
  | cons k rest ih =>
    have hp' : ∀ k' ∈ rest, hasPrefix p k' = true := fun k' hk' => hp k' (List.mem_cons_of_mem _ hk')
    obtain ⟨out, U⟩ := st
    rw [txnLoop_cons p after limit D k rest out U (hp k (List.mem_cons_self ..))]
    split
    · exact ⟨[], rfl⟩
    · split
      · exact ih hp' _
      · split
        · exact ih hp' _
        · split
          · obtain ⟨m, hm⟩ := ih hp' ⟨(U.filter (fun u => decide (u < child p k ∧ lastOf out < u))).reverse ++ out,
              U.filter (fun u => !decide (u < child p k ∧ lastOf out < u))⟩
            exact ⟨m ++ (U.filter (fun u => decide (u < child p k ∧ lastOf out < u))).reverse, by rw [hm]; simp⟩
          · obtain ⟨m, hm⟩ := ih hp' ⟨child p k :: ((U.filter (fun u => decide (u < child p k ∧ lastOf out < u))).reverse ++ out),
              (U.filter (fun u => !decide (u < child p k ∧ lastOf out < u))).filter (· ≠ child p k)⟩
            exact ⟨m ++ child p k :: (U.filter (fun u => decide (u < child p k ∧ lastOf out < u))).reverse, by rw [hm]; simp⟩

theorem txn_take (p after : Key) (limit : Int) (hl : limit > 0) (D ks : List Key) (hp : ∀ k ∈ ks, hasPrefix p k = true)
    (st : TxnLoopSt) :
    ((txnFinish0 (txnLoop p after limit D ks st)).reverse).take limit.toNat
      = ((txnFinish0 (txnLoop p after 0 D ks st)).reverse).take limit.toNat := by
  induction ks generalizing st with
  | nil => rfl
  | cons k rest ih =>
    have hp' : ∀ k' ∈ rest, hasPrefix p k' = true := fun k' hk' => hp k' (List.mem_cons_of_mem _ hk')
    obtain ⟨out, U⟩ := st
    by_cases hfull : (out.length : Int) ≥ limit
    · -- the limited loop stops here; everything the unlimited loop adds comes after the first `limit` entries
      rw [txnLoop_cons p after limit D k rest out U (hp k (List.mem_cons_self ..)), if_pos ⟨hl, hfull⟩]
      obtain ⟨m1, h1⟩ := txnFinish0_suffix ⟨out, U⟩
      obtain ⟨m2, h2⟩ := txnLoop_suffix p after 0 D (k :: rest) hp ⟨out, U⟩
      obtain ⟨m3, h3⟩ := txnFinish0_suffix (txnLoop p after 0 D (k :: rest) ⟨out, U⟩)
      rw [h1, h3, h2]
      simp only [List.reverse_append]
      have hlen : limit.toNat ≤ out.reverse.length := by simp; omega
      rw [List.take_append_of_le_length hlen, List.append_assoc, List.take_append_of_le_length hlen]
    · rw [txnLoop_cons p after limit D k rest out U (hp k (List.mem_cons_self ..)),
        txnLoop_cons p after 0 D k rest out U (hp k (List.mem_cons_self ..))]
      have h1 : ¬ (limit > 0 ∧ (out.length : Int) ≥ limit) := fun h => hfull h.2
      have h0 : ¬ ((0 : Int) > 0 ∧ (out.length : Int) ≥ 0) := by omega
      rw [if_neg h1, if_neg h0]
      split
      · exact ih hp' _
      · split
        · exact ih hp' _
        · split
          · exact ih hp' _
          · exact ih hp' _

/-! ### the pending-write sets -/

theorem mem_sortSet {l : List Key} {x : Key} : x ∈ sortSet l ↔ x ∈ l := by
  unfold sortSet
  induction l with
  | nil => simp
  | cons a as ih => simp only [List.foldr_cons, mem_insertKey, ih, List.mem_cons]

theorem sorted_sortSet (l : List Key) : Sorted (sortSet l) := by
  unfold sortSet
  induction l with
  | nil => simp [Sorted]
  | cons a as ih => exact sorted_insertKey ih

/-- pending writes hold at most one record per key (what `updSet` maintains) -/
def UpdWF (u : Updates) : Prop := (u.map (·.1)).Nodup

theorem updWF_nil : UpdWF [] := by simp [UpdWF]

theorem updWF_updSet {u : Updates} (h : UpdWF u) (k : Key) (r : Option Val) : UpdWF (updSet u k r) := by
  unfold UpdWF updSet at *
  simp only [List.map_cons, List.nodup_cons, List.mem_map, not_exists, not_and]
  refine ⟨?_, ?_⟩
  · intro e he
    have := (List.mem_filter.mp he).2
    simpa using this
  · exact List.Nodup.sublist (List.Sublist.map _ (List.filter_sublist)) h

theorem updGet_of_mem {u : Updates} (h : UpdWF u) {k : Key} {r : Option Val} (hm : (k, r) ∈ u) : updGet u k = some r := by
  induction u with
  | nil => simp at hm
  | cons e rest ih =>
    obtain ⟨k0, r0⟩ := e
    unfold UpdWF at h ih
    simp only [List.map_cons, List.nodup_cons] at h
    simp only [updGet]
    rcases List.mem_cons.mp hm with e1 | m
    · cases e1; simp
    · have hne : k0 ≠ k := by
        intro e1; subst e1
        exact h.1 (List.mem_map.mpr ⟨(k0, r), m, rfl⟩)
      simp only [hne, if_false]
      exact ih h.2 m

theorem mem_of_updGet {u : Updates} {k : Key} {r : Option Val} (h : updGet u k = some r) : (k, r) ∈ u := by
  induction u with
  | nil => simp [updGet] at h
  | cons e rest ih =>
    obtain ⟨k0, r0⟩ := e
    simp only [updGet] at h
    split at h
    · rename_i hk; subst hk; cases h; exact List.mem_cons_self ..
    · exact List.mem_cons_of_mem _ (ih h)

/-- keys of the store the transaction presents -/
theorem mem_keys_overlay (s : Store) (u : Updates) (k : Key) :
    k ∈ keys (overlay s u) ↔ (∃ v, updGet u k = some (some v)) ∨ (updGet u k = none ∧ k ∈ keys s) := by
  unfold overlay
  induction u with
  | nil => simp [updGet]
  | cons e rest ih =>
    obtain ⟨k0, r0⟩ := e
    simp only [List.foldr_cons, updGet]
    cases r0 with
    | some v0 =>
      simp only
      rw [mem_keys_kvPut, ih]
      by_cases hk : k0 = k
      · subst hk; simp
      · have : ¬ k = k0 := fun e => hk e.symm
        simp [hk, this]
    | none =>
      simp only
      rw [mem_keys_kvDel, ih]
      by_cases hk : k0 = k
      · subst hk; simp
      · have : k ≠ k0 := fun e => hk e.symm
        simp [hk, this]

theorem sorted_keys_overlay (s : Store) (u : Updates) (hs : Sorted (keys s)) : Sorted (keys (overlay s u)) := by
  unfold overlay
  induction u with
  | nil => exact hs
  | cons e rest ih =>
    obtain ⟨k0, r0⟩ := e
    simp only [List.foldr_cons]
    cases r0 with
    | some v0 => exact sorted_keys_kvPut k0 v0 ih
    | none => exact sorted_keys_kvDel k0 ih

end Obao.Listing
