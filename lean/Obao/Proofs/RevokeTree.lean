import Obao.Proofs.RevokeDfs
/-!
From the DFS loop to whole requests: `revokeTree`, `expRevoke`, the cascading revocation requests; the global
invariant `Inv` of fault-free sequential histories.
-/
namespace Obao.Revoke

theorem mu_le (stack seen : List Nat) (n : Nat) : mu stack seen n ≤ 2 * n := by
  unfold mu
  apply sum_map_le_two
  intro x
  unfold wt
  split
  · split <;> omega
  · omega

theorem linv_init {s : St} {t : Nat} (hf : FInv s) (ht : (s.ids t).isSome) : LInv s t [t] [] s := by
  refine ⟨Shrink.refl s, hf, ?_, by simp, ?_, ?_, ?_, ?_, ?_, ?_, rfl⟩
  · intro y hy; simp at hy; subst hy; exact ht
  · intro y hy; cases hy
  · intro y hy; cases hy
  · intro y hy; cases hy
  · intro y h1 h2; rw [h2] at h1; cases h1
  · intro c hc hct; simp at hc; exact absurd hc hct
  · intro y hy; simp at hy; omega

/-- a fault-free tree revocation of a stored token from a forest state: succeeds and purges -/
theorem run_revokeTree {s : St} {t : Nat} (F : Nat) (hf : FInv s) (ht : (s.ids t).isSome)
    (hF : 2 * s.next + 4 ≤ F) :
    ∃ σ, run (revokeTree F t) s = (.ok (), σ) ∧ Post s t σ := by
  obtain ⟨F2, rfl⟩ : ∃ F2, F = F2 + 2 := ⟨F - 2, by omega⟩
  obtain ⟨e, he⟩ := Option.isSome_iff_exists.mp ht
  unfold revokeTree
  simp only [bind_eq]
  rw [run_bind, run_lookup F2 t true s (fun e' he' h0 => (hf.tok t e' he').cache h0)]
  simp only
  exact dfs_loop s t (2 * s.next) [t] [] s (F2 + 1) (linv_init hf ht) (by simp) (mu_le _ _ _) (by omega)

/-- everything reachable from `t` through parent links of stored entries is gone after `Post` -/
theorem post_desc {s σ : St} {t : Nat} (hf : FInv s) (ht : (s.ids t).isSome) (hp : Post s t σ) :
    ∀ x, Desc s t x → (s.ids x).isSome ∧ σ.ids x = none := by
  intro x hx
  induction hx with
  | self => exact ⟨ht, hp.gone⟩
  | @child c p e _ hc hpar ih =>
    refine ⟨by simp [hc], ?_⟩
    exact hp.closed p ih.1 ih.2 c (hf.entry_edge c e p hc hpar)

theorem shrink_dead {s σ : St} (hs : Shrink s σ) {x : Nat} (h1 : (s.ids x).isSome) (h2 : σ.ids x = none) :
    Dead σ x := by
  rcases hs.ids x with h | h
  · rw [h2] at h; rw [← h] at h1; cases h1
  · exact h.2.1

/-- `ExpirationManager.Revoke` of the lease of a stored token -/
theorem run_expRevoke {s : St} {t : Nat} (F : Nat) (hf : FInv s) (ht : (s.ids t).isSome)
    (hl : (s.tl t).isSome) (hF : 2 * s.next + 5 ≤ F) :
    ∃ σ, run (expRevoke F t) s = (.ok (), σ) ∧ Post s t σ := by
  obtain ⟨F2, rfl⟩ : ∃ F2, F = F2 + 1 := ⟨F - 1, by omega⟩
  obtain ⟨b, hb⟩ := Option.isSome_iff_exists.mp hl
  obtain ⟨σ, hrun, hpost⟩ := run_revokeTree F2 hf ht (by omega)
  refine ⟨σ, ?_, hpost⟩
  unfold expRevoke
  simp only [bind_eq, pure_eq, run_bind, run_getTL, hb, hrun, run_delKey, run_cacheSet, St.delKey]
  have hd := shrink_dead hpost.sh ht hpost.gone
  have hc : σ.cache t = none := by
    rcases hpost.sh.ids t with h | h
    · rw [hpost.gone] at h; rw [← h] at ht; cases ht
    · exact h.2.2.1
  congr 1
  apply St.ext' <;> try rfl
  · funext x
    show (if x = t then none else σ.tl x) = σ.tl x
    split
    · rename_i h; subst h; exact hd.noLease.symm
    · rfl
  · funext x
    show (if x = t then none else σ.cache x) = σ.cache x
    split
    · rename_i h; subst h; exact hc.symm
    · rfl


/-- what holds between requests in every fault-free sequential history -/
structure Inv (s : St) : Prop where
  fi : FInv s
  unmarked : ∀ x e, s.ids x = some e → e.marked = false
  lease : ∀ x e, s.ids x = some e → x ≠ 0 → s.tl x = some false
  acc : ∀ x e, s.ids x = some e → s.acc x = true
  cacheEq : ∀ x, s.cache x = s.tl x
  deadClean : ∀ x, s.ids x = none → Dead s x
  parentLive : ∀ c e p, s.ids c = some e → e.parent = some p → (s.ids p).isSome
  pendClean : ∀ k, s.pend k ≠ some true

theorem Inv.lkRes {s : St} (hI : Inv s) (x : Nat) (tn : Bool) : lkRes s x tn = s.ids x := by
  unfold Obao.Revoke.lkRes
  cases h : s.ids x with
  | none => rfl
  | some e => simp [hI.unmarked x e h]

theorem Inv.run_lookup {s : St} (hI : Inv s) (f x : Nat) (tn : Bool) :
    run (lookup (f+1) x tn) s = (.ok (s.ids x), s) := by
  rw [Obao.Revoke.run_lookup f x tn s, hI.lkRes]
  intro e he h0
  rw [hI.cacheEq, hI.lease x e he h0]

theorem Inv.run_auth {s : St} (hI : Inv s) (f r : Nat) :
    run (auth (f+1) r) s = (if (s.ids r).isSome then .ok () else .error .denied, s) := by
  unfold auth
  simp only [bind_eq, pure_eq]
  rw [run_bind, hI.run_lookup]
  cases h : s.ids r with
  | none =>
    simp only
    rw [run_bind, hI.run_lookup, h]
    rfl
  | some e => rfl

theorem Inv.run_authE {s : St} (hI : Inv s) (f r : Nat) :
    run (authE (f+1) r) s = (match s.ids r with | some e => .ok e | none => .error .denied, s) := by
  unfold authE
  simp only [bind_eq, pure_eq]
  rw [run_bind, hI.run_lookup]
  cases h : s.ids r with
  | none =>
    simp only
    rw [run_bind, hI.run_lookup, h]
    rfl
  | some e => rfl

theorem Inv.run_sudoCheck {s : St} (hI : Inv s) (f r : Nat) :
    run (sudoCheck (f+1) r) s = (.ok (s.ids r).isSome, s) := by
  unfold sudoCheck
  rw [run_bindE, hI.run_lookup]
  cases s.ids r <;> rfl

theorem run_createOrFetch_some {s : St} {t : Nat} (h : (s.tl t).isSome) : run (createOrFetch t) s = (.ok (), s) := by
  obtain ⟨b, hb⟩ := Option.isSome_iff_exists.mp h
  unfold createOrFetch
  simp [run_bind, run_getTL, hb]

/-- the three ways a cascading revocation request can end -/
def CascadeOutcome (s : St) (t : Nat) (p : Prog Unit) : Prop :=
  (∃ r, run p s = (r, s) ∧ (okB r = true → s.ids t = none)) ∨
  (∃ σ, run p s = (.ok (), σ) ∧ (s.ids t).isSome ∧ Post s t σ)

theorem Inv.tl_some {s : St} (hI : Inv s) {t : Nat} (ht0 : t ≠ 0) (ht : (s.ids t).isSome) : (s.tl t).isSome := by
  obtain ⟨e, he⟩ := Option.isSome_iff_exists.mp ht
  rw [hI.lease t e he ht0]; rfl

theorem Inv.expRevoke {s : St} (hI : Inv s) (g : Nat) (hF : 2 * s.next + 8 ≤ g + 1) {t : Nat} (ht0 : t ≠ 0)
    (ht : (s.ids t).isSome) : ∃ σ, run (expRevoke (g+1) t) s = (.ok (), σ) ∧ Post s t σ :=
  run_expRevoke (g+1) hI.fi ht (hI.tl_some ht0 ht) (by omega)

theorem run_revokeCommon {s : St} (hI : Inv s) (g : Nat) (hF : 2 * s.next + 8 ≤ g + 1) (t : Nat) (ht0 : t ≠ 0) :
    CascadeOutcome s t (revokeCommon (g+1) t) := by
  unfold revokeCommon
  simp only [bind_eq, pure_eq]
  cases ht : s.ids t with
  | none =>
    left
    refine ⟨.ok (), ?_, fun _ => (by first | exact ht | rfl)⟩
    rw [run_bind, hI.run_lookup, ht]; rfl
  | some e =>
    have hts : (s.ids t).isSome := by simp [ht]
    obtain ⟨σ, h1, h2⟩ := hI.expRevoke g hF ht0 hts
    right
    refine ⟨σ, ?_, (by first | exact hts | rfl), h2⟩
    rw [run_bind, hI.run_lookup, ht]
    simp only
    rw [run_bind, run_createOrFetch_some (hI.tl_some ht0 hts)]
    exact h1

theorem CascadeOutcome.after_auth {s : St} (hI : Inv s) (g r t : Nat) {p : Prog Unit}
    (h : CascadeOutcome s t p) : CascadeOutcome s t ((auth (g+1) r).bind fun _ => p) := by
  unfold CascadeOutcome at *
  rw [run_bind, hI.run_auth]
  cases hr : (s.ids r).isSome with
  | false => exact .inl ⟨_, rfl, by intro h'; cases h'⟩
  | true => exact h

/-- outcome of a cascading revocation request from an `Inv` state (target not the root): refused or a no-op on
an already revoked target (state unchanged), or success with the target's tree purged -/
theorem run_cascade {s : St} (hI : Inv s) (f : Nat) (hF : 2 * s.next + 8 ≤ f) (q : Req) (t : Nat)
    (hq : q.cascadeTarget = some t) (ht0 : t ≠ 0) : CascadeOutcome s t (q.prog f) := by
  obtain ⟨g, rfl⟩ : ∃ g, f = g + 1 := ⟨f - 1, by omega⟩
  match q, hq with
  | .revoke r _, rfl =>
    unfold Req.prog
    simp only [bind_eq]
    exact (run_revokeCommon hI g hF t ht0).after_auth hI g r t
  | .revokeSelf _, rfl =>
    unfold Req.prog
    simp only [bind_eq]
    exact (run_revokeCommon hI g hF t ht0).after_auth hI g t t
  | .revokeAcc r _, rfl =>
    unfold Req.prog
    simp only [bind_eq, pure_eq]
    refine CascadeOutcome.after_auth hI g r t ?_
    unfold CascadeOutcome
    cases ht : s.ids t with
    | none =>
      left
      refine ⟨.ok (), ?_, fun _ => (by first | exact ht | rfl)⟩
      rw [run_bind, run_getKey]
      simp only [St.getKey, (hI.deadClean t ht).noAcc, Bool.false_eq_true, if_false, run_ret]
    | some e =>
      have hts : (s.ids t).isSome := by simp [ht]
      obtain ⟨σ, h1, h2⟩ := hI.expRevoke g hF ht0 hts
      right
      refine ⟨σ, ?_, (by first | exact hts | rfl), h2⟩
      rw [run_bind, run_getKey]
      simp only [St.getKey, hI.acc t e ht, if_true]
      rw [run_bind, hI.run_lookup, ht]
      simp only
      rw [run_bind, run_createOrFetch_some (hI.tl_some ht0 hts)]
      exact h1
  | .revokeLease r _, rfl =>
    unfold Req.prog
    simp only [bind_eq, pure_eq]
    refine CascadeOutcome.after_auth hI g r t ?_
    unfold CascadeOutcome
    rw [run_bindE]
    cases ht : s.ids t with
    | none =>
      left
      refine ⟨.ok (), ?_, fun _ => (by first | exact ht | rfl)⟩
      have : run (expRevoke (g+1) t) s = (.ok (), s) := by
        unfold expRevoke
        simp [run_bind, run_getTL, (hI.deadClean t ht).noLease]
      rw [this]; rfl
    | some e =>
      have hts : (s.ids t).isSome := by simp [ht]
      obtain ⟨σ, h1, h2⟩ := hI.expRevoke g hF ht0 hts
      right
      refine ⟨σ, ?_, (by first | exact hts | rfl), h2⟩
      rw [h1]; rfl


/-- `Desc` from a token without an entry reaches only the token itself (parents of stored entries are stored) -/
theorem desc_of_dead {s : St} (hI : Inv s) {t : Nat} (ht : s.ids t = none) : ∀ x, Desc s t x → x = t := by
  intro x hx
  induction hx with
  | self => rfl
  | @child c p e _ hc hpar ih =>
    subst ih
    have := hI.parentLive c e p hc hpar
    rw [ht] at this; cases this

/-- T1: after a cascading revocation that reports success, the target and all its non-orphaned descendants
are dead -/
theorem cascade_dead {s : St} (hI : Inv s) (f : Nat) (hF : 2 * s.next + 8 ≤ f) (q : Req) (t : Nat)
    (hq : q.cascadeTarget = some t) (ht0 : t ≠ 0) (hok : okB (run (q.prog f) s).1 = true) :
    ∀ x, Desc s t x → Dead (run (q.prog f) s).2 x := by
  intro x hx
  rcases run_cascade hI f hF q t hq ht0 with ⟨r, hr, hnone⟩ | ⟨σ, hr, hlive, hpost⟩
  · rw [hr] at hok ⊢
    have ht := hnone hok
    have := desc_of_dead hI ht x hx
    subst this
    exact hI.deadClean x ht
  · rw [hr]
    obtain ⟨h1, h2⟩ := post_desc hI.fi hlive hpost x hx
    exact shrink_dead hpost.sh h1 h2

/-- `Inv` is re-established after a purge that is closed under children -/
theorem post_inv {s σ : St} {t : Nat} (hI : Inv s) (hp : Post s t σ) : Inv σ := by
  have hsame : ∀ x e, σ.ids x = some e → σ.ids x = s.ids x := by
    intro x e he
    rcases hp.sh.ids x with h | h
    · exact h
    · rw [h.1] at he; cases he
  refine ⟨hp.fi, ?_, ?_, ?_, ?_, ?_, ?_, ?_⟩
  · intro x e he
    exact hI.unmarked x e (by rw [← hsame x e he]; exact he)
  · intro x e he h0
    have h := hsame x e he
    rw [(hp.sh.keep x h).2.1]
    exact hI.lease x e (by rw [← h]; exact he) h0
  · intro x e he
    have h := hsame x e he
    rw [(hp.sh.keep x h).1]
    exact hI.acc x e (by rw [← h]; exact he)
  · intro x
    rcases hp.sh.ids x with h | h
    · obtain ⟨_, k2, k3, _, _⟩ := hp.sh.keep x h
      rw [k2, k3]; exact hI.cacheEq x
    · rw [h.2.2.1, h.2.1.noLease]
  · intro x hx
    rcases hp.sh.ids x with h | h
    · have hs : s.ids x = none := by rw [← h]; exact hx
      have hd := hI.deadClean x hs
      obtain ⟨k1, k2, _, k4, k4', _⟩ := hp.sh.keep x h
      refine ⟨hx, by rw [k2]; exact hd.noLease, by rw [k1]; exact hd.noAcc, ?_, ?_⟩
      · intro k; rw [k4, k4']; exact hd.noCub k
      · intro l e hl
        rcases hp.sh.sl l with h' | ⟨t', e0, h1, h2⟩
        · exact hd.leases l e (by rw [← h']; exact hl)
        · rw [h2] at hl; cases hl; rfl
    · exact h.2.1
  · intro c e p hc hpar
    have h := hsame c e hc
    have hcs : s.ids c = some e := by rw [← h]; exact hc
    have hps := hI.parentLive c e p hcs hpar
    cases hσp : σ.ids p with
    | some _ => rfl
    | none =>
      have := hp.closed p hps hσp c (hI.fi.entry_edge c e p hcs hpar)
      rw [this] at hc; cases hc
  · intro k
    cases k with
    | raw y => rw [hp.sh.rawp y]; exact hI.pendClean _
    | salted y =>
      rcases hp.sh.ids y with h | h
      · rw [(hp.sh.keep y h).2.2.2.2.2]; exact hI.pendClean _
      · rw [h.2.2.2]; intro h'; cases h'

/-- T2 for cascading revocations -/
theorem cascade_inv {s : St} (hI : Inv s) (f : Nat) (hF : 2 * s.next + 8 ≤ f) (q : Req) (t : Nat)
    (hq : q.cascadeTarget = some t) (ht0 : t ≠ 0) : Inv (run (q.prog f) s).2 := by
  rcases run_cascade hI f hF q t hq ht0 with ⟨r, hr, _⟩ | ⟨σ, hr, _, hpost⟩
  · rw [hr]; exact hI
  · rw [hr]; exact post_inv hI hpost

theorem cascade_next {s : St} (hI : Inv s) (f : Nat) (hF : 2 * s.next + 8 ≤ f) (q : Req) (t : Nat)
    (hq : q.cascadeTarget = some t) (ht0 : t ≠ 0) : (run (q.prog f) s).2.next = s.next := by
  rcases run_cascade hI f hF q t hq ht0 with ⟨r, hr, _⟩ | ⟨σ, hr, _, hpost⟩
  · rw [hr]
  · rw [hr]; exact hpost.sh.next

end Obao.Revoke
