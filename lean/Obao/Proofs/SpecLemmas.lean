import Obao.Proofs.KeyOrder
/-! Lemmas about the C13 specification (`insertKey`, `children`, strictly sorted lists). Core Lean only. -/
namespace Obao.KV

theorem mem_insertKey {c x : Key} {l : List Key} : x ∈ insertKey c l ↔ x = c ∨ x ∈ l := by
  induction l with
  | nil => simp [insertKey]
  | cons y ys ih =>
    unfold insertKey
    split
    · simp
    · split
      · rename_i h; subst h; simp
      · simp only [List.mem_cons, ih]
        constructor
        · rintro (h | h | h) <;> simp [h]
        · rintro (h | h | h) <;> simp [h]

theorem sorted_insertKey {c : Key} {l : List Key} (h : Sorted l) : Sorted (insertKey c l) := by
  induction l with
  | nil => simp [insertKey, Sorted]
  | cons y ys ih =>
    unfold Sorted at h ih ⊢
    unfold insertKey
    have hy := (List.pairwise_cons.mp h)
    split
    · rename_i hlt
      refine List.pairwise_cons.mpr ⟨?_, h⟩
      intro z hz
      rcases List.mem_cons.mp hz with rfl | hz
      · exact hlt
      · exact klt_trans hlt (hy.1 z hz)
    · split
      · exact h
      · rename_i hnlt hne
        have hyc : y < c := by
          rcases klt_trichotomy c y with h' | h' | h'
          · exact absurd h' hnlt
          · exact absurd h' hne
          · exact h'
        refine List.pairwise_cons.mpr ⟨?_, ih hy.2⟩
        intro z hz
        rcases mem_insertKey.mp hz with rfl | hz
        · exact hyc
        · exact hy.1 z hz

/-- two strictly ascending lists with the same elements are equal -/
theorem sorted_ext {l1 l2 : List Key} (h1 : Sorted l1) (h2 : Sorted l2) (h : ∀ x, x ∈ l1 ↔ x ∈ l2) : l1 = l2 := by
  induction l1 generalizing l2 with
  | nil =>
    cases l2 with
    | nil => rfl
    | cons y ys => exact absurd ((h y).mpr (List.mem_cons_self ..)) (by simp)
  | cons x xs ih =>
    cases l2 with
    | nil => exact absurd ((h x).mp (List.mem_cons_self ..)) (by simp)
    | cons y ys =>
      unfold Sorted at h1 h2
      have hx := List.pairwise_cons.mp h1
      have hy := List.pairwise_cons.mp h2
      have hxy : x = y := by
        have m1 : x ∈ y :: ys := (h x).mp (List.mem_cons_self ..)
        have m2 : y ∈ x :: xs := (h y).mpr (List.mem_cons_self ..)
        rcases List.mem_cons.mp m1 with e | m1
        · exact e
        · rcases List.mem_cons.mp m2 with e | m2
          · exact e.symm
          · exact absurd (klt_trans (hy.1 x m1) (hx.1 y m2)) (klt_irrefl _)
      subst hxy
      congr 1
      apply ih hx.2 hy.2
      intro z
      constructor
      · intro hz
        rcases List.mem_cons.mp ((h z).mp (List.mem_cons_of_mem _ hz)) with e | m
        · subst e; exact absurd (hx.1 z hz) (klt_irrefl _)
        · exact m
      · intro hz
        rcases List.mem_cons.mp ((h z).mpr (List.mem_cons_of_mem _ hz)) with e | m
        · subst e; exact absurd (hy.1 z hz) (klt_irrefl _)
        · exact m

theorem children_sorted' (keys : List Key) (p : Key) : Sorted (children keys p) := by
  unfold children
  induction keys.filter (hasPrefix p) with
  | nil => simp [Sorted]
  | cons k ks ih => exact sorted_insertKey ih

theorem children_mem' {keys : List Key} {p c : Key} :
    c ∈ children keys p ↔ ∃ k ∈ keys, hasPrefix p k = true ∧ child p k = c := by
  unfold children
  have : ∀ l : List Key, c ∈ l.foldr (fun k acc => insertKey (child p k) acc) [] ↔ ∃ k ∈ l, child p k = c := by
    intro l
    induction l with
    | nil => simp
    | cons k ks ih =>
      simp only [List.foldr_cons, mem_insertKey, ih, List.mem_cons, exists_eq_or_imp]
      constructor
      · rintro (h | h)
        · exact .inl h.symm
        · exact .inr h
      · rintro (h | h)
        · exact .inl h.symm
        · exact .inr h
  rw [this]
  constructor
  · rintro ⟨k, hk, hc⟩
    have := List.mem_filter.mp hk
    exact ⟨k, this.1, this.2, hc⟩
  · rintro ⟨k, hk, hp, hc⟩
    exact ⟨k, List.mem_filter.mpr ⟨hk, hp⟩, hc⟩

theorem sorted_filter {l : List Key} (q : Key → Bool) (h : Sorted l) : Sorted (l.filter q) :=
  List.Pairwise.filter q h

theorem sorted_take {l : List Key} (n : Nat) (h : Sorted l) : Sorted (l.take n) :=
  List.Pairwise.sublist (List.take_sublist n l) h

/-! ### first segment -/

theorem firstSeg_eq_self_of_not_mem {t : Key} (h : slash ∉ t) : firstSeg t = t := by
  induction t with
  | nil => rfl
  | cons c r ih =>
    have hc : c ≠ slash := fun e => h (by simp [e])
    have hr : slash ∉ r := fun m => h (List.mem_cons_of_mem _ m)
    simp [firstSeg, hc, ih hr]

/-- `firstSeg` is monotone: this is what makes every implementation's single ordered pass correct -/
theorem firstSeg_mono {a b : Key} (h : a < b) : firstSeg a ≤ firstSeg b := by
  induction a generalizing b with
  | nil => exact nil_kle _
  | cons x xs ih =>
    cases b with
    | nil => exact absurd h (not_klt_nil _)
    | cons y ys =>
      rcases cons_klt_cons.mp h with hxy | ⟨hxy, hlt⟩
      · -- heads differ: both first segments start with their head
        have ha : ∃ r, firstSeg (x :: xs) = x :: r := by
          unfold firstSeg; split
          · exact ⟨[], by simp_all⟩
          · exact ⟨_, rfl⟩
        have hb : ∃ r, firstSeg (y :: ys) = y :: r := by
          unfold firstSeg; split
          · exact ⟨[], by simp_all⟩
          · exact ⟨_, rfl⟩
        obtain ⟨ra, ea⟩ := ha
        obtain ⟨rb, eb⟩ := hb
        rw [ea, eb]
        exact cons_kle_cons.mpr (.inl hxy)
      · subst hxy
        unfold firstSeg
        split
        · exact kle_refl _
        · exact cons_kle_cons.mpr (.inr ⟨rfl, ih hlt⟩)

theorem child_mono {p a b : Key} (ha : hasPrefix p a = true) (hb : hasPrefix p b = true) (h : a < b) :
    child p a ≤ child p b := by
  obtain ⟨ta, rfl⟩ := hasPrefix_iff.mp ha
  obtain ⟨tb, rfl⟩ := hasPrefix_iff.mp hb
  have := (append_klt_append_left p).mp h
  simpa [child] using firstSeg_mono this

/-- a leaf child determines its key -/
theorem key_of_leaf_child {p k : Key} (hk : hasPrefix p k = true) (hl : slash ∉ k.drop p.length) :
    k = p ++ child p k := by
  have := drop_of_hasPrefix hk
  rw [child, firstSeg_eq_self_of_not_mem hl]; exact this.symm

theorem firstSeg_folder_mem {t : Key} (h : slash ∈ t) : slash ∈ firstSeg t := by
  induction t with
  | nil => simp at h
  | cons c r ih =>
    unfold firstSeg
    split
    · simp
    · rename_i hc
      rcases List.mem_cons.mp h with e | m
      · exact absurd e.symm hc
      · exact List.mem_cons_of_mem _ (ih m)

theorem firstSeg_leaf_not_mem {t : Key} (h : slash ∉ t) : slash ∉ firstSeg t := by
  rw [firstSeg_eq_self_of_not_mem h]; exact h

end Obao.KV
