import Obao.Proofs.PKINamesSound
/-! Helper lemmas for C15: what `enforce_hostnames` guarantees, the empty-name short circuit of
`validateNames`, membership through the list helpers of the request model. -/
namespace Obao.PKI

theorem idnaToASCII_some {s c : Str} (h : idnaToASCII s = some c) : c = s ∧ s.getLast? ≠ some '.' := by
  unfold idnaToASCII at h
  by_cases hl : s.getLast? = some '.'
  · simp [unicode16, hl] at h
  · refine ⟨?_, hl⟩
    repeat' (split at h)
    all_goals simp_all

theorem hostnameRegex_plain {s : Str} (hstar : containsCh s '*' = false) (hdot : s.getLast? ≠ some '.')
    (h : hostnameRegex s = true) : ∀ l ∈ labels s, isLabel l = true := by
  unfold hostnameRegex at h
  have hp : hasPrefix s ['*', '.'] = false := by
    cases hpp : hasPrefix s ['*', '.'] with
    | false => rfl
    | true =>
      obtain ⟨x, hx⟩ := hasPrefix_elim hpp
      subst hx
      simp [containsCh] at hstar
  have hl : (s.getLast? == some '.') = false := by
    cases hq : (s.getLast? == some '.') with
    | false => rfl
    | true => exact absurd (by simpa using hq) hdot
  simp [hp, hl] at h
  intro l hlm
  exact h l hlm

/-- what passing the `EnforceHostnames` block means for the host part, label by label -/
theorem hostnameOK_shape {name host w reduced : Str} {isW : Bool} (hf : HostForm host w reduced isW)
    (hW : isW = containsCh host '*') (hw : isW = true → containsCh w '.' = false ∧ containsCh reduced '*' = false)
    (hname : isW = true → name = host)
    (h : hostnameOK name reduced w isW = true) : hostShape host := by
  unfold hostnameOK at h
  simp only [Bool.and_eq_true, Bool.or_eq_true] at h
  obtain ⟨hred, hwl⟩ := h
  have hempty : reduced = [] → isW = true ∧ hasSuffix name ['.'] = false := by
    intro he
    subst he
    simp at hred
    exact hred
  have redLabels : reduced ≠ [] → containsCh reduced '*' = false → ∀ l ∈ labels reduced, isLabel l = true := by
    intro hne hst
    have hne' : reduced.isEmpty = false := by
      cases reduced with
      | nil => exact absurd rfl hne
      | cons _ _ => rfl
    rw [if_neg (by simp [hne'])] at hred
    split at hred
    · simp at hred
    · rename_i c hc
      obtain ⟨e1, e2⟩ := idnaToASCII_some hc
      subst e1
      exact hostnameRegex_plain hst e2 hred
  rcases hf with ⟨hWf, hr⟩ | ⟨hWt, hcase⟩
  · -- not a wildcard
    subst hr
    by_cases hne : reduced = []
    · have := (hempty hne).1
      rw [hWf] at this
      exact absurd this (by simp)
    · have hst : containsCh reduced '*' = false := by rw [← hW]; exact hWf
      have hall := redLabels hne hst
      unfold hostShape
      cases hl : labels reduced with
      | nil => exact absurd hl (labels_ne_nil _)
      | cons l ls =>
        rw [hl] at hall
        simp only [hst]
        exact ⟨by simpa using hall l List.mem_cons_self, fun x hx => hall x (List.mem_cons_of_mem _ hx)⟩
  · obtain ⟨hwdot, hrst⟩ := hw hWt
    have hlw : leftWildLabel w = true := by
      rcases hwl with hh | hh
      · simp [hWt] at hh
      · exact hh
    have hstar : containsCh host '*' = true := by rw [← hW]; exact hWt
    rcases hcase with ⟨hr, hh⟩ | hh
    · rw [hh] at hstar ⊢
      unfold hostShape
      rw [show labels w = [w] from splitOn_of_not_contains hwdot]
      simp only [hstar]
      exact ⟨by simpa using hlw, by simp⟩
    · by_cases hne : reduced = []
      · -- `<wildcard label>.`: the name ends in a dot and is refused
        have hsfx := (hempty hne).2
        have : hasSuffix name ['.'] = true := by
          rw [hname hWt, hh, hne]
          unfold hasSuffix
          exact List.isSuffixOf_iff_suffix.mpr ⟨w, rfl⟩
        rw [this] at hsfx
        exact absurd hsfx (by simp)
      · have hall := redLabels hne hrst
        unfold hostShape
        have : labels host = w :: labels reduced := by
          rw [hh, labels_append, show labels w = [w] from splitOn_of_not_contains hwdot]; rfl
        rw [this]
        simp only [hstar]
        exact ⟨by simpa using hlw, hall⟩

theorem validateName_body {r : NameRole} {n : Str} (h : validateName r n = true) :
    n ≠ [] ∧ validateNameBody r n = true := by
  unfold validateName at h
  simp only [Bool.and_eq_true] at h
  refine ⟨?_, h.2⟩
  intro hn
  subst hn
  simp at h

/-- `validateNames` reporting nothing means every name of the list passed (and none is empty) -/
theorem validateNames_nil_all {r : NameRole} {names : List Str}
    (h : validateNames r names = []) : ∀ n ∈ names, validateName r n = true := by
  induction names with
  | nil => intro n hn; simp at hn
  | cons x xs ih =>
    unfold validateNames at h
    split at h
    · exact absurd h (by decide)
    · split at h
      · rename_i hx
        intro n hn
        rcases List.mem_cons.mp hn with rfl | hn'
        · exact hx
        · exact ih h n hn'
      · rename_i hne _
        subst h
        simp at hne

end Obao.PKI
