import Obao.Proofs.GF256Poly
/-!
`Split`/`Combine` level: statements on the model's `Nat` lists (hypothesis: the entries are bytes),
obtained from the carrier-level facts of `GF256Poly`.
-/
namespace Obao.GF256
open Polynomial

/-! ### Horner evaluation on byte lists -/

theorem evaluate_eq_eval {cs : List Nat} {x : Nat} (hcs : Bytes cs) (hx : x < 256) :
    evaluate cs x = ((polyOf (cs.map GF.ofNat)).eval (GF.ofNat x)).val := by
  have := evaluate_val (cs.map GF.ofNat) (GF.ofNat x)
  rwa [map_val_ofNat hcs, GF.ofNat_val hx] at this

theorem evaluate_lt {cs : List Nat} {x : Nat} (hcs : Bytes cs) (hx : x < 256) : evaluate cs x < 256 := by
  rw [evaluate_eq_eval hcs hx]; exact GF.lt _

theorem evaluate_at_zero {s : Nat} {c : List Nat} (_hs : s < 256) (hc : Bytes c) : evaluate (s :: c) 0 = s := by
  show add (mult (evaluate c 0) 0) s = s
  rw [mult_zero_right (evaluate_lt hc (by omega))]
  exact Nat.zero_xor s

theorem nodup_map_ofNat {xs : List Nat} (hb : Bytes xs) (hnd : xs.Nodup) : (xs.map GF.ofNat).Nodup := by
  apply List.Nodup.of_map GF.val
  rwa [map_val_ofNat hb]

/-- Lagrange interpolation (the model's) through at least `length cs` distinct points of the polynomial
    with coefficients `cs` returns that polynomial's value, at every `x`. -/
theorem interpolate_evaluate {xs cs : List Nat} {x : Nat} (hxs : Bytes xs) (hnd : xs.Nodup) (hcs : Bytes cs)
    (hlen : cs.length ≤ xs.length) (hx : x < 256) :
    interpolate xs (xs.map (evaluate cs)) x = evaluate cs x := by
  have hnd' := nodup_map_ofNat hxs hnd
  have hdeg : (polyOf (cs.map GF.ofNat)).degree < ((xs.map GF.ofNat).length : WithBot Nat) := by
    refine lt_of_lt_of_le (degree_polyOf_lt _) ?_
    simpa using hlen
  have key := interpolate_poly (xs.map GF.ofNat) (polyOf (cs.map GF.ofNat)) (GF.ofNat x) hnd' hdeg
  rw [map_val_ofNat hxs, GF.ofNat_val hx, ← evaluate_eq_eval hcs hx] at key
  rw [← key]
  congr 1
  rw [List.map_map, List.map_map]
  refine List.map_congr_left fun xi hxi => ?_
  simp only [Function.comp]
  exact evaluate_eq_eval hcs (hxs xi hxi)

/-! ### shares -/

/-- the share for x-coordinate `x`: one y-value per secret byte, then the x tag -/
def share (secret : List Nat) (coeffs : List (List Nat)) (x : Nat) : List Nat :=
  ((secret.zip coeffs).map fun sc => evaluate (sc.1 :: sc.2) x) ++ [x]

theorem split_eq (secret xs : List Nat) (coeffs : List (List Nat)) :
    split secret xs coeffs = xs.map (share secret coeffs) := rfl

theorem share_length {secret : List Nat} {coeffs : List (List Nat)} (h : coeffs.length = secret.length) (x : Nat) :
    (share secret coeffs x).length = secret.length + 1 := by
  simp [share, h]

theorem share_getD_last {secret : List Nat} {coeffs : List (List Nat)} (h : coeffs.length = secret.length)
    (x : Nat) : (share secret coeffs x).getD secret.length 0 = x := by
  have hl : ((secret.zip coeffs).map fun sc => evaluate (sc.1 :: sc.2) x).length = secret.length := by
    simp [h]
  unfold share
  rw [List.getD_eq_getElem?_getD, List.getElem?_append_right (by omega), hl]
  simp

theorem share_getD_lt {secret : List Nat} {coeffs : List (List Nat)} (h : coeffs.length = secret.length)
    (x : Nat) {idx : Nat} (hidx : idx < secret.length) :
    (share secret coeffs x).getD idx 0 =
      evaluate (secret[idx] :: coeffs[idx]'(h ▸ hidx)) x := by
  have hl : idx < ((secret.zip coeffs).map fun sc => evaluate (sc.1 :: sc.2) x).length := by
    simp [h, hidx]
  unfold share
  rw [List.getD_eq_getElem?_getD, List.getElem?_append_left hl]
  simp [List.getElem?_eq_getElem hl]

/-! ### `Combine` -/

theorem hasDup_eq_false_iff (l : List Nat) : hasDup l = false ↔ l.Nodup := by
  induction l with
  | nil => simp [hasDup]
  | cons x rest ih => simp [hasDup, ih]

theorem hasDup_eq_true_iff (l : List Nat) : hasDup l = true ↔ ¬ l.Nodup := by
  rw [← hasDup_eq_false_iff]; cases hasDup l <;> simp

theorem combine_cons_cons (p0 p1 : List Nat) (rest : List (List Nat)) :
    combine (p0 :: p1 :: rest) =
      if p0.length < 2 then .error .tooShort
      else if (p1 :: rest).any (fun p => p.length != p0.length) then .error .unequal
      else if hasDup ((p0 :: p1 :: rest).map fun p => p.getD (p0.length - 1) 0) then .error .duplicate
      else .ok ((List.range (p0.length - 1)).map fun idx =>
        interpolate ((p0 :: p1 :: rest).map fun p => p.getD (p0.length - 1) 0)
          ((p0 :: p1 :: rest).map fun p => p.getD idx 0) 0) := rfl

/-- `Combine` of the shares at distinct byte x-coordinates `ys`, at least `t` (and 2) of them, where every
    coefficient list is shorter than `t`: the secret. -/
theorem combine_shares {secret : List Nat} {coeffs : List (List Nat)} {ys : List Nat} {t : Nat}
    (hsec : Bytes secret) (hne : secret ≠ [])
    (hclen : coeffs.length = secret.length) (hc : ∀ c ∈ coeffs, c.length < t ∧ Bytes c)
    (hys : Bytes ys) (hnd : ys.Nodup) (ht : t ≤ ys.length) (h2 : 2 ≤ ys.length) :
    combine (ys.map (share secret coeffs)) = .ok secret := by
  have hL : 0 < secret.length := List.length_pos_iff.2 hne
  match ys, h2 with
  | y0 :: y1 :: rest, _ =>
    have hxs : ((y0 :: y1 :: rest).map (share secret coeffs)).map
        (fun p => p.getD ((share secret coeffs y0).length - 1) 0) = y0 :: y1 :: rest := by
      rw [List.map_map, share_length hclen, Nat.add_sub_cancel]
      conv => rhs; rw [← List.map_id (y0 :: y1 :: rest)]
      exact List.map_congr_left fun x _ => share_getD_last hclen x
    have e : share secret coeffs y0 :: share secret coeffs y1 :: rest.map (share secret coeffs)
        = (y0 :: y1 :: rest).map (share secret coeffs) := rfl
    show combine (share secret coeffs y0 :: share secret coeffs y1 :: rest.map (share secret coeffs)) = _
    rw [combine_cons_cons, e, hxs]
    have h1 : ¬ (share secret coeffs y0).length < 2 := by rw [share_length hclen]; omega
    have h2 : ((share secret coeffs y1 :: rest.map (share secret coeffs)).any
        fun p => p.length != (share secret coeffs y0).length) = false := by
      rw [List.any_eq_false]
      intro p hp
      have : ∃ x, p = share secret coeffs x := by
        rcases List.mem_cons.1 hp with h | h
        · exact ⟨y1, h⟩
        · obtain ⟨x, _, rfl⟩ := List.mem_map.1 h; exact ⟨x, rfl⟩
      obtain ⟨x, rfl⟩ := this
      simp [share_length hclen]
    have h3 : hasDup (y0 :: y1 :: rest) = false := (hasDup_eq_false_iff _).2 hnd
    simp only [h1, h2, h3, if_false, Bool.false_eq_true]
    congr 1
    rw [share_length hclen, Nat.add_sub_cancel]
    apply List.ext_getElem (by simp)
    intro idx hi1 hi2
    have hidx : idx < secret.length := by simpa using hi1
    simp only [List.getElem_map, List.getElem_range]
    have hcmem : coeffs[idx]'(hclen ▸ hidx) ∈ coeffs := List.getElem_mem _
    have hcs : Bytes (secret[idx] :: coeffs[idx]'(hclen ▸ hidx)) := by
      intro v hv
      rcases List.mem_cons.1 hv with h | h
      · rw [h]; exact hsec _ (List.getElem_mem _)
      · exact (hc _ hcmem).2 v h
    have hys' : ((y0 :: y1 :: rest).map (share secret coeffs)).map (fun p => p.getD idx 0)
        = (y0 :: y1 :: rest).map (evaluate (secret[idx] :: coeffs[idx]'(hclen ▸ hidx))) := by
      rw [List.map_map]
      exact List.map_congr_left fun x _ => share_getD_lt hclen x hidx
    rw [hys', interpolate_evaluate hys hnd hcs ?_ (by omega),
      evaluate_at_zero (hsec _ (List.getElem_mem _)) (hc _ hcmem).2]
    have := (hc _ hcmem).1
    simp only [List.length_cons] at ht ⊢
    omega

end Obao.GF256
