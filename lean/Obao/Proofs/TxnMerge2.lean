import Obao.Proofs.TxnMerge
/-! The merge loop of `RaftTransaction.ListPage`, unlimited case: sortedness and membership. Core Lean only. -/
namespace Obao.Listing
open Obao.KV

theorem txnLoop_cons (p after : Key) (limit : Int) (D : List Key) (k : Key) (rest out U : List Key)
    (hk : hasPrefix p k = true) :
    txnLoop p after limit D (k :: rest) ⟨out, U⟩ =
      if limit > 0 ∧ (out.length : Int) ≥ limit then ⟨out, U⟩
      else if D.contains k = true then txnLoop p after limit D rest ⟨out, U⟩
      else if skip after (child p k) then txnLoop p after limit D rest ⟨out, U⟩
      else
        if isFolder (k.drop p.length) = true ∧
            (U.filter (fun u => decide (u < child p k ∧ lastOf out < u))).reverse ++ out ≠ [] ∧
            lastOf ((U.filter (fun u => decide (u < child p k ∧ lastOf out < u))).reverse ++ out) = child p k
        then txnLoop p after limit D rest
          ⟨(U.filter (fun u => decide (u < child p k ∧ lastOf out < u))).reverse ++ out,
           U.filter (fun u => !decide (u < child p k ∧ lastOf out < u))⟩
        else txnLoop p after limit D rest
          ⟨child p k :: ((U.filter (fun u => decide (u < child p k ∧ lastOf out < u))).reverse ++ out),
           (U.filter (fun u => !decide (u < child p k ∧ lastOf out < u))).filter (· ≠ child p k)⟩ := by
  conv => lhs; unfold txnLoop
  simp only [hk, Bool.not_true, Bool.false_eq_true, if_false, shouldInclude]
  split
  · rfl
  · split
    · rfl
    · by_cases hsk : skip after (child p k)
      · have : (after ≠ [] ∧ firstSeg (List.drop p.length k) ≤ after) := hsk
        simp [this, hsk]
      · have : ¬ (after ≠ [] ∧ firstSeg (List.drop p.length k) ≤ after) := hsk
        simp only [this, decide_false, Bool.not_false, Bool.not_true, Bool.false_eq_true, if_false, hsk]
        rfl

theorem TInv.tail {p k : Key} {ks out U : List Key} (h : TInv p (k :: ks) out U) : TInv p ks out U :=
  ⟨h.oinv.tail, h.usorted, h.unonempty, h.uabove⟩

theorem lastOf_mem {out : List Key} (h : out ≠ []) : lastOf out ∈ out := by
  cases out with
  | nil => exact absurd rfl h
  | cons x xs => simp [lastOf]

theorem lastOf_rev_append_mem {M out : List Key} (h : M ≠ []) : lastOf (M.reverse ++ out) ∈ M := by
  cases hr : M.reverse with
  | nil => exact absurd (List.reverse_eq_nil_iff.mp hr) h
  | cons r rs =>
    simp only [List.cons_append, lastOf]
    have : r ∈ M.reverse := by rw [hr]; exact List.mem_cons_self ..
    exact List.mem_reverse.mp this

theorem head?_eq_lastOf {out : List Key} (h : out ≠ []) : out.head? = some (lastOf out) := by
  cases out with
  | nil => exact absurd rfl h
  | cons x xs => rfl

theorem txnFinish0_base (out U : List Key) (hne : ([] : Key) ∉ U) (hab : ∀ u ∈ U, ∀ x ∈ out, x < u) :
    txnFinish0 ⟨out, U⟩ = U.reverse ++ out := by
  unfold txnFinish0
  simp only
  rw [List.filter_eq_self.mpr]
  intro u hu
  simpa using lastOf_lt_of_above hne hab u hu

/-- the unlimited merge loop: the result is strictly descending (reversed) and contains exactly what was already
emitted, every pending entry, and the child of every visited key that is neither pending-deleted nor filtered -/
theorem txnLoop_unlimited_spec (p after : Key) (limit : Int) (hl : ¬ limit > 0) (D : List Key) (ks : List Key)
    (hs : Sorted ks) (hp : ∀ k ∈ ks, hasPrefix p k = true) (out U : List Key) (h : TInv p ks out U) :
    Desc (txnFinish0 (txnLoop p after limit D ks ⟨out, U⟩)) ∧
    ∀ x, x ∈ txnFinish0 (txnLoop p after limit D ks ⟨out, U⟩) ↔
      (x ∈ out ∨ x ∈ U ∨ ∃ k ∈ ks, D.contains k = false ∧ ¬ skip after (child p k) ∧ child p k = x) := by
  induction ks generalizing out U with
  | nil =>
    simp only [txnLoop]
    rw [txnFinish0_base out U h.unonempty h.uabove]
    refine ⟨desc_append (sorted_reverse_desc h.usorted) h.oinv.1 ?_, ?_⟩
    · intro x hx y hy; exact h.uabove x (List.mem_reverse.mp hx) y hy
    · intro x; simp [or_comm]
  | cons k rest ih =>
    have hs' := (List.pairwise_cons.mp hs).2
    have hp' : ∀ k' ∈ rest, hasPrefix p k' = true := fun k' hk' => hp k' (List.mem_cons_of_mem _ hk')
    rw [txnLoop_cons p after limit D k rest out U (hp k (List.mem_cons_self ..))]
    have hlim : ¬ (limit > 0 ∧ (out.length : Int) ≥ limit) := fun hh => hl hh.1
    rw [if_neg hlim]
    by_cases hD : D.contains k = true
    · rw [if_pos hD]
      obtain ⟨d, m⟩ := ih hs' hp' out U h.tail
      refine ⟨d, fun x => ?_⟩
      rw [m x]
      constructor
      · rintro (h1 | h1 | ⟨k', hk', h2⟩)
        · exact .inl h1
        · exact .inr (.inl h1)
        · exact .inr (.inr ⟨k', List.mem_cons_of_mem _ hk', h2⟩)
      · rintro (h1 | h1 | ⟨k', hk', h2⟩)
        · exact .inl h1
        · exact .inr (.inl h1)
        · rcases List.mem_cons.mp hk' with e1 | hk'
          · subst e1; rw [hD] at h2; exact absurd h2.1 (by simp)
          · exact .inr (.inr ⟨k', hk', h2⟩)
    · rw [if_neg hD]
      have hDf : D.contains k = false := Bool.eq_false_iff.mpr hD
      by_cases hsk : skip after (child p k)
      · rw [if_pos hsk]
        obtain ⟨d, m⟩ := ih hs' hp' out U h.tail
        refine ⟨d, fun x => ?_⟩
        rw [m x]
        constructor
        · rintro (h1 | h1 | ⟨k', hk', h2⟩)
          · exact .inl h1
          · exact .inr (.inl h1)
          · exact .inr (.inr ⟨k', List.mem_cons_of_mem _ hk', h2⟩)
        · rintro (h1 | h1 | ⟨k', hk', h2⟩)
          · exact .inl h1
          · exact .inr (.inl h1)
          · rcases List.mem_cons.mp hk' with e1 | hk'
            · subst e1; exact absurd hsk h2.2.1
            · exact .inr (.inr ⟨k', hk', h2⟩)
      · rw [if_neg hsk]
        obtain ⟨hf1, hf2⟩ := filter_and_above (e := child p k) h.unonempty h.uabove
        rw [hf1, hf2]
        -- abbreviations
        have hM : ∀ u, u ∈ U.filter (fun u => decide (u < child p k)) ↔ u ∈ U ∧ u < child p k := by
          intro u; rw [List.mem_filter]; simp
        have hU' : ∀ u, u ∈ U.filter (fun u => !decide (u < child p k)) ↔ u ∈ U ∧ ¬ u < child p k := by
          intro u; rw [List.mem_filter]; simp
        have hoinv' := outInv_merge (e := child p k) rfl hs hp h
        by_cases hdup : isFolder (k.drop p.length) = true ∧
            (U.filter (fun u => decide (u < child p k))).reverse ++ out ≠ [] ∧
            lastOf ((U.filter (fun u => decide (u < child p k))).reverse ++ out) = child p k
        · rw [if_pos hdup]
          -- nothing was merged, and the folder is already the last emitted key
          have hMnil : U.filter (fun u => decide (u < child p k)) = [] := by
            cases hm : U.filter (fun u => decide (u < child p k)) with
            | nil => rfl
            | cons a as =>
              exfalso
              have hMne : U.filter (fun u => decide (u < child p k)) ≠ [] := by rw [hm]; simp
              have hhd := lastOf_rev_append_mem (out := out) hMne
              have := ((hM _).mp hhd).2
              rw [hdup.2.2] at this
              exact klt_irrefl _ this
          have hUeq : U.filter (fun u => !decide (u < child p k)) = U := by
            rw [List.filter_eq_self]
            intro u hu
            have : ¬ u < child p k := fun hlt => by
              have := (hM u).mpr ⟨hu, hlt⟩
              rw [hMnil] at this; simp at this
            simpa using this
          rw [hMnil, hUeq]
          simp only [List.reverse_nil, List.nil_append]
          rw [hMnil] at hdup
          simp only [List.reverse_nil, List.nil_append] at hdup
          obtain ⟨d, m⟩ := ih hs' hp' out U h.tail
          refine ⟨d, fun x => ?_⟩
          rw [m x]
          constructor
          · rintro (h1 | h1 | ⟨k', hk', h2⟩)
            · exact .inl h1
            · exact .inr (.inl h1)
            · exact .inr (.inr ⟨k', List.mem_cons_of_mem _ hk', h2⟩)
          · rintro (h1 | h1 | ⟨k', hk', h2⟩)
            · exact .inl h1
            · exact .inr (.inl h1)
            · rcases List.mem_cons.mp hk' with e1 | hk'
              · subst e1
                left
                rw [← h2.2.2, ← hdup.2.2]
                exact lastOf_mem hdup.2.1
              · exact .inr (.inr ⟨k', hk', h2⟩)
        · rw [if_neg hdup]
          -- push: first show the head of the merged output is not the entry
          have hnew : ((U.filter (fun u => decide (u < child p k))).reverse ++ out).head? ≠ some (child p k) := by
            intro hh
            have hne : (U.filter (fun u => decide (u < child p k))).reverse ++ out ≠ [] := by
              intro e; rw [e] at hh; simp at hh
            have hlast : lastOf ((U.filter (fun u => decide (u < child p k))).reverse ++ out) = child p k := by
              have := head?_eq_lastOf hne
              rw [hh] at this
              exact (Option.some.inj this).symm
            by_cases hf : isFolder (k.drop p.length) = true
            · exact hdup ⟨hf, hne, hlast⟩
            · have hnm : slash ∉ k.drop p.length := fun hm => hf (isFolder_iff.mpr hm)
              have hin := List.mem_of_mem_head? hh
              exact child_leaf_not_mem (p := p) hnm ((hoinv'.2 _ hin k (List.mem_cons_self ..)).2 rfl)
          have hpush := hoinv'.push hs hp hnew
          have hT : TInv p rest (child p k :: ((U.filter (fun u => decide (u < child p k))).reverse ++ out))
              ((U.filter (fun u => !decide (u < child p k))).filter (· ≠ child p k)) := by
            refine ⟨hpush, sorted_filter _ (sorted_filter _ h.usorted), ?_, ?_⟩
            · intro hm
              exact h.unonempty (List.mem_filter.mp (List.mem_filter.mp hm).1).1
            · intro u hu x hx
              have hu1 := List.mem_filter.mp hu
              have hu2 := (hU' u).mp hu1.1
              have hne : u ≠ child p k := by simpa using hu1.2
              have hgt : child p k < u := by
                rcases klt_trichotomy u (child p k) with h' | h' | h'
                · exact absurd h' hu2.2
                · exact absurd h' hne
                · exact h'
              rcases List.mem_cons.mp hx with e1 | hx
              · subst e1; exact hgt
              · rcases List.mem_append.mp hx with m | m
                · exact klt_trans ((hM x).mp (List.mem_reverse.mp m)).2 hgt
                · exact h.uabove u hu2.1 x m
          obtain ⟨d, m⟩ := ih hs' hp' _ _ hT
          refine ⟨d, fun x => ?_⟩
          rw [m x]
          constructor
          · rintro (h1 | h1 | ⟨k', hk', h2⟩)
            · rcases List.mem_cons.mp h1 with e1 | h1
              · exact .inr (.inr ⟨k, List.mem_cons_self .., hDf, hsk, e1.symm⟩)
              · rcases List.mem_append.mp h1 with m1 | m1
                · exact .inr (.inl ((hM x).mp (List.mem_reverse.mp m1)).1)
                · exact .inl m1
            · exact .inr (.inl ((hU' x).mp (List.mem_filter.mp h1).1).1)
            · exact .inr (.inr ⟨k', List.mem_cons_of_mem _ hk', h2⟩)
          · rintro (h1 | h1 | ⟨k', hk', h2⟩)
            · exact .inl (List.mem_cons_of_mem _ (List.mem_append_right _ h1))
            · by_cases hlt : x < child p k
              · exact .inl (List.mem_cons_of_mem _ (List.mem_append_left _ (List.mem_reverse.mpr ((hM x).mpr ⟨h1, hlt⟩))))
              · by_cases heq : x = child p k
                · exact .inl (by rw [heq]; exact List.mem_cons_self ..)
                · exact .inr (.inl (List.mem_filter.mpr ⟨(hU' x).mpr ⟨h1, hlt⟩, by simpa using heq⟩))
            · rcases List.mem_cons.mp hk' with e1 | hk'
              · subst e1; exact .inl (by rw [← h2.2.2]; exact List.mem_cons_self ..)
              · exact .inr (.inr ⟨k', hk', h2⟩)

end Obao.Listing
