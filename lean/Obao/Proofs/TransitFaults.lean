import Obao.Proofs.TransitSign
/-! Single storage faults: `Persist` under a failing `Put` either behaves as without the fault or fails and leaves the
policy object exactly as it was handed in (since the repair of F38); the transactional endpoints therefore keep the
state consistent. -/
namespace Obao.Transit

def PRes.isFailOf (p : Policy) : PRes → Prop
  | .fail _ q _ => q = p
  | _ => False

theorem persist_fault (p : Policy) (a : List Key) (k : Nat) :
    persist p a k = persist p a 0 ∨ (persist p a k).isFailOf p := by
  unfold persist
  simp only []
  by_cases c1 : p.minDec < 1
  · rw [if_pos c1, if_pos c1]; exact Or.inl rfl
  rw [if_neg c1, if_neg c1]
  by_cases c2 : p.latest < 1
  · rw [if_pos c2, if_pos c2]; exact Or.inl rfl
  rw [if_neg c2, if_neg c2]
  by_cases c3 : (!(kget p.keys p.minDec).isSome) = true ∧ p.archiveVer ≠ p.latest
  · rw [if_pos c3, if_pos c3]; exact Or.inl rfl
  rw [if_neg c3, if_neg c3]
  by_cases c4 : p.archiveVer > p.latest
  · rw [if_pos c4, if_pos c4]; exact Or.inl rfl
  rw [if_neg c4, if_neg c4]
  by_cases c5 : p.minEnc > 0 ∧ p.minEnc < p.minDec
  · rw [if_pos c5, if_pos c5]; exact Or.inl rfl
  rw [if_neg c5, if_neg c5]
  by_cases c6 : p.minDec > p.latest
  · rw [if_pos c6, if_pos c6]; exact Or.inl rfl
  rw [if_neg c6, if_neg c6]
  by_cases c7 : (!(kget p.keys p.minDec).isSome) = true
  · rw [if_pos c7, if_pos c7]
    cases fromArchive a p.minAvail (verRange p.minDec p.latest) p.keys with
    | none => exact Or.inl rfl
    | some ks =>
      by_cases k1 : k = 1
      · subst k1; exact Or.inr rfl
      · simp only [k1, if_false]; exact Or.inl rfl
  · rw [if_neg c7, if_neg c7]
    generalize toArchive p.keys p.minAvail (verRange (p.archiveVer + 1) p.latest)
      (if a.length + p.minAvail < p.latest + 1 then
        a ++ List.replicate (p.latest - p.minAvail + 1 - a.length) emptyKey else a) = ta
    cases ta with
    | none => exact Or.inl rfl
    | some a1 =>
      by_cases c8 : p.archiveMin < p.minAvail ∧ p.minAvail - p.archiveMin > a1.length
      · simp only
        rw [if_pos c8, if_pos c8]; exact Or.inl rfl
      simp only
      rw [if_neg c8, if_neg c8]
      by_cases k1 : k = 1
      · subst k1; exact Or.inr rfl
      by_cases k2 : k = 2
      · subst k2; exact Or.inr rfl
      · rw [if_neg k1, if_neg k2]; exact Or.inl rfl

/-- the state with the fault plan cleared -/
def clr (st : St) : St := { st with failPut := 0 }

theorem clr_of_noFault {st : St} (h : st.failPut = 0) : clr st = st := by
  cases st; simp only [clr] at *; subst h; rfl

/-- consistency up to a pending fault plan -/
def InvF (st : St) : Prop := Inv (clr st)

theorem Inv.toF {st : St} (h : Inv st) : InvF st := h.congr rfl rfl rfl rfl rfl

theorem Ext.of_clr {st s' : St} (h : Ext (clr st) s') : Ext st s' := ⟨h.pol, h.arts⟩

theorem rotate_fault {st : St} (h : InvF st) : Inv (rotate st).1 ∧ Ext st (rotate st).1 := by
  have h0 : Inv (rotate (clr st)).1 ∧ Ext st (rotate (clr st)).1 := ⟨inv_rotate h, (ext_rotate h).of_clr⟩
  unfold rotate at h0 ⊢
  cases hp : st.pol with
  | none => exact ⟨h.congr (by simp [clr, hp]) rfl rfl rfl rfl, Ext.of_same (by simp [hp]) rfl rfl⟩
  | some p =>
    have hp' : (clr st).pol = some p := hp
    rw [hp'] at h0
    simp only at h0 ⊢
    rcases persist_fault { p with latest := p.latest + 1, keys := kset p.keys (p.latest + 1) (p.latest + 1, st.nextKey),
                                   minDec := if p.minDec = 0 then 1 else p.minDec } st.archive st.failPut with e | e
    · rw [e]; exact h0
    · revert e
      cases persist { p with latest := p.latest + 1, keys := kset p.keys (p.latest + 1) (p.latest + 1, st.nextKey),
                             minDec := if p.minDec = 0 then 1 else p.minDec } st.archive st.failPut with
      | ok _ _ => intro e; cases e
      | panic => intro e; cases e
      | fail cls q a' =>
        intro e
        simp only [PRes.isFailOf] at e
        subst e
        exact ⟨h.congr (by simp [clr, hp]) rfl rfl rfl rfl, Ext.of_same (by simp [hp]) rfl rfl⟩

theorem trim_fault {st : St} (h : InvF st) (n : Int) : Inv (trim st n).1 ∧ Ext st (trim st n).1 := by
  have h0 : Inv (trim (clr st) n).1 ∧ Ext st (trim (clr st) n).1 := ⟨inv_trim h n, (ext_trim h n).of_clr⟩
  unfold trim at h0 ⊢
  cases hp : st.pol with
  | none => exact ⟨h.congr (by simp [clr, hp]) rfl rfl rfl rfl, Ext.of_same (by simp [hp]) rfl rfl⟩
  | some p =>
    have hp' : (clr st).pol = some p := hp
    rw [hp'] at h0
    simp only at h0 ⊢
    by_cases g1 : n < p.minAvail
    · rw [if_pos g1] at h0 ⊢; exact h0
    rw [if_neg g1] at h0 ⊢
    by_cases g2 : p.minEnc = 0
    · rw [if_pos g2] at h0 ⊢; exact h0
    rw [if_neg g2] at h0 ⊢
    by_cases g3 : p.minDec = 0
    · rw [if_pos g3] at h0 ⊢; exact h0
    rw [if_neg g3] at h0 ⊢
    by_cases g4 : n > p.minEnc
    · rw [if_pos g4] at h0 ⊢; exact h0
    rw [if_neg g4] at h0 ⊢
    by_cases g5 : n > p.minDec
    · rw [if_pos g5] at h0 ⊢; exact h0
    rw [if_neg g5] at h0 ⊢
    by_cases g6 : n < 0
    · rw [if_pos g6] at h0 ⊢; exact h0
    rw [if_neg g6] at h0 ⊢
    by_cases g7 : n = 0
    · rw [if_pos g7] at h0 ⊢; exact h0
    rw [if_neg g7] at h0 ⊢
    rcases persist_fault { p with minAvail := n.toNat } st.archive st.failPut with e | e
    · rw [e]; exact h0
    · revert e
      cases persist { p with minAvail := n.toNat } st.archive st.failPut with
      | ok _ _ => intro e; cases e
      | panic => intro e; cases e
      | fail cls q a' =>
        intro e
        simp only [PRes.isFailOf] at e
        subst e
        exact ⟨h.congr (by simp [clr, hp]) rfl rfl rfl rfl, Ext.of_same (by simp [hp]) rfl rfl⟩

theorem policy_eq_of_cfgUpd {p q : Policy} (h : CfgUpd p q) :
    { q with minDec := p.minDec, minEnc := p.minEnc, deletionAllowed := p.deletionAllowed,
             exportable := p.exportable, plainBackup := p.plainBackup } = p := by
  obtain ⟨⟨h1, h2, h3, h4, h5⟩, h6, h7, h8⟩ := h
  cases p; cases q
  simp only at *
  subst h1 h2 h3 h4 h5 h6 h7 h8
  rfl

theorem config_fault {st : St} (h : InvF st) (dec enc : Option Int) (del exp apb : Option Bool) :
    Inv (config st dec enc del exp apb).1 ∧ Ext st (config st dec enc del exp apb).1 := by
  have h0 : Inv (config (clr st) dec enc del exp apb).1 ∧ Ext st (config (clr st) dec enc del exp apb).1 :=
    ⟨inv_config h dec enc del exp apb, (ext_config h dec enc del exp apb).of_clr⟩
  unfold config at h0 ⊢
  cases hp : st.pol with
  | none => exact ⟨h.congr (by simp [clr, hp]) rfl rfl rfl rfl, Ext.of_same (by simp [hp]) rfl rfl⟩
  | some p =>
    have hp' : (clr st).pol = some p := hp
    have hi : PInv p st.archive := h.pol p hp'
    rw [hp'] at h0
    simp only at h0 ⊢
    cases ht : cfgTarget p dec enc del exp apb with
    | error c => rw [ht] at h0; exact h0
    | ok r =>
      obtain ⟨q, pn⟩ := r
      rw [ht] at h0
      cases pn with
      | false => exact h0
      | true =>
        simp only at h0 ⊢
        obtain ⟨hu, _, _⟩ := cfgTarget_spec hi ht
        rcases persist_fault q st.archive st.failPut with e | e
        · rw [e]; exact h0
        · revert e
          cases persist q st.archive st.failPut with
          | ok _ _ => intro e; cases e
          | panic => intro e; cases e
          | fail cls q' a' =>
            intro e
            simp only [PRes.isFailOf] at e
            subst e
            simp only [policy_eq_of_cfgUpd hu]
            exact ⟨h.congr (by simp [clr, hp]) rfl rfl rfl rfl, Ext.of_same (by simp [hp]) rfl rfl⟩

/-! ### operations that leave the fault plan pending -/

theorem encrypt_clr (st : St) (v : Int) (c a n p : String) :
    clr (encrypt st v c a n p).1 = (encrypt (clr st) v c a n p).1 ∧ (encrypt st v c a n p).1.failPut = st.failPut := by
  unfold encrypt
  cases hp : st.pol with
  | none => simp [clr, hp]
  | some q =>
    have : (clr st).pol = some q := hp
    simp only [this]
    have hl : (clr st).arts = st.arts := rfl
    rw [hl]
    cases encryptArt q (st.arts.length + 1) v c a n p with
    | error e => simp [clr]
    | ok art => simp [clr]

theorem rewrap_clr (st : St) (h : Nat) (v : Int) (c : String) :
    clr (rewrap st h v c).1 = (rewrap (clr st) h v c).1 ∧ (rewrap st h v c).1.failPut = st.failPut := by
  unfold rewrap
  have ha : artAt (clr st) h .enc = artAt st h .enc := rfl
  rw [ha]
  cases artAt st h .enc with
  | none => simp [clr]
  | some a =>
    cases hp : st.pol with
    | none => simp [clr, hp]
    | some q =>
      have : (clr st).pol = some q := hp
      simp only [this]
      cases decryptArt q a .same .same c "-" with
      | error e => simp [clr]
      | ok m => exact encrypt_clr st v c "-" "-" m

theorem sign_clr (st : St) (v : Int) (c m : String) :
    clr (sign st v c m).1 = (sign (clr st) v c m).1 ∧ (sign st v c m).1.failPut = st.failPut := by
  unfold sign
  cases hp : st.pol with
  | none => simp [clr, hp]
  | some q =>
    have : (clr st).pol = some q := hp
    simp only [this]
    have hl : (clr st).arts = st.arts := rfl
    rw [hl]
    cases signArt q (st.arts.length + 1) v c m with
    | error e => simp [clr]
    | ok art => simp [clr]

theorem hmac_clr (st : St) (v : Int) (m : String) :
    clr (hmac st v m).1 = (hmac (clr st) v m).1 ∧ (hmac st v m).1.failPut = st.failPut := by
  unfold hmac
  cases hp : st.pol with
  | none => simp [clr, hp]
  | some q =>
    have : (clr st).pol = some q := hp
    simp only [this]
    have hl : (clr st).arts = st.arts := rfl
    rw [hl]
    cases hmacArt q v m with
    | error e => simp [clr]
    | ok art => simp [clr]

/-- one step of a `txFaults` history -/
theorem invF_step {st : St} (h : InvF st) (pending : Bool) (hpend : st.failPut ≠ 0 → pending = true) (o : Op)
    (os : List Op) (ht : txFaults pending (o :: os) = true) :
    ∃ pending', InvF (step st o).1 ∧ Ext st (step st o).1 ∧ ((step st o).1.failPut ≠ 0 → pending' = true) ∧
      txFaults pending' os = true := by
  have clean : pending = false → Inv st := fun hp => by
    have : st.failPut = 0 := by
      apply Decidable.of_not_not; intro hc; have := hpend hc; rw [hp] at this; cases this
    have e := clr_of_noFault this
    unfold InvF at h; rw [e] at h; exact h
  cases o with
  | failPut k =>
    refine ⟨k != 0, h.congr rfl rfl rfl rfl rfl, Ext.of_same rfl rfl rfl, ?_, by simpa [txFaults] using ht⟩
    intro hk; simp only [step] at hk; simpa using hk
  | rotate =>
    obtain ⟨i, e⟩ := rotate_fault h
    exact ⟨false, i.toF, e, fun hc => absurd i.noFault hc, by simpa [txFaults, Op.transactional] using ht⟩
  | config dec enc del exp apb =>
    obtain ⟨i, e⟩ := config_fault h dec enc del exp apb
    exact ⟨false, i.toF, e, fun hc => absurd i.noFault hc, by simpa [txFaults, Op.transactional] using ht⟩
  | trim n =>
    obtain ⟨i, e⟩ := trim_fault h n
    exact ⟨false, i.toF, e, fun hc => absurd i.noFault hc, by simpa [txFaults, Op.transactional] using ht⟩
  | encrypt v c a n p =>
    obtain ⟨e1, e2⟩ := encrypt_clr st v c a n p
    refine ⟨pending, ?_, ext_encrypt st v c a n p, fun hc => hpend (by rw [← e2]; exact hc),
      by simpa [txFaults, Op.transactional, Op.readOnly] using ht⟩
    unfold InvF; simp only [step]; rw [e1]; exact inv_encrypt h v c a n p
  | rewrap hd v c =>
    obtain ⟨e1, e2⟩ := rewrap_clr st hd v c
    refine ⟨pending, ?_, ext_rewrap st hd v c, fun hc => hpend (by rw [← e2]; exact hc),
      by simpa [txFaults, Op.transactional, Op.readOnly] using ht⟩
    unfold InvF; simp only [step]; rw [e1]; exact inv_rewrap h hd v c
  | sign v c m =>
    obtain ⟨e1, e2⟩ := sign_clr st v c m
    refine ⟨pending, ?_, ext_sign st v c m, fun hc => hpend (by rw [← e2]; exact hc),
      by simpa [txFaults, Op.transactional, Op.readOnly] using ht⟩
    unfold InvF; simp only [step]; rw [e1]; exact inv_sign h v c m
  | hmac v m =>
    obtain ⟨e1, e2⟩ := hmac_clr st v m
    refine ⟨pending, ?_, ext_hmac st v m, fun hc => hpend (by rw [← e2]; exact hc),
      by simpa [txFaults, Op.transactional, Op.readOnly] using ht⟩
    unfold InvF; simp only [step]; rw [e1]; exact inv_hmac h v m
  | decrypt hd vm bm c a =>
    refine ⟨pending, ?_, ?_, ?_, by simpa [txFaults, Op.transactional, Op.readOnly] using ht⟩ <;>
      simp only [step, decrypt_state]
    · exact h
    · exact Ext.refl _
    · exact hpend
  | verify hd vm bm c m =>
    refine ⟨pending, ?_, ?_, ?_, by simpa [txFaults, Op.transactional, Op.readOnly] using ht⟩ <;>
      simp only [step, verify_state]
    · exact h
    · exact Ext.refl _
    · exact hpend
  | hmacVerify hd vm bm m =>
    refine ⟨pending, ?_, ?_, ?_, by simpa [txFaults, Op.transactional, Op.readOnly] using ht⟩ <;>
      simp only [step, hmacVerify_state]
    · exact h
    · exact Ext.refl _
    · exact hpend
  | backup =>
    have hh : pending = false ∧ txFaults false os = true := by
      simpa [txFaults, Op.transactional, Op.readOnly, Op.keepsRing] using ht
    have i := clean hh.1
    have i' := inv_backup i
    exact ⟨false, i'.toF, ext_backup i, fun hc => absurd i'.noFault hc, hh.2⟩
  | new t d c => simp [txFaults, Op.transactional, Op.readOnly, Op.keepsRing] at ht
  | restore b f => simp [txFaults, Op.transactional, Op.readOnly, Op.keepsRing] at ht
  | delete => simp [txFaults, Op.transactional, Op.readOnly, Op.keepsRing] at ht
  | rawConfig d e => simp [txFaults, Op.transactional, Op.readOnly, Op.keepsRing] at ht
  | restoreRaw b f => simp [txFaults, Op.transactional, Op.readOnly, Op.keepsRing] at ht

theorem invF_run : ∀ (ops : List Op) (st : St) (pending : Bool), InvF st → (st.failPut ≠ 0 → pending = true) →
    txFaults pending ops = true → InvF (run st ops) ∧ Ext st (run st ops)
  | [], st, _, h, _, _ => ⟨h, Ext.refl st⟩
  | o :: os, st, pending, h, hp, ht => by
    obtain ⟨pending', i, e, hp', ht'⟩ := invF_step h pending hp o os ht
    obtain ⟨i2, e2⟩ := invF_run os _ pending' i hp' ht'
    exact ⟨i2, e.trans e2⟩

/-- what survives an arbitrary later history with storage faults on transactional operations -/
theorem later_setup_faults {st1 : St} (hi1 : Inv st1) {h : Nat} {kind : AKind} {a : Art}
    (ha1 : artAt st1 h kind = some a) {p : Policy} (hp1 : st1.pol = some p) (hk : kget p.keys a.ver = some a.key)
    (later : List Op) (ht : txFaults false later = true) :
    artAt (run st1 later) h kind = some a ∧
      ∃ p2, (run st1 later).pol = some p2 ∧ p2.ktype = p.ktype ∧ p2.derived = p.derived ∧
        p2.convergent = p.convergent ∧ a.ver ≤ p2.latest ∧ 1 ≤ p2.minDec ∧
        (p2.minDec ≤ a.ver → kget p2.keys a.ver = some a.key) := by
  obtain ⟨hi2, he2⟩ := invF_run later st1 false hi1.toF (fun hc => absurd hi1.noFault hc) ht
  have he2' : Ext st1 (clr (run st1 later)) := ⟨he2.pol, he2.arts⟩
  obtain ⟨p2, hp2, t1, t2, t3, t4, t5⟩ := key_stable hi1 hi2 he2' hp1 hk
  exact ⟨artAt_ext he2 ha1, p2, hp2, t1, t2, t3, t4, (hi2.pol p2 hp2).decPos, t5⟩

/-- the decryption window at a later state, from what `later_setup` / `later_setup_faults` provide -/
theorem decrypt_window_core {st2 : St} {h : Nat} {a : Art} {p p2 : Policy} {ctx aad plain : String}
    (ha2 : artAt st2 h .enc = some a) (hp2 : st2.pol = some p2) (t1 : p2.ktype = p.ktype) (t2 : p2.derived = p.derived)
    (t4 : a.ver ≤ p2.latest) (t6 : 1 ≤ p2.minDec) (t5 : p2.minDec ≤ a.ver → kget p2.keys a.ver = some a.key)
    (s1 : p.ktype.encSupported = true) (s4 : getKey p ctx a.ver = .ok (a.key, a.dctx)) (s5 : a.aad = aad)
    (s6 : a.msg = plain) (k2 : 1 ≤ a.ver) :
    ((decrypt st2 h .same .same ctx aad).2 = .okPlain plain ↔ p2.minDec ≤ a.ver) ∧
      (¬ p2.minDec ≤ a.ver → (decrypt st2 h .same .same ctx aad).2 = .err "tooOld") := by
  obtain ⟨g0, g1, g2, g3, g4⟩ := getKey_spec s4
  refine ⟨⟨fun hdec => ?_, fun hwin => ?_⟩, fun hout => ?_⟩
  · obtain ⟨a', p', ha', hp', hd⟩ := decrypt_ok_iff.1 hdec
    rw [ha2] at ha'; cases ha'
    rw [hp2] at hp'; cases hp'
    obtain ⟨_, _, _, ver0, hv0, hrest⟩ := decryptArt_ok_iff.1 hd
    simp only [parseVer] at hv0; cases hv0
    simp only at hrest
    have hne : ¬ ((a.ver : Int) = 0) := by omega
    rw [if_neg hne] at hrest
    omega
  · rw [decrypt_ok_iff]
    refine ⟨a, p2, ha2, hp2, ?_⟩
    rw [decryptArt_ok_iff]
    refine ⟨by rw [t1]; exact s1, by simp, by simp, (a.ver : Int), rfl, ?_⟩
    have hne : ¬ ((a.ver : Int) = 0) := by omega
    simp only [if_neg hne]
    have hgk := getKey_intro (p := p2) (ctx := ctx) k2 t4 (t5 hwin) (by rw [t2]; exact g3) (by rw [t2]; exact g4)
    refine ⟨by omega, by omega, trivial, _, hgk, ?_, s5.symm, s6.symm⟩
    rw [t2, g2]
  · rw [decrypt_out ha2 hp2]
    have hne : ¬ ((a.ver : Int) = 0) := by omega
    have e1 : p2.ktype.encSupported = true := by rw [t1]; exact s1
    simp only [decryptArt, e1, parseVer, if_neg hne]
    rw [if_neg (by simp), if_neg (by simp), if_neg (by simp), if_neg (by omega), if_pos (by omega)]

/-! ### faults anywhere in a ring-keeping history, failing restores included -/

/-- `Persist` of a consistent policy under a fault: either nothing happens or it fails and nothing changed -/
theorem persist_id_fault {p : Policy} {a : List Key} (h : PInv p a) (k : Nat) :
    persist p a k = .ok p a ∨ ∃ cls, persist p a k = .fail cls p a := by
  have hk : (kget p.keys p.minDec).isSome = true := (h.keysDom _).2 ⟨Nat.le_refl _, h.decLe⟩
  have hlen := h.keysLen
  have h1 := h.decPos; have h2 := h.decLe; have h3 := h.archVer; have h4 := h.archMin
  have h5 := h.archLen; have h6 := h.availDec
  have henc : ¬ (p.minEnc > 0 ∧ p.minEnc < p.minDec) := by
    rcases h.encOk with e | e <;> omega
  have hr : verRange (p.archiveVer + 1) p.latest = [] := verRange_empty (by omega)
  have hdel : kdelRange p.keys ((p.latest : Int) - (p.keys.length : Int) + 1) p.minDec = p.keys := by
    apply kdelRange_none
    intro e _; rw [hlen]; omega
  unfold persist
  simp only [hk]
  rw [if_neg (by omega), if_neg (by omega), if_neg (by simp), if_neg (by omega), if_neg henc, if_neg (by omega)]
  simp only [Bool.not_true, Bool.false_eq_true, if_false]
  rw [hr]
  simp only [toArchive]
  have hnm : ¬ p.archiveMin < p.minAvail := by omega
  have hnv : ¬ p.archiveVer + 1 ≤ p.latest := by omega
  have hnl : ¬ a.length + p.minAvail < p.latest + 1 := by omega
  simp only [hnm, hnv, hnl, false_and, if_false, hdel]
  by_cases k1 : k = 1
  · rw [if_pos k1]; exact Or.inr ⟨_, rfl⟩
  rw [if_neg k1]
  by_cases k2 : k = 2
  · rw [if_pos k2]; exact Or.inr ⟨_, rfl⟩
  · rw [if_neg k2]; exact Or.inl rfl

theorem backup_fault {st : St} (h : InvF st) : Inv (backup st).1 ∧ Ext st (backup st).1 := by
  have h0 : Inv (backup (clr st)).1 ∧ Ext st (backup (clr st)).1 := ⟨inv_backup h, (ext_backup h).of_clr⟩
  unfold backup at h0 ⊢
  cases hp : st.pol with
  | none => exact ⟨h.congr (by simp [clr, hp]) rfl rfl rfl rfl, Ext.of_same (by simp [hp]) rfl rfl⟩
  | some p =>
    have hp' : (clr st).pol = some p := hp
    have hi : PInv p st.archive := h.pol p hp'
    rw [hp'] at h0
    simp only at h0 ⊢
    by_cases g1 : (!p.exportable) = true
    · rw [if_pos g1] at h0 ⊢; exact h0
    rw [if_neg g1] at h0 ⊢
    by_cases g2 : (!p.plainBackup) = true
    · rw [if_pos g2] at h0 ⊢; exact h0
    rw [if_neg g2] at h0 ⊢
    have e0 : persist p (clr st).archive (clr st).failPut = .ok p st.archive := persist_id hi
    rw [e0] at h0
    rcases persist_id_fault hi st.failPut with e | ⟨cls, e⟩
    · rw [e]; exact h0
    · rw [e]
      exact ⟨h.congr (by simp [clr, hp]) rfl rfl rfl rfl, Ext.of_same (by simp [hp]) rfl rfl⟩

/-- a restore through the endpoint that reports an error has changed nothing -/
theorem restore_err_state {st : St} {b : Nat} {f : Bool} {c : String} (h : (restore st b f).2 = .err c) :
    (restore st b f).1 = clr st := by
  unfold restore restoreWith at h ⊢
  simp only at h ⊢
  by_cases g0 : b = 0
  · rw [if_pos g0]; rfl
  rw [if_neg g0] at h ⊢
  cases hb : st.backups[b - 1]? with
  | none => rfl
  | some bk =>
    obtain ⟨bp, ba⟩ := bk
    rw [hb] at h
    simp only at h ⊢
    by_cases g1 : st.pol.isSome = true ∧ (!f) = true
    · rw [if_pos g1]; rfl
    rw [if_neg g1] at h ⊢
    by_cases g2 : st.failPut = 1
    · rw [if_pos g2]; rfl
    rw [if_neg g2] at h ⊢
    cases hpers : persist bp ba (st.failPut - 1) with
    | ok p' a => rw [hpers] at h; simp only [polOut] at h; cases h
    | fail cls q a => rfl
    | panic => rfl

/-- one step of a history of ring-keeping operations, fault plans and failing restores -/
theorem invF_step_any {st : St} (h : InvF st) (o : Op) (ho : o.keepsRingOrFaultOrRestore = true)
    (hr : ∀ b f, o = .restore b f → ∃ c, (step st o).2 = .err c) :
    InvF (step st o).1 ∧ Ext st (step st o).1 := by
  cases o with
  | failPut k => exact ⟨h.congr rfl rfl rfl rfl rfl, Ext.of_same rfl rfl rfl⟩
  | rotate => obtain ⟨i, e⟩ := rotate_fault h; exact ⟨i.toF, e⟩
  | config dec enc del exp apb => obtain ⟨i, e⟩ := config_fault h dec enc del exp apb; exact ⟨i.toF, e⟩
  | trim n => obtain ⟨i, e⟩ := trim_fault h n; exact ⟨i.toF, e⟩
  | backup => obtain ⟨i, e⟩ := backup_fault h; exact ⟨i.toF, e⟩
  | restore b f =>
    obtain ⟨c, hc⟩ := hr b f rfl
    simp only [step] at hc ⊢
    rw [restore_err_state hc]
    exact ⟨h.congr rfl rfl rfl rfl rfl, Ext.of_same rfl rfl rfl⟩
  | encrypt v c a n p =>
    obtain ⟨e1, _⟩ := encrypt_clr st v c a n p
    refine ⟨?_, ext_encrypt st v c a n p⟩
    unfold InvF; simp only [step]; rw [e1]; exact inv_encrypt h v c a n p
  | rewrap hd v c =>
    obtain ⟨e1, _⟩ := rewrap_clr st hd v c
    refine ⟨?_, ext_rewrap st hd v c⟩
    unfold InvF; simp only [step]; rw [e1]; exact inv_rewrap h hd v c
  | sign v c m =>
    obtain ⟨e1, _⟩ := sign_clr st v c m
    refine ⟨?_, ext_sign st v c m⟩
    unfold InvF; simp only [step]; rw [e1]; exact inv_sign h v c m
  | hmac v m =>
    obtain ⟨e1, _⟩ := hmac_clr st v m
    refine ⟨?_, ext_hmac st v m⟩
    unfold InvF; simp only [step]; rw [e1]; exact inv_hmac h v m
  | decrypt hd vm bm c a => simp only [step, decrypt_state]; exact ⟨h, Ext.refl _⟩
  | verify hd vm bm c m => simp only [step, verify_state]; exact ⟨h, Ext.refl _⟩
  | hmacVerify hd vm bm m => simp only [step, hmacVerify_state]; exact ⟨h, Ext.refl _⟩
  | new t d c => cases ho
  | delete => cases ho
  | rawConfig d e => cases ho
  | restoreRaw b f => cases ho

theorem invF_run_any : ∀ (ops : List Op) (st : St), InvF st → (∀ o ∈ ops, o.keepsRingOrFaultOrRestore = true) →
    restoresFail st ops = true → InvF (run st ops) ∧ Ext st (run st ops)
  | [], st, h, _, _ => ⟨h, Ext.refl st⟩
  | o :: os, st, h, ho, hr => by
    rw [restoresFail, Bool.and_eq_true] at hr
    obtain ⟨hr1, hr2⟩ := hr
    obtain ⟨i, e⟩ := invF_step_any h o (ho o (by simp)) (by
      intro b f hof
      subst hof
      simp only [Op.isRestore, Bool.not_true, Bool.false_or] at hr1
      cases hs : (step st (Op.restore b f)).2 <;> rw [hs] at hr1 <;> first | exact ⟨_, rfl⟩ | cases hr1)
    obtain ⟨i2, e2⟩ := invF_run_any os _ i (fun o' ho' => ho o' (by simp [ho'])) hr2
    exact ⟨i2, e.trans e2⟩

/-- what survives an arbitrary later history with storage faults anywhere and failing restores -/
theorem later_setup_any {st1 : St} (hi1 : Inv st1) {h : Nat} {kind : AKind} {a : Art}
    (ha1 : artAt st1 h kind = some a) {p : Policy} (hp1 : st1.pol = some p) (hk : kget p.keys a.ver = some a.key)
    (later : List Op) (ho : ∀ o ∈ later, o.keepsRingOrFaultOrRestore = true) (hr : restoresFail st1 later = true) :
    artAt (run st1 later) h kind = some a ∧
      ∃ p2, (run st1 later).pol = some p2 ∧ p2.ktype = p.ktype ∧ p2.derived = p.derived ∧
        p2.convergent = p.convergent ∧ a.ver ≤ p2.latest ∧ 1 ≤ p2.minDec ∧
        (p2.minDec ≤ a.ver → kget p2.keys a.ver = some a.key) := by
  obtain ⟨hi2, he2⟩ := invF_run_any later st1 hi1.toF ho hr
  have he2' : Ext st1 (clr (run st1 later)) := ⟨he2.pol, he2.arts⟩
  obtain ⟨p2, hp2, t1, t2, t3, t4, t5⟩ := key_stable hi1 hi2 he2' hp1 hk
  exact ⟨artAt_ext he2 ha1, p2, hp2, t1, t2, t3, t4, (hi2.pol p2 hp2).decPos, t5⟩

end Obao.Transit
