import Obao.Model.TokenCreate
import Obao.Props.C05
/-! Helper lemmas for C07: normalisation is idempotent, membership characterisations of `sortDedup`,
`removeDuplicates`, `sanitize`, `listDelete`, and inversion lemmas for the staged `create`. Core Lean only. -/
namespace Obao.TokenCreate

/-! ### characters -/

theorem isSpace_lowerC (c : Char) : isSpace (lowerC c) = isSpace c := by
  unfold lowerC
  split <;> first | rfl | decide

theorem lowerC_lowerC (c : Char) : lowerC (lowerC c) = lowerC c := by
  by_cases h : lowerC c = c
  · rw [h, h]
  · unfold lowerC at h ⊢
    split at h <;> first | (exact absurd rfl h) | decide

/-! ### trim -/

theorem trimL_of_head (t : Name) (h : ∀ c, t.head? = some c → isSpace c = false) : trimL t = t := by
  cases t with
  | nil => rfl
  | cons a l =>
    have := h a rfl
    simp [trimL, List.dropWhile, this]

theorem head_trimL (s : Name) : ∀ c, (trimL s).head? = some c → isSpace c = false := by
  intro c hc
  induction s with
  | nil => simp [trimL] at hc
  | cons a l ih =>
    unfold trimL at hc ih
    rw [List.dropWhile_cons] at hc
    split at hc
    · exact ih hc
    · rename_i hna
      simp at hc
      subst hc
      simpa using hna

theorem getLast_trimL (s : Name) : ∀ c, (trimL s).getLast? = some c → s.getLast? = some c := by
  intro c hc
  induction s with
  | nil => simpa [trimL] using hc
  | cons a l ih =>
    unfold trimL at hc ih
    rw [List.dropWhile_cons] at hc
    split at hc
    · have h1 := ih hc
      cases l with
      | nil => simp at h1
      | cons b l' => simpa [List.getLast?_cons_cons] using h1
    · exact hc

/-- a name without leading / trailing blanks -/
def NoEdge (t : Name) : Prop :=
  (∀ c, t.head? = some c → isSpace c = false) ∧ (∀ c, t.getLast? = some c → isSpace c = false)

theorem trim_of_noEdge (t : Name) (h : NoEdge t) : trim t = t := by
  unfold trim
  rw [trimL_of_head t h.1]
  rw [trimL_of_head t.reverse (by intro c hc; rw [List.head?_reverse] at hc; exact h.2 c hc)]
  exact List.reverse_reverse t

theorem noEdge_trim (s : Name) : NoEdge (trim s) := by
  unfold trim
  constructor
  · intro c hc
    rw [List.head?_reverse] at hc
    have h1 := getLast_trimL _ c hc
    rw [List.getLast?_reverse] at h1
    exact head_trimL s c h1
  · intro c hc
    rw [List.getLast?_reverse] at hc
    exact head_trimL _ c hc

theorem noEdge_map_lowerC (t : Name) (h : NoEdge t) : NoEdge (t.map lowerC) := by
  constructor
  · intro c hc
    rw [List.head?_map] at hc
    cases hh : t.head? with
    | none => simp [hh] at hc
    | some d =>
      simp [hh] at hc
      subst hc
      rw [isSpace_lowerC]
      exact h.1 d hh
  · intro c hc
    rw [List.getLast?_map] at hc
    cases hh : t.getLast? with
    | none => simp [hh] at hc
    | some d =>
      simp [hh] at hc
      subst hc
      rw [isSpace_lowerC]
      exact h.2 d hh

theorem noEdge_norm (s : Name) : NoEdge (norm s) := noEdge_map_lowerC _ (noEdge_trim s)

/-- `ToLower(TrimSpace(·))` is idempotent -/
theorem norm_norm (s : Name) : norm (norm s) = norm s := by
  show (trim (norm s)).map lowerC = norm s
  rw [trim_of_noEdge _ (noEdge_norm s)]
  unfold norm
  rw [List.map_map]
  congr 1
  funext c
  exact lowerC_lowerC c

theorem norm_nRoot : norm nRoot = nRoot := by decide
theorem norm_nDefault : norm nDefault = nDefault := by decide
theorem nRoot_ne_nDefault : nRoot ≠ nDefault := by decide
theorem nRoot_ne_nil : nRoot ≠ [] := by decide
theorem nDefault_ne_nil : nDefault ≠ [] := by decide

/-! ### sorting / deduplication: membership only -/

theorem mem_insertSorted (x a : Name) (l : List Name) : a ∈ insertSorted x l ↔ a = x ∨ a ∈ l := by
  induction l with
  | nil => simp [insertSorted]
  | cons y ys ih =>
    unfold insertSorted
    split
    · rename_i hxy
      subst hxy
      simp
    · split
      · simp
      · simp [ih]
        constructor
        · rintro (h | h | h) <;> simp [h]
        · rintro (h | h | h) <;> simp [h]

theorem mem_sortDedup (a : Name) (l : List Name) : a ∈ sortDedup l ↔ a ∈ l := by
  induction l with
  | nil => simp [sortDedup]
  | cons x xs ih => simp [sortDedup, mem_insertSorted, ih]

theorem mem_removeDuplicates (a : Name) (l : List Name) :
    a ∈ removeDuplicates l ↔ a ≠ [] ∧ ∃ y ∈ l, norm y = a := by
  unfold removeDuplicates
  rw [mem_sortDedup, List.mem_filter, List.mem_map]
  constructor
  · rintro ⟨⟨y, hy, rfl⟩, hne⟩
    refine ⟨?_, y, hy, rfl⟩
    intro h
    simp [h] at hne
  · rintro ⟨hne, y, hy, rfl⟩
    refine ⟨⟨y, hy, rfl⟩, ?_⟩
    cases hn : norm y with
    | nil => exact absurd hn hne
    | cons _ _ => rfl

theorem norm_of_mem_removeDuplicates {a : Name} {l : List Name} (h : a ∈ removeDuplicates l) : norm a = a := by
  obtain ⟨_, y, _, rfl⟩ := (mem_removeDuplicates a l).1 h
  exact norm_norm y

/-! ### SanitizePolicies -/

theorem sanitize_eq (P : List Name) (b : Bool) : sanitize P b =
    removeDuplicates (if nRoot ∈ P.map norm then [nRoot]
                      else if b = true ∧ nDefault ∉ P.map norm then P.map norm ++ [nDefault] else P.map norm) := by
  unfold sanitize
  simp only [List.contains_eq_mem]
  by_cases hr : nRoot ∈ P.map norm
  · simp only [hr, decide_true, if_true, Bool.true_or, Bool.not_true, Bool.and_false, Bool.false_eq_true, if_false]
  · by_cases hd : nDefault ∈ P.map norm
    · simp only [hr, hd, decide_false, decide_true, if_false, Bool.false_or, Bool.not_true, Bool.and_false,
        Bool.false_eq_true, not_true, and_false]
    · cases b <;> simp only [hr, hd, decide_false, if_false, Bool.false_or, Bool.not_false, Bool.and_true,
        Bool.false_eq_true, not_false_eq_true, and_true, if_true, Bool.and_self, false_and, Bool.false_and]

theorem mem_removeDuplicates_map_norm (a : Name) (P : List Name) :
    a ∈ removeDuplicates (P.map norm) ↔ a ≠ [] ∧ ∃ y ∈ P, norm y = a := by
  rw [mem_removeDuplicates]
  constructor
  · rintro ⟨hne, y, hy, rfl⟩
    obtain ⟨p, hp, rfl⟩ := List.mem_map.1 hy
    exact ⟨hne, p, hp, (norm_norm p).symm⟩
  · rintro ⟨hne, p, hp, rfl⟩
    exact ⟨hne, norm p, List.mem_map.2 ⟨p, hp, rfl⟩, norm_norm p⟩

/-- membership in `SanitizePolicies(P, addDefault)` -/
theorem mem_sanitize (a : Name) (P : List Name) (b : Bool) :
    a ∈ sanitize P b ↔
      a ≠ [] ∧ (if nRoot ∈ P.map norm then a = nRoot
                else (∃ y ∈ P, norm y = a) ∨ (b = true ∧ nDefault ∉ P.map norm ∧ a = nDefault)) := by
  rw [sanitize_eq]
  by_cases hr : nRoot ∈ P.map norm
  · rw [if_pos hr, if_pos hr, mem_removeDuplicates]
    constructor
    · rintro ⟨hne, y, hy, rfl⟩
      rw [List.mem_singleton] at hy
      subst hy
      exact ⟨hne, norm_nRoot⟩
    · rintro ⟨hne, rfl⟩
      exact ⟨hne, nRoot, List.mem_singleton.2 rfl, norm_nRoot⟩
  · rw [if_neg hr, if_neg hr]
    by_cases hc : b = true ∧ nDefault ∉ P.map norm
    · rw [if_pos hc, mem_removeDuplicates]
      constructor
      · rintro ⟨hne, y, hy, rfl⟩
        rcases List.mem_append.1 hy with hy | hy
        · obtain ⟨p, hp, rfl⟩ := List.mem_map.1 hy
          exact ⟨hne, Or.inl ⟨p, hp, (norm_norm p).symm⟩⟩
        · rw [List.mem_singleton] at hy
          subst hy
          exact ⟨hne, Or.inr ⟨hc.1, hc.2, norm_nDefault⟩⟩
      · rintro ⟨hne, h | ⟨_, _, h⟩⟩
        · obtain ⟨p, hp, rfl⟩ := h
          exact ⟨hne, norm p, List.mem_append.2 (Or.inl (List.mem_map.2 ⟨p, hp, rfl⟩)), norm_norm p⟩
        · subst h
          exact ⟨hne, nDefault, List.mem_append.2 (Or.inr (List.mem_singleton.2 rfl)), norm_nDefault⟩
    · rw [if_neg hc, mem_removeDuplicates_map_norm]
      constructor
      · rintro ⟨hne, h⟩
        exact ⟨hne, Or.inl h⟩
      · rintro ⟨hne, h | ⟨h1, h2, _⟩⟩
        · exact ⟨hne, h⟩
        · exact absurd ⟨h1, h2⟩ hc

theorem norm_of_mem_sanitize {a : Name} {P : List Name} {b : Bool} (h : a ∈ sanitize P b) : norm a = a := by
  unfold sanitize at h
  exact norm_of_mem_removeDuplicates h

/-- a list whose members are all normalised (every output of `sanitize` / `removeDuplicates` is) -/
def Normal (X : List Name) : Prop := ∀ x ∈ X, norm x = x

theorem normal_sanitize (P : List Name) (b : Bool) : Normal (sanitize P b) := fun _ h => norm_of_mem_sanitize h

theorem mem_map_norm_of_normal {X : List Name} (hX : Normal X) (a : Name) : a ∈ X.map norm ↔ a ∈ X := by
  constructor
  · intro h
    obtain ⟨x, hx, rfl⟩ := List.mem_map.1 h
    rw [hX x hx]; exact hx
  · intro h
    exact List.mem_map.2 ⟨a, h, hX a h⟩

/-- re-sanitising a normalised list adds nothing -/
theorem sanitize_false_subset {X : List Name} (hX : Normal X) {a : Name} (h : a ∈ sanitize X false) : a ∈ X := by
  rw [mem_sanitize] at h
  obtain ⟨_, h⟩ := h
  split at h
  · rename_i hr
    subst h
    exact (mem_map_norm_of_normal hX _).1 hr
  · rcases h with ⟨y, hy, rfl⟩ | ⟨hb, _⟩
    · rw [hX y hy]; exact hy
    · exact absurd hb (by simp)

/-- without `addDefault`, every member comes from the input (up to normalisation) -/
theorem mem_sanitize_false {a : Name} {P : List Name} (h : a ∈ sanitize P false) : ∃ y ∈ P, norm y = a := by
  rw [mem_sanitize] at h
  obtain ⟨_, h⟩ := h
  split at h
  · rename_i hr
    subst h
    obtain ⟨y, hy, hn⟩ := List.mem_map.1 hr
    exact ⟨y, hy, hn⟩
  · rcases h with h | ⟨hb, _⟩
    · exact h
    · exact absurd hb (by simp)

/-- with `addDefault`, a member is a member without it, or is `default` -/
theorem mem_sanitize_true {a : Name} {P : List Name} {b : Bool} (h : a ∈ sanitize P b) :
    a ∈ sanitize P false ∨ a = nDefault := by
  rw [mem_sanitize] at h ⊢
  obtain ⟨hne, h⟩ := h
  split at h
  · rename_i hr
    left; exact ⟨hne, by simp [hr, h]⟩
  · rename_i hr
    rcases h with h | ⟨_, _, h⟩
    · left; exact ⟨hne, by simp [hr, h]⟩
    · right; exact h

theorem root_mem_sanitize_iff (P : List Name) (b : Bool) : nRoot ∈ sanitize P b ↔ nRoot ∈ P.map norm := by
  rw [mem_sanitize]
  constructor
  · rintro ⟨_, h⟩
    split at h
    · assumption
    · rename_i hr
      rcases h with ⟨y, hy, hn⟩ | ⟨_, _, h⟩
      · exact absurd (List.mem_map.2 ⟨y, hy, hn⟩) hr
      · exact absurd h nRoot_ne_nDefault
  · intro hr
    exact ⟨nRoot_ne_nil, by simp [hr]⟩

/-! ### StrListDelete, StrListSubset -/

theorem mem_of_mem_listDelete {a d : Name} {l : List Name} (h : a ∈ listDelete l d) : a ∈ l := by
  induction l with
  | nil => simp [listDelete] at h
  | cons x xs ih =>
    unfold listDelete at h
    split at h
    · exact List.mem_cons_of_mem _ h
    · rcases List.mem_cons.1 h with h | h
      · subst h; exact List.mem_cons_self
      · exact List.mem_cons_of_mem _ (ih h)

theorem subset_iff (super sub : List Name) : subset super sub = true ↔ ∀ x ∈ sub, x ∈ super := by
  simp [subset, List.all_eq_true]

/-! ### inversion of the staged `create` -/


theorem create_ok {env : Env} {par : Parent} {ep : Endpoint} {rq : Req} {t : Created}
    (h : create env par ep rq = .ok t) :
    env.allowed = true ∧ par.batch = false ∧ par.numUses ≤ 0 ∧ createMid env par ep (parseFields rq) = .ok t := by
  unfold create at h
  split at h
  · contradiction
  · rename_i ha
    split at h
    · contradiction
    · split at h
      · contradiction
      · rename_i hb
        split at h
        · contradiction
        · rename_i h1
          split at h
          · contradiction
          · rename_i h2
            refine ⟨by simpa using ha, by simpa using hb, by omega, h⟩

theorem createMid_ok {env : Env} {par : Parent} {ep : Endpoint} {rq : Req} {t : Created}
    (h : createMid env par ep rq = .ok t) :
    ∃ batch X, batchOf (endpointRole ep) rq = .ok batch ∧ 0 ≤ rq.numUses ∧
      (rq.id ≠ .none → env.sudo = true ∧ env.nsChild = false) ∧
      (env.crossNS = true → env.sudo = true) ∧
      resolvePolicies env (endpointRole ep) par rq.policies rq.noDefault = .ok X ∧
      createTail env par ep rq batch X = .ok t := by
  unfold createMid at h
  simp only at h
  split at h
  · contradiction
  · rename_i hns
    split at h
    · contradiction
    · rename_i batch hb
      split at h
      · contradiction
      · rename_i hu
        split at h
        · contradiction
        · split at h
          · contradiction
          · split at h
            · contradiction
            · rename_i hid1
              split at h
              · contradiction
              · rename_i hid2
                split at h
                · contradiction
                · rename_i X hX
                  refine ⟨batch, X, hb, by omega, ?_, ?_, hX, h⟩
                  · intro hne
                    simp [hne] at hid1 hid2
                    exact ⟨hid1, hid2⟩
                  · intro hc
                    simpa [hc] using hns



theorem createTail_ok {env : Env} {par : Parent} {ep : Endpoint} {rq : Req} {batch : Bool} {X : List Name} {t : Created}
    (h : createTail env par ep rq batch X = .ok t) :
    ∃ orphan m ttl,
      (nRoot ∈ X → env.crossNS = false) ∧
      (nRoot ∈ X → nRoot ∈ par.policies) ∧ (nRoot ∈ X → batch = false) ∧
      orphanOf env ep rq = .ok orphan ∧
      parseAndMerge rq (endpointRole ep) batch env.sudo = .ok m ∧
      ttlOf env m X = .ok ttl ∧ (ttl = 0 → par.ttl = 0) ∧ idCheck batch rq = none ∧
      t = { policies := sanitize X false, orphan, batch, ttl,
            period := m.periodToUse, emax := m.emaxToUse,
            periodStored := if batch then 0 else m.periodStored,
            emaxStored := if batch then 0 else m.emaxStored,
            numUses := numUsesOf (endpointRole ep) rq,
            renewable := if ttl = 0 then false else renewableOf (endpointRole ep) batch rq,
            customId := !batch && rq.id = .custom,
            path := pathOf ep, role := endpointRoleName ep } := by
  unfold createTail at h
  simp only at h
  split at h
  · contradiction
  rename_i hr0
  split at h
  · contradiction
  · rename_i hr1
    split at h
    · contradiction
    · rename_i hr2
      split at h
      · contradiction
      · rename_i orphan ho
        split at h
        · contradiction
        · rename_i m hm
          split at h
          · contradiction
          · rename_i ttl httl
            split at h
            · contradiction
            · rename_i hpt
              split at h
              · contradiction
              · rename_i hid
                refine ⟨orphan, m, ttl, ?_, ?_, ?_, ho, hm, httl, ?_, hid, ?_⟩
                · intro hx
                  simpa [hx] using hr0
                · intro hx
                  simpa [hx] using hr1
                · intro hx
                  simpa [hx] using hr2
                · intro h0
                  simpa [h0] using hpt
                · injection h with h
                  exact h.symm

theorem mem_sanitize_true' {a : Name} {P : List Name} {b : Bool} (h : a ∈ sanitize P b) :
    a ∈ sanitize P false ∨ (a = nDefault ∧ b = true) := by
  rw [mem_sanitize] at h ⊢
  obtain ⟨hne, h⟩ := h
  split at h
  · rename_i hr
    left; exact ⟨hne, by simp [hr, h]⟩
  · rename_i hr
    rcases h with h | ⟨hb, _, h⟩
    · left; exact ⟨hne, by simp [hr, h]⟩
    · right; exact ⟨h, hb⟩

/-- the common tail of policy resolution -/
theorem resolveTail_ok {Y : List Name} {ad nd : Bool} {X : List Name} (h : resolveTail Y ad nd = .ok X) :
    Normal X ∧ (∀ x ∈ X, x ∈ sanitize Y ad) ∧ (∀ p ∈ nonAssignable, p ∉ X) := by
  unfold resolveTail at h
  simp only at h
  generalize hfin : (if nd = true then listDelete (sanitize Y ad) nDefault else sanitize Y ad) = fin at h
  have hsub : ∀ x ∈ fin, x ∈ sanitize Y ad := by
    intro x hx
    rw [← hfin] at hx
    split at hx
    · exact mem_of_mem_listDelete hx
    · exact hx
  split at h
  · contradiction
  · rename_i hna
    injection h with h
    subst h
    refine ⟨fun x hx => norm_of_mem_sanitize (hsub x hx), hsub, ?_⟩
    intro p hp hpx
    apply hna
    rw [List.any_eq_true]
    exact ⟨p, hpx, by simpa using hp⟩

/-- no role lists, same namespace, caller without sudo: nothing beyond the parent's policies -/
theorem resolveNoLists_nosudo {env : Env} {par : Parent} {P : List Name} {nd : Bool} {X : List Name}
    (hs : env.sudo = false) (hns : env.crossNS = false)
    (h : resolvePolicies.resolveNoLists env par P nd = .ok X) :
    Normal X ∧ (∀ p ∈ nonAssignable, p ∉ X) ∧
    ∀ x ∈ X, x ∈ sanitize par.policies false ∨ (x = nDefault ∧ nDefault ∈ par.policies ∧ nd = false) := by
  unfold resolvePolicies.resolveNoLists at h
  rw [hns, hs] at h
  simp only [Bool.false_eq_true, if_false, Bool.not_false, if_true] at h
  split at h
  · obtain ⟨hn, hsub, hna⟩ := resolveTail_ok h
    refine ⟨hn, hna, fun x hx => Or.inl ?_⟩
    exact sanitize_false_subset (normal_sanitize _ _) (hsub x hx)
  · split at h
    · contradiction
    · rename_i hss
      obtain ⟨hn, hsub, hna⟩ := resolveTail_ok h
      refine ⟨hn, hna, fun x hx => ?_⟩
      have hss' : subset (sanitize par.policies false) (sanitize P false) = true := by simpa using hss
      rw [subset_iff] at hss'
      rcases mem_sanitize_true' (hsub x hx) with h1 | ⟨h1, h2⟩
      · exact Or.inl (hss' x h1)
      · right
        simp only [Bool.and_eq_true, Bool.not_eq_true', List.contains_iff_mem] at h2
        exact ⟨h1, h2.2, h2.1⟩


/-! ### the role arm -/


theorem normal_nil : Normal ([] : List Name) := fun _ h => by simp at h

theorem roleAllowStep_ok {r : Role} {par : Parent} {P : List Name} {lad : Bool} {F : List Name}
    (h : roleAllowStep r par P lad = .ok F) :
    Normal F ∧
    ((r.allowed ≠ [] ∨ r.allowedGlob ≠ []) →
      ∀ p ∈ F, p ∈ sanitize r.allowed false ∨ p = nDefault ∨ containsGlob (sanitize r.allowedGlob false) p = true) ∧
    ((r.allowed = [] ∧ r.allowedGlob = []) →
      ∀ p ∈ F, p ∈ sanitize P lad ∨ p ∈ sanitize par.policies lad) := by
  unfold roleAllowStep at h
  simp only at h
  generalize hf0 : (if (!P.isEmpty) = true then sanitize P lad else []) = final0 at h
  have hn0 : Normal final0 := by
    rw [← hf0]; split
    · exact normal_sanitize _ _
    · exact normal_nil
  have hsub0 : ∀ p ∈ final0, p ∈ sanitize P lad := by
    intro p hp
    rw [← hf0] at hp
    split at hp
    · exact hp
    · simp at hp
  split at h
  · rename_i hal
    have hal' : r.allowed ≠ [] ∨ r.allowedGlob ≠ [] := by
      simpa [List.isEmpty_iff] using hal
    split at h
    · injection h with h
      subst h
      refine ⟨normal_sanitize _ _, fun _ p hp => ?_, fun hh => ?_⟩
      · rcases mem_sanitize_true' hp with h1 | ⟨h1, _⟩
        · exact Or.inl h1
        · exact Or.inr (Or.inl h1)
      · rcases hal' with h1 | h1
        · exact absurd hh.1 h1
        · exact absurd hh.2 h1
    · split at h
      · rename_i hall
        injection h with h
        subst h
        refine ⟨hn0, fun _ p hp => ?_, fun hh => ?_⟩
        · rw [List.all_eq_true] at hall
          have := hall p hp
          simp only [Bool.or_eq_true, List.contains_iff_mem] at this
          rcases this with h1 | h1
          · rcases mem_sanitize_true' h1 with h2 | ⟨h2, _⟩
            · exact Or.inl h2
            · exact Or.inr (Or.inl h2)
          · exact Or.inr (Or.inr h1)
        · rcases hal' with h1 | h1
          · exact absurd hh.1 h1
          · exact absurd hh.2 h1
      · contradiction
  · rename_i hal
    have hal' : r.allowed = [] ∧ r.allowedGlob = [] := by
      simpa [List.isEmpty_iff] using hal
    split at h
    · injection h with h
      subst h
      refine ⟨normal_sanitize _ _, fun hh => ?_, fun _ p hp => Or.inr hp⟩
      rcases hh with h1 | h1
      · exact absurd hal'.1 h1
      · exact absurd hal'.2 h1
    · injection h with h
      subst h
      refine ⟨hn0, fun hh => ?_, fun _ p hp => Or.inl (hsub0 p hp)⟩
      rcases hh with h1 | h1
      · exact absurd hal'.1 h1
      · exact absurd hal'.2 h1

theorem roleDisallowStep_ok {r : Role} {F G : List Name} (h : roleDisallowStep r F = .ok G) :
    G = F ∧ ∀ p ∈ G, (removeDuplicates r.disallowed).contains p = false ∧
                      containsGlob (removeDuplicates r.disallowedGlob) p = false := by
  unfold roleDisallowStep at h
  simp only at h
  split at h
  · split at h
    · contradiction
    · rename_i hany
      injection h with h
      subst h
      refine ⟨rfl, fun p hp => ?_⟩
      rw [Bool.not_eq_true, List.any_eq_false] at hany
      have := hany p hp
      simpa using this
  · rename_i hd
    injection h with h
    subst h
    refine ⟨rfl, fun p _ => ?_⟩
    have hd' : r.disallowed = [] ∧ r.disallowedGlob = [] := by simpa [List.isEmpty_iff] using hd
    rw [hd'.1, hd'.2]
    exact ⟨rfl, rfl⟩


/-! ### policy resolution as a whole; TTL / period merging -/
open Obao.TTL


theorem resolvePolicies_noLists {env : Env} {role : Option Role} {par : Parent} {P : List Name} {nd : Bool}
    (hl : ∀ r, role = some r → roleHasLists r = false) :
    resolvePolicies env role par P nd = resolvePolicies.resolveNoLists env par P nd := by
  unfold resolvePolicies
  cases role with
  | none => rfl
  | some r => simp [hl r rfl]

theorem resolvePolicies_roleLists {env : Env} {r : Role} {par : Parent} {P : List Name} {nd : Bool} {X : List Name}
    (hl : roleHasLists r = true) (h : resolvePolicies env (some r) par P nd = .ok X) :
    ∃ F G, roleAllowStep r par P (localAddDefaultOf r nd) = .ok F ∧ roleDisallowStep r F = .ok G ∧
      resolveTail G false nd = .ok X := by
  unfold resolvePolicies at h
  simp only [hl, if_true] at h
  split at h
  · contradiction
  · rename_i G hG
    unfold resolveRoleArm at hG
    split at hG
    · contradiction
    · rename_i F hF
      exact ⟨F, G, hF, hG, h⟩

theorem parseEmax_ok {d : Dur} {v : Int} (h : parseEmax d = .ok v) : 0 ≤ v := by
  unfold parseEmax at h
  split at h
  · injection h with h; omega
  · contradiction
  · split at h
    · contradiction
    · injection h with h; omega

theorem parseTTLReq_ok {d : Dur} {v : Int} (h : parseTTLReq d = .ok v) : 0 ≤ v := by
  unfold parseTTLReq at h
  split at h
  · injection h with h; omega
  · contradiction
  · split at h
    · contradiction
    · injection h with h; omega

theorem parsePeriod_ok {d : Dur} {sudo : Bool} {v : Int} (h : parsePeriod d sudo = .ok v) :
    0 ≤ v ∧ (sudo = false → v = 0) := by
  unfold parsePeriod at h
  split at h
  · injection h with h; subst h; exact ⟨by omega, fun _ => rfl⟩
  · contradiction
  · split at h
    · contradiction
    · split at h
      · injection h with h; subst h; exact ⟨by omega, fun _ => rfl⟩
      · split at h
        · contradiction
        · rename_i hs
          injection h with h; subst h
          refine ⟨by omega, fun hf => ?_⟩
          simp [hf] at hs

theorem mergeLesser_bounds (roleV reqV : Int) (hq : 0 ≤ reqV) :
    (0 < roleV → 0 < mergeLesser roleV reqV ∧ mergeLesser roleV reqV ≤ roleV) ∧
    (roleV ≤ 0 → reqV = 0 → mergeLesser roleV reqV ≤ 0) := by
  unfold mergeLesser
  constructor
  · intro hr
    have : (roleV != 0) = true := by simp; omega
    rw [if_pos this]
    split
    · omega
    · split <;> omega
  · intro hr h0
    subst h0
    split
    · simp; omega
    · omega

theorem parseAndMerge_ok {rq : Req} {role : Option Role} {batch sudo : Bool} {m : Merged}
    (h : parseAndMerge rq role batch sudo = .ok m) :
    0 ≤ m.ttl ∧ 0 ≤ m.emaxStored ∧ 0 ≤ m.periodStored ∧ (sudo = false → m.periodStored = 0) ∧
    (role = none → m.periodToUse = m.periodStored ∧ m.emaxToUse = m.emaxStored) ∧
    (batch = true → m.periodToUse = m.periodStored ∧ m.emaxToUse = m.emaxStored) ∧
    (∀ r, role = some r → batch = false →
        m.periodToUse = mergeLesser r.period m.periodStored ∧ m.emaxToUse = mergeLesser r.emax m.emaxStored) := by
  unfold parseAndMerge at h
  split at h
  · contradiction
  · rename_i emax he
    split at h
    · contradiction
    · rename_i period hp
      split at h
      · contradiction
      · rename_i ttl ht
        have h1 := parseEmax_ok he
        have h2 := parsePeriod_ok hp
        have h3 := parseTTLReq_ok ht
        split at h
        · rename_i r
          split at h
          · rename_i hb
            injection h with h; subst h
            refine ⟨h3, h1, h2.1, h2.2, (fun hn => nomatch hn), fun hbt => ?_, fun r' hr' _ => ?_⟩
            · simp [hbt] at hb
            · injection hr' with hr'; subst hr'; exact ⟨rfl, rfl⟩
          · rename_i hb
            injection h with h; subst h
            refine ⟨h3, h1, h2.1, h2.2, (fun hn => nomatch hn), fun _ => ⟨rfl, rfl⟩, fun r' _ hbf => ?_⟩
            simp [hbf] at hb
        · injection h with h; subst h
          exact ⟨h3, h1, h2.1, h2.2, fun _ => ⟨rfl, rfl⟩, fun _ => ⟨rfl, rfl⟩, (fun r' hr' => nomatch hr')⟩

theorem calcTTL_pos (i : Inp) (ttl : Int) (w : Nat) (h : calcTTL i = .ok ttl w)
    (hd : 0 < i.sysDefault) (hi : i.increment = 0) : 0 < ttl := by
  unfold calcTTL at h
  simp only at h
  repeat' (split at h)
  all_goals first
    | contradiction
    | (simp only [Out.ok.injEq] at h; omega)


/-! ### lifetime, orphan switch, login -/


/-- what `ttlOf` can return: either a `CalculateTTL` grant (positive, within the mount and explicit maxima), or —
    only for a token holding `root`, with no TTL and no period requested — the explicit max itself, or 0 -/
theorem ttlOf_ok {env : Env} {m : Merged} {X : List Name} {ttl : Int} (h : ttlOf env m X = .ok ttl)
    (hd : 0 < env.sysDefault) (hm : 0 ≤ m.ttl) :
    (0 < ttl ∧ ttl ≤ env.sysMax ∧ (0 < m.emaxToUse → ttl ≤ m.emaxToUse)) ∨
    (nRoot ∈ X ∧ m.ttl = 0 ∧ m.periodToUse ≤ 0 ∧
       ((0 < m.emaxToUse ∧ ttl = m.emaxToUse) ∨ (m.emaxToUse ≤ 0 ∧ ttl = 0))) := by
  unfold ttlOf at h
  simp only at h
  split at h
  · contradiction
  · rename_i t0 ht0
    injection h with h
    split at ht0
    · -- CalculateTTL ran
      split at ht0
      · rename_i tc w hc
        injection ht0 with ht0
        subst ht0
        have hpos := calcTTL_pos _ tc w hc hd rfl
        have hb := C05.calcTTL_bound _ tc w hc
        have he := C05.effMax_le (ttlInp env m)
        simp only [ttlInp] at hb he
        left
        have h0 : ¬ (tc = 0) := by omega
        simp only [h0, decide_false, Bool.false_and, Bool.false_eq_true, if_false] at h
        subst h
        refine ⟨hpos, ?_, ?_⟩
        · by_cases hp : m.periodToUse > 0
          · have := (hb.2 hp).2.1; omega
          · have := hb.1 (by omega); omega
        · intro hem
          by_cases hp : m.periodToUse > 0
          · have := (hb.2 hp).2.2 hem; omega
          · have := hb.1 (by omega); have := he.2.2 hem; omega
      · contradiction
    · rename_i hnc
      injection ht0 with ht0
      subst ht0
      right
      simp only [Bool.or_eq_true, decide_eq_true_eq, Bool.and_eq_true, beq_iff_eq, Bool.not_eq_true',
        not_or, not_and] at hnc
      obtain ⟨⟨hp, ht⟩, hr⟩ := hnc
      have hz : m.ttl = 0 := by omega
      have hroot : nRoot ∈ X := by
        have := hr hz
        simpa [List.contains_iff_mem] using this
      refine ⟨hroot, hz, by omega, ?_⟩
      by_cases hem : 0 < m.emaxToUse
      · left
        simp [hz, hem] at h
        exact ⟨hem, h.symm⟩
      · right
        have : ¬ (m.emaxToUse > 0) := by omega
        simp [hz, this] at h
        exact ⟨by omega, h.symm⟩

theorem orphanOf_ok {env : Env} {ep : Endpoint} {rq : Req} {o : Bool} (h : orphanOf env ep rq = .ok o) :
    (∀ r, endpointRole ep = some r → o = r.orphan) ∧
    (endpointRole ep = none →
      (o = true ↔ rq.noParent = true ∨ ep = .createOrphan) ∧ (rq.noParent = true → env.sudo = true)) := by
  unfold orphanOf at h
  split at h
  · rename_i r hr
    injection h with h
    subst h
    refine ⟨fun r' hr' => ?_, fun hn => ?_⟩
    · rw [hr] at hr'; injection hr' with hr'; rw [hr']
    · rw [hr] at hn; cases hn
  · rename_i hr
    refine ⟨fun r' hr' => ?_, fun _ => ?_⟩
    · rw [hr] at hr'; cases hr'
    · split at h
      · rename_i hnp
        split at h
        · contradiction
        · rename_i hs
          injection h with h
          subst h
          exact ⟨⟨fun _ => Or.inl hnp, fun _ => rfl⟩, fun _ => by simpa using hs⟩
      · rename_i hnp
        injection h with h
        subst h
        refine ⟨⟨fun ho => Or.inr ?_, fun ho => ?_⟩, fun hp => absurd hp hnp⟩
        · cases ep <;> simp_all
        · rcases ho with ho | ho
          · exact absurd ho hnp
          · subst ho; rfl

/-! ### login -/

theorem firstBad_none {l : List Name} (h : firstBad l = none) : nRoot ∉ l ∧ ∀ p ∈ nonAssignable, p ∉ l := by
  induction l with
  | nil => exact ⟨by simp, fun _ _ => by simp⟩
  | cons x xs ih =>
    unfold firstBad at h
    split at h
    · contradiction
    · rename_i hx
      split at h
      · contradiction
      · rename_i hna
        obtain ⟨h1, h2⟩ := ih h
        refine ⟨?_, fun p hp => ?_⟩
        · intro hm
          rcases List.mem_cons.1 hm with hm | hm
          · exact hx hm.symm
          · exact h1 hm
        · intro hm
          rcases List.mem_cons.1 hm with hm | hm
          · subst hm
            exact hna (by simpa [List.contains_iff_mem] using hp)
          · exact h2 p hp hm

theorem login_ok {mt : TokType} {sd sm : Int} {a : LoginAuth} {t : LoginTok} (h : login mt sd sm a = .ok t) :
    ∃ ttl w, calcTTL (loginInp sd sm a) = .ok ttl w ∧
      t.tokenPolicies = sanitize a.policies (!a.noDefault) ∧
      t.policies = sanitize (t.tokenPolicies ++ a.identity) false ∧
      firstBad t.policies = none ∧ t.ttl = ttl ∧ t.identity = sanitize a.identity false := by
  unfold login at h
  simp only at h
  split at h
  · rename_i ttl w hc
    split at h
    · contradiction
    · rename_i hfb
      split at h
      · contradiction
      · split at h
        · contradiction
        · injection h with h
          subst h
          exact ⟨ttl, w, hc, rfl, rfl, hfb, rfl, rfl⟩
  · contradiction




theorem resolveNoLists_ok {env : Env} {par : Parent} {P : List Name} {nd : Bool} {X : List Name}
    (h : resolvePolicies.resolveNoLists env par P nd = .ok X) : Normal X ∧ ∀ p ∈ nonAssignable, p ∉ X := by
  unfold resolvePolicies.resolveNoLists at h
  simp only at h
  repeat' (split at h)
  all_goals first
    | contradiction
    | exact ⟨(resolveTail_ok h).1, (resolveTail_ok h).2.2⟩

/-- every successful policy resolution ends in the common tail: normalised, nothing non-assignable -/
theorem resolvePolicies_ok {env : Env} {role : Option Role} {par : Parent} {P : List Name} {nd : Bool} {X : List Name}
    (h : resolvePolicies env role par P nd = .ok X) : Normal X ∧ ∀ p ∈ nonAssignable, p ∉ X := by
  unfold resolvePolicies at h
  split at h
  · split at h
    · split at h
      · contradiction
      · exact ⟨(resolveTail_ok h).1, (resolveTail_ok h).2.2⟩
    · exact resolveNoLists_ok h
  · exact resolveNoLists_ok h




/-- everything a successful `create` went through, in terms of the original request -/
theorem create_inv {env : Env} {par : Parent} {ep : Endpoint} {rq : Req} {t : Created}
    (h : create env par ep rq = .ok t) :
    env.allowed = true ∧ par.batch = false ∧ par.numUses ≤ 0 ∧
    ∃ batch X orphan m ttl,
      batchOf (endpointRole ep) rq = .ok batch ∧ 0 ≤ rq.numUses ∧
      (rq.id ≠ .none → env.sudo = true ∧ env.nsChild = false) ∧
      (env.crossNS = true → env.sudo = true) ∧
      resolvePolicies env (endpointRole ep) par (trimStrings rq.policies) rq.noDefault = .ok X ∧
      (nRoot ∈ X → env.crossNS = false) ∧
      (nRoot ∈ X → nRoot ∈ par.policies) ∧ (nRoot ∈ X → batch = false) ∧
      orphanOf env ep rq = .ok orphan ∧
      parseAndMerge rq (endpointRole ep) batch env.sudo = .ok m ∧
      ttlOf env m X = .ok ttl ∧ (ttl = 0 → par.ttl = 0) ∧ idCheck batch rq = none ∧
      t = { policies := sanitize X false, orphan, batch, ttl,
            period := m.periodToUse, emax := m.emaxToUse,
            periodStored := if batch then 0 else m.periodStored,
            emaxStored := if batch then 0 else m.emaxStored,
            numUses := numUsesOf (endpointRole ep) rq,
            renewable := if ttl = 0 then false else renewableOf (endpointRole ep) batch rq,
            customId := !batch && rq.id = .custom,
            path := pathOf ep, role := endpointRoleName ep } := by
  obtain ⟨h1, h2, h3, hmid⟩ := create_ok h
  obtain ⟨batch, X, hb, hu, hid, hns, hX, htail⟩ := createMid_ok hmid
  obtain ⟨orphan, m, ttl, hr0, hr1, hr2, ho, hm, httl, hpt, hidc, ht⟩ := createTail_ok htail
  exact ⟨h1, h2, h3, batch, X, orphan, m, ttl, hb, hu, hid, hns, hX, hr0, hr1, hr2, ho, hm, httl, hpt, hidc, ht⟩

/-! ### go-glob: the two simplest shapes -/

theorem splitStar_of_no_star (p : Name) (h : '*' ∉ p) : splitStar p = [p] := by
  induction p with
  | nil => rfl
  | cons c cs ih =>
    have hc : c ≠ '*' := fun e => h (by simp [e])
    have hcs : '*' ∉ cs := fun m => h (List.mem_cons_of_mem _ m)
    unfold splitStar
    rw [ih hcs]
    simp [hc]

end Obao.TokenCreate
