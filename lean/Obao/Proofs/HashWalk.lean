import Obao.Model.HashWalk
/-! Helper lemmas for C11 (hash walk): structural induction over the nested tree type. -/
namespace Obao.HashWalk

/-- what `Primitive` does to the leaf `(innermost key, value)` -/
def leafMap (fn : String → String) (ign : List String) (p : String × String) : String × String :=
  (p.1, hashLeaf fn ign p.1 p.2)

mutual
theorem leavesJ_hash (fn : String → String) (ign : List String) (key : String) :
    ∀ t : J, leavesJ key (hashJ fn ign key t) = (leavesJ key t).map (leafMap fn ign)
  | .str s => by simp [hashJ, leavesJ, leafMap]
  | .num _ => by simp [hashJ, leavesJ]
  | .bool _ => by simp [hashJ, leavesJ]
  | .null => by simp [hashJ, leavesJ]
  | .arr xs => by simp [hashJ, leavesJ, leavesList_hash fn ign key xs]
  | .obj kvs => by simp [hashJ, leavesJ, leavesFields_hash fn ign kvs]
theorem leavesList_hash (fn : String → String) (ign : List String) (key : String) :
    ∀ xs : List J, leavesList key (hashList fn ign key xs) = (leavesList key xs).map (leafMap fn ign)
  | [] => by simp [hashList, leavesList]
  | x :: xs => by simp [hashList, leavesList, leavesJ_hash fn ign key x, leavesList_hash fn ign key xs]
theorem leavesFields_hash (fn : String → String) (ign : List String) :
    ∀ kvs : List (String × J), leavesFields (hashFields fn ign kvs) = (leavesFields kvs).map (leafMap fn ign)
  | [] => by simp [hashFields, leavesFields]
  | (k, v) :: rest => by simp [hashFields, leavesFields, leavesJ_hash fn ign k v, leavesFields_hash fn ign rest]
end

mutual
theorem shapeJ_hash (fn : String → String) (ign : List String) (key : String) :
    ∀ t : J, shapeJ (hashJ fn ign key t) = shapeJ t
  | .str s => by simp [hashJ, shapeJ]
  | .num _ => by simp [hashJ, shapeJ]
  | .bool _ => by simp [hashJ, shapeJ]
  | .null => by simp [hashJ, shapeJ]
  | .arr xs => by simp [hashJ, shapeJ, shapeList_hash fn ign key xs]
  | .obj kvs => by simp [hashJ, shapeJ, shapeFields_hash fn ign kvs]
theorem shapeList_hash (fn : String → String) (ign : List String) (key : String) :
    ∀ xs : List J, shapeList (hashList fn ign key xs) = shapeList xs
  | [] => by simp [hashList, shapeList]
  | x :: xs => by simp [hashList, shapeList, shapeJ_hash fn ign key x, shapeList_hash fn ign key xs]
theorem shapeFields_hash (fn : String → String) (ign : List String) :
    ∀ kvs : List (String × J), shapeFields (hashFields fn ign kvs) = shapeFields kvs
  | [] => by simp [hashFields, shapeFields]
  | (k, v) :: rest => by simp [hashFields, shapeFields, shapeJ_hash fn ign k v, shapeFields_hash fn ign rest]
end

theorem hashLeaf_cases (fn : String → String) (ign : List String) (key s : String) :
    hashLeaf fn ign key s = fn s ∨ (hashLeaf fn ign key s = s ∧ (isTimeShaped s = true ∨ key ∈ ign)) := by
  unfold hashLeaf
  by_cases ht : isTimeShaped s = true
  · simp [ht]
  · by_cases hk : key ∈ ign
    · right; simp [ht, hk]
    · left; simp [ht, hk]

/-- a leaf that is neither time shaped nor under an exempt key is replaced by `fn` of it -/
theorem hashLeaf_secret (fn : String → String) (ign : List String) (key s : String)
    (ht : isTimeShaped s = false) (hk : key ∉ ign) : hashLeaf fn ign key s = fn s := by
  simp [hashLeaf, ht, hk]

end Obao.HashWalk

namespace Obao.HashWalk

theorem bind_isSome {α β : Type} (x : Option α) (f : α → Option β) (h : (x >>= f).isSome = true) :
    ∃ a, x = some a := by
  cases x with
  | none => simp at h
  | some a => exact ⟨a, rfl⟩

theorem strict_first_digit (b : List Nat) (h : strictRFC3339 b = true) :
    ∃ a rest, b = a :: rest ∧ isDig a = true := by
  unfold strictRFC3339 at h
  split at h
  · simp at h
  · rename_i hlen
    obtain ⟨y, hy⟩ := bind_isSome _ _ h
    unfold uintIn at hy
    split at hy
    · rename_i hall
      match b, hlen with
      | [], hl => simp at hl
      | a :: rest, _ =>
        refine ⟨a, rest, rfl, ?_⟩
        simp [List.take] at hall
        exact hall.1
    · simp at hy

theorem lax_first_digit (b : List Nat) (h : laxRFC3339 b = true) :
    ∃ a rest, b = a :: rest ∧ isDig a = true := by
  unfold laxRFC3339 at h
  obtain ⟨y, hy⟩ := bind_isSome _ _ h
  match b, hy with
  | a :: _ :: _ :: _ :: rest, hy =>
    refine ⟨a, _, rfl, ?_⟩
    simp only [num4?] at hy
    split at hy
    · rename_i hd; simp [Bool.and_eq_true] at hd; exact hd.1.1.1
    · simp at hy
  | [], hy => simp [num4?] at hy
  | [_], hy => simp [num4?] at hy
  | [_, _], hy => simp [num4?] at hy
  | [_, _, _], hy => simp [num4?] at hy

/-- every string accepted by `time.Time.UnmarshalText` starts with an ASCII digit -/
theorem timeShaped_first_digit (s : String) (h : isTimeShaped s = true) :
    ∃ a rest, utf8 s = a :: rest ∧ isDig a = true := by
  unfold isTimeShaped at h
  simp only [Bool.or_eq_true] at h
  rcases h with h | h
  · exact strict_first_digit _ h
  · exact lax_first_digit _ h

/-- list elision only removes string leaves (it replaces `keys` / `key_info` by their sizes) -/
theorem elide_leaves_sub (d : List (String × J)) : ∀ p ∈ leavesFields (elideFields d), p ∈ leavesFields d := by
  induction d with
  | nil => simp [elideFields, leavesFields]
  | cons kv rest ih =>
    obtain ⟨k, v⟩ := kv
    intro p hp
    unfold elideFields at hp
    split at hp
    · simp only [leavesFields, leavesJ, List.nil_append] at hp ⊢
      exact List.mem_append_right _ (ih p hp)
    · simp only [leavesFields, leavesJ, List.nil_append] at hp ⊢
      exact List.mem_append_right _ (ih p hp)
    · simp only [leavesFields] at hp ⊢
      rcases List.mem_append.mp hp with h | h
      · exact List.mem_append_left _ h
      · exact List.mem_append_right _ (ih p h)

end Obao.HashWalk
