import Obao.Proofs.TxnProofs
/-! `filepath.Join(prefix, after)` on well-formed inputs: for a slash-terminated prefix made of ordinary segments and an
`after` made of ordinary segments (optionally slash-terminated, as folder entries are) the joined path is
`prefix ++ after` minus the trailing slash — hence a SAFE cursor start. Core Lean only. -/
namespace Obao.Listing
open Obao.KV

/-- an ordinary path segment: not empty, not `.`, not `..`, no slash inside -/
def stableSeg (s : Key) : Prop := s ≠ [] ∧ s ≠ [dot] ∧ s ≠ [dot, dot] ∧ slash ∉ s

instance (s : Key) : Decidable (stableSeg s) := by unfold stableSeg; infer_instance

/-- `after` strings every in-tree caller passes: a previously returned entry, i.e. ordinary segments joined by `/`,
optionally followed by one `/` -/
def cleanStable (after : Key) : Prop :=
  ∃ segs : List Key, segs ≠ [] ∧ (∀ s ∈ segs, stableSeg s) ∧ (after = joinSlash segs ∨ after = joinSlash segs ++ [slash])

/-- prefixes every in-tree caller lists: empty, or ordinary segments each followed by `/` -/
def cleanDir (p : Key) : Prop :=
  p = [] ∨ ∃ segs : List Key, segs ≠ [] ∧ (∀ s ∈ segs, stableSeg s) ∧ p = joinSlash segs ++ [slash]

theorem splitSlash_ne_nil (a : Key) : splitSlash a ≠ [] := by
  induction a with
  | nil => simp [splitSlash]
  | cons c r ih =>
    unfold splitSlash
    split
    · simp
    · split <;> simp

theorem splitSlash_append_slash (a b : Key) : splitSlash (a ++ slash :: b) = splitSlash a ++ splitSlash b := by
  induction a with
  | nil => simp [splitSlash]
  | cons c r ih =>
    simp only [List.cons_append]
    rw [splitSlash.eq_2 c (r ++ slash :: b), splitSlash.eq_2 c r, ih]
    split
    · simp
    · cases h : splitSlash r with
      | nil => exact absurd h (splitSlash_ne_nil r)
      | cons s ss => simp

theorem splitSlash_no_slash {s : Key} (h : slash ∉ s) : splitSlash s = [s] := by
  induction s with
  | nil => rfl
  | cons c r ih =>
    have hc : c ≠ slash := fun e => h (by simp [e])
    have hr : slash ∉ r := fun m => h (List.mem_cons_of_mem _ m)
    unfold splitSlash
    simp [hc, ih hr]

theorem splitSlash_joinSlash (segs : List Key) (hne : segs ≠ []) (hs : ∀ s ∈ segs, slash ∉ s) :
    splitSlash (joinSlash segs) = segs := by
  induction segs with
  | nil => exact absurd rfl hne
  | cons s r ih =>
    cases r with
    | nil => simpa [joinSlash] using splitSlash_no_slash (hs s (List.mem_cons_self ..))
    | cons s2 r2 =>
      have : joinSlash (s :: s2 :: r2) = s ++ slash :: joinSlash (s2 :: r2) := rfl
      rw [this, splitSlash_append_slash, splitSlash_no_slash (hs s (List.mem_cons_self ..)),
        ih (by simp) (fun x hx => hs x (List.mem_cons_of_mem _ hx))]
      rfl

theorem foldl_cleanStep_stable (rooted : Bool) (segs st : List Key) (h : ∀ s ∈ segs, s = [] ∨ stableSeg s) :
    segs.foldl (cleanStep rooted) st = (segs.filter (· ≠ [])).reverse ++ st := by
  induction segs generalizing st with
  | nil => rfl
  | cons s r ih =>
    have hr : ∀ x ∈ r, x = [] ∨ stableSeg x := fun x hx => h x (List.mem_cons_of_mem _ hx)
    simp only [List.foldl_cons]
    rcases h s (List.mem_cons_self ..) with he | hst
    · subst he
      rw [show cleanStep rooted st [] = st by simp [cleanStep]]
      rw [ih st hr]
      simp
    · have hstep : cleanStep rooted st s = s :: st := by
        unfold cleanStep
        simp [hst.1, hst.2.1, hst.2.2.1]
      rw [hstep, ih _ hr, List.filter_cons_of_pos (by simpa using hst.1)]
      simp

theorem joinSlash_append (a b : List Key) (ha : a ≠ []) (hb : b ≠ []) :
    joinSlash (a ++ b) = joinSlash a ++ slash :: joinSlash b := by
  induction a with
  | nil => exact absurd rfl ha
  | cons s r ih =>
    cases r with
    | nil =>
      cases b with
      | nil => exact absurd rfl hb
      | cons b1 br => rfl
    | cons s2 r2 =>
      have h1 : joinSlash ((s :: s2 :: r2) ++ b) = s ++ slash :: joinSlash ((s2 :: r2) ++ b) := rfl
      have h2 : joinSlash (s :: s2 :: r2) = s ++ slash :: joinSlash (s2 :: r2) := rfl
      rw [h1, h2, ih (by simp)]
      simp

theorem stable_filter_self (segs : List Key) (hs : ∀ s ∈ segs, stableSeg s) : segs.filter (· ≠ []) = segs := by
  rw [List.filter_eq_self]
  intro s h; simpa using (hs s h).1

theorem head_joinSlash_ne_slash (segs : List Key) (hne : segs ≠ []) (hs : ∀ s ∈ segs, stableSeg s) (rest : Key) :
    (joinSlash segs ++ rest).head? ≠ some slash := by
  cases segs with
  | nil => exact absurd rfl hne
  | cons s r =>
    have hst := hs s (List.mem_cons_self ..)
    cases s with
    | nil => exact absurd rfl hst.1
    | cons c cs =>
      have hc : c ≠ slash := fun e => hst.2.2.2 (by simp [e])
      cases r with
      | nil => simpa [joinSlash] using hc
      | cons s2 r2 =>
        have : joinSlash ((c :: cs) :: s2 :: r2) = (c :: cs) ++ slash :: joinSlash (s2 :: r2) := rfl
        rw [this]; simpa using hc

theorem joinSlash_ne_nil (segs : List Key) (hne : segs ≠ []) (hs : ∀ s ∈ segs, stableSeg s) : joinSlash segs ≠ [] := by
  intro h
  have := head_joinSlash_ne_slash segs hne hs [slash]
  rw [h] at this
  simp at this

/-- `Clean` of a path whose elements are ordinary segments separated by one or more slashes, not rooted -/
theorem pathClean_of_segments (x : Key) (segs : List Key) (hne : segs ≠ []) (hs : ∀ s ∈ segs, stableSeg s)
    (hx : x ≠ []) (hroot : x.head? ≠ some slash)
    (hsplit : (splitSlash x).filter (· ≠ []) = segs) (hall : ∀ s ∈ splitSlash x, s = [] ∨ stableSeg s) :
    pathClean x = joinSlash segs := by
  unfold pathClean
  simp only [hx, if_false]
  have hr : (x.head? = some slash) = False := by simpa using hroot
  simp only [hr, decide_false, Bool.false_eq_true, if_false]
  rw [foldl_cleanStep_stable false _ [] hall, hsplit]
  simp [hne]

/-- the joined path on well-formed inputs -/
theorem joinPath_clean (p after : Key) (hp : cleanDir p) (ha : cleanStable after) :
    ∃ segsA : List Key, segsA ≠ [] ∧ (after = joinSlash segsA ∨ after = joinSlash segsA ++ [slash]) ∧
      joinPath p after = p ++ joinSlash segsA := by
  obtain ⟨segsA, hneA, hsA, hafter⟩ := ha
  refine ⟨segsA, hneA, hafter, ?_⟩
  have hslA : ∀ s ∈ segsA, slash ∉ s := fun s h => (hsA s h).2.2.2
  have hafter_ne : after ≠ [] := by
    rcases hafter with h | h
    · rw [h]; exact joinSlash_ne_nil segsA hneA hsA
    · rw [h]; simp
  -- segments of `after`
  have hsplitA : (splitSlash after).filter (· ≠ []) = segsA ∧ ∀ s ∈ splitSlash after, s = [] ∨ stableSeg s := by
    rcases hafter with h | h
    · rw [h, splitSlash_joinSlash segsA hneA hslA]
      exact ⟨stable_filter_self segsA hsA, fun s hs' => .inr (hsA s hs')⟩
    · have : joinSlash segsA ++ [slash] = joinSlash segsA ++ slash :: [] := rfl
      rw [h, this, splitSlash_append_slash, splitSlash_joinSlash segsA hneA hslA]
      constructor
      · rw [List.filter_append, stable_filter_self segsA hsA]; simp [splitSlash]
      · intro s hs'
        rcases List.mem_append.mp hs' with m | m
        · exact .inr (hsA s m)
        · simp [splitSlash] at m; exact .inl m
  rcases hp with hp0 | ⟨segsP, hneP, hsP, hpeq⟩
  · subst hp0
    unfold joinPath
    simp only [ne_eq, not_true_eq_false, if_false, hafter_ne, not_false_eq_true, if_true, List.nil_append]
    apply pathClean_of_segments after segsA hneA hsA hafter_ne ?_ hsplitA.1 hsplitA.2
    rcases hafter with h | h
    · rw [h]; simpa using head_joinSlash_ne_slash segsA hneA hsA []
    · rw [h]; exact head_joinSlash_ne_slash segsA hneA hsA [slash]
  · have hslP : ∀ s ∈ segsP, slash ∉ s := fun s h => (hsP s h).2.2.2
    have hpne : p ≠ [] := by rw [hpeq]; simp
    unfold joinPath
    simp only [ne_eq, hpne, not_false_eq_true, if_true]
    have hx : p ++ slash :: after = joinSlash segsP ++ slash :: (slash :: after) := by rw [hpeq]; simp
    have hsplit : splitSlash (p ++ slash :: after) = segsP ++ ([] :: splitSlash after) := by
      rw [hx, splitSlash_append_slash, splitSlash_joinSlash segsP hneP hslP]
      congr 1
    have hres : pathClean (p ++ slash :: after) = joinSlash (segsP ++ segsA) := by
      apply pathClean_of_segments _ (segsP ++ segsA) (by simp [hneP]) ?_ (by simp) ?_ ?_ ?_
      · intro s hs'
        rcases List.mem_append.mp hs' with m | m
        · exact hsP s m
        · exact hsA s m
      · rw [hx]; exact head_joinSlash_ne_slash segsP hneP hsP _
      · rw [hsplit, List.filter_append, stable_filter_self segsP hsP, List.filter_cons_of_neg (by simp), hsplitA.1]
      · rw [hsplit]
        intro s hs'
        rcases List.mem_append.mp hs' with m | m
        · exact .inr (hsP s m)
        · rcases List.mem_cons.mp m with e | m
          · exact .inl e
          · exact hsplitA.2 s m
    rw [hres, joinSlash_append segsP segsA hneP hneA, hpeq]
    simp

/-- **well-formed inputs give a safe cursor start, on both raft paths** -/
theorem seekSafe_of_clean (p after : Key) (hp : cleanDir p) (ha : cleanStable after) :
    SeekSafe (raftSeek p after) p after ∧ SeekSafe (txnSeek p after) p after := by
  obtain ⟨segsA, hneA, hafter, hjoin⟩ := joinPath_clean p after hp ha
  have hle : p ++ joinSlash segsA ≤ p ++ after := by
    rw [append_kle_append_left]
    rcases hafter with h | h
    · rw [h]; exact kle_refl _
    · rw [h]; exact kle_append_right _ _
  have hpre : hasPrefix p (joinPath p after) = true := by rw [hjoin]; exact hasPrefix_append ..
  have hne : after ≠ [] := by
    obtain ⟨segs, hne', hs', h'⟩ := ha
    rcases h' with h | h
    · rw [h]; exact joinSlash_ne_nil segs hne' hs'
    · rw [h]; simp
  constructor
  · refine ⟨raftSeek_hasPrefix p after, ?_⟩
    unfold raftSeek
    simp only [hne, if_false, hpre, if_true]
    rw [hjoin]; exact hle
  · unfold txnSeek
    simp only [hne, if_false]
    exact ⟨hpre, by rw [hjoin]; exact hle⟩

end Obao.Listing
