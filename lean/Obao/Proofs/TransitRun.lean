import Obao.Proofs.TransitStep
/-! Histories: the invariant along every fault-free history, and stability of archived keys and artifacts along
histories that keep the key ring. -/
namespace Obao.Transit

/-- a fault-free history -/
def FF (ops : List Op) : Prop := ∀ o ∈ ops, o.faultFree = true

/-- a history without create / restore / delete / fault plans -/
def KeepsRing (ops : List Op) : Prop := ∀ o ∈ ops, o.keepsRing = true

theorem keepsRing_ff {o : Op} (h : o.keepsRing = true) : o.faultFree = true := by
  cases o <;> first | rfl | cases h

theorem KeepsRing.ff {ops : List Op} (h : KeepsRing ops) : FF ops := fun o ho => keepsRing_ff (h o ho)

theorem decrypt_state (st : St) (h : Nat) (vm : VMut) (bm : BMut) (c a : String) : (decrypt st h vm bm c a).1 = st := by
  unfold decrypt; repeat' split
  all_goals rfl

theorem verify_state (st : St) (h : Nat) (vm : VMut) (bm : BMut) (c m : String) : (verify st h vm bm c m).1 = st := by
  unfold verify; repeat' split
  all_goals rfl

theorem hmacVerify_state (st : St) (h : Nat) (vm : VMut) (bm : BMut) (m : String) : (hmacVerify st h vm bm m).1 = st := by
  unfold hmacVerify; repeat' split
  all_goals rfl

theorem inv_step {st : St} (h : Inv st) (o : Op) (hf : o.faultFree = true) : Inv (step st o).1 := by
  cases o with
  | new t d c => exact inv_new h t d c
  | rotate => exact inv_rotate h
  | config dec enc del exp apb => exact inv_config h dec enc del exp apb
  | trim n => exact inv_trim h n
  | backup => exact inv_backup h
  | restore b f => exact inv_restore h b f
  | delete => exact inv_delete h
  | encrypt v c a n p => exact inv_encrypt h v c a n p
  | decrypt hd vm bm c a => simp only [step, decrypt_state]; exact h
  | rewrap hd v c => exact inv_rewrap h hd v c
  | sign v c m => exact inv_sign h v c m
  | verify hd vm bm c m => simp only [step, verify_state]; exact h
  | hmac v m => exact inv_hmac h v m
  | hmacVerify hd vm bm m => simp only [step, hmacVerify_state]; exact h
  | failPut k => cases hf
  | rawConfig d e => cases hf
  | restoreRaw b f => cases hf

theorem inv_run : ∀ (ops : List Op) (st : St), Inv st → FF ops → Inv (run st ops)
  | [], _, h, _ => h
  | o :: os, st, h, hf =>
    inv_run os _ (inv_step h o (hf o (by simp))) (fun o' ho' => hf o' (by simp [ho']))

theorem run_append (st : St) (xs ys : List Op) : run st (xs ++ ys) = run (run st xs) ys := by
  induction xs generalizing st with
  | nil => rfl
  | cons o os ih => exact ih _

/-! ### the key ring only grows at the top and is only cut at the bottom -/

/-- `(p', a')` extends `(p, a)`: same key type and modes, `latest` and `min_available_version` only grow, and
    every archive slot of a version that is still available holds the key it held before -/
structure PExt (p : Policy) (a : List Key) (p' : Policy) (a' : List Key) : Prop where
  ktype : p'.ktype = p.ktype
  derived : p'.derived = p.derived
  convergent : p'.convergent = p.convergent
  latest : p.latest ≤ p'.latest
  minAvail : p.minAvail ≤ p'.minAvail
  slots : ∀ v, p'.minAvail ≤ v → v ≤ p.latest → a'[v - p'.minAvail]? = a[v - p.minAvail]?

theorem PExt.refl (p : Policy) (a : List Key) : PExt p a p a :=
  ⟨rfl, rfl, rfl, Nat.le_refl _, Nat.le_refl _, fun _ _ _ => rfl⟩

theorem PExt.trans {p p' p'' : Policy} {a a' a'' : List Key} (h1 : PExt p a p' a') (h2 : PExt p' a' p'' a'') :
    PExt p a p'' a'' :=
  ⟨h2.ktype.trans h1.ktype, h2.derived.trans h1.derived, h2.convergent.trans h1.convergent,
   Nat.le_trans h1.latest h2.latest, Nat.le_trans h1.minAvail h2.minAvail,
   fun v hv1 hv2 => by
     rw [h2.slots v hv1 (Nat.le_trans hv2 h1.latest)]
     exact h1.slots v (Nat.le_trans h2.minAvail hv1) hv2⟩

/-- the state after extends the state before: the policy still exists and extends the old one, and the artifact
    table only grew at the end -/
structure Ext (s s' : St) : Prop where
  pol : ∀ p, s.pol = some p → ∃ p', s'.pol = some p' ∧ PExt p s.archive p' s'.archive
  arts : ∃ more, s'.arts = s.arts ++ more

theorem Ext.refl (s : St) : Ext s s := ⟨fun p hp => ⟨p, hp, PExt.refl _ _⟩, ⟨[], by simp⟩⟩

theorem Ext.trans {s s' s'' : St} (h1 : Ext s s') (h2 : Ext s' s'') : Ext s s'' := by
  refine ⟨fun p hp => ?_, ?_⟩
  · obtain ⟨p', hp', e1⟩ := h1.pol p hp
    obtain ⟨p'', hp'', e2⟩ := h2.pol p' hp'
    exact ⟨p'', hp'', e1.trans e2⟩
  · obtain ⟨m1, e1⟩ := h1.arts
    obtain ⟨m2, e2⟩ := h2.arts
    exact ⟨m1 ++ m2, by rw [e2, e1, List.append_assoc]⟩

/-- states that agree on policy, archive and artifacts -/
theorem Ext.of_same {s s' : St} (h1 : s'.pol = s.pol) (h2 : s'.archive = s.archive) (h3 : s'.arts = s.arts) : Ext s s' :=
  ⟨fun p hp => ⟨p, by rw [h1, hp], by rw [h2]; exact PExt.refl _ _⟩, ⟨[], by simp [h3]⟩⟩

theorem ext_rotate {st : St} (h : Inv st) : Ext st (rotate st).1 := by
  unfold rotate
  cases hp : st.pol with
  | none => exact Ext.of_same (by simp [hp]) rfl rfl
  | some p =>
    have hi := h.pol p hp
    have := persist_rotate hi (p.latest + 1, st.nextKey)
    simp only [rotated] at this
    simp only [h.noFault, this]
    refine ⟨fun q hq => ?_, ⟨[], by simp⟩⟩
    rw [hp] at hq; cases hq
    refine ⟨_, rfl, ⟨rfl, rfl, rfl, by simp, Nat.le_refl _, fun v hv1 hv2 => ?_⟩⟩
    have := hi.archLen
    simp only at hv1 ⊢
    rw [List.getElem?_append_left (by omega)]

theorem ext_config {st : St} (h : Inv st) (dec enc : Option Int) (del exp apb : Option Bool) :
    Ext st (config st dec enc del exp apb).1 := by
  unfold config
  cases hp : st.pol with
  | none => exact Ext.of_same (by simp [hp]) rfl rfl
  | some p =>
    have hi := h.pol p hp
    simp only
    cases ht : cfgTarget p dec enc del exp apb with
    | error c => exact Ext.of_same (by simp [hp]) rfl rfl
    | ok r =>
      obtain ⟨q, pn⟩ := r
      obtain ⟨hu, hf, ht'⟩ := cfgTarget_spec hi ht
      cases pn with
      | false =>
        simp only
        rw [hf rfl]
        exact Ext.of_same (by simp [hp]) rfl rfl
      | true =>
        obtain ⟨c1, c2, c3, c4, c5, c6⟩ := ht' rfl
        obtain ⟨ks, hks, hinv⟩ := persist_cfg hi hu.ring c1 c2 c3 c4 c5 c6
        simp only [h.noFault, hks]
        refine ⟨fun q' hq => ?_, ⟨[], by simp⟩⟩
        rw [hp] at hq; cases hq
        refine ⟨_, rfl, ⟨hu.ktype, hu.derived, hu.convergent, ?_, ?_, fun v hv1 hv2 => ?_⟩⟩
        · simp only; rw [hu.ring.latest]; exact Nat.le_refl _
        · simp only; rw [hu.ring.minAvail]; exact Nat.le_refl _
        · simp only; rw [hu.ring.minAvail]

theorem ext_trim {st : St} (h : Inv st) (n : Int) : Ext st (trim st n).1 := by
  unfold trim
  cases hp : st.pol with
  | none => exact Ext.of_same (by simp [hp]) rfl rfl
  | some p =>
    have hi := h.pol p hp
    simp only
    by_cases g1 : n < p.minAvail
    · rw [if_pos g1]; exact Ext.of_same (by simp [hp]) rfl rfl
    rw [if_neg g1]
    by_cases g2 : p.minEnc = 0
    · rw [if_pos g2]; exact Ext.of_same (by simp [hp]) rfl rfl
    rw [if_neg g2]
    by_cases g3 : p.minDec = 0
    · rw [if_pos g3]; exact Ext.of_same (by simp [hp]) rfl rfl
    rw [if_neg g3]
    by_cases g4 : n > p.minEnc
    · rw [if_pos g4]; exact Ext.of_same (by simp [hp]) rfl rfl
    rw [if_neg g4]
    by_cases g5 : n > p.minDec
    · rw [if_pos g5]; exact Ext.of_same (by simp [hp]) rfl rfl
    rw [if_neg g5]
    by_cases g6 : n < 0
    · rw [if_pos g6]; exact Ext.of_same (by simp [hp]) rfl rfl
    rw [if_neg g6]
    by_cases g7 : n = 0
    · rw [if_pos g7]; exact Ext.of_same (by simp [hp]) rfl rfl
    rw [if_neg g7]
    have e1 : p.minAvail ≤ n.toNat := by omega
    have e2 : n.toNat ≤ p.minDec := by omega
    simp only [h.noFault, persist_trim hi n.toNat e1 e2]
    refine ⟨fun q' hq => ?_, ⟨[], by simp⟩⟩
    rw [hp] at hq; cases hq
    refine ⟨_, rfl, ⟨rfl, rfl, rfl, Nat.le_refl _, e1, fun v hv1 hv2 => ?_⟩⟩
    simp only at hv1 ⊢
    rw [List.getElem?_drop]
    congr 1; omega

theorem ext_backup {st : St} (h : Inv st) : Ext st (backup st).1 := by
  unfold backup
  cases hp : st.pol with
  | none => exact Ext.of_same (by simp [hp]) rfl rfl
  | some p =>
    have hi := h.pol p hp
    simp only
    by_cases g1 : (!p.exportable) = true
    · rw [if_pos g1]; exact Ext.of_same (by simp [hp]) rfl rfl
    rw [if_neg g1]
    by_cases g2 : (!p.plainBackup) = true
    · rw [if_pos g2]; exact Ext.of_same (by simp [hp]) rfl rfl
    rw [if_neg g2]
    simp only [h.noFault, persist_id hi]
    exact Ext.of_same (by simp [hp]) rfl rfl

theorem ext_intern (st : St) (a : Art) : Ext st { st with arts := (internArt st.arts a).1 } := by
  refine ⟨fun p hp => ⟨p, hp, PExt.refl _ _⟩, ?_⟩
  rcases internArt_arts st.arts a with e | e
  · exact ⟨[], by simp [e]⟩
  · exact ⟨[a], by simp [e]⟩

theorem ext_encrypt (st : St) (ver : Int) (ctx aad nonce plain : String) :
    Ext st (encrypt st ver ctx aad nonce plain).1 := by
  unfold encrypt
  split
  · exact Ext.refl _
  · split
    · exact Ext.refl _
    · exact ext_intern st _

theorem ext_rewrap (st : St) (hd : Nat) (ver : Int) (ctx : String) : Ext st (rewrap st hd ver ctx).1 := by
  unfold rewrap
  split
  · exact Ext.refl _
  · split
    · exact Ext.refl _
    · split
      · exact Ext.refl _
      · exact ext_encrypt st _ _ _ _ _

theorem ext_sign (st : St) (ver : Int) (ctx msg : String) : Ext st (sign st ver ctx msg).1 := by
  unfold sign
  split
  · exact Ext.refl _
  · split
    · exact Ext.refl _
    · exact ext_intern st _

theorem ext_hmac (st : St) (ver : Int) (msg : String) : Ext st (hmac st ver msg).1 := by
  unfold hmac
  split
  · exact Ext.refl _
  · split
    · exact Ext.refl _
    · exact ext_intern st _

theorem ext_step {st : St} (h : Inv st) (o : Op) (hk : o.keepsRing = true) : Ext st (step st o).1 := by
  cases o with
  | new t d c => cases hk
  | rotate => exact ext_rotate h
  | config dec enc del exp apb => exact ext_config h dec enc del exp apb
  | trim n => exact ext_trim h n
  | backup => exact ext_backup h
  | restore b f => cases hk
  | delete => cases hk
  | encrypt v c a n p => exact ext_encrypt st v c a n p
  | decrypt hd vm bm c a => simp only [step, decrypt_state]; exact Ext.refl _
  | rewrap hd v c => exact ext_rewrap st hd v c
  | sign v c m => exact ext_sign st v c m
  | verify hd vm bm c m => simp only [step, verify_state]; exact Ext.refl _
  | hmac v m => exact ext_hmac st v m
  | hmacVerify hd vm bm m => simp only [step, hmacVerify_state]; exact Ext.refl _
  | failPut k => cases hk
  | rawConfig d e => cases hk
  | restoreRaw b f => cases hk

theorem ext_run : ∀ (ops : List Op) (st : St), Inv st → KeepsRing ops → Ext st (run st ops)
  | [], st, _, _ => Ext.refl st
  | o :: os, st, h, hk =>
    (ext_step h o (hk o (by simp))).trans
      (ext_run os _ (inv_step h o (keepsRing_ff (hk o (by simp)))) (fun o' ho' => hk o' (by simp [ho'])))

end Obao.Transit
