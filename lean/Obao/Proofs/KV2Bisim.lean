import Obao.Proofs.KV2Obs
/-! C14 helper lemmas, part 4: where the data a read returns comes from (`live`), and observational equivalence of
states that differ only in blobs no metadata refers to (`ObsEq`): equivalent states answer every request alike. -/
namespace Obao.KV2

/-- version `x` is listed, not destroyed, and its blob holds `d` -/
def live (ps : PathSt) (x : Nat) (d : Data) : Prop :=
  ∃ m vm, ps.md = some m ∧ m.versions x = some vm ∧ vm.destroyed = false ∧ ps.blobs x = some d

/-- the data a successful write/patch stores: the request's data, resp. the merge patch applied to what a read of
    the current version returns -/
def storedData (s : State) : Op → Option Data
  | .write _ _ d => some d
  | .patch p _ pd =>
    match readPath (s.paths p) 0 with
    | .data _ d0 _ => some (mergePatch d0 pd)
    | _ => none
  | _ => none

def wroteVersion : Resp → Option Nat
  | .wrote v _ _ => some v
  | _ => none

theorem live_bound (ps : PathSt) (h : PathWF ps) (x : Nat) (d : Data) (hl : live ps x d) : x ≤ (metaOr ps).current := by
  obtain ⟨m, vm, hm, hv, _, _⟩ := hl
  rw [metaOr_some ps m hm]
  exact ((h.mwf m hm).bound x vm hv).2.2

/-- a read that returns data returns the blob of a live version -/
theorem readPath_data (ps : PathSt) (v : Int) (ver : Nat) (d : Data) (del : Del) (h : readPath ps v = .data ver d del) :
    live ps ver d ∧ ver = (if v > 0 then v.toNat else (metaOr ps).current) := by
  unfold readPath at h
  split at h
  · cases h
  · rename_i m hm
    simp only at h
    split at h
    · cases h
    · rename_i vm hv
      split at h
      · cases h
      · split at h
        · cases h
        · rename_i hds
          split at h
          · cases h
          · rename_i d0 hd0
            cases h
            rw [metaOr_some ps m hm]
            exact ⟨⟨m, vm, hm, hv, by simpa using hds, hd0⟩, rfl⟩

theorem writeOutcome_live (ps ps' : PathSt) (m : Meta) (d dn : Data) (del : Del) (c : Nat) (r : Resp) (x : Nat)
    (hwf : PathWF ps) (hm : m = metaOr ps) (h : WriteOutcome ps m dn del c ps' r) (hl : live ps' x d) :
    live ps x d ∨ (wroteVersion r = some x ∧ d = dn) := by
  have mwf : MetaWF m := hm ▸ metaOr_wf ps hwf
  obtain ⟨m', vm', hm', hv', hd', hb'⟩ := hl
  rcases h with ⟨w, hr, hmd, hb, hrest⟩ | ⟨_, hmd, hrest⟩
  · rw [hmd] at hm'; cases hm'
    have awf := addVersion_wf m del c mwf
    have hbnd := awf.bound x vm' hv'
    by_cases hx : x = m.current + 1
    · right; subst hx
      rw [hb] at hb'; cases hb'
      exact ⟨by rw [hr]; rfl, rfl⟩
    · left
      rw [addVersion_versions] at hv'
      by_cases hpr : pruned m c x
      · simp [hpr] at hv'
      · simp only [hpr, ↓reduceIte, hx] at hv'
        obtain ⟨m0, hm0, hv0⟩ := metaOr_versions ps x vm' (hm ▸ hv')
        have hgt : (addVersion m del c).2 < x := by
          rcases addVersion_vtd m del c with h0 | h1 <;> omega
        rw [hrest x hgt hx] at hb'
        exact ⟨m0, vm', hm0, hv0, hd', hb'⟩
  · left
    rw [hmd] at hm'
    have hb := (hwf.mwf m' hm').bound x vm' hv'
    have hcur : m.current = m'.current := by rw [hm, metaOr_some ps m' hm']
    rw [hrest x (by omega)] at hb'
    exact ⟨m', vm', hm', hv', hd', hb'⟩

theorem flagOnly_live (ps : PathSt) (m m' : Meta) (hm : ps.md = some m) (fs : FlagStep m m') (x : Nat) (d : Data)
    (hl : live { ps with md := some m' } x d) : live ps x d := by
  obtain ⟨m2, vm', hm2, hv', hd', hb'⟩ := hl
  cases hm2
  obtain ⟨vm0, hv0, hd0⟩ := fs.live x vm' hv' hd'
  exact ⟨m, vm0, hm, hv0, hd0, hb'⟩

theorem settingsShape_live (ps ps' : PathSt) (r : Resp) (sh : SettingsShape ps ps' r) (x : Nat) (d : Data)
    (hl : live ps' x d) : live ps x d := by
  rcases sh with e | ⟨m', e, sv, _⟩
  · rwa [e] at hl
  · rw [e] at hl
    obtain ⟨m2, vm', hm2, hv', hd', hb'⟩ := hl
    cases hm2
    rw [sv.vers] at hv'
    obtain ⟨m0, hm0, hv0⟩ := metaOr_versions ps x vm' hv'
    exact ⟨m0, vm', hm0, hv0, hd', hb'⟩

/-- where live data comes from, one request at a time: it was live before, or this request wrote it -/
theorem stepF_live (tx : Bool) (fault : Option Nat) (s : State) (op : Op) (p : String) (x : Nat) (d : Data)
    (hwf : WF s) (hl : live ((stepF tx fault s op).1.paths p) x d) :
    live (s.paths p) x d ∨
      (op.writesTo = some p ∧ wroteVersion (stepF tx fault s op).2.1 = some x ∧ storedData s op = some d) := by
  -- requests on other paths
  have other : ∀ q ps', q ≠ p → live ((setPath s q ps').paths p) x d → live (s.paths p) x d := by
    intro q ps' hq h
    rwa [setPath_other s q p ps' (fun e => hq e.symm)] at h
  cases op with
  | write q cas dn =>
    simp only [stepF] at hl ⊢
    by_cases hq : q = p
    · subst hq
      rw [setPath_same] at hl
      rcases writePath_cases s.cfg (s.paths q) cas dn tx fault with ⟨e, _⟩ | ⟨_, ho⟩
      · left; rwa [e] at hl
      · rcases writeOutcome_live _ _ _ _ _ _ _ _ _ (hwf q) rfl ho hl with h | ⟨h1, h2⟩
        · exact Or.inl h
        · exact Or.inr ⟨rfl, h1, by simp [storedData, h2]⟩
    · exact Or.inl (other q _ hq hl)
  | patch q cas pd =>
    simp only [stepF] at hl ⊢
    by_cases hq : q = p
    · subst hq
      rw [setPath_same] at hl
      rcases patchPath_cases s.cfg (s.paths q) cas pd tx fault with ⟨e, _⟩ | ⟨m, vm, d0, hm, _, hv, hdel, hds, hb, ho⟩
      · left; rwa [e] at hl
      · rcases writeOutcome_live _ _ _ _ _ _ _ _ _ (hwf q) (metaOr_some _ m hm).symm ho hl with h | ⟨h1, h2⟩
        · exact Or.inl h
        · refine Or.inr ⟨rfl, h1, ?_⟩
          have hread : readPath (s.paths q) 0 = .data m.current d0 vm.del := by
            simp [readPath, hm, hv, hdel, hds, hb]
          simp [storedData, hread, h2]
    · exact Or.inl (other q _ hq hl)
  | read q v => exact Or.inl hl
  | delete q =>
    left
    simp only [stepF] at hl
    by_cases hq : q = p
    · subst hq
      rw [setPath_same] at hl
      unfold deleteLatest at hl
      split at hl
      · exact hl
      · rename_i m hm
        split at hl
        · exact hl
        · rename_i vm hv
          split at hl
          · exact hl
          · split at hl
            · exact hl
            · exact flagOnly_live _ m _ hm (setVer_flagStep m m.current vm { vm with del := .deleted } hv (fun h => h)) x d hl
    · exact other q _ hq hl
  | deleteV q vs =>
    left
    simp only [stepF] at hl
    split at hl
    · exact hl
    · by_cases hq : q = p
      · subst hq
        rw [setPath_same] at hl
        unfold deleteVersions at hl
        split at hl
        · exact hl
        · rename_i m hm
          exact flagOnly_live _ m _ hm (foldl_flagStep _ markDeleted_flagStep vs m) x d hl
      · exact other q _ hq hl
  | undelete q vs =>
    left
    simp only [stepF] at hl
    split at hl
    · exact hl
    · by_cases hq : q = p
      · subst hq
        rw [setPath_same] at hl
        unfold undeleteVersions at hl
        split at hl
        · exact hl
        · rename_i m hm
          exact flagOnly_live _ m _ hm (foldl_flagStep _ (markUndeleted_flagStep s.cfg) vs m) x d hl
      · exact other q _ hq hl
  | destroy q vs =>
    left
    simp only [stepF] at hl
    split at hl
    · exact hl
    · by_cases hq : q = p
      · subst hq
        rw [setPath_same] at hl
        unfold destroyVersions at hl
        split at hl
        · exact hl
        · rename_i m hm
          obtain ⟨m2, vm', hm2, hv', hd', hb'⟩ := hl
          cases hm2
          obtain ⟨vm0, hv0, hd0⟩ := (foldl_flagStep _ markDestroyed_flagStep vs m).live x vm' hv' hd'
          simp only at hb'
          split at hb'
          · cases hb'
          · exact ⟨m, vm0, hm, hv0, hd0, hb'⟩
      · exact other q _ hq hl
  | metaWrite q a =>
    left
    simp only [stepF] at hl
    by_cases hq : q = p
    · subst hq
      rw [setPath_same] at hl
      exact settingsShape_live _ _ _ (metaWrite_shape s.cfg (s.paths q) a) x d hl
    · exact other q _ hq hl
  | metaPatch q a =>
    left
    simp only [stepF] at hl
    by_cases hq : q = p
    · subst hq
      rw [setPath_same] at hl
      exact settingsShape_live _ _ _ (metaPatch_shape s.cfg (s.paths q) a) x d hl
    · exact other q _ hq hl
  | metaRead q => exact Or.inl hl
  | metaDelete q =>
    left
    simp only [stepF] at hl
    by_cases hq : q = p
    · subst hq
      rw [setPath_same] at hl
      unfold metaDelete at hl
      split at hl
      · exact hl
      · obtain ⟨m2, _, hm2, _⟩ := hl
        cases hm2
    · exact other q _ hq hl
  | confWrite mx cr dva => exact Or.inl hl
  | confRead => exact Or.inl hl

/-! ### observational equivalence -/

/-- same metadata, and the same blob for every version the metadata lists -/
def ObsEq (a b : PathSt) : Prop :=
  a.md = b.md ∧ ∀ m x, a.md = some m → (m.versions x).isSome = true → a.blobs x = b.blobs x

def StateObsEq (s t : State) : Prop := s.cfg = t.cfg ∧ ∀ p, ObsEq (s.paths p) (t.paths p)

theorem ObsEq.refl (a : PathSt) : ObsEq a a := ⟨rfl, fun _ _ _ _ => rfl⟩

theorem StateObsEq.refl (s : State) : StateObsEq s s := ⟨rfl, fun _ => ObsEq.refl _⟩

theorem ObsEq.metaOr {a b : PathSt} (h : ObsEq a b) : metaOr a = metaOr b := by unfold Obao.KV2.metaOr; rw [h.1]

theorem readPath_obsEq (a b : PathSt) (h : ObsEq a b) (v : Int) : readPath a v = readPath b v := by
  unfold readPath
  rw [← h.1]
  split
  · rfl
  · rename_i m hm
    simp only
    split
    · rfl
    · rename_i vm hv
      rw [h.2 m _ hm (by rw [hv]; rfl)]

theorem metaRead_obsEq (a b : PathSt) (h : ObsEq a b) : metaRead a = metaRead b := by
  unfold metaRead; rw [h.1]

theorem flagOnly_obsEq (a b : PathSt) (m m' : Meta) (h : ObsEq a b) (hm : a.md = some m) (fs : FlagStep m m') :
    ObsEq { a with md := some m' } { b with md := some m' } := by
  refine ⟨rfl, ?_⟩
  intro m2 x hm2 hx
  cases hm2
  exact h.2 m x hm (by rw [← fs.isSome x]; exact hx)

theorem settings_obsEq (a b : PathSt) (m' : Meta) (h : ObsEq a b) (sv : SameVersions (metaOr a) m') :
    ObsEq { a with md := some m' } { b with md := some m' } := by
  refine ⟨rfl, ?_⟩
  intro m2 x hm2 hx
  cases hm2
  rw [sv.vers] at hx
  obtain ⟨vm, hv⟩ := Option.isSome_iff_exists.mp hx
  obtain ⟨m0, hm0, hv0⟩ := metaOr_versions a x vm hv
  exact h.2 m0 x hm0 (by rw [hv0]; rfl)

theorem commitWrite_none (ps : PathSt) (m : Meta) (d : Data) (del : Del) (c : Nat) (tx : Bool) (base : Nat) :
    ∃ ps', commitWrite ps m d del c tx none base = (ps', .wrote (m.current + 1) del false, false) ∧
      ps'.md = some (addVersion m del c).1 ∧ ps'.blobs (m.current + 1) = some d ∧
      ∀ x, (addVersion m del c).2 < x → x ≠ m.current + 1 → ps'.blobs x = ps.blobs x := by
  have ho := commitWrite_outcome ps m d del c tx none base
  have hr : (commitWrite ps m d del c tx none base).2 = (.wrote (m.current + 1) del false, false) := by
    simp [commitWrite, addVersion_current]
  refine ⟨(commitWrite ps m d del c tx none base).1, ?_, ?_⟩
  · rw [← hr]
  · rcases ho with ⟨w, _, hmd, hb, hrest⟩ | ⟨he, _⟩
    · exact ⟨hmd, hb, hrest⟩
    · rw [hr] at he; cases he

/-- fault-free tails of a write on equivalent path states: same answer, equivalent results -/
theorem commitWrite_obsEq (a b : PathSt) (m : Meta) (d : Data) (del : Del) (c : Nat) (tx tx' : Bool) (base base' : Nat)
    (h : ObsEq a b) (hm : m = metaOr a) (hwf : PathWF a) :
    (commitWrite a m d del c tx none base).2.1 = (commitWrite b m d del c tx' none base').2.1 ∧
    ObsEq (commitWrite a m d del c tx none base).1 (commitWrite b m d del c tx' none base').1 := by
  obtain ⟨a', ea, hamd, hab, harest⟩ := commitWrite_none a m d del c tx base
  obtain ⟨b', eb, hbmd, hbb, hbrest⟩ := commitWrite_none b m d del c tx' base'
  rw [ea, eb]
  refine ⟨rfl, ?_, ?_⟩
  · simp only; rw [hamd, hbmd]
  · intro m2 x hm2 hx
    simp only at hm2 ⊢
    rw [hamd] at hm2; cases hm2
    have mwf : MetaWF m := hm ▸ metaOr_wf a hwf
    have awf := addVersion_wf m del c mwf
    obtain ⟨vm, hv⟩ := Option.isSome_iff_exists.mp hx
    have hbnd := awf.bound x vm hv
    by_cases hxc : x = m.current + 1
    · subst hxc; rw [hab, hbb]
    · have hgt : (addVersion m del c).2 < x := by
        rcases addVersion_vtd m del c with h0 | h1 <;> omega
      rw [harest x hgt hxc, hbrest x hgt hxc]
      have hold : (m.versions x).isSome = true := by
        have := (addVersion_present m del c mwf x).mp hx
        rcases this.1 with e | e
        · exact absurd e hxc
        · exact e
      obtain ⟨vm0, hv0⟩ := Option.isSome_iff_exists.mp hold
      obtain ⟨m0, hm0, hv0'⟩ := metaOr_versions a x vm0 (hm ▸ hv0)
      exact h.2 m0 x hm0 (by rw [hv0']; rfl)

theorem writePath_obsEq (cfg : Config) (a b : PathSt) (cas : Cas) (d : Data) (h : ObsEq a b) (hwf : PathWF a) :
    (writePath cfg a cas d false none).2.1 = (writePath cfg b cas d false none).2.1 ∧
    ObsEq (writePath cfg a cas d false none).1 (writePath cfg b cas d false none).1 := by
  simp only [writePath, Bool.false_eq_true, false_and, reduceCtorEq, ↓reduceIte, ← h.metaOr]
  split
  · exact ⟨rfl, h⟩
  · exact commitWrite_obsEq a b _ d _ _ _ _ _ _ h rfl hwf

theorem patchPath_obsEq (cfg : Config) (a b : PathSt) (cas : Cas) (pd : PatchData) (h : ObsEq a b) (hwf : PathWF a) :
    (patchPath cfg a cas pd false none).2.1 = (patchPath cfg b cas pd false none).2.1 ∧
    ObsEq (patchPath cfg a cas pd false none).1 (patchPath cfg b cas pd false none).1 := by
  simp only [patchPath, patchBody, Bool.false_eq_true, false_and, reduceCtorEq, ↓reduceIte, ← h.1]
  split
  · exact ⟨rfl, h⟩
  rename_i m hm
  split
  · exact ⟨rfl, h⟩
  split
  · exact ⟨rfl, h⟩
  rename_i vm hv
  split
  · exact ⟨rfl, h⟩
  split
  · exact ⟨rfl, h⟩
  rw [← h.2 m _ hm (by rw [hv]; rfl)]
  split
  · exact ⟨rfl, h⟩
  · exact commitWrite_obsEq a b _ _ _ _ _ _ _ _ h (metaOr_some a m hm).symm hwf

theorem setPath_obsEq (s t : State) (p : String) (a b : PathSt) (h : StateObsEq s t) (hab : ObsEq a b) :
    StateObsEq (setPath s p a) (setPath t p b) := by
  refine ⟨h.1, ?_⟩
  intro q
  rw [setPath_paths, setPath_paths]
  split
  · exact hab
  · exact h.2 q

/-- equivalent states answer every fault-free request alike and stay equivalent -/
theorem step_obsEq (s t : State) (op : Op) (h : StateObsEq s t) (hwf : WF s) :
    (step s op).2 = (step t op).2 ∧ StateObsEq (step s op).1 (step t op).1 := by
  cases op with
  | write p cas d =>
    have := writePath_obsEq s.cfg (s.paths p) (t.paths p) cas d (h.2 p) (hwf p)
    simp only [step, stepF, ← h.1]
    exact ⟨this.1, setPath_obsEq s t p _ _ h this.2⟩
  | patch p cas d =>
    have := patchPath_obsEq s.cfg (s.paths p) (t.paths p) cas d (h.2 p) (hwf p)
    simp only [step, stepF, ← h.1]
    exact ⟨this.1, setPath_obsEq s t p _ _ h this.2⟩
  | read p v => exact ⟨readPath_obsEq _ _ (h.2 p) v, h⟩
  | delete p =>
    refine ⟨rfl, setPath_obsEq s t p _ _ h ?_⟩
    have hp := h.2 p
    unfold deleteLatest
    rw [← hp.1]
    split
    · exact hp
    · rename_i m hm
      split
      · exact hp
      · rename_i vm hv
        split
        · exact hp
        · split
          · exact hp
          · exact flagOnly_obsEq _ _ m _ hp hm (setVer_flagStep m m.current vm { vm with del := .deleted } hv (fun h => h))
  | deleteV p vs =>
    simp only [step, stepF]
    split
    · exact ⟨rfl, h⟩
    · refine ⟨rfl, setPath_obsEq s t p _ _ h ?_⟩
      have hp := h.2 p
      unfold deleteVersions
      rw [← hp.1]
      split
      · exact hp
      · rename_i m hm
        exact flagOnly_obsEq _ _ m _ hp hm (foldl_flagStep _ markDeleted_flagStep vs m)
  | undelete p vs =>
    simp only [step, stepF]
    split
    · exact ⟨rfl, h⟩
    · refine ⟨rfl, setPath_obsEq s t p _ _ h ?_⟩
      have hp := h.2 p
      unfold undeleteVersions
      rw [← hp.1, ← h.1]
      split
      · exact hp
      · rename_i m hm
        exact flagOnly_obsEq _ _ m _ hp hm (foldl_flagStep _ (markUndeleted_flagStep s.cfg) vs m)
  | destroy p vs =>
    simp only [step, stepF]
    split
    · exact ⟨rfl, h⟩
    · refine ⟨rfl, setPath_obsEq s t p _ _ h ?_⟩
      have hp := h.2 p
      unfold destroyVersions
      rw [← hp.1]
      split
      · exact hp
      · rename_i m hm
        refine ⟨rfl, ?_⟩
        intro m2 x hm2 hx
        cases hm2
        simp only
        split
        · rfl
        · exact hp.2 m x hm (by rw [← (foldl_flagStep _ markDestroyed_flagStep vs m).isSome x]; exact hx)
  | metaWrite p a =>
    have hp := h.2 p
    have hmd : (t.paths p).md = (s.paths p).md := hp.1.symm
    have hresp : (metaWrite t.cfg (t.paths p) a).2 = (metaWrite s.cfg (s.paths p) a).2 := by
      simp only [metaWrite, ← h.1, hmd]
      repeat' split
      all_goals rfl
    simp only [step, stepF]
    refine ⟨hresp.symm, setPath_obsEq s t p _ _ h ?_⟩
    simp only [metaWrite, ← h.1, hmd]
    split
    · exact hp
    · cases hm : (s.paths p).md with
      | none =>
        simp only
        split
        · exact hp
        · exact settings_obsEq _ _ _ hp ⟨by rw [metaOr_none _ hm]; rfl, by rw [metaOr_none _ hm]; rfl, by rw [metaOr_none _ hm]; rfl⟩
      | some m =>
        simp only
        split
        · exact hp
        · exact settings_obsEq _ _ _ hp ⟨by rw [metaOr_some _ m hm]; rfl, by rw [metaOr_some _ m hm]; rfl, by rw [metaOr_some _ m hm]; rfl⟩
  | metaPatch p a =>
    have hp := h.2 p
    have hmd : (t.paths p).md = (s.paths p).md := hp.1.symm
    have hresp : (metaPatch t.cfg (t.paths p) a).2 = (metaPatch s.cfg (s.paths p) a).2 := by
      simp only [metaPatch, ← h.1, hmd]
      repeat' split
      all_goals rfl
    simp only [step, stepF]
    refine ⟨hresp.symm, setPath_obsEq s t p _ _ h ?_⟩
    simp only [metaPatch, ← h.1, hmd]
    split
    · exact hp
    · cases hm : (s.paths p).md with
      | none => exact hp
      | some m =>
        simp only
        split
        · exact hp
        · exact settings_obsEq _ _ _ hp ⟨by rw [metaOr_some _ m hm]; rfl, by rw [metaOr_some _ m hm]; rfl, by rw [metaOr_some _ m hm]; rfl⟩
  | metaRead p => exact ⟨metaRead_obsEq _ _ (h.2 p), h⟩
  | metaDelete p =>
    refine ⟨rfl, setPath_obsEq s t p _ _ h ?_⟩
    have hp := h.2 p
    unfold metaDelete
    rw [← hp.1]
    split
    · exact hp
    · exact ⟨rfl, fun m x hm => by cases hm⟩
  | confWrite mx cr dva =>
    refine ⟨rfl, ?_, h.2⟩
    simp only [step, stepF, h.1]
  | confRead =>
    simp only [step, stepF, h.1]
    exact ⟨trivial, h⟩

theorem seqRun_obsEq (ops : List Op) (s t : State) (h : StateObsEq s t) (hwf : WF s) :
    (seqRun s ops).2 = (seqRun t ops).2 := by
  induction ops generalizing s t with
  | nil => rfl
  | cons o os ih =>
    have := step_obsEq s t o h hwf
    simp only [seqRun, this.1]
    rw [ih _ _ this.2 (step_wf s o hwf)]

/-- a request answered with an error left an observationally equivalent state (any fault, either storage kind) -/
theorem stepF_err_obsEq (tx : Bool) (fault : Option Nat) (s : State) (op : Op) (hwf : WF s) (err : Err)
    (h : (stepF tx fault s op).2.1 = .err err) : StateObsEq s (stepF tx fault s op).1 := by
  have failed : ∀ (p : String) (ps' : PathSt) (m : Meta), m = metaOr (s.paths p) → ps'.md = (s.paths p).md →
      (∀ x, x ≠ m.current + 1 → ps'.blobs x = (s.paths p).blobs x) → StateObsEq s (setPath s p ps') := by
    intro p ps' m hm hmd hrest
    refine ⟨rfl, ?_⟩
    intro q
    rw [setPath_paths]
    split
    · rename_i hq; subst hq
      refine ⟨hmd.symm, ?_⟩
      intro m2 x hm2 hx
      obtain ⟨vm, hv⟩ := Option.isSome_iff_exists.mp hx
      have hb := ((hwf q).mwf m2 hm2).bound x vm hv
      have : m.current = m2.current := by rw [hm, metaOr_some _ m2 hm2]
      exact (hrest x (by omega)).symm
    · exact ObsEq.refl _
  have same : ∀ p, StateObsEq s (setPath s p (s.paths p)) := fun p => by rw [setPath_self]; exact StateObsEq.refl s
  cases op with
  | write p cas d =>
    simp only [stepF] at h ⊢
    rcases writePath_cases s.cfg (s.paths p) cas d tx fault with ⟨e, _⟩ | ⟨_, ho⟩
    · rw [e]; exact same p
    · rcases ho with ⟨w, hr, _⟩ | ⟨_, hmd, hrest⟩
      · rw [h] at hr; cases hr
      · exact failed p _ _ rfl hmd hrest
  | patch p cas d =>
    simp only [stepF] at h ⊢
    rcases patchPath_cases s.cfg (s.paths p) cas d tx fault with ⟨e, _⟩ | ⟨m, vm, d0, hm, _, _, _, _, _, ho⟩
    · rw [e]; exact same p
    · rcases ho with ⟨w, hr, _⟩ | ⟨_, hmd, hrest⟩
      · rw [h] at hr; cases hr
      · exact failed p _ m (metaOr_some _ m hm).symm hmd hrest
  | read p v => exact StateObsEq.refl s
  | delete p => simp [stepF] at h
  | deleteV p vs =>
    simp only [stepF] at h ⊢
    split
    · exact StateObsEq.refl s
    · rename_i hne; simp [hne] at h
  | undelete p vs =>
    simp only [stepF] at h ⊢
    split
    · exact StateObsEq.refl s
    · rename_i hne; simp [hne] at h
  | destroy p vs =>
    simp only [stepF] at h ⊢
    split
    · exact StateObsEq.refl s
    · rename_i hne; simp [hne] at h
  | metaWrite p a =>
    simp only [stepF] at h ⊢
    rcases metaWrite_shape s.cfg (s.paths p) a with e | ⟨m', _, _, hr⟩
    · rw [e]; exact same p
    · rcases hr with hr | hr <;> rw [hr] at h <;> cases h
  | metaPatch p a =>
    simp only [stepF] at h ⊢
    rcases metaPatch_shape s.cfg (s.paths p) a with e | ⟨m', _, _, hr⟩
    · rw [e]; exact same p
    · rcases hr with hr | hr <;> rw [hr] at h <;> cases h
  | metaRead p => exact StateObsEq.refl s
  | metaDelete p => simp [stepF] at h
  | confWrite mx cr dva => simp [stepF] at h
  | confRead => exact StateObsEq.refl s

/-- a write/patch that reports success under a storage fault ends in a state equivalent to the fault-free one -/
theorem stepF_ok_obsEq (tx : Bool) (fault : Option Nat) (s : State) (op : Op) (hwf : WF s) (v : Nat) (del : Del) (w : Bool)
    (h : (stepF tx fault s op).2.1 = .wrote v del w) :
    (step s op).2 = .wrote v del false ∧ StateObsEq (stepF tx fault s op).1 (step s op).1 := by
  -- two successful outcomes of the same tail are equivalent
  have two : ∀ (ps a b : PathSt) (m : Meta) (dn : Data) (dl : Del) (c : Nat) (ra rb : Resp), PathWF ps → m = metaOr ps →
      WriteOutcome ps m dn dl c a ra → WriteOutcome ps m dn dl c b rb → wroteVersion ra ≠ none → wroteVersion rb ≠ none →
      ObsEq a b := by
    intro ps a b m dn dl c ra rb hps hm ha hb hra hrb
    rcases ha with ⟨_, _, hamd, hab, harest⟩ | ⟨he, _⟩
    · rcases hb with ⟨_, _, hbmd, hbb, hbrest⟩ | ⟨he, _⟩
      · refine ⟨by rw [hamd, hbmd], ?_⟩
        intro m2 x hm2 hx
        rw [hamd] at hm2; cases hm2
        have mwf : MetaWF m := hm ▸ metaOr_wf ps hps
        have awf := addVersion_wf m dl c mwf
        obtain ⟨vm, hv⟩ := Option.isSome_iff_exists.mp hx
        have hbnd := awf.bound x vm hv
        by_cases hxc : x = m.current + 1
        · subst hxc; rw [hab, hbb]
        · have hgt : (addVersion m dl c).2 < x := by
            rcases addVersion_vtd m dl c with h0 | h1 <;> omega
          rw [harest x hgt hxc, hbrest x hgt hxc]
      · rw [he] at hrb; exact absurd rfl hrb
    · rw [he] at hra; exact absurd rfl hra
  cases op with
  | write p cas d =>
    simp only [step, stepF] at h ⊢
    rcases writePath_cases s.cfg (s.paths p) cas d tx fault with ⟨_, e, he⟩ | ⟨hcas, ho⟩
    · rw [h] at he; cases he
    · have hclean : (writePath s.cfg (s.paths p) cas d false none) =
          commitWrite (s.paths p) (metaOr (s.paths p)) d (newDel s.cfg (metaOr (s.paths p))) s.cfg.maxVersions false none 1 := by
        simp [writePath, hcas]
      obtain ⟨c', ec, _⟩ := commitWrite_none (s.paths p) (metaOr (s.paths p)) d (newDel s.cfg (metaOr (s.paths p)))
        s.cfg.maxVersions false 1
      have ho2 := commitWrite_outcome (s.paths p) (metaOr (s.paths p)) d (newDel s.cfg (metaOr (s.paths p)))
        s.cfg.maxVersions false none 1
      have hv : v = (metaOr (s.paths p)).current + 1 ∧ del = newDel s.cfg (metaOr (s.paths p)) := by
        rcases ho with ⟨w', hr, _⟩ | ⟨hr, _⟩
        · rw [h] at hr; cases hr; exact ⟨rfl, rfl⟩
        · rw [h] at hr; cases hr
      refine ⟨by rw [hclean, ec, hv.1, hv.2], ?_⟩
      refine setPath_obsEq s s p _ _ (StateObsEq.refl s) ?_
      rw [hclean]
      exact two (s.paths p) _ _ _ _ _ _ _ _ (hwf p) rfl ho ho2 (by rw [h]; simp [wroteVersion]) (by rw [ec]; simp [wroteVersion])
  | patch p cas pd =>
    simp only [step, stepF] at h ⊢
    rcases patchPath_cases s.cfg (s.paths p) cas pd tx fault with ⟨_, href⟩ | ⟨m, vm, d0, hm, hcas, hvm, hdel, hds, hb, ho⟩
    · rw [h] at href; exact absurd href (by simp [Resp.refusal])
    · have hclean : (patchPath s.cfg (s.paths p) cas pd false none) =
          commitWrite (s.paths p) m (mergePatch d0 pd) (newDel s.cfg m) s.cfg.maxVersions false none 2 := by
        simp [patchPath, patchBody, hm, hcas, hvm, hdel, hds, hb]
      obtain ⟨c', ec, _⟩ := commitWrite_none (s.paths p) m (mergePatch d0 pd) (newDel s.cfg m) s.cfg.maxVersions false 2
      have ho2 := commitWrite_outcome (s.paths p) m (mergePatch d0 pd) (newDel s.cfg m) s.cfg.maxVersions false none 2
      have hv : v = m.current + 1 ∧ del = newDel s.cfg m := by
        rcases ho with ⟨w', hr, _⟩ | ⟨hr, _⟩
        · rw [h] at hr; cases hr; exact ⟨rfl, rfl⟩
        · rw [h] at hr; cases hr
      refine ⟨by rw [hclean, ec, hv.1, hv.2], ?_⟩
      refine setPath_obsEq s s p _ _ (StateObsEq.refl s) ?_
      rw [hclean]
      exact two (s.paths p) _ _ _ _ _ _ _ _ (hwf p) (metaOr_some _ m hm).symm ho ho2 (by rw [h]; simp [wroteVersion])
        (by rw [ec]; simp [wroteVersion])
  | read q v' =>
    simp only [stepF, readPath] at h
    repeat' split at h
    all_goals cases h
  | delete q => simp [stepF] at h
  | deleteV q vs => simp only [stepF] at h; split at h <;> cases h
  | undelete q vs => simp only [stepF] at h; split at h <;> cases h
  | destroy q vs => simp only [stepF] at h; split at h <;> cases h
  | metaWrite q a =>
    simp only [stepF, metaWrite] at h
    repeat' split at h
    all_goals cases h
  | metaPatch q a =>
    simp only [stepF, metaPatch] at h
    repeat' split at h
    all_goals cases h
  | metaRead q => simp only [stepF, metaRead] at h; split at h <;> cases h
  | metaDelete q => simp [stepF] at h
  | confWrite mx cr dva => simp [stepF] at h
  | confRead => simp [stepF] at h

end Obao.KV2
