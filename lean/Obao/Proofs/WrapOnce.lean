import Obao.Proofs.UseCount
/-! Second invariant for C18 ("exactly once"): the payload stays intact until the request that went through the
use step revokes the token, and a payload-seeking request that went through the use step does obtain it. -/
namespace Obao.UseCount

/-- attempts whose purpose is to retrieve (or transfer) the wrapped response -/
def seeking (k : Kind) : Bool := k == .unwrap1 || k == .unwrap3 || k == .cubby || k == .rewrap3

/-- the result a seeking request carries when it is at body instruction `i` and nothing failed so far -/
def seekRes : Kind → Nat → Res
  | .rewrap3, 1 => .info
  | .rewrap3, 2 => .payload
  | _, _ => .ok

/-- a counted thread that has queued / is carrying out / has finished the revocation of the token -/
def destroyer (pc : Pc) : Bool :=
  counted pc == 1 &&
    (match pc with
     | .rI _ _ => true
     | .rL _ _ => true
     | .rE _ _ => true
     | .done _ _ => true
     | _ => false)

/-- result of a pc that is past the request body -/
def postRes : Pc → Option Res
  | .dq _ r => some r
  | .rlook _ r => some r
  | .rmark _ r => some r
  | .rP _ r => some r
  | .rI _ r => some r
  | .rL _ r => some r
  | .rE _ r => some r
  | .done _ r => some r
  | _ => none

structure SLocal (pc : Pc) (k : Kind) : Prop where
  atBody : ∀ i l r, pc = .body i (some l) r → seeking k = true → i < (scriptOf k).body.length ∧ r = seekRes k i
  after : ∀ l r, seeking k = true → pcU pc = some (some l) → postRes pc = some r → obtRes r = true
  doneNone : ∀ r, pc = .done none r → (scriptOf k).uses = true → refusedRes r = true

structure PInv (s : St) : Prop where
  /-- everything intact and no revocation under way, or some counted thread is responsible -/
  pl : (s.sh.payload = true ∧ s.sh.info = true ∧ s.sh.gone = false ∧ s.sh.leaseGone = false ∧
        s.sh.queued = false ∧ s.sh.swept = false) ∨ ∃ (t : Nat) (pc : Pc), s.pcs[t]? = some pc ∧ destroyer pc = true
  sl : ∀ (u : Nat) (pc : Pc) (k : Kind), s.pcs[u]? = some pc → s.kinds[u]? = some k → SLocal pc k

theorem pinv_init (n : Nat) (kinds : List Kind) : PInv (initW true n kinds) := by
  refine ⟨Or.inl (by simp [initW]), ?_⟩
  intro u pc k h _
  simp [initW, List.getElem?_map] at h
  obtain ⟨_, _, rfl⟩ := h
  constructor <;> simp [pcU, postRes]

theorem two_counted (l : List Pc) (t u : Nat) (p q : Pc) (hne : t ≠ u) (ht : l[t]? = some p) (hu : l[u]? = some q) :
    counted p + counted q ≤ passedCount l := by
  induction l generalizing t u with
  | nil => simp at ht
  | cons x xs ih =>
    cases t with
    | zero =>
      cases u with
      | zero => exact absurd rfl hne
      | succ u' =>
        simp at ht hu; subst ht
        have := counted_le_passedCount xs u' q hu
        simp [passedCount]; omega
    | succ t' =>
      cases u with
      | zero =>
        simp at ht hu; subst hu
        have := counted_le_passedCount xs t' p ht
        simp [passedCount]; omega
      | succ u' =>
        simp at ht hu
        have := ih t' u' (fun h => hne (by rw [h])) ht hu
        simp [passedCount]; omega

/-- the concrete step of a seeking request in an intact environment -/
theorem seek_step (k : Kind) (hs : seeking k = true) (t i : Nat) (l : Bool) (sh sh' : Shared) (pc' : Pc)
    (hi : i < (scriptOf k).body.length)
    (hp : sh.payload = true) (hin : sh.info = true) (hg : sh.gone = false) (hlg : sh.leaseGone = false)
    (h : localStep true (scriptOf k) t (.body i (some l) (seekRes k i)) sh = some (pc', sh')) :
    sh' = sh ∧ ((pc' = .body (i + 1) (some l) (seekRes k (i + 1)) ∧ i + 1 < (scriptOf k).body.length) ∨
      ∃ r', pc' = toDefer (scriptOf k) (some l) r' ∧ obtRes r' = true) := by
  have hab : sh.absent = false := by simp [Shared.absent, hg, hlg]
  cases k <;> simp [seeking] at hs
  · -- unwrap1: [taint empty, getPayload]
    match i, hi with
    | 0, _ =>
      simp [scriptOf, localStep, seekRes, hab, advanceBody] at h
      obtain ⟨rfl, rfl⟩ := h
      exact ⟨rfl, Or.inl ⟨rfl, by simp [scriptOf]⟩⟩
    | 1, _ =>
      simp [scriptOf, localStep, seekRes, hp, advanceBody] at h
      obtain ⟨rfl, rfl⟩ := h
      exact ⟨rfl, Or.inr ⟨.payload, by simp [scriptOf], rfl⟩⟩
    | i + 2, hi => exfalso; simp [scriptOf] at hi <;> omega
  · -- unwrap3: [getPayload]
    match i, hi with
    | 0, _ =>
      simp [scriptOf, localStep, seekRes, hp, advanceBody] at h
      obtain ⟨rfl, rfl⟩ := h
      exact ⟨rfl, Or.inr ⟨.payload, by simp [scriptOf], rfl⟩⟩
    | i + 1, hi => exfalso; simp [scriptOf] at hi <;> omega
  · -- rewrap3: [getInfo, getPayload, set rewrapped]
    match i, hi with
    | 0, _ =>
      simp [scriptOf, localStep, seekRes, hin, advanceBody] at h
      obtain ⟨rfl, rfl⟩ := h
      exact ⟨rfl, Or.inl ⟨rfl, by simp [scriptOf]⟩⟩
    | 1, _ =>
      simp [scriptOf, localStep, seekRes, hp, advanceBody] at h
      obtain ⟨rfl, rfl⟩ := h
      exact ⟨rfl, Or.inl ⟨rfl, by simp [scriptOf]⟩⟩
    | 2, _ =>
      simp [scriptOf, localStep, seekRes, advanceBody] at h
      obtain ⟨rfl, rfl⟩ := h
      exact ⟨rfl, Or.inr ⟨.rewrapped, by simp [scriptOf], rfl⟩⟩
    | i + 3, hi => exfalso; simp [scriptOf] at hi <;> omega
  · -- cubby: [getPayload]
    match i, hi with
    | 0, _ =>
      simp [scriptOf, localStep, seekRes, hp, advanceBody] at h
      obtain ⟨rfl, rfl⟩ := h
      exact ⟨rfl, Or.inr ⟨.payload, by simp [scriptOf], rfl⟩⟩
    | i + 1, hi => exfalso; simp [scriptOf] at hi <;> omega

theorem body_nonempty (k : Kind) : 0 < (scriptOf k).body.length := by
  cases k <;> simp [scriptOf]

theorem seekRes_zero (k : Kind) : seekRes k 0 = .ok := by cases k <;> rfl

theorem passed_le_one {s : St} (inv : Inv 1 s) : passedCount s.pcs ≤ 1 := by
  rcases inv.acct with a | a <;> omega

/-- thread `t` being counted and not a destroyer, an intact environment follows from `PInv` when `n = 1` -/
theorem intact_of_counted {s : St} (inv : Inv 1 s) (pinv : PInv s) (t : Nat) (pc : Pc)
    (ht : s.pcs[t]? = some pc) (hc : counted pc = 1) (hnd : destroyer pc = false) :
    s.sh.payload = true ∧ s.sh.info = true ∧ s.sh.gone = false ∧ s.sh.leaseGone = false ∧
      s.sh.queued = false ∧ s.sh.swept = false := by
  rcases pinv.pl with a | ⟨t', q, hq, hd⟩
  · exact a
  · exfalso
    have hne : t ≠ t' := by
      intro e; subst e; rw [ht] at hq; injection hq with hq; subst hq; simp [hnd] at hd
    have hcq : counted q = 1 := by simp [destroyer] at hd; exact hd.1
    have := two_counted s.pcs t t' pc q hne ht hq
    have := passed_le_one inv
    omega

theorem sl_set {pcs : List Pc} {kinds : List Kind} {t : Nat} {new : Pc} {kt : Kind}
    (hlt : t < pcs.length) (hkt : kinds[t]? = some kt)
    (hall : ∀ (u : Nat) (pc : Pc) (k : Kind), pcs[u]? = some pc → kinds[u]? = some k → SLocal pc k)
    (hnew : SLocal new kt) :
    ∀ (u : Nat) (pc : Pc) (k : Kind), (pcs.set t new)[u]? = some pc → kinds[u]? = some k → SLocal pc k := by
  intro u pc k hu hk
  by_cases e : t = u
  · subst e
    simp [hlt] at hu
    subst hu
    rw [hkt] at hk; injection hk with hk; subst hk
    exact hnew
  · simp [e] at hu
    exact hall u pc k hu hk

/-- a destroyer other than the stepping thread is still there; the stepping thread stays one -/
theorem destroyer_kept {pcs : List Pc} {t : Nat} {pc pc' : Pc} (hlt : t < pcs.length) (hpc : pcs[t]? = some pc)
    (hstay : destroyer pc = true → destroyer pc' = true)
    (h : ∃ (t' : Nat) (q : Pc), pcs[t']? = some q ∧ destroyer q = true) :
    ∃ (t' : Nat) (q : Pc), (pcs.set t pc')[t']? = some q ∧ destroyer q = true := by
  obtain ⟨t', q, hq, hd⟩ := h
  by_cases e : t = t'
  · subst e
    rw [hpc] at hq; injection hq with hq; subst hq
    exact ⟨t, pc', by simp [hlt], hstay hd⟩
  · exact ⟨t', q, by simp [e, hq], hd⟩

theorem pinv_local {s : St} {t : Nat} {pc pc' : Pc} {k : Kind} {sh' : Shared}
    (inv : Inv 1 s) (pinv : PInv s) (hpc : s.pcs[t]? = some pc) (hk : s.kinds[t]? = some k)
    (h : localStep true (scriptOf k) t pc s.sh = some (pc', sh')) :
    PInv { s with sh := sh', pcs := s.pcs.set t pc' } := by
  have hlt : t < s.pcs.length := by
    rcases Nat.lt_or_ge t s.pcs.length with h1 | h1
    · exact h1
    · simp [List.getElem?_eq_none h1] at hpc
  have hloc := inv.loc t pc k hpc hk
  have hsl := pinv.sl t pc k hpc hk
  -- the generic way to conclude: new per-thread facts + what happens to `pl`
  have fin : SLocal pc' k →
      ((sh'.payload = true ∧ sh'.info = true ∧ sh'.gone = false ∧ sh'.leaseGone = false ∧
        sh'.queued = false ∧ sh'.swept = false) ∨
        ∃ (t' : Nat) (q : Pc), (s.pcs.set t pc')[t']? = some q ∧ destroyer q = true) →
      PInv { s with sh := sh', pcs := s.pcs.set t pc' } :=
    fun a b => ⟨b, sl_set hlt hk pinv.sl a⟩
  -- shared state untouched (or only lock / numUses / leases / gone reset) and the thread is no destroyer before or after
  have keep : SLocal pc' k → sh'.payload = s.sh.payload → sh'.info = s.sh.info →
      (s.sh.gone = false → sh'.gone = false) → sh'.leaseGone = s.sh.leaseGone → sh'.queued = s.sh.queued →
      sh'.swept = s.sh.swept → (destroyer pc = true → destroyer pc' = true) →
      PInv { s with sh := sh', pcs := s.pcs.set t pc' } := by
    intro a e1 e2 e3 e4 e5 e6 hst
    refine fin a ?_
    rcases pinv.pl with x | x
    · left; rw [e1, e2, e4, e5, e6]; exact ⟨x.1, x.2.1, e3 x.2.2.1, x.2.2.2.1, x.2.2.2.2.1, x.2.2.2.2.2⟩
    · right; exact destroyer_kept hlt hpc hst x
  cases pc with
  | pre i =>
    obtain ⟨rfl, hshape⟩ := pre_targets h
    refine keep ?_ rfl rfl id rfl rfl rfl (by simp [destroyer, counted])
    rcases hshape with rfl | ⟨rfl, _⟩ | ⟨rfl, _⟩ | ⟨r, rfl, _, p, hp, hs⟩
    · constructor <;> simp [pcU, postRes]
    · constructor <;> simp [pcU, postRes]
    · constructor <;> simp [pcU, postRes]
    · constructor <;> try (simp [pcU, postRes]; done)
      · intro r' e _; injection e with _ e; subst e; exact pre_stop_refused k p _ hp hs
  | acquire =>
    simp only [localStep] at h
    cases hl : s.sh.lock with
    | some _ => simp [hl] at h
    | none =>
      simp [hl] at h; obtain ⟨rfl, rfl⟩ := h
      refine keep ?_ rfl rfl id rfl rfl rfl (by simp [destroyer, counted])
      constructor <;> simp [pcU, postRes]
  | reread =>
    simp only [localStep] at h
    split at h <;> simp at h <;> obtain ⟨rfl, rfl⟩ := h
    · refine keep ?_ rfl rfl id rfl rfl rfl (by simp [destroyer, counted])
      constructor <;> simp [pcU, postRes]
    · refine keep ?_ rfl rfl id rfl rfl rfl (by simp [destroyer, counted])
      constructor <;> simp [pcU, postRes]
  | store seen =>
    simp [localStep] at h; obtain ⟨rfl, rfl⟩ := h
    refine keep ?_ rfl rfl (fun _ => rfl) rfl rfl rfl (by simp [destroyer, counted])
    constructor <;> simp [pcU, postRes]
  | release o =>
    simp only [localStep] at h
    cases o with
    | some l =>
      simp at h; obtain ⟨rfl, rfl⟩ := h
      refine keep ?_ rfl rfl id rfl rfl rfl (by simp [destroyer])
      constructor <;> try (simp [pcU, postRes]; done)
      · intro i l' r e _
        injection e with e1 e2 e3; subst e1; subst e3
        exact ⟨body_nonempty k, (seekRes_zero k).symm⟩
    | none =>
      simp at h; obtain ⟨rfl, rfl⟩ := h
      refine keep ?_ rfl rfl id rfl rfl rfl (by simp [destroyer])
      constructor <;> try (simp [pcU, postRes]; done)
      · intro r e _; injection e with _ e; subst e; rfl
  | body i u r =>
    have hnd : destroyer (Pc.body i u r) = false := by simp [destroyer]
    cases u with
    | none =>
      obtain ⟨hsh, r', hshape, _, _⟩ := body_targets h
      have hnu := (hloc.unused i r rfl).1
      have hnew : SLocal pc' k := by
        rcases hshape with rfl | rfl
        · constructor <;> simp [pcU, postRes]
        · unfold toDefer
          cases (scriptOf k).defer <;> constructor <;> simp [pcU, postRes, hnu]
      have hst : destroyer (Pc.body i none r) = true → destroyer pc' = true := by simp [destroyer]
      rcases hsh with rfl | rfl
      · exact keep hnew rfl rfl id rfl rfl rfl hst
      · exact keep hnew rfl rfl id rfl rfl rfl hst
    | some l =>
      by_cases hs : seeking k = true
      · obtain ⟨hi, hr⟩ := hsl.atBody i l r rfl hs
        subst hr
        obtain ⟨hp, hin, hg, hlg, _, _⟩ := intact_of_counted inv pinv t _ hpc rfl hnd
        obtain ⟨rfl, hshape⟩ := seek_step k hs t i l s.sh sh' pc' hi hp hin hg hlg h
        have hst : destroyer (Pc.body i (some l) (seekRes k i)) = true → destroyer pc' = true := by
          simp [destroyer]
        refine keep ?_ rfl rfl id rfl rfl rfl hst
        rcases hshape with ⟨rfl, hi'⟩ | ⟨r', rfl, ho⟩
        · constructor <;> try (simp [pcU, postRes]; done)
          · intro j l' r e _
            injection e with e1 e2 e3; subst e1; subst e3
            exact ⟨hi', rfl⟩
        · unfold toDefer
          cases (scriptOf k).defer <;> constructor <;> simp [pcU, postRes, ho]
      · obtain ⟨hsh, r', hshape, _, _⟩ := body_targets h
        have hnew : SLocal pc' k := by
          rcases hshape with rfl | rfl
          · constructor <;> simp [pcU, postRes, hs]
          · unfold toDefer
            cases (scriptOf k).defer <;> constructor <;> simp [pcU, postRes, hs]
        have hst : destroyer (Pc.body i (some l) r) = true → destroyer pc' = true := by simp [destroyer]
        rcases hsh with rfl | rfl
        · exact keep hnew rfl rfl id rfl rfl rfl hst
        · exact keep hnew rfl rfl id rfl rfl rfl hst
  | dq u r =>
    have hun : u ≠ none := by simpa [pcU, isDeferPc] using hloc.defU rfl
    simp only [localStep] at h
    split at h
    · rename_i hu; subst hu
      simp at h; obtain ⟨rfl, rfl⟩ := h
      refine fin ?_ (Or.inr ⟨t, Pc.done (some true) (if r = Res.secret then Res.withheld else r),
        by simp [hlt], by simp [destroyer, counted]⟩)
      constructor <;> try (simp [pcU, postRes]; done)
      · intro l r' hsk _ e
        have ho := hsl.after true r hsk rfl rfl
        simp [postRes] at e
        have : r ≠ .secret := by intro e'; subst e'; simp [obtRes] at ho
        simp [this] at e; subst e; exact ho
    · simp at h; obtain ⟨rfl, rfl⟩ := h
      refine keep ?_ rfl rfl id rfl rfl rfl (by simp [destroyer])
      constructor <;> try (simp [pcU, postRes]; done)
      · intro l r' hsk e1 e2
        exact hsl.after l r' hsk (by simpa [pcU] using e1) (by simpa [postRes] using e2)
      · intro r' e; injection e with e _; exact absurd e hun
  | rlook u r =>
    have hun : u ≠ none := by simpa [pcU, isDeferPc, isSyncPc] using hloc.defU rfl
    have haft : ∀ l r', seeking k = true → u = some l → r = r' → obtRes r' = true := by
      intro l r' hsk e1 e2; subst e1; subst e2; exact hsl.after l r hsk rfl rfl
    simp only [localStep] at h
    split at h <;> simp at h <;> obtain ⟨rfl, rfl⟩ := h
    · refine keep ?_ rfl rfl id rfl rfl rfl (by simp [destroyer])
      constructor <;> try (simp [pcU, postRes]; done)
      · intro l r' hsk e1 e2
        exact haft l r' hsk (by simpa [pcU] using e1) (by simpa [postRes] using e2)
      · intro r' e; injection e with e _; exact absurd e hun
    · refine keep ?_ rfl rfl id rfl rfl rfl (by simp [destroyer])
      constructor <;> try (simp [pcU, postRes]; done)
      · intro l r' hsk e1 e2
        exact haft l r' hsk (by simpa [pcU] using e1) (by simpa [postRes] using e2)
  | rmark u r =>
    have haft : ∀ l r', seeking k = true → u = some l → r = r' → obtRes r' = true := by
      intro l r' hsk e1 e2; subst e1; subst e2; exact hsl.after l r hsk rfl rfl
    simp only [localStep] at h
    simp at h; obtain ⟨rfl, rfl⟩ := h
    refine keep ?_ (by split <;> rfl) (by split <;> rfl) (by split <;> exact id) (by split <;> rfl)
      (by split <;> rfl) (by split <;> rfl) (by simp [destroyer])
    constructor <;> try (simp [pcU, postRes]; done)
    · intro l r' hsk e1 e2
      exact haft l r' hsk (by simpa [pcU] using e1) (by simpa [postRes] using e2)
  | rP u r =>
    have hun : u ≠ none := by simpa [pcU, isDeferPc, isSyncPc] using hloc.defU rfl
    have haft : ∀ l r', seeking k = true → u = some l → r = r' → obtRes r' = true := by
      intro l r' hsk e1 e2; subst e1; subst e2; exact hsl.after l r hsk rfl rfl
    simp only [localStep] at h
    simp at h; obtain ⟨rfl, rfl⟩ := h
    have hd : destroyer (Pc.rI u r) = true := by
      cases u with
      | none => exact absurd rfl hun
      | some _ => simp [destroyer, counted]
    refine fin ?_ (Or.inr ⟨t, _, by simp [hlt], hd⟩)
    constructor <;> try (simp [pcU, postRes]; done)
    · intro l r' hsk e1 e2
      exact haft l r' hsk (by simpa [pcU] using e1) (by simpa [postRes] using e2)
  | rI u r =>
    have hun : u ≠ none := by simpa [pcU, isDeferPc, isSyncPc] using hloc.defU rfl
    have haft : ∀ l r', seeking k = true → u = some l → r = r' → obtRes r' = true := by
      intro l r' hsk e1 e2; subst e1; subst e2; exact hsl.after l r hsk rfl rfl
    simp only [localStep] at h
    simp at h; obtain ⟨rfl, rfl⟩ := h
    have hd : destroyer (Pc.rL u r) = true := by
      cases u with
      | none => exact absurd rfl hun
      | some _ => simp [destroyer, counted]
    refine fin ?_ (Or.inr ⟨t, _, by simp [hlt], hd⟩)
    constructor <;> try (simp [pcU, postRes]; done)
    · intro l r' hsk e1 e2
      exact haft l r' hsk (by simpa [pcU] using e1) (by simpa [postRes] using e2)
  | rL u r =>
    have hun : u ≠ none := by simpa [pcU, isDeferPc, isSyncPc] using hloc.defU rfl
    have haft : ∀ l r', seeking k = true → u = some l → r = r' → obtRes r' = true := by
      intro l r' hsk e1 e2; subst e1; subst e2; exact hsl.after l r hsk rfl rfl
    simp only [localStep] at h
    simp at h; obtain ⟨rfl, rfl⟩ := h
    have hd : destroyer (Pc.rE u r) = true := by
      cases u with
      | none => exact absurd rfl hun
      | some _ => simp [destroyer, counted]
    refine fin ?_ (Or.inr ⟨t, _, by simp [hlt], hd⟩)
    constructor <;> try (simp [pcU, postRes]; done)
    · intro l r' hsk e1 e2
      exact haft l r' hsk (by simpa [pcU] using e1) (by simpa [postRes] using e2)
  | rE u r =>
    have hun : u ≠ none := by simpa [pcU, isDeferPc, isSyncPc] using hloc.defU rfl
    have haft : ∀ l r', seeking k = true → u = some l → r = r' → obtRes r' = true := by
      intro l r' hsk e1 e2; subst e1; subst e2; exact hsl.after l r hsk rfl rfl
    simp only [localStep] at h
    simp at h; obtain ⟨rfl, rfl⟩ := h
    have hd : destroyer (Pc.done u r) = true := by
      cases u with
      | none => exact absurd rfl hun
      | some _ => simp [destroyer, counted]
    refine fin ?_ (Or.inr ⟨t, _, by simp [hlt], hd⟩)
    constructor <;> try (simp [pcU, postRes]; done)
    · intro l r' hsk e1 e2
      exact haft l r' hsk (by simpa [pcU] using e1) (by simpa [postRes] using e2)
    · intro r' e; injection e with e _; exact absurd e hun
  | done u r => simp [localStep] at h

theorem pinv_step {s s' : St} {t : Nat} (inv : Inv 1 s) (pinv : PInv s) (h : step s t = some s') : PInv s' := by
  unfold step stepG at h
  split at h
  · cases hw : workerStep s.sh with
    | none => simp [hw] at h
    | some sh' =>
      simp [hw] at h; subst h
      refine ⟨?_, pinv.sl⟩
      rcases pinv.pl with a | a
      · exfalso
        unfold workerStep at hw
        simp [a.2.2.2.2.1, a.2.2.2.2.2] at hw
      · exact Or.inr a
  · split at h
    · rename_i pc k hpc hk
      cases hl : localStep true (scriptOf k) t pc s.sh with
      | none => simp [hl] at h
      | some r =>
        simp [hl] at h; subst h
        exact pinv_local inv pinv hpc hk (by rw [hl])
    · simp at h

theorem pinv_run (sched : List Nat) (s : St) (inv : Inv 1 s) (pinv : PInv s) : PInv (run sched s) := by
  induction sched generalizing s with
  | nil => exact pinv
  | cons t ts ih =>
    simp only [run, runG]
    cases h : stepG true s t with
    | none => exact ih s inv pinv
    | some s' => exact ih s' (step_inv inv h) (pinv_step inv pinv h)

theorem exists_counted (l : List Pc) (h : 1 ≤ passedCount l) : ∃ (t : Nat) (pc : Pc), l[t]? = some pc ∧ counted pc = 1 := by
  induction l with
  | nil => simp [passedCount] at h
  | cons x xs ih =>
    by_cases hx : counted x = 1
    · exact ⟨0, x, by simp, hx⟩
    · have h0 : counted x = 0 := by have := counted_le_one x; omega
      simp [passedCount, h0] at h
      obtain ⟨t, pc, ht, hc⟩ := ih h
      exact ⟨t + 1, pc, by simpa using ht, hc⟩

theorem obtained_le_count (l : List Pc) (t : Nat) (pc : Pc) (h : l[t]? = some pc) :
    obtained pc ≤ obtainedCount l := by
  induction l generalizing t with
  | nil => simp at h
  | cons x xs ih =>
    cases t with
    | zero => simp at h; subst h; simp [obtainedCount]
    | succ k =>
      simp at h
      have := ih k h
      simp [obtainedCount]; omega

theorem doneUse_le_count (l : List Pc) (t : Nat) (pc : Pc) (h : l[t]? = some pc) (hd : isDoneUse pc = true) :
    1 ≤ doneCount l := by
  induction l generalizing t with
  | nil => simp at h
  | cons x xs ih =>
    cases t with
    | zero => simp at h; subst h; simp [doneCount, hd]
    | succ k =>
      simp at h
      have := ih k h
      simp [doneCount]; omega

/-- if at least `n` requests that presented the token have completed, exactly `n` went through the use step -/
theorem exactly_of_done {n : Nat} {s : St} (inv : Inv n s)
    (hkind : ∀ (u : Nat) (pc : Pc), s.pcs[u]? = some pc → ∃ k, s.kinds[u]? = some k)
    (hdone : n ≤ doneCount s.pcs) : passedCount s.pcs = n := by
  have hle : passedCount s.pcs ≤ n := by rcases inv.acct with a | a <;> omega
  by_cases hr : ∃ pc ∈ s.pcs, refusedPc pc = true
  · obtain ⟨pc, hm, hp⟩ := hr
    obtain ⟨u, hu⟩ := List.mem_iff_getElem?.1 hm
    obtain ⟨k, hk'⟩ := hkind u pc hu
    have hpend := (inv.loc u pc k hu hk').refused hp
    rcases inv.acct with a | a
    · exfalso; have := a.1; simp [hpend, pending] at this
    · exact a.2
  · have hall : ∀ pc ∈ s.pcs, isDoneUse pc = true → counted pc = 1 := by
      intro pc hm hd
      cases pc with
      | done u r =>
        cases u with
        | some l => rfl
        | none => exact absurd ⟨_, hm, by simpa [isDoneUse, refusedPc] using hd⟩ hr
      | _ => simp [isDoneUse] at hd
    have := doneCount_le_passed s.pcs hall
    omega

end Obao.UseCount
