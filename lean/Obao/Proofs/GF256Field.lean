import Mathlib.Algebra.Field.Defs
import Obao.Proofs.GF256Arith
/-!
The 256-element carrier `GF` (bytes) with the model's operations is a field.
`*` is `mult`, `⁻¹` is `inverse` (with `0⁻¹ = 0`, as `inverse 0 = 0`), `/` is `div`, `+` and `-` are `add` (xor).
-/
namespace Obao.GF256

/-- a byte -/
@[ext] structure GF where
  val : Nat
  lt : val < 256
deriving DecidableEq

namespace GF

/-- total embedding of `Nat` (reduces mod 256; the identity on bytes) -/
def ofNat (n : Nat) : GF := ⟨n % 256, Nat.mod_lt _ (by omega)⟩

theorem ofNat_val {n : Nat} (h : n < 256) : (ofNat n).val = n := Nat.mod_eq_of_lt h
@[simp] theorem ofNat_val_self (a : GF) : ofNat a.val = a := GF.ext (Nat.mod_eq_of_lt a.lt)

instance : Zero GF := ⟨⟨0, by omega⟩⟩
instance : One GF := ⟨⟨1, by omega⟩⟩
instance : Add GF := ⟨fun a b => ⟨add a.val b.val, xor_lt_256 a.lt b.lt⟩⟩
instance : Neg GF := ⟨fun a => a⟩
instance : Sub GF := ⟨fun a b => ⟨add a.val b.val, xor_lt_256 a.lt b.lt⟩⟩
instance : Mul GF := ⟨fun a b => ⟨mult a.val b.val, mult_lt _ a.lt⟩⟩
instance : Inv GF := ⟨fun a => ⟨inverse a.val, inverse_lt a.lt⟩⟩
instance : Div GF := ⟨fun a b => ⟨div a.val b.val, by rw [div_eq]; exact mult_lt _ a.lt⟩⟩

@[simp] theorem zero_val : (0 : GF).val = 0 := rfl
@[simp] theorem one_val : (1 : GF).val = 1 := rfl
@[simp] theorem add_val (a b : GF) : (a + b).val = add a.val b.val := rfl
@[simp] theorem sub_val (a b : GF) : (a - b).val = add a.val b.val := rfl
@[simp] theorem neg_val (a : GF) : (-a).val = a.val := rfl
@[simp] theorem mul_val (a b : GF) : (a * b).val = mult a.val b.val := rfl
@[simp] theorem inv_val (a : GF) : (a⁻¹).val = inverse a.val := rfl
@[simp] theorem div_val (a b : GF) : (a / b).val = div a.val b.val := rfl

/-- **gf256_field** — the model's `add`/`mult`/`inverse`/`div` make the bytes a field. -/
instance instField : Field GF where
  add_assoc a b c := GF.ext (Nat.xor_assoc _ _ _)
  zero_add a := GF.ext (Nat.zero_xor _)
  add_zero a := GF.ext (Nat.xor_zero _)
  nsmul := nsmulRec
  zsmul := zsmulRec
  neg_add_cancel a := GF.ext (Nat.xor_self _)
  add_comm a b := GF.ext (Nat.xor_comm _ _)
  sub_eq_add_neg _ _ := rfl
  left_distrib a b c := GF.ext (mult_xor_right _ _ a.lt)
  right_distrib a b c := GF.ext (mult_xor_left _ a.lt b.lt)
  zero_mul a := GF.ext (mult_zero_left _)
  mul_zero a := GF.ext (mult_zero_right a.lt)
  mul_assoc a b c := GF.ext (mult_assoc a.lt b.lt c.lt)
  one_mul a := GF.ext (mult_one_left a.lt)
  mul_one a := GF.ext (mult_one_right a.lt)
  mul_comm a b := GF.ext (mult_comm a.lt b.lt)
  div_eq_mul_inv a b := GF.ext (div_eq _ _)
  exists_pair_ne := ⟨0, 1, by intro h; exact absurd (congrArg GF.val h) (by decide)⟩
  mul_inv_cancel a h := GF.ext (mult_inverse a.lt (fun h0 => h (GF.ext h0)))
  inv_zero := GF.ext inverse_zero
  nnqsmul := _
  qsmul := _

/-- characteristic 2: subtraction is addition -/
theorem sub_eq_add (a b : GF) : a - b = a + b := rfl
theorem neg_eq (a : GF) : -a = a := rfl
theorem add_self (a : GF) : a + a = 0 := GF.ext (Nat.xor_self _)

end GF
end Obao.GF256
