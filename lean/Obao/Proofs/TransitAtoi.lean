import Obao.Model.Transit
/-! `strconv.Atoi (strconv.Itoa n) = n` for the model's `atoi?` and Lean's `toString : Nat → String`. -/
namespace Obao.Transit

/-- one step of `digitsVal?` -/
def digitStep (acc : Nat) (c : Char) : Option Nat :=
  if '0' ≤ c ∧ c ≤ '9' then some (acc * 10 + (c.toNat - '0'.toNat)) else none

theorem digitStep_digitChar (acc d : Nat) (hd : d < 10) : digitStep acc (Nat.digitChar d) = some (acc * 10 + d) := by
  have : d = 0 ∨ d = 1 ∨ d = 2 ∨ d = 3 ∨ d = 4 ∨ d = 5 ∨ d = 6 ∨ d = 7 ∨ d = 8 ∨ d = 9 := by omega
  rcases this with h | h | h | h | h | h | h | h | h | h <;> subst h <;> simp [digitStep, Nat.digitChar] <;> decide

theorem foldlM_toDigits (n : Nat) : ∀ acc, (Nat.toDigits 10 n).foldlM digitStep acc = some (acc * 10 ^ (Nat.toDigits 10 n).length + n) := by
  induction n using Nat.strongRecOn with
  | _ n ih =>
    intro acc
    rw [Nat.toDigits_eq_if (by decide)]
    by_cases hn : n < 10
    · rw [if_pos hn]
      simp [List.foldlM, digitStep_digitChar acc n hn]
    · rw [if_neg hn, List.foldlM_append, ih (n / 10) (by omega)]
      simp only [List.foldlM, Option.bind_eq_bind, Option.bind_some, List.length_append, List.length_cons,
        List.length_nil]
      rw [digitStep_digitChar _ _ (Nat.mod_lt _ (by decide))]
      simp only [Option.pure_def, Option.bind_some]
      congr 1
      rw [Nat.pow_succ]
      have := Nat.div_add_mod n 10
      generalize 10 ^ (Nat.toDigits 10 (n / 10)).length = P at *
      rw [Nat.add_mul, Nat.mul_assoc]
      omega

theorem all_digits_toDigits (n : Nat) : ∀ c ∈ Nat.toDigits 10 n, c ≠ '+' ∧ c ≠ '-' := by
  induction n using Nat.strongRecOn with
  | _ n ih =>
    intro c hc
    rw [Nat.toDigits_eq_if (by decide)] at hc
    have hdig : ∀ d, d < 10 → Nat.digitChar d ≠ '+' ∧ Nat.digitChar d ≠ '-' := by
      intro d hd
      have : d = 0 ∨ d = 1 ∨ d = 2 ∨ d = 3 ∨ d = 4 ∨ d = 5 ∨ d = 6 ∨ d = 7 ∨ d = 8 ∨ d = 9 := by omega
      rcases this with h | h | h | h | h | h | h | h | h | h <;> subst h <;> decide
    by_cases hn : n < 10
    · rw [if_pos hn] at hc
      simp at hc; subst hc; exact hdig n hn
    · rw [if_neg hn] at hc
      simp only [List.mem_append, List.mem_singleton] at hc
      rcases hc with hc | hc
      · exact ih (n / 10) (by omega) c hc
      · subst hc; exact hdig _ (Nat.mod_lt _ (by decide))

/-- the model's `Atoi` reads back what `Itoa` wrote, for every version number a Go `int` can hold -/
theorem atoi_toString (n : Nat) (hn : n < 2 ^ 63) : atoi? (toString n) = some (n : Int) := by
  unfold atoi?
  have hl : (toString n).toList = Nat.toDigits 10 n := by simp
  rw [hl]
  have hne : Nat.toDigits 10 n ≠ [] := Nat.toDigits_ne_nil
  cases hd : Nat.toDigits 10 n with
  | nil => exact absurd hd hne
  | cons c cs =>
    have hc := all_digits_toDigits n c (by rw [hd]; simp)
    have hv : digitsVal? (c :: cs) = some n := by
      have := foldlM_toDigits n 0
      rw [hd] at this
      simp only [Nat.zero_mul, Nat.zero_add] at this
      exact this
    split
    · rename_i heq; cases heq; exact absurd rfl hc.1
    · rename_i heq; cases heq; exact absurd rfl hc.2
    · rename_i cs' _ _ 
      rw [hv]
      simp [hn]

end Obao.Transit
