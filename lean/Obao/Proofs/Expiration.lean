import Obao.Model.Expiration
/-! Invariant lemmas for `Obao/Props/C05b.lean`: stored ids = tracked ids through every primitive. -/
namespace Obao.Expiration

/-- `id` has an entry in storage -/
def sid (s : St) (id : Nat) : Prop := ∃ l ∈ s.stored, l.id = id
/-- `id` is tracked by the manager -/
def tracked (s : St) (id : Nat) : Prop := id ∈ s.pending ∨ id ∈ s.irrevocable ∨ id ∈ s.nonexpiring
/-- tracked = stored -/
def Inv (s : St) : Prop := ∀ id, sid s id ↔ tracked s id

theorem mem_ins (l : List Nat) (x y : Nat) : y ∈ ins l x ↔ y ∈ l ∨ y = x := by
  unfold ins
  split
  · rename_i h
    constructor
    · exact Or.inl
    · rintro (h1 | rfl)
      · exact h1
      · simpa using h
  · simp

theorem mem_rm (l : List Nat) (x y : Nat) : y ∈ rm l x ↔ y ∈ l ∧ y ≠ x := by
  simp [rm]

theorem sid_putLease (s : St) (l : Lease) (id : Nat) : sid (putLease s l) id ↔ sid s id ∨ id = l.id := by
  unfold putLease sid
  split
  · rename_i h
    simp only [List.any_eq_true, beq_iff_eq] at h
    obtain ⟨x, hx, hxl⟩ := h
    simp only [List.mem_map]
    constructor
    · rintro ⟨l', ⟨y, hy, rfl⟩, hid⟩
      by_cases hyl : (y.id == l.id) = true
      · simp only [hyl, if_true] at hid; exact Or.inr hid.symm
      · simp only [hyl] at hid; exact Or.inl ⟨y, hy, hid⟩
    · rintro (⟨y, hy, hid⟩ | rfl)
      · by_cases hyl : (y.id == l.id) = true
        · exact ⟨l, ⟨y, hy, by simp [hyl]⟩, by rw [← hid]; exact (beq_iff_eq.mp hyl).symm⟩
        · exact ⟨y, ⟨y, hy, by simp [hyl]⟩, hid⟩
      · exact ⟨l, ⟨x, hx, by simp [hxl]⟩, rfl⟩
  · simp only [List.mem_append, List.mem_singleton]
    constructor
    · rintro ⟨l', (h1 | rfl), hid⟩
      · exact Or.inl ⟨l', h1, hid⟩
      · exact Or.inr hid.symm
    · rintro (⟨y, hy, hid⟩ | rfl)
      · exact ⟨y, Or.inl hy, hid⟩
      · exact ⟨l, Or.inr rfl, rfl⟩

theorem sid_delLease (s : St) (x id : Nat) : sid (delLease s x) id ↔ sid s id ∧ id ≠ x := by
  unfold delLease sid
  simp only [List.mem_filter, bne_iff_ne, ne_eq]
  constructor
  · rintro ⟨l, ⟨hl, hne⟩, rfl⟩; exact ⟨⟨l, hl, rfl⟩, hne⟩
  · rintro ⟨⟨l, hl, rfl⟩, hne⟩; exact ⟨l, ⟨hl, hne⟩, rfl⟩

theorem tracked_updatePending (s : St) (l : Lease) (id : Nat) :
    tracked (updatePending s l) id ↔ tracked s id ∨ id = l.id := by
  unfold updatePending tracked
  split
  · simp only [mem_ins, mem_rm]
    by_cases h : id = l.id <;> simp [h]
  · split
    · simp only [mem_ins, mem_rm]
      by_cases h : id = l.id <;> simp [h]
    · simp only [mem_ins]
      by_cases h : id = l.id <;> simp [h]

theorem stored_updatePending (s : St) (l : Lease) : (updatePending s l).stored = s.stored := by
  unfold updatePending
  split
  · rfl
  · split <;> rfl

theorem sid_updatePending (s : St) (l : Lease) (id : Nat) : sid (updatePending s l) id ↔ sid s id := by
  unfold sid; rw [stored_updatePending]

theorem tracked_untrack (s : St) (x id : Nat) : tracked (untrack s x) id ↔ tracked s id ∧ id ≠ x := by
  unfold untrack tracked
  simp only [mem_rm]
  by_cases h : id = x <;> simp [h]

theorem sid_untrack (s : St) (x id : Nat) : sid (untrack s x) id ↔ sid s id := Iff.rfl

theorem tracked_delLease (s : St) (x id : Nat) : tracked (delLease s x) id ↔ tracked s id := Iff.rfl
theorem tracked_putLease (s : St) (l : Lease) (id : Nat) : tracked (putLease s l) id ↔ tracked s id := by
  unfold putLease; split <;> exact Iff.rfl

/-- store-or-replace a lease and `updatePending` it: both sides gain exactly its id -/
theorem Inv_put_update (s : St) (l : Lease) (h : Inv s) : Inv (updatePending (putLease s l) l) := by
  intro id
  rw [sid_updatePending, sid_putLease, tracked_updatePending, tracked_putLease, h id]

/-- delete a lease and untrack it: both sides lose exactly its id -/
theorem Inv_del_untrack (s : St) (x : Nat) (h : Inv s) : Inv (untrack (delLease s x) x) := by
  intro id
  rw [sid_untrack, sid_delLease, tracked_untrack, tracked_delLease, h id]

theorem find?_some_id (s : St) (id : Nat) (l : Lease) (h : find? s id = some l) : l.id = id ∧ l ∈ s.stored := by
  unfold find? at h
  have h1 := List.find?_some h
  exact ⟨by simpa using h1, List.mem_of_find?_eq_some h⟩

theorem Inv_lazyRevoke (s : St) (id : Nat) (now : Int) (h : Inv s) : Inv (lazyRevoke s id now) := by
  unfold lazyRevoke
  split
  · exact h
  · exact Inv_put_update _ _ h

theorem Inv_foldl_lazyRevoke (ids : List Nat) (s : St) (now : Int) (h : Inv s) :
    Inv (ids.foldl (fun s o => lazyRevoke s o now) s) := by
  induction ids generalizing s with
  | nil => exact h
  | cons a t ih => exact ih _ (Inv_lazyRevoke s a now h)

theorem Inv_revokeToken (s : St) (id : Nat) (now : Int) (h : Inv s) : Inv (revokeToken s id now) := by
  unfold revokeToken
  exact Inv_del_untrack _ _ (Inv_foldl_lazyRevoke _ _ _ h)

/-- the backend call touches neither storage nor the tracking maps -/
theorem backendRevoke_frame (s : St) (id : Nat) :
    (backendRevoke s id).2.stored = s.stored ∧ (backendRevoke s id).2.pending = s.pending ∧
    (backendRevoke s id).2.irrevocable = s.irrevocable ∧ (backendRevoke s id).2.nonexpiring = s.nonexpiring := by
  unfold backendRevoke
  simp only
  split <;> exact ⟨rfl, rfl, rfl, rfl⟩

theorem Inv_backendRevoke (s : St) (id : Nat) (h : Inv s) : Inv (backendRevoke s id).2 := by
  obtain ⟨h1, h2, h3, h4⟩ := backendRevoke_frame s id
  intro x
  have := h x
  unfold sid tracked at this ⊢
  rw [h1, h2, h3, h4]; exact this

theorem putLease_frame (s : St) (l : Lease) :
    (putLease s l).pending = s.pending ∧ (putLease s l).irrevocable = s.irrevocable ∧
    (putLease s l).nonexpiring = s.nonexpiring ∧ (putLease s l).calls = s.calls ∧
    (putLease s l).outOfFuel = s.outOfFuel ∧ (putLease s l).frozen = s.frozen := by
  unfold putLease; split <;> exact ⟨rfl, rfl, rfl, rfl, rfl, rfl⟩

theorem markIrrevocable_frame (s : St) (l : Lease) :
    (markIrrevocable s l).calls = s.calls ∧ (markIrrevocable s l).outOfFuel = s.outOfFuel ∧
    (markIrrevocable s l).frozen = s.frozen ∧ l.id ∈ (markIrrevocable s l).irrevocable := by
  obtain ⟨_, _, _, h4, h5, h6⟩ := putLease_frame s { l with irrevocable := true }
  unfold markIrrevocable
  exact ⟨h4, h5, h6, by simp [mem_ins]⟩

theorem sid_markIrrevocable (s : St) (l : Lease) (id : Nat) :
    sid (markIrrevocable s l) id ↔ sid s id ∨ id = l.id := by
  have := sid_putLease s { l with irrevocable := true } id
  exact this

theorem Inv_markIrrevocable (s : St) (l : Lease) (h : Inv s) (hs : sid s l.id) : Inv (markIrrevocable s l) := by
  intro id
  rw [sid_markIrrevocable]
  obtain ⟨hpp, hpi, hpn, _⟩ := putLease_frame s { l with irrevocable := true }
  unfold markIrrevocable tracked
  simp only [mem_ins, mem_rm, hpp, hpi, hpn]
  have h0 := h id
  unfold tracked at h0
  by_cases hid : id = l.id
  · subst hid; simp [hs]
  · simp only [hid, or_false, ne_eq, not_false_eq_true, and_true]
    exact h0

theorem Inv_outOfFuel (s : St) (h : Inv s) : Inv { s with outOfFuel := true } := h

theorem Inv_secretJob (fuel : Nat) (s : St) (l : Lease) (a : Nat) (h : Inv s) (hs : sid s l.id) :
    Inv (secretJob fuel s l a) := by
  induction fuel generalizing s a with
  | zero => exact h
  | succ n ih =>
    unfold secretJob
    have hb := Inv_backendRevoke s l.id h
    have hsb : sid (backendRevoke s l.id).2 l.id := by
      unfold sid; rw [(backendRevoke_frame s l.id).1]; exact hs
    generalize backendRevoke s l.id = r at hb hsb
    obtain ⟨ok, s1⟩ := r
    simp only at hb hsb ⊢
    split
    · exact Inv_del_untrack _ _ hb
    · split
      · exact Inv_markIrrevocable s1 l hb hsb
      · exact ih s1 _ hb hsb

theorem Inv_settle (fuel : Nat) (s : St) (now : Int) (h : Inv s) : Inv (settle fuel s now) := by
  induction fuel generalizing s with
  | zero => exact h
  | succ n ih =>
    unfold settle
    split
    · exact h
    · split
      · exact h
      · rename_i l hl
        apply ih
        have hmem := List.mem_of_find?_eq_some hl
        split
        · exact Inv_revokeToken _ _ _ h
        · exact Inv_secretJob _ _ _ _ h ⟨l, hmem, rfl⟩

theorem Inv_restore (ls : List Lease) (s : St) (id : Nat) :
    tracked (restore ls s) id ↔ tracked s id ∨ ∃ l ∈ ls, l.id = id := by
  unfold restore
  induction ls generalizing s with
  | nil => simp
  | cons a t ih =>
    simp only [List.foldl_cons, List.mem_cons]
    rw [ih, tracked_updatePending]
    constructor
    · rintro ((h | rfl) | ⟨l, hl, rfl⟩)
      · exact Or.inl h
      · exact Or.inr ⟨a, Or.inl rfl, rfl⟩
      · exact Or.inr ⟨l, Or.inr hl, rfl⟩
    · rintro (h | ⟨l, (rfl | hl), rfl⟩)
      · exact Or.inl (Or.inl h)
      · exact Or.inl (Or.inr rfl)
      · exact Or.inr ⟨l, hl, rfl⟩

theorem stored_restore (ls : List Lease) (s : St) : (restore ls s).stored = s.stored := by
  unfold restore
  induction ls generalizing s with
  | nil => rfl
  | cons a t ih => simp only [List.foldl_cons]; rw [ih, stored_updatePending]

/-- a restart rebuilds tracking from WHATEVER is stored: no hypothesis on the state before -/
theorem Inv_restart (s : St) (now : Int) : Inv (restart s now) := by
  unfold restart
  apply Inv_settle
  intro id
  rw [Inv_restore]
  unfold sid
  rw [stored_restore]
  simp [tracked]

theorem Inv_applyOp (s : St) (o : Op) (h : Inv s) : Inv (applyOp s o).1 := by
  cases o with
  | tokCreate ttl emax ren now =>
    simp only [applyOp, tokCreate]
    split
    · exact Inv_put_update _ _ (by exact h)
    · exact h
  | rootCreate now => exact Inv_put_update _ _ (by exact h)
  | reg owner ttl max ren now =>
    simp only [applyOp, reg]
    split
    · exact h
    · split
      · exact Inv_put_update _ _ (by exact h)
      · exact h
  | renew id incr now =>
    simp only [applyOp, renew]
    split
    · exact h
    · split
      · exact h
      · split
        · exact Inv_put_update _ _ h
        · exact h
        · exact h
  | tokRenew id incr now =>
    simp only [applyOp, tokRenew]
    split
    · exact h
    · split
      · exact h
      · split
        · exact h
        · split
          · exact Inv_put_update _ _ h
          · exact h
          · exact h
  | revoke id sync now =>
    simp only [applyOp, revoke]
    split
    · exact h
    · rename_i l hl
      split
      · have hr : Inv (revokeSync s l now).2 := by
          unfold revokeSync
          split
          · exact Inv_revokeToken _ _ _ h
          · have hb := Inv_backendRevoke s l.id h
            generalize backendRevoke s l.id = r at hb
            obtain ⟨ok, s1⟩ := r
            simp only at hb ⊢
            split
            · exact Inv_del_untrack _ _ hb
            · exact hb
        generalize revokeSync s l now = r at hr
        obtain ⟨ok, s1⟩ := r
        cases ok
        · exact hr
        · exact Inv_settle _ _ _ hr
      · exact Inv_settle _ _ _ (Inv_lazyRevoke _ _ _ h)
  | tokRevoke id now =>
    simp only [applyOp, tokRevoke]
    split
    · exact h
    · exact Inv_settle _ _ _ (Inv_revokeToken _ _ _ h)
  | age id secs now =>
    simp only [applyOp, age]
    split
    · exact h
    · exact Inv_settle _ _ _ (Inv_put_update _ _ h)
  | setFail m => exact h
  | freeze on => exact h
  | restart now => exact Inv_restart s now
  | crashRestart stored now => exact Inv_restart _ now

theorem Inv_init : Inv St.init := by
  intro id; simp [sid, tracked, St.init]

theorem Inv_run (ops : List Op) (s : St) (h : Inv s) : Inv (run s ops) := by
  induction ops generalizing s with
  | nil => exact h
  | cons o t ih => exact ih _ (Inv_applyOp s o h)

end Obao.Expiration

namespace Obao.Expiration
open Obao.TTL

/-- `calcTTL_bound` of C05, non-periodic arm (restated here so that this module needs only the model) -/
theorem calcTTL_nonperiodic_bound (i : Inp) (ttl : Int) (w : Nat) (hp : i.period ≤ 0) (h : calcTTL i = .ok ttl w) :
    i.now + ttl ≤ i.start + effMax i := by
  unfold calcTTL at h
  simp only at h
  repeat' (split at h)
  all_goals first
    | contradiction
    | (simp only [Out.ok.injEq] at h; omega)

/-- the retry loop of the revocation job, started with `a` failures behind it and enough fuel to reach the budget:
it ends with the lease gone from storage or marked irrevocable, after at most `6 - a` further backend calls, and it
never runs out of fuel -/
theorem secretJob_budget (fuel : Nat) (s : St) (l : Lease) (a : Nat) (hf : a + fuel ≥ maxRevokeAttempts + 1)
    (ha : a < maxRevokeAttempts) :
    (secretJob fuel s l a).outOfFuel = s.outOfFuel ∧
    (secretJob fuel s l a).calls ≤ s.calls + (maxRevokeAttempts - a) ∧
    ((¬ sid (secretJob fuel s l a) l.id) ∨
      (l.id ∈ (secretJob fuel s l a).irrevocable ∧ ∃ l' ∈ (secretJob fuel s l a).stored, l'.id = l.id ∧ l'.irrevocable = true)) := by
  induction fuel generalizing s a with
  | zero => unfold maxRevokeAttempts at *; omega
  | succ n ih =>
    unfold secretJob
    have hcalls : (backendRevoke s l.id).2.calls = s.calls + 1 := by
      unfold backendRevoke; simp only; split <;> rfl
    have hfuel : (backendRevoke s l.id).2.outOfFuel = s.outOfFuel := by
      unfold backendRevoke; simp only; split <;> rfl
    generalize backendRevoke s l.id = r at hcalls hfuel
    obtain ⟨ok, s1⟩ := r
    simp only at hcalls hfuel ⊢
    split
    · refine ⟨hfuel, ?_, Or.inl ?_⟩
      · show s1.calls ≤ _; unfold maxRevokeAttempts at *; omega
      · rw [sid_untrack, sid_delLease]; exact fun h => h.2 rfl
    · split
      · obtain ⟨hc, ho, _, hm⟩ := markIrrevocable_frame s1 l
        refine ⟨ho.trans hfuel, ?_, Or.inr ⟨hm, ?_⟩⟩
        · rw [hc]; unfold maxRevokeAttempts at *; omega
        · have := (sid_putLease s1 { l with irrevocable := true } l.id).mpr (Or.inr rfl)
          obtain ⟨l', hl', hid⟩ := this
          refine ⟨l', hl', hid, ?_⟩
          -- the entry with this id in `putLease` is the marked one
          unfold putLease at hl'
          split at hl'
          · simp only [List.mem_map] at hl'
            obtain ⟨y, _, rfl⟩ := hl'
            by_cases hy : (y.id == l.id) = true
            · simp [hy]
            · simp only [hy] at hid ⊢
              exact absurd (by simpa using hid) (by simpa using hy)
          · simp only [List.mem_append, List.mem_singleton] at hl'
            rcases hl' with h1 | rfl
            · rename_i hnone
              exact absurd (List.any_eq_true.mpr ⟨l', h1, by simpa using hid⟩) hnone
            · rfl
      · rename_i hnot
        have hlt : a + 1 < maxRevokeAttempts := by
          simp only [ge_iff_le, Bool.or_eq_true, decide_eq_true_eq, not_or] at hnot
          exact Nat.lt_of_not_le hnot.1
        have := ih s1 (a + 1) (by omega) hlt
        refine ⟨this.1.trans hfuel, ?_, this.2.2⟩
        have h2 := this.2.1
        unfold maxRevokeAttempts at *
        omega

theorem updatePending_frozen (s : St) (l : Lease) : (updatePending s l).frozen = s.frozen := by
  unfold updatePending
  split
  · rfl
  · split <;> rfl

theorem lazyRevoke_frozen (s : St) (id : Nat) (now : Int) : (lazyRevoke s id now).frozen = s.frozen := by
  unfold lazyRevoke
  split
  · rfl
  · rw [updatePending_frozen]; exact (putLease_frame _ _).2.2.2.2.2

theorem revokeToken_frozen (s : St) (id : Nat) (now : Int) : (revokeToken s id now).frozen = s.frozen := by
  unfold revokeToken
  have : ∀ (ids : List Nat) (s : St), (ids.foldl (fun s o => lazyRevoke s o now) s).frozen = s.frozen := by
    intro ids
    induction ids with
    | nil => intro s; rfl
    | cons a t ih => intro s; simp only [List.foldl_cons]; rw [ih, lazyRevoke_frozen]
  exact this _ s

/-- when `settle` returns without having run out of fuel and the strategy is live, no tracked-as-pending lease is
at or past its expiry: each was handed to a revocation job -/
theorem settle_resolves (fuel : Nat) (s : St) (now : Int) (hfr : s.frozen = false)
    (hfuel : (settle fuel s now).outOfFuel = false) :
    ∀ l ∈ (settle fuel s now).stored, l.id ∈ (settle fuel s now).pending →
      match l.expiry with | some e => now < e | none => True := by
  induction fuel generalizing s with
  | zero => simp [settle] at hfuel
  | succ n ih =>
    unfold settle at hfuel ⊢
    simp only [hfr, Bool.false_eq_true, if_false] at hfuel ⊢
    generalize hfind : List.find? _ s.stored = r at hfuel ⊢
    cases r with
    | none =>
      intro l hl hp
      have := List.find?_eq_none.mp hfind l hl
      simp only at hl hp
      simp only [hp, List.contains_eq_mem, decide_true, Bool.true_and] at this
      cases he : l.expiry with
      | none => trivial
      | some e =>
        simp only [he, decide_eq_true_eq] at this ⊢
        exact Int.lt_of_not_ge this
    | some l0 =>
      simp only at hfuel ⊢
      apply ih
      · split
        · rw [revokeToken_frozen]; exact hfr
        · -- `secretJob` does not touch `frozen`
          have : ∀ fuel s l a, (secretJob fuel s l a).frozen = s.frozen := by
            intro fuel
            induction fuel with
            | zero => intros; rfl
            | succ m ihm =>
              intro s l a
              unfold secretJob
              have hb : (backendRevoke s l.id).2.frozen = s.frozen := by
                unfold backendRevoke; simp only; split <;> rfl
              generalize backendRevoke s l.id = r at hb
              obtain ⟨ok, s1⟩ := r
              simp only at hb ⊢
              split
              · exact hb
              · split
                · exact (markIrrevocable_frame s1 l).2.2.1.trans hb
                · rw [ihm]; exact hb
          rw [this]; exact hfr
      · exact hfuel

theorem renewableCheck_some (l : Lease) (now : Int)
    (h : l.irrevocable = true ∨ l.expiry = none ∨ expired l now = true ∨ l.renewable = false) :
    ∃ e, renewableCheck l now = some e := by
  unfold renewableCheck
  by_cases h1 : l.irrevocable = true
  · exact ⟨"irrevocable", by simp [h1]⟩
  · by_cases h2 : l.expiry = none
    · exact ⟨"notrenewable", by simp [h1, h2]⟩
    · have hn : l.expiry.isNone = false := by cases he : l.expiry <;> simp_all
      by_cases h3 : expired l now = true
      · exact ⟨"expired", by simp [h1, hn, h3]⟩
      · have h4 : l.renewable = false := by
          rcases h with h | h | h | h
          · exact absurd h h1
          · exact absurd h h2
          · exact absurd h h3
          · exact h
        exact ⟨"notrenewable", by simp [h1, hn, h3, h4]⟩

/-- replacing a stored lease: the new entry is in storage -/
theorem mem_putLease_of_stored (s : St) (l l2 : Lease) (hl : l ∈ s.stored) (hid : l2.id = l.id) :
    l2 ∈ (putLease s l2).stored := by
  unfold putLease
  have hany : s.stored.any (fun x => x.id == l2.id) = true :=
    List.any_eq_true.mpr ⟨l, hl, by simp [hid]⟩
  simp only [hany, if_true, List.mem_map]
  exact ⟨l, hl, by simp [hid]⟩

end Obao.Expiration
