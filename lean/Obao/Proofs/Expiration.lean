import Obao.Model.Expiration
/-! Invariant lemmas for `Obao/Props/C05b.lean`: for every lease id, "tracked by the manager" = "stored in a namespace
that is not sealed and not the lease whose restore is held in flight", through every primitive; plus the side
invariants about `restoreLoaded` marks that make a namespace unseal restore every lease. -/
namespace Obao.Expiration

/-! ### basic list facts -/

theorem mem_ins (l : List Nat) (x y : Nat) : y ∈ ins l x ↔ y ∈ l ∨ y = x := by
  unfold ins
  split
  · rename_i h
    constructor
    · exact Or.inl
    · rintro (h1 | rfl)
      · exact h1
      · simpa using h
  · simp

theorem mem_rm (l : List Nat) (x y : Nat) : y ∈ rm l x ↔ y ∈ l ∧ y ≠ x := by
  simp [rm]

/-! ### the signature of storage: (lease id, namespace) per entry -/

def sig (s : St) : List (Nat × Nat) := s.stored.map fun l => (l.id, l.ns)

/-- `id` is tracked by the manager -/
def tracked (s : St) (id : Nat) : Prop := id ∈ s.pending ∨ id ∈ s.irrevocable ∨ id ∈ s.nonexpiring

/-- `id` ought to be tracked: it has an entry in storage, in a namespace that is not sealed, and it is not the lease a
held namespace restore has not reached yet -/
def elig (s : St) (id : Nat) : Prop :=
  ∃ p ∈ sig s, p.1 = id ∧ s.sealed.contains p.2 = false ∧ s.held.any (·.2 == id) = false

structure Inv (s : St) : Prop where
  te : ∀ id, tracked s id ↔ elig s id
  /-- storage is a map: one entry per lease id -/
  uniq : ∀ p ∈ sig s, ∀ q ∈ sig s, p.1 = q.1 → p = q
  fresh : ∀ p ∈ sig s, p.1 < s.next
  mfresh : ∀ m ∈ s.marks, m.1 < s.next
  /-- a mark carries the namespace of the lease it marks -/
  mns : ∀ m ∈ s.marks, ∀ p ∈ sig s, p.1 = m.1 → p.2 = m.2
  /-- no mark of a sealed namespace, no mark on a held lease -/
  mlive : ∀ m ∈ s.marks, s.sealed.contains m.2 = false ∧ s.held.any (·.2 == m.1) = false
  hfresh : ∀ h ∈ s.held, h.2 < s.next
  hns : ∀ h ∈ s.held, s.sealed.contains h.1 = false ∧ ∀ p ∈ sig s, p.1 = h.2 → p.2 = h.1
  root : s.sealed.contains 0 = false

theorem mem_sig (s : St) (p : Nat × Nat) : p ∈ sig s ↔ ∃ l ∈ s.stored, (l.id, l.ns) = p := by
  simp [sig]

theorem find?_some_id (s : St) (id : Nat) (l : Lease) (h : find? s id = some l) : l.id = id ∧ l ∈ s.stored := by
  unfold find? at h
  have h1 := List.find?_some h
  exact ⟨by simpa using h1, List.mem_of_find?_eq_some h⟩

/-- the lease is reachable -/
def live (s : St) (l : Lease) : Prop := unreachable s l = false

theorem live_iff (s : St) (l : Lease) :
    live s l ↔ s.sealed.contains l.ns = false ∧ s.held.any (·.2 == l.id) = false := by
  unfold live unreachable
  simp only [Bool.or_eq_false_iff]

theorem elig_of_live (s : St) (l : Lease) (hl : l ∈ s.stored) (hv : live s l) : elig s l.id :=
  ⟨(l.id, l.ns), (mem_sig s _).mpr ⟨l, hl, rfl⟩, rfl, ((live_iff s l).mp hv).1, ((live_iff s l).mp hv).2⟩

theorem live_of_elig (s : St) (hI : Inv s) (l : Lease) (hl : l ∈ s.stored) (he : elig s l.id) : live s l := by
  obtain ⟨p, hp, hid, hs, hh⟩ := he
  have := hI.uniq p hp (l.id, l.ns) ((mem_sig s _).mpr ⟨l, hl, rfl⟩) hid
  subst this
  exact (live_iff s l).mpr ⟨hs, hh⟩

/-! ### storage updates and the signature -/

theorem sig_putLease_same (s : St) (hu : ∀ p ∈ sig s, ∀ q ∈ sig s, p.1 = q.1 → p = q) (l l' : Lease) (hl : l ∈ s.stored)
    (hid : l'.id = l.id) (hns : l'.ns = l.ns) : sig (putLease s l') = sig s := by
  unfold putLease
  have hany : s.stored.any (fun x => x.id == l'.id) = true := List.any_eq_true.mpr ⟨l, hl, by simp [hid]⟩
  simp only [hany, if_true, sig, List.map_map]
  apply List.map_congr_left
  intro x hx
  simp only [Function.comp]
  by_cases hxl : (x.id == l'.id) = true
  · simp only [hxl, if_true]
    have hx1 : x.id = l.id := by rw [← hid]; exact beq_iff_eq.mp hxl
    have := hu (x.id, x.ns) ((mem_sig s _).mpr ⟨x, hx, rfl⟩) (l.id, l.ns) ((mem_sig s _).mpr ⟨l, hl, rfl⟩) hx1
    simp only [Prod.mk.injEq] at this
    rw [hid, hns, this.1, this.2]
  · simp [hxl]

theorem sig_putLease_fresh (s : St) (l' : Lease) (hf : ∀ p ∈ sig s, p.1 ≠ l'.id) :
    sig (putLease s l') = sig s ++ [(l'.id, l'.ns)] := by
  unfold putLease
  have hany : s.stored.any (fun x => x.id == l'.id) = false := by
    rw [Bool.eq_false_iff]
    intro h
    obtain ⟨x, hx, hxl⟩ := List.any_eq_true.mp h
    exact hf (x.id, x.ns) ((mem_sig s _).mpr ⟨x, hx, rfl⟩) (beq_iff_eq.mp hxl)
  simp [hany, sig]

theorem sig_delLease (s : St) (x : Nat) : sig (delLease s x) = (sig s).filter (·.1 != x) := by
  unfold delLease sig
  simp only [List.filter_map]
  rfl

theorem putLease_frame (s : St) (l : Lease) :
    (putLease s l).pending = s.pending ∧ (putLease s l).irrevocable = s.irrevocable ∧
    (putLease s l).nonexpiring = s.nonexpiring ∧ (putLease s l).calls = s.calls ∧
    (putLease s l).outOfFuel = s.outOfFuel ∧ (putLease s l).frozen = s.frozen ∧
    (putLease s l).marks = s.marks ∧ (putLease s l).sealed = s.sealed ∧ (putLease s l).held = s.held ∧
    (putLease s l).next = s.next ∧ (putLease s l).restoreMode = s.restoreMode := by
  unfold putLease; split <;> exact ⟨rfl, rfl, rfl, rfl, rfl, rfl, rfl, rfl, rfl, rfl, rfl⟩

theorem tracked_updatePending (s : St) (l : Lease) (id : Nat) :
    tracked (updatePending s l) id ↔ tracked s id ∨ id = l.id := by
  unfold updatePending tracked
  split
  · simp only [mem_ins, mem_rm]
    by_cases h : id = l.id <;> simp [h]
  · split
    · simp only [mem_ins, mem_rm]
      by_cases h : id = l.id <;> simp [h]
    · simp only [mem_ins]
      by_cases h : id = l.id <;> simp [h]

theorem updatePending_frame (s : St) (l : Lease) :
    (updatePending s l).stored = s.stored ∧ (updatePending s l).marks = s.marks ∧
    (updatePending s l).sealed = s.sealed ∧ (updatePending s l).held = s.held ∧ (updatePending s l).next = s.next ∧
    (updatePending s l).frozen = s.frozen ∧ (updatePending s l).calls = s.calls ∧
    (updatePending s l).outOfFuel = s.outOfFuel ∧ (updatePending s l).restoreMode = s.restoreMode := by
  unfold updatePending
  split
  · exact ⟨rfl, rfl, rfl, rfl, rfl, rfl, rfl, rfl, rfl⟩
  · split <;> exact ⟨rfl, rfl, rfl, rfl, rfl, rfl, rfl, rfl, rfl⟩

theorem tracked_untrack (s : St) (x id : Nat) : tracked (untrack s x) id ↔ tracked s id ∧ id ≠ x := by
  unfold untrack tracked
  simp only [mem_rm]
  by_cases h : id = x <;> simp [h]

/-- the invariant reads only these components of the state -/
theorem Inv_congr (s t : St) (h : Inv s) (h1 : sig t = sig s) (h2 : t.pending = s.pending)
    (h3 : t.irrevocable = s.irrevocable) (h4 : t.nonexpiring = s.nonexpiring) (h5 : t.marks = s.marks)
    (h6 : t.sealed = s.sealed) (h7 : t.held = s.held) (h8 : t.next = s.next) : Inv t := by
  have ht : ∀ id, tracked t id ↔ tracked s id := fun id => by unfold tracked; rw [h2, h3, h4]
  have he : ∀ id, elig t id ↔ elig s id := fun id => by unfold elig; rw [h1, h6, h7]
  exact ⟨fun id => by rw [ht, he]; exact h.te id, by rw [h1]; exact h.uniq, by rw [h1, h8]; exact h.fresh,
    by rw [h5, h8]; exact h.mfresh, by rw [h5, h1]; exact h.mns, by rw [h5, h6, h7]; exact h.mlive,
    by rw [h7, h8]; exact h.hfresh, by rw [h7, h6, h1]; exact h.hns, by rw [h6]; exact h.root⟩

/-! ### the elementary steps -/

theorem mem_putLease (s : St) (l : Lease) : l ∈ (putLease s l).stored := by
  unfold putLease
  split
  · rename_i h
    obtain ⟨x, hx, hxl⟩ := List.any_eq_true.mp h
    simp only [List.mem_map]
    exact ⟨x, hx, by simp [hxl]⟩
  · simp

/-- `updatePending` of a stored, reachable lease -/
theorem Inv_track (s : St) (h : Inv s) (l : Lease) (hl : l ∈ s.stored) (hv : live s l) : Inv (updatePending s l) := by
  obtain ⟨f1, f2, f3, f4, f5, _⟩ := updatePending_frame s l
  have hsig : sig (updatePending s l) = sig s := by unfold sig; rw [f1]
  have he : ∀ id, elig (updatePending s l) id ↔ elig s id := fun id => by unfold elig; rw [hsig, f3, f4]
  refine ⟨fun id => ?_, by rw [hsig]; exact h.uniq, by rw [hsig, f5]; exact h.fresh, by rw [f2, f5]; exact h.mfresh,
    by rw [f2, hsig]; exact h.mns, by rw [f2, f3, f4]; exact h.mlive, by rw [f4, f5]; exact h.hfresh,
    by rw [f4, f3, hsig]; exact h.hns, by rw [f3]; exact h.root⟩
  rw [tracked_updatePending, he, h.te]
  constructor
  · rintro (h1 | rfl)
    · exact h1
    · exact elig_of_live s l hl hv
  · exact Or.inl

theorem live_congr (s t : St) (l : Lease) (h6 : t.sealed = s.sealed) (h7 : t.held = s.held) : live t l ↔ live s l := by
  rw [live_iff, live_iff, h6, h7]

/-- an existing entry is rewritten (same id, same namespace) and `updatePending`ed -/
theorem Inv_replace (s : St) (h : Inv s) (l l' : Lease) (hl : l ∈ s.stored) (hv : live s l)
    (hid : l'.id = l.id) (hns : l'.ns = l.ns) : Inv (updatePending (putLease s l') l') := by
  obtain ⟨p1, p2, p3, _, _, _, p7, p8, p9, p10, _⟩ := putLease_frame s l'
  have h1 : Inv (putLease s l') :=
    Inv_congr s _ h (sig_putLease_same s h.uniq l l' hl hid hns) p1 p2 p3 p7 p8 p9 p10
  apply Inv_track _ h1 l' (mem_putLease s l')
  rw [live_congr s (putLease s l') l' p8 p9, live_iff, hid, hns]
  exact (live_iff s l).mp hv

/-- a new entry with the next fresh id in a namespace that is not sealed -/
theorem Inv_create (s : St) (h : Inv s) (l' : Lease) (hid : l'.id = s.next) (hns : s.sealed.contains l'.ns = false) :
    Inv (updatePending (putLease { s with next := s.next + 1 } l') l') := by
  have hf : ∀ p ∈ sig s, p.1 ≠ l'.id := fun p hp => by rw [hid]; exact Nat.ne_of_lt (h.fresh p hp)
  obtain ⟨p1, p2, p3, _, _, _, p7, p8, p9, p10, _⟩ := putLease_frame { s with next := s.next + 1 } l'
  obtain ⟨f1, f2, f3, f4, f5, _⟩ := updatePending_frame (putLease { s with next := s.next + 1 } l') l'
  have hsig : sig (updatePending (putLease { s with next := s.next + 1 } l') l') = sig s ++ [(l'.id, l'.ns)] := by
    have := sig_putLease_fresh { s with next := s.next + 1 } l' hf
    unfold sig at this ⊢
    rw [f1]; exact this
  have hheld : s.held.any (·.2 == l'.id) = false := by
    rw [Bool.eq_false_iff]
    intro hc
    obtain ⟨x, hx, hxl⟩ := List.any_eq_true.mp hc
    have := h.hfresh x hx
    rw [beq_iff_eq.mp hxl, hid] at this
    exact Nat.lt_irrefl _ this
  have hmark : ∀ m ∈ s.marks, m.1 ≠ l'.id := fun m hm => by rw [hid]; exact Nat.ne_of_lt (h.mfresh m hm)
  have hh : ∀ x ∈ s.held, x.2 ≠ l'.id := fun x hx => by rw [hid]; exact Nat.ne_of_lt (h.hfresh x hx)
  have hsealed : (updatePending (putLease { s with next := s.next + 1 } l') l').sealed = s.sealed := by rw [f3, p8]
  have hheld' : (updatePending (putLease { s with next := s.next + 1 } l') l').held = s.held := by rw [f4, p9]
  have hmarks : (updatePending (putLease { s with next := s.next + 1 } l') l').marks = s.marks := by rw [f2, p7]
  have hnext : (updatePending (putLease { s with next := s.next + 1 } l') l').next = s.next + 1 := by rw [f5, p10]
  refine ⟨fun id => ?_, ?_, ?_, ?_, ?_, ?_, ?_, ?_, ?_⟩
  · rw [tracked_updatePending]
    have ht : tracked (putLease { s with next := s.next + 1 } l') id ↔ tracked s id := by
      unfold tracked; rw [p1, p2, p3]
    rw [ht, h.te]
    unfold elig
    rw [hsig, hsealed, hheld']
    constructor
    · rintro (⟨p, hp, rest⟩ | rfl)
      · exact ⟨p, List.mem_append_left _ hp, rest⟩
      · exact ⟨(l'.id, l'.ns), List.mem_append_right _ (List.mem_singleton.mpr rfl), rfl, hns, hheld⟩
    · rintro ⟨p, hp, hpid, hs, hhh⟩
      rcases List.mem_append.mp hp with hp | hp
      · exact Or.inl ⟨p, hp, hpid, hs, hhh⟩
      · simp only [List.mem_singleton] at hp
        subst hp
        exact Or.inr hpid.symm
  · rw [hsig]
    intro p hp q hq hpq
    rcases List.mem_append.mp hp with hp | hp <;> rcases List.mem_append.mp hq with hq | hq
    · exact h.uniq p hp q hq hpq
    · simp only [List.mem_singleton] at hq; subst hq; exact absurd hpq (hf p hp)
    · simp only [List.mem_singleton] at hp; subst hp; exact absurd hpq.symm (hf q hq)
    · simp only [List.mem_singleton] at hp hq; rw [hp, hq]
  · rw [hsig, hnext]
    intro p hp
    rcases List.mem_append.mp hp with hp | hp
    · exact Nat.lt_succ_of_lt (h.fresh p hp)
    · simp only [List.mem_singleton] at hp; subst hp; simp [hid]
  · rw [hmarks, hnext]; exact fun m hm => Nat.lt_succ_of_lt (h.mfresh m hm)
  · rw [hmarks, hsig]
    intro m hm p hp hpm
    rcases List.mem_append.mp hp with hp | hp
    · exact h.mns m hm p hp hpm
    · simp only [List.mem_singleton] at hp; subst hp; exact absurd hpm.symm (hmark m hm)
  · rw [hmarks, hsealed, hheld']; exact h.mlive
  · rw [hheld', hnext]; exact fun x hx => Nat.lt_succ_of_lt (h.hfresh x hx)
  · rw [hheld', hsealed, hsig]
    intro x hx
    refine ⟨(h.hns x hx).1, fun p hp hpx => ?_⟩
    rcases List.mem_append.mp hp with hp | hp
    · exact (h.hns x hx).2 p hp hpx
    · simp only [List.mem_singleton] at hp; subst hp; exact absurd hpx.symm (hh x hx)
  · rw [hsealed]; exact h.root

/-- an entry is deleted and untracked -/
theorem Inv_delete (s : St) (h : Inv s) (x : Nat) : Inv (untrack (delLease s x) x) := by
  have hsig : sig (untrack (delLease s x) x) = (sig s).filter (·.1 != x) := sig_delLease s x
  have hsub : ∀ p ∈ sig (untrack (delLease s x) x), p ∈ sig s := fun p hp => by
    rw [hsig] at hp; exact (List.mem_filter.mp hp).1
  refine ⟨fun id => ?_, fun p hp q hq => h.uniq p (hsub p hp) q (hsub q hq), fun p hp => h.fresh p (hsub p hp),
    h.mfresh, fun m hm p hp => h.mns m hm p (hsub p hp), h.mlive, h.hfresh,
    fun y hy => ⟨(h.hns y hy).1, fun p hp => (h.hns y hy).2 p (hsub p hp)⟩, h.root⟩
  rw [tracked_untrack]
  have : tracked (delLease s x) id ↔ tracked s id := Iff.rfl
  rw [this, h.te]
  unfold elig
  rw [hsig]
  show _ ↔ ∃ p ∈ List.filter (fun p => p.1 != x) (sig s), p.1 = id ∧ s.sealed.contains p.2 = false ∧ s.held.any (·.2 == id) = false
  constructor
  · rintro ⟨⟨p, hp, hpid, rest⟩, hne⟩
    exact ⟨p, List.mem_filter.mpr ⟨hp, by simpa [hpid] using hne⟩, hpid, rest⟩
  · rintro ⟨p, hp, hpid, rest⟩
    obtain ⟨hp1, hp2⟩ := List.mem_filter.mp hp
    exact ⟨⟨p, hp1, hpid, rest⟩, by rw [← hpid]; simpa using hp2⟩

/-- a stored, reachable lease is marked in `restoreLoaded` -/
theorem Inv_mark (s : St) (h : Inv s) (l : Lease) (hl : l ∈ s.stored) (hv : live s l) :
    Inv { s with marks := s.marks ++ [(l.id, l.ns)] } := by
  have hp : (l.id, l.ns) ∈ sig s := (mem_sig s _).mpr ⟨l, hl, rfl⟩
  refine ⟨h.te, h.uniq, h.fresh, ?_, ?_, ?_, h.hfresh, h.hns, h.root⟩
  · intro m hm
    rcases List.mem_append.mp hm with hm | hm
    · exact h.mfresh m hm
    · simp only [List.mem_singleton] at hm; subst hm; exact h.fresh _ hp
  · intro m hm p hp' hpm
    rcases List.mem_append.mp hm with hm | hm
    · exact h.mns m hm p hp' hpm
    · simp only [List.mem_singleton] at hm; subst hm
      have := h.uniq p hp' _ hp hpm
      rw [this]
  · intro m hm
    rcases List.mem_append.mp hm with hm | hm
    · exact h.mlive m hm
    · simp only [List.mem_singleton] at hm; subst hm
      exact (live_iff s l).mp hv

theorem Inv_loadMark (s : St) (h : Inv s) (l : Lease) (hl : l ∈ s.stored) (hv : live s l) : Inv (loadMark s l) := by
  unfold loadMark
  split
  · exact Inv_track _ (Inv_mark s h l hl hv) l hl hv
  · exact h

theorem Inv_processRestore (s : St) (h : Inv s) (l : Lease) (hl : l ∈ s.stored) (hv : live s l) :
    Inv (processRestore s l) := by
  unfold processRestore
  split
  · exact h
  · exact Inv_track _ (Inv_mark s h l hl hv) l hl hv

/-- `loadMark` / `processRestore` leave storage, sealing and holds alone -/
theorem loadMark_frame (s : St) (l : Lease) :
    (loadMark s l).stored = s.stored ∧ (loadMark s l).sealed = s.sealed ∧ (loadMark s l).held = s.held ∧
    (loadMark s l).frozen = s.frozen ∧ (loadMark s l).calls = s.calls ∧ (loadMark s l).outOfFuel = s.outOfFuel ∧
    (loadMark s l).restoreMode = s.restoreMode := by
  unfold loadMark
  split
  · obtain ⟨f1, _, f3, f4, _, f6, f7, f8, f9⟩ := updatePending_frame { s with marks := s.marks ++ [(l.id, l.ns)] } l
    exact ⟨f1, f3, f4, f6, f7, f8, f9⟩
  · exact ⟨rfl, rfl, rfl, rfl, rfl, rfl, rfl⟩

/-! ### revocation paths -/

theorem live_loadMark (s : St) (l0 l : Lease) : live (loadMark s l0) l ↔ live s l :=
  live_congr s _ l (loadMark_frame s l0).2.1 (loadMark_frame s l0).2.2.1

theorem Inv_lazyRevoke (s : St) (id : Nat) (now : Int) (h : Inv s) : Inv (lazyRevoke s id now) := by
  unfold lazyRevoke
  split
  · exact h
  · rename_i l hl
    obtain ⟨_, hmem⟩ := find?_some_id s id l hl
    split
    · exact h
    · rename_i hu
      have hv : live s l := by simpa [live] using hu
      have h1 := Inv_loadMark s h l hmem hv
      exact Inv_replace _ h1 l _ (by rw [(loadMark_frame s l).1]; exact hmem) ((live_loadMark s l l).mpr hv) rfl rfl

theorem Inv_foldl_lazyRevoke (ids : List Nat) (s : St) (now : Int) (h : Inv s) :
    Inv (ids.foldl (fun s o => lazyRevoke s o now) s) := by
  induction ids generalizing s with
  | nil => exact h
  | cons a t ih => exact ih _ (Inv_lazyRevoke s a now h)

theorem Inv_revokeToken (s : St) (id : Nat) (now : Int) (h : Inv s) (hlv : ∀ l, find? s id = some l → live s l) :
    Inv (revokeToken s id now) := by
  unfold revokeToken
  apply Inv_delete
  apply Inv_foldl_lazyRevoke
  cases hf : find? s id with
  | none => exact h
  | some l => exact Inv_loadMark s h l (find?_some_id s id l hf).2 (hlv l hf)

/-- the backend call touches neither storage nor any tracking state -/
theorem backendRevoke_frame (s : St) (id : Nat) :
    (backendRevoke s id).2.stored = s.stored ∧ (backendRevoke s id).2.pending = s.pending ∧
    (backendRevoke s id).2.irrevocable = s.irrevocable ∧ (backendRevoke s id).2.nonexpiring = s.nonexpiring ∧
    (backendRevoke s id).2.marks = s.marks ∧ (backendRevoke s id).2.sealed = s.sealed ∧
    (backendRevoke s id).2.held = s.held ∧ (backendRevoke s id).2.next = s.next ∧
    (backendRevoke s id).2.frozen = s.frozen ∧ (backendRevoke s id).2.outOfFuel = s.outOfFuel ∧
    (backendRevoke s id).2.calls = s.calls + 1 ∧ (backendRevoke s id).2.restoreMode = s.restoreMode := by
  unfold backendRevoke
  simp only
  split <;> exact ⟨rfl, rfl, rfl, rfl, rfl, rfl, rfl, rfl, rfl, rfl, rfl, rfl⟩

theorem Inv_backendRevoke (s : St) (id : Nat) (h : Inv s) : Inv (backendRevoke s id).2 := by
  obtain ⟨h1, h2, h3, h4, h5, h6, h7, h8, _⟩ := backendRevoke_frame s id
  exact Inv_congr s _ h (by unfold sig; rw [h1]) h2 h3 h4 h5 h6 h7 h8

theorem markIrrevocable_frame (s : St) (l : Lease) :
    (markIrrevocable s l).calls = s.calls ∧ (markIrrevocable s l).outOfFuel = s.outOfFuel ∧
    (markIrrevocable s l).frozen = s.frozen ∧ l.id ∈ (markIrrevocable s l).irrevocable := by
  obtain ⟨_, _, _, h4, h5, h6, _⟩ := putLease_frame s { l with irrevocable := true }
  unfold markIrrevocable
  exact ⟨h4, h5, h6, by simp [mem_ins]⟩

theorem Inv_markIrrevocable (s : St) (l : Lease) (h : Inv s) (hl : l ∈ s.stored) (hv : live s l) :
    Inv (markIrrevocable s l) := by
  obtain ⟨p1, p2, p3, _, _, _, p7, p8, p9, p10, _⟩ := putLease_frame s { l with irrevocable := true }
  have hsig : sig (markIrrevocable s l) = sig s :=
    sig_putLease_same s h.uniq l { l with irrevocable := true } hl rfl rfl
  have hm : (markIrrevocable s l).marks = s.marks := p7
  have hs : (markIrrevocable s l).sealed = s.sealed := p8
  have hh : (markIrrevocable s l).held = s.held := p9
  have hn : (markIrrevocable s l).next = s.next := p10
  have he : ∀ id, elig (markIrrevocable s l) id ↔ elig s id := fun id => by unfold elig; rw [hsig, hs, hh]
  refine ⟨fun id => ?_, by rw [hsig]; exact h.uniq, by rw [hsig, hn]; exact h.fresh, by rw [hm, hn]; exact h.mfresh,
    by rw [hm, hsig]; exact h.mns, by rw [hm, hs, hh]; exact h.mlive, by rw [hh, hn]; exact h.hfresh,
    by rw [hh, hs, hsig]; exact h.hns, by rw [hs]; exact h.root⟩
  rw [he]
  have h0 := h.te id
  unfold markIrrevocable tracked
  simp only [mem_ins, mem_rm, p1, p2, p3]
  unfold tracked at h0
  by_cases hid : id = l.id
  · subst hid
    simp only [ne_eq, not_true_eq_false, and_false, or_true, false_or, true_iff]
    first
      | exact elig_of_live s l hl hv
      | exact ⟨fun _ => elig_of_live s l hl hv, fun _ => Or.inl trivial⟩
  · simp only [hid, or_false, ne_eq, not_false_eq_true, and_true]
    exact h0

theorem Inv_secretJob (fuel : Nat) (s : St) (l : Lease) (a : Nat) (h : Inv s) (hl : l ∈ s.stored) (hv : live s l) :
    Inv (secretJob fuel s l a) := by
  induction fuel generalizing s a with
  | zero => exact Inv_congr s _ h rfl rfl rfl rfl rfl rfl rfl rfl
  | succ n ih =>
    unfold secretJob
    dsimp only
    have h1 := Inv_loadMark s h l hl hv
    have hl1 : l ∈ (loadMark s l).stored := by rw [(loadMark_frame s l).1]; exact hl
    have hv1 : live (loadMark s l) l := (live_loadMark s l l).mpr hv
    generalize loadMark s l = s1 at h1 hl1 hv1 ⊢
    have hb := Inv_backendRevoke s1 l.id h1
    obtain ⟨b1, _, _, _, _, b6, b7, _⟩ := backendRevoke_frame s1 l.id
    have hl2 : l ∈ (backendRevoke s1 l.id).2.stored := by rw [b1]; exact hl1
    have hv2 : live (backendRevoke s1 l.id).2 l := (live_congr s1 _ l b6 b7).mpr hv1
    generalize backendRevoke s1 l.id = r at hb hl2 hv2 ⊢
    obtain ⟨ok, s2⟩ := r
    simp only at hb hl2 hv2 ⊢
    split
    · exact Inv_delete _ hb _
    · split
      · exact Inv_markIrrevocable s2 l hb hl2 hv2
      · exact ih s2 _ hb hl2 hv2

theorem Inv_secretJobF (fuel : Nat) (s : St) (l : Lease) (a f : Nat) (h : Inv s) (hl : l ∈ s.stored) (hv : live s l) :
    Inv (secretJobF fuel s l a f) := by
  induction fuel generalizing s a f with
  | zero => exact Inv_congr s _ h rfl rfl rfl rfl rfl rfl rfl rfl
  | succ n ih =>
    unfold secretJobF
    dsimp only
    have h1 := Inv_loadMark s h l hl hv
    have hl1 : l ∈ (loadMark s l).stored := by rw [(loadMark_frame s l).1]; exact hl
    have hv1 : live (loadMark s l) l := (live_loadMark s l l).mpr hv
    generalize loadMark s l = s1 at h1 hl1 hv1 ⊢
    have hb := Inv_backendRevoke s1 l.id h1
    obtain ⟨b1, _, _, _, _, b6, b7, _⟩ := backendRevoke_frame s1 l.id
    have hl2 : l ∈ (backendRevoke s1 l.id).2.stored := by rw [b1]; exact hl1
    have hv2 : live (backendRevoke s1 l.id).2 l := (live_congr s1 _ l b6 b7).mpr hv1
    generalize backendRevoke s1 l.id = r at hb hl2 hv2 ⊢
    obtain ⟨ok, s2⟩ := r
    simp only at hb hl2 hv2 ⊢
    split
    · exact Inv_delete _ hb _
    · split
      · cases f with
        | zero => exact Inv_markIrrevocable s2 l hb hl2 hv2
        | succ f' => exact ih s2 _ _ hb hl2 hv2
      · exact ih s2 _ _ hb hl2 hv2

theorem Inv_settle (fuel : Nat) (s : St) (now : Int) (h : Inv s) : Inv (settle fuel s now) := by
  induction fuel generalizing s with
  | zero => exact Inv_congr s _ h rfl rfl rfl rfl rfl rfl rfl rfl
  | succ n ih =>
    unfold settle
    split
    · exact h
    · split
      · exact h
      · rename_i l hl
        apply ih
        have hmem := List.mem_of_find?_eq_some hl
        have hp := List.find?_some hl
        simp only [Bool.and_eq_true, List.contains_eq_mem, decide_eq_true_eq] at hp
        have hv : live s l := live_of_elig s h l hmem ((h.te l.id).mp (Or.inl hp.1))
        split
        · apply Inv_revokeToken _ _ _ h
          intro l' hl'
          obtain ⟨hid', hmem'⟩ := find?_some_id s l.id l' hl'
          exact live_of_elig s h l' hmem' (by rw [hid']; exact (h.te l.id).mp (Or.inl hp.1))
        · exact Inv_secretJob _ _ _ _ h hmem hv

theorem Inv_revokeSync (s : St) (l : Lease) (now : Int) (h : Inv s) (hl : l ∈ s.stored) (hv : live s l) :
    Inv (revokeSync s l now).2 := by
  unfold revokeSync
  split
  · apply Inv_revokeToken _ _ _ h
    intro l' hl'
    obtain ⟨hid', hmem'⟩ := find?_some_id s l.id l' hl'
    exact live_of_elig s h l' hmem' (by rw [hid']; exact elig_of_live s l hl hv)
  · dsimp only
    have h1 := Inv_loadMark s h l hl hv
    generalize loadMark s l = s1 at h1 ⊢
    have hb := Inv_backendRevoke s1 l.id h1
    generalize backendRevoke s1 l.id = r at hb ⊢
    obtain ⟨ok, s2⟩ := r
    simp only at hb ⊢
    split
    · exact Inv_delete _ hb _
    · exact hb

/-! ### namespaces: seal, the collect / release steps of an unseal, the drain -/

theorem filter_eq_self_of_none (l : List (Nat × Nat)) (x : Nat) (h : l.any (·.2 == x) = false) :
    l.filter (·.2 != x) = l := by
  apply List.filter_eq_self.mpr
  intro a ha
  have : (a.2 == x) = false := by
    rw [Bool.eq_false_iff]
    intro hc
    have : l.any (·.2 == x) = true := List.any_eq_true.mpr ⟨a, ha, hc⟩
    rw [h] at this; exact absurd this (by simp)
  simp [bne, this]

theorem Inv_drain (s : St) (h : Inv s) (ns : Nat) (k : Nat) :
    Inv (drainMarks { s with restoreMode := k } ns) := by
  have hsub : ∀ m ∈ (drainMarks { s with restoreMode := k } ns).marks, m ∈ s.marks := fun m hm =>
    (List.mem_filter.mp hm).1
  exact ⟨h.te, h.uniq, h.fresh, fun m hm => h.mfresh m (hsub m hm), fun m hm => h.mns m (hsub m hm),
    fun m hm => h.mlive m (hsub m hm), h.hfresh, h.hns, h.root⟩

theorem releaseRestore_frame (s : St) (l : Lease) :
    (releaseRestore s l).stored = s.stored ∧ (releaseRestore s l).sealed = s.sealed ∧
    (releaseRestore s l).next = s.next := by
  unfold releaseRestore processRestore
  split
  · exact ⟨rfl, rfl, rfl⟩
  · obtain ⟨f1, _, f3, _, f5, _⟩ :=
      updatePending_frame { s with held := s.held.filter (·.2 != l.id), marks := s.marks ++ [(l.id, l.ns)] } l
    exact ⟨f1, f3, f5⟩

/-- a collected (or already reachable) lease of an unsealed namespace is handled by a restore worker -/
theorem Inv_releaseRestore (s : St) (h : Inv s) (l : Lease) (hl : l ∈ s.stored) (hs : s.sealed.contains l.ns = false) :
    Inv (releaseRestore s l) := by
  have hp : (l.id, l.ns) ∈ sig s := (mem_sig s _).mpr ⟨l, hl, rfl⟩
  unfold releaseRestore processRestore
  split
  · -- marked: then it is not held, the filter changes nothing
    rename_i hm
    obtain ⟨m, hmm, hmid⟩ := List.any_eq_true.mp hm
    have hnh := (h.mlive m hmm).2
    rw [beq_iff_eq.mp hmid] at hnh
    have : s.held.filter (·.2 != l.id) = s.held := filter_eq_self_of_none _ _ hnh
    rw [this]
    exact h
  · rename_i hm
    obtain ⟨f1, f2, f3, f4, f5, _⟩ :=
      updatePending_frame { s with held := s.held.filter (·.2 != l.id), marks := s.marks ++ [(l.id, l.ns)] } l
    have hheldsub : ∀ x ∈ s.held.filter (·.2 != l.id), x ∈ s.held := fun x hx => (List.mem_filter.mp hx).1
    have hany : ∀ id, id ≠ l.id → (s.held.filter (·.2 != l.id)).any (·.2 == id) = s.held.any (·.2 == id) := by
      intro id hne
      rw [Bool.eq_iff_iff]
      simp only [List.any_eq_true, List.mem_filter]
      constructor
      · rintro ⟨x, ⟨hx, _⟩, hxid⟩; exact ⟨x, hx, hxid⟩
      · rintro ⟨x, hx, hxid⟩
        refine ⟨x, ⟨hx, ?_⟩, hxid⟩
        simp only [bne_iff_ne, ne_eq]
        rw [beq_iff_eq.mp hxid]; exact hne
    have hnone : (s.held.filter (·.2 != l.id)).any (·.2 == l.id) = false := by
      rw [Bool.eq_false_iff]
      intro hc
      obtain ⟨x, hx, hxid⟩ := List.any_eq_true.mp hc
      have := (List.mem_filter.mp hx).2
      simp [beq_iff_eq.mp hxid] at this
    refine ⟨fun id => ?_, ?_, ?_, ?_, ?_, ?_, ?_, ?_, ?_⟩
    · rw [tracked_updatePending]
      have ht : tracked { s with held := s.held.filter (·.2 != l.id), marks := s.marks ++ [(l.id, l.ns)] } id ↔ tracked s id :=
        Iff.rfl
      rw [ht, h.te]
      unfold elig sig
      rw [f1, f3, f4]
      show _ ↔ ∃ p ∈ sig s, p.1 = id ∧ s.sealed.contains p.2 = false ∧ (s.held.filter (·.2 != l.id)).any (·.2 == id) = false
      by_cases hid : id = l.id
      · subst hid
        constructor
        · intro _; exact ⟨(l.id, l.ns), hp, rfl, hs, hnone⟩
        · intro _; exact Or.inr rfl
      · rw [hany id hid]
        constructor
        · rintro (h1 | h1)
          · exact h1
          · exact absurd h1 hid
        · intro h1; exact Or.inl h1
    · unfold sig; rw [f1]; exact h.uniq
    · unfold sig; rw [f1, f5]; exact h.fresh
    · rw [f2, f5]
      intro m hm'
      rcases List.mem_append.mp hm' with hm' | hm'
      · exact h.mfresh m hm'
      · simp only [List.mem_singleton] at hm'; subst hm'; exact h.fresh _ hp
    · rw [f2]; unfold sig; rw [f1]
      intro m hm' p hp' hpm
      rcases List.mem_append.mp hm' with hm' | hm'
      · exact h.mns m hm' p hp' hpm
      · simp only [List.mem_singleton] at hm'; subst hm'
        rw [h.uniq p hp' _ hp hpm]
    · rw [f2, f3, f4]
      intro m hm'
      rcases List.mem_append.mp hm' with hm' | hm'
      · refine ⟨(h.mlive m hm').1, ?_⟩
        by_cases hmid : m.1 = l.id
        · rw [hmid]; exact hnone
        · rw [hany m.1 hmid]; exact (h.mlive m hm').2
      · simp only [List.mem_singleton] at hm'; subst hm'; exact ⟨hs, hnone⟩
    · rw [f4, f5]; exact fun x hx => h.hfresh x (hheldsub x hx)
    · rw [f4, f3]; unfold sig; rw [f1]; exact fun x hx => h.hns x (hheldsub x hx)
    · rw [f3]; exact h.root

theorem Inv_foldl_releaseRestore (ls : List Lease) (s : St) (h : Inv s) (hl : ∀ l ∈ ls, l ∈ s.stored)
    (hs : ∀ l ∈ ls, s.sealed.contains l.ns = false) : Inv (ls.foldl releaseRestore s) := by
  induction ls generalizing s with
  | nil => exact h
  | cons a t ih =>
    simp only [List.foldl_cons]
    obtain ⟨f1, f2, _⟩ := releaseRestore_frame s a
    apply ih _ (Inv_releaseRestore s h a (hl a (List.mem_cons_self ..)) (hs a (List.mem_cons_self ..)))
    · intro l hlt; rw [f1]; exact hl l (List.mem_cons_of_mem _ hlt)
    · intro l hlt; rw [f2]; exact hs l (List.mem_cons_of_mem _ hlt)

theorem mem_nsLeases (s : St) (ns : Nat) (l : Lease) : l ∈ nsLeases s ns ↔ l ∈ s.stored ∧ l.ns = ns := by
  simp [nsLeases]

theorem contains_filter_ne (l : List Nat) (ns x : Nat) :
    (l.filter (· != ns)).contains x = (l.contains x && x != ns) := by
  rw [Bool.eq_iff_iff]
  simp only [List.contains_eq_mem, List.mem_filter, decide_eq_true_eq, Bool.and_eq_true, bne_iff_ne, ne_eq]

/-- the namespace is unsealed and all its leases are collected for the restore -/
theorem Inv_unsealStart (s : St) (h : Inv s) (ns : Nat) (hns : s.sealed.contains ns = true) :
    Inv (unsealStart s ns) := by
  have hsealed : ∀ x, (unsealStart s ns).sealed.contains x = (s.sealed.contains x && x != ns) :=
    fun x => contains_filter_ne s.sealed ns x
  have hheld : ∀ id, (unsealStart s ns).held.any (·.2 == id) =
      (s.held.any (·.2 == id) || (nsLeases s ns).any (·.id == id)) := by
    intro id
    simp only [unsealStart, List.any_append, List.any_map]
    rfl
  refine ⟨fun id => ?_, h.uniq, h.fresh, h.mfresh, h.mns, ?_, ?_, ?_, ?_⟩
  · have ht : tracked (unsealStart s ns) id ↔ tracked s id := Iff.rfl
    rw [ht, h.te]
    unfold elig
    show _ ↔ ∃ p ∈ sig s, p.1 = id ∧ (unsealStart s ns).sealed.contains p.2 = false ∧
      (unsealStart s ns).held.any (·.2 == id) = false
    constructor
    · rintro ⟨p, hp, hpid, hs, hh⟩
      refine ⟨p, hp, hpid, by rw [hsealed, hs]; rfl, ?_⟩
      rw [hheld, hh, Bool.false_or, Bool.eq_false_iff]
      intro hc
      obtain ⟨l, hl, hlid⟩ := List.any_eq_true.mp hc
      obtain ⟨hl1, hl2⟩ := (mem_nsLeases s ns l).mp hl
      have := h.uniq p hp (l.id, l.ns) ((mem_sig s _).mpr ⟨l, hl1, rfl⟩) (by rw [hpid]; exact (beq_iff_eq.mp hlid).symm)
      rw [this] at hs
      simp only at hs
      rw [hl2, hns] at hs
      exact absurd hs (by simp)
    · rintro ⟨p, hp, hpid, hs, hh⟩
      rw [hheld, Bool.or_eq_false_iff] at hh
      rw [hsealed, Bool.and_eq_false_iff] at hs
      refine ⟨p, hp, hpid, ?_, hh.1⟩
      rcases hs with hs | hs
      · exact hs
      · -- p is a lease of ns: then it is collected, contradiction
        exfalso
        have hpns : p.2 = ns := by simpa using hs
        obtain ⟨l, hl, hlp⟩ := (mem_sig s p).mp hp
        have : (nsLeases s ns).any (·.id == id) = true :=
          List.any_eq_true.mpr ⟨l, (mem_nsLeases s ns l).mpr ⟨hl, by rw [← hpns, ← hlp]⟩, by
            rw [← hpid, ← hlp]; simp⟩
        rw [hh.2] at this
        exact absurd this (by simp)
  · intro m hm
    refine ⟨by rw [hsealed, (h.mlive m hm).1]; rfl, ?_⟩
    rw [hheld, (h.mlive m hm).2, Bool.false_or, Bool.eq_false_iff]
    intro hc
    obtain ⟨l, hl, hlid⟩ := List.any_eq_true.mp hc
    obtain ⟨hl1, hl2⟩ := (mem_nsLeases s ns l).mp hl
    have := h.mns m hm (l.id, l.ns) ((mem_sig s _).mpr ⟨l, hl1, rfl⟩) (beq_iff_eq.mp hlid)
    simp only at this
    have hm2 := (h.mlive m hm).1
    rw [← this, hl2, hns] at hm2
    exact absurd hm2 (by simp)
  · intro x hx
    rcases List.mem_append.mp hx with hx | hx
    · exact h.hfresh x hx
    · obtain ⟨l, hl, rfl⟩ := List.mem_map.mp hx
      exact h.fresh (l.id, l.ns) ((mem_sig s _).mpr ⟨l, ((mem_nsLeases s ns l).mp hl).1, rfl⟩)
  · intro x hx
    rcases List.mem_append.mp hx with hx | hx
    · refine ⟨by rw [hsealed, (h.hns x hx).1]; rfl, (h.hns x hx).2⟩
    · obtain ⟨l, hl, rfl⟩ := List.mem_map.mp hx
      obtain ⟨hl1, hl2⟩ := (mem_nsLeases s ns l).mp hl
      refine ⟨by rw [hsealed]; simp, fun p hp hpid => ?_⟩
      have := h.uniq p hp (l.id, l.ns) ((mem_sig s _).mpr ⟨l, hl1, rfl⟩) hpid
      rw [this]; exact hl2
  · rw [hsealed, h.root]; rfl

theorem unsealStart_frame (s : St) (ns : Nat) :
    (unsealStart s ns).stored = s.stored ∧ ∀ x, (unsealStart s ns).sealed.contains x = (s.sealed.contains x && x != ns) :=
  ⟨rfl, fun x => contains_filter_ne s.sealed ns x⟩

theorem tracked_foldl_untrack (ls : List Lease) (s : St) (id : Nat) :
    tracked (ls.foldl (fun s l => untrack s l.id) s) id ↔ tracked s id ∧ ∀ l ∈ ls, l.id ≠ id := by
  induction ls generalizing s with
  | nil => simp
  | cons a t ih =>
    simp only [List.foldl_cons, List.mem_cons, forall_eq_or_imp]
    rw [ih, tracked_untrack]
    constructor
    · rintro ⟨⟨h1, h2⟩, h3⟩; exact ⟨h1, fun hc => h2 hc.symm, h3⟩
    · rintro ⟨h1, h2, h3⟩; exact ⟨⟨h1, fun hc => h2 hc.symm⟩, h3⟩

theorem foldl_untrack_frame (ls : List Lease) (s : St) :
    (ls.foldl (fun s l => untrack s l.id) s).stored = s.stored ∧ (ls.foldl (fun s l => untrack s l.id) s).marks = s.marks ∧
    (ls.foldl (fun s l => untrack s l.id) s).sealed = s.sealed ∧ (ls.foldl (fun s l => untrack s l.id) s).held = s.held ∧
    (ls.foldl (fun s l => untrack s l.id) s).next = s.next := by
  induction ls generalizing s with
  | nil => exact ⟨rfl, rfl, rfl, rfl, rfl⟩
  | cons a t ih => simp only [List.foldl_cons]; exact ih (untrack s a.id)

theorem Inv_sealNs (s : St) (h : Inv s) (ns : Nat) : Inv (sealNs s ns).1 := by
  unfold sealNs
  split
  · exact h
  · rename_i hc
    simp only [Bool.or_eq_true, not_or, Bool.not_eq_true] at hc
    obtain ⟨⟨hn0, hnsealed⟩, hnheld⟩ := hc
    obtain ⟨g1, g2, g3, g4, g5⟩ := foldl_untrack_frame (nsLeases s ns) s
    generalize hs1 : (nsLeases s ns).foldl (fun s l => untrack s l.id) s = s1 at g1 g2 g3 g4 g5
    have htr : ∀ id, tracked s1 id ↔ tracked s id ∧ ∀ l ∈ nsLeases s ns, l.id ≠ id := fun id => by
      rw [← hs1]; exact tracked_foldl_untrack _ s id
    have hsig : sig s1 = sig s := by unfold sig; rw [g1]
    have hcont : ∀ x, (s1.sealed ++ [ns]).contains x = (s.sealed.contains x || x == ns) := by
      intro x
      rw [g3, Bool.eq_iff_iff]
      simp only [List.contains_eq_mem, List.mem_append, List.mem_singleton, decide_eq_true_eq, Bool.or_eq_true,
        beq_iff_eq]
    show Inv (drainMarks { s1 with sealed := s1.sealed ++ [ns] } ns)
    have hsigt : sig (drainMarks { s1 with sealed := s1.sealed ++ [ns] } ns) = sig s := hsig
    have hnextt : (drainMarks { s1 with sealed := s1.sealed ++ [ns] } ns).next = s.next := g5
    refine ⟨fun id => ?_, by rw [hsigt]; exact h.uniq, by rw [hsigt, hnextt]; exact h.fresh, ?_, ?_, ?_, ?_, ?_, ?_⟩
    · have ht : tracked (drainMarks { s1 with sealed := s1.sealed ++ [ns] } ns) id ↔ tracked s1 id := Iff.rfl
      rw [ht, htr, h.te]
      unfold elig
      show _ ↔ ∃ p ∈ sig (drainMarks { s1 with sealed := s1.sealed ++ [ns] } ns), p.1 = id ∧
        (s1.sealed ++ [ns]).contains p.2 = false ∧ s1.held.any (·.2 == id) = false
      rw [hsigt, g4]
      constructor
      · rintro ⟨⟨p, hp, hpid, hs, hh⟩, hnot⟩
        refine ⟨p, hp, hpid, ?_, hh⟩
        rw [hcont, hs, Bool.false_or, Bool.eq_false_iff]
        intro hpn
        obtain ⟨l, hl, hlp⟩ := (mem_sig s p).mp hp
        refine hnot l ((mem_nsLeases s ns l).mpr ⟨hl, ?_⟩) ?_
        · rw [← beq_iff_eq.mp hpn, ← hlp]
        · rw [← hpid, ← hlp]
      · rintro ⟨p, hp, hpid, hs, hh⟩
        rw [hcont, Bool.or_eq_false_iff] at hs
        refine ⟨⟨p, hp, hpid, hs.1, hh⟩, fun l hl hlid => ?_⟩
        obtain ⟨hl1, hl2⟩ := (mem_nsLeases s ns l).mp hl
        have := h.uniq p hp (l.id, l.ns) ((mem_sig s _).mpr ⟨l, hl1, rfl⟩) (by rw [hpid, hlid])
        have hs2 := hs.2
        rw [this] at hs2
        simp [hl2] at hs2
    · intro m hm
      have := (List.mem_filter.mp hm).1
      rw [show (({ s1 with sealed := s1.sealed ++ [ns] } : St)).marks = s1.marks from rfl, g2] at this
      rw [hnextt]; exact h.mfresh m this
    · intro m hm
      have := (List.mem_filter.mp hm).1
      rw [show (({ s1 with sealed := s1.sealed ++ [ns] } : St)).marks = s1.marks from rfl, g2] at this
      rw [hsigt]
      exact h.mns m this
    · intro m hm
      obtain ⟨hm1, hm2⟩ := List.mem_filter.mp hm
      rw [show (({ s1 with sealed := s1.sealed ++ [ns] } : St)).marks = s1.marks from rfl, g2] at hm1
      show (s1.sealed ++ [ns]).contains m.2 = false ∧ s1.held.any (·.2 == m.1) = false
      rw [hcont, g4, (h.mlive m hm1).1, Bool.false_or]
      exact ⟨by simpa using hm2, (h.mlive m hm1).2⟩
    · show ∀ x ∈ s1.held, x.2 < s1.next
      rw [g4, g5]; exact h.hfresh
    · show ∀ x ∈ s1.held, (s1.sealed ++ [ns]).contains x.1 = false ∧ ∀ p ∈ sig s1, p.1 = x.2 → p.2 = x.1
      rw [g4, hsig]
      intro x hx
      refine ⟨?_, (h.hns x hx).2⟩
      rw [hcont, (h.hns x hx).1, Bool.false_or, Bool.eq_false_iff]
      intro hc
      have : s.held.any (·.1 == ns) = true := List.any_eq_true.mpr ⟨x, hx, hc⟩
      rw [hnheld] at this
      exact absurd this (by simp)
    · show (s1.sealed ++ [ns]).contains 0 = false
      rw [hcont, h.root, Bool.false_or]
      rw [Bool.eq_false_iff]; intro hc; exact absurd (beq_iff_eq.mp hc).symm (by simpa using hn0)

/-! ### the unseal operations -/

theorem Inv_unsealNs (s : St) (h : Inv s) (ns : Nat) (now : Int) : Inv (unsealNs s ns now).1 := by
  unfold unsealNs
  split
  · exact h
  · rename_i hc
    have hns : s.sealed.contains ns = true := by simpa using hc
    have h1 := Inv_unsealStart s h ns hns
    obtain ⟨u1, u2⟩ := unsealStart_frame s ns
    apply Inv_settle
    apply Inv_drain
    apply Inv_foldl_releaseRestore _ _ h1
    · intro l hl; exact ((mem_nsLeases _ ns l).mp hl).1
    · intro l hl
      rw [u2, ((mem_nsLeases _ ns l).mp hl).2]; simp

theorem Inv_unsealBegin (s : St) (h : Inv s) (ns hh : Nat) (now : Int) : Inv (unsealBegin s ns hh now).1 := by
  unfold unsealBegin
  split
  · exact h
  · rename_i hc
    have hns : s.sealed.contains ns = true := by
      simp only [Bool.or_eq_true, not_or, Bool.not_eq_true, Bool.not_eq_false'] at hc
      simpa using hc.1
    have h1 := Inv_unsealStart s h ns hns
    obtain ⟨u1, u2⟩ := unsealStart_frame s ns
    apply Inv_settle
    apply Inv_foldl_releaseRestore _ _ h1
    · intro l hl; exact ((mem_nsLeases _ ns l).mp (List.mem_filter.mp hl).1).1
    · intro l hl
      rw [u2, ((mem_nsLeases _ ns l).mp (List.mem_filter.mp hl).1).2]; simp

theorem Inv_unsealEnd (s : St) (h : Inv s) (ns : Nat) (now : Int) : Inv (unsealEnd s ns now).1 := by
  unfold unsealEnd
  split
  · exact h
  · rename_i x hh hfind
    have hmem : (x, hh) ∈ s.held := List.mem_of_find?_eq_some hfind
    apply Inv_settle
    apply Inv_drain
    cases hf : find? s hh with
    | some l =>
      simp only
      obtain ⟨hid, hl⟩ := find?_some_id s hh l hf
      apply Inv_releaseRestore s h l hl
      have := (h.hns _ hmem).2 (l.id, l.ns) ((mem_sig s _).mpr ⟨l, hl, rfl⟩) hid
      simp only at this
      rw [this]; exact (h.hns _ hmem).1
    | none =>
      simp only
      -- no stored lease has this id: dropping the hold changes nothing that matters
      have hno : ∀ p ∈ sig s, p.1 ≠ hh := by
        intro p hp hpid
        obtain ⟨l, hl, hlp⟩ := (mem_sig s p).mp hp
        have : find? s hh ≠ none := by
          unfold find?
          intro hnone
          have := List.find?_eq_none.mp hnone l hl
          simp only [beq_iff_eq] at this
          exact this (by rw [← hpid, ← hlp])
        exact this hf
      have hsub : ∀ y ∈ s.held.filter (·.2 != hh), y ∈ s.held := fun y hy => (List.mem_filter.mp hy).1
      have hany : ∀ id, id ≠ hh → (s.held.filter (·.2 != hh)).any (·.2 == id) = s.held.any (·.2 == id) := by
        intro id hne
        rw [Bool.eq_iff_iff]
        simp only [List.any_eq_true, List.mem_filter]
        constructor
        · rintro ⟨y, ⟨hy, _⟩, hyid⟩; exact ⟨y, hy, hyid⟩
        · rintro ⟨y, hy, hyid⟩
          refine ⟨y, ⟨hy, ?_⟩, hyid⟩
          simp only [bne_iff_ne, ne_eq]
          rw [beq_iff_eq.mp hyid]; exact hne
      refine ⟨fun id => ?_, h.uniq, h.fresh, h.mfresh, h.mns, ?_, fun y hy => h.hfresh y (hsub y hy),
        fun y hy => h.hns y (hsub y hy), h.root⟩
      · have ht : tracked { s with held := s.held.filter (·.2 != hh) } id ↔ tracked s id := Iff.rfl
        rw [ht, h.te]
        unfold elig
        show _ ↔ ∃ p ∈ sig s, p.1 = id ∧ s.sealed.contains p.2 = false ∧ (s.held.filter (·.2 != hh)).any (·.2 == id) = false
        constructor
        · rintro ⟨p, hp, hpid, hs, hhh⟩
          exact ⟨p, hp, hpid, hs, by rw [hany id (by rw [← hpid]; exact hno p hp)]; exact hhh⟩
        · rintro ⟨p, hp, hpid, hs, hhh⟩
          exact ⟨p, hp, hpid, hs, by rw [← hany id (by rw [← hpid]; exact hno p hp)]; exact hhh⟩
      · intro m hm
        refine ⟨(h.mlive m hm).1, ?_⟩
        by_cases hmid : m.1 = hh
        · rw [Bool.eq_false_iff]
          intro hc
          obtain ⟨y, hy, hyid⟩ := List.any_eq_true.mp hc
          have := (List.mem_filter.mp hy).2
          simp [beq_iff_eq.mp hyid, hmid] at this
        · rw [hany m.1 hmid]; exact (h.mlive m hm).2

/-! ### restart: tracking is rebuilt from storage alone -/

/-- what a restart needs of the state before it: storage is a map with fresh ids, the root namespace is not sealed -/
structure WF (s : St) : Prop where
  uniq : ∀ p ∈ sig s, ∀ q ∈ sig s, p.1 = q.1 → p = q
  fresh : ∀ p ∈ sig s, p.1 < s.next
  root : s.sealed.contains 0 = false

theorem Inv.wf {s : St} (h : Inv s) : WF s := ⟨h.uniq, h.fresh, h.root⟩

theorem tracked_restore (ls : List Lease) (s : St) (id : Nat) :
    tracked (restore ls s) id ↔ tracked s id ∨ ∃ l ∈ ls, l.id = id := by
  unfold restore
  induction ls generalizing s with
  | nil => simp
  | cons a t ih =>
    simp only [List.foldl_cons, List.mem_cons]
    rw [ih, tracked_updatePending]
    constructor
    · rintro ((h | rfl) | ⟨l, hl, rfl⟩)
      · exact Or.inl h
      · exact Or.inr ⟨a, Or.inl rfl, rfl⟩
      · exact Or.inr ⟨l, Or.inr hl, rfl⟩
    · rintro (h | ⟨l, (rfl | hl), rfl⟩)
      · exact Or.inl (Or.inl h)
      · exact Or.inl (Or.inr rfl)
      · exact Or.inr ⟨l, hl, rfl⟩

theorem restore_frame (ls : List Lease) (s : St) :
    (restore ls s).stored = s.stored ∧ (restore ls s).marks = s.marks ∧ (restore ls s).sealed = s.sealed ∧
    (restore ls s).held = s.held ∧ (restore ls s).next = s.next := by
  unfold restore
  induction ls generalizing s with
  | nil => exact ⟨rfl, rfl, rfl, rfl, rfl⟩
  | cons a t ih =>
    simp only [List.foldl_cons]
    obtain ⟨f1, f2, f3, f4, f5, _⟩ := updatePending_frame s a
    obtain ⟨i1, i2, i3, i4, i5⟩ := ih (updatePending s a)
    exact ⟨i1.trans f1, i2.trans f2, i3.trans f3, i4.trans f4, i5.trans f5⟩

theorem Inv_restore_of (s0 : St) (hw : WF s0) (e3 : s0.held = []) (e4 : s0.marks = []) (e6 : ∀ id, ¬ tracked s0 id) :
    Inv (restore (s0.stored.filter fun l => !s0.sealed.contains l.ns) s0) := by
  obtain ⟨r1, r2, r3, r4, r5⟩ := restore_frame (s0.stored.filter fun l => !s0.sealed.contains l.ns) s0
  have hsig : sig (restore (s0.stored.filter fun l => !s0.sealed.contains l.ns) s0) = sig s0 := by
    unfold sig; rw [r1]
  refine ⟨fun id => ?_, by rw [hsig]; exact hw.uniq, by rw [hsig, r5]; exact hw.fresh, by rw [r2, e4]; simp,
    by rw [r2, e4]; simp, by rw [r2, e4]; simp, by rw [r4, e3]; simp, by rw [r4, e3]; simp, by rw [r3]; exact hw.root⟩
  rw [tracked_restore]
  unfold elig
  rw [hsig, r3, r4, e3]
  constructor
  · rintro (h1 | ⟨l, hl, rfl⟩)
    · exact absurd h1 (e6 id)
    · obtain ⟨hl1, hl2⟩ := List.mem_filter.mp hl
      exact ⟨(l.id, l.ns), (mem_sig s0 _).mpr ⟨l, hl1, rfl⟩, rfl, by simpa using hl2, rfl⟩
  · rintro ⟨p, hp, hpid, hs, _⟩
    obtain ⟨l, hl, hlp⟩ := (mem_sig s0 p).mp hp
    refine Or.inr ⟨l, List.mem_filter.mpr ⟨hl, ?_⟩, by rw [← hpid, ← hlp]⟩
    rw [← hlp] at hs
    simpa using hs

/-- a restore that completes although reads may fail has handled every collected lease: it IS the fault-free restore,
and no collected lease's read failed -/
theorem restoreF_some (fail : Nat → Bool) (ls : List Lease) (s s' : St) :
    restoreF fail ls s = some s' ↔ (s' = restore ls s ∧ ∀ l ∈ ls, fail l.id = false) := by
  unfold restore
  induction ls generalizing s with
  | nil =>
    simp only [restoreF, List.foldl_nil, List.not_mem_nil, false_imp_iff, implies_true, and_true, Option.some.injEq]
    exact eq_comm
  | cons a t ih =>
    simp only [restoreF, List.foldl_cons, List.mem_cons, forall_eq_or_imp]
    split
    · rename_i hf; simp [hf]
    · rename_i hf
      rw [ih]
      simp only [Bool.not_eq_true] at hf
      simp [hf]

/-- a restart rebuilds tracking from WHATEVER is stored (any memory, any marks, any holds before) -/
theorem Inv_restart (s : St) (hw : WF s) (now : Int) : Inv (restart s now) := by
  unfold restart
  apply Inv_settle
  exact Inv_restore_of _ ⟨hw.uniq, hw.fresh, hw.root⟩ rfl rfl (fun id => by simp [tracked])

/-! ### arbitrary storage content after a crash: normalised to a map -/

theorem mem_dedupe (ls : List Lease) (l : Lease) : l ∈ dedupe ls → l ∈ ls := by
  induction ls with
  | nil => simp [dedupe]
  | cons a t ih =>
    unfold dedupe
    intro h
    rcases List.mem_cons.mp h with rfl | h
    · exact List.mem_cons_self ..
    · exact List.mem_cons_of_mem _ (ih (List.mem_filter.mp h).1)

theorem dedupe_uniq (ls : List Lease) : ∀ a ∈ dedupe ls, ∀ b ∈ dedupe ls, a.id = b.id → a = b := by
  induction ls with
  | nil => simp [dedupe]
  | cons x t ih =>
    unfold dedupe
    intro a ha b hb hab
    rcases List.mem_cons.mp ha with rfl | ha <;> rcases List.mem_cons.mp hb with rfl | hb
    · rfl
    · have := (List.mem_filter.mp hb).2; simp [hab] at this
    · have := (List.mem_filter.mp ha).2; simp [hab] at this
    · exact ih a (List.mem_filter.mp ha).1 b (List.mem_filter.mp hb).1 hab

theorem foldl_max_ge (ls : List Lease) (n : Nat) :
    n ≤ ls.foldl (fun n l => max n (l.id + 1)) n ∧ ∀ l ∈ ls, l.id < ls.foldl (fun n l => max n (l.id + 1)) n := by
  induction ls generalizing n with
  | nil => simp
  | cons a t ih =>
    simp only [List.foldl_cons, List.mem_cons, forall_eq_or_imp]
    obtain ⟨i1, i2⟩ := ih (max n (a.id + 1))
    refine ⟨Nat.le_trans (Nat.le_max_left ..) i1, ?_, i2⟩
    exact Nat.lt_of_lt_of_le (Nat.lt_of_lt_of_le (Nat.lt_succ_self _) (Nat.le_max_right n (a.id + 1))) i1

theorem WF_crash (s : St) (h : Inv s) (stored : List Lease) :
    WF { s with stored := dedupe stored, next := (dedupe stored).foldl (fun n l => max n (l.id + 1)) s.next } := by
  refine ⟨?_, ?_, h.root⟩
  · intro p hp q hq hpq
    obtain ⟨a, ha, rfl⟩ := (mem_sig _ p).mp hp
    obtain ⟨b, hb, rfl⟩ := (mem_sig _ q).mp hq
    rw [dedupe_uniq stored a ha b hb hpq]
  · intro p hp
    obtain ⟨a, ha, rfl⟩ := (mem_sig _ p).mp hp
    exact (foldl_max_ge (dedupe stored) s.next).2 a ha

/-! ### every operation, every history -/

theorem tokenLive_live (s : St) (id : Nat) (now : Int) (h : tokenLive s id now = true) (l : Lease)
    (hl : find? s id = some l) : live s l := by
  unfold tokenLive at h
  rw [hl] at h
  simp only [Bool.and_eq_true, Bool.not_eq_true'] at h
  exact h.1.2

theorem Inv_applyOp (s : St) (o : Op) (h : Inv s) : Inv (applyOp s o).1 := by
  cases o with
  | tokCreate ttl emax ren now =>
    simp only [applyOp, tokCreate]
    split
    · (dsimp only; refine Inv_create s h _ rfl ?_; exact h.root)
    · exact h
  | rootCreate now =>
    simp only [applyOp, rootCreate]
    refine Inv_create s h _ ?_ ?_
    · rfl
    · exact h.root
  | reg owner ttl max ren now =>
    simp only [applyOp, reg]
    split
    · exact h
    · split
      · (dsimp only; refine Inv_create s h _ rfl ?_; exact h.root)
      · exact h
  | batchReg ttl max ren now =>
    simp only [applyOp, batchReg]
    split
    · (dsimp only; refine Inv_create s h _ rfl ?_; exact h.root)
    · exact h
  | nsReg ns ttl max ren now =>
    simp only [applyOp, nsReg]
    split
    · exact h
    · rename_i hc
      split
      · dsimp only; refine Inv_create s h _ rfl ?_; simpa using hc
      · exact h
  | renew id incr now =>
    simp only [applyOp, renew]
    split
    · exact h
    · rename_i l hl
      obtain ⟨_, hmem⟩ := find?_some_id s id l hl
      split
      · exact h
      · rename_i hu
        have hv : live s l := by simpa [live] using hu
        have h1 := Inv_loadMark s h l hmem hv
        have hm1 : l ∈ (loadMark s l).stored := by rw [(loadMark_frame s l).1]; exact hmem
        have hv1 := (live_loadMark s l l).mpr hv
        split
        · exact h1
        · split
          · dsimp only; refine Inv_replace _ h1 l _ hm1 hv1 ?_ ?_ <;> rfl
          · exact h1
          · exact h1
  | tokRenew id incr now =>
    simp only [applyOp, tokRenew]
    split
    · exact h
    · rename_i ht
      split
      · exact h
      · rename_i l hl
        obtain ⟨_, hmem⟩ := find?_some_id s id l hl
        have hv : live s l := tokenLive_live s id now (by simpa using ht) l hl
        have h1 := Inv_loadMark s h l hmem hv
        have hm1 : l ∈ (loadMark s l).stored := by rw [(loadMark_frame s l).1]; exact hmem
        have hv1 := (live_loadMark s l l).mpr hv
        split
        · exact h1
        · split
          · dsimp only; refine Inv_replace _ h1 l _ hm1 hv1 ?_ ?_ <;> rfl
          · exact h1
          · exact h1
  | revoke id sync now =>
    simp only [applyOp, revoke]
    split
    · exact h
    · rename_i l hl
      obtain ⟨_, hmem⟩ := find?_some_id s id l hl
      split
      · exact h
      · rename_i hu
        have hv : live s l := by simpa [live] using hu
        split
        · have hr := Inv_revokeSync s l now h hmem hv
          generalize revokeSync s l now = r at hr
          obtain ⟨ok, s1⟩ := r
          cases ok
          · exact hr
          · exact Inv_settle _ _ _ hr
        · exact Inv_settle _ _ _ (Inv_lazyRevoke _ _ _ h)
  | revokeLoadFault id now =>
    simp only [applyOp, revokeLoadFault]
    split
    · exact h
    · rename_i l hl
      obtain ⟨_, hmem⟩ := find?_some_id s id l hl
      split
      · exact h
      · rename_i hu
        have hv : live s l := by simpa [live] using hu
        split
        · exact h
        · dsimp only
          apply Inv_settle
          have h1 := Inv_loadMark s h l hmem hv
          have hm1 : l ∈ (loadMark s l).stored := by rw [(loadMark_frame s l).1]; exact hmem
          have hv1 := (live_loadMark s l l).mpr hv
          have h2 := Inv_replace _ h1 l { l with expiry := some now } hm1 hv1 rfl rfl
          apply Inv_secretJobF _ _ _ _ _ h2
          · rw [(updatePending_frame _ _).1]; exact mem_putLease _ _
          · have e6 : (updatePending (putLease (loadMark s l) { l with expiry := some now }) { l with expiry := some now }).sealed = s.sealed := by
              rw [(updatePending_frame _ _).2.2.1, (putLease_frame _ _).2.2.2.2.2.2.2.1, (loadMark_frame s l).2.1]
            have e7 : (updatePending (putLease (loadMark s l) { l with expiry := some now }) { l with expiry := some now }).held = s.held := by
              rw [(updatePending_frame _ _).2.2.2.1, (putLease_frame _ _).2.2.2.2.2.2.2.2.1, (loadMark_frame s l).2.2.1]
            rw [live_congr s _ _ e6 e7]
            rw [live_iff] at hv ⊢
            exact hv
  | tokRevoke id now =>
    simp only [applyOp, tokRevoke]
    split
    · exact h
    · rename_i ht
      exact Inv_settle _ _ _ (Inv_revokeToken _ _ _ h (tokenLive_live s id now (by simpa using ht)))
  | age id secs now =>
    simp only [applyOp, age]
    split
    · exact h
    · rename_i l hl
      obtain ⟨_, hmem⟩ := find?_some_id s id l hl
      split
      · exact h
      · rename_i hu
        have hv : live s l := by simpa [live] using hu
        have h1 := Inv_loadMark s h l hmem hv
        have hm1 : l ∈ (loadMark s l).stored := by rw [(loadMark_frame s l).1]; exact hmem
        dsimp only
        apply Inv_settle
        refine Inv_replace _ h1 l _ hm1 ((live_loadMark s l l).mpr hv) ?_ ?_ <;> rfl
  | setFail m => exact Inv_congr s _ h rfl rfl rfl rfl rfl rfl rfl rfl
  | freeze on => exact Inv_congr s _ h rfl rfl rfl rfl rfl rfl rfl rfl
  | restart now =>
    simp only [applyOp]
    split
    · exact h
    · exact Inv_restart s h.wf now
  | restartFault fid now =>
    simp only [applyOp]
    split
    · exact h
    · exact Inv_restart s h.wf now
  | unsealNsFault ns fid now =>
    simp only [applyOp]
    unfold unsealNsFault
    split
    · exact h
    · split
      · exact h
      · exact Inv_unsealNs s h ns now
  | nsDelete ns =>
    simp only [applyOp, nsDelete]
    split
    · exact h
    · have : ∀ (ls : List Lease) (s : St), Inv s →
          Inv (ls.foldl (fun s l => untrack (delLease (backendRevoke s l.id).2 l.id) l.id) s) := by
        intro ls
        induction ls with
        | nil => intro s hs; exact hs
        | cons a t ih =>
          intro s hs
          simp only [List.foldl_cons]
          exact ih _ (Inv_delete _ (Inv_backendRevoke s a.id hs) a.id)
      exact this _ s h
  | sealNs ns => exact Inv_sealNs s h ns
  | unsealNs ns now => exact Inv_unsealNs s h ns now
  | unsealBegin ns hh now => exact Inv_unsealBegin s h ns hh now
  | unsealEnd ns now => exact Inv_unsealEnd s h ns now
  | crashRestart stored now => exact Inv_restart _ (WF_crash s h stored) now

theorem Inv_init : Inv St.init := by
  refine ⟨fun id => ?_, ?_, ?_, ?_, ?_, ?_, ?_, ?_, rfl⟩ <;> simp [tracked, elig, sig, St.init]

theorem Inv_run (ops : List Op) (s : St) (h : Inv s) : Inv (run s ops) := by
  induction ops generalizing s with
  | nil => exact h
  | cons o t ih => exact ih _ (Inv_applyOp s o h)

end Obao.Expiration

namespace Obao.Expiration
open Obao.TTL

/-- `calcTTL_bound` of C05, non-periodic arm (restated here so that this module needs only the model) -/
theorem calcTTL_nonperiodic_bound (i : Inp) (ttl : Int) (w : Nat) (hp : i.period ≤ 0) (h : calcTTL i = .ok ttl w) :
    i.now + ttl ≤ i.start + effMax i := by
  unfold calcTTL at h
  simp only at h
  repeat' (split at h)
  all_goals first
    | contradiction
    | (simp only [Out.ok.injEq] at h; omega)

/-- `id` has an entry in storage -/
def sid (s : St) (id : Nat) : Prop := ∃ l ∈ s.stored, l.id = id

/-- the retry loop of the revocation job, started with `a` failures behind it and enough fuel to reach the budget:
it ends with the lease gone from storage or marked irrevocable, after at most `6 - a` further backend calls, and it
never runs out of fuel -/
theorem secretJob_budget (fuel : Nat) (s : St) (l : Lease) (a : Nat) (hf : a + fuel ≥ maxRevokeAttempts + 1)
    (ha : a < maxRevokeAttempts) :
    (secretJob fuel s l a).outOfFuel = s.outOfFuel ∧
    (secretJob fuel s l a).calls ≤ s.calls + (maxRevokeAttempts - a) ∧
    ((¬ sid (secretJob fuel s l a) l.id) ∨
      (l.id ∈ (secretJob fuel s l a).irrevocable ∧ ∃ l' ∈ (secretJob fuel s l a).stored, l'.id = l.id ∧ l'.irrevocable = true)) := by
  induction fuel generalizing s a with
  | zero => unfold maxRevokeAttempts at *; omega
  | succ n ih =>
    unfold secretJob
    dsimp only
    have hcalls : (backendRevoke (loadMark s l) l.id).2.calls = s.calls + 1 := by
      rw [(backendRevoke_frame _ _).2.2.2.2.2.2.2.2.2.2.1, (loadMark_frame s l).2.2.2.2.1]
    have hfuel : (backendRevoke (loadMark s l) l.id).2.outOfFuel = s.outOfFuel := by
      rw [(backendRevoke_frame _ _).2.2.2.2.2.2.2.2.2.1, (loadMark_frame s l).2.2.2.2.2.1]
    generalize backendRevoke (loadMark s l) l.id = r at hcalls hfuel ⊢
    obtain ⟨ok, s1⟩ := r
    simp only at hcalls hfuel ⊢
    split
    · refine ⟨hfuel, ?_, Or.inl ?_⟩
      · show s1.calls ≤ _; unfold maxRevokeAttempts at *; omega
      · rintro ⟨l', hl', hid⟩
        have : l' ∈ s1.stored.filter (·.id != l.id) := hl'
        have := (List.mem_filter.mp this).2
        simp [hid] at this
    · split
      · obtain ⟨hc, ho, _, hm⟩ := markIrrevocable_frame s1 l
        refine ⟨ho.trans hfuel, ?_, Or.inr ⟨hm, ?_⟩⟩
        · rw [hc]; unfold maxRevokeAttempts at *; omega
        · have hmp := mem_putLease s1 { l with irrevocable := true }
          refine ⟨{ l with irrevocable := true }, hmp, rfl, ?_⟩
          exact rfl
      · rename_i hnot
        have hlt : a + 1 < maxRevokeAttempts := by
          simp only [ge_iff_le, Bool.or_eq_true, decide_eq_true_eq, not_or] at hnot
          exact Nat.lt_of_not_le hnot.1
        have := ih s1 (a + 1) (by omega) hlt
        refine ⟨this.1.trans hfuel, ?_, this.2.2⟩
        have h2 := this.2.1
        unfold maxRevokeAttempts at *
        omega

/-- the same with `f` failing storage reads at the marking point: still resolved, after at most `f` further calls -/
theorem secretJobF_budget (fuel : Nat) (s : St) (l : Lease) (a f : Nat) (hf : a + fuel ≥ maxRevokeAttempts + 1 + f)
    (ha : a < maxRevokeAttempts) :
    (secretJobF fuel s l a f).outOfFuel = s.outOfFuel ∧
    (secretJobF fuel s l a f).calls ≤ s.calls + (maxRevokeAttempts - a) + f ∧
    ((¬ sid (secretJobF fuel s l a f) l.id) ∨
      (l.id ∈ (secretJobF fuel s l a f).irrevocable ∧ ∃ l' ∈ (secretJobF fuel s l a f).stored, l'.id = l.id ∧ l'.irrevocable = true)) := by
  induction fuel generalizing s a f with
  | zero => unfold maxRevokeAttempts at *; omega
  | succ n ih =>
    unfold secretJobF
    dsimp only
    have hcalls : (backendRevoke (loadMark s l) l.id).2.calls = s.calls + 1 := by
      rw [(backendRevoke_frame _ _).2.2.2.2.2.2.2.2.2.2.1, (loadMark_frame s l).2.2.2.2.1]
    have hfuel : (backendRevoke (loadMark s l) l.id).2.outOfFuel = s.outOfFuel := by
      rw [(backendRevoke_frame _ _).2.2.2.2.2.2.2.2.2.1, (loadMark_frame s l).2.2.2.2.2.1]
    generalize backendRevoke (loadMark s l) l.id = r at hcalls hfuel ⊢
    obtain ⟨ok, s1⟩ := r
    simp only at hcalls hfuel ⊢
    split
    · refine ⟨hfuel, ?_, Or.inl ?_⟩
      · show s1.calls ≤ _; unfold maxRevokeAttempts at *; omega
      · rintro ⟨l', hl', hid⟩
        have : l' ∈ s1.stored.filter (·.id != l.id) := hl'
        have := (List.mem_filter.mp this).2
        simp [hid] at this
    · split
      · cases f with
        | zero =>
          obtain ⟨hc, ho, _, hm⟩ := markIrrevocable_frame s1 l
          refine ⟨ho.trans hfuel, ?_, Or.inr ⟨hm, ?_⟩⟩
          · rw [hc]; unfold maxRevokeAttempts at *; omega
          · have hmp := mem_putLease s1 { l with irrevocable := true }
            refine ⟨{ l with irrevocable := true }, hmp, rfl, ?_⟩
            exact rfl
        | succ f' =>
          have hmin : a ≤ min (a + 1) (maxRevokeAttempts - 1) ∧ min (a + 1) (maxRevokeAttempts - 1) < maxRevokeAttempts := by
            unfold maxRevokeAttempts at *; omega
          generalize min (a + 1) (maxRevokeAttempts - 1) = m at hmin ⊢
          have := ih s1 m f' (by omega) hmin.2
          dsimp only
          refine ⟨this.1.trans hfuel, ?_, this.2.2⟩
          have h2 := this.2.1
          unfold maxRevokeAttempts at *
          omega
      · rename_i hnot
        have hlt : a + 1 < maxRevokeAttempts := by
          simp only [ge_iff_le, Bool.or_eq_true, decide_eq_true_eq, not_or] at hnot
          exact Nat.lt_of_not_le hnot.1
        have := ih s1 (a + 1) f (by omega) hlt
        refine ⟨this.1.trans hfuel, ?_, this.2.2⟩
        have h2 := this.2.1
        unfold maxRevokeAttempts at *
        omega

theorem updatePending_frozen (s : St) (l : Lease) : (updatePending s l).frozen = s.frozen := by
  unfold updatePending
  split
  · rfl
  · split <;> rfl

theorem lazyRevoke_frozen (s : St) (id : Nat) (now : Int) : (lazyRevoke s id now).frozen = s.frozen := by
  unfold lazyRevoke
  split
  · rfl
  · split
    · rfl
    · dsimp only
      rw [updatePending_frozen, (putLease_frame _ _).2.2.2.2.2.1, (loadMark_frame _ _).2.2.2.1]

theorem revokeToken_frozen (s : St) (id : Nat) (now : Int) : (revokeToken s id now).frozen = s.frozen := by
  unfold revokeToken
  have : ∀ (ids : List Nat) (s : St), (ids.foldl (fun s o => lazyRevoke s o now) s).frozen = s.frozen := by
    intro ids
    induction ids with
    | nil => intro s; rfl
    | cons a t ih => intro s; simp only [List.foldl_cons]; rw [ih, lazyRevoke_frozen]
  dsimp only
  show (List.foldl (fun s o => lazyRevoke s o now) _ _).frozen = s.frozen
  rw [this]
  cases find? s id with
  | none => rfl
  | some l => exact (loadMark_frame s l).2.2.2.1

/-- when `settle` returns without having run out of fuel and the strategy is live, no tracked-as-pending lease is
at or past its expiry: each was handed to a revocation job -/
theorem settle_resolves (fuel : Nat) (s : St) (now : Int) (hfr : s.frozen = false)
    (hfuel : (settle fuel s now).outOfFuel = false) :
    ∀ l ∈ (settle fuel s now).stored, l.id ∈ (settle fuel s now).pending →
      match l.expiry with | some e => now < e | none => True := by
  induction fuel generalizing s with
  | zero => simp [settle] at hfuel
  | succ n ih =>
    unfold settle at hfuel ⊢
    simp only [hfr, Bool.false_eq_true, if_false] at hfuel ⊢
    generalize hfind : List.find? _ s.stored = r at hfuel ⊢
    cases r with
    | none =>
      intro l hl hp
      have := List.find?_eq_none.mp hfind l hl
      simp only at hl hp
      simp only [hp, List.contains_eq_mem, decide_true, Bool.true_and] at this
      cases he : l.expiry with
      | none => trivial
      | some e =>
        simp only [he, decide_eq_true_eq] at this ⊢
        exact Int.lt_of_not_ge this
    | some l0 =>
      simp only at hfuel ⊢
      apply ih
      · split
        · rw [revokeToken_frozen]; exact hfr
        · -- `secretJob` does not touch `frozen`
          have : ∀ fuel s l a, (secretJob fuel s l a).frozen = s.frozen := by
            intro fuel
            induction fuel with
            | zero => intros; rfl
            | succ m ihm =>
              intro s l a
              unfold secretJob
              dsimp only
              have hb : (backendRevoke (loadMark s l) l.id).2.frozen = s.frozen := by
                rw [(backendRevoke_frame _ _).2.2.2.2.2.2.2.2.1, (loadMark_frame s l).2.2.2.1]
              generalize backendRevoke (loadMark s l) l.id = r at hb ⊢
              obtain ⟨ok, s1⟩ := r
              simp only at hb ⊢
              split
              · exact hb
              · split
                · exact (markIrrevocable_frame s1 l).2.2.1.trans hb
                · rw [ihm]; exact hb
          rw [this]; exact hfr
      · exact hfuel

theorem renewableCheck_some (l : Lease) (now : Int)
    (h : l.irrevocable = true ∨ l.expiry = none ∨ expired l now = true ∨ (l.renewable = false ∧ l.batch = false)) :
    ∃ e, renewableCheck l now = some e := by
  unfold renewableCheck
  by_cases h1 : l.irrevocable = true
  · exact ⟨"irrevocable", by simp [h1]⟩
  · by_cases h2 : l.expiry = none
    · exact ⟨"notrenewable", by simp [h1, h2]⟩
    · have hn : l.expiry.isNone = false := by cases he : l.expiry <;> simp_all
      by_cases h3 : expired l now = true
      · exact ⟨"expired", by simp [h1, hn, h3]⟩
      · have h4 : l.renewable = false ∧ l.batch = false := by
          rcases h with h | h | h | h
          · exact absurd h h1
          · exact absurd h h2
          · exact absurd h h3
          · exact h
        exact ⟨"notrenewable", by simp [h1, hn, h3, h4.1, h4.2]⟩

/-- replacing a stored lease: the new entry is in storage -/
theorem mem_putLease_of_stored (s : St) (l l2 : Lease) (hl : l ∈ s.stored) (hid : l2.id = l.id) :
    l2 ∈ (putLease s l2).stored := by
  unfold putLease
  have hany : s.stored.any (fun x => x.id == l2.id) = true :=
    List.any_eq_true.mpr ⟨l, hl, by simp [hid]⟩
  simp only [hany, if_true, List.mem_map]
  exact ⟨l, hl, by simp [hid]⟩

theorem elig_iff (s : St) (id : Nat) :
    elig s id ↔ ∃ l ∈ s.stored, l.id = id ∧ unreachable s l = false := by
  unfold elig
  constructor
  · rintro ⟨p, hp, hpid, hs, hh⟩
    obtain ⟨l, hl, hlp⟩ := (mem_sig s p).mp hp
    refine ⟨l, hl, by rw [← hpid, ← hlp], ?_⟩
    have h1 : l.id = id := by rw [← hpid, ← hlp]
    have h2 : l.ns = p.2 := by rw [← hlp]
    unfold unreachable
    rw [h1, h2, hs, hh]; rfl
  · rintro ⟨l, hl, hid, hu⟩
    have := (live_iff s l).mp hu
    exact ⟨(l.id, l.ns), (mem_sig s _).mpr ⟨l, hl, rfl⟩, hid, this.1, by rw [← hid]; exact this.2⟩

end Obao.Expiration
